(* ChainRuleP.v — the back-edge closures of gradients.go are their source chains  (see ChainBaseP.v for the scheme). *)
From Coq Require Import String List ZArith Bool Arith.
From Qeep Require Import Model.Scalar Model.Nd Model.Fill Model.Data Model.Valid Model.Api Model.Grad
  Model.Components Model.ChainIR.
From Qeep Require Model.Chains.
Import ListNotations.
Local Open Scope string_scope.
From Qeep Require Import Proofs.ChainBaseP.

Section RuleC.
Context {A : Type} {SA : Scalar A}.
Notation T := (tensor A).
Notation heap := (@heap A).

(* ---- back-edge closures of tensor/internal/gradtrack/gradients.go ----
   Each theorem: the model's rule ([eval_rule], which first looks up the captured tensors' values and
   the result's gradient) IS the generated closure chain interpreted on those values.  The resolver
   maps the captured non-tensor variables (a, dim, index) and the few derived expressions to the
   quantities the model uses; anything else would be [Panic]. *)

Definition vrRB (x : T) (dim : Z) : @vresolver A :=
  mkVR (lk []) (lk [("dim", dim)]) (lk [("x.Shape()", zdims x)]) (lk []) (fun _ => None).

(* gradient_helpers.go: toZeros, toOnes, reducerBroadcasted(y, x, dim) *)
Definition helperUser (it : lets -> string -> option Z) : vuserfun := fun f =>
  if String.eqb f "toZeros" then
    Some (fun args => match args with
                      | [VT t] => asRes (runFun (hooksV vrNone noVUser noBind noCond) Chains.g_toZeros tt [("t", t)])
                      | _ => Panic end)
  else if String.eqb f "toOnes" then
    Some (fun args => match args with
                      | [VT t] => asRes (runFun (hooksV vrNone noVUser noBind noCond) Chains.g_toOnes tt [("t", t)])
                      | _ => Panic end)
  else if String.eqb f "reducerBroadcasted" then
    Some (fun args => match args with
                      | [VT y; VT x; VX d] =>
                          match it [] d with
                          | Some dim => asRes (runFun (hooksV (vrRB x dim) noVUser noBind noCond)
                                                 Chains.g_reducerBroadcasted tt [("y", y); ("x", x)])
                          | None => Panic
                          end
                      | _ => Panic end)
  else None.
Definition hu0 : vuserfun := helperUser (lk []).

Theorem toZeros_chain (t : T) :
  toZeros t = asRes (runFun (hooksV vrNone noVUser noBind noCond) Chains.g_toZeros tt [("t", t)]).
Proof. unfold toZeros. vgo. Qed.
Theorem toOnes_chain (t : T) :
  toOnes t = asRes (runFun (hooksV vrNone noVUser noBind noCond) Chains.g_toOnes tt [("t", t)]).
Proof. unfold toOnes. vgo. Qed.
Theorem reducerBroadcasted_chain (y x : T) dim :
  reducerBroadcasted y x dim =
  asRes (runFun (hooksV (vrRB x dim) noVUser noBind noCond) Chains.g_reducerBroadcasted tt [("y", y); ("x", x)]).
Proof. unfold reducerBroadcasted. vgo. Qed.

Section Rule.
Variable rd : bred.
Variable h : heap.

Theorem back_Slice_0_chain y x index :
  eval_rule rd h (RSliceX y x index) =
  dor gy <- gy_of h y; dor xv <- val_of h x;
  asRes (runFun (hooksV (vrOf gy (lk []) (lk []) (lk []) (lk [("index", index)])) hu0 noBind noCond)
           Chains.back_Slice_0 tt [("x", xv)]).
Proof. open_rule. rewrite toZeros_chain. vgo. Qed.

Theorem back_Patch_0_chain y p index :
  eval_rule rd h (RPatchX y p index) =
  dor gy <- gy_of h y; dor pv <- val_of h p;
  asRes (runFun (hooksV (vrOf gy (lk []) (lk []) (lk []) (lk [("index", index)])) hu0 noBind noCond)
           Chains.back_Patch_0 tt [("p", pv)]).
Proof. open_rule. rewrite toZeros_chain. vgo. Qed.

Theorem back_Patch_1_chain y p index :
  eval_rule rd h (RPatchP y p index) =
  dor gy <- gy_of h y; dor pv <- val_of h p;
  asRes (runFun (hooksV (vrOf gy (lk []) (lk []) (lk [])
                          (lk [("patchedRegion(index, p.Shape())", patchedRegion index (zdims pv))])) hu0 noBind noCond)
           Chains.back_Patch_1 tt [("p", pv)]).
Proof. open_rule. vgo. Qed.

Theorem back_Transpose_0_chain y :
  eval_rule rd h (RTranspose y) =
  dor gy <- gy_of h y; asRes (runFun (hooksV (vrG gy) hu0 noBind noCond) Chains.back_Transpose_0 tt []).
Proof. open_rule. vgo. Qed.

Definition reshapeBack (c : cfun) y x :=
  eval_rule rd h (RReshape y x) =
  dor gy <- gy_of h y; dor xv <- val_of h x;
  asRes (runFun (hooksV (vrOf gy (lk []) (lk []) (lk [("x.Shape()", zdims xv)]) (lk [])) hu0 noBind noCond) c tt [("x", xv)]).
Theorem back_Reshape_0_chain y x : reshapeBack Chains.back_Reshape_0 y x.
Proof. unfold reshapeBack. open_rule. vgo. Qed.
Theorem back_UnSqueeze_0_chain y x : reshapeBack Chains.back_UnSqueeze_0 y x.
Proof. unfold reshapeBack. open_rule. vgo. Qed.
Theorem back_Squeeze_0_chain y x : reshapeBack Chains.back_Squeeze_0 y x.
Proof. unfold reshapeBack. open_rule. vgo. Qed.
Theorem back_Flatten_0_chain y x : reshapeBack Chains.back_Flatten_0 y x.
Proof. unfold reshapeBack. open_rule. vgo. Qed.

(* reducers: dim is the captured dimension *)
Definition dimI (dim : Z) : lets -> string -> option Z := lk [("dim", dim)].

Theorem back_SumAlong_0_chain y x dim :
  eval_rule rd h (RSumAlong y x dim) =
  dor gy <- gy_of h y; dor xv <- val_of h x;
  asRes (runFun (hooksV (vrOf gy (lk []) (dimI dim) (lk []) (lk [])) (helperUser (dimI dim)) noBind noCond)
           Chains.back_SumAlong_0 tt [("x", xv)]).
Proof. open_rule. rewrite reducerBroadcasted_chain. vgo. Qed.

Definition extBack (c : cfun) y x dim :=
  eval_rule rd h (RExtAlong y x dim) =
  dor gy <- gy_of h y; dor xv <- val_of h x; dor yv <- val_of h y;
  asRes (runFun (hooksV (vrOf gy (lk []) (dimI dim) (lk []) (lk [])) (helperUser (dimI dim)) noBind noCond)
           c tt [("y", yv); ("x", xv)]).
Theorem back_MaxAlong_0_chain y x dim : extBack Chains.back_MaxAlong_0 y x dim.
Proof. unfold extBack. open_rule. rewrite !reducerBroadcasted_chain. vgo. Qed.
Theorem back_MinAlong_0_chain y x dim : extBack Chains.back_MinAlong_0 y x dim.
Proof. unfold extBack. open_rule. rewrite !reducerBroadcasted_chain. vgo. Qed.

(* n := float64(x.Shape()[dim]);  Scale(1 / n) *)
Definition avgScalar (xv : T) (dim : Z) : lets -> string -> option A := fun ls t =>
  match lookupS ls "n" with
  | Some e => if String.eqb e "float64(x.Shape()[dim])" && String.eqb t "1 / n"
              then Some (sdiv (cst 1 0) (sofnat (dimAt xv dim))) else None
  | None => None
  end.
Definition avgBack (c : cfun) y x dim :=
  eval_rule rd h (RAvgAlong y x dim) =
  dor gy <- gy_of h y; dor xv <- val_of h x;
  asRes (runFun (hooksV (vrOf gy (avgScalar xv dim) (dimI dim) (lk []) (lk [])) (helperUser (dimI dim)) noBind noCond)
           c tt [("x", xv)]).
Theorem back_AvgAlong_0_chain y x dim : avgBack Chains.back_AvgAlong_0 y x dim.
Proof. unfold avgBack. open_rule. rewrite reducerBroadcasted_chain. vgo. Qed.
Theorem back_MeanAlong_0_chain y x dim : avgBack Chains.back_MeanAlong_0 y x dim.
Proof. unfold avgBack. open_rule. rewrite reducerBroadcasted_chain. vgo. Qed.

(* n := x.Shape()[dim];  if n == 1 { zeros };  Scale(2 / float64(n - 1)) resp. Scale(1 / float64(n - 1)) *)
Definition nIs (ls : lets) : bool :=
  match lookupS ls "n" with Some e => String.eqb e "x.Shape()[dim]" | None => false end.
Definition varScalar (xv : T) (dim : Z) (txt : string) (num : Z) : lets -> string -> option A := fun ls t =>
  if nIs ls && String.eqb t txt then Some (sdiv (cst num 0) (sofnat (dimAt xv dim - 1))) else None.
Definition varCond (xv : T) (dim : Z) : lets -> string -> option bool := fun ls t =>
  if nIs ls && String.eqb t "n == 1" then Some (dimAt xv dim =? 1)%nat else None.

Theorem back_VarAlong_0_chain y x dim :
  eval_rule rd h (RVarAlong y x dim) =
  dor gy <- gy_of h y; dor xv <- val_of h x;
  asRes (runFun (hooksV (vrOf gy (varScalar xv dim "2 / float64(n - 1)" 2) (dimI dim) (lk []) (lk []))
                   (helperUser (dimI dim)) noBind (varCond xv dim))
           Chains.back_VarAlong_0 tt [("x", xv)]).
Proof.
  open_rule. rewrite reducerBroadcasted_chain. cbn.
  match goal with |- res_bind ?X _ = _ => destruct X as [?| |]; [|reflexivity|reflexivity] end.
  cbn. unfold varCond, nIs. cbn. destruct (dimAt _ dim =? 1)%nat; [rewrite toZeros_chain; vgo|]. vgo.
Qed.

Theorem back_StdAlong_0_chain y x dim :
  eval_rule rd h (RStdAlong y x dim) =
  dor gy <- gy_of h y; dor xv <- val_of h x; dor yv <- val_of h y;
  asRes (runFun (hooksV (vrOf gy (varScalar xv dim "1 / float64(n - 1)" 1) (dimI dim) (lk []) (lk []))
                   (helperUser (dimI dim)) noBind (varCond xv dim))
           Chains.back_StdAlong_0 tt [("y", yv); ("x", xv)]).
Proof.
  open_rule. rewrite reducerBroadcasted_chain. cbn.
  match goal with |- res_bind ?X _ = _ => destruct X as [?| |]; [|reflexivity|reflexivity] end.
  cbn. unfold varCond, nIs. cbn. destruct (dimAt _ dim =? 1)%nat; [rewrite toZeros_chain; vgo|]. vgo.
Qed.

(* element-wise *)
Theorem back_Scale_0_chain y a :
  eval_rule rd h (RScale y a) =
  dor gy <- gy_of h y;
  asRes (runFun (hooksV (vrOf gy (lk [("a", a)]) (lk []) (lk []) (lk [])) hu0 noBind noCond) Chains.back_Scale_0 tt []).
Proof. open_rule. vgo. Qed.

(* if a == 0 { zeros };  x.Pow(a - 1).Scale(a) *)
Theorem back_Pow_0_chain y x a azero :
  eval_rule rd h (RPow y x a azero) =
  dor gy <- gy_of h y; dor xv <- val_of h x;
  asRes (runFun (hooksV (vrOf gy (lk [("a - 1", ssub a (cst 1 0)); ("a", a)]) (lk []) (lk []) (lk [])) hu0 noBind
                   (fun _ t => if String.eqb t "a == 0" then Some azero else None))
           Chains.back_Pow_0 tt [("x", xv)]).
Proof. open_rule. cbn. destruct azero; [rewrite toZeros_chain; vgo|vgo]. Qed.

Theorem back_Exp_0_chain y :
  eval_rule rd h (RExp y) =
  dor gy <- gy_of h y; dor yv <- val_of h y;
  asRes (runFun (hooksV (vrG gy) hu0 noBind noCond) Chains.back_Exp_0 tt [("y", yv)]).
Proof. open_rule. vgo. Qed.

Definition unaryBack (r : nat -> nat -> rule) (c : cfun) y x :=
  eval_rule rd h (r y x) =
  dor gy <- gy_of h y; dor xv <- val_of h x;
  asRes (runFun (hooksV (vrG gy) hu0 noBind noCond) c tt [("x", xv)]).
Theorem back_Log_0_chain y x : unaryBack (@RLog A) Chains.back_Log_0 y x.
Proof. unfold unaryBack. open_rule. vgo. Qed.
Theorem back_Sin_0_chain y x : unaryBack (@RSin A) Chains.back_Sin_0 y x.
Proof. unfold unaryBack. open_rule. vgo. Qed.
Theorem back_Cos_0_chain y x : unaryBack (@RCos A) Chains.back_Cos_0 y x.
Proof. unfold unaryBack. open_rule. unfold cst. vgo. Qed.
Theorem back_Tan_0_chain y x : unaryBack (@RTan A) Chains.back_Tan_0 y x.
Proof. unfold unaryBack. open_rule. unfold cst. vgo. Qed.
Theorem back_Sinh_0_chain y x : unaryBack (@RSinh A) Chains.back_Sinh_0 y x.
Proof. unfold unaryBack. open_rule. vgo. Qed.
Theorem back_Cosh_0_chain y x : unaryBack (@RCosh A) Chains.back_Cosh_0 y x.
Proof. unfold unaryBack. open_rule. vgo. Qed.
Theorem back_Tanh_0_chain y x : unaryBack (@RTanh A) Chains.back_Tanh_0 y x.
Proof. unfold unaryBack. open_rule. unfold cst. vgo. Qed.

(* ElMax / ElMin: edge 0 targets a (rule RElSel y a b), edge 1 targets b (rule RElSel y b a) *)
Definition elselBack (c : cfun) (first : bool) y a b :=
  eval_rule rd h (if first then RElSel y a b else RElSel y b a) =
  (if first
   then dor gy <- gy_of h y; dor yv <- val_of h y; dor av <- val_of h a; dor bv <- val_of h b;
        asRes (runFun (hooksV (vrG gy) hu0 noBind noCond) c tt [("y", yv); ("a", av); ("b", bv)])
   else dor gy <- gy_of h y; dor yv <- val_of h y; dor bv <- val_of h b; dor av <- val_of h a;
        asRes (runFun (hooksV (vrG gy) hu0 noBind noCond) c tt [("y", yv); ("a", av); ("b", bv)])).
Theorem back_ElMax_0_chain y a b : elselBack Chains.back_ElMax_0 true y a b.
Proof. unfold elselBack. open_rule. unfold cst. vgo. Qed.
Theorem back_ElMax_1_chain y a b : elselBack Chains.back_ElMax_1 false y a b.
Proof. unfold elselBack. open_rule. unfold cst. vgo. Qed.
Theorem back_ElMin_0_chain y a b : elselBack Chains.back_ElMin_0 true y a b.
Proof. unfold elselBack. open_rule. unfold cst. vgo. Qed.
Theorem back_ElMin_1_chain y a b : elselBack Chains.back_ElMin_1 false y a b.
Proof. unfold elselBack. open_rule. unfold cst. vgo. Qed.

(* arithmetic *)
Definition gyOnly (r : rule) (c : cfun) y :=
  eval_rule rd h r = dor gy <- gy_of h y; asRes (runFun (hooksV (vrG gy) hu0 noBind noCond) c tt []).
Theorem back_Add_0_chain y : gyOnly (RId y) Chains.back_Add_0 y.
Proof. unfold gyOnly. unfold eval_rule. destruct (gy_of h y); reflexivity. Qed.
Theorem back_Add_1_chain y : gyOnly (RId y) Chains.back_Add_1 y.
Proof. unfold gyOnly. unfold eval_rule. destruct (gy_of h y); reflexivity. Qed.
Theorem back_Sub_0_chain y : gyOnly (RId y) Chains.back_Sub_0 y.
Proof. unfold gyOnly. unfold eval_rule. destruct (gy_of h y); reflexivity. Qed.
Theorem back_Sub_1_chain y : gyOnly (RNeg y) Chains.back_Sub_1 y.
Proof. unfold gyOnly. open_rule. unfold cst. vgo. Qed.

Theorem back_Mul_0_chain y b :
  eval_rule rd h (RMul y b) =
  dor gy <- gy_of h y; dor bv <- val_of h b; asRes (runFun (hooksV (vrG gy) hu0 noBind noCond) Chains.back_Mul_0 tt [("b", bv)]).
Proof. open_rule. vgo. Qed.
Theorem back_Mul_1_chain y a :
  eval_rule rd h (RMul y a) =
  dor gy <- gy_of h y; dor av <- val_of h a; asRes (runFun (hooksV (vrG gy) hu0 noBind noCond) Chains.back_Mul_1 tt [("a", av)]).
Proof. open_rule. vgo. Qed.
Theorem back_Div_0_chain y b :
  eval_rule rd h (RDivA y b) =
  dor gy <- gy_of h y; dor bv <- val_of h b; asRes (runFun (hooksV (vrG gy) hu0 noBind noCond) Chains.back_Div_0 tt [("b", bv)]).
Proof. open_rule. vgo. Qed.
Theorem back_Div_1_chain y a b :
  eval_rule rd h (RDivB y a b) =
  dor gy <- gy_of h y; dor av <- val_of h a; dor bv <- val_of h b;
  asRes (runFun (hooksV (vrG gy) hu0 noBind noCond) Chains.back_Div_1 tt [("a", av); ("b", bv)]).
Proof. open_rule. unfold cst. vgo. Qed.

(* Dot (fix F2: the contracted dimension is restored first), MatMul *)
Definition dotBack (c : cfun) (nm : string) y o :=
  eval_rule rd h (RDot y o) =
  dor gy <- gy_of h y; dor yv <- val_of h y; dor ov <- val_of h o;
  asRes (runFun (hooksV (vrOf gy (lk []) (lk [("len(y.Shape())", zlen (dims yv))]) (lk []) (lk [])) hu0 noBind noCond)
           c tt [(nm, ov)]).
Theorem back_Dot_0_chain y b : dotBack Chains.back_Dot_0 "b" y b.
Proof. unfold dotBack. open_rule. vgo. Qed.
Theorem back_Dot_1_chain y a : dotBack Chains.back_Dot_1 "a" y a.
Proof. unfold dotBack. open_rule. vgo. Qed.

Theorem back_MatMul_0_chain y b :
  eval_rule rd h (RMatMulA y b) =
  dor gy <- gy_of h y; dor bv <- val_of h b; asRes (runFun (hooksV (vrG gy) hu0 noBind noCond) Chains.back_MatMul_0 tt [("b", bv)]).
Proof. open_rule. vgo. Qed.
Theorem back_MatMul_1_chain y a :
  eval_rule rd h (RMatMulB y a) =
  dor gy <- gy_of h y; dor av <- val_of h a; asRes (runFun (hooksV (vrG gy) hu0 noBind noCond) Chains.back_MatMul_1 tt [("a", av)]).
Proof. open_rule. vgo. Qed.

End Rule.

(* every function of gradients.go starts with the same three-way test: spent operand -> spent result,
   no tracked operand -> untracked result ([mkCtx] in the model) *)
Definition prologue_of (args : string) : string :=
  "if anyIsBPDirty(" ++ args ++ ") { return NewDirtyGradContext() } if nonIsTracked(" ++ args ++ ") { return NewGradContext(false) }".
Definition prologue_ok (p : string * string) : bool :=
  String.eqb (snd p) (prologue_of "x") || String.eqb (snd p) (prologue_of "a, b") ||
  (String.eqb (fst p) "Patch" && String.eqb (snd p) (prologue_of "x, p")).
Theorem rule_prologues_ok : forallb prologue_ok Chains.rule_prologues = true /\ length Chains.rule_prologues = 32%nat.
Proof. split; vm_compute; reflexivity. Qed.

End RuleC.
