(* TotalDeriv3P.v — the chain-rule step ([chain_hyp] of TotalDerivP.v, per node as in TotalDeriv2P.v)
   for the node kinds TotalDeriv2P.v leaves open.
   1. ElMax / ElMin away from ties: [curve_diff2_max_gt/_lt], [curve_diff2_min_lt/_gt] (Rmax / Rmin is
      locally a projection along any pair of curves that are differentiable, hence continuous, at 0),
      [chain_node_elmax], [chain_node_elmin]; the guard is necessary: [curve_diff2_max_tie_refuted],
      [curve_diff2_min_tie_refuted].
   2. Pow: [chain_node_pow_pos] (base > 0, any real exponent), [chain_node_pow_nat] (natural exponent
      >= 1, any base), [chain_node_pow_zero] (exponent 0, the rule that returns zeros).
   3. reductions along a dimension: [curve_diffN] (differentiability of a function of N values along
      families of curves), [curve_diffN_ext] (max / min with a unique strict extremum), [curve_diffN_var],
      [curve_diffN_std] (variance > 0); [chain_node_fibrewise] (a node whose elements are functions of
      gathered operand elements, gather-form Jacobian), [chain_node_along] (fibres along [dim], Jacobian
      in the closed form  [del dim i = j] * cc i  the rules use), [chain_node_varAlong],
      [chain_node_stdAlong], [chain_node_extAlong] (MaxAlong / MinAlong).
   [node_ok3] / [node_ok3_chain] / [chain_hyp_of_nodes3]: the per-node case analysis of TotalDeriv2P.v
   extended by these constructors.
   Module [TotalDeriv3Example]: heaps built by the model's own h_* functions, all hypotheses of
   bp_total_derivative discharged:  y = x.ElMax(c), c untracked ([elmax_gradient]: [c < x]);
   y = x.Pow(a) ([pow_gradient]; [cube_gradient]: 3 x² at any x; [rpower_gradient]: a x^(a-1), x > 0);
   y = x.VarAlong(0) ([var_gradient]: (x0 - x1, x1 - x0));  y = x.MaxAlong(0) ([maxalong_gradient]: (1, 0)). *)
From Coq Require Import List Arith ZArith Bool Lia Reals Lra.
From Coquelicot Require Import Coquelicot.
From Qeep Require Import Model.Scalar Model.Nd Model.Fill Model.Data Model.Valid Model.Api Model.Grad Model.Backprop.
From Qeep Require Import Proofs.NdP Proofs.ElemP Proofs.ArithP Proofs.BackpropP.
From Qeep Require Import Spec.RScalar Spec.ScalarDeriv Spec.VjpSpec.
From Qeep Require Import Proofs.VjpGatherP Proofs.VjpElemP Proofs.TotalDerivP Proofs.TotalDeriv2P.
From Qeep Require Proofs.ReduceP Proofs.ReduceRP Proofs.VjpReduceP.   (* not imported: VjpReduceP has its own (convertible) sumN *)
Import ListNotations.
Local Open Scope R_scope.

(* ================================================================================= *)
(* 0. Rmax / Rmin along curves, away from ties                                        *)
(* ================================================================================= *)

(* two curves that are differentiable at 0 and ordered there stay ordered near 0 *)
Lemma curves_lt_locally (u v : R -> R) (du dv : R) :
  is_derive u 0 du -> is_derive v 0 dv -> u 0 < v 0 -> locally 0 (fun t => u t < v t).
Proof.
  intros Du Dv Hlt.
  assert (Cu : continuous u 0)
    by (apply (ex_derive_continuous (K:=R_AbsRing) (V:=R_NormedModule) u 0); exists du; exact Du).
  assert (Cv : continuous v 0)
    by (apply (ex_derive_continuous (K:=R_AbsRing) (V:=R_NormedModule) v 0); exists dv; exact Dv).
  pose proof (continuous_minus (K:=R_AbsRing) (V:=R_NormedModule) v u 0 Cv Cu) as Cm.
  assert (H0 : 0 < minus (v 0) (u 0)) by (unfold minus, plus, opp; cbn; lra).
  pose proof (Cm (fun y => 0 < y) (locally_open (fun y => 0 < y) (fun y => 0 < y) (open_gt 0)
                                     (fun y Hy => Hy) _ H0)) as HL.
  unfold filtermap in HL.
  apply (filter_imp (fun t => 0 < minus (v t) (u t))); [|exact HL].
  intros t Ht. unfold minus, plus, opp in Ht; cbn in Ht. lra.
Qed.

Lemma curve_diff2_max_gt a0 b0 : b0 < a0 -> curve_diff2 Rmax a0 b0 1 0.
Proof.
  intros Hlt u v du dv Hu Hv Du Dv.
  replace (1 * du + 0 * dv) with du by ring.
  apply (is_derive_ext_loc u); [|exact Du].
  apply (filter_imp (fun t => v t < u t)).
  - intros t Ht. symmetry. apply Rmax_left. lra.
  - apply (curves_lt_locally v u dv du Dv Du). rewrite Hu, Hv. exact Hlt.
Qed.

Lemma curve_diff2_max_lt a0 b0 : a0 < b0 -> curve_diff2 Rmax a0 b0 0 1.
Proof.
  intros Hlt u v du dv Hu Hv Du Dv.
  replace (0 * du + 1 * dv) with dv by ring.
  apply (is_derive_ext_loc v); [|exact Dv].
  apply (filter_imp (fun t => u t < v t)).
  - intros t Ht. symmetry. apply Rmax_right. lra.
  - apply (curves_lt_locally u v du dv Du Dv). rewrite Hu, Hv. exact Hlt.
Qed.

Lemma curve_diff2_min_lt a0 b0 : a0 < b0 -> curve_diff2 Rmin a0 b0 1 0.
Proof.
  intros Hlt u v du dv Hu Hv Du Dv.
  replace (1 * du + 0 * dv) with du by ring.
  apply (is_derive_ext_loc u); [|exact Du].
  apply (filter_imp (fun t => u t < v t)).
  - intros t Ht. symmetry. apply Rmin_left. lra.
  - apply (curves_lt_locally u v du dv Du Dv). rewrite Hu, Hv. exact Hlt.
Qed.

Lemma curve_diff2_min_gt a0 b0 : b0 < a0 -> curve_diff2 Rmin a0 b0 0 1.
Proof.
  intros Hlt u v du dv Hu Hv Du Dv.
  replace (0 * du + 1 * dv) with dv by ring.
  apply (is_derive_ext_loc v); [|exact Dv].
  apply (filter_imp (fun t => v t < u t)).
  - intros t Ht. symmetry. apply Rmin_right. lra.
  - apply (curves_lt_locally v u dv du Dv Du). rewrite Hu, Hv. exact Hlt.
Qed.

(* the partial derivatives in the form the back edges carry them: [other < this] *)
Definition selgt (a b : R) : R := if Rlt_dec b a then 1 else 0.

Lemma curve_diff2_max a0 b0 : a0 <> b0 -> curve_diff2 Rmax a0 b0 (selgt a0 b0) (selgt b0 a0).
Proof.
  intros Hne. unfold selgt. destruct (Rlt_dec b0 a0) as [L|N]; destruct (Rlt_dec a0 b0) as [L'|N'].
  - lra.
  - apply curve_diff2_max_gt. exact L.
  - apply curve_diff2_max_lt. exact L'.
  - exfalso. apply Hne. lra.
Qed.

Lemma curve_diff2_min a0 b0 : a0 <> b0 -> curve_diff2 Rmin a0 b0 (selgt b0 a0) (selgt a0 b0).
Proof.
  intros Hne. unfold selgt. destruct (Rlt_dec b0 a0) as [L|N]; destruct (Rlt_dec a0 b0) as [L'|N'].
  - lra.
  - apply curve_diff2_min_gt. exact L.
  - apply curve_diff2_min_lt. exact L'.
  - exfalso. apply Hne. lra.
Qed.

(* ---------- the guard is necessary: at a tie no pair (d1, d2) works ---------- *)
Lemma abs_not_derivable (c l : R) : ~ is_derive (fun t => c + Rabs t) 0 l.
Proof.
  intros H. apply is_derive_Reals in H. destruct (H (/ 2) ltac:(lra)) as (delta & Hd).
  assert (Hp : 0 < delta / 2) by (pose proof (cond_pos delta); lra).
  assert (Hlt : Rabs (delta / 2) < delta)
    by (rewrite Rabs_right by lra; pose proof (cond_pos delta); lra).
  pose proof (Hd (delta / 2) ltac:(lra) Hlt) as H1.
  assert (Hlt' : Rabs (- (delta / 2)) < delta) by (rewrite Rabs_Ropp; exact Hlt).
  pose proof (Hd (- (delta / 2)) ltac:(lra) Hlt') as H2.
  rewrite !Rplus_0_l, Rabs_R0 in H1, H2.
  rewrite Rabs_Ropp in H2. rewrite (Rabs_right (delta / 2)) in H1, H2 by lra.
  replace ((c + delta / 2 - (c + 0)) / (delta / 2) - l) with (1 - l) in H1 by (field; lra).
  replace ((c + delta / 2 - (c + 0)) / - (delta / 2) - l) with (- 1 - l) in H2 by (field; lra).
  apply Rabs_def2 in H1. apply Rabs_def2 in H2. lra.
Qed.

Theorem curve_diff2_max_tie_refuted a d1 d2 : ~ curve_diff2 Rmax a a d1 d2.
Proof.
  intros H.
  assert (Du : is_derive (fun t : R => a + t) 0 1) by (auto_derive; [exact I|ring]).
  assert (Dv : is_derive (fun t : R => a - t) 0 (-1)) by (auto_derive; [exact I|ring]).
  pose proof (H (fun t => a + t) (fun t => a - t) 1 (-1) ltac:(cbv beta; ring) ltac:(cbv beta; ring) Du Dv) as Hm.
  apply (abs_not_derivable a (d1 * 1 + d2 * -1)).
  apply (is_derive_ext (fun t => Rmax (a + t) (a - t))); [|exact Hm].
  intros t. unfold Rmax, Rabs. destruct (Rle_dec (a + t) (a - t)); destruct (Rcase_abs t); lra.
Qed.

Theorem curve_diff2_min_tie_refuted a d1 d2 : ~ curve_diff2 Rmin a a d1 d2.
Proof.
  intros H.
  assert (Du : is_derive (fun t : R => a - t) 0 (-1)) by (auto_derive; [exact I|ring]).
  assert (Dv : is_derive (fun t : R => a + t) 0 1) by (auto_derive; [exact I|ring]).
  pose proof (H (fun t => a - t) (fun t => a + t) (-1) 1 ltac:(cbv beta; ring) ltac:(cbv beta; ring) Du Dv) as Hm.
  apply (abs_not_derivable (- a) (- (d1 * -1 + d2 * 1))).
  apply (is_derive_ext (fun t => opp (Rmin (a - t) (a + t)))).
  - intros t. unfold opp; cbn. unfold Rmin, Rabs.
    destruct (Rle_dec (a - t) (a + t)); destruct (Rcase_abs t); lra.
  - apply (is_derive_opp (fun t => Rmin (a - t) (a + t)) 0 (d1 * -1 + d2 * 1) Hm).
Qed.

(* ================================================================================= *)
(* 1. ElMax / ElMin nodes                                                             *)
(* ================================================================================= *)
Section Chain3.
Variable h : @heap R.
Variable D : nat -> nat * @rule R -> list nat -> list nat -> R.
Variable val : R -> nat -> assignment.

(* y = ElMax(a, b): the back edges are (a, RElSel y a b), (b, RElSel y b a); away from the equality
   threshold the rule hands gy to the larger operand:  D n e1 = diag [b < a],  D n e2 = diag [a < b].
   Guard: the two operands differ at every position (at t = 0). *)
Theorem chain_node_elmax (dm : nat -> assignment) n e1 e2 :
  edgesOf h n = [e1; e2] ->
  dimsOf h (fst e1) = dimsOf h n -> dimsOf h (fst e2) = dimsOf h n ->
  (forall i j, D n e1 i j = if idx_eqb i j then selgt (val 0 (fst e1) j) (val 0 (fst e2) j) else 0) ->
  (forall i j, D n e2 i j = if idx_eqb i j then selgt (val 0 (fst e2) j) (val 0 (fst e1) j) else 0) ->
  (forall t j, validIdx (dimsOf h n) j -> val t n j = Rmax (val t (fst e1) j) (val t (fst e2) j)) ->
  (forall j, validIdx (dimsOf h n) j -> val 0 (fst e1) j <> val 0 (fst e2) j) ->
  (trackedOf h (fst e1) = false -> frozen h val (fst e1)) ->
  (trackedOf h (fst e2) = false -> frozen h val (fst e2)) ->
  ops_diff h val dm n ->
  forall j, validIdx (dimsOf h n) j -> is_derive (fun t => val t n j) 0 (Jt h D dm n j).
Proof.
  intros He Hd1 Hd2 HD1 HD2 Hv Hne.
  apply (chain_node_pointwise2 h D val dm n e1 e2 Rmax
           (fun j => selgt (val 0 (fst e1) j) (val 0 (fst e2) j))
           (fun j => selgt (val 0 (fst e2) j) (val 0 (fst e1) j)) He Hd1 Hd2 HD1 HD2 Hv).
  intros j Hj. apply curve_diff2_max. apply Hne. exact Hj.
Qed.

(* y = ElMin(a, b): gy goes to the smaller operand:  D n e1 = diag [a < b],  D n e2 = diag [b < a] *)
Theorem chain_node_elmin (dm : nat -> assignment) n e1 e2 :
  edgesOf h n = [e1; e2] ->
  dimsOf h (fst e1) = dimsOf h n -> dimsOf h (fst e2) = dimsOf h n ->
  (forall i j, D n e1 i j = if idx_eqb i j then selgt (val 0 (fst e2) j) (val 0 (fst e1) j) else 0) ->
  (forall i j, D n e2 i j = if idx_eqb i j then selgt (val 0 (fst e1) j) (val 0 (fst e2) j) else 0) ->
  (forall t j, validIdx (dimsOf h n) j -> val t n j = Rmin (val t (fst e1) j) (val t (fst e2) j)) ->
  (forall j, validIdx (dimsOf h n) j -> val 0 (fst e1) j <> val 0 (fst e2) j) ->
  (trackedOf h (fst e1) = false -> frozen h val (fst e1)) ->
  (trackedOf h (fst e2) = false -> frozen h val (fst e2)) ->
  ops_diff h val dm n ->
  forall j, validIdx (dimsOf h n) j -> is_derive (fun t => val t n j) 0 (Jt h D dm n j).
Proof.
  intros He Hd1 Hd2 HD1 HD2 Hv Hne.
  apply (chain_node_pointwise2 h D val dm n e1 e2 Rmin
           (fun j => selgt (val 0 (fst e2) j) (val 0 (fst e1) j))
           (fun j => selgt (val 0 (fst e1) j) (val 0 (fst e2) j)) He Hd1 Hd2 HD1 HD2 Hv).
  intros j Hj. apply curve_diff2_min. apply Hne. exact Hj.
Qed.

(* ================================================================================= *)
(* 2. Pow nodes                                                                       *)
(* ================================================================================= *)
(* y = x.Pow(a): one back edge (x, RPow y x a azero).  With azero = false the rule computes
   gy * (a * x^(a-1)) with the model's power [Rpow] (rpow_eval), so  D n e = diag (a * Rpow x (a-1)). *)

(* the operand hypothesis of the single-edge lemmas of TotalDerivP.v from [ops_diff] *)
Lemma ops_diff_single (dm : nat -> assignment) n e :
  edgesOf h n = [e] -> trackedOf h (fst e) = true -> ops_diff h val dm n ->
  forall i, validIdx (dimsOf h (fst e)) i -> is_derive (fun t => val t (fst e) i) 0 (dm (fst e) i).
Proof.
  intros He Ht Hd i Hi. apply (Hd e); [rewrite He; left; reflexivity|exact Ht|exact Hi].
Qed.

(* (i) every element of the base positive, arbitrary real exponent *)
Theorem chain_node_pow_pos (dm : nat -> assignment) n e (a : R) :
  edgesOf h n = [e] -> trackedOf h (fst e) = true -> dimsOf h (fst e) = dimsOf h n ->
  (forall i j, D n e i j = if idx_eqb i j then a * Rpow (val 0 (fst e) j) (a - 1) else 0) ->
  (forall t j, validIdx (dimsOf h n) j -> val t n j = Rpow (val t (fst e) j) a) ->
  (forall j, validIdx (dimsOf h n) j -> 0 < val 0 (fst e) j) ->
  ops_diff h val dm n ->
  forall j, validIdx (dimsOf h n) j -> is_derive (fun t => val t n j) 0 (Jt h D dm n j).
Proof.
  intros He Ht Hdim HD Hv Hpos Hd.
  apply (chain_node_pointwise h D val dm n e (fun v => Rpow v a)
           (fun j => a * Rpow (val 0 (fst e) j) (a - 1)) He Ht Hdim HD Hv).
  - intros j Hj. rewrite (Rpow_pos _ (a - 1) (Hpos j Hj)). apply d_Rpow_pos. apply Hpos. exact Hj.
  - apply (ops_diff_single dm n e He Ht Hd).
Qed.

(* (ii) natural exponent k >= 1, at EVERY base (zero and negative elements included) *)
Theorem chain_node_pow_nat (dm : nat -> assignment) n e (a : R) (k : nat) :
  a = INR k -> (1 <= k)%nat ->
  edgesOf h n = [e] -> trackedOf h (fst e) = true -> dimsOf h (fst e) = dimsOf h n ->
  (forall i j, D n e i j = if idx_eqb i j then a * Rpow (val 0 (fst e) j) (a - 1) else 0) ->
  (forall t j, validIdx (dimsOf h n) j -> val t n j = Rpow (val t (fst e) j) a) ->
  ops_diff h val dm n ->
  forall j, validIdx (dimsOf h n) j -> is_derive (fun t => val t n j) 0 (Jt h D dm n j).
Proof.
  intros Ea Hk He Ht Hdim HD Hv Hd. subst a.
  apply (chain_node_pointwise h D val dm n e (fun v => Rpow v (INR k))
           (fun j => INR k * Rpow (val 0 (fst e) j) (INR k - 1)) He Ht Hdim HD Hv).
  - intros j Hj. rewrite (INR_pred k Hk), Rpow_INR. apply d_Rpow_nat.
  - apply (ops_diff_single dm n e He Ht Hd).
Qed.

(* (iii) exponent 0 (azero = true: the rule returns zeros): x^0 = 1 everywhere, D n e = 0 *)
Theorem chain_node_pow_zero (dm : nat -> assignment) n e :
  edgesOf h n = [e] -> trackedOf h (fst e) = true -> dimsOf h (fst e) = dimsOf h n ->
  (forall i j, D n e i j = 0) ->
  (forall t j, validIdx (dimsOf h n) j -> val t n j = Rpow (val t (fst e) j) 0) ->
  ops_diff h val dm n ->
  forall j, validIdx (dimsOf h n) j -> is_derive (fun t => val t n j) 0 (Jt h D dm n j).
Proof.
  intros He Ht Hdim HD Hv Hd.
  apply (chain_node_pointwise h D val dm n e (fun v => Rpow v 0) (fun _ => 0) He Ht Hdim).
  - intros i j. rewrite HD. destruct (idx_eqb i j); reflexivity.
  - exact Hv.
  - intros j _. apply d_Rpow_0.
  - apply (ops_diff_single dm n e He Ht Hd).
Qed.

End Chain3.

(* ================================================================================= *)
(* 3. reductions along a dimension: VarAlong, StdAlong, MaxAlong, MinAlong            *)
(* ================================================================================= *)
Module VR := Qeep.Proofs.VjpReduceP.
Module RP := Qeep.Proofs.ReduceP.

(* phi : (nat -> R) -> R, a function of the first N values, is differentiable at w0 with partial
   derivatives c, in the form the node lemma uses: along every family of curves through w0 *)
Definition curve_diffN (N : nat) (phi : (nat -> R) -> R) (w0 c : nat -> R) : Prop :=
  forall (w : R -> nat -> R) (dw : nat -> R),
    (forall k, w 0 k = w0 k) ->
    (forall k, (k < N)%nat -> is_derive (fun t => w t k) 0 (dw k)) ->
    is_derive (fun t => phi (w t)) 0 (sumN N (fun k => c k * dw k)).

Lemma locally_forall_lt (N : nat) (P : nat -> R -> Prop) (x : R) :
  (forall k, (k < N)%nat -> locally x (P k)) ->
  locally x (fun t => forall k, (k < N)%nat -> P k t).
Proof.
  induction N as [|N IH]; intros H.
  - apply filter_forall. intros t k Hk. lia.
  - apply (filter_imp (fun t => (forall k, (k < N)%nat -> P k t) /\ P N t)).
    + intros t [H1 H2] k Hk. destruct (Nat.eq_dec k N) as [->|Ne]; [exact H2|apply H1; lia].
    + apply filter_and; [apply IH; intros k Hk; apply H; lia|apply H; lia].
Qed.

(* maximum (sg = 1) / minimum (sg = -1) with a unique strict extremum at ks: locally the coordinate ks *)
Lemma curve_diffN_ext sg N M w0 ks : sg = 1 \/ sg = -1 -> VR.is_ext sg N M -> (ks < N)%nat ->
  (forall k, (k < N)%nat -> k <> ks -> sg * w0 k < sg * w0 ks) ->
  curve_diffN N M w0 (fun k => if (k =? ks)%nat then 1 else 0).
Proof.
  intros Hs HM Hks Hst w dw Hw0 Hd.
  rewrite (sumN_ext N _ (fun k => if (k =? ks)%nat then dw k else 0))
    by (intros k _; destruct (k =? ks)%nat; ring).
  rewrite (sumN_single N ks dw Hks).
  apply (is_derive_ext_loc (fun t => w t ks)); [|apply Hd; exact Hks].
  apply (filter_imp (fun t => forall k, (k < N)%nat -> k <> ks -> sg * w t k < sg * w t ks)).
  { intros t Ht. symmetry. apply (VR.ext_unique sg N M (w t) ks HM Hks Ht). }
  apply (locally_forall_lt N (fun k t => k <> ks -> sg * w t k < sg * w t ks)). intros k Hk.
  destruct (Nat.eq_dec k ks) as [->|Ne].
  - apply filter_forall. intros t N0. contradiction.
  - apply (filter_imp (fun t => sg * w t k < sg * w t ks)); [intros t Ht _; exact Ht|].
    apply (curves_lt_locally (fun t => sg * w t k) (fun t => sg * w t ks) (sg * dw k) (sg * dw ks)).
    + apply is_derive_scal. apply Hd. exact Hk.
    + apply is_derive_scal. apply Hd. exact Hks.
    + cbv beta. rewrite !Hw0. apply Hst; assumption.
Qed.

Lemma curve_mean_derive N (w : R -> nat -> R) (dw : nat -> R) :
  (forall k, (k < N)%nat -> is_derive (fun t => w t k) 0 (dw k)) ->
  is_derive (fun t => VR.meanN N (w t)) 0 (lsum (seq 0 N) dw / INR N).
Proof.
  intros Hd.
  apply (is_derive_ext (fun t => / INR N * lsum (seq 0 N) (w t))).
  { intros t. unfold VR.meanN, Rdiv. rewrite Rmult_comm. reflexivity. }
  replace (lsum (seq 0 N) dw / INR N) with (/ INR N * lsum (seq 0 N) dw) by (unfold Rdiv; ring).
  apply is_derive_scal.
  apply (is_derive_lsum (seq 0 N) (fun t k => w t k) dw 0).
  intros k Hk. apply in_seq in Hk. apply Hd. lia.
Qed.

(* the unbiased sample variance: a polynomial; partial derivatives 2 (w_k - mean) / (N - 1) *)
Lemma curve_diffN_var N w0 :
  curve_diffN N (VR.varN N) w0
    (fun k => if (1 <? N)%nat then 2 * (w0 k - VR.meanN N w0) / (INR N - 1) else 0).
Proof.
  intros w dw Hw0 Hd. unfold VR.varN. destruct (1 <? N)%nat eqn:E1.
  2:{ rewrite (sumN_ext N _ (fun _ => 0)) by (intros; ring). unfold sumN. rewrite lsum_zero.
      apply (is_derive_const 0 0). }
  apply Nat.ltb_lt in E1.
  assert (Hn1 : INR N - 1 <> 0) by (rewrite <- VR.INR_minus1 by lia; apply not_0_INR; lia).
  set (dmu := lsum (seq 0 N) dw / INR N).
  pose proof (curve_mean_derive N w dw Hd) as Dm. fold dmu in Dm.
  set (a := fun k : nat => w 0 k - VR.meanN N (w 0)).
  assert (DS : is_derive (fun t => lsum (seq 0 N)
                 (fun k => (w t k - VR.meanN N (w t)) * (w t k - VR.meanN N (w t)))) 0
                 (lsum (seq 0 N) (fun k => a k * (dw k - dmu) + a k * (dw k - dmu)))).
  { apply (is_derive_lsum (seq 0 N)
             (fun t k => (w t k - VR.meanN N (w t)) * (w t k - VR.meanN N (w t)))).
    intros k Hk. apply in_seq in Hk.
    assert (Dg : is_derive (fun t => w t k - VR.meanN N (w t)) 0 (dw k - dmu)).
    { apply (is_derive_minus (fun t => w t k) (fun t => VR.meanN N (w t)) 0 (dw k) dmu);
        [apply Hd; lia|exact Dm]. }
    apply (curve_diff2_mult (a k) (a k) (fun t => w t k - VR.meanN N (w t))
             (fun t => w t k - VR.meanN N (w t)) (dw k - dmu) (dw k - dmu)); try reflexivity; exact Dg. }
  apply (is_derive_ext (fun t => / (INR N - 1) * lsum (seq 0 N)
           (fun k => (w t k - VR.meanN N (w t)) * (w t k - VR.meanN N (w t))))).
  { intros t. unfold Rdiv. rewrite Rmult_comm. reflexivity. }
  assert (Ez : lsum (seq 0 N) a = 0) by (apply (VR.sum_dev_zero N (w 0)); lia).
  assert (Es : sumN N (fun k => 2 * (w0 k - VR.meanN N w0) / (INR N - 1) * dw k) =
               / (INR N - 1) * lsum (seq 0 N) (fun k => a k * (dw k - dmu) + a k * (dw k - dmu))).
  { rewrite <- (VR.meanN_ext N (w 0) w0 Hw0).
    rewrite (lsum_ext_in (seq 0 N) (fun k => a k * (dw k - dmu) + a k * (dw k - dmu))
               (fun k => 2 * (a k * dw k) + (-2 * dmu) * a k)) by (intros k _; ring).
    rewrite lsum_plus, !lsum_scal_l, Ez. unfold sumN.
    rewrite (lsum_ext_in (seq 0 N) _ (fun k => (2 / (INR N - 1)) * (a k * dw k))).
    - rewrite lsum_scal_l. field. exact Hn1.
    - intros k _. rewrite <- (Hw0 k). unfold a. field. exact Hn1. }
  rewrite Es. apply is_derive_scal. exact DS.
Qed.

(* the standard deviation, where the variance is positive *)
Lemma curve_diffN_std N w0 : ((1 < N)%nat -> 0 < VR.varN N w0) ->
  curve_diffN N (fun v => sqrt (VR.varN N v)) w0
    (fun k => if (1 <? N)%nat
              then (w0 k - VR.meanN N w0) / ((INR N - 1) * sqrt (VR.varN N w0)) else 0).
Proof.
  intros Hpos w dw Hw0 Hd. pose proof (curve_diffN_var N w0 w dw Hw0 Hd) as Hv.
  destruct (1 <? N)%nat eqn:E1.
  - apply Nat.ltb_lt in E1. specialize (Hpos E1).
    assert (Hn1 : INR N - 1 <> 0) by (rewrite <- VR.INR_minus1 by lia; apply not_0_INR; lia).
    assert (Hsq : sqrt (VR.varN N w0) <> 0) by (apply Rgt_not_eq, sqrt_lt_R0, Hpos).
    assert (Hs : is_derive sqrt (VR.varN N (w 0)) (/ (2 * sqrt (VR.varN N w0)))).
    { rewrite (VR.varN_ext N (w 0) w0 Hw0). auto_derive; [exact Hpos|field; exact Hsq]. }
    pose proof (is_derive_comp sqrt (fun t => VR.varN N (w t)) 0 _ _ Hs Hv) as Hc.
    unfold scal in Hc; cbn in Hc. unfold mult in Hc; cbn in Hc.
    rewrite (sumN_ext N (fun k => (w0 k - VR.meanN N w0) / ((INR N - 1) * sqrt (VR.varN N w0)) * dw k)
               (fun k => 2 * (w0 k - VR.meanN N w0) / (INR N - 1) * dw k * / (2 * sqrt (VR.varN N w0)))).
    + unfold sumN. rewrite lsum_scal_r. exact Hc.
    + intros k _. field. split; assumption.
  - rewrite (sumN_ext N _ (fun _ => 0)) by (intros; ring). unfold sumN. rewrite lsum_zero.
    apply (is_derive_ext (fun _ => sqrt 0)); [|apply (is_derive_const (sqrt 0) 0)].
    intros t. unfold VR.varN. rewrite E1. reflexivity.
Qed.

Section Chain4.
Variable h : @heap R.
Variable D : nat -> nat * @rule R -> list nat -> list nat -> R.
Variable val : R -> nat -> assignment.

(* (iv) a node whose element j is a function phi_j of N gathered operand elements
   s j 0 .. s j (N-1); Jacobian entries in the gather form of TotalDeriv2P.v *)
Theorem chain_node_fibrewise (dm : nat -> assignment) n e (N : nat)
        (s : list nat -> nat -> list nat) (phi : list nat -> (nat -> R) -> R) (c : list nat -> nat -> R) :
  edgesOf h n = [e] -> trackedOf h (fst e) = true ->
  (forall j k, validIdx (dimsOf h n) j -> (k < N)%nat -> validIdx (dimsOf h (fst e)) (s j k)) ->
  (forall i j, validIdx (dimsOf h (fst e)) i -> validIdx (dimsOf h n) j ->
     D n e i j = sumN N (fun k => if idx_eqb i (s j k) then c j k else 0)) ->
  (forall t j, validIdx (dimsOf h n) j -> val t n j = phi j (fun k => val t (fst e) (s j k))) ->
  (forall j, validIdx (dimsOf h n) j ->
     curve_diffN N (phi j) (fun k => val 0 (fst e) (s j k)) (c j)) ->
  ops_diff h val dm n ->
  forall j, validIdx (dimsOf h n) j -> is_derive (fun t => val t n j) 0 (Jt h D dm n j).
Proof.
  intros He Ht Hs HD Hv Hphi Hd j Hj.
  rewrite (Jt_Jterm h D dm n j), He, lsum_cons, lsum_nil, Rplus_0_r.
  rewrite (Jterm_gather h D dm n e N (s j) (c j) j).
  2:{ intros k Hk. apply Hs; assumption. }
  2:{ intros i Hi. apply HD; assumption. }
  apply (is_derive_ext (fun t => phi j (fun k => val t (fst e) (s j k)))).
  { intros t. symmetry. apply Hv. exact Hj. }
  rewrite (sumN_ext N _ (fun k => c j k * dm (fst e) (s j k))).
  2:{ intros k _. unfold dop. rewrite Ht. reflexivity. }
  apply (Hphi j Hj (fun t k => val t (fst e) (s j k)) (fun k => dm (fst e) (s j k))).
  - intros k. reflexivity.
  - intros k Hk. apply (Hd e); [rewrite He; left; reflexivity|exact Ht|apply Hs; assumption].
Qed.

(* ---------- reductions along dimension [dim]: element j of the result is a function of the
   fibre  k |-> operand (ins dim k j);  the rules hand  gy (del dim i) * cc i  to position i ---------- *)
Lemma gather_ins_closed ds dim i j (c : nat -> R) :
  (dim < length ds)%nat -> validIdx ds i -> validIdx (RP.del dim ds) j ->
  sumN (nth dim ds 0%nat) (fun k => if idx_eqb i (RP.ins dim k j) then c k else 0) =
  if idx_eqb (RP.del dim i) j then c (nth dim i 0%nat) else 0.
Proof.
  intros Hl Hi Hj.
  pose proof (validIdx_length _ _ Hi) as Li. pose proof (validIdx_length _ _ Hj) as Lj.
  rewrite RP.del_length in Lj by exact Hl.
  assert (Hiff : forall k, RP.ins dim k j = i <-> RP.del dim i = j /\ nth dim i 0%nat = k)
    by (intros k; apply VR.ins_eq_iff; lia).
  destruct (idx_eqb (RP.del dim i) j) eqn:E.
  - apply idx_eqb_eq in E.
    rewrite (sumN_ext _ _ (fun k => if (k =? nth dim i 0)%nat then c k else 0)).
    + apply sumN_single. apply (VR.vi_nth dim ds i Hi Hl).
    + intros k _. destruct (Nat.eqb_spec k (nth dim i 0%nat)) as [Ek|Ek].
      * assert (E2 : i = RP.ins dim k j) by (symmetry; apply Hiff; split; [exact E|symmetry; exact Ek]).
        rewrite (proj2 (idx_eqb_eq _ _) E2). reflexivity.
      * destruct (idx_eqb i (RP.ins dim k j)) eqn:E3; [|reflexivity].
        apply idx_eqb_eq in E3. symmetry in E3. apply Hiff in E3 as [_ E4]. exfalso. apply Ek. symmetry. exact E4.
  - rewrite (sumN_ext _ _ (fun _ => 0)); [unfold sumN; apply lsum_zero|].
    intros k _. destruct (idx_eqb i (RP.ins dim k j)) eqn:E3; [|reflexivity].
    apply idx_eqb_eq in E3. symmetry in E3. apply Hiff in E3 as [E4 _].
    apply idx_eqb_eq in E4. rewrite E4 in E. discriminate.
Qed.

Theorem chain_node_along (dm : nat -> assignment) n e (dim : nat)
        (phi : (nat -> R) -> R) (cc : list nat -> R) (c : list nat -> nat -> R) :
  edgesOf h n = [e] -> trackedOf h (fst e) = true ->
  (dim < length (dimsOf h (fst e)))%nat -> dimsOf h n = RP.del dim (dimsOf h (fst e)) ->
  (forall i j, validIdx (dimsOf h (fst e)) i -> validIdx (dimsOf h n) j ->
     D n e i j = if idx_eqb (RP.del dim i) j then cc i else 0) ->
  (forall j k, validIdx (dimsOf h n) j -> (k < nth dim (dimsOf h (fst e)) 0)%nat ->
     cc (RP.ins dim k j) = c j k) ->
  (forall t j, validIdx (dimsOf h n) j -> val t n j = phi (VR.fib (val t (fst e)) dim j)) ->
  (forall j, validIdx (dimsOf h n) j ->
     curve_diffN (nth dim (dimsOf h (fst e)) 0%nat) phi (VR.fib (val 0 (fst e)) dim j) (c j)) ->
  ops_diff h val dm n ->
  forall j, validIdx (dimsOf h n) j -> is_derive (fun t => val t n j) 0 (Jt h D dm n j).
Proof.
  intros He Ht Hl Hdn HD Hcc Hv Hphi Hd.
  apply (chain_node_fibrewise dm n e (nth dim (dimsOf h (fst e)) 0%nat)
           (fun j k => RP.ins dim k j) (fun _ => phi) c He Ht); [| |exact Hv|exact Hphi|exact Hd].
  - intros j k Hj Hk. rewrite Hdn in Hj. apply (VR.vi_ins dim _ j k Hl Hj Hk).
  - intros i j Hi Hj. rewrite (HD i j Hi Hj).
    pose proof Hj as Hj'. rewrite Hdn in Hj'.
    rewrite (sumN_ext _ _ (fun k => if idx_eqb i (RP.ins dim k j) then cc i else 0)).
    + rewrite (gather_ins_closed (dimsOf h (fst e)) dim i j (fun _ => cc i) Hl Hi Hj'). reflexivity.
    + intros k Hk. destruct (idx_eqb i (RP.ins dim k j)) eqn:E; [|reflexivity].
      apply idx_eqb_eq in E. rewrite E. symmetry. apply Hcc; assumption.
Qed.

Local Notation nOfE e dim := (nth dim (dimsOf h (fst e)) 0%nat).

(* VarAlong: the rule's coefficient (rvar_eval) is  2 / (N - 1) * (x_i - mean of the fibre of i) *)
Theorem chain_node_varAlong (dm : nat -> assignment) n e (dim : nat) :
  edgesOf h n = [e] -> trackedOf h (fst e) = true ->
  (dim < length (dimsOf h (fst e)))%nat -> dimsOf h n = RP.del dim (dimsOf h (fst e)) ->
  (forall i j, validIdx (dimsOf h (fst e)) i -> validIdx (dimsOf h n) j ->
     D n e i j = if idx_eqb (RP.del dim i) j
                 then (if (nOfE e dim =? 1)%nat then 0
                       else 2 / INR (nOfE e dim - 1) *
                            (val 0 (fst e) i - VR.meanN (nOfE e dim) (VR.fib (val 0 (fst e)) dim (RP.del dim i))))
                 else 0) ->
  (forall t j, validIdx (dimsOf h n) j ->
     val t n j = VR.varN (nOfE e dim) (VR.fib (val t (fst e)) dim j)) ->
  ops_diff h val dm n ->
  forall j, validIdx (dimsOf h n) j -> is_derive (fun t => val t n j) 0 (Jt h D dm n j).
Proof.
  intros He Ht Hl Hdn HD Hv Hd.
  apply (chain_node_along dm n e dim (VR.varN (nOfE e dim)) _
           (fun j k => if (1 <? nOfE e dim)%nat
                       then 2 * (VR.fib (val 0 (fst e)) dim j k
                                 - VR.meanN (nOfE e dim) (VR.fib (val 0 (fst e)) dim j)) / (INR (nOfE e dim) - 1)
                       else 0) He Ht Hl Hdn HD); [|exact Hv| |exact Hd].
  - intros j k Hj Hk. cbv beta.
    pose proof (validIdx_length _ _ Hj) as Lj. rewrite Hdn, RP.del_length in Lj by exact Hl.
    rewrite RP.del_ins by lia. unfold VR.fib at 2.
    destruct (Nat.eqb_spec (nOfE e dim) 1) as [E1|E1]; destruct (Nat.ltb_spec 1 (nOfE e dim)) as [E2|E2]; try lia.
    + reflexivity.
    + rewrite VR.INR_minus1 by lia. field. rewrite <- VR.INR_minus1 by lia. apply not_0_INR. lia.
  - intros j Hj. apply curve_diffN_var.
Qed.

(* StdAlong (rstd_eval):  1 / (N - 1) * ((x_i - mean) / y_(del dim i)),  y the node's own value;
   guard: every fibre has positive variance *)
Theorem chain_node_stdAlong (dm : nat -> assignment) n e (dim : nat) :
  edgesOf h n = [e] -> trackedOf h (fst e) = true ->
  (dim < length (dimsOf h (fst e)))%nat -> dimsOf h n = RP.del dim (dimsOf h (fst e)) ->
  (forall i j, validIdx (dimsOf h (fst e)) i -> validIdx (dimsOf h n) j ->
     D n e i j = if idx_eqb (RP.del dim i) j
                 then (if (nOfE e dim =? 1)%nat then 0
                       else 1 / INR (nOfE e dim - 1) *
                            ((val 0 (fst e) i - VR.meanN (nOfE e dim) (VR.fib (val 0 (fst e)) dim (RP.del dim i)))
                             / val 0 n (RP.del dim i)))
                 else 0) ->
  (forall t j, validIdx (dimsOf h n) j ->
     val t n j = sqrt (VR.varN (nOfE e dim) (VR.fib (val t (fst e)) dim j))) ->
  ((1 < nOfE e dim)%nat -> forall j, validIdx (dimsOf h n) j ->
     0 < VR.varN (nOfE e dim) (VR.fib (val 0 (fst e)) dim j)) ->
  ops_diff h val dm n ->
  forall j, validIdx (dimsOf h n) j -> is_derive (fun t => val t n j) 0 (Jt h D dm n j).
Proof.
  intros He Ht Hl Hdn HD Hv Hpos Hd.
  apply (chain_node_along dm n e dim (fun v => sqrt (VR.varN (nOfE e dim) v)) _
           (fun j k => if (1 <? nOfE e dim)%nat
                       then (VR.fib (val 0 (fst e)) dim j k
                             - VR.meanN (nOfE e dim) (VR.fib (val 0 (fst e)) dim j))
                            / ((INR (nOfE e dim) - 1) * sqrt (VR.varN (nOfE e dim) (VR.fib (val 0 (fst e)) dim j)))
                       else 0) He Ht Hl Hdn HD); [|exact Hv| |exact Hd].
  - intros j k Hj Hk. cbv beta.
    pose proof (validIdx_length _ _ Hj) as Lj. rewrite Hdn, RP.del_length in Lj by exact Hl.
    rewrite RP.del_ins by lia. unfold VR.fib at 2.
    destruct (Nat.eqb_spec (nOfE e dim) 1) as [E1|E1]; destruct (Nat.ltb_spec 1 (nOfE e dim)) as [E2|E2]; try lia.
    + reflexivity.
    + rewrite (Hv 0 j Hj). specialize (Hpos E2 j Hj).
      rewrite VR.INR_minus1 by lia. field. split.
      * apply Rgt_not_eq, sqrt_lt_R0, Hpos.
      * rewrite <- VR.INR_minus1 by lia. apply not_0_INR. lia.
  - intros j Hj. apply curve_diffN_std. intros H1. apply (Hpos H1 j Hj).
Qed.

(* MaxAlong (sg = 1) / MinAlong (sg = -1): where every fibre has a unique strict extremum, at
   position ks j, the rule hands gy to that position only *)
Theorem chain_node_extAlong (dm : nat -> assignment) n e (dim : nat)
        (sg : R) (M : (nat -> R) -> R) (ks : list nat -> nat) :
  sg = 1 \/ sg = -1 -> VR.is_ext sg (nOfE e dim) M ->
  edgesOf h n = [e] -> trackedOf h (fst e) = true ->
  (dim < length (dimsOf h (fst e)))%nat -> dimsOf h n = RP.del dim (dimsOf h (fst e)) ->
  (forall i j, validIdx (dimsOf h (fst e)) i -> validIdx (dimsOf h n) j ->
     D n e i j = if idx_eqb (RP.del dim i) j
                 then (if (nth dim i 0 =? ks (RP.del dim i))%nat then 1 else 0) else 0) ->
  (forall t j, validIdx (dimsOf h n) j -> val t n j = M (VR.fib (val t (fst e)) dim j)) ->
  (forall j, validIdx (dimsOf h n) j -> (ks j < nOfE e dim)%nat /\
     forall k, (k < nOfE e dim)%nat -> k <> ks j ->
       sg * val 0 (fst e) (RP.ins dim k j) < sg * val 0 (fst e) (RP.ins dim (ks j) j)) ->
  ops_diff h val dm n ->
  forall j, validIdx (dimsOf h n) j -> is_derive (fun t => val t n j) 0 (Jt h D dm n j).
Proof.
  intros Hs HM He Ht Hl Hdn HD Hv Hguard Hd.
  apply (chain_node_along dm n e dim M _
           (fun j k => if (k =? ks j)%nat then 1 else 0) He Ht Hl Hdn HD); [|exact Hv| |exact Hd].
  - intros j k Hj Hk. cbv beta.
    pose proof (validIdx_length _ _ Hj) as Lj. rewrite Hdn, RP.del_length in Lj by exact Hl.
    rewrite RP.del_ins, RP.nth_ins by lia. reflexivity.
  - intros j Hj. destruct (Hguard j Hj) as [Hks Hst].
    apply (curve_diffN_ext sg _ M _ (ks j) Hs HM Hks). exact Hst.
Qed.

(* ================================================================================= *)
(* 3c. [chain_hyp] for a whole graph: the case analysis of TotalDeriv2P.v extended    *)
(* ================================================================================= *)
Inductive node_ok3 (n : nat) : Prop :=
| ok3_base : node_ok h D val n -> node_ok3 n
| ok3_elmax (e1 e2 : nat * @rule R) :
    edgesOf h n = [e1; e2] ->
    dimsOf h (fst e1) = dimsOf h n -> dimsOf h (fst e2) = dimsOf h n ->
    (forall i j, D n e1 i j = if idx_eqb i j then selgt (val 0 (fst e1) j) (val 0 (fst e2) j) else 0) ->
    (forall i j, D n e2 i j = if idx_eqb i j then selgt (val 0 (fst e2) j) (val 0 (fst e1) j) else 0) ->
    (forall t j, validIdx (dimsOf h n) j -> val t n j = Rmax (val t (fst e1) j) (val t (fst e2) j)) ->
    (forall j, validIdx (dimsOf h n) j -> val 0 (fst e1) j <> val 0 (fst e2) j) ->
    (trackedOf h (fst e1) = false -> frozen h val (fst e1)) ->
    (trackedOf h (fst e2) = false -> frozen h val (fst e2)) ->
    node_ok3 n
| ok3_elmin (e1 e2 : nat * @rule R) :
    edgesOf h n = [e1; e2] ->
    dimsOf h (fst e1) = dimsOf h n -> dimsOf h (fst e2) = dimsOf h n ->
    (forall i j, D n e1 i j = if idx_eqb i j then selgt (val 0 (fst e2) j) (val 0 (fst e1) j) else 0) ->
    (forall i j, D n e2 i j = if idx_eqb i j then selgt (val 0 (fst e1) j) (val 0 (fst e2) j) else 0) ->
    (forall t j, validIdx (dimsOf h n) j -> val t n j = Rmin (val t (fst e1) j) (val t (fst e2) j)) ->
    (forall j, validIdx (dimsOf h n) j -> val 0 (fst e1) j <> val 0 (fst e2) j) ->
    (trackedOf h (fst e1) = false -> frozen h val (fst e1)) ->
    (trackedOf h (fst e2) = false -> frozen h val (fst e2)) ->
    node_ok3 n
| ok3_pow_pos (e : nat * @rule R) (a : R) :
    edgesOf h n = [e] -> trackedOf h (fst e) = true -> dimsOf h (fst e) = dimsOf h n ->
    (forall i j, D n e i j = if idx_eqb i j then a * Rpow (val 0 (fst e) j) (a - 1) else 0) ->
    (forall t j, validIdx (dimsOf h n) j -> val t n j = Rpow (val t (fst e) j) a) ->
    (forall j, validIdx (dimsOf h n) j -> 0 < val 0 (fst e) j) ->
    node_ok3 n
| ok3_pow_nat (e : nat * @rule R) (a : R) (k : nat) :
    a = INR k -> (1 <= k)%nat ->
    edgesOf h n = [e] -> trackedOf h (fst e) = true -> dimsOf h (fst e) = dimsOf h n ->
    (forall i j, D n e i j = if idx_eqb i j then a * Rpow (val 0 (fst e) j) (a - 1) else 0) ->
    (forall t j, validIdx (dimsOf h n) j -> val t n j = Rpow (val t (fst e) j) a) ->
    node_ok3 n
| ok3_pow_zero (e : nat * @rule R) :
    edgesOf h n = [e] -> trackedOf h (fst e) = true -> dimsOf h (fst e) = dimsOf h n ->
    (forall i j, D n e i j = 0) ->
    (forall t j, validIdx (dimsOf h n) j -> val t n j = Rpow (val t (fst e) j) 0) ->
    node_ok3 n
| ok3_fibrewise (e : nat * @rule R) (N : nat)
        (s : list nat -> nat -> list nat) (phi : list nat -> (nat -> R) -> R) (c : list nat -> nat -> R) :
    edgesOf h n = [e] -> trackedOf h (fst e) = true ->
    (forall j k, validIdx (dimsOf h n) j -> (k < N)%nat -> validIdx (dimsOf h (fst e)) (s j k)) ->
    (forall i j, validIdx (dimsOf h (fst e)) i -> validIdx (dimsOf h n) j ->
       D n e i j = sumN N (fun k => if idx_eqb i (s j k) then c j k else 0)) ->
    (forall t j, validIdx (dimsOf h n) j -> val t n j = phi j (fun k => val t (fst e) (s j k))) ->
    (forall j, validIdx (dimsOf h n) j ->
       curve_diffN N (phi j) (fun k => val 0 (fst e) (s j k)) (c j)) ->
    node_ok3 n
| ok3_varAlong (e : nat * @rule R) (dim : nat) :
    edgesOf h n = [e] -> trackedOf h (fst e) = true ->
    (dim < length (dimsOf h (fst e)))%nat -> dimsOf h n = RP.del dim (dimsOf h (fst e)) ->
    (forall i j, validIdx (dimsOf h (fst e)) i -> validIdx (dimsOf h n) j ->
       D n e i j = if idx_eqb (RP.del dim i) j
                   then (if (nOfE e dim =? 1)%nat then 0
                         else 2 / INR (nOfE e dim - 1) *
                              (val 0 (fst e) i - VR.meanN (nOfE e dim) (VR.fib (val 0 (fst e)) dim (RP.del dim i))))
                   else 0) ->
    (forall t j, validIdx (dimsOf h n) j ->
       val t n j = VR.varN (nOfE e dim) (VR.fib (val t (fst e)) dim j)) ->
    node_ok3 n
| ok3_stdAlong (e : nat * @rule R) (dim : nat) :
    edgesOf h n = [e] -> trackedOf h (fst e) = true ->
    (dim < length (dimsOf h (fst e)))%nat -> dimsOf h n = RP.del dim (dimsOf h (fst e)) ->
    (forall i j, validIdx (dimsOf h (fst e)) i -> validIdx (dimsOf h n) j ->
       D n e i j = if idx_eqb (RP.del dim i) j
                   then (if (nOfE e dim =? 1)%nat then 0
                         else 1 / INR (nOfE e dim - 1) *
                              ((val 0 (fst e) i - VR.meanN (nOfE e dim) (VR.fib (val 0 (fst e)) dim (RP.del dim i)))
                               / val 0 n (RP.del dim i)))
                   else 0) ->
    (forall t j, validIdx (dimsOf h n) j ->
       val t n j = sqrt (VR.varN (nOfE e dim) (VR.fib (val t (fst e)) dim j))) ->
    ((1 < nOfE e dim)%nat -> forall j, validIdx (dimsOf h n) j ->
       0 < VR.varN (nOfE e dim) (VR.fib (val 0 (fst e)) dim j)) ->
    node_ok3 n
| ok3_extAlong (e : nat * @rule R) (dim : nat) (sg : R) (M : (nat -> R) -> R) (ks : list nat -> nat) :
    sg = 1 \/ sg = -1 -> VR.is_ext sg (nOfE e dim) M ->
    edgesOf h n = [e] -> trackedOf h (fst e) = true ->
    (dim < length (dimsOf h (fst e)))%nat -> dimsOf h n = RP.del dim (dimsOf h (fst e)) ->
    (forall i j, validIdx (dimsOf h (fst e)) i -> validIdx (dimsOf h n) j ->
       D n e i j = if idx_eqb (RP.del dim i) j
                   then (if (nth dim i 0 =? ks (RP.del dim i))%nat then 1 else 0) else 0) ->
    (forall t j, validIdx (dimsOf h n) j -> val t n j = M (VR.fib (val t (fst e)) dim j)) ->
    (forall j, validIdx (dimsOf h n) j -> (ks j < nOfE e dim)%nat /\
       forall k, (k < nOfE e dim)%nat -> k <> ks j ->
         sg * val 0 (fst e) (RP.ins dim k j) < sg * val 0 (fst e) (RP.ins dim (ks j) j)) ->
    node_ok3 n.

Lemma node_ok3_chain (dm : nat -> assignment) n :
  node_ok3 n -> ops_diff h val dm n ->
  forall j, validIdx (dimsOf h n) j -> is_derive (fun t => val t n j) 0 (Jt h D dm n j).
Proof.
  intros Hok Hd.
  destruct Hok as [Hb
                  | e1 e2 He Hd1 Hd2 HD1 HD2 Hv Hne Hz1 Hz2
                  | e1 e2 He Hd1 Hd2 HD1 HD2 Hv Hne Hz1 Hz2
                  | e a He Ht Hdim HD Hv Hpos
                  | e a k Ea Hk He Ht Hdim HD Hv
                  | e He Ht Hdim HD Hv
                  | e N s phi c He Ht Hs HD Hv Hphi
                  | e dim He Ht Hl Hdn HD Hv
                  | e dim He Ht Hl Hdn HD Hv Hpos
                  | e dim sg M ks Hsg HM He Ht Hl Hdn HD Hv Hguard].
  - apply (node_ok_chain h D val dm n Hb Hd).
  - apply (chain_node_elmax h D val dm n e1 e2 He Hd1 Hd2 HD1 HD2 Hv Hne Hz1 Hz2 Hd).
  - apply (chain_node_elmin h D val dm n e1 e2 He Hd1 Hd2 HD1 HD2 Hv Hne Hz1 Hz2 Hd).
  - apply (chain_node_pow_pos h D val dm n e a He Ht Hdim HD Hv Hpos Hd).
  - apply (chain_node_pow_nat h D val dm n e a k Ea Hk He Ht Hdim HD Hv Hd).
  - apply (chain_node_pow_zero h D val dm n e He Ht Hdim HD Hv Hd).
  - apply (chain_node_fibrewise dm n e N s phi c He Ht Hs HD Hv Hphi Hd).
  - apply (chain_node_varAlong dm n e dim He Ht Hl Hdn HD Hv Hd).
  - apply (chain_node_stdAlong dm n e dim He Ht Hl Hdn HD Hv Hpos Hd).
  - apply (chain_node_extAlong dm n e dim sg M ks Hsg HM He Ht Hl Hdn HD Hv Hguard Hd).
Qed.

Theorem chain_hyp_of_nodes3 (root x : nat) (dl : assignment) :
  (forall n, In n (topoOrder h root) -> (x < n)%nat -> node_ok3 n) ->
  chain_hyp h root D x dl val.
Proof.
  intros Hok n Hn Hgt Hop. apply (node_ok3_chain (tang h D x dl) n (Hok n Hn Hgt)). exact Hop.
Qed.

End Chain4.

(* ================================================================================= *)
(* 4. examples: heaps built by the tracked API, all hypotheses discharged              *)
(* ================================================================================= *)
Module TotalDeriv3Example.
Section Ex.
Variables (thr : R) (draw : bool -> nat -> R).
Local Hint Extern 0 (Scalar R) => exact (R_scalar thr draw) : typeclass_instances.
Variable rd : bred.
Variables x0 x1 : R.

Definition vec2 (a b : R) : tensor R := mkT [2%nat] (Vec [Sc a; Sc b]).
Definition ids : option nat -> tensor R -> tensor R := fun _ g => g.

Lemma wf_vec2 (a b : R) : wf (vec2 a b).
Proof. split; cbn; repeat constructor. Qed.

Lemma sumIdx2 (f : assignment) : sumIdx [2%nat] f = f [0%nat] + f [1%nat].
Proof. unfold sumIdx. cbn. ring. Qed.

Lemma valid2 idx : validIdx [2%nat] idx -> idx = [0%nat] \/ idx = [1%nat].
Proof.
  intros H. apply validIdx_cons in H as (i & r & -> & Hi & Hr). apply validIdx_nil in Hr. subst r.
  destruct i as [|[|i]]; [left; reflexivity|right; reflexivity|lia].
Qed.

Definition xv : tensor R := vec2 x0 x1.

(* ---------------------------------------------------------------------------------- *)
(* 4a. y = x.ElMax(c)  with c an UNTRACKED leaf, x and c apart by more than the library's equality
       threshold at both positions: the gradient left on x is the indicator [c < x] *)
Section Sel.
Variables c0 c1 : R.
Hypotheses (Hthr : 0 <= thr) (Hf0 : thr < Rabs (x0 - c0)) (Hf1 : thr < Rabs (x1 - c1)).

Definition cv : tensor R := vec2 c0 c1.
Definition mv : tensor R := vec2 (Rmax x0 c0) (Rmax x1 c1).

Definition hX : @heap R :=
  [mkNode xv true false None [] None;
   mkNode cv false false None [] None;
   mkNode mv true false None [(0%nat, RElSel 2 0 1); (1%nat, RElSel 2 1 0)] None].

Example hX_built :
  let '(h0, x) := leaf [] xv true None in
  let '(h1, c) := leaf h0 cv false None in
  h_elsel h1 BiElMax x c None = (hX, Ok 2%nat).
Proof. vm_compute. reflexivity. Qed.

Example hX_order : topoOrder hX 2 = [2; 0]%nat.
Proof. reflexivity. Qed.

Example hX_run : exists h' lg, bp_topo rd ids hX 2 = (h', lg, Ok tt).
Proof. eexists. eexists. vm_compute. reflexivity. Qed.

Lemma hX_rules_own : rules_own hX.
Proof.
  intros c n e Hn He. destruct c as [|[|[|c]]]; cbn in Hn.
  - inversion Hn; subst n. destruct He.
  - inversion Hn; subst n. destruct He.
  - inversion Hn; subst n. destruct He as [<-|[<-|[]]]; reflexivity.
  - destruct c; discriminate.
Qed.

Lemma hX_wf_heap : wf_heap hX.
Proof.
  intros c n e Hn He. destruct c as [|[|[|c]]]; cbn in Hn.
  - inversion Hn; subst n. destruct He.
  - inversion Hn; subst n. destruct He.
  - inversion Hn; subst n. destruct He as [<-|[<-|[]]]; cbn; lia.
  - destruct c; discriminate.
Qed.

Lemma x_ne_c j : validIdx [2%nat] j -> thr < Rabs (elt xv j - elt cv j).
Proof. intros Hj. destruct (valid2 j Hj) as [-> | ->]; [exact Hf0|exact Hf1]. Qed.

Lemma far_ne a b : thr < Rabs (a - b) -> a <> b.
Proof.
  intros Hf E. rewrite E in Hf. replace (b - b) with 0 in Hf by ring. rewrite Rabs_R0 in Hf. lra.
Qed.

(* what the RElSel rule multiplies gy by, away from the threshold: the indicator [b < a] *)
Lemma elsel_factor_max a b : thr < Rabs (a - b) ->
  eqt thr (Rmax a b) a - / 2 * eqt thr a b = selgt a b.
Proof.
  intros Hf. pose proof (far_ne a b Hf) as Hne. rewrite (eqt_far thr a b Hf). unfold selgt.
  destruct (Rlt_dec b a) as [L|N].
  - rewrite Rmax_left by lra. rewrite (eqt_same thr a Hthr). ring.
  - rewrite Rmax_right by lra. rewrite eqt_far by (rewrite Rabs_minus_sym; exact Hf). ring.
Qed.

Definition dX (e : nat * @rule R) (j : list nat) : R :=
  if (fst e =? 0)%nat then selgt (elt xv j) (elt cv j) else selgt (elt cv j) (elt xv j).
Definition DX (c : nat) (e : nat * @rule R) (i j : list nat) : R :=
  if idx_eqb i j then dX e j else 0.

Lemma hX_jac : jac_hyp thr draw rd hX 2 DX.
Proof.
  intros c e Hc He Ht hh gc Hv Hg Wg Dg. rewrite hX_order in Hc.
  destruct Hc as [<-|[<-|[]]].
  - destruct He as [<-|[<-|[]]]; cbn [fst snd] in *.
    + assert (Hy : valOf hh 2 = Some mv) by (rewrite Hv; reflexivity).
      assert (Ha : valOf hh 0 = Some xv) by (rewrite Hv; reflexivity).
      assert (Hb : valOf hh 1 = Some cv) by (rewrite Hv; reflexivity).
      destruct (relsel_eval thr draw rd hh 2%nat 0%nat 1%nat mv xv cv gc Hy Ha Hb Hg
                  (wf_vec2 _ _) (wf_vec2 _ _) (wf_vec2 _ _) Wg eq_refl eq_refl Dg)
        as (g & Eg & Dgg & Wgg & Gg).
      exists g. split; [exact Eg|]. split; [exact Dgg|]. split; [exact Wgg|].
      intros i Hi. rewrite (Gg i Hi). change (dimsOf hX 2) with [2%nat]. unfold DX.
      rewrite (sumIdx_diag_r [2%nat] (elt gc) (dX (0%nat, RElSel 2 0 1)) i Hi).
      unfold dX. cbn [fst Nat.eqb]. f_equal.
      change (dimsOf hX 0) with [2%nat] in Hi.
      pose proof (x_ne_c i Hi) as Hf.
      destruct (valid2 i Hi) as [-> | ->]; apply (elsel_factor_max _ _ Hf).
    + (* the edge to the untracked operand is never evaluated *)
      cbv in Ht. discriminate Ht.
  - destruct He.
Qed.

Definition valX (dl : assignment) (t : R) (n : nat) : assignment :=
  fun i => match n with
           | 0%nat => elt xv i + t * dl i
           | 1%nat => elt cv i
           | _ => Rmax (elt xv i + t * dl i) (elt cv i)
           end.

Lemma hX_nodes (dl : assignment) n :
  In n (topoOrder hX 2) -> (0 < n)%nat -> node_ok3 hX DX (valX dl) n.
Proof.
  intros Hn Hgt. rewrite hX_order in Hn. destruct Hn as [<-|[<-|[]]]; [|lia].
  apply (ok3_elmax hX DX (valX dl) 2 (0%nat, RElSel 2 0 1) (1%nat, RElSel 2 1 0)); try reflexivity.
  - intros i j. unfold DX, dX, valX. cbn [Nat.eqb fst]. destruct (idx_eqb i j); [|reflexivity].
    replace (elt xv j + 0 * dl j) with (elt xv j) by ring. reflexivity.
  - intros i j. unfold DX, dX, valX. cbn [Nat.eqb fst]. destruct (idx_eqb i j); [|reflexivity].
    replace (elt xv j + 0 * dl j) with (elt xv j) by ring. reflexivity.
  - intros j Hj. unfold valX. cbn [fst].
    replace (elt xv j + 0 * dl j) with (elt xv j) by ring. apply far_ne. apply x_ne_c. exact Hj.
  - intros Hf. cbv in Hf. discriminate Hf.
  - intros _ t i _. reflexivity.
Qed.

Lemma elmax_total_derivative (h' : @heap R) lg gx (dl : assignment) :
  bp_topo rd ids hX 2 = (h', lg, Ok tt) -> gradOf h' 0 = Some gx ->
  is_derive (fun t => Rmax (x0 + t * dl [0%nat]) c0 + Rmax (x1 + t * dl [1%nat]) c1) 0
            (elt gx [0%nat] * dl [0%nat] + elt gx [1%nat] * dl [1%nat]).
Proof.
  intros E Egx.
  assert (H : is_derive (fun t => sumIdx (dimsOf hX 2) (fun k => valX dl t 2 k)) 0
                        (sumIdx (dimsOf hX 0) (fun i => elt gx i * dl i))).
  { apply (bp_total_derivative thr draw rd hX 2%nat h' lg DX 0%nat dl gx (valX dl)
             hX_rules_own hX_wf_heap eq_refl E).
    - intros n Hn. rewrite hX_order in Hn. destruct Hn as [<-|[<-|[]]]; reflexivity.
    - intros rv0 Hrv. cbn in Hrv. inversion Hrv. apply wf_vec2.
    - exact hX_jac.
    - rewrite hX_order. right. left. reflexivity.
    - exact Egx.
    - intros n _ Hlt. lia.
    - intros t i. unfold valX. ring.
    - apply chain_hyp_of_nodes3. apply hX_nodes. }
  change (dimsOf hX 2) with [2%nat] in H. change (dimsOf hX 0) with [2%nat] in H.
  rewrite sumIdx2 in H.
  apply (is_derive_ext (fun t => sumIdx [2%nat] (fun k => valX dl t 2 k))); [|exact H].
  intros t. rewrite sumIdx2. reflexivity.
Qed.

(* the same derivative by hand, to read off the gradient *)
Lemma elmax_sum_derive (d0 d1 : R) :
  is_derive (fun t => Rmax (x0 + t * d0) c0 + Rmax (x1 + t * d1) c1) 0
            (selgt x0 c0 * d0 + selgt x1 c1 * d1).
Proof.
  assert (P : forall x c d, thr < Rabs (x - c) ->
            is_derive (fun t => Rmax (x + t * d) c) 0 (selgt x c * d)).
  { intros x c d Hf.
    replace (selgt x c * d) with (selgt x c * d + selgt c x * 0) by ring.
    apply (curve_diff2_max x c (far_ne x c Hf) (fun t => x + t * d) (fun _ => c)).
    - ring.
    - reflexivity.
    - auto_derive; [exact I|ring].
    - apply (is_derive_const c 0). }
  apply (is_derive_plus (fun t => Rmax (x0 + t * d0) c0) (fun t => Rmax (x1 + t * d1) c1) 0).
  - apply P. exact Hf0.
  - apply P. exact Hf1.
Qed.

(* the gradient of  Σ_k max(x_k, c_k)  left on x is the indicator [c_k < x_k] *)
Theorem elmax_gradient :
  exists h' lg gx, bp_topo rd ids hX 2 = (h', lg, Ok tt) /\ gradOf h' 0 = Some gx /\
    elt gx [0%nat] = selgt x0 c0 /\ elt gx [1%nat] = selgt x1 c1 /\
    forall dl : assignment,
      is_derive (fun t => Rmax (x0 + t * dl [0%nat]) c0 + Rmax (x1 + t * dl [1%nat]) c1) 0
                (elt gx [0%nat] * dl [0%nat] + elt gx [1%nat] * dl [1%nat]).
Proof.
  destruct hX_run as (h' & lg & E).
  destruct (bp_topo_correct rd hX 2 h' lg hX_rules_own hX_wf_heap eq_refl E)
    as (rv & ones & _ & _ & _ & _ & _ & _ & C7 & _).
  assert (Hex : exists gx, gradOf h' 0 = Some gx).
  { destruct (gradOf h' 0) as [gx|] eqn:Egx; [exists gx; reflexivity|].
    exfalso. apply (C7 0%nat); [rewrite hX_order; right; left; reflexivity|exact Egx]. }
  destruct Hex as (gx & Egx).
  exists h', lg, gx. split; [exact E|]. split; [exact Egx|].
  pose proof (elmax_total_derivative h' lg gx (indic [0%nat]) E Egx) as H0.
  pose proof (elmax_total_derivative h' lg gx (indic [1%nat]) E Egx) as H1.
  unfold indic in H0, H1.
  change (idx_eqb [0%nat] [0%nat]) with true in *. change (idx_eqb [1%nat] [0%nat]) with false in *.
  change (idx_eqb [0%nat] [1%nat]) with false in *. change (idx_eqb [1%nat] [1%nat]) with true in *.
  split; [|split].
  - apply is_derive_unique in H0. pose proof (is_derive_unique _ _ _ (elmax_sum_derive 1 0)) as G0.
    rewrite G0 in H0. lra.
  - apply is_derive_unique in H1. pose proof (is_derive_unique _ _ _ (elmax_sum_derive 0 1)) as G1.
    rewrite G1 in H1. lra.
  - intros dl. apply (elmax_total_derivative h' lg gx dl E Egx).
Qed.

End Sel.

(* ---------------------------------------------------------------------------------- *)
(* 4b. y = x.Pow(a): either both elements of x positive (any real a), or a a natural number >= 1
       (any x, zero and negative elements included); gradient  a * x^(a-1) *)
Section Pw.
Variable a : R.
Hypothesis Guard : (0 < x0 /\ 0 < x1) \/ (exists k, a = INR k /\ (1 <= k)%nat).

Definition pw : tensor R := vec2 (Rpow x0 a) (Rpow x1 a).

Definition hP : @heap R :=
  [mkNode xv true false None [] None;
   mkNode pw true false None [(0%nat, RPow 1 0 a false)] None].

Example hP_built :
  let '(h0, x) := leaf [] xv true None in h_pow h0 x a false None = (hP, Ok 1%nat).
Proof. reflexivity. Qed.

Example hP_order : topoOrder hP 1 = [1; 0]%nat.
Proof. reflexivity. Qed.

Example hP_run : exists h' lg, bp_topo rd ids hP 1 = (h', lg, Ok tt).
Proof. eexists. eexists. vm_compute. reflexivity. Qed.

Lemma hP_rules_own : rules_own hP.
Proof.
  intros c n e Hn He. destruct c as [|[|c]]; cbn in Hn.
  - inversion Hn; subst n. destruct He.
  - inversion Hn; subst n. destruct He as [<-|[]]. reflexivity.
  - destruct c; discriminate.
Qed.

Lemma hP_wf_heap : wf_heap hP.
Proof.
  intros c n e Hn He. destruct c as [|[|c]]; cbn in Hn.
  - inversion Hn; subst n. destruct He.
  - inversion Hn; subst n. destruct He as [<-|[]]. cbn. lia.
  - destruct c; discriminate.
Qed.

Definition DP (c : nat) (e : nat * @rule R) (i j : list nat) : R :=
  if idx_eqb i j then a * Rpow (elt xv j) (a - 1) else 0.

Lemma hP_jac : jac_hyp thr draw rd hP 1 DP.
Proof.
  intros c e Hc He Ht hh gc Hv Hg Wg Dg. rewrite hP_order in Hc.
  destruct Hc as [<-|[<-|[]]].
  - destruct He as [<-|[]]. cbn [fst snd].
    assert (Hx : valOf hh 0 = Some xv) by (rewrite Hv; reflexivity).
    destruct (rpow_eval thr draw rd hh 1%nat 0%nat a xv gc Hx Hg (wf_vec2 _ _) Wg Dg)
      as (g & Eg & Dgg & Wgg & Gg).
    exists g. split; [exact Eg|]. split; [exact Dgg|]. split; [exact Wgg|].
    intros i Hi. rewrite (Gg i Hi). change (dimsOf hP 1) with [2%nat]. unfold DP.
    rewrite (sumIdx_diag_r [2%nat] (elt gc) (fun j => a * Rpow (elt xv j) (a - 1)) i Hi). reflexivity.
  - destruct He.
Qed.

Definition valP (dl : assignment) (t : R) (n : nat) : assignment :=
  fun i => match n with
           | 0%nat => elt xv i + t * dl i
           | _ => Rpow (elt xv i + t * dl i) a
           end.

Lemma hP_nodes (dl : assignment) n :
  In n (topoOrder hP 1) -> (0 < n)%nat -> node_ok3 hP DP (valP dl) n.
Proof.
  intros Hn Hgt. rewrite hP_order in Hn. destruct Hn as [<-|[<-|[]]]; [|lia].
  assert (HD : forall i j, DP 1 (0%nat, RPow 1 0 a false) i j =
             if idx_eqb i j then a * Rpow (valP dl 0 (fst (0%nat, @RPow R 1 0 a false)) j) (a - 1) else 0).
  { intros i j. unfold DP, valP. cbn [fst]. destruct (idx_eqb i j); [|reflexivity].
    replace (elt xv j + 0 * dl j) with (elt xv j) by ring. reflexivity. }
  destruct Guard as [[Hp0 Hp1] | (k & Ea & Hk)].
  - apply (ok3_pow_pos hP DP (valP dl) 1 (0%nat, RPow 1 0 a false) a); try reflexivity.
    + exact HD.
    + intros j Hj. unfold valP. cbn [fst]. replace (elt xv j + 0 * dl j) with (elt xv j) by ring.
      destruct (valid2 j Hj) as [-> | ->]; [exact Hp0|exact Hp1].
  - apply (ok3_pow_nat hP DP (valP dl) 1 (0%nat, RPow 1 0 a false) a k Ea Hk); try reflexivity.
    exact HD.
Qed.

Lemma pow_total_derivative (h' : @heap R) lg gx (dl : assignment) :
  bp_topo rd ids hP 1 = (h', lg, Ok tt) -> gradOf h' 0 = Some gx ->
  is_derive (fun t => Rpow (x0 + t * dl [0%nat]) a + Rpow (x1 + t * dl [1%nat]) a) 0
            (elt gx [0%nat] * dl [0%nat] + elt gx [1%nat] * dl [1%nat]).
Proof.
  intros E Egx.
  assert (H : is_derive (fun t => sumIdx (dimsOf hP 1) (fun k => valP dl t 1 k)) 0
                        (sumIdx (dimsOf hP 0) (fun i => elt gx i * dl i))).
  { apply (bp_total_derivative thr draw rd hP 1%nat h' lg DP 0%nat dl gx (valP dl)
             hP_rules_own hP_wf_heap eq_refl E).
    - intros n Hn. rewrite hP_order in Hn. destruct Hn as [<-|[<-|[]]]; reflexivity.
    - intros rv0 Hrv. cbn in Hrv. inversion Hrv. apply wf_vec2.
    - exact hP_jac.
    - rewrite hP_order. right. left. reflexivity.
    - exact Egx.
    - intros n _ Hlt. lia.
    - intros t i. unfold valP. ring.
    - apply chain_hyp_of_nodes3. apply hP_nodes. }
  change (dimsOf hP 1) with [2%nat] in H. change (dimsOf hP 0) with [2%nat] in H.
  rewrite sumIdx2 in H.
  apply (is_derive_ext (fun t => sumIdx [2%nat] (fun k => valP dl t 1 k))); [|exact H].
  intros t. rewrite sumIdx2. reflexivity.
Qed.

(* the scalar derivative under the guard, to read off the gradient *)
Lemma d_Rpow_guard x : (0 < x \/ exists k, a = INR k /\ (1 <= k)%nat) ->
  is_derive (fun v => Rpow v a) x (a * Rpow x (a - 1)).
Proof.
  intros [Hp | (k & Ea & Hk)].
  - rewrite (Rpow_pos x (a - 1) Hp). apply d_Rpow_pos. exact Hp.
  - subst a. rewrite (INR_pred k Hk), Rpow_INR. apply d_Rpow_nat.
Qed.

Lemma pow_sum_derive (d0 d1 : R) :
  is_derive (fun t => Rpow (x0 + t * d0) a + Rpow (x1 + t * d1) a) 0
            (a * Rpow x0 (a - 1) * d0 + a * Rpow x1 (a - 1) * d1).
Proof.
  assert (P : forall x d, (0 < x \/ exists k, a = INR k /\ (1 <= k)%nat) ->
            is_derive (fun t => Rpow (x + t * d) a) 0 (a * Rpow x (a - 1) * d)).
  { intros x d G.
    replace (a * Rpow x (a - 1) * d) with (scal d (a * Rpow x (a - 1)))
      by (unfold scal; cbn; unfold mult; cbn; ring).
    apply (is_derive_comp (fun v => Rpow v a) (fun t => x + t * d) 0).
    - replace (x + 0 * d) with x by ring. apply d_Rpow_guard. exact G.
    - auto_derive; [exact I|ring]. }
  apply (is_derive_plus (fun t => Rpow (x0 + t * d0) a) (fun t => Rpow (x1 + t * d1) a) 0).
  - apply P. destruct Guard as [[Hp0 _] | G]; [left; exact Hp0|right; exact G].
  - apply P. destruct Guard as [[_ Hp1] | G]; [left; exact Hp1|right; exact G].
Qed.

(* the gradient of  Σ_k x_k^a  left on x is  a * x^(a-1) *)
Theorem pow_gradient :
  exists h' lg gx, bp_topo rd ids hP 1 = (h', lg, Ok tt) /\ gradOf h' 0 = Some gx /\
    elt gx [0%nat] = a * Rpow x0 (a - 1) /\ elt gx [1%nat] = a * Rpow x1 (a - 1) /\
    forall dl : assignment,
      is_derive (fun t => Rpow (x0 + t * dl [0%nat]) a + Rpow (x1 + t * dl [1%nat]) a) 0
                (elt gx [0%nat] * dl [0%nat] + elt gx [1%nat] * dl [1%nat]).
Proof.
  destruct hP_run as (h' & lg & E).
  destruct (bp_topo_correct rd hP 1 h' lg hP_rules_own hP_wf_heap eq_refl E)
    as (rv & ones & _ & _ & _ & _ & _ & _ & C7 & _).
  assert (Hex : exists gx, gradOf h' 0 = Some gx).
  { destruct (gradOf h' 0) as [gx|] eqn:Egx; [exists gx; reflexivity|].
    exfalso. apply (C7 0%nat); [rewrite hP_order; right; left; reflexivity|exact Egx]. }
  destruct Hex as (gx & Egx).
  exists h', lg, gx. split; [exact E|]. split; [exact Egx|].
  pose proof (pow_total_derivative h' lg gx (indic [0%nat]) E Egx) as H0.
  pose proof (pow_total_derivative h' lg gx (indic [1%nat]) E Egx) as H1.
  unfold indic in H0, H1.
  change (idx_eqb [0%nat] [0%nat]) with true in *. change (idx_eqb [1%nat] [0%nat]) with false in *.
  change (idx_eqb [0%nat] [1%nat]) with false in *. change (idx_eqb [1%nat] [1%nat]) with true in *.
  split; [|split].
  - apply is_derive_unique in H0. pose proof (is_derive_unique _ _ _ (pow_sum_derive 1 0)) as G0.
    rewrite G0 in H0. lra.
  - apply is_derive_unique in H1. pose proof (is_derive_unique _ _ _ (pow_sum_derive 0 1)) as G1.
    rewrite G1 in H1. lra.
  - intros dl. apply (pow_total_derivative h' lg gx dl E Egx).
Qed.

End Pw.

(* y = x.Pow(3) at arbitrary x (no sign condition): gradient 3 x² *)
Theorem cube_gradient :
  exists h' lg gx, bp_topo rd ids (hP 3) 1 = (h', lg, Ok tt) /\ gradOf h' 0 = Some gx /\
    elt gx [0%nat] = 3 * x0 ^ 2 /\ elt gx [1%nat] = 3 * x1 ^ 2 /\
    forall dl : assignment,
      is_derive (fun t => (x0 + t * dl [0%nat]) ^ 3 + (x1 + t * dl [1%nat]) ^ 3) 0
                (elt gx [0%nat] * dl [0%nat] + elt gx [1%nat] * dl [1%nat]).
Proof.
  assert (G : (0 < x0 /\ 0 < x1) \/ (exists k, 3 = INR k /\ (1 <= k)%nat)).
  { right. exists 3%nat. split; [simpl; ring|lia]. }
  destruct (pow_gradient 3 G) as (h' & lg & gx & E & Egx & G0 & G1 & Hd).
  assert (P3 : forall v, Rpow v 3 = v ^ 3) by (intros v; apply (Rpow_IZR v 3)).
  assert (P2 : forall v, Rpow v (3 - 1) = v ^ 2)
    by (intros v; replace (3 - 1) with 2 by ring; apply (Rpow_IZR v 2)).
  exists h', lg, gx. split; [exact E|]. split; [exact Egx|].
  split; [rewrite G0, P2; reflexivity|]. split; [rewrite G1, P2; reflexivity|].
  intros dl. apply (is_derive_ext (fun t => Rpow (x0 + t * dl [0%nat]) 3 + Rpow (x1 + t * dl [1%nat]) 3)).
  - intros t. rewrite !P3. reflexivity.
  - apply Hd.
Qed.

(* y = x.Pow(a) at positive x, arbitrary real exponent: gradient a x^(a-1) as a real power *)
Theorem rpower_gradient (a : R) : 0 < x0 -> 0 < x1 ->
  exists h' lg gx, bp_topo rd ids (hP a) 1 = (h', lg, Ok tt) /\ gradOf h' 0 = Some gx /\
    elt gx [0%nat] = a * Rpower x0 (a - 1) /\ elt gx [1%nat] = a * Rpower x1 (a - 1) /\
    forall dl : assignment,
      is_derive (fun t => Rpow (x0 + t * dl [0%nat]) a + Rpow (x1 + t * dl [1%nat]) a) 0
                (elt gx [0%nat] * dl [0%nat] + elt gx [1%nat] * dl [1%nat]).
Proof.
  intros Hp0 Hp1.
  destruct (pow_gradient a (or_introl (conj Hp0 Hp1))) as (h' & lg & gx & E & Egx & G0 & G1 & Hd).
  exists h', lg, gx. split; [exact E|]. split; [exact Egx|].
  split; [rewrite G0, (Rpow_pos _ _ Hp0); reflexivity|].
  split; [rewrite G1, (Rpow_pos _ _ Hp1); reflexivity|]. exact Hd.
Qed.

(* ---------------------------------------------------------------------------------- *)
(* 4c. y = x.VarAlong(0)  for x : [2]  (y a scalar: the unbiased sample variance (x0 - x1)² / 2);
       gradient (x0 - x1, x1 - x0) *)
Section Var.

Definition vv : tensor R := mkT [] (Sc (RP.varL [x0; x1])).

Definition hV : @heap R :=
  [mkNode xv true false None [] None;
   mkNode vv true false None [(0%nat, RVarAlong 1 0 0)] None].

Example hV_built :
  let '(h0, x) := leaf [] xv true None in h_reduceAlong h0 RdVar x 0%Z None = (hV, Ok 1%nat).
Proof. reflexivity. Qed.

Example hV_order : topoOrder hV 1 = [1; 0]%nat.
Proof. reflexivity. Qed.

Example hV_run : exists h' lg, bp_topo rd ids hV 1 = (h', lg, Ok tt).
Proof. eexists. eexists. vm_compute. reflexivity. Qed.

Lemma hV_rules_own : rules_own hV.
Proof.
  intros c n e Hn He. destruct c as [|[|c]]; cbn in Hn.
  - inversion Hn; subst n. destruct He.
  - inversion Hn; subst n. destruct He as [<-|[]]. reflexivity.
  - destruct c; discriminate.
Qed.

Lemma hV_wf_heap : wf_heap hV.
Proof.
  intros c n e Hn He. destruct c as [|[|c]]; cbn in Hn.
  - inversion Hn; subst n. destruct He.
  - inversion Hn; subst n. destruct He as [<-|[]]. cbn. lia.
  - destruct c; discriminate.
Qed.

Lemma sumIdx0 (f : assignment) : sumIdx [] f = f [].
Proof. unfold sumIdx. cbn. ring. Qed.

Lemma wf_vv : wf vv.
Proof. split; cbn; [exact I|constructor]. Qed.

(* the coefficient of the RVarAlong rule (rvar_eval), N = 2 *)
Definition cV (x : assignment) (i : list nat) : R :=
  if (2 =? 1)%nat then 0
  else 2 / INR (2 - 1) * (x i - VR.meanN 2 (VR.fib x 0 (RP.del 0 i))).
Definition DV (c : nat) (e : nat * @rule R) (i j : list nat) : R :=
  if idx_eqb (RP.del 0 i) j then cV (elt xv) i else 0.

Lemma hV_jac : jac_hyp thr draw rd hV 1 DV.
Proof.
  intros c e Hc He Ht hh gc Hv Hg Wg Dg. rewrite hV_order in Hc.
  destruct Hc as [<-|[<-|[]]].
  - destruct He as [<-|[]]. cbn [fst snd].
    assert (Hx : valOf hh 0 = Some xv) by (rewrite Hv; reflexivity).
    destruct (VR.rvar_eval thr draw rd hh 1%nat 0%nat 0%nat xv gc Hx Hg (wf_vec2 _ _) Wg
                ltac:(cbn; lia) Dg) as (g & Eg & Dgg & Wgg & Gg).
    exists g. split; [exact Eg|]. split; [exact Dgg|]. split; [exact Wgg|].
    intros i Hi. rewrite (Gg i Hi). change (dimsOf hV 1) with (@nil nat). rewrite sumIdx0.
    change (dimsOf hV 0) with [2%nat] in Hi. unfold DV, cV.
    destruct (valid2 i Hi) as [-> | ->]; reflexivity.
  - destruct He.
Qed.

Definition valV (dl : assignment) (t : R) (n : nat) : assignment :=
  match n with
  | 0%nat => fun i => elt xv i + t * dl i
  | _ => fun j => VR.varN 2 (VR.fib (fun i => elt xv i + t * dl i) 0 j)
  end.

Lemma hV_nodes (dl : assignment) n :
  In n (topoOrder hV 1) -> (0 < n)%nat -> node_ok3 hV DV (valV dl) n.
Proof.
  intros Hn Hgt. rewrite hV_order in Hn. destruct Hn as [<-|[<-|[]]]; [|lia].
  apply (ok3_varAlong hV DV (valV dl) 1 (0%nat, RVarAlong 1 0 0) 0%nat); try reflexivity.
  - cbn. lia.
  - intros i j _ _. cbn [fst]. change (nth 0 (dimsOf hV 0) 0%nat) with 2%nat.
    unfold DV, cV. destruct (idx_eqb (RP.del 0 i) j); [|reflexivity].
    cbn [Nat.eqb]. f_equal.
    rewrite (VR.meanN_ext 2 (VR.fib (valV dl 0 0) 0 (RP.del 0 i)) (VR.fib (elt xv) 0 (RP.del 0 i)))
      by (intros k; unfold VR.fib, valV; ring).
    unfold valV. ring.
Qed.

Lemma varN2 (v : nat -> R) : VR.varN 2 v = (v 0%nat - v 1%nat) ^ 2 / 2.
Proof. unfold VR.varN, VR.meanN, VR.sumN, Qeep.Proofs.ReduceRP.Rsum. cbn. field. Qed.

Lemma var_total_derivative (h' : @heap R) lg gx (dl : assignment) :
  bp_topo rd ids hV 1 = (h', lg, Ok tt) -> gradOf h' 0 = Some gx ->
  is_derive (fun t => ((x0 + t * dl [0%nat]) - (x1 + t * dl [1%nat])) ^ 2 / 2) 0
            (elt gx [0%nat] * dl [0%nat] + elt gx [1%nat] * dl [1%nat]).
Proof.
  intros E Egx.
  assert (H : is_derive (fun t => sumIdx (dimsOf hV 1) (fun k => valV dl t 1 k)) 0
                        (sumIdx (dimsOf hV 0) (fun i => elt gx i * dl i))).
  { apply (bp_total_derivative thr draw rd hV 1%nat h' lg DV 0%nat dl gx (valV dl)
             hV_rules_own hV_wf_heap eq_refl E).
    - intros n Hn. rewrite hV_order in Hn. destruct Hn as [<-|[<-|[]]]; reflexivity.
    - intros rv0 Hrv. cbn in Hrv. inversion Hrv. apply wf_vv.
    - exact hV_jac.
    - rewrite hV_order. right. left. reflexivity.
    - exact Egx.
    - intros n _ Hlt. lia.
    - intros t i. unfold valV. ring.
    - apply chain_hyp_of_nodes3. apply hV_nodes. }
  change (dimsOf hV 1) with (@nil nat) in H. change (dimsOf hV 0) with [2%nat] in H.
  rewrite sumIdx2 in H.
  apply (is_derive_ext (fun t => sumIdx [] (fun k => valV dl t 1 k))); [|exact H].
  intros t. rewrite sumIdx0. unfold valV. rewrite varN2. reflexivity.
Qed.

(* the gradient of the sample variance of (x0, x1) left on x is (x0 - x1, x1 - x0) *)
Theorem var_gradient :
  exists h' lg gx, bp_topo rd ids hV 1 = (h', lg, Ok tt) /\ gradOf h' 0 = Some gx /\
    elt gx [0%nat] = x0 - x1 /\ elt gx [1%nat] = x1 - x0 /\
    forall dl : assignment,
      is_derive (fun t => ((x0 + t * dl [0%nat]) - (x1 + t * dl [1%nat])) ^ 2 / 2) 0
                (elt gx [0%nat] * dl [0%nat] + elt gx [1%nat] * dl [1%nat]).
Proof.
  destruct hV_run as (h' & lg & E).
  destruct (bp_topo_correct rd hV 1 h' lg hV_rules_own hV_wf_heap eq_refl E)
    as (rv & ones & _ & _ & _ & _ & _ & _ & C7 & _).
  assert (Hex : exists gx, gradOf h' 0 = Some gx).
  { destruct (gradOf h' 0) as [gx|] eqn:Egx; [exists gx; reflexivity|].
    exfalso. apply (C7 0%nat); [rewrite hV_order; right; left; reflexivity|exact Egx]. }
  destruct Hex as (gx & Egx).
  exists h', lg, gx. split; [exact E|]. split; [exact Egx|].
  pose proof (var_total_derivative h' lg gx (indic [0%nat]) E Egx) as H0.
  pose proof (var_total_derivative h' lg gx (indic [1%nat]) E Egx) as H1.
  unfold indic in H0, H1.
  change (idx_eqb [0%nat] [0%nat]) with true in *. change (idx_eqb [1%nat] [0%nat]) with false in *.
  change (idx_eqb [0%nat] [1%nat]) with false in *. change (idx_eqb [1%nat] [1%nat]) with true in *.
  split; [|split].
  - apply is_derive_unique in H0.
    replace (elt gx [0%nat]) with (elt gx [0%nat] * 1 + elt gx [1%nat] * 0) by ring.
    rewrite <- H0. apply is_derive_unique. auto_derive; [exact I|field].
  - apply is_derive_unique in H1.
    replace (elt gx [1%nat]) with (elt gx [0%nat] * 0 + elt gx [1%nat] * 1) by ring.
    rewrite <- H1. apply is_derive_unique. auto_derive; [exact I|field].
  - intros dl. apply (var_total_derivative h' lg gx dl E Egx).
Qed.

End Var.

(* ---------------------------------------------------------------------------------- *)
(* 4d. y = x.MaxAlong(0)  for x : [2]  with x0 the unique maximum, ahead of x1 by more than the
       equality threshold; gradient (1, 0).  (0 <= x0 because the real instance of the model starts
       the running maximum from the placeholder 0 instead of -Inf, see Spec/RScalar.v) *)
Section Mx.
Hypotheses (Hthr : 0 <= thr) (Hsep : thr < x0 - x1) (Hnn : 0 <= x0).

Definition xmv : tensor R := mkT [] (Sc (RP.maxL [x0; x1])).

Definition hA : @heap R :=
  [mkNode xv true false None [] None;
   mkNode xmv true false None [(0%nat, RExtAlong 1 0 0)] None].

Example hA_built :
  let '(h0, x) := leaf [] xv true None in h_reduceAlong h0 RdMax x 0%Z None = (hA, Ok 1%nat).
Proof. reflexivity. Qed.

Example hA_order : topoOrder hA 1 = [1; 0]%nat.
Proof. reflexivity. Qed.

Example hA_run : exists h' lg, bp_topo rd ids hA 1 = (h', lg, Ok tt).
Proof. eexists. eexists. vm_compute. reflexivity. Qed.

Lemma hA_rules_own : rules_own hA.
Proof.
  intros c n e Hn He. destruct c as [|[|c]]; cbn in Hn.
  - inversion Hn; subst n. destruct He.
  - inversion Hn; subst n. destruct He as [<-|[]]. reflexivity.
  - destruct c; discriminate.
Qed.

Lemma hA_wf_heap : wf_heap hA.
Proof.
  intros c n e Hn He. destruct c as [|[|c]]; cbn in Hn.
  - inversion Hn; subst n. destruct He.
  - inversion Hn; subst n. destruct He as [<-|[]]. cbn. lia.
  - destruct c; discriminate.
Qed.

Lemma wf_xmv : wf xmv.
Proof. split; cbn; [exact I|constructor]. Qed.

(* the stored forward value is x0 *)
Lemma xmv_val : elt xmv [] = x0.
Proof.
  unfold elt, xmv, RP.maxL. cbn.
  destruct (Rgt_dec 0 x0) as [G1|G1]; [lra|]. destruct (Rgt_dec x0 x1) as [G2|G2]; [reflexivity|].
  exfalso. apply G2. unfold Rgt. lra.
Qed.

Definition DA (c : nat) (e : nat * @rule R) (i j : list nat) : R :=
  if idx_eqb (RP.del 0 i) j then (if (nth 0 i 0 =? 0)%nat then 1 else 0) else 0.

Lemma hA_jac : jac_hyp thr draw rd hA 1 DA.
Proof.
  intros c e Hc He Ht hh gc Hv Hg Wg Dg. rewrite hA_order in Hc.
  destruct Hc as [<-|[<-|[]]].
  - destruct He as [<-|[]]. cbn [fst snd].
    assert (Hx : valOf hh 0 = Some xv) by (rewrite Hv; reflexivity).
    assert (Hy : valOf hh 1 = Some xmv) by (rewrite Hv; reflexivity).
    destruct (VR.rext_eval thr draw rd hh 1%nat 0%nat 0%nat xv xmv gc Hx Hy Hg (wf_vec2 _ _) wf_xmv Wg
                ltac:(cbn; lia) eq_refl Dg) as (g & Eg & Dgg & Wgg & Gg).
    exists g. split; [exact Eg|]. split; [exact Dgg|]. split; [exact Wgg|].
    intros i Hi. rewrite (Gg i Hi). change (dimsOf hA 1) with (@nil nat). rewrite sumIdx0.
    change (dimsOf hA 0) with [2%nat] in Hi. unfold DA.
    destruct (valid2 i Hi) as [-> | ->]; change (RP.del 0 [0%nat]) with (@nil nat);
      change (RP.del 0 [1%nat]) with (@nil nat); rewrite xmv_val;
      change (idx_eqb [] []) with true; cbn [nth Nat.eqb]; f_equal.
    + change (elt xv [0%nat]) with x0. apply eqt_same. exact Hthr.
    + change (elt xv [1%nat]) with x1. apply eqt_far.
      rewrite Rabs_left by lra. lra.
  - destruct He.
Qed.

Definition valA (dl : assignment) (t : R) (n : nat) : assignment :=
  match n with
  | 0%nat => fun i => elt xv i + t * dl i
  | _ => fun j => VR.maxN 2 (VR.fib (fun i => elt xv i + t * dl i) 0 j)
  end.

Lemma hA_nodes (dl : assignment) n :
  In n (topoOrder hA 1) -> (0 < n)%nat -> node_ok3 hA DA (valA dl) n.
Proof.
  intros Hn Hgt. rewrite hA_order in Hn. destruct Hn as [<-|[<-|[]]]; [|lia].
  apply (ok3_extAlong hA DA (valA dl) 1 (0%nat, RExtAlong 1 0 0) 0%nat 1 (VR.maxN 2) (fun _ => 0%nat));
    try reflexivity.
  - left. reflexivity.
  - apply VR.is_maxN_ext. apply VR.maxN_is_max. cbn. lia.
  - cbn. lia.
  - intros j Hj. change (dimsOf hA 1) with (@nil nat) in Hj. apply validIdx_nil in Hj. subst j.
    cbn [fst]. change (nth 0 (dimsOf hA 0) 0%nat) with 2%nat. split; [lia|].
    intros k Hk Hne. assert (k = 1%nat) by lia. subst k.
    unfold valA. change (RP.ins 0 1%nat []) with [1%nat]. change (RP.ins 0 0%nat []) with [0%nat].
    change (elt xv [0%nat]) with x0. change (elt xv [1%nat]) with x1. lra.
Qed.

Lemma max_total_derivative (h' : @heap R) lg gx (dl : assignment) :
  bp_topo rd ids hA 1 = (h', lg, Ok tt) -> gradOf h' 0 = Some gx ->
  is_derive (fun t => Rmax (x0 + t * dl [0%nat]) (x1 + t * dl [1%nat])) 0
            (elt gx [0%nat] * dl [0%nat] + elt gx [1%nat] * dl [1%nat]).
Proof.
  intros E Egx.
  assert (H : is_derive (fun t => sumIdx (dimsOf hA 1) (fun k => valA dl t 1 k)) 0
                        (sumIdx (dimsOf hA 0) (fun i => elt gx i * dl i))).
  { apply (bp_total_derivative thr draw rd hA 1%nat h' lg DA 0%nat dl gx (valA dl)
             hA_rules_own hA_wf_heap eq_refl E).
    - intros n Hn. rewrite hA_order in Hn. destruct Hn as [<-|[<-|[]]]; reflexivity.
    - intros rv0 Hrv. cbn in Hrv. inversion Hrv. apply wf_xmv.
    - exact hA_jac.
    - rewrite hA_order. right. left. reflexivity.
    - exact Egx.
    - intros n _ Hlt. lia.
    - intros t i. unfold valA. ring.
    - apply chain_hyp_of_nodes3. apply hA_nodes. }
  change (dimsOf hA 1) with (@nil nat) in H. change (dimsOf hA 0) with [2%nat] in H.
  rewrite sumIdx2 in H.
  apply (is_derive_ext (fun t => sumIdx [] (fun k => valA dl t 1 k))); [|exact H].
  intros t. rewrite sumIdx0. reflexivity.
Qed.

(* the gradient of  max(x0, x1)  left on x is (1, 0) *)
Theorem maxalong_gradient :
  exists h' lg gx, bp_topo rd ids hA 1 = (h', lg, Ok tt) /\ gradOf h' 0 = Some gx /\
    elt gx [0%nat] = 1 /\ elt gx [1%nat] = 0 /\
    forall dl : assignment,
      is_derive (fun t => Rmax (x0 + t * dl [0%nat]) (x1 + t * dl [1%nat])) 0
                (elt gx [0%nat] * dl [0%nat] + elt gx [1%nat] * dl [1%nat]).
Proof.
  destruct hA_run as (h' & lg & E).
  destruct (bp_topo_correct rd hA 1 h' lg hA_rules_own hA_wf_heap eq_refl E)
    as (rv & ones & _ & _ & _ & _ & _ & _ & C7 & _).
  assert (Hex : exists gx, gradOf h' 0 = Some gx).
  { destruct (gradOf h' 0) as [gx|] eqn:Egx; [exists gx; reflexivity|].
    exfalso. apply (C7 0%nat); [rewrite hA_order; right; left; reflexivity|exact Egx]. }
  destruct Hex as (gx & Egx).
  exists h', lg, gx. split; [exact E|]. split; [exact Egx|].
  assert (P : forall d0 d1, is_derive (fun t => Rmax (x0 + t * d0) (x1 + t * d1)) 0 (1 * d0 + 0 * d1)).
  { intros d0 d1. assert (Hlt : x1 < x0) by lra.
    apply (curve_diff2_max_gt x0 x1 Hlt (fun t => x0 + t * d0) (fun t => x1 + t * d1)).
    - ring.
    - ring.
    - auto_derive; [exact I|ring].
    - auto_derive; [exact I|ring]. }
  pose proof (max_total_derivative h' lg gx (indic [0%nat]) E Egx) as H0.
  pose proof (max_total_derivative h' lg gx (indic [1%nat]) E Egx) as H1.
  unfold indic in H0, H1.
  change (idx_eqb [0%nat] [0%nat]) with true in *. change (idx_eqb [1%nat] [0%nat]) with false in *.
  change (idx_eqb [0%nat] [1%nat]) with false in *. change (idx_eqb [1%nat] [1%nat]) with true in *.
  split; [|split].
  - apply is_derive_unique in H0. pose proof (is_derive_unique _ _ _ (P 1 0)) as G0.
    rewrite G0 in H0. lra.
  - apply is_derive_unique in H1. pose proof (is_derive_unique _ _ _ (P 0 1)) as G1.
    rewrite G1 in H1. lra.
  - intros dl. apply (max_total_derivative h' lg gx dl E Egx).
Qed.

End Mx.

End Ex.
End TotalDeriv3Example.

Print Assumptions curve_diff2_max.
Print Assumptions curve_diff2_min.
Print Assumptions curve_diff2_max_tie_refuted.
Print Assumptions curve_diff2_min_tie_refuted.
Print Assumptions chain_node_elmax.
Print Assumptions chain_node_elmin.
Print Assumptions chain_node_pow_pos.
Print Assumptions chain_node_pow_nat.
Print Assumptions chain_node_pow_zero.
Print Assumptions chain_hyp_of_nodes3.
Print Assumptions curve_diffN_ext.
Print Assumptions curve_diffN_var.
Print Assumptions curve_diffN_std.
Print Assumptions chain_node_fibrewise.
Print Assumptions chain_node_along.
Print Assumptions chain_node_varAlong.
Print Assumptions chain_node_stdAlong.
Print Assumptions chain_node_extAlong.
Print Assumptions TotalDeriv3Example.elmax_gradient.
Print Assumptions TotalDeriv3Example.pow_gradient.
Print Assumptions TotalDeriv3Example.cube_gradient.
Print Assumptions TotalDeriv3Example.rpower_gradient.
Print Assumptions TotalDeriv3Example.var_gradient.
Print Assumptions TotalDeriv3Example.maxalong_gradient.
