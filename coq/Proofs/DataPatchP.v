(* DataPatchP.v — CPUTensor.copiedWithPatchOf (tensor/internal/cputensor/accessors.go) as translated by harness/gox
   into the DataIR program GoData.d_copiedWithPatchOf computes Model/Data.v patchData / the body of Data.patch.

   NOTE (history; why the closure ends with the write-back [TSet "dst" (XVar "dstRows")]).
   In Go, the local [dstRows], obtained from the pointer parameter dst by a type assertion to []any, ALIASES the
   slice held in the pointed-to slot: the writes [dstRows[i+idx.From] = ...] made through the recursive calls are
   visible there.  DataIR has value semantics: [TSet "dstRows" (XAssertL (XVar "dst"))]
   copies.  A first version of the translation had no write-back, and then the closure returned dst UNCHANGED for
   every non-empty index, e.g. (checked by vm_compute on that old program, over [term])
       callLD ... "copyData" [dranges [(1,2)]; emb (Vec [Sc 1]); emb (Vec [Sc 2; Sc 3])]
         = CRet [DL [DF 1]; DL [DF 2; DF 3]]     whereas
       patchData [(1,2)] (Vec [Sc 1]) (Vec [Sc 2; Sc 3]) = Some (Vec [Sc 2; Sc 1])   (= what Go computes).
   The translator now recognises the idiom and emits the write-back at the end of the closure body; the theorems
   below are about that (current) generated program. *)
From Coq Require Import String List ZArith Bool Lia Arith.
From Qeep Require Import Model.Scalar Model.Nd Model.Fill Model.Data Model.DataIR Model.GoData Proofs.DataIRP Proofs.DataAtP.
From Qeep Require Model.GoIR.
Import ListNotations.
Local Open Scope string_scope.
Local Open Scope Z_scope.
Local Open Scope list_scope.

Section DataPatch.
Context {A : Type} {SA : Scalar A}.
Variable fapp : string -> list A -> option A.
Variables (St : Type) (ext : string -> list (@dval A) -> St -> option (list (@dval A) * St)).
Notation dval := (@dval A).
Notation denv := (@denv A).

(* ---------- environments: assignments inside a closure frame (atMain = false) ---------- *)

Lemma vassign_inl (g l : denv) x (v w : dval) : dlookup l x = Some w -> vassign false g l x v = (g, dupd l x v).
Proof. intros H. unfold vassign, dhas. rewrite H. reflexivity. Qed.

(* ---------- slots ---------- *)

Lemma setNthD_map_emb (l : list (nd A)) i (v : nd A) :
  setNthD (map emb l) i (emb v) = option_map (map emb) (setNth l i v).
Proof.
  revert i; induction l as [|a l IH]; intros [|i]; cbn [map setNthD setNth option_map obind]; try reflexivity.
  rewrite IH. destruct (setNth l i v); reflexivity.
Qed.

Lemma setNthD_same (m : list dval) i v : nth_error m i = Some v -> setNthD m i v = Some m.
Proof.
  revert i; induction m as [|a m IH]; intros [|i] H; cbn in H; try discriminate.
  - inversion H; subst. reflexivity.
  - cbn [setNthD]. now rewrite (IH i H).
Qed.

Lemma sub1_cons (x : dval) (m : list dval) :
  (0 <=? 1) && (1 <=? dlen (x :: m)) && (dlen (x :: m) <=? dlen (x :: m)) = true /\
  firstn (Z.to_nat (dlen (x :: m) - 1)) (skipn (Z.to_nat 1) (x :: m)) = m.
Proof.
  unfold dlen. cbn [length]. split.
  - rewrite Z.leb_refl, andb_true_r. cbn [Z.leb Z.compare andb]. apply Z.leb_le. lia.
  - replace (Z.to_nat (Z.of_nat (S (length m)) - 1)) with (length m) by lia.
    change (Z.to_nat 1) with 1%nat. cbn [skipn]. apply firstn_all.
Qed.

(* ---------- the model's fold step, for an arbitrary row function P ---------- *)

Definition stepF (P : nd A -> nd A -> option (nd A)) (f : nat) (acc : list (nd A)) (ir : nat * nd A)
  : option (list (nd A)) :=
  let '(i, srow) := ir in
  do drow <- nth_error acc (i + f); do nrow <- P srow drow; setNth acc (i + f) nrow.

Lemma patchData_cons f t index' (src dst : nd A) :
  patchData ((f, t) :: index') src dst =
  do srows <- asV src; do drows <- asV dst;
  do out <- foldM (stepF (patchData index') f) (combine (seq 0 (length srows)) srows) drows;
  Some (Vec out).
Proof. reflexivity. Qed.

(* the loop  for i := range srcRows { body }  for any body that behaves like one step of the fold *)
Lemma patch_loop (P : nd A -> nd A -> option (nd A)) (f : nat)
      (body : St -> denv -> denv -> @doutcome A St) (assign : denv -> denv -> Z -> dval -> denv * denv)
      (g : denv) (inv : denv -> list (nd A) -> Prop) (srows : list (nd A)) :
  (forall s l i srow acc, inv l acc -> nth_error srows i = Some srow ->
     let '(g0, l0) := assign g l (Z.of_nat i) (emb srow) in
     match stepF P f acc (i, srow) with
     | Some acc' => exists l1, body s g0 l0 = DNormal St s g l1 /\ inv l1 acc'
     | None => body s g0 l0 = DPanic St
     end) ->
  forall rest pre s l acc, srows = pre ++ rest -> inv l acc ->
  match foldM (stepF P f) (combine (seq (length pre) (length rest)) rest) acc with
  | Some out => exists l1, drangeLoop St body assign (map emb rest) (Z.of_nat (length pre)) s g l = DNormal St s g l1 /\
                           inv l1 out
  | None => drangeLoop St body assign (map emb rest) (Z.of_nat (length pre)) s g l = DPanic St
  end.
Proof.
  intros Hb. induction rest as [|srow rest IH]; intros pre s l acc Hs Hi.
  - cbn. eauto.
  - cbn [length seq combine foldM map drangeLoop].
    assert (Hn : nth_error srows (length pre) = Some srow).
    { subst srows. rewrite nth_error_app2 by lia. now rewrite Nat.sub_diag. }
    pose proof (Hb s l (length pre) srow acc Hi Hn) as H1.
    destruct (assign g l (Z.of_nat (length pre)) (emb srow)) as [g0 l0].
    destruct (stepF P f acc (length pre, srow)) as [acc'|]; cbn [obind].
    + destruct H1 as [l1 [H1 Hi1]]. rewrite H1.
      specialize (IH (pre ++ [srow]) s l1 acc').
      rewrite app_length in IH. cbn [length] in IH.
      replace (length pre + 1)%nat with (S (length pre)) in IH by lia.
      replace (Z.of_nat (length pre) + 1) with (Z.of_nat (S (length pre))) by lia.
      apply IH; [|exact Hi1]. rewrite <- app_assoc. exact Hs.
    + rewrite H1. reflexivity.
Qed.

(* ---------- the closure copyData ---------- *)

Definition loop_inv (index' : list (nat * nat)) (f t : nat) (srows : list (nd A)) (srcv dstv : dval)
           (l : denv) (acc : list (nd A)) : Prop :=
  dlookup l "index" = Some (dranges index') /\
  dlookup l "idx" = Some (DR (Z.of_nat f) (Z.of_nat t)) /\
  dlookup l "srcRows" = Some (DL (map emb srows)) /\
  dlookup l "dstRows" = Some (DL (map emb acc)) /\
  dlookup l "src" = Some srcv /\
  dlookup l "dst" = Some dstv.

Ltac lk := rewrite ?dlookup_dupd; cbn [String.eqb Ascii.eqb Bool.eqb]; try assumption; try reflexivity.

Lemma callLD_S locals fuel d f vs (s : St) (g : denv) :
  callLD fapp St ext locals fuel (S d) f vs s g =
  match dlookupFn locals f with
  | Some fd =>
      match dbind (dparams fd) vs with
      | Some l0 =>
          match dexec fapp St ext (callLD fapp St ext locals fuel d) fuel false (dbody fd) s g l0 with
          | DNormal _ s1 g1 l1 | DRet _ _ s1 g1 l1 =>
              match ptrOuts (dparams fd) l1 with Some outs => CRet St outs s1 g1 | None => CPanic St end
          | DFuel _ => CFuel St
          | _ => CPanic St
          end
      | None => CPanic St
      end
  | None => CPanic St
  end.
Proof. reflexivity. Qed.

Theorem copyData_patchData (index : list (nat * nat)) :
  forall (src dst : nd A) (d fuel : nat) (s : St) (g : denv),
  (length index <= d)%nat ->
  callLD fapp St ext (plocals d_copiedWithPatchOf) fuel (S d) "copyData" [dranges index; emb src; emb dst] s g =
  match patchData index src dst with
  | Some r => CRet St [emb src; emb r] s g
  | None => CPanic St
  end.
Proof.
  induction index as [|[f t] index' IH]; intros src dst d fuel s g Hd.
  - (* index = [] *)
    cbn [callLD dlookupFn plocals d_copiedWithPatchOf String.eqb Ascii.eqb Bool.eqb dbind dparams dbody].
    dxs. unfold dranges. cbn [map]. unfold dlen. cbn [length Z.of_nat Z.eqb].
    dxs. cbn [patchData]. destruct src as [a|rows]; cbn [asF obind emb].
    + dxs. cbn [ptrOuts dlookup String.eqb Ascii.eqb Bool.eqb]. reflexivity.
    + reflexivity.
  - (* index = (f,t) :: index' *)
    cbn [length] in Hd. destruct d as [|d']; [lia|]. assert (Hd' : (length index' <= d')%nat) by lia.
    rewrite callLD_S. set (callL := callLD fapp St ext (plocals d_copiedWithPatchOf) fuel (S d')).
    cbn [dlookupFn plocals d_copiedWithPatchOf String.eqb Ascii.eqb Bool.eqb dbind dparams dbody].
    rewrite patchData_cons.
    dxs. unfold dranges. cbn [map fst snd]. unfold dlen at 1. cbn [length]. dxs.
    match goal with |- context [Z.of_nat (S ?n) =? 0] =>
      replace (Z.of_nat (S n) =? 0) with false by (symmetry; apply Z.eqb_neq; lia) end.
    dxs. unfold didx. cbn [Z.leb Z.compare Z.to_nat nth_error].
    dxs.
    destruct src as [a|srows]; [reflexivity|]. rewrite emb_Vec. dxs.
    destruct dst as [b|drows]; [reflexivity|]. rewrite emb_Vec. dxs.
    match goal with |- context [dlen (?x :: ?m)] => destruct (sub1_cons x m) as [E1 E2]; rewrite E1, E2 end.
    fold (@dranges A index'). dxs. cbn [asV obind].
    match goal with |- context [drangeLoop St ?b ?asg _ _ _ _ ?l0] =>
      pose proof (patch_loop (patchData index') f b asg g
                    (loop_inv index' f t srows (DL (map emb srows)) (DL (map emb drows))) srows) as HL;
      set (l00 := l0)
    end.
    match type of HL with ?P -> _ => assert (Hspec : P) end.
    { intros s0 l i srow acc (Hx & Hd0 & Hs & Hr & Hsrc & Hdst) Hn.
      cbn [vdefine].
      set (l0 := dupd (dupd l "i" (DI (Z.of_nat i))) "_" (emb srow)).
      assert (H0i : dlookup l0 "i" = Some (DI (Z.of_nat i))) by (unfold l0; lk).
      assert (H0x : dlookup l0 "index" = Some (dranges index')) by (unfold l0; lk).
      assert (H0d : dlookup l0 "idx" = Some (DR (Z.of_nat f) (Z.of_nat t))) by (unfold l0; lk).
      assert (H0s : dlookup l0 "srcRows" = Some (DL (map emb srows))) by (unfold l0; lk).
      assert (H0r : dlookup l0 "dstRows" = Some (DL (map emb acc))) by (unfold l0; lk).
      assert (H0src : dlookup l0 "src" = Some (DL (map emb srows))) by (unfold l0; lk).
      assert (H0dst : dlookup l0 "dst" = Some (DL (map emb drows))) by (unfold l0; lk).
      clearbody l0.
      assert (Hcall : forall drow, callL "copyData" [dranges index'; emb srow; emb drow] s0 g =
                match patchData index' srow drow with
                | Some r => CRet St [emb srow; emb r] s0 g | None => CPanic St end).
      { intros drow. unfold callL. apply IH; exact Hd'. }
      assert (Hn' : nth_error (map emb srows) i = Some (emb srow)) by (now rewrite nth_error_map_emb, Hn).
      rewrite dexec_TCall. cbn [argVals deval]. unfold vlookup.
      rewrite H0x, H0s, H0i, H0r, H0d. cbn [devalBin].
      rewrite <- Nat2Z.inj_add, !didx_nat, Hn', nth_error_map_emb.
      unfold stepF.
      destruct (nth_error acc (i + f)) as [drow|] eqn:Ea; cbn [option_map obind]; [|reflexivity].
      rewrite Hcall.
      destruct (patchData index' srow drow) as [nrow|]; cbn [obind]; [|reflexivity].
      cbn [copyOut deval]. unfold vlookup. rewrite H0i, didx_nat. unfold setSlot, vlookup. rewrite H0s.
      rewrite (setNthD_same _ _ _ Hn'), (vassign_inl g l0 "srcRows" _ _ H0s).
      rewrite !dlookup_dupd. cbn [String.eqb Ascii.eqb Bool.eqb].
      rewrite H0i, H0d, H0r. cbn [devalBin]. rewrite <- Nat2Z.inj_add, didx_nat, setNthD_map_emb.
      destruct (setNth acc (i + f) nrow) as [acc'|]; cbn [option_map]; [|reflexivity].
      rewrite (vassign_inl g _ "dstRows" (DL (map emb acc')) (DL (map emb acc))) by lk.
      eexists; split; [reflexivity|]. unfold loop_inv. repeat split; lk. }
    specialize (HL Hspec srows [] s l00 drows eq_refl).
    cbn [length] in HL. change (Z.of_nat 0) with 0 in HL.
    match type of HL with ?P -> _ => assert (Hinv : P) by (unfold loop_inv, l00; repeat split; lk) end.
    specialize (HL Hinv).
    destruct (foldM (stepF (patchData index') f) (combine (seq 0 (length srows)) srows) drows) as [out|];
      cbn [obind].
    + destruct HL as [l1 [HL (Hx & Hd0 & Hs & Hr & Hsrc & Hdst)]]. rewrite HL.
      rewrite dexec_TSet. cbn [deval]. unfold vlookup. rewrite Hr.
      rewrite (vassign_inl g l1 "dst" _ _ Hdst).
      cbn [ptrOuts]. rewrite !dlookup_dupd. cbn [String.eqb Ascii.eqb Bool.eqb]. rewrite Hsrc.
      rewrite emb_Vec. reflexivity.
    + rewrite HL. reflexivity.
Qed.

(* ---------- the function copiedWithPatchOf ---------- *)

(* main body, given what the outside call  t.slice(nil)  returns *)
Theorem data_copiedWithPatchOf_body (ds ds' uds : list nat) (x x' ux : nd A) (cidx : list (nat * nat))
        (fuel depth : nat) (s : St) :
  ext "slice" [dnats ds; emb x; DL []] s = Some ([dnats ds'; emb x'], s) ->
  (length cidx < depth)%nat ->
  match patchData cidx ux x' with
  | Some r => exists g l,
      dexec fapp St ext (callLD fapp St ext (plocals d_copiedWithPatchOf) fuel depth) fuel true
            (dbody (pmain d_copiedWithPatchOf)) s
            [("t.dims", dnats ds); ("t.data", emb x); ("index", dranges cidx); ("u.dims", dnats uds); ("u.data", emb ux)] []
      = DRet St [dnats ds'; emb r] s g l
  | None =>
      dexec fapp St ext (callLD fapp St ext (plocals d_copiedWithPatchOf) fuel depth) fuel true
            (dbody (pmain d_copiedWithPatchOf)) s
            [("t.dims", dnats ds); ("t.data", emb x); ("index", dranges cidx); ("u.dims", dnats uds); ("u.data", emb ux)] []
      = DPanic St
  end.
Proof.
  intros Hext Hdep. destruct depth as [|d]; [lia|]. assert (Hd : (length cidx <= d)%nat) by lia.
  set (locals := plocals d_copiedWithPatchOf).
  unfold d_copiedWithPatchOf. cbn [pmain dbody]. dxs. rewrite Hext. dxs.
  unfold locals. rewrite (copyData_patchData cidx ux x' d fuel s _ Hd).
  destruct (patchData cidx ux x') as [r|]; [|reflexivity].
  dxs. eauto.
Qed.

Lemma completeIndex_length (index : list (nat * nat)) (ds : list nat) : length (completeIndex index ds) = length ds.
Proof.
  revert index; induction ds as [|d ds IH]; intros index; [reflexivity|].
  destruct index as [|[f t] index]; cbn [completeIndex length]; now rewrite IH.
Qed.

(* the whole function, run from its parameters, is the body of the model's Data.patch:
     do o <- slice t []; do d <- patchData cidx (data u) (data o); Some (mkT (dims o) d)
   provided the outside call  t.slice(nil)  behaves like the model's [slice t []] *)
Theorem data_copiedWithPatchOf (t u : tensor A) (cidx : list (nat * nat)) (fuel depth : nat) (s : St) :
  ext "slice" [dnats (dims t); emb (data t); DL []] s =
    match slice t [] with Some o => Some ([dnats (dims o); emb (data o)], s) | None => None end ->
  (length cidx < depth)%nat ->
  match (do o <- slice t []; do d <- patchData cidx (data u) (data o); Some (mkT (dims o) d)) with
  | Some o' => exists g l,
      drun fapp St ext d_copiedWithPatchOf fuel depth
           [dnats (dims t); emb (data t); dranges cidx; dnats (dims u); emb (data u)] s
      = DRet St [dnats (dims o'); emb (data o')] s g l
  | None =>
      drun fapp St ext d_copiedWithPatchOf fuel depth
           [dnats (dims t); emb (data t); dranges cidx; dnats (dims u); emb (data u)] s
      = DPanic St
  end.
Proof.
  intros Hext Hdep.
  change (drun fapp St ext d_copiedWithPatchOf fuel depth
               [dnats (dims t); emb (data t); dranges cidx; dnats (dims u); emb (data u)] s)
    with (dexec fapp St ext (callLD fapp St ext (plocals d_copiedWithPatchOf) fuel depth) fuel true
            (dbody (pmain d_copiedWithPatchOf)) s
            [("t.dims", dnats (dims t)); ("t.data", emb (data t)); ("index", dranges cidx);
             ("u.dims", dnats (dims u)); ("u.data", emb (data u))] []).
  destruct (slice t []) as [[ds' x']|]; cbn [obind dims data].
  - pose proof (data_copiedWithPatchOf_body (dims t) ds' (dims u) (data t) x' (data u) cidx fuel depth s Hext Hdep) as H.
    destruct (patchData cidx (data u) x') as [r|]; cbn [obind dims data]; exact H.
  - set (locals := plocals d_copiedWithPatchOf).
    unfold d_copiedWithPatchOf. cbn [pmain dbody]. dxs. rewrite Hext. reflexivity.
Qed.

(* with the index completed by the exported caller (Patch): exactly Data.patch *)
Corollary data_patch (t u : tensor A) (index : list (nat * nat)) (fuel depth : nat) (s : St) :
  ext "slice" [dnats (dims t); emb (data t); DL []] s =
    match slice t [] with Some o => Some ([dnats (dims o); emb (data o)], s) | None => None end ->
  (length (dims u) < depth)%nat ->
  match patch t index u with
  | Some o' => exists g l,
      drun fapp St ext d_copiedWithPatchOf fuel depth
           [dnats (dims t); emb (data t); dranges (completeIndex index (dims u)); dnats (dims u); emb (data u)] s
      = DRet St [dnats (dims o'); emb (data o')] s g l
  | None =>
      drun fapp St ext d_copiedWithPatchOf fuel depth
           [dnats (dims t); emb (data t); dranges (completeIndex index (dims u)); dnats (dims u); emb (data u)] s
      = DPanic St
  end.
Proof.
  intros Hext Hdep. apply (data_copiedWithPatchOf t u (completeIndex index (dims u)) fuel depth s Hext).
  now rewrite completeIndex_length.
Qed.

End DataPatch.

Print Assumptions copyData_patchData.
Print Assumptions data_copiedWithPatchOf_body.
Print Assumptions data_copiedWithPatchOf.
Print Assumptions data_patch.

(* a concrete run over the free term algebra: t = [[1,2,3],[4,5,6]], u = [[7,8]] patched at rows 1:2, columns 1:3;
   the outside call slice(nil) returns a copy of t *)
Definition ex_ext : string -> list (@dval term) -> unit -> option (list (@dval term) * unit) :=
  fun f vs s => match vs with [d; x; _] => Some ([d; x], s) | _ => None end.
Definition ex_c (n : Z) : nd term := Sc (sconst n 0).
Example data_patch_example :
  drun (fun _ _ => None) unit ex_ext d_copiedWithPatchOf 0 3
       [dnats [2; 3]%nat; emb (Vec [Vec [ex_c 1; ex_c 2; ex_c 3]; Vec [ex_c 4; ex_c 5; ex_c 6]]);
        dranges [(1, 2); (1, 3)]%nat; dnats [1; 2]%nat; emb (Vec [Vec [ex_c 7; ex_c 8]])] tt
  = DRet unit [dnats [2; 3]%nat; emb (Vec [Vec [ex_c 1; ex_c 2; ex_c 3]; Vec [ex_c 4; ex_c 7; ex_c 8]])] tt
         [("t.dims", dnats [2; 3]%nat); ("t.data", emb (Vec [Vec [ex_c 1; ex_c 2; ex_c 3]; Vec [ex_c 4; ex_c 5; ex_c 6]]));
          ("index", dranges [(1, 2); (1, 3)]%nat); ("u.dims", dnats [1; 2]%nat); ("u.data", emb (Vec [Vec [ex_c 7; ex_c 8]]));
          ("o.dims", dnats [2; 3]%nat); ("o.data", emb (Vec [Vec [ex_c 1; ex_c 2; ex_c 3]; Vec [ex_c 4; ex_c 7; ex_c 8]]))] [].
Proof. vm_compute. reflexivity. Qed.
Example data_patch_example_model :
  patch (mkT [2; 3]%nat (Vec [Vec [ex_c 1; ex_c 2; ex_c 3]; Vec [ex_c 4; ex_c 5; ex_c 6]])) [(1, 2); (1, 3)]%nat
        (mkT [1; 2]%nat (Vec [Vec [ex_c 7; ex_c 8]]))
  = Some (mkT [2; 3]%nat (Vec [Vec [ex_c 1; ex_c 2; ex_c 3]; Vec [ex_c 4; ex_c 7; ex_c 8]])).
Proof. vm_compute. reflexivity. Qed.
(* out of range: the patch does not fit -> panic, as the model's None *)
Example data_patch_example_panic :
  drun (fun _ _ => None) unit ex_ext d_copiedWithPatchOf 0 3
       [dnats [2; 3]%nat; emb (Vec [Vec [ex_c 1; ex_c 2; ex_c 3]; Vec [ex_c 4; ex_c 5; ex_c 6]]);
        dranges [(2, 3); (1, 3)]%nat; dnats [1; 2]%nat; emb (Vec [Vec [ex_c 7; ex_c 8]])] tt
  = DPanic unit.
Proof. vm_compute. reflexivity. Qed.
