(* AccRP.v — metrics/accuracy.go over the reals (C19).
   Labels are arbitrary reals that are pairwise either identical or further apart than the library's
   equality threshold ([sep] of CmpRP.v).  Then the truncated sum of the equality indicators of one
   accepted call is the NUMBER OF EQUAL POSITIONS ([matches]), and after any history of calls
   (valid or not) Result() is
        (Σ matches over the accepted calls) / (Σ lengths over the accepted calls)      (0 if nothing was counted),
   a number in [0,1] that ignores the rejected calls and depends only on the concatenated
   prediction / target sequences, not on how they were cut into batches. *)
From Coq Require Import List Arith ZArith Bool Lia Reals Lra.
From Qeep Require Import Model.Scalar Model.Nd Model.Fill Model.Data Model.Valid Model.Api Model.Grad
  Model.Components Model.Consts Spec.RScalar Spec.ValidSpec.
From Qeep Require Import Proofs.NdP Proofs.ElemP Proofs.ValidP Proofs.CompP Proofs.AccP Proofs.CmpRP.
Import ListNotations.
Open Scope R_scope.

(* ================================================================== *)
(*  number of equal positions                                          *)
(* ================================================================== *)
Definition matches (xs ys : list R) : nat :=
  length (filter (fun p => if Req_EM_T (fst p) (snd p) then true else false) (combine xs ys)).

Lemma matches_nil_l ys : matches [] ys = 0%nat.
Proof. reflexivity. Qed.

Lemma matches_cons x xs y ys :
  matches (x :: xs) (y :: ys) = ((if Req_EM_T x y then 1 else 0) + matches xs ys)%nat.
Proof.
  unfold matches. cbn [combine filter fst snd]. destruct (Req_EM_T x y); reflexivity.
Qed.

Lemma filter_len_le {X} (f : X -> bool) l : (length (filter f l) <= length l)%nat.
Proof. induction l as [|x l IH]; cbn [filter length]; [lia|]. destruct (f x); cbn [length]; lia. Qed.

Lemma matches_le xs ys : (matches xs ys <= length xs)%nat /\ (matches xs ys <= length ys)%nat.
Proof.
  unfold matches.
  pose proof (filter_len_le (fun p : R * R => if Req_EM_T (fst p) (snd p) then true else false) (combine xs ys)) as H.
  rewrite combine_length in H. lia.
Qed.

Theorem matches_app xs1 xs2 ys1 ys2 : length xs1 = length ys1 ->
  matches (xs1 ++ xs2) (ys1 ++ ys2) = (matches xs1 ys1 + matches xs2 ys2)%nat.
Proof.
  intros Hl. unfold matches. rewrite (combine_app_eq xs1 xs2 ys1 ys2 Hl), filter_app, app_length. reflexivity.
Qed.

(* all positions match exactly when the sequences are equal *)
Theorem matches_all_iff xs ys : length xs = length ys -> (matches xs ys = length xs <-> xs = ys).
Proof.
  revert ys. induction xs as [|x xs IH]; intros [|y ys] Hl; cbn in Hl; try discriminate.
  - split; reflexivity.
  - rewrite matches_cons. cbn [length]. pose proof (matches_le xs ys) as [Hm _].
    destruct (Req_EM_T x y) as [E|N].
    + subst y. split.
      * intros H. f_equal. apply IH; lia.
      * intros H. inversion H; subst ys. assert (E : matches xs xs = length xs) by (apply IH; reflexivity). lia.
    + split; [intros H; lia|intros H; inversion H; contradiction].
Qed.

(* ---- batches: what an accepted call contributes ---- *)
Definition total_of (bs : list (list R * list R)) : nat := list_sum (map (fun b => length (fst b)) bs).
Definition matched_of (bs : list (list R * list R)) : nat := list_sum (map (fun b => matches (fst b) (snd b)) bs).
Definition acc_of (bs : list (list R * list R)) : R :=
  if total_of bs =? 0 then 0 else INR (matched_of bs) / INR (total_of bs).
(* predictions and targets of a batch have the same length *)
Definition wfb (bs : list (list R * list R)) : Prop := Forall (fun b => length (fst b) = length (snd b)) bs.

Lemma matched_le_total bs : (matched_of bs <= total_of bs)%nat.
Proof.
  unfold matched_of, total_of. induction bs as [|b bs IH]; cbn [map list_sum fold_right]; [lia|].
  pose proof (matches_le (fst b) (snd b)) as [H _]. unfold list_sum in IH. lia.
Qed.

Theorem accuracy_range bs : 0 <= acc_of bs <= 1.
Proof.
  unfold acc_of. destruct (total_of bs =? 0) eqn:E; [lra|]. apply Nat.eqb_neq in E.
  pose proof (matched_le_total bs) as Hle. apply le_INR in Hle.
  assert (Ht : 0 < INR (total_of bs)) by (apply lt_0_INR; lia).
  pose proof (pos_INR (matched_of bs)) as Hm.
  assert (Hi : 0 < / INR (total_of bs)) by (apply Rinv_0_lt_compat, Ht).
  unfold Rdiv. split.
  - apply Rmult_le_pos; lra.
  - rewrite <- (Rinv_r (INR (total_of bs))) by lra. apply Rmult_le_compat_r; lra.
Qed.

Lemma total_of_concat bs : total_of bs = length (concat (map fst bs)).
Proof.
  unfold total_of. induction bs as [|b bs IH]; cbn [map list_sum fold_right concat]; [reflexivity|].
  rewrite app_length. unfold list_sum in IH. rewrite IH. reflexivity.
Qed.

Lemma concat_lengths bs : wfb bs -> length (concat (map fst bs)) = length (concat (map snd bs)).
Proof.
  induction 1 as [|b bs Hb _ IH]; cbn [map concat]; [reflexivity|]. rewrite !app_length. lia.
Qed.

Lemma matched_of_concat bs : wfb bs -> matched_of bs = matches (concat (map fst bs)) (concat (map snd bs)).
Proof.
  unfold matched_of. induction 1 as [|b bs Hb _ IH]; cbn [map list_sum fold_right concat]; [reflexivity|].
  rewrite (matches_app _ _ _ _ Hb). unfold list_sum in IH. rewrite IH. reflexivity.
Qed.

(* the value is a function of the concatenated sequences only *)
Theorem acc_of_flat bs : wfb bs ->
  let P := concat (map fst bs) in let Tg := concat (map snd bs) in
  acc_of bs = if length P =? 0 then 0 else INR (matches P Tg) / INR (length P).
Proof.
  intros W. cbv zeta. unfold acc_of. rewrite (matched_of_concat bs W), total_of_concat. reflexivity.
Qed.

Theorem partition_invariant bs1 bs2 : wfb bs1 -> wfb bs2 ->
  concat (map fst bs1) = concat (map fst bs2) -> concat (map snd bs1) = concat (map snd bs2) ->
  acc_of bs1 = acc_of bs2.
Proof.
  intros W1 W2 E1 E2. rewrite (acc_of_flat bs1 W1), (acc_of_flat bs2 W2). cbv zeta. rewrite E1, E2. reflexivity.
Qed.

(* in particular: one big batch, or one call per row *)
Corollary one_batch bs : wfb bs -> acc_of bs = acc_of [(concat (map fst bs), concat (map snd bs))].
Proof.
  intros W. apply partition_invariant; [exact W| |cbn; rewrite app_nil_r; reflexivity|cbn; rewrite app_nil_r; reflexivity].
  constructor; [|constructor]. cbn [fst snd]. apply concat_lengths, W.
Qed.

(* ================================================================== *)
(*  the model's Accuracy on the real instance                          *)
(* ================================================================== *)
Section R.
Variable thr : R.
Variable draw : bool -> nat -> R.
Hypothesis thr_nonneg : 0 <= thr.
Local Instance RS : Scalar R := R_scalar thr draw.
Notation T := (tensor R).
Notation heap := (@heap R).
Notation sepP := (fun p : R * R => sep thr (fst p) (snd p)).

Lemma seqt_same x : seqt x x = 1.
Proof.
  cbn [seqt RS R_scalar]. replace (x - x) with 0 by ring. rewrite Rabs_R0.
  destruct (Rle_dec 0 thr); [reflexivity|contradiction].
Qed.

Lemma seqt_far x y : thr < Rabs (x - y) -> seqt x y = 0.
Proof. intros H. cbn [seqt RS R_scalar]. destruct (Rle_dec (Rabs (x - y)) thr); [lra|reflexivity]. Qed.

Lemma sep_neq x y : sep thr x y -> x <> y -> thr < Rabs (x - y).
Proof. intros [E|H] N; [contradiction|exact H]. Qed.

(* the indicator of a separated pair is the indicator of equality *)
Lemma seqt_sep x y : sep thr x y -> seqt x y = if Req_EM_T x y then 1 else 0.
Proof.
  intros H. destruct (Req_EM_T x y) as [E|N]; [subst; apply seqt_same|apply seqt_far, sep_neq; assumption].
Qed.

Lemma matched_fold (l : list (R * R)) : forall a, Forall sepP l ->
  fold_left Rplus (map (fun p => seqt (fst p) (snd p)) l) a =
  a + INR (length (filter (fun p => if Req_EM_T (fst p) (snd p) then true else false) l)).
Proof.
  induction l as [|[x y] l IH]; intros a H; cbn [map fold_left filter fst snd].
  - cbn. ring.
  - inversion H as [|? ? Hp Hl]; subst. cbn [fst snd] in Hp. rewrite (IH _ Hl), (seqt_sep x y Hp).
    destruct (Req_EM_T x y); cbn [length]; [rewrite S_INR|]; ring.
Qed.

(* the sum of the indicators is the number of equal positions ... *)
Theorem matchedL_counts (xs ys : list R) : Forall sepP (combine xs ys) ->
  fold_left sadd (map2 seqt xs ys) s0 = INR (matches xs ys).
Proof.
  intros H. unfold map2, matches. change (@sadd R RS) with Rplus. change (@s0 R RS) with 0.
  rewrite (matched_fold _ 0 H). ring.
Qed.

(* ... and float64(int(.)) of a count is the count *)
Theorem trunc_INR (k : nat) : strunc (INR k) = INR k.
Proof.
  cbn [strunc RS R_scalar]. unfold Rtrunc. destruct (Rle_dec 0 (INR k)) as [_|N]; [|contradiction N; apply pos_INR].
  rewrite Int_part_INR. symmetry. apply INR_IZR_INZ.
Qed.

Corollary matchedL_trunc (pv tv : T) : Forall sepP (combine (flat (data pv)) (flat (data tv))) ->
  strunc (matchedL pv tv) = INR (matches (flat (data pv)) (flat (data tv))).
Proof. intros H. unfold matchedL. rewrite (matchedL_counts _ _ H). apply trunc_INR. Qed.

(* ---- one call: its prediction and target sequences ---- *)
Definition call_preds (h : heap) (c : targ * targ) : list R :=
  match lossArgs1 h (fst c) (snd c) with
  | Some (p, _) => match valOf h p with Some pv => flat (data pv) | None => [] end
  | None => []
  end.
Definition call_targs (h : heap) (c : targ * targ) : list R :=
  match lossArgs1 h (fst c) (snd c) with
  | Some (_, t) => match valOf h t with Some tv => flat (data tv) | None => [] end
  | None => []
  end.
(* the labels of the call are pairwise identical or separated *)
Definition call_sep (h : heap) (c : targ * targ) : Prop :=
  Forall sepP (combine (call_preds h c) (call_targs h c)).

Theorem call_facts (h : heap) (c : targ * targ) : vals_wf h -> accepted h c = true ->
  length (call_preds h c) = call_len h c /\ length (call_targs h c) = call_len h c /\
  (call_sep h c -> call_matched h c = INR (matches (call_preds h c) (call_targs h c))).
Proof.
  intros W Ha. pose proof (acc_accumulate_spec h acc_new (fst c) (snd c) W) as H.
  unfold accepted in Ha. unfold call_sep, call_preds, call_targs, call_len, call_matched.
  destruct (lossArgs1 h (fst c) (snd c)) as [[p t]|]; [|discriminate].
  destruct H as (pv & tv & n & _ & _ & Hp & Ht & Hdp & _ & Hlp & Hlt & _).
  unfold dim0Of. rewrite Hp, Ht, Hdp. cbn [nth].
  split; [exact Hlp|]. split; [exact Hlt|]. apply matchedL_trunc.
Qed.

(* the batches of a history: the (predictions, targets) of its accepted calls, in order *)
Definition batches (h : heap) (calls : list (targ * targ)) : list (list R * list R) :=
  map (fun c => (call_preds h c, call_targs h c)) (filter (accepted h) calls).

Theorem batches_wfb (h : heap) calls : vals_wf h -> wfb (batches h calls).
Proof.
  intros W. unfold wfb, batches. apply Forall_forall. intros b Hb.
  apply in_map_iff in Hb as (c & <- & Hc). apply filter_In in Hc as [_ Ha]. cbn [fst snd].
  destruct (call_facts h c W Ha) as (H1 & H2 & _). congruence.
Qed.

Lemma sum_counts (h : heap) (g : targ * targ -> nat) (l : list (targ * targ)) : forall a,
  (forall c, In c l -> call_matched h c = INR (g c)) ->
  fold_left Rplus (map (call_matched h) l) a = a + INR (list_sum (map g l)).
Proof.
  induction l as [|c l IH]; intros a H; cbn [map fold_left list_sum fold_right].
  - cbn. ring.
  - rewrite IH by (intros c' Hc'; apply H; right; exact Hc'). rewrite (H c (or_introl eq_refl)).
    unfold list_sum. rewrite plus_INR. ring.
Qed.

(* Result() after ANY list of calls *)
Theorem accuracy_result (h : heap) (calls : list (targ * targ)) : vals_wf h ->
  (forall c, In c calls -> accepted h c = true -> call_sep h c) ->
  let acc := filter (accepted h) calls in
  let total := list_sum (map (fun c => length (call_preds h c)) acc) in
  let matched := list_sum (map (fun c => matches (call_preds h c) (call_targs h c)) acc) in
  acc_total (acc_run h calls acc_new) = total /\
  acc_correct (acc_run h calls acc_new) = INR matched /\
  acc_result (acc_run h calls acc_new) = (if total =? 0 then 0 else INR matched / INR total) /\
  acc_result (acc_run h calls acc_new) = acc_of (batches h calls).
Proof.
  intros W Hsep. cbv zeta. destruct (acc_history_new h calls W) as (Ht & Hc & Hr). cbv zeta in Ht, Hc, Hr.
  set (acc := filter (accepted h) calls) in *.
  assert (Hin : forall c, In c acc -> In c calls /\ accepted h c = true) by (intros c Hc'; apply filter_In; exact Hc').
  assert (E1 : list_sum (map (call_len h) acc) = list_sum (map (fun c => length (call_preds h c)) acc)).
  { f_equal. apply map_ext_in. intros c Hc'. destruct (Hin c Hc') as [_ Ha].
    destruct (call_facts h c W Ha) as (H1 & _). symmetry. exact H1. }
  assert (E2 : fold_left sadd (map (call_matched h) acc) (sconst 0 0) =
               INR (list_sum (map (fun c => matches (call_preds h c) (call_targs h c)) acc))).
  { change (@sadd R RS) with Rplus.
    rewrite (sum_counts h (fun c => matches (call_preds h c) (call_targs h c))).
    - change (@sconst R RS 0 0) with (dec2R 0 0). unfold dec2R. cbn [powerRZ]. ring.
    - intros c Hc'. destruct (Hin c Hc') as [Hc0 Ha]. destruct (call_facts h c W Ha) as (_ & _ & H3).
      apply H3, Hsep; assumption. }
  rewrite E1 in Ht, Hr. rewrite E2 in Hc, Hr.
  assert (E3 : acc_result (acc_run h calls acc_new) =
               (if list_sum (map (fun c => length (call_preds h c)) acc) =? 0 then 0
                else INR (list_sum (map (fun c => matches (call_preds h c) (call_targs h c)) acc)) /
                     INR (list_sum (map (fun c => length (call_preds h c)) acc)))).
  { rewrite Hr. destruct (_ =? 0); [|reflexivity].
    change (@sconst R RS 0 0) with (dec2R 0 0). unfold dec2R. cbn [powerRZ]. ring. }
  split; [exact Ht|]. split; [exact Hc|]. split; [exact E3|].
  rewrite E3. unfold acc_of, total_of, matched_of, batches. fold acc. rewrite !map_map. cbn [fst snd]. reflexivity.
Qed.

Corollary accuracy_result_range (h : heap) (calls : list (targ * targ)) : vals_wf h ->
  (forall c, In c calls -> accepted h c = true -> call_sep h c) ->
  0 <= acc_result (acc_run h calls acc_new) <= 1.
Proof.
  intros W Hsep. destruct (accuracy_result h calls W Hsep) as (_ & _ & _ & E). rewrite E. apply accuracy_range.
Qed.

(* rejected calls (nil arguments, wrong rank, different lengths, ...) leave no trace *)
Theorem rejected_calls_do_not_count (h : heap) (calls : list (targ * targ)) (a : accuracy) : vals_wf h ->
  acc_run h calls a = acc_run h (filter (accepted h) calls) a /\
  acc_result (acc_run h calls a) = acc_result (acc_run h (filter (accepted h) calls) a).
Proof. intros W. rewrite <- (acc_run_filter h calls W a). split; reflexivity. Qed.

Corollary rejected_call_anywhere (h : heap) (l1 l2 : list (targ * targ)) (c : targ * targ) (a : accuracy) :
  vals_wf h -> accepted h c = false ->
  acc_result (acc_run h (l1 ++ c :: l2) a) = acc_result (acc_run h (l1 ++ l2) a).
Proof. intros W E. rewrite (acc_run_delete h l1 l2 c a W E). reflexivity. Qed.

(* two histories (possibly on different heaps, with different batch boundaries and different rejected
   calls in between) that feed the same prediction sequence and the same target sequence agree *)
Theorem accuracy_partition_invariant (h1 h2 : heap) (calls1 calls2 : list (targ * targ)) :
  vals_wf h1 -> vals_wf h2 ->
  (forall c, In c calls1 -> accepted h1 c = true -> call_sep h1 c) ->
  (forall c, In c calls2 -> accepted h2 c = true -> call_sep h2 c) ->
  concat (map fst (batches h1 calls1)) = concat (map fst (batches h2 calls2)) ->
  concat (map snd (batches h1 calls1)) = concat (map snd (batches h2 calls2)) ->
  acc_result (acc_run h1 calls1 acc_new) = acc_result (acc_run h2 calls2 acc_new).
Proof.
  intros W1 W2 S1 S2 E1 E2.
  destruct (accuracy_result h1 calls1 W1 S1) as (_ & _ & _ & ->).
  destruct (accuracy_result h2 calls2 W2 S2) as (_ & _ & _ & ->).
  apply partition_invariant; [apply batches_wfb, W1|apply batches_wfb, W2|exact E1|exact E2].
Qed.

(* the result in terms of the two concatenated sequences *)
Corollary accuracy_result_flat (h : heap) (calls : list (targ * targ)) : vals_wf h ->
  (forall c, In c calls -> accepted h c = true -> call_sep h c) ->
  let P := concat (map fst (batches h calls)) in let Tg := concat (map snd (batches h calls)) in
  length P = length Tg /\
  acc_result (acc_run h calls acc_new) = if length P =? 0 then 0 else INR (matches P Tg) / INR (length P).
Proof.
  intros W Hsep. cbv zeta. split; [apply concat_lengths, batches_wfb, W|].
  destruct (accuracy_result h calls W Hsep) as (_ & _ & _ & ->). apply (acc_of_flat _ (batches_wfb h calls W)).
Qed.

End R.

(* ================================================================== *)
(*  non-vacuity, with the library's threshold                          *)
(* ================================================================== *)
Module AccRExamples.

Definition thrR : R := dec2R (fst c_eq_threshold) (snd c_eq_threshold).

Lemma thrR_small : 0 <= thrR < 1.
Proof.
  split; [apply eq_threshold_nonneg|].
  unfold thrR, dec2R, c_eq_threshold; cbn [fst snd]. rewrite Rmult_1_l.
  change (powerRZ 10 (-240)) with (/ 10 ^ 240). rewrite <- Rinv_1. apply Rinv_lt_contravar.
  - rewrite Rmult_1_l. apply pow_lt. lra.
  - apply Rlt_pow_R1; [lra|lia].
Qed.

Section Ex.
Variable draw : bool -> nat -> R.
Local Hint Extern 0 (Scalar R) => exact (RS thrR draw) : typeclass_instances.

Example matches_ex : matches [1; 2; 3; 4] [1; 0; 3; 9] = 2%nat /\ matches [1; 2; 3; 4] [1; 2; 3; 4] = 4%nat.
Proof.
  rewrite !matches_cons, !matches_nil_l.
  repeat match goal with |- context [Req_EM_T ?a ?b] => destruct (Req_EM_T a b); try lra end. split; reflexivity.
Qed.

Definition v4 (a b c d : R) : tensor R := mkT [4%nat] (Vec [Sc a; Sc b; Sc c; Sc d]).
Definition v3 (a b c : R) : tensor R := mkT [3%nat] (Vec [Sc a; Sc b; Sc c]).
Definition m22 : tensor R := mkT [2; 2]%nat (Vec [Vec [Sc 1; Sc 2]; Vec [Sc 3; Sc 4]]).
(* 0: predictions, 1: targets (2 of 4 match), 2: targets (all match), 3: wrong length, 4: rank 2 *)
Definition hA : @heap R :=
  [mkNode (v4 1 2 3 4) false false None [] None; mkNode (v4 1 0 3 9) false false None [] None;
   mkNode (v4 1 2 3 4) false false None [] None; mkNode (v3 1 2 3) false false None [] None;
   mkNode m22 false false None [] None].

Lemma hA_wf : vals_wf hA.
Proof.
  intros i v H. do 5 (destruct i as [|i]; [inversion H; subst; split; [apply wfndb_spec; reflexivity|repeat constructor]|]).
  destruct i; discriminate.
Qed.

Definition calls : list (targ * targ) :=
  [(Some 0, Some 1); (Some 0, Some 3); (None, Some 1); (Some 0, Some 2); (Some 4, Some 4); (Some 0, None)]%nat.

Lemma batches_ex : batches hA calls = [([1; 2; 3; 4], [1; 0; 3; 9]); ([1; 2; 3; 4], [1; 2; 3; 4])].
Proof. reflexivity. Qed.

Lemma sep_far x y : 1 <= Rabs (x - y) -> sep thrR x y.
Proof. intros H. right. pose proof thrR_small. lra. Qed.

Lemma calls_sep : forall c, In c calls -> accepted hA c = true -> call_sep thrR hA c.
Proof.
  intros c Hc Ha. unfold calls in Hc. cbn [In] in Hc.
  destruct Hc as [<-|[<-|[<-|[<-|[<-|[<-|[]]]]]]]; try discriminate Ha.
  - unfold call_sep. change (combine _ _) with [(1, 1); (2, 0); (3, 3); (4, 9)].
    apply Forall_cons; [left; reflexivity|]. apply Forall_cons.
    { apply sep_far. cbn [fst snd]. replace (2 - 0) with 2 by ring. rewrite Rabs_right; lra. }
    apply Forall_cons; [left; reflexivity|]. apply Forall_cons; [|apply Forall_nil].
    apply sep_far. cbn [fst snd]. rewrite Rabs_left; lra.
  - unfold call_sep. change (combine _ _) with [(1, 1); (2, 2); (3, 3); (4, 4)].
    repeat (apply Forall_cons; [left; reflexivity|]). apply Forall_nil.
Qed.

(* six calls, four of them rejected: 2 + 4 matches out of 4 + 4 rows *)
Example accuracy_ex : acc_result (acc_run hA calls acc_new) = 6 / 8.
Proof.
  destruct thrR_small as [H0 _].
  destruct (accuracy_result thrR draw H0 hA calls hA_wf calls_sep) as (_ & _ & _ & ->).
  rewrite batches_ex. unfold acc_of, total_of, matched_of. cbn [map fst snd list_sum fold_right length].
  destruct matches_ex as [-> ->]. cbn [Nat.add Nat.eqb INR]. lra.
Qed.

(* the same rows cut differently (here: one call of 8 rows) would give the same value *)
Example partition_ex :
  acc_of [([1; 2; 3; 4], [1; 0; 3; 9]); ([1; 2; 3; 4], [1; 2; 3; 4])] =
  acc_of [([1; 2; 3; 4; 1; 2; 3; 4], [1; 0; 3; 9; 1; 2; 3; 4])].
Proof. apply partition_invariant; repeat constructor. Qed.

Example trunc_ex : strunc (INR 6) = 6.
Proof. rewrite trunc_INR. cbn [INR]. lra. Qed.

End Ex.
End AccRExamples.

Print Assumptions matches_app.
Print Assumptions matches_all_iff.
Print Assumptions accuracy_range.
Print Assumptions acc_of_flat.
Print Assumptions partition_invariant.
Print Assumptions matchedL_counts.
Print Assumptions trunc_INR.
Print Assumptions call_facts.
Print Assumptions accuracy_result.
Print Assumptions accuracy_result_range.
Print Assumptions rejected_calls_do_not_count.
Print Assumptions rejected_call_anywhere.
Print Assumptions accuracy_partition_invariant.
Print Assumptions accuracy_result_flat.
Print Assumptions AccRExamples.accuracy_ex.
