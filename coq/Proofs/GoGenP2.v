(* GoGenP2.v — the element generators transposeElemGenerator (shape_modifiers.go) and
   linearElemGeneratorWithReducedDim (reducers.go) as translated by harness/gox (Model/GoFns.v) compute the
   hand-written model steps (Fill.trGen: incr on the swapped digit list; Data.redGen: incr_skip / redRanges). *)
From Coq Require Import String List ZArith Bool Lia Arith.
From Qeep Require Import Model.GoIR Model.GoFns Model.Fill Model.Data Proofs.GoIRP.
Import ListNotations.
Local Open Scope string_scope.
Local Open Scope Z_scope.
Local Open Scope list_scope.

(* ---------- small list facts ---------- *)

Lemma nth_error_mid {T} (pre : list T) x suf : nth_error (pre ++ x :: suf) (length pre) = Some x.
Proof. rewrite nth_error_app2, Nat.sub_diag by lia. reflexivity. Qed.

Lemma setNthV_mid (pre : list val) x suf v : setNthV (pre ++ x :: suf) (length pre) v = Some (pre ++ v :: suf).
Proof. induction pre as [|a pre IH]; cbn; [reflexivity | now rewrite IH]. Qed.

Lemma split_last2 {T} (l : list T) : (2 <= length l)%nat -> exists pre a b, l = pre ++ [a; b].
Proof.
  intros H. destruct (@exists_last _ l) as [l1 [b Hl]]; [intros ->; cbn in H; lia|]. subst l.
  rewrite app_length in H; cbn in H.
  destruct (@exists_last _ l1) as [pre [a Hl]]; [intros ->; cbn in H; lia|]. subst l1.
  exists pre, a, b. now rewrite <- app_assoc.
Qed.

Lemma nth_error_nats_mid (pre : list nat) x suf :
  nth_error (map (fun n => VI (Z.of_nat n)) (pre ++ x :: suf)) (length pre) = Some (VI (Z.of_nat x)).
Proof. rewrite map_app. cbn [map]. rewrite <- (map_length (fun n => VI (Z.of_nat n)) pre). apply nth_error_mid. Qed.

Lemma setNthV_nats_mid (pre : list nat) x suf y :
  setNthV (map (fun n => VI (Z.of_nat n)) (pre ++ x :: suf)) (length pre) (VI (Z.of_nat y))
  = Some (map (fun n => VI (Z.of_nat n)) (pre ++ y :: suf)).
Proof.
  rewrite !map_app. cbn [map]. rewrite <- (map_length (fun n => VI (Z.of_nat n)) pre). apply setNthV_mid.
Qed.

Lemma setNthV_nats_mid0 (pre : list nat) x suf :
  setNthV (map (fun n => VI (Z.of_nat n)) (pre ++ x :: suf)) (length pre) (VI 0)
  = Some (map (fun n => VI (Z.of_nat n)) (pre ++ 0%nat :: suf)).
Proof. exact (setNthV_nats_mid pre x suf 0). Qed.

Lemma ltb_nat_Z1 (x d : nat) : (Z.of_nat x <? Z.of_nat d - 1) = (S x <? d)%nat.
Proof. destruct (Z.ltb_spec (Z.of_nat x) (Z.of_nat d - 1)), (Nat.ltb_spec (S x) d); try reflexivity; lia. Qed.

(* ================================================================================================= *)
(* transposeElemGenerator                                                                          *)
(* ================================================================================================= *)

Lemma transposeElemGenerator_outer_shape : itemShape transposeElemGenerator_outer = [None; Some "return <closure>"].
Proof. reflexivity. Qed.

Lemma transposeElemGenerator_step_shape :
  itemShape transposeElemGenerator_step = [Some "elem := t.dataAt(state)"; None; Some "return elem"].
Proof. reflexivity. Qed.

(* the integer code of the closure body / of the initialisation *)
Definition tr_step_code : stmt := match transposeElemGenerator_step with [_; ICode c; _] => c | _ => SSkip end.
Definition tr_outer_code : stmt := match transposeElemGenerator_outer with [ICode c; _] => c | _ => SSkip end.

(* the index visited after index k in a tensor of n dimensions *)
Definition trNext (n k : Z) : Z := if k =? n - 2 then k + 1 else if k =? n - 1 then k - 2 else k - 1.

Section TrLoop.
Variable D : list nat.
Variables (cond : env -> option val) (body post : env -> outcome).
Hypothesis Hcond : forall e z, lookup e "i" = Some (VI z) -> cond e = Some (VB (z >=? 0)).
Hypothesis Hpost : forall e, post e = ONormal e.
Hypothesis Hbody : forall e pre x suf dpre d dsuf,
  D = dpre ++ d :: dsuf -> length dpre = length pre ->
  lookup e "i" = Some (VI (Z.of_nat (length pre))) ->
  lookup e "state" = Some (nats (pre ++ x :: suf)) ->
  lookup e "t.dims" = Some (nats D) ->
  if (S x <? d)%nat
  then exists e1, body e = OBreak e1 /\ lookup e1 "state" = Some (nats (pre ++ S x :: suf)) /\
                  lookup e1 "t.dims" = Some (nats D)
  else exists e1, body e = ONormal e1 /\ lookup e1 "state" = Some (nats (pre ++ 0%nat :: suf)) /\
                  lookup e1 "t.dims" = Some (nats D) /\
                  lookup e1 "i" = Some (VI (trNext (Z.of_nat (length D)) (Z.of_nat (length pre)))).

(* the linear phase: indices n-3, ..., 0 *)
Lemma tr_lin_loop : forall (rp rdp : list nat) (suf dsuf : list nat) (fuel : nat) (e : env),
  length rp = length rdp -> D = rev rdp ++ dsuf -> length suf = length dsuf -> (2 <= length suf)%nat ->
  lookup e "i" = Some (VI (Z.of_nat (length rp) - 1)) ->
  lookup e "state" = Some (nats (rev rp ++ suf)) ->
  lookup e "t.dims" = Some (nats D) ->
  (length rp < fuel)%nat ->
  exists e', forLoop fuel cond body post e = ONormal e' /\
             lookup e' "state" = Some (nats (rev (incr rdp rp) ++ suf)) /\
             lookup e' "t.dims" = Some (nats D).
Proof.
  induction rp as [|x rp IH]; intros [|d rdp] suf dsuf fuel e Hl HD Hs H2 Hi Hst Hd Hf; cbn in Hl; try discriminate.
  - destruct fuel as [|fuel]; [cbn in Hf; lia|]. cbn [forLoop]. rewrite (Hcond _ _ Hi). cbn.
    exists e. auto.
  - destruct fuel as [|fuel]; [cbn in Hf; lia|]. cbn [forLoop]. rewrite (Hcond _ _ Hi).
    replace (Z.of_nat (length (x :: rp)) - 1 >=? 0) with true by (symmetry; apply Z.geb_le; cbn [length]; lia).
    cbn [rev] in Hst, HD. rewrite <- app_assoc in Hst, HD. cbn [app] in Hst, HD.
    assert (Hi' : lookup e "i" = Some (VI (Z.of_nat (length (rev rp))))).
    { rewrite Hi. rewrite rev_length. cbn [length]. do 2 f_equal. lia. }
    assert (Hlen : length (rev rdp) = length (rev rp)) by (rewrite !rev_length; lia).
    pose proof (Hbody e (rev rp) x suf (rev rdp) d dsuf HD Hlen Hi' Hst Hd) as Hb.
    cbn [incr]. destruct (S x <? d)%nat.
    + destruct Hb as [e1 [Hb [H1 H2']]]. rewrite Hb. exists e1. split; [reflexivity|]. split; [|exact H2'].
      rewrite H1. cbn [rev]. now rewrite <- app_assoc.
    + destruct Hb as [e1 [Hb [H1 [H2' H3]]]]. rewrite Hb, Hpost.
      destruct (IH rdp (0%nat :: suf) (d :: dsuf) fuel e1) as [e' [He' [Hs' Hd']]]; try assumption.
      * lia.
      * cbn; lia.
      * cbn; lia.
      * rewrite H3. unfold trNext. rewrite rev_length.
        assert (Hn : length D = (length rdp + S (length dsuf))%nat).
        { rewrite HD, app_length, rev_length. reflexivity. }
        replace (Z.of_nat (length rp) =? Z.of_nat (length D) - 2) with false by (symmetry; apply Z.eqb_neq; lia).
        replace (Z.of_nat (length rp) =? Z.of_nat (length D) - 1) with false by (symmetry; apply Z.eqb_neq; lia).
        reflexivity.
      * cbn [length] in Hf. lia.
      * exists e'. split; [exact He'|]. split; [|exact Hd'].
        rewrite Hs'. cbn [rev]. now rewrite <- app_assoc.
Qed.

Lemma tr_loop (pre dpre : list nat) (a b da db : nat) (fuel : nat) (e : env) :
  D = dpre ++ [da; db] -> length dpre = length pre ->
  lookup e "i" = Some (VI (Z.of_nat (length D) - 2)) ->
  lookup e "state" = Some (nats (pre ++ [a; b])) ->
  lookup e "t.dims" = Some (nats D) ->
  (S (S (length D)) <= fuel)%nat ->
  exists e', forLoop fuel cond body post e = ONormal e' /\
             lookup e' "state" = Some (nats (rev (swap01 (incr (swap01 (rev D)) (swap01 (rev (pre ++ [a; b]))))))) /\
             lookup e' "t.dims" = Some (nats D).
Proof.
  intros HD Hl Hi Hst Hd Hf.
  assert (Hn : length D = (length pre + 2)%nat) by (rewrite HD, app_length, Hl; reflexivity).
  replace (rev D) with (db :: da :: rev dpre) by (rewrite HD, rev_app_distr; reflexivity).
  rewrite !rev_app_distr. cbn [rev app swap01 incr].
  destruct fuel as [|fuel]; [lia|]. cbn [forLoop]. rewrite (Hcond _ _ Hi).
  replace (Z.of_nat (length D) - 2 >=? 0) with true by (symmetry; apply Z.geb_le; lia).
  assert (Hi' : lookup e "i" = Some (VI (Z.of_nat (length pre)))) by (rewrite Hi; do 2 f_equal; lia).
  pose proof (Hbody e pre a [b] dpre da [db] HD Hl Hi' Hst Hd) as Hb.
  destruct (S a <? da)%nat.
  { destruct Hb as [e1 [Hb [H1 H2]]]. rewrite Hb. exists e1. split; [reflexivity|]. split; [|exact H2].
    rewrite H1. cbn [rev swap01]. rewrite <- !app_assoc. cbn [app]. now rewrite rev_involutive. }
  destruct Hb as [e1 [Hb [H1 [H2 H3]]]]. rewrite Hb, Hpost.
  unfold trNext in H3.
  replace (Z.of_nat (length pre) =? Z.of_nat (length D) - 2) with true in H3 by (symmetry; apply Z.eqb_eq; lia).
  destruct fuel as [|fuel]; [lia|]. cbn [forLoop]. rewrite (Hcond _ _ H3).
  replace (Z.of_nat (length pre) + 1 >=? 0) with true by (symmetry; apply Z.geb_le; lia).
  assert (HD2 : D = (dpre ++ [da]) ++ db :: []) by (rewrite <- app_assoc; exact HD).
  assert (Hl2 : length (dpre ++ [da]) = length (pre ++ [0%nat])) by (rewrite !app_length, Hl; reflexivity).
  assert (Hi2 : lookup e1 "i" = Some (VI (Z.of_nat (length (pre ++ [0%nat]))))).
  { rewrite H3, app_length. cbn [length]. do 2 f_equal. lia. }
  assert (Hst2 : lookup e1 "state" = Some (nats ((pre ++ [0%nat]) ++ b :: []))) by (rewrite <- app_assoc; exact H1).
  pose proof (Hbody e1 (pre ++ [0%nat]) b [] (dpre ++ [da]) db [] HD2 Hl2 Hi2 Hst2 H2) as Hb2.
  destruct (S b <? db)%nat.
  { destruct Hb2 as [e2 [Hb2 [H21 H22]]]. rewrite Hb2. exists e2. split; [reflexivity|]. split; [|exact H22].
    rewrite H21. cbn [rev swap01]. rewrite <- !app_assoc. cbn [app]. now rewrite rev_involutive. }
  destruct Hb2 as [e2 [Hb2 [H21 [H22 H23]]]]. rewrite Hb2, Hpost.
  unfold trNext in H23. rewrite app_length in H23. cbn [length] in H23.
  replace (Z.of_nat (length pre + 1) =? Z.of_nat (length D) - 2) with false in H23 by (symmetry; apply Z.eqb_neq; lia).
  replace (Z.of_nat (length pre + 1) =? Z.of_nat (length D) - 1) with true in H23 by (symmetry; apply Z.eqb_eq; lia).
  destruct (tr_lin_loop (rev pre) (rev dpre) [0%nat; 0%nat] [da; db] fuel e2) as [e' [He' [Hs' Hd']]].
  - rewrite !rev_length; lia.
  - now rewrite rev_involutive.
  - reflexivity.
  - cbn; lia.
  - rewrite H23, rev_length. do 2 f_equal. lia.
  - rewrite rev_involutive, H21, <- !app_assoc. reflexivity.
  - exact H22.
  - rewrite rev_length. lia.
  - exists e'. split; [exact He'|]. split; [|exact Hd'].
    rewrite Hs'. cbn [rev swap01]. rewrite <- !app_assoc. reflexivity.
Qed.
End TrLoop.

Ltac trstep Hst Hi Hd Hn1 Hn2 :=
  repeat (progress (gxs; unfold setElem; rewrite ?Hst, ?Hi, ?Hd, ?idxOf_nat, ?Hn1, ?Hn2, ?zlenV_map)).

Theorem go_transposeElemGenerator_step call fuel (ds gs : list nat) (e : env) :
  (2 <= length ds)%nat -> length gs = length ds -> (S (S (length ds)) <= fuel)%nat ->
  lookup e "t.dims" = Some (nats ds) -> lookup e "state" = Some (nats gs) ->
  exists e', exec call fuel tr_step_code e = ONormal e' /\
             lookup e' "state" = Some (nats (rev (swap01 (incr (swap01 (rev ds)) (swap01 (rev gs)))))) /\
             lookup e' "t.dims" = Some (nats ds).
Proof.
  intros H2 Hl Hf Hd Hst.
  destruct (split_last2 ds H2) as [dpre [da [db HD]]].
  assert (H2' : (2 <= length gs)%nat) by lia.
  destruct (split_last2 gs H2') as [pre [a [b HG]]].
  assert (Hlp : length dpre = length pre).
  { rewrite HD, HG, !app_length in Hl. cbn in Hl. lia. }
  rewrite HG in Hst. rewrite HG. clear HG H2' Hl.
  unfold tr_step_code, transposeElemGenerator_step. cbv beta iota.
  gxs. rewrite Hd. gxs. rewrite zlenV_map.
  match goal with |- context [forLoop ?f ?c ?bd ?p ?e0] =>
    apply (tr_loop ds c bd p) with (dpre := dpre) (da := da) (db := db)
  end; try assumption.
  - intros e1 z Hi. gxs. rewrite Hi. gxs. reflexivity.
  - intros e1. reflexivity.
  - clear e Hd Hst. intros e pre1 x suf dpre1 d dsuf HD1 Hl1 Hi Hst Hd.
    assert (Hn1 := nth_error_nats_mid pre1 x suf).
    assert (Hn2 : nth_error (map (fun n => VI (Z.of_nat n)) ds) (length pre1) = Some (VI (Z.of_nat d))).
    { rewrite HD1, <- Hl1. apply nth_error_nats_mid. }
    rewrite <- ltb_nat_Z1.
    destruct (Z.of_nat x <? Z.of_nat d - 1) eqn:E.
    + eexists. split; [|split].
      * trstep Hst Hi Hd Hn1 Hn2. rewrite E. trstep Hst Hi Hd Hn1 Hn2.
        replace (Z.of_nat x + 1) with (Z.of_nat (S x)) by lia. rewrite setNthV_nats_mid.
        trstep Hst Hi Hd Hn1 Hn2. reflexivity.
      * lk. reflexivity.
      * lk. exact Hd.
    + unfold trNext.
      destruct (Z.of_nat (length pre1) =? Z.of_nat (length ds) - 2) eqn:E1;
        [| destruct (Z.of_nat (length pre1) =? Z.of_nat (length ds) - 1) eqn:E2];
        (eexists; split; [|split; [|split]];
         [ trstep Hst Hi Hd Hn1 Hn2; rewrite E; trstep Hst Hi Hd Hn1 Hn2;
           rewrite setNthV_nats_mid0; trstep Hst Hi Hd Hn1 Hn2;
           rewrite ?E1; trstep Hst Hi Hd Hn1 Hn2; rewrite ?E2; trstep Hst Hi Hd Hn1 Hn2; reflexivity
         | lk; reflexivity
         | lk; exact Hd
         | lk; reflexivity ]).
  - lk. reflexivity.
  - lk. exact Hst.
  - lk. exact Hd.
Qed.

(* the same statement for whatever integer code sits between the two opaque statements *)
Corollary go_transposeElemGenerator_step_items call fuel (ds gs : list nat) (e : env) a c b :
  transposeElemGenerator_step = [IOpaque a; ICode c; IOpaque b] ->
  (2 <= length ds)%nat -> length gs = length ds -> (S (S (length ds)) <= fuel)%nat ->
  lookup e "t.dims" = Some (nats ds) -> lookup e "state" = Some (nats gs) ->
  exists e', exec call fuel c e = ONormal e' /\
             lookup e' "state" = Some (nats (rev (swap01 (incr (swap01 (rev ds)) (swap01 (rev gs)))))) /\
             lookup e' "t.dims" = Some (nats ds).
Proof.
  intros Hc. assert (c = tr_step_code) as -> by (unfold tr_step_code; rewrite Hc; reflexivity).
  apply go_transposeElemGenerator_step.
Qed.

Lemma map_repeat_l {T U} (f : T -> U) x n : map f (repeat x n) = repeat (f x) n.
Proof. induction n; cbn; congruence. Qed.

Lemma rev_repeat_l {T} (x : T) n : rev (repeat x n) = repeat x n.
Proof.
  induction n as [|n IH]; [reflexivity|]. cbn [repeat rev]. rewrite IH.
  clear IH. induction n; cbn; congruence.
Qed.

(* Go's initial state (all zeros) is the model's initial state linInit in the model's (visiting) order *)
Lemma tr_init_repr (ds : list nat) : swap01 (rev (linInit ds)) = linInit ds.
Proof.
  unfold linInit. rewrite rev_repeat_l. destruct (length ds) as [|[|n]]; reflexivity.
Qed.

Theorem go_transposeElemGenerator_outer call fuel (ds : list nat) (e : env) :
  lookup e "t.dims" = Some (nats ds) ->
  exists e', exec call fuel tr_outer_code e = ONormal e' /\
             lookup e' "state" = Some (nats (linInit ds)) /\
             lookup e' "t.dims" = Some (nats ds).
Proof.
  intros Hd. unfold tr_outer_code, transposeElemGenerator_outer. cbv beta iota.
  gxs. rewrite Hd. gxs. rewrite zlenV_map.
  replace (0 <=? Z.of_nat (length ds)) with true by (symmetry; apply Z.leb_le; lia).
  eexists. split; [reflexivity|]. split.
  - lk. unfold linInit, nats. rewrite Nat2Z.id, map_repeat_l. reflexivity.
  - lk. exact Hd.
Qed.

(* a concrete run: dims [2;2;3], Go state [0;1;2]: digit 1 wraps, then digit 2 wraps, then digit 0 is incremented *)
Example tr_step_ex :
  exec (fun _ _ => OPanic) 10 tr_step_code [("t.dims", nats [2;2;3]%nat); ("state", nats [0;1;2]%nat)]
  = ONormal [("t.dims", nats [2;2;3]%nat); ("state", nats [1;0;0]%nat); ("i", VI 0)].
Proof. vm_compute. reflexivity. Qed.

(* ================================================================================================= *)
(* linearElemGeneratorWithReducedDim                                                               *)
(* ================================================================================================= *)

Lemma linearElemGeneratorWithReducedDim_outer_shape :
  itemShape linearElemGeneratorWithReducedDim_outer = [None; Some "return <closure>"].
Proof. reflexivity. Qed.

Lemma linearElemGeneratorWithReducedDim_step_shape :
  itemShape linearElemGeneratorWithReducedDim_step = [Some "row := t.slice(state)"; None; Some "return trf(row)"].
Proof. reflexivity. Qed.

Definition red_step_code : stmt :=
  match linearElemGeneratorWithReducedDim_step with [_; ICode c; _] => c | _ => SSkip end.
Definition red_outer_code : stmt :=
  match linearElemGeneratorWithReducedDim_outer with [ICode c; _] => c | _ => SSkip end.

(* embedding of a list of model ranges as a Go []tensor.Range *)
Definition rgv (r : range) : val := VR (Z.of_nat (fst r)) (Z.of_nat (snd r)).
Definition rangesN (l : list range) : val := VL (map rgv l).

(* redRanges on reversed lists (least significant first), the reduced dimension given by its position from the end *)
Fixpoint rr (k : option nat) (rds rst : list nat) : list range :=
  match rds, rst with
  | d :: ds', x :: st' =>
      match k with
      | Some O => (0%nat, d) :: rr None ds' st'
      | _ => (x, S x) :: rr (option_map pred k) ds' st'
      end
  | _, _ => []
  end.

Definition kOf (dim m : nat) : option nat := if (dim <? m)%nat then Some (m - 1 - dim)%nat else None.

Lemma rr_length k : forall rds rst, length rst = length rds -> length (rr k rds rst) = length rds.
Proof.
  intros rds; revert k. induction rds as [|d rds IH]; intros k [|x rst] H; cbn in *; try discriminate; auto.
  destruct k as [[|j]|]; cbn; rewrite IH; auto.
Qed.

Lemma incr_skip_length : forall rds k rst, length rst = length rds -> length (incr_skip k rds rst) = length rds.
Proof.
  induction rds as [|d rds IH]; intros k [|x rst] H; cbn [length incr_skip] in *; try discriminate; auto.
  destruct k as [[|j]|]; cbn [length].
  - rewrite IH; auto.
  - destruct (S x <? d)%nat; cbn [length]; [lia | rewrite IH; auto].
  - destruct (S x <? d)%nat; cbn [length]; [lia | rewrite IH; auto].
Qed.

Lemma combine_app_l {T U} (a a' : list T) (b b' : list U) :
  length a = length b -> combine (a ++ a') (b ++ b') = combine a b ++ combine a' b'.
Proof.
  revert b; induction a as [|x a IH]; intros [|y b] H; cbn in *; try discriminate; auto.
  rewrite IH; auto.
Qed.

Lemma redRanges_rr : forall (rds rst : list nat), length rst = length rds -> forall dim,
  redRanges dim (rev rds) (rev rst) = rev (rr (kOf dim (length rds)) rds rst).
Proof.
  induction rds as [|d rds IH]; intros [|x rst] H dim; cbn in H; try discriminate.
  - reflexivity.
  - assert (H' : length rst = length rds) by lia. specialize (IH rst H' dim).
    unfold redRanges in *. cbn [rev]. rewrite app_length. cbn [length].
    rewrite seq_app. rewrite (combine_app_l (rev rst) [x] (rev rds) [d]) by (rewrite !rev_length; lia).
    rewrite combine_app_l by (rewrite seq_length, combine_length, !rev_length; lia).
    rewrite map_app, IH. cbn [seq combine map]. rewrite rev_length. cbn [plus].
    unfold kOf. cbn [rr].
    destruct (Nat.ltb_spec dim (S (length rds))) as [L1|L1].
    + destruct (S (length rds) - 1 - dim)%nat as [|j] eqn:Ej.
      * assert (dim = length rds) by lia. subst dim. rewrite Nat.eqb_refl.
        destruct (Nat.ltb_spec (length rds) (length rds)); [lia|]. reflexivity.
      * destruct (Nat.eqb_spec (length rds) dim); [lia|].
        destruct (Nat.ltb_spec dim (length rds)); [|lia].
        cbn [option_map Nat.pred rev]. replace j with (length rds - 1 - dim)%nat by lia. reflexivity.
    + destruct (Nat.eqb_spec (length rds) dim); [lia|].
      destruct (Nat.ltb_spec dim (length rds)); [lia|]. reflexivity.
Qed.

Lemma nth_error_rg_mid (pre : list range) f t suf :
  nth_error (map rgv (pre ++ (f, t) :: suf)) (length pre) = Some (VR (Z.of_nat f) (Z.of_nat t)).
Proof. rewrite map_app. cbn [map]. rewrite <- (map_length rgv pre). apply nth_error_mid. Qed.

Lemma setNthV_rg_mid (pre : list range) r suf f t :
  setNthV (map rgv (pre ++ r :: suf)) (length pre) (VR (Z.of_nat f) (Z.of_nat t))
  = Some (map rgv (pre ++ (f, t) :: suf)).
Proof. rewrite !map_app. cbn [map]. rewrite <- (map_length rgv pre). apply setNthV_mid. Qed.

Lemma ltb_nat_Z (x d : nat) : (Z.of_nat x <? Z.of_nat d) = (x <? d)%nat.
Proof. destruct (Z.ltb_spec (Z.of_nat x) (Z.of_nat d)), (Nat.ltb_spec x d); try reflexivity; lia. Qed.

Lemma eqb_nat_Z (x d : nat) : (Z.of_nat x =? Z.of_nat d) = (x =? d)%nat.
Proof. destruct (Z.eqb_spec (Z.of_nat x) (Z.of_nat d)), (Nat.eqb_spec x d); try reflexivity; lia. Qed.

Section RedLoop.
Variable D : list nat.
Variable dim : nat.
Variables (cond : env -> option val) (body post : env -> outcome).
Hypothesis Hcond : forall e z, lookup e "i" = Some (VI z) -> cond e = Some (VB (z >=? 0)).
Hypothesis Hpost : forall e, post e = ONormal e.

Definition redEnv (e : env) : Prop :=
  lookup e "t.dims" = Some (nats D) /\ lookup e "dim" = Some (VI (Z.of_nat dim)).

Hypothesis Hbody : forall e pre f t suf dpre d dsuf,
  D = dpre ++ d :: dsuf -> length dpre = length pre ->
  lookup e "i" = Some (VI (Z.of_nat (length pre))) ->
  lookup e "state" = Some (rangesN (pre ++ (f, t) :: suf)) ->
  redEnv e ->
  if (length pre =? dim)%nat
  then exists e1, body e = OContinue e1 /\ lookup e1 "state" = Some (rangesN (pre ++ (f, t) :: suf)) /\ redEnv e1 /\
                  lookup e1 "i" = Some (VI (Z.of_nat (length pre) - 1))
  else if (t <? d)%nat
  then exists e1, body e = OBreak e1 /\ lookup e1 "state" = Some (rangesN (pre ++ (S f, S t) :: suf)) /\ redEnv e1
  else exists e1, body e = ONormal e1 /\ lookup e1 "state" = Some (rangesN (pre ++ (0%nat, 1%nat) :: suf)) /\ redEnv e1 /\
                  lookup e1 "i" = Some (VI (Z.of_nat (length pre) - 1)).

Definition kRel (k : option nat) (m : nat) : Prop :=
  match k with
  | Some j => (j < m)%nat /\ dim = (m - 1 - j)%nat
  | None => (m <= dim)%nat
  end.

Lemma red_loop : forall (rds rst : list nat) (k : option nat) (suf : list range) (dsuf : list nat) (fuel : nat) (e : env),
  length rst = length rds -> D = rev rds ++ dsuf -> kRel k (length rds) ->
  lookup e "i" = Some (VI (Z.of_nat (length rds) - 1)) ->
  lookup e "state" = Some (rangesN (rev (rr k rds rst) ++ suf)) ->
  redEnv e ->
  (length rds < fuel)%nat ->
  exists e', forLoop fuel cond body post e = ONormal e' /\
             lookup e' "state" = Some (rangesN (rev (rr k rds (incr_skip k rds rst)) ++ suf)) /\
             redEnv e'.
Proof.
  induction rds as [|d rds IH]; intros [|x rst] k suf dsuf fuel e Hl HD Hk Hi Hst He Hf; cbn [length] in Hl; try discriminate.
  - destruct fuel as [|fuel]; [cbn in Hf; lia|]. cbn [forLoop]. rewrite (Hcond _ _ Hi). cbn.
    exists e. destruct k as [[|j]|]; auto.
  - destruct fuel as [|fuel]; [cbn in Hf; lia|]. cbn [forLoop]. rewrite (Hcond _ _ Hi).
    replace (Z.of_nat (length (d :: rds)) - 1 >=? 0) with true by (symmetry; apply Z.geb_le; cbn [length]; lia).
    assert (Hl' : length rst = length rds) by lia.
    assert (Hi' : forall k', lookup e "i" = Some (VI (Z.of_nat (length (rev (rr k' rds rst)))))).
    { intros k'. rewrite Hi, rev_length, rr_length by exact Hl'. cbn [length]. do 2 f_equal. lia. }
    assert (Hlen : forall k', length (rev rds) = length (rev (rr k' rds rst))).
    { intros k'. rewrite !rev_length, rr_length by exact Hl'. reflexivity. }
    assert (Hlr : forall k', Z.of_nat (length (rev (rr k' rds rst))) - 1 = Z.of_nat (length rds) - 1).
    { intros k'. rewrite rev_length, rr_length by exact Hl'. reflexivity. }
    assert (Hlq : forall k', length (rev (rr k' rds rst)) = length rds).
    { intros k'. rewrite rev_length, rr_length by exact Hl'. reflexivity. }
    cbn [rev] in HD. rewrite <- app_assoc in HD. cbn [app] in HD.
    cbn [length] in Hf.
    destruct k as [[|j]|]; cbn [rr incr_skip option_map Nat.pred] in *.
    + (* the reduced dimension: skipped *)
      destruct Hk as [_ Hk]. cbn [length] in Hk.
      cbn [rev] in Hst. rewrite <- app_assoc in Hst. cbn [app] in Hst.
      pose proof (Hbody e _ _ _ _ _ _ _ HD (Hlen None) (Hi' None) Hst He) as Hb.
      rewrite Hlq in Hb.
      replace (length rds =? dim)%nat with true in Hb by (symmetry; apply Nat.eqb_eq; lia).
      destruct Hb as [e1 [Hb [H1 [H2 H3]]]]. rewrite Hb, Hpost.
      destruct (IH rst None ((0%nat, d) :: suf) (d :: dsuf) fuel e1) as [e' [He' [Hs' Hd']]]; try assumption.
      * cbn. lia.
      * lia.
      * exists e'. split; [exact He'|]. split; [|exact Hd'].
        rewrite Hs'. cbn [rev]. now rewrite <- app_assoc.
    + destruct Hk as [Hk1 Hk]. cbn [length] in Hk, Hk1.
      cbn [rev] in Hst. rewrite <- app_assoc in Hst. cbn [app] in Hst.
      pose proof (Hbody e _ _ _ _ _ _ _ HD (Hlen (Some j)) (Hi' (Some j)) Hst He) as Hb.
      rewrite Hlq in Hb.
      replace (length rds =? dim)%nat with false in Hb by (symmetry; apply Nat.eqb_neq; lia).
      destruct (S x <? d)%nat.
      * destruct Hb as [e1 [Hb [H1 H2]]]. rewrite Hb. exists e1. split; [reflexivity|]. split; [|exact H2].
        rewrite H1. cbn [rr rev]. now rewrite <- app_assoc.
      * destruct Hb as [e1 [Hb [H1 [H2 H3]]]]. rewrite Hb, Hpost.
        destruct (IH rst (Some j) ((0%nat, 1%nat) :: suf) (d :: dsuf) fuel e1) as [e' [He' [Hs' Hd']]]; try assumption.
        -- cbn. split; lia.
        -- lia.
        -- exists e'. split; [exact He'|]. split; [|exact Hd'].
           rewrite Hs'. cbn [rr rev option_map Nat.pred]. now rewrite <- app_assoc.
    + cbn [kRel length] in Hk.
      cbn [rev] in Hst. rewrite <- app_assoc in Hst. cbn [app] in Hst.
      pose proof (Hbody e _ _ _ _ _ _ _ HD (Hlen None) (Hi' None) Hst He) as Hb.
      rewrite Hlq in Hb.
      replace (length rds =? dim)%nat with false in Hb by (symmetry; apply Nat.eqb_neq; lia).
      destruct (S x <? d)%nat.
      * destruct Hb as [e1 [Hb [H1 H2]]]. rewrite Hb. exists e1. split; [reflexivity|]. split; [|exact H2].
        rewrite H1. cbn [rr rev]. now rewrite <- app_assoc.
      * destruct Hb as [e1 [Hb [H1 [H2 H3]]]]. rewrite Hb, Hpost.
        destruct (IH rst None ((0%nat, 1%nat) :: suf) (d :: dsuf) fuel e1) as [e' [He' [Hs' Hd']]]; try assumption.
        -- cbn. lia.
        -- lia.
        -- exists e'. split; [exact He'|]. split; [|exact Hd'].
           rewrite Hs'. cbn [rr rev option_map Nat.pred]. now rewrite <- app_assoc.
Qed.
End RedLoop.

Lemma redRanges_rev_rr (dim : nat) (ds st : list nat) :
  (dim < length ds)%nat -> length st = length ds ->
  redRanges dim ds (rev st) = rev (rr (Some (length ds - 1 - dim)%nat) (rev ds) st).
Proof.
  intros Hdim Hl.
  assert (Hl' : length st = length (rev ds)) by (rewrite rev_length; exact Hl).
  pose proof (redRanges_rr (rev ds) st Hl' dim) as X. rewrite rev_involutive in X. rewrite X.
  unfold kOf. rewrite rev_length. destruct (Nat.ltb_spec dim (length ds)); [reflexivity | lia].
Qed.

Ltac redstep Hst Hi Hd Hdim Hn2 :=
  repeat (progress (gxs; unfold setElem;
                    rewrite ?Hst, ?Hi, ?Hd, ?Hdim, ?idxOf_nat, ?nth_error_rg_mid, ?Hn2, ?zlenV_map, ?eqb_nat_Z, ?ltb_nat_Z)).

Theorem go_linearElemGeneratorWithReducedDim_step call fuel (ds st : list nat) (dim : nat) (e : env) :
  (dim < length ds)%nat -> length st = length ds -> (S (length ds) <= fuel)%nat ->
  lookup e "t.dims" = Some (nats ds) -> lookup e "dim" = Some (VI (Z.of_nat dim)) ->
  lookup e "state" = Some (rangesN (redRanges dim ds (rev st))) ->
  exists e', exec call fuel red_step_code e = ONormal e' /\
             lookup e' "state" =
               Some (rangesN (redRanges dim ds (rev (incr_skip (Some (length ds - 1 - dim)%nat) (rev ds) st)))) /\
             lookup e' "t.dims" = Some (nats ds) /\ lookup e' "dim" = Some (VI (Z.of_nat dim)).
Proof.
  intros Hdim Hl Hf Hd Hdm Hst.
  rewrite redRanges_rev_rr in Hst by assumption.
  assert (Hl2 : length (incr_skip (Some (length ds - 1 - dim)%nat) (rev ds) st) = length ds).
  { rewrite incr_skip_length; rewrite rev_length; [reflexivity | exact Hl]. }
  rewrite (redRanges_rev_rr dim ds _ Hdim Hl2). clear Hl2.
  set (k := (length ds - 1 - dim)%nat) in *.
  unfold red_step_code, linearElemGeneratorWithReducedDim_step. cbv beta iota.
  gxs. rewrite Hd. gxs. rewrite zlenV_map.
  match goal with |- context [forLoop ?f ?c ?bd ?p ?e0] =>
    destruct (red_loop ds dim c bd p) with (rds := rev ds) (rst := st) (k := Some k) (suf := @nil range)
                                            (dsuf := @nil nat) (fuel := f) (e := e0)
      as [e' [He' [Hs' [Hd' Hdm']]]]
  end.
  - intros e1 z Hi. gxs. rewrite Hi. gxs. reflexivity.
  - intros e1. reflexivity.
  - clear e Hd Hst Hdm. intros e pre f t suf dpre d dsuf HD1 Hl1 Hi Hst [Hd Hdm].
    unfold rangesN in *.
    assert (Hn2 : nth_error (map (fun n => VI (Z.of_nat n)) ds) (length pre) = Some (VI (Z.of_nat d))).
    { rewrite HD1, <- Hl1. apply nth_error_nats_mid. }
    destruct (length pre =? dim)%nat eqn:E; [| destruct (t <? d)%nat eqn:E2].
    + eexists. split; [|split; [|split; [split|]]].
      * redstep Hst Hi Hd Hdm Hn2. rewrite E. redstep Hst Hi Hd Hdm Hn2. reflexivity.
      * lk. exact Hst.
      * lk. exact Hd.
      * lk. exact Hdm.
      * lk. reflexivity.
    + eexists. split; [|split; [|split]].
      * redstep Hst Hi Hd Hdm Hn2. rewrite E. redstep Hst Hi Hd Hdm Hn2. rewrite E2. redstep Hst Hi Hd Hdm Hn2.
        replace (Z.of_nat f + 1) with (Z.of_nat (S f)) by lia. rewrite setNthV_rg_mid.
        redstep Hst Hi Hd Hdm Hn2.
        replace (Z.of_nat t + 1) with (Z.of_nat (S t)) by lia. rewrite setNthV_rg_mid.
        redstep Hst Hi Hd Hdm Hn2. reflexivity.
      * lk. reflexivity.
      * lk. exact Hd.
      * lk. exact Hdm.
    + eexists. split; [|split; [|split; [split|]]].
      * redstep Hst Hi Hd Hdm Hn2. rewrite E. redstep Hst Hi Hd Hdm Hn2. rewrite E2. redstep Hst Hi Hd Hdm Hn2.
        change (VR 0 (Z.of_nat t)) with (VR (Z.of_nat 0) (Z.of_nat t)). rewrite setNthV_rg_mid.
        redstep Hst Hi Hd Hdm Hn2.
        change (VR (Z.of_nat 0) 1) with (VR (Z.of_nat 0) (Z.of_nat 1)). rewrite setNthV_rg_mid.
        redstep Hst Hi Hd Hdm Hn2. reflexivity.
      * lk. reflexivity.
      * lk. exact Hd.
      * lk. exact Hdm.
      * lk. reflexivity.
  - rewrite rev_length. exact Hl.
  - rewrite rev_involutive, app_nil_r. reflexivity.
  - unfold kRel. rewrite rev_length. subst k. split; lia.
  - lk. rewrite rev_length. reflexivity.
  - lk. rewrite app_nil_r. exact Hst.
  - split; lk; assumption.
  - rewrite rev_length. lia.
  - exists e'. rewrite app_nil_r in Hs'. auto.
Qed.

Corollary go_linearElemGeneratorWithReducedDim_step_items call fuel (ds st : list nat) (dim : nat) (e : env) a c b :
  linearElemGeneratorWithReducedDim_step = [IOpaque a; ICode c; IOpaque b] ->
  (dim < length ds)%nat -> length st = length ds -> (S (length ds) <= fuel)%nat ->
  lookup e "t.dims" = Some (nats ds) -> lookup e "dim" = Some (VI (Z.of_nat dim)) ->
  lookup e "state" = Some (rangesN (redRanges dim ds (rev st))) ->
  exists e', exec call fuel c e = ONormal e' /\
             lookup e' "state" =
               Some (rangesN (redRanges dim ds (rev (incr_skip (Some (length ds - 1 - dim)%nat) (rev ds) st)))) /\
             lookup e' "t.dims" = Some (nats ds) /\ lookup e' "dim" = Some (VI (Z.of_nat dim)).
Proof.
  intros Hc. assert (c = red_step_code) as -> by (unfold red_step_code; rewrite Hc; reflexivity).
  apply go_linearElemGeneratorWithReducedDim_step.
Qed.

(* ---------- the initialisation ---------- *)

Section RedOuterLoop.
Variables (cond : env -> option val) (body post : env -> outcome).
Hypothesis Hcond : forall e z L, lookup e "i" = Some (VI z) -> lookup e "state" = Some (VL L) ->
  cond e = Some (VB (z <? zlenV L)).
Hypothesis Hpost : forall e z, lookup e "i" = Some (VI z) -> post e = ONormal (upd e "i" (VI (z + 1))).
Hypothesis Hbody : forall e pre f t suf,
  lookup e "i" = Some (VI (Z.of_nat (length pre))) ->
  lookup e "state" = Some (VL (pre ++ VR f t :: suf)) ->
  body e = ONormal (upd (upd e "state" (VL (pre ++ VR 0 t :: suf))) "state" (VL (pre ++ VR 0 1 :: suf))).

Lemma red_outer_loop : forall (m : nat) (pre : list val) (fuel : nat) (e : env),
  lookup e "i" = Some (VI (Z.of_nat (length pre))) ->
  lookup e "state" = Some (VL (pre ++ repeat (VR 0 0) m)) ->
  (m < fuel)%nat ->
  exists e', forLoop fuel cond body post e = ONormal e' /\
             lookup e' "state" = Some (VL (pre ++ repeat (VR 0 1) m)) /\
             lookup e' "t.dims" = lookup e "t.dims" /\ lookup e' "dim" = lookup e "dim".
Proof.
  induction m as [|m IH]; intros pre fuel e Hi Hst Hf.
  - destruct fuel as [|fuel]; [lia|]. cbn [forLoop]. rewrite (Hcond _ _ _ Hi Hst).
    unfold zlenV. cbn [repeat]. rewrite app_nil_r, Z.ltb_irrefl.
    exists e. cbn [repeat] in Hst. rewrite app_nil_r in Hst. auto.
  - destruct fuel as [|fuel]; [lia|]. cbn [forLoop]. rewrite (Hcond _ _ _ Hi Hst).
    replace (Z.of_nat (length pre) <? zlenV (pre ++ repeat (VR 0 0) (S m))) with true
      by (symmetry; apply Z.ltb_lt; unfold zlenV; rewrite app_length; cbn [repeat length]; lia).
    cbn [repeat] in Hst. rewrite (Hbody _ _ _ _ _ Hi Hst).
    match goal with |- context [post ?e1] =>
      assert (Hi1 : lookup e1 "i" = Some (VI (Z.of_nat (length pre)))) by (lk; exact Hi);
      rewrite (Hpost e1 _ Hi1);
      destruct (IH (pre ++ [VR 0 1]) fuel (upd e1 "i" (VI (Z.of_nat (length pre) + 1)))) as [e' [He' [Hs' [Hd' Hm']]]]
    end.
    + lk. rewrite app_length. cbn [length]. do 2 f_equal. lia.
    + lk. rewrite <- app_assoc. reflexivity.
    + lia.
    + exists e'. split; [exact He'|]. split; [|split].
      * rewrite Hs', <- app_assoc. reflexivity.
      * rewrite Hd'. lk. reflexivity.
      * rewrite Hm'. lk. reflexivity.
Qed.
End RedOuterLoop.

Definition redF (dim : nat) : nat * (nat * nat) -> range :=
  fun p => let '(i, (x, d)) := p in if (i =? dim)%nat then (0%nat, d) else (x, S x).

Lemma redRanges_redF dim ds idx : redRanges dim ds idx = map (redF dim) (combine (seq 0 (length ds)) (combine idx ds)).
Proof. reflexivity. Qed.

Lemma redF_zero_suf dim : forall (dsuf : list nat) (s : nat), (dim < s)%nat ->
  map (redF dim) (combine (seq s (length dsuf)) (combine (repeat 0%nat (length dsuf)) dsuf))
  = repeat (0%nat, 1%nat) (length dsuf).
Proof.
  induction dsuf as [|d dsuf IH]; intros s Hs; [reflexivity|].
  cbn [length seq repeat combine map redF]. rewrite IH by lia.
  destruct (Nat.eqb_spec s dim); [lia | reflexivity].
Qed.

Lemma redF_zero dim d dsuf : forall (dpre : list nat) (s : nat), (s + length dpre = dim)%nat ->
  map (redF dim) (combine (seq s (length (dpre ++ d :: dsuf)))
                          (combine (repeat 0%nat (length (dpre ++ d :: dsuf))) (dpre ++ d :: dsuf)))
  = repeat (0%nat, 1%nat) (length dpre) ++ (0%nat, d) :: repeat (0%nat, 1%nat) (length dsuf).
Proof.
  induction dpre as [|a dpre IH]; intros s Hs.
  - cbn [app length seq repeat combine map redF]. cbn [length] in Hs.
    rewrite redF_zero_suf by lia.
    destruct (Nat.eqb_spec s dim); [reflexivity | lia].
  - cbn [app length seq repeat combine map redF]. cbn [length] in Hs. rewrite IH by lia.
    destruct (Nat.eqb_spec s dim); [lia | reflexivity].
Qed.

Lemma nth_error_mid' {T} (pre : list T) x suf n : n = length pre -> nth_error (pre ++ x :: suf) n = Some x.
Proof. intros ->. apply nth_error_mid. Qed.

Lemma setNthV_mid' (pre : list val) x suf v n : n = length pre -> setNthV (pre ++ x :: suf) n v = Some (pre ++ v :: suf).
Proof. intros ->. apply setNthV_mid. Qed.

Theorem go_linearElemGeneratorWithReducedDim_outer call fuel (ds : list nat) (dim : nat) (e : env) :
  (dim < length ds)%nat -> (S (length ds) <= fuel)%nat ->
  lookup e "t.dims" = Some (nats ds) -> lookup e "dim" = Some (VI (Z.of_nat dim)) ->
  exists e', exec call fuel red_outer_code e = ONormal e' /\
             lookup e' "state" = Some (rangesN (redRanges dim ds (repeat 0%nat (length ds)))) /\
             lookup e' "t.dims" = Some (nats ds) /\ lookup e' "dim" = Some (VI (Z.of_nat dim)).
Proof.
  intros Hdim Hf Hd Hdm.
  destruct (nth_error ds dim) as [d|] eqn:En; [| apply nth_error_None in En; lia].
  destruct (nth_error_split ds dim En) as [dpre [dsuf [HD Hlp]]].
  unfold red_outer_code, linearElemGeneratorWithReducedDim_outer. cbv beta iota.
  gxs. rewrite Hd. gxs. rewrite zlenV_map.
  replace (0 <=? Z.of_nat (length ds)) with true by (symmetry; apply Z.leb_le; lia).
  rewrite Nat2Z.id. gxs.
  match goal with |- context [forLoop ?f ?c ?bd ?p ?e0] =>
    destruct (red_outer_loop c bd p) with (m := length ds) (pre := @nil val) (fuel := f) (e := e0)
      as [e' [He' [Hs' [Hd' Hdm']]]]
  end.
  - intros e1 z L Hi Hst. gxs. rewrite Hi, Hst. gxs. reflexivity.
  - intros e1 z Hi. gxs. rewrite Hi. gxs. reflexivity.
  - intros e1 pre f t suf Hi Hst. gxs. unfold setElem. gxs. rewrite Hst, Hi. gxs.
    rewrite idxOf_nat, nth_error_mid, setNthV_mid. gxs. unfold setElem. gxs. rewrite Hi. gxs.
    rewrite idxOf_nat, nth_error_mid, setNthV_mid. reflexivity.
  - lk. reflexivity.
  - lk. reflexivity.
  - lia.
  - rewrite He'. cbn [app] in Hs'. revert Hd' Hdm'. lk. rewrite Hd, Hdm. intros Hd' Hdm'.
    gxs. unfold setElem. gxs. rewrite Hd', Hdm', Hs'. gxs. rewrite idxOf_nat.
    assert (Hnd : nth_error (map (fun n => VI (Z.of_nat n)) ds) dim = Some (VI (Z.of_nat d))).
    { rewrite HD, <- Hlp. apply nth_error_nats_mid. }
    rewrite Hnd. gxs.
    assert (Hrep : repeat (VR 0 1) (length ds) = repeat (VR 0 1) dim ++ VR 0 1 :: repeat (VR 0 1) (length dsuf)).
    { rewrite HD, app_length, repeat_app, Hlp. reflexivity. }
    rewrite Hrep.
    rewrite (nth_error_mid' _ _ _ dim) by (now rewrite repeat_length).
    rewrite (setNthV_mid' _ _ _ _ dim) by (now rewrite repeat_length).
    eexists. split; [reflexivity|]. split; [|split].
    + lk. unfold rangesN. rewrite redRanges_redF. rewrite HD at 1 2 3. rewrite (redF_zero dim d dsuf dpre 0%nat) by lia.
      rewrite map_app. cbn [map]. rewrite !map_repeat_l, Hlp. reflexivity.
    + lk. exact Hd'.
    + lk. exact Hdm'.
Qed.

(* the model's initial state: redGen starts from linInit ds (all digits 0), whose ranges are redRanges dim ds (rev (linInit ds)) *)
Lemma red_init_repr (ds : list nat) : rev (linInit ds) = repeat 0%nat (length ds).
Proof. unfold linInit. apply rev_repeat_l. Qed.

Corollary go_linearElemGeneratorWithReducedDim_outer_linInit call fuel (ds : list nat) (dim : nat) (e : env) :
  (dim < length ds)%nat -> (S (length ds) <= fuel)%nat ->
  lookup e "t.dims" = Some (nats ds) -> lookup e "dim" = Some (VI (Z.of_nat dim)) ->
  exists e', exec call fuel red_outer_code e = ONormal e' /\
             lookup e' "state" = Some (rangesN (redRanges dim ds (rev (linInit ds)))) /\
             lookup e' "t.dims" = Some (nats ds) /\ lookup e' "dim" = Some (VI (Z.of_nat dim)).
Proof. rewrite red_init_repr. apply go_linearElemGeneratorWithReducedDim_outer. Qed.

(* the model's representation of Go's transposition state: st = swap01 (rev gs); the step theorem in that form *)
Lemma swap01_invol {T} (l : list T) : swap01 (swap01 l) = l.
Proof. destruct l as [|a [|b l]]; reflexivity. Qed.

Corollary go_transposeElemGenerator_step_model call fuel (ds gs : list nat) (e : env) :
  (2 <= length ds)%nat -> length gs = length ds -> (S (S (length ds)) <= fuel)%nat ->
  lookup e "t.dims" = Some (nats ds) -> lookup e "state" = Some (nats gs) ->
  exists e' gs', exec call fuel tr_step_code e = ONormal e' /\
             lookup e' "state" = Some (nats gs') /\
             swap01 (rev gs') = incr (swap01 (rev ds)) (swap01 (rev gs)) /\
             lookup e' "t.dims" = Some (nats ds).
Proof.
  intros H2 Hl Hf Hd Hst.
  destruct (go_transposeElemGenerator_step call fuel ds gs e H2 Hl Hf Hd Hst) as [e' [He' [Hs' Hd']]].
  exists e', (rev (swap01 (incr (swap01 (rev ds)) (swap01 (rev gs))))).
  rewrite rev_involutive, swap01_invol. auto.
Qed.

(* concrete runs *)
Definition stateOf (o : outcome) : option val := match o with ONormal e => lookup e "state" | _ => None end.

Example red_step_ex :
  stateOf (exec (fun _ _ => OPanic) 10 red_step_code
             [("t.dims", nats [2;3;2]%nat); ("dim", VI 1); ("state", rangesN [(0,1); (0,3); (1,2)]%nat)])
  = Some (rangesN [(1,2); (0,3); (0,1)]%nat)
  /\ redRanges 1 [2;3;2]%nat (rev [1;0;0]%nat) = [(0,1); (0,3); (1,2)]%nat
  /\ redRanges 1 [2;3;2]%nat (rev (incr_skip (Some 1%nat) (rev [2;3;2]%nat) [1;0;0]%nat)) = [(1,2); (0,3); (0,1)]%nat.
Proof. vm_compute. auto. Qed.

Example red_outer_ex :
  stateOf (exec (fun _ _ => OPanic) 10 red_outer_code [("t.dims", nats [2;3;2]%nat); ("dim", VI 1)])
  = Some (rangesN [(0,1); (0,3); (0,1)]%nat).
Proof. vm_compute. reflexivity. Qed.

Example tr_outer_ex :
  stateOf (exec (fun _ _ => OPanic) 0 tr_outer_code [("t.dims", nats [2;3;2]%nat)]) = Some (nats [0;0;0]%nat).
Proof. vm_compute. reflexivity. Qed.

Print Assumptions transposeElemGenerator_outer_shape.
Print Assumptions transposeElemGenerator_step_shape.
Print Assumptions go_transposeElemGenerator_step.
Print Assumptions go_transposeElemGenerator_step_items.
Print Assumptions go_transposeElemGenerator_step_model.
Print Assumptions go_transposeElemGenerator_outer.
Print Assumptions linearElemGeneratorWithReducedDim_outer_shape.
Print Assumptions linearElemGeneratorWithReducedDim_step_shape.
Print Assumptions go_linearElemGeneratorWithReducedDim_step.
Print Assumptions go_linearElemGeneratorWithReducedDim_step_items.
Print Assumptions go_linearElemGeneratorWithReducedDim_outer.
Print Assumptions go_linearElemGeneratorWithReducedDim_outer_linInit.
