(* ChainLossP.v — clip and the three losses are their source chains  (see ChainBaseP.v for the scheme). *)
From Coq Require Import String List ZArith Bool Arith.
From Qeep Require Import Model.Scalar Model.Nd Model.Fill Model.Data Model.Valid Model.Api Model.Grad
  Model.Components Model.ChainIR.
From Qeep Require Model.Chains.
Import ListNotations.
Local Open Scope string_scope.
From Qeep Require Import Proofs.ChainBaseP.

Section LossC.
Context {A : Type} {SA : Scalar A}.
Notation heap := (@heap A).
Notation hres := (@hres A).

(* ---- losses ---- *)
Definition rsClip (l u : A) : @hres_resolver A :=
  mkHR (fun _ t => if String.eqb t "l" then Some l else if String.eqb t "u" then Some u else None) (fun _ _ => None).

Theorem clip_chain h x l u :
  clip h x l u = asHres (runFun (hooksH (rsClip l u) noUser None noGuard) Chains.clip h [("x", x)]).
Proof. unfold clip. unfold cst. chain_go. Qed.

Section Loss.
Variables (eps ome : A).

(* the scalar arguments the loss functions pass to clip: literals, epsilon, 1 - epsilon *)
Definition lossScalar (a : aval nat) : option A :=
  match a with
  | VZ z => Some (sconst z 0)
  | VD m e => Some (sconst m e)
  | VX t => if String.eqb t "epsilon" then Some eps else if String.eqb t "1 - epsilon" then Some ome else None
  | VT _ => None
  end.

Definition clipUser : userfun := fun f =>
  if String.eqb f "clip" then
    Some (fun h args _ =>
      match args with
      | [VT x; l; u] =>
          match lossScalar l, lossScalar u with
          | Some lv, Some uv => asHres (runFun (hooksH (rsClip lv uv) noUser None noGuard) Chains.clip h [("x", x)])
          | _, _ => (h, Panic)
          end
      | _ => (h, Panic)
      end)
  else None.

Definition lossGuard (ok : bool) : heap -> string -> option bool :=
  fun _ t => if String.eqb t "c.validateInputs(yp, yt)" then Some ok else None.

Theorem mse_chain h p t nm :
  mse_compute h (Some p) (Some t) nm =
  atomically h (asHres (runFun (hooksH rsNone noUser nm
                          (lossGuard (match lossArgs1 h (Some p) (Some t) with Some _ => true | None => false end)))
                        Chains.mse_compute h [("yp", p); ("yt", t)])).
Proof.
  unfold mse_compute. unfold lossArgs1.
  destruct ((rankOf h p =? 1)%nat && (rankOf h t =? 1)%nat && (dim0Of h p =? dim0Of h t)%nat); [|reflexivity].
  f_equal. unfold cst. chain_go.
Qed.

Theorem bce_chain h p t nm :
  bce_compute eps ome h (Some p) (Some t) nm =
  atomically h (asHres (runFun (hooksH rsNone clipUser nm
                          (lossGuard (match lossArgs1 h (Some p) (Some t) with Some _ => true | None => false end)))
                        Chains.bce_compute h [("yp", p); ("yt", t)])).
Proof.
  unfold bce_compute. unfold lossArgs1.
  destruct ((rankOf h p =? 1)%nat && (rankOf h t =? 1)%nat && (dim0Of h p =? dim0Of h t)%nat); [|reflexivity].
  f_equal. rewrite !clip_chain. unfold cst.
  repeat (cbn;
    match goal with
    | |- hbind ?X _ = _ => rewrite ?clip_chain; destruct X as [? [?| |]]
    | |- (_, _) = _ => fail 1
    | |- ?X = asHres _ => destruct X as [? [?| |]]
    end); cbn; try reflexivity.
Qed.

Definition ceOk (h : heap) (p t : nat) : bool :=
  (rankOf h p =? 2)%nat && (rankOf h t =? 2)%nat && (dim0Of h p =? dim0Of h t)%nat && (dim1Of h p =? dim1Of h t)%nat.

Theorem ce_chain h p t nm :
  ce_compute eps ome h (Some p) (Some t) nm =
  atomically h (asHres (runFun (hooksH rsNone clipUser nm (lossGuard (ceOk h p t)))
                        Chains.ce_compute h [("yp", p); ("yt", t)])).
Proof.
  unfold ce_compute, ceOk.
  destruct ((rankOf h p =? 2)%nat && (rankOf h t =? 2)%nat && (dim0Of h p =? dim0Of h t)%nat && (dim1Of h p =? dim1Of h t)%nat);
    [|reflexivity].
  f_equal. rewrite !clip_chain. unfold cst.
  repeat (cbn;
    match goal with
    | |- hbind ?X _ = _ => rewrite ?clip_chain; destruct X as [? [?| |]]
    | |- (_, _) = _ => fail 1
    | |- ?X = asHres _ => destruct X as [? [?| |]]
    end); cbn; try reflexivity.
Qed.

End Loss.
End LossC.
