(* ChainKernP.v — the element-wise scalar kernels of operators.go  (see ChainBaseP.v for the scheme). *)
From Coq Require Import String List ZArith Bool Arith.
From Qeep Require Import Model.Scalar Model.Nd Model.Fill Model.Data Model.Valid Model.Api Model.Grad
  Model.Components Model.ChainIR.
From Qeep Require Model.Chains.
Import ListNotations.
Local Open Scope string_scope.
From Qeep Require Import Proofs.ChainBaseP.

Section Kern.
Context {A : Type} {SA : Scalar A}.
Notation T := (tensor A).

(* the method hands exactly this literal to the element-wise traversal, and the literal IS f *)
Definition unary_kernel (k : kfun) (nm : string) (cap : list (string * A)) (f : A -> A) : Prop :=
  kf_body k = XTrav "applyUnaryFuncOnTensorElemWise" ["t"] (nm ++ "#0") /\
  exists body, lookupS (kf_lits k) (nm ++ "#0") = Some (["a"], body) /\
    forall a, evx (("a", a) :: cap) body = Some (f a).
Definition binary_kernel (k : kfun) (nm : string) (f : A -> A -> A) : Prop :=
  kf_body k = XTrav "applyBinaryFuncOnTensorsElemWise" ["t"; "u"] (nm ++ "#0") /\
  exists body, lookupS (kf_lits k) (nm ++ "#0") = Some (["a"; "b"], body) /\
    forall a b, evx [("a", a); ("b", b)] body = Some (f a b).

Ltac kern := split; [reflexivity|eexists; split; [reflexivity|intros; reflexivity]].

Theorem k_scale_ok u : unary_kernel Chains.k_scale "scale" [("u", u)] (unaryF (UScale u)). Proof. kern. Qed.
Theorem k_pow_ok u : unary_kernel Chains.k_pow "pow" [("u", u)] (unaryF (UPow u)). Proof. kern. Qed.
Theorem k_exp_ok : unary_kernel Chains.k_exp "exp" [] (@unaryF A SA UExpo). Proof. kern. Qed.
Theorem k_log_ok : unary_kernel Chains.k_log "log" [] (@unaryF A SA ULn). Proof. kern. Qed.
Theorem k_sin_ok : unary_kernel Chains.k_sin "sin" [] (@unaryF A SA USine). Proof. kern. Qed.
Theorem k_cos_ok : unary_kernel Chains.k_cos "cos" [] (@unaryF A SA UCosine). Proof. kern. Qed.
Theorem k_tan_ok : unary_kernel Chains.k_tan "tan" [] (@unaryF A SA UTang). Proof. kern. Qed.
Theorem k_sinh_ok : unary_kernel Chains.k_sinh "sinh" [] (@unaryF A SA USinH). Proof. kern. Qed.
Theorem k_cosh_ok : unary_kernel Chains.k_cosh "cosh" [] (@unaryF A SA UCosH). Proof. kern. Qed.
Theorem k_tanh_ok : unary_kernel Chains.k_tanh "tanh" [] (@unaryF A SA UTanH). Proof. kern. Qed.

Theorem k_eq_ok : binary_kernel Chains.k_eq "eq" (@binaryF A SA BiEq). Proof. kern. Qed.
Theorem k_ne_ok : binary_kernel Chains.k_ne "ne" (@binaryF A SA BiNe). Proof. kern. Qed.
Theorem k_gt_ok : binary_kernel Chains.k_gt "gt" (@binaryF A SA BiGt). Proof. kern. Qed.
Theorem k_ge_ok : binary_kernel Chains.k_ge "ge" (@binaryF A SA BiGe). Proof. kern. Qed.
Theorem k_lt_ok : binary_kernel Chains.k_lt "lt" (@binaryF A SA BiLt). Proof. kern. Qed.
Theorem k_le_ok : binary_kernel Chains.k_le "le" (@binaryF A SA BiLe). Proof. kern. Qed.
Theorem k_elmax_ok : binary_kernel Chains.k_elmax "elmax" (@binaryF A SA BiElMax). Proof. kern. Qed.
Theorem k_elmin_ok : binary_kernel Chains.k_elmin "elmin" (@binaryF A SA BiElMin). Proof. kern. Qed.
Theorem k_add_ok : binary_kernel Chains.k_add "add" (@binaryF A SA BiAdd). Proof. kern. Qed.
Theorem k_sub_ok : binary_kernel Chains.k_sub "sub" (@binaryF A SA BiSub). Proof. kern. Qed.
Theorem k_mul_ok : binary_kernel Chains.k_mul "mul" (@binaryF A SA BiMul). Proof. kern. Qed.
Theorem k_div_ok : binary_kernel Chains.k_div "div" (@binaryF A SA BiDiv). Proof. kern. Qed.

(* Equals: o := t.eq(u); n := o.numElems(); o.sum() >= float64(n)   (equalsD in the model) *)
Theorem k_equals_ok :
  kf_body Chains.k_equals =
  XLet "o" (XCall1 "t.eq" (XV "u")) (XLet "n" (XCall0 "o.numElems") (XCmp ">=" (XCall0 "o.sum") (XCall1 "float64" (XV "n")))).
Proof. reflexivity. Qed.

End Kern.
