(* CompInitP.v — component/initializers (+ the config validators / constructors of SGD, LeakyRelu, Softmax) as
   translated by harness/gox into the DataIR programs of Model/GoComp.v, run with the oracle Model/CompExt.v:
   1. the config validators accept exactly when Components.init_valid does, and return a copy of the config;
   2. the constructors build the component from the validated config exactly in that case;
   3. the Init methods call tensor.RandU / RandN / Full with the arguments Components.init_value passes to
      v_randu / v_randn / v_full (scale formulas sqrtOver 6 / sqrtOver 2). *)
From Coq Require Import String List ZArith Bool Lia Arith.
From Qeep Require Import Model.Scalar Model.Nd Model.Fill Model.Data Model.Valid Model.Api Model.Grad Model.Backprop
     Model.Components Model.Consts Model.DataIR Model.HeapExt Model.GoComp Model.CompExt Proofs.DataIRP.
From Qeep Require Model.GoIR.
Import ListNotations.
Local Open Scope string_scope.
Local Open Scope Z_scope.
Local Open Scope list_scope.

Section CompInit.
Context {A : Type} {SA : Scalar A}.
Notation heap := (@heap A).
Notation dval := (@dval A).
Variables (fltb fleb : A -> A -> bool) (lib : string -> list dval -> heap -> option (list dval * heap)).
Notation run0 p := (drun cfapp heap (cext0 fltb fleb lib) p).   (* leaf functions *)
Notation run p := (drun cfapp heap (cext fltb fleb lib) p).     (* functions that call siblings *)

(* the observable part of an outcome: returned values and final heap *)
Definition outcome (o : @doutcome A heap) : option (list dval * heap) :=
  match o with DRet _ vs s _ _ => Some (vs, s) | _ => None end.

(* error flag *)
Definition flag (ok : bool) : dval := DI (if ok then 0 else 1).

(* config pointers: nil or the list of the fields *)
Definition cfgI1 (c : option Z) : dval := match c with None => DNil | Some f => DL [DI f] end.
Definition cfgI2 (c : option (Z * Z)) : dval := match c with None => DNil | Some (a, b) => DL [DI a; DI b] end.
Definition cfgF1 (c : option A) : dval := match c with None => DNil | Some v => DL [DF v] end.
Definition cfgF2 (c : option (A * A)) : dval := match c with None => DNil | Some (a, b) => DL [DF a; DF b] end.

Ltac start p := unfold drun, p; cbn [pmain dbody plocals dparams dbind]; dxs.
Ltac zb := cbn [Z.eqb Z.leb Z.ltb Z.compare Pos.compare Pos.compare_cont Pos.eqb negb didx Z.to_nat nth_error app dlen length];
  try change (Pos.to_nat 1) with 1%nat; cbn [nth_error].

(* ================= 1. int configs ================= *)

Lemma leb0_ltb0 z : (z <=? 0) = negb (0 <? z).
Proof. destruct (Z.leb_spec z 0), (Z.ltb_spec 0 z); try reflexivity; lia. Qed.
Lemma ltb0_leb0 z : (z <? 0) = negb (0 <=? z).
Proof. destruct (Z.ltb_spec z 0), (Z.leb_spec 0 z); try reflexivity; lia. Qed.

Theorem HeUniform_config dl du ds fuel depth (c : option Z) (h : heap) :
  outcome (run0 c_HeUniform_toValidHeUniformConfig fuel depth [cfgI1 c] h)
  = Some ([cfgI1 c; flag (init_valid dl du ds (IHeUniform c))], h).
Proof.
  start c_HeUniform_toValidHeUniformConfig.
  destruct c as [f|]; cbn [cfgI1 init_valid flag]; dxs; zb; dxs.
  - rewrite leb0_ltb0. destruct (0 <? f); cbn [negb]; dxs; reflexivity.
  - reflexivity.
Qed.


Theorem HeNormal_config dl du ds fuel depth (c : option Z) (h : heap) :
  outcome (run0 c_HeNormal_toValidHeNormalConfig fuel depth [cfgI1 c] h)
  = Some ([cfgI1 c; flag (init_valid dl du ds (IHeNormal c))], h).
Proof.
  start c_HeNormal_toValidHeNormalConfig.
  destruct c as [f|]; cbn [cfgI1 init_valid flag]; dxs; zb; dxs.
  - rewrite leb0_ltb0. destruct (0 <? f); cbn [negb]; dxs; reflexivity.
  - reflexivity.
Qed.

Theorem XavierUniform_config dl du ds fuel depth (c : option (Z * Z)) (h : heap) :
  outcome (run0 c_XavierUniform_toValidXavierUniformConfig fuel depth [cfgI2 c] h)
  = Some ([cfgI2 c; flag (init_valid dl du ds (IXavierUniform c))], h).
Proof.
  start c_XavierUniform_toValidXavierUniformConfig.
  destruct c as [[fi fo]|]; cbn [cfgI2 init_valid flag]; dxs; zb; dxs.
  - rewrite leb0_ltb0. destruct (0 <? fi); cbn [negb andb]; dxs; zb; dxs; [|reflexivity].
    rewrite leb0_ltb0. destruct (0 <? fo); cbn [negb]; dxs; reflexivity.
  - reflexivity.
Qed.

Theorem XavierNormal_config dl du ds fuel depth (c : option (Z * Z)) (h : heap) :
  outcome (run0 c_XavierNormal_toValidXavierNormalConfig fuel depth [cfgI2 c] h)
  = Some ([cfgI2 c; flag (init_valid dl du ds (IXavierNormal c))], h).
Proof.
  start c_XavierNormal_toValidXavierNormalConfig.
  destruct c as [[fi fo]|]; cbn [cfgI2 init_valid flag]; dxs; zb; dxs.
  - rewrite leb0_ltb0. destruct (0 <? fi); cbn [negb andb]; dxs; zb; dxs; [|reflexivity].
    rewrite leb0_ltb0. destruct (0 <? fo); cbn [negb]; dxs; reflexivity.
  - reflexivity.
Qed.

(* Softmax: the dimension must be non-negative; nil config: dimension 0 *)
Theorem Softmax_config fuel depth (c : option Z) (h : heap) :
  let d := match c with Some d => d | None => 0 end in
  outcome (run0 c_Softmax_toValidSoftmaxConfig fuel depth [cfgI1 c] h) = Some ([DL [DI d]; flag (0 <=? d)], h).
Proof.
  start c_Softmax_toValidSoftmaxConfig.
  destruct c as [d|]; cbn [cfgI1 flag]; dxs; zb; dxs.
  - rewrite ltb0_leb0. destruct (0 <=? d); cbn [negb]; dxs; reflexivity.
  - reflexivity.
Qed.

(* ================= 2. float configs ================= *)

Lemma cext0_flt a b (h : heap) : cext0 fltb fleb lib "f<" [DF a; DF b] h = Some ([DB (fltb a b)], h).
Proof. reflexivity. Qed.
Lemma cext0_fgt a b (h : heap) : cext0 fltb fleb lib "f>" [DF a; DF b] h = Some ([DB (fltb b a)], h).
Proof. reflexivity. Qed.

Definition uniDefault : A * A := (sconst (-5) (-2), sconst 5 (-2)).
Definition norDefault : A * A := (sconst 0 0, sconst 5 (-2)).

Theorem Uniform_config fuel depth (c : option (A * A)) (h : heap) :
  let '(l, u) := match c with Some p => p | None => uniDefault end in
  outcome (run0 c_Uniform_toValidUniformConfig fuel depth [cfgF2 c] h) = Some ([DL [DF l; DF u]; flag (fltb l u)], h).
Proof.
  start c_Uniform_toValidUniformConfig.
  destruct c as [[l u]|]; cbn [cfgF2 uniDefault flag]; dxs; zb; dxs; rewrite cext0_flt; dxs.
  - destruct (fltb l u); dxs; reflexivity.
  - destruct (fltb _ _); dxs; reflexivity.
Qed.

Theorem Normal_config fuel depth (c : option (A * A)) (h : heap) :
  let '(m, s) := match c with Some p => p | None => norDefault end in
  outcome (run0 c_Normal_toValidNormalConfig fuel depth [cfgF2 c] h)
  = Some ([DL [DF m; DF s]; flag (fltb (sconst 0 0) s)], h).
Proof.
  start c_Normal_toValidNormalConfig.
  destruct c as [[m s]|]; cbn [cfgF2 norDefault flag]; dxs; zb; dxs; rewrite cext0_fgt; dxs.
  - destruct (fltb _ s); dxs; reflexivity.
  - destruct (fltb _ _); dxs; reflexivity.
Qed.

(* decimal configs, as the model's scenario language passes them *)
Definition cfgD1 (c : option dec) : dval := cfgF1 (option_map dcst c).
Definition cfgD2 (c : option (dec * dec)) : dval := cfgF2 (option_map (fun p => (dcst (fst p), dcst (snd p))) c).

(* the defaults of the programs are the constants harness/constx extracts into Model/Consts.v *)
Lemma uniDefault_consts : uniDefault = (dcst c_uniform_lower, dcst c_uniform_upper).
Proof. reflexivity. Qed.
Lemma norDefault_consts : norDefault = (dcst c_normal_mean, dcst c_normal_stddev).
Proof. reflexivity. Qed.

(* if the float comparison of the two literals agrees with the exact one, the validator is init_valid *)
Corollary Uniform_config_dec dUniL dUniU dNorS fuel depth (l u : dec) (h : heap) :
  fltb (dcst l) (dcst u) = dec_lt l u ->
  outcome (run0 c_Uniform_toValidUniformConfig fuel depth [cfgD2 (Some (l, u))] h)
  = Some ([DL [DF (dcst l); DF (dcst u)]; flag (init_valid dUniL dUniU dNorS (IUniform (Some (l, u))))], h).
Proof.
  intros H. pose proof (Uniform_config fuel depth (Some (dcst l, dcst u)) h) as E. cbv beta iota in E.
  unfold cfgD2; cbn [option_map fst snd init_valid]. rewrite E, H. reflexivity.
Qed.

Corollary Uniform_config_dec_nil dNorS fuel depth (h : heap) :
  fltb (dcst c_uniform_lower) (dcst c_uniform_upper) = dec_lt c_uniform_lower c_uniform_upper ->
  outcome (run0 c_Uniform_toValidUniformConfig fuel depth [cfgD2 None] h)
  = Some ([DL [DF (dcst c_uniform_lower); DF (dcst c_uniform_upper)];
           flag (init_valid c_uniform_lower c_uniform_upper dNorS (IUniform None))], h).
Proof.
  intros H. pose proof (Uniform_config fuel depth None h) as E. cbv beta iota in E.
  rewrite uniDefault_consts in E. unfold cfgD2; cbn [option_map init_valid]. rewrite E, H. reflexivity.
Qed.

(* the literal 0 compared with a decimal literal: exact comparison is dec_pos *)
Corollary Normal_config_dec dUniL dUniU dNorS fuel depth (m s : dec) (h : heap) :
  fltb (sconst 0 0) (dcst s) = dec_pos s ->
  outcome (run0 c_Normal_toValidNormalConfig fuel depth [cfgD2 (Some (m, s))] h)
  = Some ([DL [DF (dcst m); DF (dcst s)]; flag (init_valid dUniL dUniU dNorS (INormal (Some (m, s))))], h).
Proof.
  intros H. pose proof (Normal_config fuel depth (Some (dcst m, dcst s)) h) as E. cbv beta iota in E.
  unfold cfgD2; cbn [option_map fst snd init_valid]. rewrite E, H. reflexivity.
Qed.

Corollary Normal_config_dec_nil dUniL dUniU fuel depth (h : heap) :
  fltb (sconst 0 0) (dcst c_normal_stddev) = dec_pos c_normal_stddev ->
  outcome (run0 c_Normal_toValidNormalConfig fuel depth [cfgD2 None] h)
  = Some ([DL [DF (dcst c_normal_mean); DF (dcst c_normal_stddev)];
           flag (init_valid dUniL dUniU c_normal_stddev (INormal None))], h).
Proof.
  intros H. pose proof (Normal_config fuel depth None h) as E. cbv beta iota in E.
  rewrite norDefault_consts in E. unfold cfgD2; cbn [option_map init_valid]. rewrite E, H. reflexivity.
Qed.

(* total validators: nil gives the default literal, non-nil a copy *)
Theorem Full_config fuel depth (c : option A) (h : heap) :
  outcome (run0 c_Full_toValidFullConfig fuel depth [cfgF1 c] h)
  = Some ([DL [DF (match c with Some v => v | None => sconst 0 0 end)]], h).
Proof. start c_Full_toValidFullConfig. destruct c as [v|]; cbn [cfgF1]; dxs; reflexivity. Qed.

Theorem SGD_config fuel depth (c : option A) (h : heap) :
  outcome (run0 c_SGD_toValidSGDConfig fuel depth [cfgF1 c] h)
  = Some ([DL [DF (match c with Some v => v | None => sconst 1 (-2) end)]], h).
Proof. start c_SGD_toValidSGDConfig. destruct c as [v|]; cbn [cfgF1]; dxs; reflexivity. Qed.

Theorem LeakyRelu_config fuel depth (c : option A) (h : heap) :
  outcome (run0 c_LeakyRelu_toValidLeakyReluConfig fuel depth [cfgF1 c] h)
  = Some ([DL [DF (match c with Some v => v | None => sconst 1 (-2) end)]], h).
Proof. start c_LeakyRelu_toValidLeakyReluConfig. destruct c as [v|]; cbn [cfgF1]; dxs; reflexivity. Qed.

(* the same with the model's constants *)
Corollary Full_config_dec fuel depth (c : option dec) (h : heap) :
  outcome (run0 c_Full_toValidFullConfig fuel depth [cfgD1 c] h)
  = Some ([DL [DF (dcst (match c with Some d => d | None => c_full_value end))]], h).
Proof. unfold cfgD1. rewrite Full_config. destruct c; reflexivity. Qed.
Corollary SGD_config_dec fuel depth (c : option dec) (h : heap) :
  outcome (run0 c_SGD_toValidSGDConfig fuel depth [cfgD1 c] h)
  = Some ([DL [DF (dcst (match c with Some d => d | None => c_sgd_lr end))]], h).
Proof. unfold cfgD1. rewrite SGD_config. destruct c; reflexivity. Qed.
Corollary LeakyRelu_config_dec fuel depth (c : option dec) (h : heap) :
  outcome (run0 c_LeakyRelu_toValidLeakyReluConfig fuel depth [cfgD1 c] h)
  = Some ([DL [DF (dcst (match c with Some d => d | None => c_leaky_m end))]], h).
Proof. unfold cfgD1. rewrite LeakyRelu_config. destruct c; reflexivity. Qed.

(* ================= 3. constructors (sibling validators linked: oracle [cext]) ================= *)

(* a linked sibling is its own program run with the leaf oracle *)
Lemma cext_HeUniform args (h : heap) :
  cext fltb fleb lib "toValidHeUniformConfig" args h
  = outcome (run0 c_HeUniform_toValidHeUniformConfig sibFuel sibFuel args h).
Proof. reflexivity. Qed.
Lemma cext_HeNormal args (h : heap) :
  cext fltb fleb lib "toValidHeNormalConfig" args h
  = outcome (run0 c_HeNormal_toValidHeNormalConfig sibFuel sibFuel args h).
Proof. reflexivity. Qed.
Lemma cext_XavierUniform args (h : heap) :
  cext fltb fleb lib "toValidXavierUniformConfig" args h
  = outcome (run0 c_XavierUniform_toValidXavierUniformConfig sibFuel sibFuel args h).
Proof. reflexivity. Qed.
Lemma cext_XavierNormal args (h : heap) :
  cext fltb fleb lib "toValidXavierNormalConfig" args h
  = outcome (run0 c_XavierNormal_toValidXavierNormalConfig sibFuel sibFuel args h).
Proof. reflexivity. Qed.
Lemma cext_Uniform args (h : heap) :
  cext fltb fleb lib "toValidUniformConfig" args h
  = outcome (run0 c_Uniform_toValidUniformConfig sibFuel sibFuel args h).
Proof. reflexivity. Qed.
Lemma cext_Normal args (h : heap) :
  cext fltb fleb lib "toValidNormalConfig" args h
  = outcome (run0 c_Normal_toValidNormalConfig sibFuel sibFuel args h).
Proof. reflexivity. Qed.
Lemma cext_Full args (h : heap) :
  cext fltb fleb lib "toValidFullConfig" args h
  = outcome (run0 c_Full_toValidFullConfig sibFuel sibFuel args h).
Proof. reflexivity. Qed.
Lemma cext_SGD args (h : heap) :
  cext fltb fleb lib "toValidSGDConfig" args h
  = outcome (run0 c_SGD_toValidSGDConfig sibFuel sibFuel args h).
Proof. reflexivity. Qed.
Lemma cext_LeakyRelu args (h : heap) :
  cext fltb fleb lib "toValidLeakyReluConfig" args h
  = outcome (run0 c_LeakyRelu_toValidLeakyReluConfig sibFuel sibFuel args h).
Proof. reflexivity. Qed.
Lemma cext_Softmax args (h : heap) :
  cext fltb fleb lib "toValidSoftmaxConfig" args h
  = outcome (run0 c_Softmax_toValidSoftmaxConfig sibFuel sibFuel args h).
Proof. reflexivity. Qed.

Theorem NewHeUniform dl du ds fuel depth (c : option Z) (h : heap) :
  outcome (run c_HeUniform_NewHeUniform fuel depth [cfgI1 c] h)
  = Some (if init_valid dl du ds (IHeUniform c) then [cfgI1 c; DI 0] else [DNil; DI 1], h).
Proof.
  start c_HeUniform_NewHeUniform. rewrite cext_HeUniform, (HeUniform_config dl du ds). dxs.
  destruct c as [f|]; cbn [cfgI1 flag]; [destruct (init_valid dl du ds (IHeUniform (Some f)))|cbn [init_valid]];
    dxs; zb; dxs; reflexivity.
Qed.

Theorem NewHeNormal dl du ds fuel depth (c : option Z) (h : heap) :
  outcome (run c_HeNormal_NewHeNormal fuel depth [cfgI1 c] h)
  = Some (if init_valid dl du ds (IHeNormal c) then [cfgI1 c; DI 0] else [DNil; DI 1], h).
Proof.
  start c_HeNormal_NewHeNormal. rewrite cext_HeNormal, (HeNormal_config dl du ds). dxs.
  destruct c as [f|]; cbn [cfgI1 flag]; [destruct (init_valid dl du ds (IHeNormal (Some f)))|cbn [init_valid]];
    dxs; zb; dxs; reflexivity.
Qed.

Theorem NewXavierUniform dl du ds fuel depth (c : option (Z * Z)) (h : heap) :
  outcome (run c_XavierUniform_NewXavierUniform fuel depth [cfgI2 c] h)
  = Some (if init_valid dl du ds (IXavierUniform c) then [cfgI2 c; DI 0] else [DNil; DI 1], h).
Proof.
  start c_XavierUniform_NewXavierUniform. rewrite cext_XavierUniform, (XavierUniform_config dl du ds). dxs.
  destruct c as [[fi fo]|]; cbn [cfgI2 flag];
    [destruct (init_valid dl du ds (IXavierUniform (Some (fi, fo))))|cbn [init_valid]];
    dxs; zb; dxs; reflexivity.
Qed.

Theorem NewXavierNormal dl du ds fuel depth (c : option (Z * Z)) (h : heap) :
  outcome (run c_XavierNormal_NewXavierNormal fuel depth [cfgI2 c] h)
  = Some (if init_valid dl du ds (IXavierNormal c) then [cfgI2 c; DI 0] else [DNil; DI 1], h).
Proof.
  start c_XavierNormal_NewXavierNormal. rewrite cext_XavierNormal, (XavierNormal_config dl du ds). dxs.
  destruct c as [[fi fo]|]; cbn [cfgI2 flag];
    [destruct (init_valid dl du ds (IXavierNormal (Some (fi, fo))))|cbn [init_valid]];
    dxs; zb; dxs; reflexivity.
Qed.

Theorem NewUniform fuel depth (c : option (A * A)) (h : heap) :
  let '(l, u) := match c with Some p => p | None => uniDefault end in
  outcome (run c_Uniform_NewUniform fuel depth [cfgF2 c] h)
  = Some (if fltb l u then [DL [DF l; DF u]; DI 0] else [DNil; DI 1], h).
Proof.
  pose proof (Uniform_config sibFuel sibFuel c h) as E.
  start c_Uniform_NewUniform. rewrite cext_Uniform.
  destruct (match c with Some p => p | None => uniDefault end) as [l u].
  rewrite E. unfold flag. destruct (fltb l u); dxs; zb; dxs; reflexivity.
Qed.

Theorem NewNormal fuel depth (c : option (A * A)) (h : heap) :
  let '(m, s) := match c with Some p => p | None => norDefault end in
  outcome (run c_Normal_NewNormal fuel depth [cfgF2 c] h)
  = Some (if fltb (sconst 0 0) s then [DL [DF m; DF s]; DI 0] else [DNil; DI 1], h).
Proof.
  pose proof (Normal_config sibFuel sibFuel c h) as E.
  start c_Normal_NewNormal. rewrite cext_Normal.
  destruct (match c with Some p => p | None => norDefault end) as [m s].
  rewrite E. unfold flag. destruct (fltb (sconst 0 0) s); dxs; zb; dxs; reflexivity.
Qed.

(* with decimal literals whose float comparison is exact: the constructor succeeds exactly when init_valid holds *)
Corollary NewUniform_dec dNorS fuel depth (c : option (dec * dec)) (h : heap) :
  let '(l, u) := match c with Some p => p | None => (c_uniform_lower, c_uniform_upper) end in
  fltb (dcst l) (dcst u) = dec_lt l u ->
  outcome (run c_Uniform_NewUniform fuel depth [cfgD2 c] h)
  = Some (if init_valid c_uniform_lower c_uniform_upper dNorS (IUniform c)
          then [DL [DF (dcst l); DF (dcst u)]; DI 0] else [DNil; DI 1], h).
Proof.
  pose proof (NewUniform fuel depth (option_map (fun p => (dcst (fst p), dcst (snd p))) c) h) as E.
  unfold cfgD2. destruct c as [[l u]|]; cbn [option_map fst snd init_valid] in *; intros H.
  - rewrite E, H. reflexivity.
  - rewrite uniDefault_consts in E. rewrite E, H. reflexivity.
Qed.

Corollary NewNormal_dec dUniL dUniU fuel depth (c : option (dec * dec)) (h : heap) :
  let '(m, s) := match c with Some p => p | None => (c_normal_mean, c_normal_stddev) end in
  fltb (sconst 0 0) (dcst s) = dec_pos s ->
  outcome (run c_Normal_NewNormal fuel depth [cfgD2 c] h)
  = Some (if init_valid dUniL dUniU c_normal_stddev (INormal c)
          then [DL [DF (dcst m); DF (dcst s)]; DI 0] else [DNil; DI 1], h).
Proof.
  pose proof (NewNormal fuel depth (option_map (fun p => (dcst (fst p), dcst (snd p))) c) h) as E.
  unfold cfgD2. destruct c as [[m s]|]; cbn [option_map fst snd init_valid] in *; intros H.
  - rewrite E, H. reflexivity.
  - rewrite norDefault_consts in E. rewrite E, H. reflexivity.
Qed.

Theorem NewSoftmax fuel depth (c : option Z) (h : heap) :
  let d := match c with Some d => d | None => 0 end in
  outcome (run c_Softmax_NewSoftmax fuel depth [cfgI1 c] h)
  = Some (if 0 <=? d then [DL [DI d]; DI 0] else [DNil; DI 1], h).
Proof.
  intros d. pose proof (Softmax_config sibFuel sibFuel c h) as E. cbv zeta in E. fold d in E.
  start c_Softmax_NewSoftmax. rewrite cext_Softmax, E. unfold flag.
  destruct (0 <=? d); dxs; zb; dxs; reflexivity.
Qed.

(* constructors without an error result *)
Theorem NewFull fuel depth (c : option A) (h : heap) :
  outcome (run c_Full_NewFull fuel depth [cfgF1 c] h)
  = Some ([DL [DF (match c with Some v => v | None => sconst 0 0 end)]], h).
Proof. start c_Full_NewFull. rewrite cext_Full, Full_config. dxs; zb; dxs. reflexivity. Qed.

Theorem NewSGD fuel depth (c : option A) (h : heap) :
  outcome (run c_SGD_NewSGD fuel depth [cfgF1 c] h)
  = Some ([DL [DF (match c with Some v => v | None => sconst 1 (-2) end)]], h).
Proof. start c_SGD_NewSGD. rewrite cext_SGD, SGD_config. dxs; zb; dxs. reflexivity. Qed.

Theorem NewLeakyRelu fuel depth (c : option A) (h : heap) :
  outcome (run c_LeakyRelu_NewLeakyRelu fuel depth [cfgF1 c] h)
  = Some ([DL [DF (match c with Some v => v | None => sconst 1 (-2) end)]], h).
Proof. start c_LeakyRelu_NewLeakyRelu. rewrite cext_LeakyRelu, LeakyRelu_config. dxs; zb; dxs. reflexivity. Qed.

Corollary NewFull_dec fuel depth (c : option dec) (h : heap) :
  outcome (run c_Full_NewFull fuel depth [cfgD1 c] h)
  = Some ([DL [DF (dcst (match c with Some d => d | None => c_full_value end))]], h).
Proof. unfold cfgD1. rewrite NewFull. destruct c; reflexivity. Qed.
Corollary NewSGD_dec fuel depth (c : option dec) (h : heap) :
  outcome (run c_SGD_NewSGD fuel depth [cfgD1 c] h)
  = Some ([DL [DF (dcst (match c with Some d => d | None => c_sgd_lr end))]], h).
Proof. unfold cfgD1. rewrite NewSGD. destruct c; reflexivity. Qed.
Corollary NewLeakyRelu_dec fuel depth (c : option dec) (h : heap) :
  outcome (run c_LeakyRelu_NewLeakyRelu fuel depth [cfgD1 c] h)
  = Some ([DL [DF (dcst (match c with Some d => d | None => c_leaky_m end))]], h).
Proof. unfold cfgD1. rewrite NewLeakyRelu. destruct c; reflexivity. Qed.

(* ================= 4. Init (leaf oracle) ================= *)

Lemma cext0_float64 z (h : heap) :
  cext0 fltb fleb lib "float64" [DI z] h = if 0 <=? z then Some ([DF (sofnat (Z.to_nat z))], h) else None.
Proof. reflexivity. Qed.
Lemma cext0_tensorInitConf (h : heap) : cext0 fltb fleb lib "tensorInitConf" [] h = lib "tensorInitConf" [] h.
Proof. reflexivity. Qed.
Lemma cext0_RandU args (h : heap) : cext0 fltb fleb lib "tensor.RandU" args h = lib "tensor.RandU" args h.
Proof. reflexivity. Qed.
Lemma cext0_RandN args (h : heap) : cext0 fltb fleb lib "tensor.RandN" args h = lib "tensor.RandN" args h.
Proof. reflexivity. Qed.
Lemma cext0_Full args (h : heap) : cext0 fltb fleb lib "tensor.Full" args h = lib "tensor.Full" args h.
Proof. reflexivity. Qed.

(* the program's outcome is the library call's: its two results are returned as they are, with its final heap;
   the program panics when the call does (and when it does not return two results) *)
Definition isCall (o : @doutcome A heap) (call : option (list dval * heap)) : Prop :=
  (forall r0 r1 h2, call = Some ([r0; r1], h2) -> outcome o = Some ([r0; r1], h2)) /\
  (call = None -> o = DPanic heap) /\
  (forall rs h2, call = Some (rs, h2) -> length rs <> 2%nat -> o = DPanic heap).

(* the constants of the model are the literals of the programs *)
Lemma cst_sconst m e : @cst A SA m e = sconst m e.
Proof. reflexivity. Qed.
Lemma sqrtOver_eq c n : @sqrtOver A SA c n = ssqrt (sdiv (sconst c 0) (sofnat (Z.to_nat n))).
Proof. reflexivity. Qed.

(* last two statements of every Init: the library call and the return of its results *)
Ltac finish :=
  split; [|split];
  [ intros r0 r1 h2 Hcall; rewrite Hcall; dxs; reflexivity
  | intros Hcall; rewrite Hcall; reflexivity
  | intros rs h2 Hcall Hl; rewrite Hcall;
    destruct rs as [|a0 [|a1 [|a2 rs]]]; cbn [length] in Hl; try lia; dxs; reflexivity ].

Theorem XavierUniform_Init fuel depth (fi fo : Z) (sh cfg : dval) (h h1 : heap) :
  0 <= fi + fo ->
  lib "tensorInitConf" [] h = Some ([cfg], h1) ->
  let r := sqrtOver 6 (fi + fo) in
  isCall (run0 c_XavierUniform_Init fuel depth [DI fi; DI fo; sh] h)
         (lib "tensor.RandU" [sh; DF (ssub (sconst 0 0) r); DF r; cfg] h1).
Proof.
  intros Hn Hc r. subst r. rewrite sqrtOver_eq.
  start c_XavierUniform_Init. rewrite cext0_float64. apply Z.leb_le in Hn. rewrite Hn. dxs.
  cbn [asFloats cfapp String.eqb Ascii.eqb Bool.eqb]. dxs.
  rewrite cext0_tensorInitConf, Hc. dxs. rewrite cext0_RandU. finish.
Qed.

Theorem XavierNormal_Init fuel depth (fi fo : Z) (sh cfg : dval) (h h1 : heap) :
  0 <= fi + fo ->
  lib "tensorInitConf" [] h = Some ([cfg], h1) ->
  isCall (run0 c_XavierNormal_Init fuel depth [DI fi; DI fo; sh] h)
         (lib "tensor.RandN" [sh; DF (sconst 0 0); DF (sqrtOver 2 (fi + fo)); cfg] h1).
Proof.
  intros Hn Hc. rewrite sqrtOver_eq.
  start c_XavierNormal_Init. rewrite cext0_float64. apply Z.leb_le in Hn. rewrite Hn. dxs.
  cbn [asFloats cfapp String.eqb Ascii.eqb Bool.eqb]. dxs.
  rewrite cext0_tensorInitConf, Hc. dxs. rewrite cext0_RandN. finish.
Qed.

Theorem HeUniform_Init fuel depth (f : Z) (sh cfg : dval) (h h1 : heap) :
  0 <= f ->
  lib "tensorInitConf" [] h = Some ([cfg], h1) ->
  let r := sqrtOver 6 f in
  isCall (run0 c_HeUniform_Init fuel depth [DI f; sh] h)
         (lib "tensor.RandU" [sh; DF (ssub (sconst 0 0) r); DF r; cfg] h1).
Proof.
  intros Hn Hc r. subst r. rewrite sqrtOver_eq.
  start c_HeUniform_Init. rewrite cext0_float64. apply Z.leb_le in Hn. rewrite Hn. dxs.
  cbn [asFloats cfapp String.eqb Ascii.eqb Bool.eqb]. dxs.
  rewrite cext0_tensorInitConf, Hc. dxs. rewrite cext0_RandU. finish.
Qed.

Theorem HeNormal_Init fuel depth (f : Z) (sh cfg : dval) (h h1 : heap) :
  0 <= f ->
  lib "tensorInitConf" [] h = Some ([cfg], h1) ->
  isCall (run0 c_HeNormal_Init fuel depth [DI f; sh] h)
         (lib "tensor.RandN" [sh; DF (sconst 0 0); DF (sqrtOver 2 f); cfg] h1).
Proof.
  intros Hn Hc. rewrite sqrtOver_eq.
  start c_HeNormal_Init. rewrite cext0_float64. apply Z.leb_le in Hn. rewrite Hn. dxs.
  cbn [asFloats cfapp String.eqb Ascii.eqb Bool.eqb]. dxs.
  rewrite cext0_tensorInitConf, Hc. dxs. rewrite cext0_RandN. finish.
Qed.

Theorem Uniform_Init fuel depth (l u : A) (sh cfg : dval) (h h1 : heap) :
  lib "tensorInitConf" [] h = Some ([cfg], h1) ->
  isCall (run0 c_Uniform_Init fuel depth [DF l; DF u; sh] h) (lib "tensor.RandU" [sh; DF l; DF u; cfg] h1).
Proof.
  intros Hc. start c_Uniform_Init. rewrite cext0_tensorInitConf, Hc. dxs. rewrite cext0_RandU. finish.
Qed.

Theorem Normal_Init fuel depth (m s : A) (sh cfg : dval) (h h1 : heap) :
  lib "tensorInitConf" [] h = Some ([cfg], h1) ->
  isCall (run0 c_Normal_Init fuel depth [DF m; DF s; sh] h) (lib "tensor.RandN" [sh; DF m; DF s; cfg] h1).
Proof.
  intros Hc. start c_Normal_Init. rewrite cext0_tensorInitConf, Hc. dxs. rewrite cext0_RandN. finish.
Qed.

Theorem Full_Init fuel depth (v : A) (sh cfg : dval) (h h1 : heap) :
  lib "tensorInitConf" [] h = Some ([cfg], h1) ->
  isCall (run0 c_Full_Init fuel depth [DF v; sh] h) (lib "tensor.Full" [sh; DF v; cfg] h1).
Proof.
  intros Hc. start c_Full_Init. rewrite cext0_tensorInitConf, Hc. dxs. rewrite cext0_Full. finish.
Qed.

(* a negative fan (excluded by the constructors) panics in the conversion: float64 of the oracle is partial *)
Theorem HeUniform_Init_neg fuel depth (f : Z) (sh : dval) (h : heap) :
  f < 0 -> run0 c_HeUniform_Init fuel depth [DI f; sh] h = DPanic heap.
Proof.
  intros Hn. start c_HeUniform_Init. rewrite cext0_float64. apply Z.leb_gt in Hn. rewrite Hn. reflexivity.
Qed.

(* these are the arguments the model's init_value passes to v_randu / v_randn / v_full *)
Lemma init_value_XavierUniform dF dL dU dM dS fi fo shape pos :
  @init_value A SA dF dL dU dM dS (IXavierUniform (Some (fi, fo))) shape pos
  = let r := sqrtOver 6 (fi + fo) in v_randu shape (ssub (sconst 0 0) r) r true pos.
Proof. reflexivity. Qed.
Lemma init_value_XavierNormal dF dL dU dM dS fi fo shape pos :
  @init_value A SA dF dL dU dM dS (IXavierNormal (Some (fi, fo))) shape pos
  = v_randn shape (sconst 0 0) (sqrtOver 2 (fi + fo)) true pos.
Proof. reflexivity. Qed.
Lemma init_value_HeUniform dF dL dU dM dS f shape pos :
  @init_value A SA dF dL dU dM dS (IHeUniform (Some f)) shape pos
  = let r := sqrtOver 6 f in v_randu shape (ssub (sconst 0 0) r) r true pos.
Proof. reflexivity. Qed.
Lemma init_value_HeNormal dF dL dU dM dS f shape pos :
  @init_value A SA dF dL dU dM dS (IHeNormal (Some f)) shape pos
  = v_randn shape (sconst 0 0) (sqrtOver 2 f) true pos.
Proof. reflexivity. Qed.
Lemma init_value_Uniform dF dL dU dM dS l u shape pos :
  @init_value A SA dF dL dU dM dS (IUniform (Some (l, u))) shape pos
  = v_randu shape (dcst l) (dcst u) (dec_lt l u) pos.
Proof. reflexivity. Qed.
Lemma init_value_Normal dF dL dU dM dS m s shape pos :
  @init_value A SA dF dL dU dM dS (INormal (Some (m, s))) shape pos
  = v_randn shape (dcst m) (dcst s) (dec_pos s) pos.
Proof. reflexivity. Qed.
Lemma init_value_Full dF dL dU dM dS v shape pos :
  @init_value A SA dF dL dU dM dS (IFull (Some v)) shape pos = v_full shape (dcst v).
Proof. reflexivity. Qed.

End CompInit.
Print Assumptions HeUniform_config.
Print Assumptions HeNormal_config.
Print Assumptions XavierUniform_config.
Print Assumptions XavierNormal_config.
Print Assumptions Softmax_config.
Print Assumptions Uniform_config.
Print Assumptions Normal_config.
Print Assumptions Uniform_config_dec.
Print Assumptions Uniform_config_dec_nil.
Print Assumptions Normal_config_dec.
Print Assumptions Normal_config_dec_nil.
Print Assumptions Full_config_dec.
Print Assumptions SGD_config_dec.
Print Assumptions LeakyRelu_config_dec.
Print Assumptions NewHeUniform.
Print Assumptions NewHeNormal.
Print Assumptions NewXavierUniform.
Print Assumptions NewXavierNormal.
Print Assumptions NewUniform.
Print Assumptions NewNormal.
Print Assumptions NewUniform_dec.
Print Assumptions NewNormal_dec.
Print Assumptions NewSoftmax.
Print Assumptions NewFull_dec.
Print Assumptions NewSGD_dec.
Print Assumptions NewLeakyRelu_dec.
Print Assumptions XavierUniform_Init.
Print Assumptions XavierNormal_Init.
Print Assumptions HeUniform_Init.
Print Assumptions HeNormal_Init.
Print Assumptions Uniform_Init.
Print Assumptions Normal_Init.
Print Assumptions Full_Init.
Print Assumptions HeUniform_Init_neg.
Print Assumptions Full_config.
Print Assumptions SGD_config.
Print Assumptions LeakyRelu_config.
Print Assumptions NewFull.
Print Assumptions NewSGD.
Print Assumptions NewLeakyRelu.

(* ================= examples over the free scalar algebra [term] ================= *)
Module Examples.
(* exact comparison on literals (what the dec corollaries assume), anything else: false *)
Definition tlt (a b : term) : bool :=
  match a, b with TConst m e, TConst m' e' => dec_lt (m, e) (m', e') | _, _ => false end.
(* a library that echoes its arguments *)
Definition elib (f : string) (args : list (@dval term)) (h : @heap term)
  : option (list (@dval term) * @heap term) :=
  if String.eqb f "tensorInitConf" then Some ([DB true], h) else Some ([DL (DI 7 :: args); DI 0], h).
Definition h0 : @heap term := [].
Notation erun0 p := (drun cfapp (@heap term) (cext0 tlt tlt elib) p 0%nat 0%nat).
Notation erun p := (drun cfapp (@heap term) (cext tlt tlt elib) p 0%nat 0%nat).

Example ex_XavierUniform_Init :
  outcome (erun0 c_XavierUniform_Init [DI 4; DI 3; DL [DI 2]] h0)
  = Some ([DL [DI 7; DL [DI 2];
               DF (TBin BSub (TConst 0 0) (TUn USqrt (TBin BDiv (TConst 6 0) (TNat 7))));
               DF (TUn USqrt (TBin BDiv (TConst 6 0) (TNat 7))); DB true]; DI 0], h0).
Proof. vm_compute. reflexivity. Qed.

Example ex_HeNormal_Init :
  outcome (erun0 c_HeNormal_Init [DI 5; DL [DI 2; DI 3]] h0)
  = Some ([DL [DI 7; DL [DI 2; DI 3]; DF (TConst 0 0); DF (TUn USqrt (TBin BDiv (TConst 2 0) (TNat 5))); DB true];
           DI 0], h0).
Proof. vm_compute. reflexivity. Qed.

Example ex_HeNormal_Init_neg : erun0 c_HeNormal_Init [DI (-5); DL [DI 2; DI 3]] h0 = DPanic _.
Proof. vm_compute. reflexivity. Qed.

Example ex_NewUniform_nil :
  outcome (erun c_Uniform_NewUniform [DNil] h0) = Some ([DL [DF (TConst (-5) (-2)); DF (TConst 5 (-2))]; DI 0], h0).
Proof. vm_compute. reflexivity. Qed.

Example ex_NewUniform_bad :
  outcome (erun c_Uniform_NewUniform [DL [DF (TConst 1 0); DF (TConst 10 (-1))]] h0) = Some ([DNil; DI 1], h0).
Proof. vm_compute. reflexivity. Qed.

Example ex_NewNormal_nil :
  outcome (erun c_Normal_NewNormal [DNil] h0) = Some ([DL [DF (TConst 0 0); DF (TConst 5 (-2))]; DI 0], h0).
Proof. vm_compute. reflexivity. Qed.

Example ex_NewXavierUniform_bad :
  outcome (erun c_XavierUniform_NewXavierUniform [DL [DI 4; DI 0]] h0) = Some ([DNil; DI 1], h0).
Proof. vm_compute. reflexivity. Qed.

Example ex_XavierUniform_config_bad :
  outcome (erun0 c_XavierUniform_toValidXavierUniformConfig [DL [DI 4; DI 0]] h0) = Some ([DL [DI 4; DI 0]; DI 1], h0).
Proof. vm_compute. reflexivity. Qed.

Example ex_NewSoftmax : outcome (erun c_Softmax_NewSoftmax [DL [DI (-1)]] h0) = Some ([DNil; DI 1], h0).
Proof. vm_compute. reflexivity. Qed.

Example ex_NewLeakyRelu_nil : outcome (erun c_LeakyRelu_NewLeakyRelu [DNil] h0) = Some ([DL [DF (TConst 1 (-2))]], h0).
Proof. vm_compute. reflexivity. Qed.

(* the hypothesis of the dec corollaries is satisfiable (by the exact comparison), and then the default configs are
   accepted: the model's defaults (Consts.v) are valid *)
Example ex_default_uniform_valid dNorS fuel depth h :
  outcome (drun cfapp (@heap term) (cext tlt tlt elib) c_Uniform_NewUniform fuel depth [cfgD2 None] h)
  = Some ([DL [DF (dcst c_uniform_lower); DF (dcst c_uniform_upper)]; DI 0], h)
  /\ init_valid c_uniform_lower c_uniform_upper dNorS (IUniform None) = true.
Proof.
  split; [|reflexivity].
  exact (NewUniform_dec tlt tlt elib dNorS fuel depth None h eq_refl).
Qed.

Example ex_default_normal_valid dUniL dUniU fuel depth h :
  outcome (drun cfapp (@heap term) (cext tlt tlt elib) c_Normal_NewNormal fuel depth [cfgD2 None] h)
  = Some ([DL [DF (dcst c_normal_mean); DF (dcst c_normal_stddev)]; DI 0], h)
  /\ init_valid dUniL dUniU c_normal_stddev (INormal None) = true.
Proof.
  split; [|reflexivity].
  exact (NewNormal_dec tlt tlt elib dUniL dUniU fuel depth None h eq_refl).
Qed.
End Examples.
