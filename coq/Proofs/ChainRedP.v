(* ChainRedP.v — the reducers' scalar kernels of reducers.go  (see ChainBaseP.v for the scheme). *)
From Coq Require Import String List ZArith Bool Arith.
From Qeep Require Import Model.Scalar Model.Nd Model.Fill Model.Data Model.Valid Model.Api Model.Grad
  Model.Components Model.ChainIR.
From Qeep Require Model.Chains.
Import ListNotations.
Local Open Scope string_scope.
From Qeep Require Import Proofs.ChainBaseP.

Section Red.
Context {A : Type} {SA : Scalar A}.
Notation T := (tensor A).

(* reducers: the whole-tensor statistics are the model's, for every tensor *)
Definition rfuel := 20%nat.
Theorem k_sum_ok (t : T) : evr rfuel Chains.k_sum t [] [] (kf_body Chains.k_sum) = r_sum t.
Proof. reflexivity. Qed.
Theorem k_max_ok (t : T) : evr rfuel Chains.k_max t [] [] (kf_body Chains.k_max) = r_max t.
Proof. reflexivity. Qed.
Theorem k_min_ok (t : T) : evr rfuel Chains.k_min t [] [] (kf_body Chains.k_min) = r_min t.
Proof. reflexivity. Qed.
Theorem k_avg_ok (t : T) : evr rfuel Chains.k_avg t [] [] (kf_body Chains.k_avg) = r_avg t.
Proof. cbn. unfold r_avg. destruct (r_sum t); reflexivity. Qed.
Theorem k_mean_ok (t : T) : evr rfuel Chains.k_mean t [] [] (kf_body Chains.k_mean) = r_mean t.
Proof. reflexivity. Qed.
Theorem k_std_ok (t : T) : evr rfuel Chains.k_std t [] [] (kf_body Chains.k_std) = r_std t.
Proof. cbn. unfold r_std. destruct (r_var t); reflexivity. Qed.
Theorem k_var_ok (t : T) : evr rfuel Chains.k_var t [] [] (kf_body Chains.k_var) = r_var t.
Proof.
  cbn. unfold r_var. destruct (r_mean t) as [xbar|]; [|reflexivity]. cbn.
  destruct (reduceBy _ s0 t) as [sigma|]; [|reflexivity]. cbn.
  destruct (1 <? numElems t)%nat; reflexivity.
Qed.
(* every fold literal is interpretable (so the total function used above is the literal itself) *)
Theorem k_folds_total :
  kfn2_total Chains.k_sum "sum#0" (@nil (string * A)) /\ kfn2_total Chains.k_max "max#0" (@nil (string * A)) /\
  kfn2_total Chains.k_min "min#0" (@nil (string * A)) /\ forall xbar : A, kfn2_total Chains.k_var "_var#0" [("xBar", xbar)].
Proof. repeat split; cbn; intros; discriminate. Qed.

End Red.
