(* TrackP.v — gradient-tracking bookkeeping of the tracked public methods (C08/C10):
   A. allocation / frame,  B. the tracking rule,  C. forward values ignore tracking,
   D. ResetGradContext.   (E, F — back-propagation flags — are in DfsP.v / BpFlagsP.v.) *)
From Coq Require Import List Arith ZArith Bool Lia.
From Qeep Require Import Model.Scalar Model.Nd Model.Fill Model.Data Model.Valid Model.Api Model.Grad Model.Backprop.
From Qeep Require Import Proofs.NdP.
Import ListNotations.

(* ---------- generic list facts ---------- *)
Lemma combine_seq_nth {X} (l : list X) : forall s j,
  nth_error (combine (seq s (length l)) l) j = option_map (fun x => (s + j, x)) (nth_error l j).
Proof.
  induction l as [|a l IH]; intros s j; cbn.
  - destruct j; reflexivity.
  - destruct j as [|j]; cbn.
    + rewrite Nat.add_0_r. reflexivity.
    + rewrite IH. rewrite Nat.add_succ_r. reflexivity.
Qed.

Lemma mapi_nth {X Y} (F : nat * X -> Y) (l : list X) j :
  nth_error (map F (combine (seq 0 (length l)) l)) j = option_map (fun x => F (j, x)) (nth_error l j).
Proof. rewrite nth_error_map, combine_seq_nth. destruct (nth_error l j); reflexivity. Qed.

Lemma mapi_length {X Y} (F : nat * X -> Y) (l : list X) :
  length (map F (combine (seq 0 (length l)) l)) = length l.
Proof. rewrite map_length, combine_length, seq_length. lia. Qed.

Lemma nth_error_snoc_old {X} (l : list X) a i x : nth_error l i = Some x -> nth_error (l ++ a) i = Some x.
Proof.
  intros H. rewrite nth_error_app1; [exact H|]. apply nth_error_Some. congruence.
Qed.

Lemma nth_error_snoc_new {X} (l : list X) a : nth_error (l ++ [a]) (length l) = Some a.
Proof. rewrite nth_error_app2 by lia. rewrite Nat.sub_diag. reflexivity. Qed.

Lemma memb_in n l : memb n l = true <-> In n l.
Proof.
  unfold memb. rewrite existsb_exists. split.
  - intros (x & Hx & E). apply Nat.eqb_eq in E. subst. exact Hx.
  - intros H. exists n. split; [exact H|apply Nat.eqb_refl].
Qed.

Lemma memb_false n l : memb n l = false <-> ~ In n l.
Proof.
  rewrite <- memb_in. destruct (memb n l).
  - split; [discriminate|intros H; exfalso; apply H; reflexivity].
  - split; [intros _ X; discriminate|reflexivity].
Qed.

Section TrackP.
Context {A : Type} {SA : Scalar A}.
Notation T := (tensor A).
Notation heap := (@heap A).
Notation node := (@node A).
Notation rule := (@rule A).
Notation hres := (@hres A).

(* ---------- definitions of the statements ---------- *)
Definition extends (h h' : heap) : Prop := exists l, h' = h ++ l.

(* every back edge points at an older tensor *)
Definition wf_heap (h : heap) : Prop :=
  forall i n, nth_error h i = Some n -> Forall (fun e : nat * rule => fst e < i) (nedges n).

(* forward content of a heap *)
Definition erase (h : heap) : list T := map (@nval A) h.

(* A: what a tracked method may do to the heap *)
Definition frame_ok (h : heap) (hr : hres) : Prop :=
  extends h (fst hr) /\
  (forall i n, nth_error h i = Some n -> nth_error (fst hr) i = Some n) /\
  (forall id, snd hr = Ok id -> length h <= id /\ id < length (fst hr) /\ S id = length (fst hr)) /\
  (snd hr = Err \/ snd hr = Panic -> fst hr = h).

(* B: the three-way rule for the context of a result computed from [ops] *)
Definition ctx_rule (h : heap) (ops : list nat) (n : node) : Prop :=
  ntracked n = existsb (trackedOf h) ops && negb (existsb (dirtyOf h) ops) /\
  ndirty n = existsb (dirtyOf h) ops /\
  (ntracked n = false -> nedges n = []) /\
  ngrad n = None.

(* the node [alloc] appends *)
Definition ctxNode (v : T) (ctx : bool * bool * list (nat * rule)) (name : option nat) : node :=
  mkNode v (fst (fst ctx)) (snd (fst ctx)) None (snd ctx) name.

(* ---------- extends ---------- *)
Lemma extends_refl h : extends h h.
Proof. exists []. rewrite app_nil_r. reflexivity. Qed.

Lemma extends_trans h1 h2 h3 : extends h1 h2 -> extends h2 h3 -> extends h1 h3.
Proof. intros [l1 ->] [l2 ->]. exists (l1 ++ l2). rewrite app_assoc. reflexivity. Qed.

Lemma extends_nth h h' : extends h h' -> forall i n, nth_error h i = Some n -> nth_error h' i = Some n.
Proof. intros [l ->] i n H. apply nth_error_snoc_old. exact H. Qed.

Lemma extends_length h h' : extends h h' -> length h <= length h'.
Proof. intros [l ->]. rewrite app_length. lia. Qed.

Lemma extends_iff_nth h h' :
  extends h h' <-> (forall i n, nth_error h i = Some n -> nth_error h' i = Some n).
Proof.
  split; [apply extends_nth|].
  revert h'. induction h as [|a h IH]; intros h' H.
  - exists h'. reflexivity.
  - destruct h' as [|b h']; [specialize (H 0 a eq_refl); discriminate|].
    assert (E : b = a) by (specialize (H 0 a eq_refl); cbn in H; congruence). subst b.
    destruct (IH h') as [l ->].
    + intros i n Hi. apply (H (S i) n Hi).
    + exists l. reflexivity.
Qed.

(* ---------- accessors ---------- *)
Lemma valOf_nth (h : heap) i : valOf h i = option_map (@nval A) (nth_error h i).
Proof. unfold valOf. destruct (nth_error h i); reflexivity. Qed.

Lemma valOf_erase (h : heap) i : valOf h i = nth_error (erase h) i.
Proof. unfold erase. rewrite nth_error_map. apply valOf_nth. Qed.

Lemma valOf_some_lt (h : heap) i v : valOf h i = Some v -> i < length h.
Proof.
  rewrite valOf_nth. intros H. apply nth_error_Some. destruct (nth_error h i); [discriminate|discriminate].
Qed.

Lemma trackedOf_true_lt (h : heap) i : trackedOf h i = true -> i < length h.
Proof.
  unfold trackedOf. intros H. apply nth_error_Some. destruct (nth_error h i); [discriminate|discriminate].
Qed.

Lemma dirtyOf_true_lt (h : heap) i : dirtyOf h i = true -> i < length h.
Proof.
  unfold dirtyOf. intros H. apply nth_error_Some. destruct (nth_error h i); [discriminate|discriminate].
Qed.

Lemma lt_nth_some (h : heap) i : i < length h -> exists n, nth_error h i = Some n.
Proof.
  intros H. destruct (nth_error h i) as [n|] eqn:E; [exists n; reflexivity|].
  apply nth_error_None in E. lia.
Qed.

Lemma trackedOf_app (h l : heap) i : i < length h -> trackedOf (h ++ l) i = trackedOf h i.
Proof. intros H. unfold trackedOf. rewrite nth_error_app1 by exact H. reflexivity. Qed.

Lemma dirtyOf_app (h l : heap) i : i < length h -> dirtyOf (h ++ l) i = dirtyOf h i.
Proof. intros H. unfold dirtyOf. rewrite nth_error_app1 by exact H. reflexivity. Qed.

Lemma valOf_app (h l : heap) i : i < length h -> valOf (h ++ l) i = valOf h i.
Proof. intros H. unfold valOf. rewrite nth_error_app1 by exact H. reflexivity. Qed.

Lemma trackedOf_new (h : heap) n : trackedOf (h ++ [n]) (length h) = ntracked n.
Proof. unfold trackedOf. rewrite nth_error_snoc_new. reflexivity. Qed.

Lemma dirtyOf_new (h : heap) n : dirtyOf (h ++ [n]) (length h) = ndirty n.
Proof. unfold dirtyOf. rewrite nth_error_snoc_new. reflexivity. Qed.

Lemma valOf_new (h : heap) n : valOf (h ++ [n]) (length h) = Some (nval n).
Proof. unfold valOf. rewrite nth_error_snoc_new. reflexivity. Qed.

Lemma erase_length (h : heap) : length (erase h) = length h.
Proof. apply map_length. Qed.

Lemma erase_eq_length (h1 h2 : heap) : erase h1 = erase h2 -> length h1 = length h2.
Proof. intros E. rewrite <- (erase_length h1), <- (erase_length h2), E. reflexivity. Qed.

Lemma valOf_erase_eq (h1 h2 : heap) : erase h1 = erase h2 -> forall i, valOf h1 i = valOf h2 i.
Proof. intros E i. rewrite !valOf_erase, E. reflexivity. Qed.

(* ---------- updNode / markDirty / setGrad ---------- *)
Lemma updNode_nth (h : heap) i f j :
  nth_error (updNode h i f) j = option_map (fun n => if j =? i then f n else n) (nth_error h j).
Proof. unfold updNode. rewrite mapi_nth. reflexivity. Qed.

Lemma updNode_length (h : heap) i f : length (updNode h i f) = length h.
Proof. unfold updNode. apply mapi_length. Qed.

Lemma updNode_nth_other (h : heap) i f j : j <> i -> nth_error (updNode h i f) j = nth_error h j.
Proof.
  intros H. rewrite updNode_nth. apply Nat.eqb_neq in H. rewrite H. destruct (nth_error h j); reflexivity.
Qed.

Lemma updNode_nth_same (h : heap) i f : nth_error (updNode h i f) i = option_map f (nth_error h i).
Proof. rewrite updNode_nth, Nat.eqb_refl. reflexivity. Qed.

Definition dirtied (n : node) : node := mkNode (nval n) (ntracked n) true (ngrad n) (nedges n) (nname n).

Lemma markDirty_nth (h : heap) l j :
  nth_error (markDirty h l) j = option_map (fun n => if memb j l then dirtied n else n) (nth_error h j).
Proof. unfold markDirty. rewrite mapi_nth. reflexivity. Qed.

Lemma markDirty_length (h : heap) l : length (markDirty h l) = length h.
Proof. unfold markDirty. apply mapi_length. Qed.

Definition withGrad (g : option T) (n : node) : node :=
  mkNode (nval n) (ntracked n) (ndirty n) g (nedges n) (nname n).

Lemma setGrad_nth (h : heap) i g j :
  nth_error (setGrad h i g) j = option_map (fun n => if j =? i then withGrad g n else n) (nth_error h j).
Proof. unfold setGrad. rewrite updNode_nth. reflexivity. Qed.

Lemma setGrad_length (h : heap) i g : length (setGrad h i g) = length h.
Proof. apply updNode_length. Qed.

(* ---------- alloc / mkCtx ---------- *)
Lemma alloc_eq (h : heap) v ctx name : alloc h v ctx name = (h ++ [ctxNode v ctx name], length h).
Proof. destruct ctx as [[tr di] es]. reflexivity. Qed.

Lemma leaf_eq (h : heap) v tracked name :
  leaf h v tracked name = (h ++ [mkNode v tracked false None [] name], length h).
Proof. reflexivity. Qed.

Lemma ctxNode_val v ctx name : nval (ctxNode v ctx name) = v.
Proof. reflexivity. Qed.

Lemma mkCtx_cases (h : heap) ops es :
  (existsb (dirtyOf h) ops = true /\ mkCtx h ops es = (false, true, [])) \/
  (existsb (dirtyOf h) ops = false /\ existsb (trackedOf h) ops = false /\ mkCtx h ops es = (false, false, [])) \/
  (existsb (dirtyOf h) ops = false /\ existsb (trackedOf h) ops = true /\ mkCtx h ops es = (true, false, es)).
Proof.
  unfold mkCtx. destruct (existsb (dirtyOf h) ops); [left; auto|].
  destruct (existsb (trackedOf h) ops); cbn; [right; right; auto|right; left; auto].
Qed.

Lemma ctxNode_rule (h : heap) ops es v name : ctx_rule h ops (ctxNode v (mkCtx h ops es) name).
Proof.
  unfold ctx_rule.
  destruct (mkCtx_cases h ops es) as [(Ed & E)|[(Ed & Et & E)|(Ed & Et & E)]]; rewrite E; cbn [ctxNode ntracked ndirty nedges ngrad fst snd].
  - rewrite Ed. rewrite andb_false_r. repeat split; reflexivity.
  - rewrite Ed, Et. repeat split; reflexivity.
  - rewrite Ed, Et. repeat split; try reflexivity. intros X; discriminate.
Qed.

Lemma ctxNode_edges_tracked (h : heap) ops es v name :
  ntracked (ctxNode v (mkCtx h ops es) name) = true -> nedges (ctxNode v (mkCtx h ops es) name) = es.
Proof.
  destruct (mkCtx_cases h ops es) as [(Ed & E)|[(Ed & Et & E)|(Ed & Et & E)]]; rewrite E; cbn; intros H;
    try discriminate; reflexivity.
Qed.

Lemma ctxNode_edges_incl (h : heap) ops es v name e :
  In e (nedges (ctxNode v (mkCtx h ops es) name)) -> In e es.
Proof.
  destruct (mkCtx_cases h ops es) as [(Ed & E)|[(Ed & Et & E)|(Ed & Et & E)]]; rewrite E; cbn; intros H;
    try contradiction; exact H.
Qed.

Lemma ctxNode_edges_Forall (P : nat * rule -> Prop) (h : heap) ops es v name :
  Forall P es -> Forall P (nedges (ctxNode v (mkCtx h ops es) name)).
Proof.
  intros H. apply Forall_forall. intros e He. apply ctxNode_edges_incl in He.
  rewrite Forall_forall in H. apply H. exact He.
Qed.

(* ---------- wf_heap of appended nodes ---------- *)
Lemma wf_heap_snoc (h : heap) n :
  wf_heap h -> Forall (fun e : nat * rule => fst e < length h) (nedges n) -> wf_heap (h ++ [n]).
Proof.
  intros W Hn i m Hi.
  destruct (Nat.lt_ge_cases i (length h)) as [Hlt|Hge].
  - rewrite nth_error_app1 in Hi by exact Hlt. eapply W; eauto.
  - assert (i = length h).
    { assert (i < length (h ++ [n])) by (apply nth_error_Some; congruence).
      rewrite app_length in H. cbn in H. lia. }
    subst i. rewrite nth_error_snoc_new in Hi. inversion Hi; subst m. exact Hn.
Qed.

Lemma wf_heap_nil : wf_heap [].
Proof. intros i n H. destruct i; discriminate. Qed.

(* ================================================================== *)
(*  Inversion lemmas: the exact shape of every method's outcome        *)
(* ================================================================== *)

Lemma h_op1_inv (h : heap) x f mk name h' r : h_op1 h x f mk name = (h', r) ->
  match r with
  | Ok id => exists xv v, valOf h x = Some xv /\ f xv = Ok v /\ id = length h /\
               h' = h ++ [ctxNode v (mkCtx h [x] [(x, mk (length h))]) name]
  | _ => h' = h
  end.
Proof.
  unfold h_op1. destruct (valOf h x) as [xv|] eqn:Ex.
  - destruct (f xv) as [v| |] eqn:Ef.
    + rewrite alloc_eq. intros E. inversion E; subst. exists xv, v. auto.
    + intros E. inversion E; reflexivity.
    + intros E. inversion E; reflexivity.
  - intros E. inversion E; reflexivity.
Qed.

Lemma h_cmp_inv (h : heap) b x u name h' r : h_cmp h b x u name = (h', r) ->
  match r with
  | Ok id => exists xv uv v, valOf h x = Some xv /\ valOf h u = Some uv /\ v_same b xv uv = Ok v /\ id = length h /\
               h' = h ++ [mkNode v false false None [] name]
  | _ => h' = h
  end.
Proof.
  unfold h_cmp. destruct (valOf h x) as [xv|] eqn:Ex; [destruct (valOf h u) as [uv|] eqn:Eu|].
  - destruct (v_same b xv uv) as [v| |] eqn:Ef.
    + rewrite alloc_eq. intros E. inversion E; subst. exists xv, uv, v. auto.
    + intros E. inversion E; reflexivity.
    + intros E. inversion E; reflexivity.
  - intros E. inversion E; reflexivity.
  - intros E. inversion E; reflexivity.
Qed.

Lemma h_elsel_inv (h : heap) b x u name h' r : h_elsel h b x u name = (h', r) ->
  match r with
  | Ok id => exists xv uv v, valOf h x = Some xv /\ valOf h u = Some uv /\ v_same b xv uv = Ok v /\ id = length h /\
               h' = h ++ [ctxNode v (mkCtx h [x; u] [(x, RElSel (length h) x u); (u, RElSel (length h) u x)]) name]
  | _ => h' = h
  end.
Proof.
  unfold h_elsel. destruct (valOf h x) as [xv|] eqn:Ex; [destruct (valOf h u) as [uv|] eqn:Eu|].
  - destruct (v_same b xv uv) as [v| |] eqn:Ef.
    + rewrite alloc_eq. intros E. inversion E; subst. exists xv, uv, v. auto.
    + intros E. inversion E; reflexivity.
    + intros E. inversion E; reflexivity.
  - intros E. inversion E; reflexivity.
  - intros E. inversion E; reflexivity.
Qed.

Lemma h_patch_inv (h : heap) x index p name h' r : h_patch h x index p name = (h', r) ->
  match r with
  | Ok id => exists xv pv v, valOf h x = Some xv /\ valOf h p = Some pv /\ v_patch xv index pv = Ok v /\ id = length h /\
               h' = h ++ [ctxNode v (mkCtx h [x; p] [(x, RPatchX (length h) p index); (p, RPatchP (length h) p index)]) name]
  | _ => h' = h
  end.
Proof.
  unfold h_patch. destruct (valOf h x) as [xv|] eqn:Ex; [destruct (valOf h p) as [pv|] eqn:Eu|].
  - destruct (v_patch xv index pv) as [v| |] eqn:Ef.
    + rewrite alloc_eq. intros E. inversion E; subst. exists xv, pv, v. auto.
    + intros E. inversion E; reflexivity.
    + intros E. inversion E; reflexivity.
  - intros E. inversion E; reflexivity.
  - intros E. inversion E; reflexivity.
Qed.

Lemma h_concat_inv (h : heap) xs dim name h' r : h_concat h xs dim name = (h', r) ->
  match r with
  | Ok id => exists vs v, mapM (valOf h) xs = Some vs /\ v_concat vs dim = Ok v /\ id = length h /\
               h' = h ++ [ctxNode v (mkCtx h xs (concatEdges (length h) (Z.to_nat dim) (combine xs vs) 0%Z)) name]
  | _ => h' = h
  end.
Proof.
  unfold h_concat. destruct (mapM (valOf h) xs) as [vs|] eqn:Ex.
  - destruct (v_concat vs dim) as [v| |] eqn:Ef.
    + rewrite alloc_eq. intros E. inversion E; subst. exists vs, v. auto.
    + intros E. inversion E; reflexivity.
    + intros E. inversion E; reflexivity.
  - intros E. inversion E; reflexivity.
Qed.

(* the two internal Broadcast nodes of a binary operator *)
Definition bnode1 (h : heap) (x : nat) (v1 : T) : node :=
  ctxNode v1 (mkCtx h [x] [(x, RBroadcast (length h) x)]) None.
Definition bnode2 (h : heap) (x u : nat) (v1 v2 : T) : node :=
  ctxNode v2 (mkCtx (h ++ [bnode1 h x v1]) [u] [(u, RBroadcast (S (length h)) u)]) None.

Lemma h_bcast2_inv (h : heap) x u s1 s2 h2 r : h_bcast2 h x u s1 s2 = (h2, r) ->
  match r with
  | Ok (b1, b2) => exists xv uv v1 v2,
      valOf h x = Some xv /\ v_broadcast xv s1 = Ok v1 /\
      valOf (h ++ [bnode1 h x v1]) u = Some uv /\ v_broadcast uv s2 = Ok v2 /\
      b1 = length h /\ b2 = S (length h) /\
      h2 = h ++ [bnode1 h x v1] ++ [bnode2 h x u v1 v2]
  | _ => h2 = h
  end.
Proof.
  unfold h_bcast2, h_broadcast.
  destruct (h_op1 h x (fun v => v_broadcast v s1) (fun y => RBroadcast y x) None) as [h1 r1] eqn:E1.
  apply h_op1_inv in E1. destruct r1 as [b1| |].
  - destruct E1 as (xv & v1 & Hx & Hv1 & -> & ->).
    destruct (h_op1 _ u (fun v => v_broadcast v s2) (fun y => RBroadcast y u) None) as [h2' r2] eqn:E2.
    apply h_op1_inv in E2. destruct r2 as [b2| |].
    + destruct E2 as (uv & v2 & Hu & Hv2 & -> & ->). intros E. inversion E; subst.
      exists xv, uv, v1, v2. repeat split; auto.
      * rewrite app_length. cbn. lia.
      * unfold bnode2, bnode1. rewrite app_length. cbn [length]. rewrite Nat.add_1_r.
        rewrite <- app_assoc. reflexivity.
    + intros E. inversion E; reflexivity.
    + intros E. inversion E; reflexivity.
  - intros E. inversion E; reflexivity.
  - intros E. inversion E; reflexivity.
Qed.

Definition rnode (h : heap) (x u : nat) (v1 v2 v : T) (edges : nat -> nat -> nat -> list (nat * rule)) name : node :=
  let h2 := h ++ [bnode1 h x v1] ++ [bnode2 h x u v1 v2] in
  ctxNode v (mkCtx h2 [length h; S (length h)] (edges (S (S (length h))) (length h) (S (length h)))) name.

Lemma h_binop_inv (h : heap) x u s1 s2 f edges name h3 r : h_binop h x u s1 s2 f edges name = (h3, r) ->
  match r with
  | Ok id => exists xv uv v1 v2 v,
      valOf h x = Some xv /\ v_broadcast xv s1 = Ok v1 /\
      valOf (h ++ [bnode1 h x v1]) u = Some uv /\ v_broadcast uv s2 = Ok v2 /\
      f v1 v2 = Some v /\ id = S (S (length h)) /\
      h3 = h ++ [bnode1 h x v1; bnode2 h x u v1 v2; rnode h x u v1 v2 v edges name]
  | _ => h3 = h
  end.
Proof.
  unfold h_binop. destruct (h_bcast2 h x u s1 s2) as [h2 r2] eqn:E2.
  apply h_bcast2_inv in E2. destruct r2 as [[b1 b2]| |].
  - destruct E2 as (xv & uv & v1 & v2 & Hx & Hv1 & Hu & Hv2 & -> & -> & ->).
    assert (L2 : length (h ++ [bnode1 h x v1] ++ [bnode2 h x u v1 v2]) = S (S (length h))).
    { rewrite !app_length. cbn. lia. }
    assert (V1 : valOf (h ++ [bnode1 h x v1] ++ [bnode2 h x u v1 v2]) (length h) = Some v1).
    { rewrite app_assoc. rewrite valOf_app by (rewrite app_length; cbn; lia). rewrite valOf_new. reflexivity. }
    assert (V2 : valOf (h ++ [bnode1 h x v1] ++ [bnode2 h x u v1 v2]) (S (length h)) = Some v2).
    { rewrite app_assoc. replace (S (length h)) with (length (h ++ [bnode1 h x v1])) by (rewrite app_length; cbn; lia).
      rewrite valOf_new. reflexivity. }
    rewrite V1, V2. destruct (f v1 v2) as [v|] eqn:Ef.
    + rewrite alloc_eq. rewrite L2. intros E. inversion E; subst.
      exists xv, uv, v1, v2, v. repeat split; auto.
      unfold rnode. rewrite <- !app_assoc. reflexivity.
    + intros E. inversion E; reflexivity.
  - intros E. inversion E; reflexivity.
  - intros E. inversion E; reflexivity.
Qed.

End TrackP.
