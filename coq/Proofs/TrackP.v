(* TrackP.v — gradient-tracking bookkeeping of the tracked public methods (C08/C10):
   A. allocation / frame,  B. the tracking rule,  C. forward values ignore tracking,
   D. ResetGradContext.   (E, F — back-propagation flags — are in DfsP.v / BpFlagsP.v.) *)
From Coq Require Import List Arith ZArith Bool Lia.
From Qeep Require Import Model.Scalar Model.Nd Model.Fill Model.Data Model.Valid Model.Api Model.Grad Model.Backprop.
From Qeep Require Import Proofs.NdP.
Import ListNotations.

(* ---------- generic list facts ---------- *)
Lemma combine_seq_nth {X} (l : list X) : forall s j,
  nth_error (combine (seq s (length l)) l) j = option_map (fun x => (s + j, x)) (nth_error l j).
Proof.
  induction l as [|a l IH]; intros s j; cbn.
  - destruct j; reflexivity.
  - destruct j as [|j]; cbn.
    + rewrite Nat.add_0_r. reflexivity.
    + rewrite IH. rewrite Nat.add_succ_r. reflexivity.
Qed.

Lemma mapi_nth {X Y} (F : nat * X -> Y) (l : list X) j :
  nth_error (map F (combine (seq 0 (length l)) l)) j = option_map (fun x => F (j, x)) (nth_error l j).
Proof. rewrite nth_error_map, combine_seq_nth. destruct (nth_error l j); reflexivity. Qed.

Lemma mapi_length {X Y} (F : nat * X -> Y) (l : list X) :
  length (map F (combine (seq 0 (length l)) l)) = length l.
Proof. rewrite map_length, combine_length, seq_length. lia. Qed.

Lemma nth_error_snoc_old {X} (l : list X) a i x : nth_error l i = Some x -> nth_error (l ++ a) i = Some x.
Proof.
  intros H. rewrite nth_error_app1; [exact H|]. apply nth_error_Some. congruence.
Qed.

Lemma nth_error_snoc_new {X} (l : list X) a : nth_error (l ++ [a]) (length l) = Some a.
Proof. rewrite nth_error_app2 by lia. rewrite Nat.sub_diag. reflexivity. Qed.

Lemma memb_in n l : memb n l = true <-> In n l.
Proof.
  unfold memb. rewrite existsb_exists. split.
  - intros (x & Hx & E). apply Nat.eqb_eq in E. subst. exact Hx.
  - intros H. exists n. split; [exact H|apply Nat.eqb_refl].
Qed.

Lemma memb_false n l : memb n l = false <-> ~ In n l.
Proof.
  rewrite <- memb_in. destruct (memb n l).
  - split; [discriminate|intros H; exfalso; apply H; reflexivity].
  - split; [intros _ X; discriminate|reflexivity].
Qed.

Section TrackP.
Context {A : Type} {SA : Scalar A}.
Notation T := (tensor A).
Notation heap := (@heap A).
Notation node := (@node A).
Notation rule := (@rule A).
Notation hres := (@hres A).

(* ---------- definitions of the statements ---------- *)
Definition extends (h h' : heap) : Prop := exists l, h' = h ++ l.

(* every back edge points at an older tensor *)
Definition wf_heap (h : heap) : Prop :=
  forall i n, nth_error h i = Some n -> Forall (fun e : nat * rule => fst e < i) (nedges n).

(* forward content of a heap *)
Definition erase (h : heap) : list T := map (@nval A) h.

(* A: what a tracked method may do to the heap *)
Definition frame_ok (h : heap) (hr : hres) : Prop :=
  extends h (fst hr) /\
  (forall i n, nth_error h i = Some n -> nth_error (fst hr) i = Some n) /\
  (forall id, snd hr = Ok id -> length h <= id /\ id < length (fst hr) /\ S id = length (fst hr)) /\
  (snd hr = Err \/ snd hr = Panic -> fst hr = h).

(* B: the three-way rule for the context of a result computed from [ops] *)
Definition ctx_rule (h : heap) (ops : list nat) (n : node) : Prop :=
  ntracked n = existsb (trackedOf h) ops && negb (existsb (dirtyOf h) ops) /\
  ndirty n = existsb (dirtyOf h) ops /\
  (ntracked n = false -> nedges n = []) /\
  ngrad n = None.

(* the node [alloc] appends *)
Definition ctxNode (v : T) (ctx : bool * bool * list (nat * rule)) (name : option nat) : node :=
  mkNode v (fst (fst ctx)) (snd (fst ctx)) None (snd ctx) name.

(* ---------- extends ---------- *)
Lemma extends_refl h : extends h h.
Proof. exists []. rewrite app_nil_r. reflexivity. Qed.

Lemma extends_trans h1 h2 h3 : extends h1 h2 -> extends h2 h3 -> extends h1 h3.
Proof. intros [l1 ->] [l2 ->]. exists (l1 ++ l2). rewrite app_assoc. reflexivity. Qed.

Lemma extends_nth h h' : extends h h' -> forall i n, nth_error h i = Some n -> nth_error h' i = Some n.
Proof. intros [l ->] i n H. apply nth_error_snoc_old. exact H. Qed.

Lemma extends_length h h' : extends h h' -> length h <= length h'.
Proof. intros [l ->]. rewrite app_length. lia. Qed.

Lemma extends_iff_nth h h' :
  extends h h' <-> (forall i n, nth_error h i = Some n -> nth_error h' i = Some n).
Proof.
  split; [apply extends_nth|].
  revert h'. induction h as [|a h IH]; intros h' H.
  - exists h'. reflexivity.
  - destruct h' as [|b h']; [specialize (H 0 a eq_refl); discriminate|].
    assert (E : b = a) by (specialize (H 0 a eq_refl); cbn in H; congruence). subst b.
    destruct (IH h') as [l ->].
    + intros i n Hi. apply (H (S i) n Hi).
    + exists l. reflexivity.
Qed.

(* ---------- accessors ---------- *)
Lemma valOf_nth (h : heap) i : valOf h i = option_map (@nval A) (nth_error h i).
Proof. unfold valOf. destruct (nth_error h i); reflexivity. Qed.

Lemma valOf_erase (h : heap) i : valOf h i = nth_error (erase h) i.
Proof. unfold erase. rewrite nth_error_map. apply valOf_nth. Qed.

Lemma valOf_some_lt (h : heap) i v : valOf h i = Some v -> i < length h.
Proof.
  rewrite valOf_nth. intros H. apply nth_error_Some. destruct (nth_error h i); [discriminate|discriminate].
Qed.

Lemma trackedOf_true_lt (h : heap) i : trackedOf h i = true -> i < length h.
Proof.
  unfold trackedOf. intros H. apply nth_error_Some. destruct (nth_error h i); [discriminate|discriminate].
Qed.

Lemma dirtyOf_true_lt (h : heap) i : dirtyOf h i = true -> i < length h.
Proof.
  unfold dirtyOf. intros H. apply nth_error_Some. destruct (nth_error h i); [discriminate|discriminate].
Qed.

Lemma lt_nth_some (h : heap) i : i < length h -> exists n, nth_error h i = Some n.
Proof.
  intros H. destruct (nth_error h i) as [n|] eqn:E; [exists n; reflexivity|].
  apply nth_error_None in E. lia.
Qed.

Lemma trackedOf_app (h l : heap) i : i < length h -> trackedOf (h ++ l) i = trackedOf h i.
Proof. intros H. unfold trackedOf. rewrite nth_error_app1 by exact H. reflexivity. Qed.

Lemma dirtyOf_app (h l : heap) i : i < length h -> dirtyOf (h ++ l) i = dirtyOf h i.
Proof. intros H. unfold dirtyOf. rewrite nth_error_app1 by exact H. reflexivity. Qed.

Lemma valOf_app (h l : heap) i : i < length h -> valOf (h ++ l) i = valOf h i.
Proof. intros H. unfold valOf. rewrite nth_error_app1 by exact H. reflexivity. Qed.

Lemma trackedOf_new (h : heap) n : trackedOf (h ++ [n]) (length h) = ntracked n.
Proof. unfold trackedOf. rewrite nth_error_snoc_new. reflexivity. Qed.

Lemma dirtyOf_new (h : heap) n : dirtyOf (h ++ [n]) (length h) = ndirty n.
Proof. unfold dirtyOf. rewrite nth_error_snoc_new. reflexivity. Qed.

Lemma valOf_new (h : heap) n : valOf (h ++ [n]) (length h) = Some (nval n).
Proof. unfold valOf. rewrite nth_error_snoc_new. reflexivity. Qed.

Lemma erase_length (h : heap) : length (erase h) = length h.
Proof. apply map_length. Qed.

Lemma erase_eq_length (h1 h2 : heap) : erase h1 = erase h2 -> length h1 = length h2.
Proof. intros E. rewrite <- (erase_length h1), <- (erase_length h2), E. reflexivity. Qed.

Lemma valOf_erase_eq (h1 h2 : heap) : erase h1 = erase h2 -> forall i, valOf h1 i = valOf h2 i.
Proof. intros E i. rewrite !valOf_erase, E. reflexivity. Qed.

(* ---------- updNode / markDirty / setGrad ---------- *)
Lemma updNode_nth (h : heap) i f j :
  nth_error (updNode h i f) j = option_map (fun n => if j =? i then f n else n) (nth_error h j).
Proof. unfold updNode. rewrite mapi_nth. reflexivity. Qed.

Lemma updNode_length (h : heap) i f : length (updNode h i f) = length h.
Proof. unfold updNode. apply mapi_length. Qed.

Lemma updNode_nth_other (h : heap) i f j : j <> i -> nth_error (updNode h i f) j = nth_error h j.
Proof.
  intros H. rewrite updNode_nth. apply Nat.eqb_neq in H. rewrite H. destruct (nth_error h j); reflexivity.
Qed.

Lemma updNode_nth_same (h : heap) i f : nth_error (updNode h i f) i = option_map f (nth_error h i).
Proof. rewrite updNode_nth, Nat.eqb_refl. reflexivity. Qed.

Definition dirtied (n : node) : node := mkNode (nval n) (ntracked n) true (ngrad n) (nedges n) (nname n).

Lemma markDirty_nth (h : heap) l j :
  nth_error (markDirty h l) j = option_map (fun n => if memb j l then dirtied n else n) (nth_error h j).
Proof. unfold markDirty. rewrite mapi_nth. reflexivity. Qed.

Lemma markDirty_length (h : heap) l : length (markDirty h l) = length h.
Proof. unfold markDirty. apply mapi_length. Qed.

Definition withGrad (g : option T) (n : node) : node :=
  mkNode (nval n) (ntracked n) (ndirty n) g (nedges n) (nname n).

Lemma setGrad_nth (h : heap) i g j :
  nth_error (setGrad h i g) j = option_map (fun n => if j =? i then withGrad g n else n) (nth_error h j).
Proof. unfold setGrad. rewrite updNode_nth. reflexivity. Qed.

Lemma setGrad_length (h : heap) i g : length (setGrad h i g) = length h.
Proof. apply updNode_length. Qed.

(* ---------- alloc / mkCtx ---------- *)
Lemma alloc_eq (h : heap) v ctx name : alloc h v ctx name = (h ++ [ctxNode v ctx name], length h).
Proof. destruct ctx as [[tr di] es]. reflexivity. Qed.

Lemma leaf_eq (h : heap) v tracked name :
  leaf h v tracked name = (h ++ [mkNode v tracked false None [] name], length h).
Proof. reflexivity. Qed.

Lemma ctxNode_val v ctx name : nval (ctxNode v ctx name) = v.
Proof. reflexivity. Qed.

Lemma mkCtx_cases (h : heap) ops es :
  (existsb (dirtyOf h) ops = true /\ mkCtx h ops es = (false, true, [])) \/
  (existsb (dirtyOf h) ops = false /\ existsb (trackedOf h) ops = false /\ mkCtx h ops es = (false, false, [])) \/
  (existsb (dirtyOf h) ops = false /\ existsb (trackedOf h) ops = true /\ mkCtx h ops es = (true, false, es)).
Proof.
  unfold mkCtx. destruct (existsb (dirtyOf h) ops); [left; auto|].
  destruct (existsb (trackedOf h) ops); cbn; [right; right; auto|right; left; auto].
Qed.

Lemma ctxNode_rule (h : heap) ops es v name : ctx_rule h ops (ctxNode v (mkCtx h ops es) name).
Proof.
  unfold ctx_rule.
  destruct (mkCtx_cases h ops es) as [(Ed & E)|[(Ed & Et & E)|(Ed & Et & E)]]; rewrite E; cbn [ctxNode ntracked ndirty nedges ngrad fst snd].
  - rewrite Ed. rewrite andb_false_r. repeat split; reflexivity.
  - rewrite Ed, Et. repeat split; reflexivity.
  - rewrite Ed, Et. repeat split; try reflexivity. intros X; discriminate.
Qed.

Lemma ctxNode_edges_tracked (h : heap) ops es v name :
  ntracked (ctxNode v (mkCtx h ops es) name) = true -> nedges (ctxNode v (mkCtx h ops es) name) = es.
Proof.
  destruct (mkCtx_cases h ops es) as [(Ed & E)|[(Ed & Et & E)|(Ed & Et & E)]]; rewrite E; cbn; intros H;
    try discriminate; reflexivity.
Qed.

Lemma ctxNode_edges_incl (h : heap) ops es v name e :
  In e (nedges (ctxNode v (mkCtx h ops es) name)) -> In e es.
Proof.
  destruct (mkCtx_cases h ops es) as [(Ed & E)|[(Ed & Et & E)|(Ed & Et & E)]]; rewrite E; cbn; intros H;
    try contradiction; exact H.
Qed.

Lemma ctxNode_edges_Forall (P : nat * rule -> Prop) (h : heap) ops es v name :
  Forall P es -> Forall P (nedges (ctxNode v (mkCtx h ops es) name)).
Proof.
  intros H. apply Forall_forall. intros e He. apply ctxNode_edges_incl in He.
  rewrite Forall_forall in H. apply H. exact He.
Qed.

(* ---------- wf_heap of appended nodes ---------- *)
Lemma wf_heap_snoc (h : heap) n :
  wf_heap h -> Forall (fun e : nat * rule => fst e < length h) (nedges n) -> wf_heap (h ++ [n]).
Proof.
  intros W Hn i m Hi.
  destruct (Nat.lt_ge_cases i (length h)) as [Hlt|Hge].
  - rewrite nth_error_app1 in Hi by exact Hlt. eapply W; eauto.
  - assert (i = length h).
    { assert (i < length (h ++ [n])) by (apply nth_error_Some; congruence).
      rewrite app_length in H. cbn in H. lia. }
    subst i. rewrite nth_error_snoc_new in Hi. inversion Hi; subst m. exact Hn.
Qed.

Lemma wf_heap_nil : wf_heap [].
Proof. intros i n H. destruct i; discriminate. Qed.

(* ================================================================== *)
(*  Inversion lemmas: the exact shape of every method's outcome        *)
(* ================================================================== *)

Lemma h_op1_inv (h : heap) x f mk name h' r : h_op1 h x f mk name = (h', r) ->
  match r with
  | Ok id => exists xv v, valOf h x = Some xv /\ f xv = Ok v /\ id = length h /\
               h' = h ++ [ctxNode v (mkCtx h [x] [(x, mk (length h))]) name]
  | _ => h' = h
  end.
Proof.
  unfold h_op1. destruct (valOf h x) as [xv|] eqn:Ex.
  - destruct (f xv) as [v| |] eqn:Ef.
    + rewrite alloc_eq. intros E. inversion E; subst. exists xv, v. auto.
    + intros E. inversion E; reflexivity.
    + intros E. inversion E; reflexivity.
  - intros E. inversion E; reflexivity.
Qed.

Lemma h_cmp_inv (h : heap) b x u name h' r : h_cmp h b x u name = (h', r) ->
  match r with
  | Ok id => exists xv uv v, valOf h x = Some xv /\ valOf h u = Some uv /\ v_same b xv uv = Ok v /\ id = length h /\
               h' = h ++ [mkNode v false false None [] name]
  | _ => h' = h
  end.
Proof.
  unfold h_cmp. destruct (valOf h x) as [xv|] eqn:Ex; [destruct (valOf h u) as [uv|] eqn:Eu|].
  - destruct (v_same b xv uv) as [v| |] eqn:Ef.
    + rewrite alloc_eq. intros E. inversion E; subst. exists xv, uv, v. auto.
    + intros E. inversion E; reflexivity.
    + intros E. inversion E; reflexivity.
  - intros E. inversion E; reflexivity.
  - intros E. inversion E; reflexivity.
Qed.

Lemma h_elsel_inv (h : heap) b x u name h' r : h_elsel h b x u name = (h', r) ->
  match r with
  | Ok id => exists xv uv v, valOf h x = Some xv /\ valOf h u = Some uv /\ v_same b xv uv = Ok v /\ id = length h /\
               h' = h ++ [ctxNode v (mkCtx h [x; u] [(x, RElSel (length h) x u); (u, RElSel (length h) u x)]) name]
  | _ => h' = h
  end.
Proof.
  unfold h_elsel. destruct (valOf h x) as [xv|] eqn:Ex; [destruct (valOf h u) as [uv|] eqn:Eu|].
  - destruct (v_same b xv uv) as [v| |] eqn:Ef.
    + rewrite alloc_eq. intros E. inversion E; subst. exists xv, uv, v. auto.
    + intros E. inversion E; reflexivity.
    + intros E. inversion E; reflexivity.
  - intros E. inversion E; reflexivity.
  - intros E. inversion E; reflexivity.
Qed.

Lemma h_patch_inv (h : heap) x index p name h' r : h_patch h x index p name = (h', r) ->
  match r with
  | Ok id => exists xv pv v, valOf h x = Some xv /\ valOf h p = Some pv /\ v_patch xv index pv = Ok v /\ id = length h /\
               h' = h ++ [ctxNode v (mkCtx h [x; p] [(x, RPatchX (length h) p index); (p, RPatchP (length h) p index)]) name]
  | _ => h' = h
  end.
Proof.
  unfold h_patch. destruct (valOf h x) as [xv|] eqn:Ex; [destruct (valOf h p) as [pv|] eqn:Eu|].
  - destruct (v_patch xv index pv) as [v| |] eqn:Ef.
    + rewrite alloc_eq. intros E. inversion E; subst. exists xv, pv, v. auto.
    + intros E. inversion E; reflexivity.
    + intros E. inversion E; reflexivity.
  - intros E. inversion E; reflexivity.
  - intros E. inversion E; reflexivity.
Qed.

Lemma h_concat_inv (h : heap) xs dim name h' r : h_concat h xs dim name = (h', r) ->
  match r with
  | Ok id => exists vs v, mapM (valOf h) xs = Some vs /\ v_concat vs dim = Ok v /\ id = length h /\
               h' = h ++ [ctxNode v (mkCtx h xs (concatEdges (length h) (Z.to_nat dim) (combine xs vs) 0%Z)) name]
  | _ => h' = h
  end.
Proof.
  unfold h_concat. destruct (mapM (valOf h) xs) as [vs|] eqn:Ex.
  - destruct (v_concat vs dim) as [v| |] eqn:Ef.
    + rewrite alloc_eq. intros E. inversion E; subst. exists vs, v. auto.
    + intros E. inversion E; reflexivity.
    + intros E. inversion E; reflexivity.
  - intros E. inversion E; reflexivity.
Qed.

(* the two internal Broadcast nodes of a binary operator *)
Definition bnode1 (h : heap) (x : nat) (v1 : T) : node :=
  ctxNode v1 (mkCtx h [x] [(x, RBroadcast (length h) x)]) None.
Definition bnode2 (h : heap) (x u : nat) (v1 v2 : T) : node :=
  ctxNode v2 (mkCtx (h ++ [bnode1 h x v1]) [u] [(u, RBroadcast (S (length h)) u)]) None.

Lemma h_bcast2_inv (h : heap) x u s1 s2 h2 r : h_bcast2 h x u s1 s2 = (h2, r) ->
  match r with
  | Ok (b1, b2) => exists xv uv v1 v2,
      valOf h x = Some xv /\ v_broadcast xv s1 = Ok v1 /\
      valOf (h ++ [bnode1 h x v1]) u = Some uv /\ v_broadcast uv s2 = Ok v2 /\
      b1 = length h /\ b2 = S (length h) /\
      h2 = h ++ [bnode1 h x v1] ++ [bnode2 h x u v1 v2]
  | _ => h2 = h
  end.
Proof.
  unfold h_bcast2, h_broadcast.
  destruct (h_op1 h x (fun v => v_broadcast v s1) (fun y => RBroadcast y x) None) as [h1 r1] eqn:E1.
  apply h_op1_inv in E1. destruct r1 as [b1| |].
  - destruct E1 as (xv & v1 & Hx & Hv1 & -> & ->).
    destruct (h_op1 _ u (fun v => v_broadcast v s2) (fun y => RBroadcast y u) None) as [h2' r2] eqn:E2.
    apply h_op1_inv in E2. destruct r2 as [b2| |].
    + destruct E2 as (uv & v2 & Hu & Hv2 & -> & ->). intros E. inversion E; subst.
      exists xv, uv, v1, v2. repeat split; auto.
      * rewrite app_length. cbn. lia.
      * unfold bnode2, bnode1. rewrite app_length. cbn [length]. rewrite Nat.add_1_r.
        rewrite <- app_assoc. reflexivity.
    + intros E. inversion E; reflexivity.
    + intros E. inversion E; reflexivity.
  - intros E. inversion E; reflexivity.
  - intros E. inversion E; reflexivity.
Qed.

Definition rnode (h : heap) (x u : nat) (v1 v2 v : T) (edges : nat -> nat -> nat -> list (nat * rule)) name : node :=
  let h2 := h ++ [bnode1 h x v1] ++ [bnode2 h x u v1 v2] in
  ctxNode v (mkCtx h2 [length h; S (length h)] (edges (S (S (length h))) (length h) (S (length h)))) name.

Lemma h_binop_inv (h : heap) x u s1 s2 f edges name h3 r : h_binop h x u s1 s2 f edges name = (h3, r) ->
  match r with
  | Ok id => exists xv uv v1 v2 v,
      valOf h x = Some xv /\ v_broadcast xv s1 = Ok v1 /\
      valOf (h ++ [bnode1 h x v1]) u = Some uv /\ v_broadcast uv s2 = Ok v2 /\
      f v1 v2 = Some v /\ id = S (S (length h)) /\
      h3 = h ++ [bnode1 h x v1; bnode2 h x u v1 v2; rnode h x u v1 v2 v edges name]
  | _ => h3 = h
  end.
Proof.
  unfold h_binop. destruct (h_bcast2 h x u s1 s2) as [h2 r2] eqn:E2.
  apply h_bcast2_inv in E2. destruct r2 as [[b1 b2]| |].
  - destruct E2 as (xv & uv & v1 & v2 & Hx & Hv1 & Hu & Hv2 & -> & -> & ->).
    assert (L2 : length (h ++ [bnode1 h x v1] ++ [bnode2 h x u v1 v2]) = S (S (length h))).
    { rewrite !app_length. cbn. lia. }
    assert (V1 : valOf (h ++ [bnode1 h x v1] ++ [bnode2 h x u v1 v2]) (length h) = Some v1).
    { rewrite app_assoc. rewrite valOf_app by (rewrite app_length; cbn; lia). rewrite valOf_new. reflexivity. }
    assert (V2 : valOf (h ++ [bnode1 h x v1] ++ [bnode2 h x u v1 v2]) (S (length h)) = Some v2).
    { rewrite app_assoc. replace (S (length h)) with (length (h ++ [bnode1 h x v1])) by (rewrite app_length; cbn; lia).
      rewrite valOf_new. reflexivity. }
    rewrite V1, V2. destruct (f v1 v2) as [v|] eqn:Ef.
    + rewrite alloc_eq. rewrite L2. intros E. inversion E; subst.
      exists xv, uv, v1, v2, v. repeat split; auto.
      unfold rnode. rewrite <- !app_assoc. reflexivity.
    + intros E. inversion E; reflexivity.
  - intros E. inversion E; reflexivity.
  - intros E. inversion E; reflexivity.
Qed.


(* ================================================================== *)
(*  A. allocation / frame                                              *)
(* ================================================================== *)

Lemma frame_ok_same (h : heap) (r : res nat) : (forall id, r <> Ok id) -> frame_ok h (h, r).
Proof.
  intros Hr. unfold frame_ok; cbn [fst snd]. split; [apply extends_refl|]. split; [auto|]. split.
  - intros id E. exfalso. apply (Hr id E).
  - reflexivity.
Qed.

Lemma frame_ok_app (h l : heap) id :
  length h <= id -> S id = length (h ++ l) -> frame_ok h (h ++ l, Ok id).
Proof.
  intros H1 H2. unfold frame_ok; cbn [fst snd]. split; [exists l; reflexivity|]. split.
  - intros i n Hi. apply nth_error_snoc_old. exact Hi.
  - split.
    + intros id' E. inversion E; subst id'. lia.
    + intros [E|E]; discriminate.
Qed.

Theorem h_op1_frame (h : heap) x f mk name : frame_ok h (h_op1 h x f mk name).
Proof.
  destruct (h_op1 h x f mk name) as [h' r] eqn:E. apply h_op1_inv in E. destruct r as [id| |].
  - destruct E as (xv & v & _ & _ & -> & ->). apply frame_ok_app; [lia|]. rewrite app_length. cbn. lia.
  - subst h'. apply frame_ok_same. intros id; discriminate.
  - subst h'. apply frame_ok_same. intros id; discriminate.
Qed.

Theorem h_cmp_frame (h : heap) b x u name : frame_ok h (h_cmp h b x u name).
Proof.
  destruct (h_cmp h b x u name) as [h' r] eqn:E. apply h_cmp_inv in E. destruct r as [id| |].
  - destruct E as (xv & uv & v & _ & _ & _ & -> & ->). apply frame_ok_app; [lia|]. rewrite app_length. cbn. lia.
  - subst h'. apply frame_ok_same. intros id; discriminate.
  - subst h'. apply frame_ok_same. intros id; discriminate.
Qed.

Theorem h_elsel_frame (h : heap) b x u name : frame_ok h (h_elsel h b x u name).
Proof.
  destruct (h_elsel h b x u name) as [h' r] eqn:E. apply h_elsel_inv in E. destruct r as [id| |].
  - destruct E as (xv & uv & v & _ & _ & _ & -> & ->). apply frame_ok_app; [lia|]. rewrite app_length. cbn. lia.
  - subst h'. apply frame_ok_same. intros id; discriminate.
  - subst h'. apply frame_ok_same. intros id; discriminate.
Qed.

Theorem h_patch_frame (h : heap) x index p name : frame_ok h (h_patch h x index p name).
Proof.
  destruct (h_patch h x index p name) as [h' r] eqn:E. apply h_patch_inv in E. destruct r as [id| |].
  - destruct E as (xv & uv & v & _ & _ & _ & -> & ->). apply frame_ok_app; [lia|]. rewrite app_length. cbn. lia.
  - subst h'. apply frame_ok_same. intros id; discriminate.
  - subst h'. apply frame_ok_same. intros id; discriminate.
Qed.

Theorem h_concat_frame (h : heap) xs dim name : frame_ok h (h_concat h xs dim name).
Proof.
  destruct (h_concat h xs dim name) as [h' r] eqn:E. apply h_concat_inv in E. destruct r as [id| |].
  - destruct E as (vs & v & _ & _ & -> & ->). apply frame_ok_app; [lia|]. rewrite app_length. cbn. lia.
  - subst h'. apply frame_ok_same. intros id; discriminate.
  - subst h'. apply frame_ok_same. intros id; discriminate.
Qed.

(* broadcastForBinaryOp: two appended nodes, ids are the next two positions *)
Theorem h_bcast2_frame (h : heap) x u s1 s2 :
  let hr := h_bcast2 h x u s1 s2 in
  extends h (fst hr) /\
  (forall b1 b2, snd hr = Ok (b1, b2) -> b1 = length h /\ b2 = S (length h) /\ length (fst hr) = S (S (length h))) /\
  (snd hr = Err \/ snd hr = Panic -> fst hr = h).
Proof.
  cbn zeta. destruct (h_bcast2 h x u s1 s2) as [h2 r] eqn:E. apply h_bcast2_inv in E. cbn [fst snd].
  destruct r as [[b1 b2]| |].
  - destruct E as (xv & uv & v1 & v2 & _ & _ & _ & _ & -> & -> & ->). split; [eexists; reflexivity|]. split.
    + intros b1 b2 Eb. inversion Eb; subst. rewrite !app_length. cbn. repeat split; lia.
    + intros [X|X]; discriminate.
  - subst h2. split; [apply extends_refl|]. split; [intros b1 b2 X; discriminate|reflexivity].
  - subst h2. split; [apply extends_refl|]. split; [intros b1 b2 X; discriminate|reflexivity].
Qed.

Theorem h_binop_frame (h : heap) x u s1 s2 f edges name : frame_ok h (h_binop h x u s1 s2 f edges name).
Proof.
  destruct (h_binop h x u s1 s2 f edges name) as [h' r] eqn:E. apply h_binop_inv in E. destruct r as [id| |].
  - destruct E as (xv & uv & v1 & v2 & v & _ & _ & _ & _ & _ & -> & ->).
    apply frame_ok_app; [lia|]. rewrite app_length. cbn. lia.
  - subst h'. apply frame_ok_same. intros id; discriminate.
  - subst h'. apply frame_ok_same. intros id; discriminate.
Qed.

Theorem h_arith_frame (h : heap) b x u name : frame_ok h (h_arith h b x u name).
Proof.
  unfold h_arith. destruct (valOf h x) as [xv|]; [destruct (valOf h u) as [uv|]|].
  - apply h_binop_frame.
  - apply frame_ok_same. intros id; discriminate.
  - apply frame_ok_same. intros id; discriminate.
Qed.

Theorem h_dot_frame (h : heap) x u name : frame_ok h (h_dot h x u name).
Proof.
  unfold h_dot. destruct (valOf h x) as [xv|]; [destruct (valOf h u) as [uv|]|].
  - destruct (validateDotProductDims (zdims xv) (zdims uv)).
    + apply h_binop_frame.
    + apply frame_ok_same. intros id; discriminate.
  - apply frame_ok_same. intros id; discriminate.
  - apply frame_ok_same. intros id; discriminate.
Qed.

Theorem h_matmul_frame (h : heap) x u name : frame_ok h (h_matmul h x u name).
Proof.
  unfold h_matmul. destruct (valOf h x) as [xv|]; [destruct (valOf h u) as [uv|]|].
  - destruct (validateMatMulDims (zdims xv) (zdims uv)).
    + apply h_binop_frame.
    + apply frame_ok_same. intros id; discriminate.
  - apply frame_ok_same. intros id; discriminate.
  - apply frame_ok_same. intros id; discriminate.
Qed.

(* the instances of h_op1 *)
Corollary h_slice_frame (h : heap) x index name : frame_ok h (h_slice h x index name).
Proof. apply h_op1_frame. Qed.
Corollary h_transpose_frame (h : heap) x name : frame_ok h (h_transpose h x name).
Proof. apply h_op1_frame. Qed.
Corollary h_reshape_frame (h : heap) x shape name : frame_ok h (h_reshape h x shape name).
Proof. apply h_op1_frame. Qed.
Corollary h_unsqueeze_frame (h : heap) x dim name : frame_ok h (h_unsqueeze h x dim name).
Proof. apply h_op1_frame. Qed.
Corollary h_squeeze_frame (h : heap) x dim name : frame_ok h (h_squeeze h x dim name).
Proof. apply h_op1_frame. Qed.
Corollary h_flatten_frame (h : heap) x dim name : frame_ok h (h_flatten h x dim name).
Proof. apply h_op1_frame. Qed.
Corollary h_broadcast_frame (h : heap) x shape name : frame_ok h (h_broadcast h x shape name).
Proof. apply h_op1_frame. Qed.
Corollary h_reduceAlong_frame (h : heap) r x dim name : frame_ok h (h_reduceAlong h r x dim name).
Proof. apply h_op1_frame. Qed.
Corollary h_scale_frame (h : heap) x a name : frame_ok h (h_scale h x a name).
Proof. apply h_op1_frame. Qed.
Corollary h_pow_frame (h : heap) x a az name : frame_ok h (h_pow h x a az name).
Proof. apply h_op1_frame. Qed.
Corollary h_math_frame (h : heap) fn x name : frame_ok h (h_math h fn x name).
Proof. apply h_op1_frame. Qed.

(* leaf creation *)
Lemma leaf_frame (h : heap) v tracked name :
  leaf h v tracked name = (h ++ [mkNode v tracked false None [] name], length h).
Proof. reflexivity. Qed.


(* ================================================================== *)
(*  B. the tracking rule                                               *)
(* ================================================================== *)

Lemma ctx_rule1 (h : heap) x n : ctx_rule h [x] n ->
  ntracked n = trackedOf h x && negb (dirtyOf h x) /\ ndirty n = dirtyOf h x.
Proof.
  intros (Ht & Hd & _ & _). cbn [existsb] in Ht, Hd. rewrite !orb_false_r in Ht. rewrite !orb_false_r in Hd. split; assumption.
Qed.

Lemma ctx_rule2 (h : heap) x u n : ctx_rule h [x; u] n ->
  ntracked n = (trackedOf h x || trackedOf h u) && negb (dirtyOf h x) && negb (dirtyOf h u) /\
  ndirty n = dirtyOf h x || dirtyOf h u.
Proof.
  intros (Ht & Hd & _ & _). cbn [existsb] in Ht, Hd. rewrite !orb_false_r in Ht. rewrite !orb_false_r in Hd. split; [|assumption].
  rewrite Ht. rewrite negb_orb. rewrite andb_assoc. reflexivity.
Qed.

(* any operand spent -> result untracked, spent, without edges *)
Lemma ctx_rule_dirty (h : heap) ops n x : ctx_rule h ops n -> In x ops -> dirtyOf h x = true ->
  ntracked n = false /\ ndirty n = true /\ nedges n = [].
Proof.
  intros (Ht & Hd & He & _) Hx Hdx.
  assert (E : existsb (dirtyOf h) ops = true) by (apply existsb_exists; exists x; auto).
  rewrite E in Ht, Hd. rewrite andb_false_r in Ht. auto.
Qed.

(* no operand tracked -> result untracked *)
Lemma ctx_rule_untracked (h : heap) ops n : ctx_rule h ops n ->
  (forall x, In x ops -> trackedOf h x = false) -> ntracked n = false /\ nedges n = [].
Proof.
  intros (Ht & Hd & He & _) Hx.
  assert (E : existsb (trackedOf h) ops = false).
  { destruct (existsb (trackedOf h) ops) eqn:E; [|reflexivity].
    apply existsb_exists in E as (x & Hin & Hxt). rewrite (Hx x Hin) in Hxt. discriminate. }
  rewrite E in Ht. cbn in Ht. auto.
Qed.

(* tracked exactly when some operand is tracked and none is spent *)
Lemma ctx_rule_tracked_iff (h : heap) ops n : ctx_rule h ops n ->
  (ntracked n = true <-> (exists x, In x ops /\ trackedOf h x = true) /\ (forall x, In x ops -> dirtyOf h x = false)).
Proof.
  intros (Ht & _). rewrite Ht, andb_true_iff, negb_true_iff, existsb_exists. split.
  - intros [H1 H2]. split; [exact H1|]. intros x Hx. destruct (dirtyOf h x) eqn:E; [|reflexivity].
    assert (X : existsb (dirtyOf h) ops = true) by (apply existsb_exists; exists x; auto). congruence.
  - intros [H1 H2]. split; [exact H1|]. destruct (existsb (dirtyOf h) ops) eqn:E; [|reflexivity].
    apply existsb_exists in E as (x & Hin & Hxd). rewrite (H2 x Hin) in Hxd. discriminate.
Qed.

Theorem h_op1_track (h : heap) x f mk name h' id : h_op1 h x f mk name = (h', Ok id) ->
  exists n, nth_error h' id = Some n /\ ctx_rule h [x] n /\ nname n = name /\
    (exists xv, valOf h x = Some xv /\ f xv = Ok (nval n)) /\
    (ntracked n = true -> nedges n = [(x, mk id)]) /\
    Forall (fun e : nat * rule => fst e < id) (nedges n).
Proof.
  intros E. apply h_op1_inv in E. destruct E as (xv & v & Hx & Hf & -> & ->).
  eexists. split; [apply nth_error_snoc_new|]. split; [apply ctxNode_rule|]. split; [reflexivity|].
  split; [exists xv; auto|]. split; [apply ctxNode_edges_tracked|].
  apply ctxNode_edges_Forall. constructor; [|constructor]. cbn. eapply valOf_some_lt; eauto.
Qed.

Theorem h_cmp_track (h : heap) b x u name h' id : h_cmp h b x u name = (h', Ok id) ->
  exists n, nth_error h' id = Some n /\
    ntracked n = false /\ ndirty n = false /\ nedges n = [] /\ ngrad n = None /\ nname n = name /\
    (exists xv uv, valOf h x = Some xv /\ valOf h u = Some uv /\ v_same b xv uv = Ok (nval n)).
Proof.
  intros E. apply h_cmp_inv in E. destruct E as (xv & uv & v & Hx & Hu & Hf & -> & ->).
  eexists. split; [apply nth_error_snoc_new|]. cbn. repeat split. exists xv, uv. auto.
Qed.

Theorem h_elsel_track (h : heap) b x u name h' id : h_elsel h b x u name = (h', Ok id) ->
  exists n, nth_error h' id = Some n /\ ctx_rule h [x; u] n /\ nname n = name /\
    (exists xv uv, valOf h x = Some xv /\ valOf h u = Some uv /\ v_same b xv uv = Ok (nval n)) /\
    (ntracked n = true -> nedges n = [(x, RElSel id x u); (u, RElSel id u x)]) /\
    Forall (fun e : nat * rule => fst e < id) (nedges n).
Proof.
  intros E. apply h_elsel_inv in E. destruct E as (xv & uv & v & Hx & Hu & Hf & -> & ->).
  eexists. split; [apply nth_error_snoc_new|]. split; [apply ctxNode_rule|]. split; [reflexivity|].
  split; [exists xv, uv; auto|]. split; [apply ctxNode_edges_tracked|].
  apply ctxNode_edges_Forall. repeat constructor; cbn; eapply valOf_some_lt; eauto.
Qed.

Theorem h_patch_track (h : heap) x index p name h' id : h_patch h x index p name = (h', Ok id) ->
  exists n, nth_error h' id = Some n /\ ctx_rule h [x; p] n /\ nname n = name /\
    (exists xv pv, valOf h x = Some xv /\ valOf h p = Some pv /\ v_patch xv index pv = Ok (nval n)) /\
    (ntracked n = true -> nedges n = [(x, RPatchX id p index); (p, RPatchP id p index)]) /\
    Forall (fun e : nat * rule => fst e < id) (nedges n).
Proof.
  intros E. apply h_patch_inv in E. destruct E as (xv & pv & v & Hx & Hp & Hf & -> & ->).
  eexists. split; [apply nth_error_snoc_new|]. split; [apply ctxNode_rule|]. split; [reflexivity|].
  split; [exists xv, pv; auto|]. split; [apply ctxNode_edges_tracked|].
  apply ctxNode_edges_Forall. repeat constructor; cbn; eapply valOf_some_lt; eauto.
Qed.

Lemma concatEdges_targets y dim : forall (xs : list (nat * T)) base e,
  In e (concatEdges y dim xs base) -> In (fst e) (map fst xs).
Proof.
  induction xs as [|[x xv] xs IH]; intros base e He; cbn in He; [contradiction|].
  destruct He as [<-|He]; [left; reflexivity|]. right. eapply IH; eauto.
Qed.

Lemma concatEdges_map_fst y dim : forall (xs : list (nat * T)) base,
  map fst (concatEdges y dim xs base) = map fst xs.
Proof.
  induction xs as [|[x xv] xs IH]; intros base; cbn; [reflexivity|]. rewrite IH. reflexivity.
Qed.

Lemma mapM_valOf_lt (h : heap) xs vs : mapM (valOf h) xs = Some vs -> forall x, In x xs -> x < length h.
Proof.
  intros H x Hx. destruct (In_nth_error _ _ Hx) as [i Hi].
  destruct (mapM_nth _ _ _ H _ _ Hi) as (y & _ & Hy). eapply valOf_some_lt; eauto.
Qed.

Theorem h_concat_track (h : heap) xs dim name h' id : h_concat h xs dim name = (h', Ok id) ->
  exists n, nth_error h' id = Some n /\ ctx_rule h xs n /\ nname n = name /\
    (exists vs, mapM (valOf h) xs = Some vs /\ v_concat vs dim = Ok (nval n) /\
       (ntracked n = true -> map fst (nedges n) = xs)) /\
    Forall (fun e : nat * rule => fst e < id) (nedges n).
Proof.
  intros E. apply h_concat_inv in E. destruct E as (vs & v & Hx & Hf & -> & ->).
  eexists. split; [apply nth_error_snoc_new|]. split; [apply ctxNode_rule|]. split; [reflexivity|].
  split.
  - exists vs. split; [exact Hx|]. split; [exact Hf|]. intros Ht. rewrite (ctxNode_edges_tracked _ _ _ _ _ Ht).
    rewrite concatEdges_map_fst. apply NdP.mapM_length in Hx.
    clear -Hx. revert vs Hx. induction xs as [|x xs IH]; intros [|w vs] Hl; cbn in *; try discriminate; [reflexivity|].
    f_equal. apply IH. congruence.
  - apply ctxNode_edges_Forall. apply Forall_forall. intros e He.
    apply concatEdges_targets in He. apply in_map_iff in He as ([x0 v0] & Hfst & Hin). cbn in Hfst. subst x0.
    apply in_combine_l in Hin. eapply mapM_valOf_lt; eauto.
Qed.

(* binary operators: the flags pass through the two internal Broadcast results *)
Lemma bnode1_rule (h : heap) x v1 : ctx_rule h [x] (bnode1 h x v1).
Proof. apply ctxNode_rule. Qed.

Lemma bnode2_rule (h : heap) x u v1 v2 : u < length h -> ctx_rule h [u] (bnode2 h x u v1 v2).
Proof.
  intros Hu. pose proof (ctxNode_rule (h ++ [bnode1 h x v1]) [u] [(u, RBroadcast (S (length h)) u)] v2 None) as R.
  fold (bnode2 h x u v1 v2) in R. destruct R as (Rt & Rd & Re & Rg).
  cbn [existsb] in Rt, Rd. rewrite trackedOf_app in Rt by exact Hu. rewrite dirtyOf_app in Rt, Rd by exact Hu.
  unfold ctx_rule. cbn [existsb]. auto.
Qed.

Lemma rnode_rule (h : heap) x u v1 v2 v edges name :
  x < length h -> u < length h -> ctx_rule h [x; u] (rnode h x u v1 v2 v edges name).
Proof.
  intros Hx Hu.
  pose proof (ctxNode_rule (h ++ [bnode1 h x v1] ++ [bnode2 h x u v1 v2]) [length h; S (length h)]
                (edges (S (S (length h))) (length h) (S (length h))) v name) as R.
  fold (rnode h x u v1 v2 v edges name) in R. destruct R as (Rt & Rd & Re & Rg).
  assert (T1 : trackedOf (h ++ [bnode1 h x v1] ++ [bnode2 h x u v1 v2]) (length h) = ntracked (bnode1 h x v1)).
  { rewrite app_assoc. rewrite trackedOf_app by (rewrite app_length; cbn; lia). apply trackedOf_new. }
  assert (D1 : dirtyOf (h ++ [bnode1 h x v1] ++ [bnode2 h x u v1 v2]) (length h) = ndirty (bnode1 h x v1)).
  { rewrite app_assoc. rewrite dirtyOf_app by (rewrite app_length; cbn; lia). apply dirtyOf_new. }
  assert (T2 : trackedOf (h ++ [bnode1 h x v1] ++ [bnode2 h x u v1 v2]) (S (length h)) = ntracked (bnode2 h x u v1 v2)).
  { rewrite app_assoc. replace (S (length h)) with (length (h ++ [bnode1 h x v1])) by (rewrite app_length; cbn; lia).
    apply trackedOf_new. }
  assert (D2 : dirtyOf (h ++ [bnode1 h x v1] ++ [bnode2 h x u v1 v2]) (S (length h)) = ndirty (bnode2 h x u v1 v2)).
  { rewrite app_assoc. replace (S (length h)) with (length (h ++ [bnode1 h x v1])) by (rewrite app_length; cbn; lia).
    apply dirtyOf_new. }
  cbn [existsb] in Rt, Rd. rewrite T1, T2, D1, D2 in Rt. rewrite D1, D2 in Rd.
  destruct (ctx_rule1 _ _ _ (bnode1_rule h x v1)) as [B1t B1d].
  destruct (ctx_rule1 _ _ _ (bnode2_rule h x u v1 v2 Hu)) as [B2t B2d].
  rewrite B1t, B2t, B1d, B2d in Rt. rewrite B1d, B2d in Rd.
  unfold ctx_rule. cbn [existsb]. split; [|split; [exact Rd|split; [exact Re|exact Rg]]].
  rewrite Rt. destruct (trackedOf h x), (trackedOf h u), (dirtyOf h x), (dirtyOf h u); reflexivity.
Qed.

(* the composite rule for a binary operator whose operands exist in [h] *)
Theorem h_binop_track (h : heap) x u s1 s2 f edges name h' id :
  x < length h -> u < length h ->
  (forall y a1 a2 e, In e (edges y a1 a2) -> fst e = a1 \/ fst e = a2) ->
  h_binop h x u s1 s2 f edges name = (h', Ok id) ->
  exists n b1 b2, nth_error h' id = Some n /\ ctx_rule h [x; u] n /\ nname n = name /\
    id = S (S (length h)) /\
    nth_error h' (length h) = Some b1 /\ nth_error h' (S (length h)) = Some b2 /\
    ctx_rule h [x] b1 /\ ctx_rule h [u] b2 /\ nname b1 = None /\ nname b2 = None /\
    (ntracked b1 = true -> nedges b1 = [(x, RBroadcast (length h) x)]) /\
    (ntracked b2 = true -> nedges b2 = [(u, RBroadcast (S (length h)) u)]) /\
    (exists xv uv, valOf h x = Some xv /\ valOf h u = Some uv /\
        v_broadcast xv s1 = Ok (nval b1) /\ v_broadcast uv s2 = Ok (nval b2) /\ f (nval b1) (nval b2) = Some (nval n)) /\
    (ntracked n = true -> nedges n = edges id (length h) (S (length h))) /\
    Forall (fun e : nat * rule => fst e < id) (nedges n).
Proof.
  intros Hx Hu Hed E. apply h_binop_inv in E.
  destruct E as (xv & uv & v1 & v2 & v & Vx & B1 & Vu & B2 & Hf & -> & ->).
  rewrite valOf_app in Vu by exact Hu.
  exists (rnode h x u v1 v2 v edges name), (bnode1 h x v1), (bnode2 h x u v1 v2).
  split.
  { change (h ++ [bnode1 h x v1; bnode2 h x u v1 v2; rnode h x u v1 v2 v edges name])
      with (h ++ [bnode1 h x v1; bnode2 h x u v1 v2] ++ [rnode h x u v1 v2 v edges name]).
    rewrite app_assoc. replace (S (S (length h))) with (length (h ++ [bnode1 h x v1; bnode2 h x u v1 v2]))
      by (rewrite app_length; cbn; lia). apply nth_error_snoc_new. }
  split; [apply rnode_rule; assumption|]. split; [reflexivity|]. split; [reflexivity|].
  split; [rewrite nth_error_app2 by lia; rewrite Nat.sub_diag; reflexivity|].
  split; [rewrite nth_error_app2 by lia; replace (S (length h) - length h) with 1 by lia; reflexivity|].
  split; [apply bnode1_rule|]. split; [apply bnode2_rule; exact Hu|]. split; [reflexivity|]. split; [reflexivity|].
  split; [apply ctxNode_edges_tracked|]. split; [apply ctxNode_edges_tracked|].
  split; [exists xv, uv; auto|].
  split; [apply ctxNode_edges_tracked|].
  apply ctxNode_edges_Forall. apply Forall_forall. intros e He. destruct (Hed _ _ _ _ He) as [-> | ->]; lia.
Qed.

Lemma arithEdges_targets b y a1 a2 (e : nat * rule) : In e (arithEdges b y a1 a2) -> fst e = a1 \/ fst e = a2.
Proof.
  destruct b; cbn; intros H; try contradiction;
    (destruct H as [<-|[<-|[]]]; [left; reflexivity|right; reflexivity]).
Qed.

(* Add / Sub / Mul / Div in terms of the ORIGINAL operands *)
Theorem h_arith_track (h : heap) b x u name h' id : h_arith h b x u name = (h', Ok id) ->
  exists n, nth_error h' id = Some n /\ ctx_rule h [x; u] n /\ nname n = name /\ id = S (S (length h)) /\
    (exists xv uv, valOf h x = Some xv /\ valOf h u = Some uv /\ v_arith b xv uv = Ok (nval n)) /\
    (ntracked n = true -> nedges n = arithEdges b id (length h) (S (length h))) /\
    Forall (fun e : nat * rule => fst e < id) (nedges n).
Proof.
  unfold h_arith. destruct (valOf h x) as [xv|] eqn:Vx; [destruct (valOf h u) as [uv|] eqn:Vu|]; try discriminate.
  intros E. apply h_binop_track in E.
  - destruct E as (n & b1 & b2 & Hn & Hr & Hnm & Hid & _ & _ & _ & _ & _ & _ & _ & _ & Hv & He & Hf).
    exists n. repeat (split; [assumption|]). split; [|split; assumption].
    destruct Hv as (xv' & uv' & Vx' & Vu' & B1 & B2 & Hfv).
    exists xv, uv. split; [reflexivity|]. split; [reflexivity|].
    assert (xv' = xv) by congruence. assert (uv' = uv) by congruence. subst xv' uv'.
    unfold v_arith, v_bcast2. rewrite B1. cbn [res_bind]. rewrite B2. cbn [res_bind fst snd]. rewrite Hfv. reflexivity.
  - eapply valOf_some_lt; eauto.
  - eapply valOf_some_lt; eauto.
  - apply arithEdges_targets.
Qed.

Theorem h_dot_track (h : heap) x u name h' id : h_dot h x u name = (h', Ok id) ->
  exists n, nth_error h' id = Some n /\ ctx_rule h [x; u] n /\ nname n = name /\ id = S (S (length h)) /\
    (exists xv uv, valOf h x = Some xv /\ valOf h u = Some uv /\ v_dot xv uv = Ok (nval n)) /\
    (ntracked n = true -> nedges n = [(length h, RDot id (S (length h))); (S (length h), RDot id (length h))]) /\
    Forall (fun e : nat * rule => fst e < id) (nedges n).
Proof.
  unfold h_dot. destruct (valOf h x) as [xv|] eqn:Vx; [destruct (valOf h u) as [uv|] eqn:Vu|]; try discriminate.
  destruct (validateDotProductDims (zdims xv) (zdims uv)) eqn:Ev; [|discriminate].
  intros E. apply h_binop_track in E.
  - destruct E as (n & b1 & b2 & Hn & Hr & Hnm & Hid & _ & _ & _ & _ & _ & _ & _ & _ & Hv & He & Hf).
    exists n. repeat (split; [assumption|]). split; [|split; assumption].
    destruct Hv as (xv' & uv' & Vx' & Vu' & B1 & B2 & Hfv).
    exists xv, uv. split; [reflexivity|]. split; [reflexivity|].
    assert (xv' = xv) by congruence. assert (uv' = uv) by congruence. subst xv' uv'.
    unfold v_dot, v_bcast2. rewrite Ev, B1. cbn [res_bind]. rewrite B2. cbn [res_bind fst snd]. rewrite Hfv. reflexivity.
  - eapply valOf_some_lt; eauto.
  - eapply valOf_some_lt; eauto.
  - intros y a1 a2 e [<-|[<-|[]]]; [left|right]; reflexivity.
Qed.

Theorem h_matmul_track (h : heap) x u name h' id : h_matmul h x u name = (h', Ok id) ->
  exists n, nth_error h' id = Some n /\ ctx_rule h [x; u] n /\ nname n = name /\ id = S (S (length h)) /\
    (exists xv uv, valOf h x = Some xv /\ valOf h u = Some uv /\ v_matmul xv uv = Ok (nval n)) /\
    (ntracked n = true -> nedges n = [(length h, RMatMulA id (S (length h))); (S (length h), RMatMulB id (length h))]) /\
    Forall (fun e : nat * rule => fst e < id) (nedges n).
Proof.
  unfold h_matmul. destruct (valOf h x) as [xv|] eqn:Vx; [destruct (valOf h u) as [uv|] eqn:Vu|]; try discriminate.
  destruct (validateMatMulDims (zdims xv) (zdims uv)) eqn:Ev; [|discriminate].
  intros E. apply h_binop_track in E.
  - destruct E as (n & b1 & b2 & Hn & Hr & Hnm & Hid & _ & _ & _ & _ & _ & _ & _ & _ & Hv & He & Hf).
    exists n. repeat (split; [assumption|]). split; [|split; assumption].
    destruct Hv as (xv' & uv' & Vx' & Vu' & B1 & B2 & Hfv).
    exists xv, uv. split; [reflexivity|]. split; [reflexivity|].
    assert (xv' = xv) by congruence. assert (uv' = uv) by congruence. subst xv' uv'.
    unfold v_matmul, v_bcastMM. rewrite Ev, B1. cbn [res_bind]. rewrite B2. cbn [res_bind fst snd]. rewrite Hfv. reflexivity.
  - eapply valOf_some_lt; eauto.
  - eapply valOf_some_lt; eauto.
  - intros y a1 a2 e [<-|[<-|[]]]; [left|right]; reflexivity.
Qed.


(* ---------- every method preserves wf_heap (back edges point at older tensors) ---------- *)
Theorem h_op1_wf (h : heap) x f mk name : wf_heap h -> wf_heap (fst (h_op1 h x f mk name)).
Proof.
  intros W. destruct (h_op1 h x f mk name) as [h' r] eqn:E. apply h_op1_inv in E. cbn [fst].
  destruct r as [id| |]; [|subst; exact W|subst; exact W].
  destruct E as (xv & v & Hx & _ & _ & ->). apply wf_heap_snoc; [exact W|].
  apply ctxNode_edges_Forall. constructor; [|constructor]. cbn. eapply valOf_some_lt; eauto.
Qed.

Theorem h_cmp_wf (h : heap) b x u name : wf_heap h -> wf_heap (fst (h_cmp h b x u name)).
Proof.
  intros W. destruct (h_cmp h b x u name) as [h' r] eqn:E. apply h_cmp_inv in E. cbn [fst].
  destruct r as [id| |]; [|subst; exact W|subst; exact W].
  destruct E as (xv & uv & v & _ & _ & _ & _ & ->). apply wf_heap_snoc; [exact W|]. constructor.
Qed.

Theorem h_elsel_wf (h : heap) b x u name : wf_heap h -> wf_heap (fst (h_elsel h b x u name)).
Proof.
  intros W. destruct (h_elsel h b x u name) as [h' r] eqn:E. apply h_elsel_inv in E. cbn [fst].
  destruct r as [id| |]; [|subst; exact W|subst; exact W].
  destruct E as (xv & uv & v & Hx & Hu & _ & _ & ->). apply wf_heap_snoc; [exact W|].
  apply ctxNode_edges_Forall. repeat constructor; cbn; eapply valOf_some_lt; eauto.
Qed.

Theorem h_patch_wf (h : heap) x index p name : wf_heap h -> wf_heap (fst (h_patch h x index p name)).
Proof.
  intros W. destruct (h_patch h x index p name) as [h' r] eqn:E. apply h_patch_inv in E. cbn [fst].
  destruct r as [id| |]; [|subst; exact W|subst; exact W].
  destruct E as (xv & uv & v & Hx & Hu & _ & _ & ->). apply wf_heap_snoc; [exact W|].
  apply ctxNode_edges_Forall. repeat constructor; cbn; eapply valOf_some_lt; eauto.
Qed.

Theorem h_concat_wf (h : heap) xs dim name : wf_heap h -> wf_heap (fst (h_concat h xs dim name)).
Proof.
  intros W. destruct (h_concat h xs dim name) as [h' r] eqn:E. apply h_concat_inv in E. cbn [fst].
  destruct r as [id| |]; [|subst; exact W|subst; exact W].
  destruct E as (vs & v & Hx & _ & _ & ->). apply wf_heap_snoc; [exact W|].
  apply ctxNode_edges_Forall. apply Forall_forall. intros e He.
  apply concatEdges_targets in He. apply in_map_iff in He as ([x0 v0] & Hfst & Hin). cbn in Hfst. subst x0.
  apply in_combine_l in Hin. eapply mapM_valOf_lt; eauto.
Qed.

Theorem h_binop_wf (h : heap) x u s1 s2 f edges name :
  (forall y a1 a2 e, In e (edges y a1 a2) -> fst e = a1 \/ fst e = a2) ->
  wf_heap h -> wf_heap (fst (h_binop h x u s1 s2 f edges name)).
Proof.
  intros Hed W. destruct (h_binop h x u s1 s2 f edges name) as [h' r] eqn:E. apply h_binop_inv in E. cbn [fst].
  destruct r as [id| |]; [|subst; exact W|subst; exact W].
  destruct E as (xv & uv & v1 & v2 & v & Vx & _ & Vu & _ & _ & _ & ->).
  change (h ++ [bnode1 h x v1; bnode2 h x u v1 v2; rnode h x u v1 v2 v edges name])
    with (h ++ [bnode1 h x v1] ++ [bnode2 h x u v1 v2] ++ [rnode h x u v1 v2 v edges name]).
  rewrite !app_assoc. apply wf_heap_snoc; [apply wf_heap_snoc; [apply wf_heap_snoc; [exact W|]|]|].
  - apply ctxNode_edges_Forall. constructor; [|constructor]. cbn. eapply valOf_some_lt; eauto.
  - apply ctxNode_edges_Forall. constructor; [|constructor]. cbn. eapply valOf_some_lt; eauto.
  - apply ctxNode_edges_Forall. apply Forall_forall. intros e He. rewrite !app_length. cbn [length].
    destruct (Hed _ _ _ _ He) as [-> | ->]; lia.
Qed.

Theorem h_arith_wf (h : heap) b x u name : wf_heap h -> wf_heap (fst (h_arith h b x u name)).
Proof.
  intros W. unfold h_arith. destruct (valOf h x) as [xv|]; [destruct (valOf h u) as [uv|]|]; try exact W.
  apply h_binop_wf; [apply arithEdges_targets|exact W].
Qed.

Theorem h_dot_wf (h : heap) x u name : wf_heap h -> wf_heap (fst (h_dot h x u name)).
Proof.
  intros W. unfold h_dot. destruct (valOf h x) as [xv|]; [destruct (valOf h u) as [uv|]|]; try exact W.
  destruct (validateDotProductDims (zdims xv) (zdims uv)); [|exact W].
  apply h_binop_wf; [|exact W]. intros y a1 a2 e [<-|[<-|[]]]; [left|right]; reflexivity.
Qed.

Theorem h_matmul_wf (h : heap) x u name : wf_heap h -> wf_heap (fst (h_matmul h x u name)).
Proof.
  intros W. unfold h_matmul. destruct (valOf h x) as [xv|]; [destruct (valOf h u) as [uv|]|]; try exact W.
  destruct (validateMatMulDims (zdims xv) (zdims uv)); [|exact W].
  apply h_binop_wf; [|exact W]. intros y a1 a2 e [<-|[<-|[]]]; [left|right]; reflexivity.
Qed.

Lemma leaf_wf (h : heap) v tracked name : wf_heap h -> wf_heap (fst (leaf h v tracked name)).
Proof. intros W. rewrite leaf_eq. cbn [fst]. apply wf_heap_snoc; [exact W|constructor]. Qed.

(* ================================================================== *)
(*  C. forward values and outcomes do not depend on the contexts       *)
(* ================================================================== *)

Definition sim {X} (a b : heap * res X) : Prop := snd a = snd b /\ erase (fst a) = erase (fst b).

Lemma sim_same {X} (h1 h2 : heap) (r : res X) : erase h1 = erase h2 -> sim (h1, r) (h2, r).
Proof. intros E. split; [reflexivity|exact E]. Qed.

Lemma sim_alloc (h1 h2 : heap) v c1 c2 nm1 nm2 : erase h1 = erase h2 ->
  sim (let '(h', id) := alloc h1 v c1 nm1 in (h', Ok id)) (let '(h', id) := alloc h2 v c2 nm2 in (h', Ok id)).
Proof.
  intros E. rewrite !alloc_eq. split; cbn [fst snd].
  - rewrite (erase_eq_length _ _ E). reflexivity.
  - unfold erase. rewrite !map_app. cbn. fold (erase h1). fold (erase h2). rewrite E. reflexivity.
Qed.

Theorem h_op1_values (h1 h2 : heap) x f mk1 mk2 nm1 nm2 : erase h1 = erase h2 ->
  sim (h_op1 h1 x f mk1 nm1) (h_op1 h2 x f mk2 nm2).
Proof.
  intros E. unfold h_op1. rewrite (valOf_erase_eq _ _ E x). destruct (valOf h2 x) as [xv|]; [|apply sim_same; exact E].
  destruct (f xv) as [v| |]; [|apply sim_same; exact E|apply sim_same; exact E].
  rewrite (erase_eq_length _ _ E). apply sim_alloc. exact E.
Qed.

Theorem h_cmp_values (h1 h2 : heap) b x u nm1 nm2 : erase h1 = erase h2 ->
  sim (h_cmp h1 b x u nm1) (h_cmp h2 b x u nm2).
Proof.
  intros E. unfold h_cmp. rewrite (valOf_erase_eq _ _ E x), (valOf_erase_eq _ _ E u).
  destruct (valOf h2 x) as [xv|]; [|apply sim_same; exact E].
  destruct (valOf h2 u) as [uv|]; [|apply sim_same; exact E].
  destruct (v_same b xv uv) as [v| |]; [|apply sim_same; exact E|apply sim_same; exact E].
  apply sim_alloc. exact E.
Qed.

Theorem h_elsel_values (h1 h2 : heap) b x u nm1 nm2 : erase h1 = erase h2 ->
  sim (h_elsel h1 b x u nm1) (h_elsel h2 b x u nm2).
Proof.
  intros E. unfold h_elsel. rewrite (valOf_erase_eq _ _ E x), (valOf_erase_eq _ _ E u).
  destruct (valOf h2 x) as [xv|]; [|apply sim_same; exact E].
  destruct (valOf h2 u) as [uv|]; [|apply sim_same; exact E].
  destruct (v_same b xv uv) as [v| |]; [|apply sim_same; exact E|apply sim_same; exact E].
  apply sim_alloc. exact E.
Qed.

Theorem h_patch_values (h1 h2 : heap) x index p nm1 nm2 : erase h1 = erase h2 ->
  sim (h_patch h1 x index p nm1) (h_patch h2 x index p nm2).
Proof.
  intros E. unfold h_patch. rewrite (valOf_erase_eq _ _ E x), (valOf_erase_eq _ _ E p).
  destruct (valOf h2 x) as [xv|]; [|apply sim_same; exact E].
  destruct (valOf h2 p) as [pv|]; [|apply sim_same; exact E].
  destruct (v_patch xv index pv) as [v| |]; [|apply sim_same; exact E|apply sim_same; exact E].
  apply sim_alloc. exact E.
Qed.

Theorem h_concat_values (h1 h2 : heap) xs dim nm1 nm2 : erase h1 = erase h2 ->
  sim (h_concat h1 xs dim nm1) (h_concat h2 xs dim nm2).
Proof.
  intros E. unfold h_concat.
  rewrite (NdP.mapM_ext (valOf h1) (valOf h2) xs) by (intros x _; apply valOf_erase_eq; exact E).
  destruct (mapM (valOf h2) xs) as [vs|]; [|apply sim_same; exact E].
  destruct (v_concat vs dim) as [v| |]; [|apply sim_same; exact E|apply sim_same; exact E].
  apply sim_alloc. exact E.
Qed.

Lemma h_bcast2_values (h1 h2 : heap) x u s1 s2 : erase h1 = erase h2 ->
  sim (h_bcast2 h1 x u s1 s2) (h_bcast2 h2 x u s1 s2).
Proof.
  intros E. unfold h_bcast2, h_broadcast.
  pose proof (h_op1_values h1 h2 x (fun v => v_broadcast v s1) (fun y => RBroadcast y x) (fun y => RBroadcast y x) None None E) as S1.
  destruct (h_op1 h1 x (fun v => v_broadcast v s1) (fun y => RBroadcast y x) None) as [k1 r1].
  destruct (h_op1 h2 x (fun v => v_broadcast v s1) (fun y => RBroadcast y x) None) as [k2 r2].
  destruct S1 as [Sr Se]. cbn [fst snd] in Sr, Se. subst r2.
  destruct r1 as [b1| |]; [|apply sim_same; exact E|apply sim_same; exact E].
  pose proof (h_op1_values k1 k2 u (fun v => v_broadcast v s2) (fun y => RBroadcast y u) (fun y => RBroadcast y u) None None Se) as S2.
  destruct (h_op1 k1 u (fun v => v_broadcast v s2) (fun y => RBroadcast y u) None) as [m1 q1].
  destruct (h_op1 k2 u (fun v => v_broadcast v s2) (fun y => RBroadcast y u) None) as [m2 q2].
  destruct S2 as [Tr Te]. cbn [fst snd] in Tr, Te. subst q2.
  destruct q1 as [b2| |]; [|apply sim_same; exact E|apply sim_same; exact E].
  split; [reflexivity|exact Te].
Qed.

Theorem h_binop_values (h1 h2 : heap) x u s1 s2 f ed1 ed2 nm1 nm2 : erase h1 = erase h2 ->
  sim (h_binop h1 x u s1 s2 f ed1 nm1) (h_binop h2 x u s1 s2 f ed2 nm2).
Proof.
  intros E. unfold h_binop. pose proof (h_bcast2_values h1 h2 x u s1 s2 E) as S1.
  destruct (h_bcast2 h1 x u s1 s2) as [k1 r1]. destruct (h_bcast2 h2 x u s1 s2) as [k2 r2].
  destruct S1 as [Sr Se]. cbn [fst snd] in Sr, Se. subst r2.
  destruct r1 as [[b1 b2]| |]; [|apply sim_same; exact E|apply sim_same; exact E].
  rewrite (valOf_erase_eq _ _ Se b1), (valOf_erase_eq _ _ Se b2).
  destruct (valOf k2 b1) as [v1|]; [|apply sim_same; exact E].
  destruct (valOf k2 b2) as [v2|]; [|apply sim_same; exact E].
  destruct (f v1 v2) as [v|]; [|apply sim_same; exact E].
  apply sim_alloc. exact Se.
Qed.

Theorem h_arith_values (h1 h2 : heap) b x u nm1 nm2 : erase h1 = erase h2 ->
  sim (h_arith h1 b x u nm1) (h_arith h2 b x u nm2).
Proof.
  intros E. unfold h_arith. rewrite (valOf_erase_eq _ _ E x), (valOf_erase_eq _ _ E u).
  destruct (valOf h2 x) as [xv|]; [|apply sim_same; exact E].
  destruct (valOf h2 u) as [uv|]; [|apply sim_same; exact E].
  apply h_binop_values. exact E.
Qed.

Theorem h_dot_values (h1 h2 : heap) x u nm1 nm2 : erase h1 = erase h2 ->
  sim (h_dot h1 x u nm1) (h_dot h2 x u nm2).
Proof.
  intros E. unfold h_dot. rewrite (valOf_erase_eq _ _ E x), (valOf_erase_eq _ _ E u).
  destruct (valOf h2 x) as [xv|]; [|apply sim_same; exact E].
  destruct (valOf h2 u) as [uv|]; [|apply sim_same; exact E].
  destruct (validateDotProductDims (zdims xv) (zdims uv)); [|apply sim_same; exact E].
  apply h_binop_values. exact E.
Qed.

Theorem h_matmul_values (h1 h2 : heap) x u nm1 nm2 : erase h1 = erase h2 ->
  sim (h_matmul h1 x u nm1) (h_matmul h2 x u nm2).
Proof.
  intros E. unfold h_matmul. rewrite (valOf_erase_eq _ _ E x), (valOf_erase_eq _ _ E u).
  destruct (valOf h2 x) as [xv|]; [|apply sim_same; exact E].
  destruct (valOf h2 u) as [uv|]; [|apply sim_same; exact E].
  destruct (validateMatMulDims (zdims xv) (zdims uv)); [|apply sim_same; exact E].
  apply h_binop_values. exact E.
Qed.

(* resetting contexts / changing tracking flags never changes [erase] *)
Lemma erase_updNode (h : heap) i f : (forall n, nval (f n) = nval n) -> erase (updNode h i f) = erase h.
Proof.
  intros Hf. apply NdP.nth_error_ext_len.
  - rewrite !erase_length. apply updNode_length.
  - intros j _. unfold erase. rewrite !nth_error_map, updNode_nth.
    destruct (nth_error h j) as [n|]; [|reflexivity]. cbn. destruct (j =? i); [rewrite Hf|]; reflexivity.
Qed.

(* ================================================================== *)
(*  D. ResetGradContext                                                *)
(* ================================================================== *)

Theorem h_reset_spec (h : heap) x tracked :
  length (h_reset h x tracked) = length h /\
  (forall n, nth_error h x = Some n ->
     nth_error (h_reset h x tracked) x = Some (mkNode (nval n) tracked false None [] (nname n))) /\
  (forall j, j <> x -> nth_error (h_reset h x tracked) j = nth_error h j) /\
  erase (h_reset h x tracked) = erase h.
Proof.
  unfold h_reset. split; [apply updNode_length|]. split; [|split].
  - intros n Hn. rewrite updNode_nth_same, Hn. reflexivity.
  - intros j Hj. apply updNode_nth_other. exact Hj.
  - apply erase_updNode. reflexivity.
Qed.

Corollary h_reset_flags (h : heap) x tracked : x < length h ->
  trackedOf (h_reset h x tracked) x = tracked /\ dirtyOf (h_reset h x tracked) x = false /\
  gradOf (h_reset h x tracked) x = None /\ edgesOf (h_reset h x tracked) x = [] /\
  valOf (h_reset h x tracked) x = valOf h x.
Proof.
  intros Hx. destruct (lt_nth_some h x Hx) as [n Hn].
  destruct (h_reset_spec h x tracked) as (_ & Hs & _ & _). specialize (Hs n Hn).
  unfold trackedOf, dirtyOf, gradOf, edgesOf, valOf. rewrite Hs, Hn. cbn. auto.
Qed.

Theorem h_reset_wf (h : heap) x tracked : wf_heap h -> wf_heap (h_reset h x tracked).
Proof.
  intros W i n Hi. unfold h_reset in Hi. rewrite updNode_nth in Hi.
  destruct (nth_error h i) as [m|] eqn:Em; [|discriminate]. cbn in Hi.
  destruct (i =? x); inversion Hi; subst n; cbn; [constructor|eapply W; eauto].
Qed.

(* ================================================================== *)
(*  E1. back-propagation from an untracked root is a no-op             *)
(* ================================================================== *)
Theorem bp_untracked_root rd sealg (h : heap) root :
  trackedOf h root = false -> bp_topo rd sealg h root = (h, [], Ok tt).
Proof. intros H. unfold bp_topo. rewrite H. reflexivity. Qed.

End TrackP.

(* the instances of [h_op1] inherit everything; the tracking rule spelled out for two of them *)
Corollary h_slice_track {A} {SA : Scalar A} (h : @heap A) x index name h' id : h_slice h x index name = (h', Ok id) ->
  exists n, nth_error h' id = Some n /\ ctx_rule h [x] n /\ nname n = name /\
    (exists xv, valOf h x = Some xv /\ v_slice xv index = Ok (nval n)) /\
    (ntracked n = true -> nedges n = [(x, RSliceX id x index)]) /\
    Forall (fun e => fst e < id) (nedges n).
Proof. exact (h_op1_track h x (fun v => v_slice v index) (fun y => RSliceX y x index) name h' id). Qed.

Corollary h_math_track {A} {SA : Scalar A} (h : @heap A) fn x name h' id : h_math h fn x name = (h', Ok id) ->
  exists n, nth_error h' id = Some n /\ ctx_rule h [x] n /\ nname n = name /\
    (exists xv, valOf h x = Some xv /\ v_unary (mathUnary fn) xv = Ok (nval n)) /\
    (ntracked n = true -> nedges n = [(x, mathRule fn id x)]) /\
    Forall (fun e => fst e < id) (nedges n).
Proof. exact (h_op1_track h x (v_unary (mathUnary fn)) (fun y => mathRule fn y x) name h' id). Qed.

(* the other formulation of wf_heap *)
Lemma wf_heap_iff {A} (h : @heap A) :
  wf_heap h <-> (forall c n e, nth_error h c = Some n -> In e (nedges n) -> fst e < c).
Proof.
  unfold wf_heap. split.
  - intros W c n e Hn He. specialize (W c n Hn). rewrite Forall_forall in W. apply W. exact He.
  - intros W i n Hn. apply Forall_forall. intros e He. eapply W; eauto.
Qed.

(* ================================================================== *)
(*  Examples: the hypotheses are satisfiable, the conclusions say something *)
(* ================================================================== *)
Module TrackEx.
Local Open Scope Z_scope.

#[local] Instance Z_scalar : Scalar Z := {|
  s0 := 0; s1 := 1;
  sadd := Z.add; ssub := Z.sub; smul := Z.mul; sdiv := Z.div; spow := fun _ _ => 1;
  sexp := fun a => a; slog := fun a => a; ssin := fun a => a; scos := fun a => a; stan := fun a => a;
  ssinh := fun a => a; scosh := fun a => a; stanh := fun a => a; ssqrt := fun a => a;
  smax := Z.max; smin := Z.min; sselgt := Z.max; ssellt := Z.min;
  seqt := fun a b => if a =? b then 1 else 0; snet := fun a b => if a =? b then 0 else 1;
  sgt := fun a b => if a >? b then 1 else 0; sge := fun a b => if a >=? b then 1 else 0;
  slt := fun a b => if a <? b then 1 else 0; sle := fun a b => if a <=? b then 1 else 0;
  sgeb := fun a b => if a >=? b then 1 else 0; strunc := fun a => a;
  sofnat := Z.of_nat; sconst := fun m e => m * 10 ^ e;
  sneginf := -1000000; sposinf := 1000000; srnd := fun _ k => Z.of_nat k
|}.

Definition vec2 (a b : Z) : tensor Z := mkT [2%nat] (Vec [Sc a; Sc b]).

(* 0: x tracked leaf [3;5];  1: c untracked leaf [1;1];
   2: m = x.Scale(2);  3,4: internal Broadcasts;  5: y = m.Add(c);  6: q = (x > c);  7: z = c.Scale(3) *)
Definition e0 : @heap Z := fst (leaf [] (vec2 3 5) true (Some 0%nat)).
Definition e1 : @heap Z := fst (leaf e0 (vec2 1 1) false (Some 1%nat)).
Definition e2 : @heap Z := fst (h_scale e1 0 2 (Some 2%nat)).
Definition e3 : @heap Z := fst (h_arith e2 BiAdd 2 1 (Some 3%nat)).
Definition e4 : @heap Z := fst (h_cmp e3 BiGt 0 1 (Some 4%nat)).
Definition e5 : @heap Z := fst (h_scale e4 1 3 (Some 5%nat)).

Definition flags (h : @heap Z) := map (fun n => (ntracked n, ndirty n, map fst (nedges n))) h.

Example ex_results :
  snd (h_scale e1 0 2 (Some 2%nat)) = Ok 2%nat /\ snd (h_arith e2 BiAdd 2 1 (Some 3%nat)) = Ok 5%nat /\
  snd (h_cmp e3 BiGt 0 1 (Some 4%nat)) = Ok 6%nat /\ snd (h_scale e4 1 3 (Some 5%nat)) = Ok 7%nat /\
  flags e5 = [(true, false, []); (false, false, []); (true, false, [0]); (true, false, [2]); (false, false, []);
              (true, false, [3; 4]); (false, false, []); (false, false, [])]%nat /\
  erase e5 = [vec2 3 5; vec2 1 1; vec2 6 10; vec2 6 10; vec2 1 1; vec2 7 11; vec2 1 1; vec2 3 3].
Proof. vm_compute. repeat split. Qed.

Example ex_wf : wf_heap e5.
Proof.
  unfold e5, e4, e3, e2, e1, e0.
  apply h_op1_wf, h_cmp_wf, h_arith_wf, h_op1_wf, leaf_wf, leaf_wf, wf_heap_nil.
Qed.

(* the hypotheses of the B theorems hold on the example and the conclusion determines the flags *)
Example ex_arith_track : exists n, nth_error e3 5 = Some n /\ ntracked n = true /\ ndirty n = false /\
  map fst (nedges n) = [3; 4]%nat.
Proof.
  destruct (h_arith_track e2 BiAdd 2 1 (Some 3%nat) e3 5) as (n & Hn & Hr & _ & _ & _ & He & _); [vm_compute; reflexivity|].
  exists n. split; [exact Hn|]. apply ctx_rule2 in Hr. destruct Hr as [Ht Hd].
  assert (T : ntracked n = true) by (rewrite Ht; vm_compute; reflexivity).
  split; [exact T|]. split; [rewrite Hd; vm_compute; reflexivity|]. rewrite (He T). reflexivity.
Qed.

(* C on the example: the same computation on a heap whose contexts were all reset to untracked *)
Definition e2' : @heap Z := h_reset (h_reset e2 0 false) 2 false.
Example ex_values : erase e2' = erase e2 /\ flags e2' <> flags e2 /\
  snd (h_arith e2' BiAdd 2 1 None) = snd (h_arith e2 BiAdd 2 1 (Some 3%nat)) /\
  erase (fst (h_arith e2' BiAdd 2 1 None)) = erase e3 /\
  flags (fst (h_arith e2' BiAdd 2 1 None)) <> flags e3.
Proof.
  assert (E : erase e2' = erase e2) by (vm_compute; reflexivity).
  destruct (h_arith_values e2' e2 BiAdd 2 1 None (Some 3%nat) E) as [Hs He].
  split; [exact E|]. split; [vm_compute; discriminate|]. split; [exact Hs|]. split; [exact He|].
  vm_compute; discriminate.
Qed.

(* D on the example *)
Example ex_reset : nth_error (h_reset e3 5 false) 5 = Some (mkNode (vec2 7 11) false false None [] (Some 3%nat)) /\
  nth_error (h_reset e3 5 false) 2 = nth_error e3 2.
Proof.
  destruct (h_reset_spec e3 5 false) as (_ & Hs & Ho & _). split.
  - apply (Hs (mkNode (vec2 7 11) true false None [(3, RId 5); (4, RId 5)]%nat (Some 3%nat))). vm_compute. reflexivity.
  - apply Ho. discriminate.
Qed.

(* E1 on the example: the comparison result is an untracked root *)
Example ex_bp_untracked : bp_topo RedSum (fun _ g => g) e5 6 = (e5, [], Ok tt).
Proof. apply bp_untracked_root. vm_compute. reflexivity. Qed.

End TrackEx.

Print Assumptions h_op1_frame.
Print Assumptions h_cmp_frame.
Print Assumptions h_elsel_frame.
Print Assumptions h_arith_frame.
Print Assumptions h_dot_frame.
Print Assumptions h_matmul_frame.
Print Assumptions h_patch_frame.
Print Assumptions h_concat_frame.
Print Assumptions h_op1_track.
Print Assumptions h_cmp_track.
Print Assumptions h_elsel_track.
Print Assumptions h_arith_track.
Print Assumptions h_dot_track.
Print Assumptions h_matmul_track.
Print Assumptions h_patch_track.
Print Assumptions h_concat_track.
Print Assumptions h_arith_wf.
Print Assumptions h_concat_wf.
Print Assumptions h_op1_values.
Print Assumptions h_arith_values.
Print Assumptions h_dot_values.
Print Assumptions h_matmul_values.
Print Assumptions h_concat_values.
Print Assumptions h_reset_spec.
Print Assumptions h_reset_wf.
Print Assumptions bp_untracked_root.
