(* HeapAccP.v — accumulateGrad (tensor/internal/gradtrack/back_propagation.go), anyIsBPDirty and nonIsTracked
   (gradtrack.go) as translated by harness/gox into the DataIR programs GoGrad.g_accumulateGrad, g_anyIsBPDirty,
   g_nonIsTracked, run over the model's heap with the oracle HeapExt.hext, ARE the oracle entries "accumulateGrad",
   "anyIsBPDirty", "nonIsTracked" of HeapExt.hext (i.e. Backprop.accumulate / existsb dirtyOf / negb existsb trackedOf). *)
From Coq Require Import String List ZArith Bool Lia Arith.
From Qeep Require Import Model.Scalar Model.Nd Model.Fill Model.Data Model.Valid Model.Api Model.Grad Model.Backprop
     Model.DataIR Model.HeapExt Model.GoGrad Proofs.NdP Proofs.DataIRP Proofs.DataAtP.
From Qeep Require Model.GoIR.
Import ListNotations.
Local Open Scope string_scope.
Local Open Scope Z_scope.
Local Open Scope list_scope.

Section HeapAcc.
Context {A : Type} {SA : Scalar A}.
Variable fapp : string -> list A -> option A.
Variable rd : bred.
Notation T := (tensor A).
Notation heap := (@heap A).
Notation dval := (@dval A).
Notation denv := (@denv A).

(* ================= decoding lemmas ================= *)

Definition unembs : list dval -> option (list (nd A)) :=
  fix go (l : list dval) : option (list (nd A)) :=
    match l with
    | [] => Some []
    | x :: r => match unemb x, go r with Some y, Some ys => Some (y :: ys) | _, _ => None end
    end.

Lemma unemb_DL (l : list dval) :
  unemb (DL l) = match unembs l with Some ys => Some (Vec ys) | None => None end.
Proof. reflexivity. Qed.

Lemma unembs_cons (x : dval) (r : list dval) :
  unembs (x :: r) = match unemb x, unembs r with Some y, Some ys => Some (y :: ys) | _, _ => None end.
Proof. reflexivity. Qed.

Lemma unemb_emb (x : nd A) : unemb (emb x) = Some x.
Proof.
  revert x. apply nd_ind'.
  - intros a. reflexivity.
  - intros l Hl. rewrite emb_Vec, unemb_DL.
    assert (H : unembs (map emb l) = Some l).
    { induction Hl as [|y r Hy Hr IH]; [reflexivity|].
      cbn [map]. rewrite unembs_cons, Hy, IH. reflexivity. }
    rewrite H. reflexivity.
Qed.

Lemma unnats_nats (l : list nat) : unnats (map (fun n => @DI A (Z.of_nat n)) l) = Some l.
Proof.
  induction l as [|n l IH]; [reflexivity|].
  cbn [map unnats]. destruct (0 <=? Z.of_nat n) eqn:E; [|apply Z.leb_gt in E; lia].
  rewrite IH, Nat2Z.id. reflexivity.
Qed.

Lemma unnats_dnats (l : list nat) : match @dnats A l with DL ds => unnats ds | _ => None end = Some l.
Proof. unfold dnats. apply unnats_nats. Qed.

Lemma unembT_embT (t : T) : unembT (embT t) = Some t.
Proof.
  destruct t as [ds d]. unfold embT, dnats. cbn [unembT dims data].
  rewrite unnats_nats, unemb_emb. reflexivity.
Qed.

Lemma nodeId_nat (h : heap) (n : nat) : (n < length h)%nat -> nodeId h (DI (Z.of_nat n)) = Some n.
Proof.
  intros H. unfold nodeId. rewrite Nat2Z.id.
  destruct (0 <=? Z.of_nat n) eqn:E; [|apply Z.leb_gt in E; lia].
  apply Nat.ltb_lt in H. rewrite H. reflexivity.
Qed.

Lemma nodeId_lt (h : heap) (v : dval) (n : nat) : nodeId h v = Some n -> (n < length h)%nat.
Proof.
  unfold nodeId. destruct v as [z| | | | |]; try discriminate.
  destruct (0 <=? z); cbn [andb]; [|discriminate].
  destruct (Nat.ltb (Z.to_nat z) (length h)) eqn:E; [|discriminate].
  intros H; inversion H; subst. now apply Nat.ltb_lt.
Qed.

Lemma mapM_nodeId_nats (h : heap) (ns : list nat) :
  Forall (fun n => (n < length h)%nat) ns ->
  mapM (nodeId h) (map (fun n => @DI A (Z.of_nat n)) ns) = Some ns.
Proof.
  induction 1 as [|n ns Hn Hns IH]; [reflexivity|].
  cbn [map mapM]. rewrite (nodeId_nat _ _ Hn). cbn [obind]. rewrite IH. reflexivity.
Qed.

(* ================= the oracle entries used, one equation each ================= *)

Lemma hext_gradContextOf v (h : heap) :
  hext rd "gradContextOf" [v] h = do n <- nodeId h v; Some ([DI (Z.of_nat n)], h).
Proof. reflexivity. Qed.
Lemma hext_get_bpdirty v (h : heap) :
  hext rd "get.bpdirty" [v] h = do n <- nodeId h v; Some ([DB (dirtyOf h n)], h).
Proof. reflexivity. Qed.
Lemma hext_get_tracked v (h : heap) :
  hext rd "get.tracked" [v] h = do n <- nodeId h v; Some ([DB (trackedOf h n)], h).
Proof. reflexivity. Qed.
Lemma hext_get_gradient v (h : heap) :
  hext rd "get.gradient" [v] h =
  do n <- nodeId h v; Some ([match gradOf h n with Some g => embT g | None => DNil end], h).
Proof. reflexivity. Qed.
Lemma hext_set_gradient_nil v (h : heap) :
  hext rd "set.gradient" [v; DNil] h = do n <- nodeId h v; Some ([], setGrad h n None).
Proof. reflexivity. Qed.
Lemma hext_set_gradient v gv (h : heap) : gv <> DNil ->
  hext rd "set.gradient" [v; gv] h = do n <- nodeId h v; do g <- unembT gv; Some ([], setGrad h n (Some g)).
Proof. intros H. destruct gv; try reflexivity. congruence. Qed.
Lemma hext_Add a b (h : heap) :
  hext rd "Add" [a; b] h = do x <- unembT a; do y <- unembT b; do r <- retT (v_arith BiAdd x y); Some (r, h).
Proof. reflexivity. Qed.
Lemma hext_anyIsBPDirty vs (h : heap) :
  hext rd "anyIsBPDirty" [DL vs] h = do ns <- mapM (nodeId h) vs; Some ([DB (existsb (dirtyOf h) ns)], h).
Proof. reflexivity. Qed.
Lemma hext_nonIsTracked vs (h : heap) :
  hext rd "nonIsTracked" [DL vs] h = do ns <- mapM (nodeId h) vs; Some ([DB (negb (existsb (trackedOf h) ns))], h).
Proof. reflexivity. Qed.
Lemma hext_accumulateGrad v gv (h : heap) :
  hext rd "accumulateGrad" [v; gv] h =
  do n <- nodeId h v; do g <- unembT gv;
  match accumulate h n g with
  | (h', Ok _) => Some ([DI 0], h')
  | (h', Err) => Some ([DI 1], setGrad h n None)
  | (_, Panic) => None
  end.
Proof. reflexivity. Qed.

(* ================= (1) anyIsBPDirty / nonIsTracked ================= *)

(* for t := range ts { if P(t) { return ret } }   for an abstract body; the state is the heap h, never changed *)
Lemma flag_loop (h : heap) (P : nat -> bool) (ret : bool)
      (body : heap -> denv -> denv -> @doutcome A heap)
      (assign : denv -> denv -> Z -> dval -> denv * denv) :
  (forall g k v n, nodeId h v = Some n ->
     let '(g0, l0) := assign g [] k v in
     if P n then exists g1, body h g0 l0 = DRet heap [DB ret] h g1 []
     else exists g1, body h g0 l0 = DNormal heap h g1 []) ->
  forall vs ns, mapM (nodeId h) vs = Some ns -> forall k g,
  if existsb P ns then exists g1, drangeLoop heap body assign vs k h g [] = DRet heap [DB ret] h g1 []
  else exists g1, drangeLoop heap body assign vs k h g [] = DNormal heap h g1 [].
Proof.
  intros Hb. induction vs as [|v vs IH]; intros ns Hm k g.
  - cbn in Hm. inversion Hm; subst. cbn. eauto.
  - cbn [mapM] in Hm. destruct (nodeId h v) as [n|] eqn:En; cbn [obind] in Hm; [|discriminate].
    destruct (mapM (nodeId h) vs) as [ns'|] eqn:Em; cbn [obind] in Hm; [|discriminate].
    inversion Hm; subst ns. cbn [existsb drangeLoop].
    pose proof (Hb g k v n En) as H1.
    destruct (assign g [] k v) as [g0 l0].
    destruct (P n); cbn [orb].
    + destruct H1 as [g1 H1]. rewrite H1. eauto.
    + destruct H1 as [g1 H1]. rewrite H1. apply (IH ns' eq_refl).
Qed.

Theorem anyIsBPDirty_hext fuel depth (h : heap) (vs : list dval) (ns : list nat) :
  mapM (nodeId h) vs = Some ns ->
  exists g l, drun fapp heap (hext rd) g_anyIsBPDirty fuel depth [DL vs] h
              = DRet heap [DB (existsb (dirtyOf h) ns)] h g l.
Proof.
  intros Hm. unfold drun, g_anyIsBPDirty. cbn [pmain dbody plocals dparams dbind]. dxs.
  match goal with |- context [drangeLoop heap ?b ?asg _ _ _ ?g0 ?l0] =>
    pose proof (flag_loop h (dirtyOf h) true b asg) as HL
  end.
  match type of HL with ?P -> _ => assert (Hspec : P) end.
  { intros g k v n En. cbv beta iota.
    pose proof (nodeId_lt _ _ _ En) as Hlt.
    autorewrite with dataexec. cbn [deval devals]. unfold vlookup. cbn [dlookup].
    rewrite !dlookup_dupd. cbn [String.eqb Ascii.eqb Bool.eqb].
    rewrite hext_gradContextOf, En. cbn [obind dassignAll vdefine].
    autorewrite with dataexec. cbn [deval devals]. unfold vlookup. cbn [dlookup].
    rewrite !dlookup_dupd. cbn [String.eqb Ascii.eqb Bool.eqb].
    cbn [vdefine].
    autorewrite with dataexec. cbn [deval devals]. unfold vlookup. cbn [dlookup].
    rewrite !dlookup_dupd. cbn [String.eqb Ascii.eqb Bool.eqb].
    rewrite hext_get_bpdirty, (nodeId_nat _ _ Hlt). cbn [obind dassignAll vdefine].
    autorewrite with dataexec. cbn [deval devals]. unfold vlookup. cbn [dlookup].
    rewrite !dlookup_dupd. cbn [String.eqb Ascii.eqb Bool.eqb].
    destruct (dirtyOf h n); autorewrite with dataexec; cbn [deval devals]; eauto. }
  specialize (HL Hspec vs ns Hm 0 [("ts", DL vs); ("ok", DB false)]).
  destruct (existsb (dirtyOf h) ns).
  - destruct HL as [g1 HL]. rewrite HL. eauto.
  - destruct HL as [g1 HL]. rewrite HL. dxs. eauto.
Qed.

Theorem nonIsTracked_hext fuel depth (h : heap) (vs : list dval) (ns : list nat) :
  mapM (nodeId h) vs = Some ns ->
  exists g l, drun fapp heap (hext rd) g_nonIsTracked fuel depth [DL vs] h
              = DRet heap [DB (negb (existsb (trackedOf h) ns))] h g l.
Proof.
  intros Hm. unfold drun, g_nonIsTracked. cbn [pmain dbody plocals dparams dbind]. dxs.
  match goal with |- context [drangeLoop heap ?b ?asg _ _ _ ?g0 ?l0] =>
    pose proof (flag_loop h (trackedOf h) false b asg) as HL
  end.
  match type of HL with ?P -> _ => assert (Hspec : P) end.
  { intros g k v n En. cbv beta iota.
    pose proof (nodeId_lt _ _ _ En) as Hlt.
    autorewrite with dataexec. cbn [deval devals]. unfold vlookup. cbn [dlookup].
    rewrite !dlookup_dupd. cbn [String.eqb Ascii.eqb Bool.eqb].
    rewrite hext_gradContextOf, En. cbn [obind dassignAll vdefine].
    autorewrite with dataexec. cbn [deval devals]. unfold vlookup. cbn [dlookup].
    rewrite !dlookup_dupd. cbn [String.eqb Ascii.eqb Bool.eqb].
    cbn [vdefine].
    autorewrite with dataexec. cbn [deval devals]. unfold vlookup. cbn [dlookup].
    rewrite !dlookup_dupd. cbn [String.eqb Ascii.eqb Bool.eqb].
    rewrite hext_get_tracked, (nodeId_nat _ _ Hlt). cbn [obind dassignAll vdefine].
    autorewrite with dataexec. cbn [deval devals]. unfold vlookup. cbn [dlookup].
    rewrite !dlookup_dupd. cbn [String.eqb Ascii.eqb Bool.eqb].
    destruct (trackedOf h n); autorewrite with dataexec; cbn [deval devals]; eauto. }
  specialize (HL Hspec vs ns Hm 0 [("ts", DL vs); ("ok", DB false)]).
  destruct (existsb (trackedOf h) ns); cbn [negb].
  - destruct HL as [g1 HL]. rewrite HL. eauto.
  - destruct HL as [g1 HL]. rewrite HL. dxs. eauto.
Qed.

(* the statements on lists of node ids *)
Theorem anyIsBPDirty_run fuel depth (h : heap) (ns : list nat) :
  Forall (fun n => (n < length h)%nat) ns ->
  exists g l, drun fapp heap (hext rd) g_anyIsBPDirty fuel depth [DL (map (fun n => DI (Z.of_nat n)) ns)] h
              = DRet heap [DB (existsb (dirtyOf h) ns)] h g l.
Proof. intros H. apply anyIsBPDirty_hext. now apply mapM_nodeId_nats. Qed.

Theorem nonIsTracked_run fuel depth (h : heap) (ns : list nat) :
  Forall (fun n => (n < length h)%nat) ns ->
  exists g l, drun fapp heap (hext rd) g_nonIsTracked fuel depth [DL (map (fun n => DI (Z.of_nat n)) ns)] h
              = DRet heap [DB (negb (existsb (trackedOf h) ns))] h g l.
Proof. intros H. apply nonIsTracked_hext. now apply mapM_nodeId_nats. Qed.

(* agreement with the oracle entries, in the form used for accumulateGrad below *)
Definition agrees (o : @doutcome A heap) (r : option (list dval * heap)) : Prop :=
  match r with
  | Some (rs, h') => exists g l, o = DRet heap rs h' g l
  | None => o = DPanic heap
  end.

Corollary anyIsBPDirty_agrees fuel depth (h : heap) (ns : list nat) :
  Forall (fun n => (n < length h)%nat) ns ->
  let args := [DL (map (fun n => DI (Z.of_nat n)) ns)] in
  agrees (drun fapp heap (hext rd) g_anyIsBPDirty fuel depth args h) (hext rd "anyIsBPDirty" args h).
Proof.
  intros H args. subst args. rewrite hext_anyIsBPDirty, (mapM_nodeId_nats _ _ H). cbn [obind agrees].
  now apply anyIsBPDirty_run.
Qed.

Corollary nonIsTracked_agrees fuel depth (h : heap) (ns : list nat) :
  Forall (fun n => (n < length h)%nat) ns ->
  let args := [DL (map (fun n => DI (Z.of_nat n)) ns)] in
  agrees (drun fapp heap (hext rd) g_nonIsTracked fuel depth args h) (hext rd "nonIsTracked" args h).
Proof.
  intros H args. subst args. rewrite hext_nonIsTracked, (mapM_nodeId_nats _ _ H). cbn [obind agrees].
  now apply nonIsTracked_run.
Qed.

(* ================= (2) accumulateGrad ================= *)

Theorem accumulateGrad_general fuel depth (h : heap) (v gv : dval) (g : T) :
  unembT gv = Some g ->
  agrees (drun fapp heap (hext rd) g_accumulateGrad fuel depth [v; gv] h) (hext rd "accumulateGrad" [v; gv] h).
Proof.
  intros Hg.
  assert (Hnil : gv <> DNil) by (intros ->; discriminate).
  rewrite hext_accumulateGrad, Hg.
  unfold drun, g_accumulateGrad. cbn [pmain dbody plocals dparams dbind]. dxs.
  rewrite hext_get_gradient.
  destruct (nodeId h v) as [n|] eqn:En; cbn [obind agrees]; [|reflexivity].
  unfold accumulate.
  destruct (gradOf h n) as [g0|] eqn:Eg.
  - dxs. unfold embT at 1. dxs.
    rewrite hext_get_gradient, En. cbn [obind]. rewrite Eg. dxs.
    rewrite hext_Add, unembT_embT, Hg. cbn [obind].
    destruct (v_arith BiAdd g0 g) as [s| |]; cbn [retT obind agrees]; [| |reflexivity].
    + dxs. rewrite hext_set_gradient by (unfold embT; discriminate).
      rewrite En, unembT_embT. cbn [obind]. dxs. cbn [Z.eqb]. dxs. eauto.
    + dxs. rewrite hext_set_gradient_nil, En. cbn [obind]. dxs. cbn [Z.eqb]. dxs. eauto.
  - dxs. rewrite (hext_set_gradient _ _ _ Hnil), En, Hg. cbn [obind]. dxs. cbn [agrees]. eauto.
Qed.

(* the main theorem: on a node id and an embedded gradient value the program IS the oracle entry "accumulateGrad" *)
Theorem accumulateGrad_agrees fuel depth (h : heap) (n : nat) (g : T) :
  (n < length h)%nat ->
  let args := [DI (Z.of_nat n); embT g] in
  agrees (drun fapp heap (hext rd) g_accumulateGrad fuel depth args h) (hext rd "accumulateGrad" args h).
Proof. intros _ args. subst args. apply (accumulateGrad_general _ _ _ _ _ g). apply unembT_embT. Qed.

(* what the program does, in terms of the model's [accumulate] *)
Theorem accumulateGrad_run fuel depth (h : heap) (n : nat) (g : T) :
  (n < length h)%nat ->
  let run := drun fapp heap (hext rd) g_accumulateGrad fuel depth [DI (Z.of_nat n); embT g] h in
  match accumulate h n g with
  | (h', Ok _) => exists g' l', run = DRet heap [DI 0] h' g' l'
  | (_, Err) => exists g' l', run = DRet heap [DI 1] (setGrad h n None) g' l'
  | (_, Panic) => run = DPanic heap
  end.
Proof.
  intros Hn run. subst run.
  pose proof (accumulateGrad_agrees fuel depth h n g Hn) as H. cbv zeta in H.
  rewrite hext_accumulateGrad, (nodeId_nat _ _ Hn), unembT_embT in H. cbn [obind] in H.
  destruct (accumulate h n g) as [h' [[]| |]]; exact H.
Qed.

(* the model's [accumulate] leaves the heap unchanged on Err, the Go code has already stored the nil result:
   the two final heaps differ exactly when the node had a gradient *)
Lemma accumulate_Err_heap (h : heap) (n : nat) (g : T) h' :
  accumulate h n g = (h', Err) -> h' = h /\ exists g0, gradOf h n = Some g0 /\ gradOf (setGrad h n None) n = None.
Proof.
  unfold accumulate. destruct (gradOf h n) as [g0|] eqn:Eg; [|discriminate].
  destruct (v_arith BiAdd g0 g); try discriminate. intros E. assert (E' : h' = h) by congruence. subst h'. clear E. split; [reflexivity|].
  exists g0. split; [reflexivity|].
  unfold gradOf in *. destruct (nth_error h n) as [nd|] eqn:En; [|discriminate].
  unfold setGrad, updNode.
  assert (Hlt : (n < length h)%nat) by (apply nth_error_Some; congruence).
  rewrite nth_error_map.
  assert (Hc : nth_error (combine (seq 0 (length h)) h) n = Some (n, nd)).
  { clear -En Hlt. 
    assert (G : forall (l : list (@node A)) k i x, nth_error l i = Some x ->
                nth_error (combine (seq k (length l)) l) i = Some ((k + i)%nat, x)).
    { induction l as [|a l IH]; intros k [|i] x Hx; cbn in *; try discriminate.
      - inversion Hx; subst. now rewrite Nat.add_0_r.
      - rewrite (IH (S k) i x Hx). f_equal. f_equal. lia. }
    now rewrite (G h 0%nat n nd En). }
  rewrite Hc. cbn [option_map fst snd]. rewrite Nat.eqb_refl. reflexivity.
Qed.

(* ---- outside the domain the programs and the oracle entries differ (inputs the callers never build) ---- *)

(* a nil gradient VALUE accumulated on a node without gradient: the Go code stores nil and returns nil, the oracle
   entry is undefined (unembT DNil = None) *)
Lemma accumulateGrad_nil_value fuel depth (h : heap) (n : nat) :
  (n < length h)%nat -> gradOf h n = None ->
  (exists g' l', drun fapp heap (hext rd) g_accumulateGrad fuel depth [DI (Z.of_nat n); DNil] h
                 = DRet heap [DI 0] (setGrad h n None) g' l') /\
  hext rd "accumulateGrad" [DI (Z.of_nat n); DNil] h = None.
Proof.
  intros Hn Eg. split.
  - unfold drun, g_accumulateGrad. cbn [pmain dbody plocals dparams dbind]. dxs.
    rewrite hext_get_gradient, (nodeId_nat _ _ Hn). cbn [obind]. rewrite Eg. dxs.
    rewrite hext_set_gradient_nil, (nodeId_nat _ _ Hn). cbn [obind]. dxs. eauto.
  - rewrite hext_accumulateGrad, (nodeId_nat _ _ Hn). reflexivity.
Qed.

(* anyIsBPDirty returns at the first dirty tensor without looking at the rest; the oracle entry decodes the whole list *)
Lemma anyIsBPDirty_early fuel depth (h : heap) (n : nat) (rest : list dval) :
  (n < length h)%nat -> dirtyOf h n = true ->
  exists g l, drun fapp heap (hext rd) g_anyIsBPDirty fuel depth [DL (DI (Z.of_nat n) :: rest)] h
              = DRet heap [DB true] h g l.
Proof.
  intros Hn Hd. unfold drun, g_anyIsBPDirty. cbn [pmain dbody plocals dparams dbind]. dxs.
  cbn [drangeLoop]. dxs.
  rewrite hext_gradContextOf, (nodeId_nat _ _ Hn). cbn [obind]. dxs.
  rewrite hext_get_bpdirty, (nodeId_nat _ _ Hn). cbn [obind]. rewrite Hd. dxs. eauto.
Qed.

End HeapAcc.

Print Assumptions unemb_emb.
Print Assumptions unembT_embT.
Print Assumptions nodeId_nat.
Print Assumptions anyIsBPDirty_hext.
Print Assumptions nonIsTracked_hext.
Print Assumptions anyIsBPDirty_run.
Print Assumptions nonIsTracked_run.
Print Assumptions anyIsBPDirty_agrees.
Print Assumptions nonIsTracked_agrees.
Print Assumptions accumulateGrad_general.
Print Assumptions accumulateGrad_agrees.
Print Assumptions accumulateGrad_run.
Print Assumptions accumulate_Err_heap.
Print Assumptions accumulateGrad_nil_value.
Print Assumptions anyIsBPDirty_early.

(* concrete runs over the free term algebra: one node holding a gradient of shape [2] *)
Definition ex_t2 (a b : nat) : tensor term := mkT [2%nat] (Vec [Sc (TVal 0 a); Sc (TVal 0 b)]).
Definition ex_heap : @heap term := [mkNode (ex_t2 0 1) true true (Some (ex_t2 2 3)) [] None;
                                    mkNode (ex_t2 0 1) false false None [] None].
Definition ex_fapp : string -> list term -> option term := fun _ _ => None.

(* shapes agree: the sum is stored, nil error *)
Example accumulate_example_ok :
  match drun ex_fapp heap (hext RedSum) g_accumulateGrad 1 1 [DI 0; embT (ex_t2 4 5)] ex_heap with
  | DRet _ [DI 0] h' _ _ =>
      gradOf h' 0 = Some (mkT [2%nat] (Vec [Sc (TBin BAdd (TVal 0 2) (TVal 0 4)); Sc (TBin BAdd (TVal 0 3) (TVal 0 5))]))
      /\ h' = fst (accumulate ex_heap 0 (ex_t2 4 5))
  | _ => False
  end.
Proof. vm_compute. split; reflexivity. Qed.

(* shapes differ: Add fails; the Go code has stored the nil tensor before returning the error, the model's
   [accumulate] keeps the old gradient *)
Example accumulate_example_err :
  let g := mkT [3%nat] (Vec [Sc (TVal 0 4); Sc (TVal 0 5); Sc (TVal 0 6)]) in
  match drun ex_fapp heap (hext RedSum) g_accumulateGrad 1 1 [DI 0; embT g] ex_heap with
  | DRet _ [DI 1] h' _ _ =>
      gradOf h' 0 = None /\ accumulate ex_heap 0 g = (ex_heap, Err) /\ gradOf ex_heap 0 = Some (ex_t2 2 3)
  | _ => False
  end.
Proof. vm_compute. repeat split; reflexivity. Qed.

Example flags_example :
  (exists g l, drun ex_fapp heap (hext RedSum) g_anyIsBPDirty 1 1 [DL [DI 1; DI 0]] ex_heap = DRet heap [DB true] ex_heap g l) /\
  (exists g l, drun ex_fapp heap (hext RedSum) g_nonIsTracked 1 1 [DL [DI 1]] ex_heap = DRet heap [DB true] ex_heap g l) /\
  (exists g l, drun ex_fapp heap (hext RedSum) g_nonIsTracked 1 1 [DL [DI 1; DI 0]] ex_heap = DRet heap [DB false] ex_heap g l).
Proof. vm_compute. repeat split; eexists; eexists; reflexivity. Qed.
