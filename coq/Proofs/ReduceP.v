(* ReduceP.v — reducers.go: the whole-tensor reducers are left folds over the row-major
   element sequence; reduceAlong reduces every one-dimensional fibre along [dim].
   Everything holds for an arbitrary [Scalar A] with no laws: the statements are exact
   expressions (valid for IEEE doubles). *)
From Coq Require Import List Arith ZArith Bool Lia.
From Qeep Require Import Model.Scalar Model.Nd Model.Fill Model.Data Model.Valid Model.Api
  Proofs.NdP Proofs.FillP.
Import ListNotations.

(* ---------- foldM ---------- *)
Lemma foldM_all_some {T U} (f : U -> T -> option U) (g : U -> T -> U) l :
  forall u, (forall v x, In x l -> f v x = Some (g v x)) -> foldM f l u = Some (fold_left g l u).
Proof.
  induction l as [|a l IH]; intros u H; cbn [foldM fold_left]; [reflexivity|].
  rewrite (H u a (or_introl eq_refl)). cbn [obind]. apply IH.
  intros v x Hx. apply H. right. exact Hx.
Qed.

Section Reduce.
Context {A : Type} {SA : Scalar A}.
Notation T := (tensor A).

(* ====================================================================== *)
(* 1. trav is a left fold over the row-major element sequence             *)
(* ====================================================================== *)

Lemma flat_list_fold (af : A -> A -> A) (l : list (nd A)) : forall v,
  fold_left af (flat_list A l) v = fold_left (fun w r => fold_left af (flat r) w) l v.
Proof.
  induction l as [|y l IH]; intros v; cbn [flat_list fold_left]; [reflexivity|].
  rewrite fold_left_app. apply IH.
Qed.

Theorem trav_spec (af : A -> A -> A) ds : forall x v,
  wfnd ds x -> trav af ds x v = Some (fold_left af (flat x) v).
Proof.
  induction ds as [|d ds IH]; intros x v Hx.
  - apply wfnd_nil in Hx as (a & ->). reflexivity.
  - apply wfnd_cons in Hx as (l & -> & _ & Hf). cbn [trav asV obind].
    rewrite flat_Vec, flat_list_fold.
    apply foldM_all_some. intros w r Hr. apply IH.
    rewrite Forall_forall in Hf. apply Hf, Hr.
Qed.

Lemma reduceBy_spec (af : A -> A -> A) (e : A) (t : T) :
  wfnd (dims t) (data t) -> reduceBy af e t = Some (fold_left af (flat (data t)) e).
Proof. intros H. unfold reduceBy. apply trav_spec, H. Qed.

(* ====================================================================== *)
(* 2. whole-tensor reducers                                               *)
(* ====================================================================== *)

(* the reducers on a list of elements (specification) *)
Definition sumL (xs : list A) : A := fold_left sadd xs s0.
Definition maxL (xs : list A) : A := fold_left sselgt xs sneginf.
Definition minL (xs : list A) : A := fold_left ssellt xs sposinf.
Definition meanL (xs : list A) : A := sdiv (sumL xs) (sofnat (length xs)).
Definition varL (xs : list A) : A :=
  if 1 <? length xs
  then sdiv (fold_left (fun s x => sadd s (spow (ssub x (meanL xs)) (sconst 2 0))) xs s0)
            (ssub (sofnat (length xs)) s1)
  else s0.
Definition stdL (xs : list A) : A := ssqrt (varL xs).
Definition redL (r : reducer) : list A -> A :=
  match r with
  | RdSum => sumL | RdMax => maxL | RdMin => minL | RdAvg => meanL
  | RdVar => varL | RdStd => stdL | RdMean => meanL
  end.

Lemma flat_data_length (t : T) : wf t -> length (flat (data t)) = prodn (dims t).
Proof. intros [H _]. apply (flat_length A _ _ H). Qed.

Section Whole.
Variable t : T.
Hypothesis Hw : wf t.
Local Notation xs := (flat (data t)).
Local Notation n := (prodn (dims t)).
Local Notation mu := (sdiv (fold_left sadd xs s0) (sofnat n)).

Theorem r_sum_spec : r_sum t = Some (fold_left sadd xs s0).
Proof. apply reduceBy_spec, Hw. Qed.

Theorem r_max_spec : r_max t = Some (fold_left sselgt xs sneginf).
Proof. apply (reduceBy_spec (fun a b => sselgt a b)), Hw. Qed.

Theorem r_min_spec : r_min t = Some (fold_left ssellt xs sposinf).
Proof. apply (reduceBy_spec (fun a b => ssellt a b)), Hw. Qed.

Theorem r_avg_spec : r_avg t = Some (sdiv (fold_left sadd xs s0) (sofnat n)).
Proof. unfold r_avg. rewrite r_sum_spec. reflexivity. Qed.

Theorem r_mean_spec : r_mean t = Some (sdiv (fold_left sadd xs s0) (sofnat n)).
Proof. apply r_avg_spec. Qed.

Theorem r_var_spec :
  r_var t = Some (if 1 <? n
                  then sdiv (fold_left (fun s x => sadd s (spow (ssub x mu) (sconst 2 0))) xs s0)
                            (ssub (sofnat n) s1)
                  else s0).
Proof.
  unfold r_var. rewrite r_mean_spec. cbn [obind].
  rewrite reduceBy_spec by apply Hw. cbn [obind]. unfold numElems.
  destruct (1 <? n); reflexivity.
Qed.

Theorem r_std_spec :
  r_std t = Some (ssqrt (if 1 <? n
                  then sdiv (fold_left (fun s x => sadd s (spow (ssub x mu) (sconst 2 0))) xs s0)
                            (ssub (sofnat n) s1)
                  else s0)).
Proof. unfold r_std. rewrite r_var_spec. reflexivity. Qed.

(* a single element has variance 0 (exactly [s0], no division is performed) *)
Corollary r_var_single : n = 1 -> r_var t = Some s0.
Proof. intros E. rewrite r_var_spec, E. reflexivity. Qed.

(* all seven at once, in terms of the list reducers *)
Theorem reduce_spec rd : reduce rd t = Some (redL rd xs).
Proof.
  assert (En : length xs = n) by (apply flat_data_length, Hw).
  destruct rd; cbn [reduce redL]; unfold meanL, stdL, varL, meanL, sumL, maxL, minL; rewrite ?En.
  - apply r_sum_spec.
  - apply r_max_spec.
  - apply r_min_spec.
  - apply r_avg_spec.
  - apply r_var_spec.
  - apply r_std_spec.
  - apply r_mean_spec.
Qed.

Theorem v_reduce_total rd : exists a, v_reduce rd t = Ok a.
Proof. unfold v_reduce. rewrite reduce_spec. eexists; reflexivity. Qed.

Corollary v_reduce_spec rd : v_reduce rd t = Ok (redL rd xs).
Proof. unfold v_reduce. rewrite reduce_spec. reflexivity. Qed.

End Whole.

End Reduce.
