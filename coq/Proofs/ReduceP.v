(* ReduceP.v — reducers.go: the whole-tensor reducers are left folds over the row-major
   element sequence; reduceAlong reduces every one-dimensional fibre along [dim].
   Everything holds for an arbitrary [Scalar A] with no laws: the statements are exact
   expressions (valid for IEEE doubles). *)
From Coq Require Import List Arith ZArith Bool Lia.
From Qeep Require Import Model.Scalar Model.Nd Model.Fill Model.Data Model.Valid Model.Api
  Proofs.NdP Proofs.FillP.
Import ListNotations.

(* ---------- foldM ---------- *)
Lemma foldM_all_some {T U} (f : U -> T -> option U) (g : U -> T -> U) l :
  forall u, (forall v x, In x l -> f v x = Some (g v x)) -> foldM f l u = Some (fold_left g l u).
Proof.
  induction l as [|a l IH]; intros u H; cbn [foldM fold_left]; [reflexivity|].
  rewrite (H u a (or_introl eq_refl)). cbn [obind]. apply IH.
  intros v x Hx. apply H. right. exact Hx.
Qed.

Section Reduce.
Context {A : Type} {SA : Scalar A}.
Notation T := (tensor A).

(* ====================================================================== *)
(* 1. trav is a left fold over the row-major element sequence             *)
(* ====================================================================== *)

Lemma flat_list_fold (af : A -> A -> A) (l : list (nd A)) : forall v,
  fold_left af (flat_list A l) v = fold_left (fun w r => fold_left af (flat r) w) l v.
Proof.
  induction l as [|y l IH]; intros v; cbn [flat_list fold_left]; [reflexivity|].
  rewrite fold_left_app. apply IH.
Qed.

Theorem trav_spec (af : A -> A -> A) ds : forall x v,
  wfnd ds x -> trav af ds x v = Some (fold_left af (flat x) v).
Proof.
  induction ds as [|d ds IH]; intros x v Hx.
  - apply wfnd_nil in Hx as (a & ->). reflexivity.
  - apply wfnd_cons in Hx as (l & -> & _ & Hf). cbn [trav asV obind].
    rewrite flat_Vec, flat_list_fold.
    apply foldM_all_some. intros w r Hr. apply IH.
    rewrite Forall_forall in Hf. apply Hf, Hr.
Qed.

Lemma reduceBy_spec (af : A -> A -> A) (e : A) (t : T) :
  wfnd (dims t) (data t) -> reduceBy af e t = Some (fold_left af (flat (data t)) e).
Proof. intros H. unfold reduceBy. apply trav_spec, H. Qed.

(* ====================================================================== *)
(* 2. whole-tensor reducers                                               *)
(* ====================================================================== *)

(* the reducers on a list of elements (specification) *)
Definition sumL (xs : list A) : A := fold_left sadd xs s0.
Definition maxL (xs : list A) : A := fold_left sselgt xs sneginf.
Definition minL (xs : list A) : A := fold_left ssellt xs sposinf.
Definition meanL (xs : list A) : A := sdiv (sumL xs) (sofnat (length xs)).
Definition varL (xs : list A) : A :=
  if 1 <? length xs
  then sdiv (fold_left (fun s x => sadd s (spow (ssub x (meanL xs)) (sconst 2 0))) xs s0)
            (ssub (sofnat (length xs)) s1)
  else s0.
Definition stdL (xs : list A) : A := ssqrt (varL xs).
Definition redL (r : reducer) : list A -> A :=
  match r with
  | RdSum => sumL | RdMax => maxL | RdMin => minL | RdAvg => meanL
  | RdVar => varL | RdStd => stdL | RdMean => meanL
  end.

Lemma flat_data_length (t : T) : wf t -> length (flat (data t)) = prodn (dims t).
Proof. intros [H _]. apply (flat_length A _ _ H). Qed.

Section Whole.
Variable t : T.
Hypothesis Hw : wf t.
Local Notation xs := (flat (data t)).
Local Notation n := (prodn (dims t)).
Local Notation mu := (sdiv (fold_left sadd xs s0) (sofnat n)).

Theorem r_sum_spec : r_sum t = Some (fold_left sadd xs s0).
Proof. apply reduceBy_spec, Hw. Qed.

Theorem r_max_spec : r_max t = Some (fold_left sselgt xs sneginf).
Proof. apply (reduceBy_spec (fun a b => sselgt a b)), Hw. Qed.

Theorem r_min_spec : r_min t = Some (fold_left ssellt xs sposinf).
Proof. apply (reduceBy_spec (fun a b => ssellt a b)), Hw. Qed.

Theorem r_avg_spec : r_avg t = Some (sdiv (fold_left sadd xs s0) (sofnat n)).
Proof. unfold r_avg. rewrite r_sum_spec. reflexivity. Qed.

Theorem r_mean_spec : r_mean t = Some (sdiv (fold_left sadd xs s0) (sofnat n)).
Proof. apply r_avg_spec. Qed.

Theorem r_var_spec :
  r_var t = Some (if 1 <? n
                  then sdiv (fold_left (fun s x => sadd s (spow (ssub x mu) (sconst 2 0))) xs s0)
                            (ssub (sofnat n) s1)
                  else s0).
Proof.
  unfold r_var. rewrite r_mean_spec. cbn [obind].
  rewrite reduceBy_spec by apply Hw. cbn [obind]. unfold numElems.
  destruct (1 <? n); reflexivity.
Qed.

Theorem r_std_spec :
  r_std t = Some (ssqrt (if 1 <? n
                  then sdiv (fold_left (fun s x => sadd s (spow (ssub x mu) (sconst 2 0))) xs s0)
                            (ssub (sofnat n) s1)
                  else s0)).
Proof. unfold r_std. rewrite r_var_spec. reflexivity. Qed.

(* a single element has variance 0 (exactly [s0], no division is performed) *)
Corollary r_var_single : n = 1 -> r_var t = Some s0.
Proof. intros E. rewrite r_var_spec, E. reflexivity. Qed.

(* all seven at once, in terms of the list reducers *)
Theorem reduce_spec rd : reduce rd t = Some (redL rd xs).
Proof.
  assert (En : length xs = n) by (apply flat_data_length, Hw).
  destruct rd; cbn [reduce redL]; unfold meanL, stdL, varL, meanL, sumL, maxL, minL; rewrite ?En.
  - apply r_sum_spec.
  - apply r_max_spec.
  - apply r_min_spec.
  - apply r_avg_spec.
  - apply r_var_spec.
  - apply r_std_spec.
  - apply r_mean_spec.
Qed.

Theorem v_reduce_total rd : exists a, v_reduce rd t = Ok a.
Proof. unfold v_reduce. rewrite reduce_spec. eexists; reflexivity. Qed.

Corollary v_reduce_spec rd : v_reduce rd t = Ok (redL rd xs).
Proof. unfold v_reduce. rewrite reduce_spec. reflexivity. Qed.

End Whole.

End Reduce.

(* ====================================================================== *)
(* 3. reduceAlong                                                         *)
(* ====================================================================== *)

(* ---------- deleting / inserting a position ---------- *)
Definition del {X} (k : nat) (l : list X) : list X := firstn k l ++ skipn (S k) l.
Definition ins {X} (k : nat) (v : X) (l : list X) : list X := firstn k l ++ v :: skipn k l.

Lemma squeezeDims_del dim ds : squeezeDims dim ds = del dim ds.
Proof. reflexivity. Qed.

Lemma del_0 {X} (a : X) l : del 0 (a :: l) = l.
Proof. reflexivity. Qed.
Lemma del_S {X} k (a : X) l : del (S k) (a :: l) = a :: del k l.
Proof. reflexivity. Qed.
Lemma ins_0 {X} (v : X) l : ins 0 v l = v :: l.
Proof. unfold ins. destruct l; reflexivity. Qed.
Lemma ins_S {X} k (v a : X) l : ins (S k) v (a :: l) = a :: ins k v l.
Proof. reflexivity. Qed.

Lemma del_length {X} k (l : list X) : k < length l -> length (del k l) = length l - 1.
Proof.
  intros H. unfold del. rewrite app_length, firstn_length, skipn_length. lia.
Qed.

Lemma ins_length {X} k (v : X) l : length (ins k v l) = S (length l).
Proof.
  unfold ins. rewrite app_length. cbn [length]. rewrite firstn_length, skipn_length. lia.
Qed.

Lemma del_ins {X} k (v : X) : forall l, k <= length l -> del k (ins k v l) = l.
Proof.
  induction k as [|k IH]; intros l H.
  - rewrite ins_0. reflexivity.
  - destruct l as [|a l]; [cbn in H; lia|]. rewrite ins_S, del_S, IH by (cbn in H; lia). reflexivity.
Qed.

Lemma nth_ins {X} k (v d : X) : forall l, k <= length l -> nth k (ins k v l) d = v.
Proof.
  induction k as [|k IH]; intros l H.
  - rewrite ins_0. reflexivity.
  - destruct l as [|a l]; [cbn in H; lia|]. rewrite ins_S. cbn [nth]. apply IH. cbn in H; lia.
Qed.

Lemma ins_del {X} k (d : X) : forall l, k < length l -> ins k (nth k l d) (del k l) = l.
Proof.
  induction k as [|k IH]; intros l H.
  - destruct l as [|a l]; [cbn in H; lia|]. rewrite del_0, ins_0. reflexivity.
  - destruct l as [|a l]; [cbn in H; lia|]. rewrite del_S, ins_S. cbn [nth]. rewrite IH by (cbn in H; lia).
    reflexivity.
Qed.

Lemma rev_del {X} dim (l : list X) : dim < length l -> del (length l - 1 - dim) (rev l) = rev (del dim l).
Proof.
  intros H. unfold del. rewrite firstn_rev, skipn_rev, rev_app_distr.
  replace (length l - (length l - 1 - dim)) with (S dim) by lia.
  replace (length l - S (length l - 1 - dim)) with dim by lia. reflexivity.
Qed.

Lemma rev_ins {X} dim (v : X) (l : list X) : dim <= length l -> ins (length l - dim) v (rev l) = rev (ins dim v l).
Proof.
  intros H. unfold ins. rewrite firstn_rev, skipn_rev, rev_app_distr. cbn [rev]. rewrite <- app_assoc. cbn [app].
  replace (length l - (length l - dim)) with dim by lia. reflexivity.
Qed.

Lemma Forall_del {X} (P : X -> Prop) k : forall l, Forall P l -> Forall P (del k l).
Proof.
  induction k as [|k IH]; intros l H; destruct H as [|a l Ha Hl]; try constructor.
  - rewrite del_0. exact Hl.
  - exact Ha.
  - apply IH, Hl.
Qed.

(* ---------- the odometer (states least-significant digit first) ---------- *)
Lemma prodn_cons' d ds : prodn (d :: ds) = d * prodn ds.
Proof. reflexivity. Qed.

Lemma prodn_app' ds1 ds2 : prodn (ds1 ++ ds2) = prodn ds1 * prodn ds2.
Proof.
  induction ds1 as [|d ds1 IH]; cbn [app]; [cbn; lia|]. rewrite !prodn_cons', IH. lia.
Qed.

Lemma prodn_rev' ds : prodn (rev ds) = prodn ds.
Proof.
  induction ds as [|d ds IH]; [reflexivity|]. cbn [rev]. rewrite prodn_app', IH, !prodn_cons'. cbn. lia.
Qed.

Fixpoint oval (rd st : list nat) : nat :=
  match rd, st with
  | d :: rd', x :: st' => x + d * oval rd' st'
  | _, _ => 0
  end.

Lemma incr_valid rd st : validIdx rd st -> validIdx rd (incr rd st).
Proof.
  intros H. induction H as [|x d st rd Hx Hr IH]; cbn [incr]; [constructor|].
  destruct (S x <? d) eqn:E.
  - constructor; [apply Nat.ltb_lt in E; exact E|exact Hr].
  - constructor; [lia|exact IH].
Qed.

Lemma oval_lt rd st : validIdx rd st -> oval rd st < prodn rd.
Proof.
  intros H. induction H as [|x d st rd Hx _ IH]; [cbn; lia|]. cbn [oval]. rewrite prodn_cons'. nia.
Qed.

Lemma incr_val rd st : validIdx rd st -> S (oval rd st) < prodn rd -> oval rd (incr rd st) = S (oval rd st).
Proof.
  intros H. induction H as [|x d st rd Hx Hr IH]; intros Hb; [cbn in Hb; lia|].
  cbn [incr]. destruct (S x <? d) eqn:E; cbn [oval]; [reflexivity|].
  apply Nat.ltb_ge in E. assert (Ex : x = d - 1) by lia.
  cbn [oval] in Hb. rewrite prodn_cons' in Hb.
  rewrite IH by nia. nia.
Qed.

Lemma oval_inj rd : forall s1 s2, validIdx rd s1 -> validIdx rd s2 -> oval rd s1 = oval rd s2 -> s1 = s2.
Proof.
  induction rd as [|d rd IH]; intros s1 s2 H1 H2 E.
  - apply validIdx_nil in H1, H2. congruence.
  - apply validIdx_cons in H1 as (x1 & r1 & -> & Hx1 & Hr1).
    apply validIdx_cons in H2 as (x2 & r2 & -> & Hx2 & Hr2).
    cbn [oval] in E.
    assert (Ex : x1 = x2).
    { assert (E1 : (x1 + d * oval rd r1) mod d = x1).
      { rewrite Nat.mul_comm, Nat.mod_add by lia. apply Nat.mod_small, Hx1. }
      assert (E2 : (x2 + d * oval rd r2) mod d = x2).
      { rewrite Nat.mul_comm, Nat.mod_add by lia. apply Nat.mod_small, Hx2. }
      congruence. }
    subst x2. f_equal. apply IH; [assumption|assumption|]. nia.
Qed.

Lemma iter_incr_val rd n : forall st, validIdx rd st -> oval rd st + n < prodn rd ->
  validIdx rd (iter _ (incr rd) n st) /\ oval rd (iter _ (incr rd) n st) = oval rd st + n.
Proof.
  induction n as [|n IH]; intros st Hv Hb; cbn [iter].
  - split; [exact Hv|lia].
  - destruct (IH (incr rd st)) as [H1 H2].
    + apply incr_valid, Hv.
    + rewrite incr_val by (assumption || lia). lia.
    + split; [exact H1|]. rewrite H2, incr_val by (assumption || lia). lia.
Qed.

Lemma oval_zeros rd : oval rd (repeat 0 (length rd)) = 0.
Proof. induction rd as [|d rd IH]; [reflexivity|]. cbn [length repeat oval]. rewrite IH. lia. Qed.

Lemma validIdx_zeros rd : Forall (fun d => 0 < d) rd -> validIdx rd (repeat 0 (length rd)).
Proof. intros H. induction H as [|d rd Hd _ IH]; [constructor|]. cbn [length repeat]. constructor; assumption. Qed.

Lemma validIdx_pos ds idx : validIdx ds idx -> Forall (fun d => 0 < d) ds.
Proof. intros H. induction H as [|x d st rd Hx _ IH]; constructor; [lia|assumption]. Qed.

(* from all zeros, [oval rd st] steps reach [st] *)
Lemma iter_incr_oval rd st : validIdx rd st -> iter _ (incr rd) (oval rd st) (repeat 0 (length rd)) = st.
Proof.
  intros Hv. pose proof (validIdx_zeros rd (validIdx_pos _ _ Hv)) as Hz.
  destruct (iter_incr_val rd (oval rd st) _ Hz) as [H1 H2].
  - rewrite oval_zeros. cbn. apply oval_lt, Hv.
  - apply (oval_inj rd); [exact H1|exact Hv|]. rewrite H2, oval_zeros. reflexivity.
Qed.

Lemma oval_app r1 : forall s1 r2 s2, length s1 = length r1 ->
  oval (r1 ++ r2) (s1 ++ s2) = oval r1 s1 + prodn r1 * oval r2 s2.
Proof.
  induction r1 as [|d r1 IH]; intros [|x s1] r2 s2 Hl; cbn in Hl; try discriminate.
  - cbn. lia.
  - cbn [app oval]. rewrite IH by lia. rewrite prodn_cons'. lia.
Qed.

Lemma oval_rev_flatIdx ds : forall idx, validIdx ds idx -> oval (rev ds) (rev idx) = flatIdx ds idx.
Proof.
  induction ds as [|d ds IH]; intros idx Hv.
  - apply validIdx_nil in Hv; subst. reflexivity.
  - apply validIdx_cons in Hv as (i & r & -> & Hi & Hr). cbn [rev flatIdx].
    rewrite oval_app by (rewrite !rev_length; apply validIdx_length, Hr).
    rewrite IH by exact Hr. rewrite prodn_rev'. cbn [oval]. lia.
Qed.

Lemma validIdx_rev ds idx : validIdx ds idx -> validIdx (rev ds) (rev idx).
Proof.
  intros H. induction H as [|x d st rd Hx _ IH]; [constructor|]. cbn [rev].
  apply Forall2_app; [exact IH|constructor; [exact Hx|constructor]].
Qed.

(* [incr_skip None] is [incr]; [incr_skip (Some k)] is [incr] on the other digits *)
Lemma incr_skip_None rd : forall st, incr_skip None rd st = incr rd st.
Proof.
  induction rd as [|d rd IH]; intros [|x st]; cbn [incr_skip incr option_map]; try reflexivity.
  rewrite IH. reflexivity.
Qed.

Lemma incr_skip_del k : forall rd st, k < length rd -> length st = length rd ->
  incr_skip (Some k) rd st = ins k (nth k st 0) (incr (del k rd) (del k st)).
Proof.
  induction k as [|k IH]; intros [|d rd] [|x st] Hk Hl; cbn in Hk, Hl; try lia.
  - cbn [incr_skip nth]. rewrite !del_0, ins_0, incr_skip_None. reflexivity.
  - cbn [incr_skip nth option_map pred]. rewrite !del_S. cbn [incr].
    destruct (S x <? d) eqn:E; rewrite ins_S.
    + rewrite ins_del by lia. reflexivity.
    + rewrite IH by lia. reflexivity.
Qed.

Lemma incr_length rd : forall st, length st = length rd -> length (incr rd st) = length rd.
Proof.
  induction rd as [|d rd IH]; intros [|x st] H; cbn in H; try lia; [reflexivity|].
  cbn [incr]. destruct (S x <? d); cbn [length]; [lia|]. rewrite IH by lia. reflexivity.
Qed.

(* ---------- slicing with the ranges [redRanges] ---------- *)

(* [redRanges] with the position counter starting at [b] *)
Definition rrF (b dim : nat) (ds idx : list nat) : list range :=
  map (fun p : nat * (nat * nat) =>
         let '(i, (x, d)) := p in if i =? dim then (0, d) else (x, S x))
      (combine (seq b (length ds)) (combine idx ds)).

Lemma redRanges_rrF dim ds idx : redRanges dim ds idx = rrF 0 dim ds idx.
Proof. reflexivity. Qed.

Lemma rrF_cons b dim d ds x idx :
  rrF b dim (d :: ds) (x :: idx) = (if b =? dim then (0, d) else (x, S x)) :: rrF (S b) dim ds idx.
Proof. reflexivity. Qed.

Lemma rrF_length b dim : forall ds idx, length idx = length ds -> length (rrF b dim ds idx) = length ds.
Proof.
  intros ds idx H. unfold rrF. rewrite map_length, !combine_length, seq_length. lia.
Qed.

Lemma completeIndex_rrF dim : forall ds b idx, length idx = length ds ->
  completeIndex (rrF b dim ds idx) ds = rrF b dim ds idx.
Proof.
  induction ds as [|d ds IH]; intros b [|x idx] H; cbn in H; try lia; [reflexivity|].
  rewrite rrF_cons. cbn [completeIndex]. rewrite IH by lia.
  destruct (b =? dim).
  - destruct d; reflexivity.
  - cbn [Nat.eqb]. rewrite andb_false_r. reflexivity.
Qed.

Lemma rrF_dims dim : forall ds b idx, length idx = length ds ->
  map (fun r : range => snd r - fst r) (rrF b dim ds idx)
  = map (fun i => if i =? dim then nth (i - b) ds 0 else 1) (seq b (length ds)).
Proof.
  induction ds as [|d ds IH]; intros b [|x idx] H; cbn in H; try lia; [reflexivity|].
  rewrite rrF_cons. cbn [map length seq]. f_equal.
  - destruct (b =? dim); cbn [fst snd]; [rewrite Nat.sub_diag; cbn; lia|lia].
  - rewrite IH by lia. apply map_ext_in. intros i Hi. apply in_seq in Hi.
    destruct (i =? dim); [|reflexivity].
    replace (i - b) with (S (i - S b)) by lia. reflexivity.
Qed.

Section Slice.
Variable A : Type.
Implicit Types (x y : nd A).

Fixpoint nest (n : nat) (a : A) : nd A := match n with O => Sc a | S n' => Vec [nest n' a] end.

Lemma flat_nest n a : flat (nest n a) = [a].
Proof. induction n as [|n IH]; [reflexivity|]. cbn [nest]. rewrite flat_Vec. cbn. rewrite IH. reflexivity. Qed.

Lemma sliceData_wfnd : forall (index : list range) x y,
  sliceData index x = Some y -> wfnd (map (fun r : range => snd r - fst r) index) y.
Proof.
  induction index as [|[f t] index IH]; intros x y H; cbn [sliceData] in H.
  - destruct x as [a|l]; cbn in H; [|discriminate]. inversion H; subst. exact I.
  - destruct x as [a|l]; cbn [asV obind] in H; [discriminate|].
    destruct (mapM _ (seq 0 (t - f))) as [out|] eqn:E; cbn [obind] in H; [|discriminate].
    inversion H; subst. cbn [map wfnd fst snd]. split.
    + rewrite (mapM_length _ _ _ E). apply seq_length.
    + apply Forall_forall. intros z Hz. apply In_nth_error in Hz as (i & Hi).
      assert (Hlen : i < length out) by (apply nth_error_Some; congruence).
      rewrite (mapM_length _ _ _ E), seq_length in Hlen.
      destruct (mapM_seq_inv _ _ _ E) as [_ Hn]. destruct (Hn i Hlen) as (z' & Hz' & Hf).
      rewrite Hi in Hz'. inversion Hz'; subst z'.
      destruct (nth_error l (i + f)) as [r|]; cbn [obind] in Hf; [|discriminate].
      eapply IH; eauto.
Qed.

Lemma sliceData_unit l i y rest : nth_error l i = Some y ->
  sliceData ((i, S i) :: rest) (Vec l) = obind (sliceData rest y) (fun y' : nd A => Some (Vec [y'])).
Proof.
  intros H. cbn [sliceData asV obind]. replace (S i - i) with 1 by lia. cbn [seq mapM Nat.add].
  rewrite H. cbn [obind]. destruct (sliceData rest y); reflexivity.
Qed.

Lemma sliceData_full l d rest :
  sliceData ((0, d) :: rest) (Vec l)
  = obind (mapM (fun i => do r <- nth_error l i; sliceData rest r) (seq 0 d)) (fun out : list (nd A) => Some (Vec out)).
Proof.
  cbn [sliceData asV obind]. rewrite Nat.sub_0_r.
  rewrite (mapM_ext _ (fun i => do r <- nth_error l i; sliceData rest r)); [reflexivity|].
  intros i _. rewrite Nat.add_0_r. reflexivity.
Qed.

(* below the reduced dimension: unit ranges select one element *)
Lemma sliceData_select dim : forall ds b idx x, dim < b -> wfnd ds x -> validIdx ds idx ->
  exists a, get x idx = Some a /\ sliceData (rrF b dim ds idx) x = Some (nest (length ds) a).
Proof.
  induction ds as [|d ds IH]; intros b idx x Hb Hx Hv.
  - apply validIdx_nil in Hv; subst. apply wfnd_nil in Hx as (a & ->). exists a. split; reflexivity.
  - apply validIdx_cons in Hv as (i & r & -> & Hi & Hr). apply wfnd_cons in Hx as (l & -> & Hl & Hf).
    destruct (nth_error l i) as [y|] eqn:E; [|apply nth_error_None in E; lia].
    assert (Hy : wfnd ds y) by (rewrite Forall_forall in Hf; apply Hf; eapply nth_error_In; eauto).
    destruct (IH (S b) r y ltac:(lia) Hy Hr) as (a & Ha & Hs).
    exists a. rewrite get_cons, E. split; [exact Ha|].
    rewrite rrF_cons. replace (b =? dim) with false by (symmetry; apply Nat.eqb_neq; lia).
    rewrite (sliceData_unit _ _ _ _ E), Hs. reflexivity.
Qed.

Lemma flat_list_map_nest n (h : nat -> A) l : flat_list A (map (fun i => nest n (h i)) l) = map h l.
Proof. induction l as [|a l IH]; [reflexivity|]. cbn [map flat_list]. rewrite flat_nest, IH. reflexivity. Qed.

(* the fibre: position [b + j] is copied in full, all others are selected.  [idx] is an index
   of the shape without position j; the (ignored) digit [v] is inserted at position j *)
Lemma sliceData_fibre (dflt : A) : forall j b ds idx x v,
  wfnd ds x -> j < length ds -> validIdx (del j ds) idx ->
  exists y, sliceData (rrF b (b + j) ds (ins j v idx)) x = Some y /\
    map Some (flat y) = map (fun k => get x (ins j k idx)) (seq 0 (nth j ds 0)).
Proof.
  induction j as [|j IH]; intros b ds idx x v Hx Hj Hv.
  - destruct ds as [|d ds]; [cbn in Hj; lia|]. rewrite del_0 in Hv.
    apply wfnd_cons in Hx as (l & -> & Hl & Hf). rewrite ins_0, rrF_cons, Nat.add_0_r, Nat.eqb_refl.
    rewrite sliceData_full. cbn [nth].
    set (h := fun i => match get (Vec l) (i :: idx) with Some a => a | None => dflt end).
    assert (Hrow : forall i, i < d ->
              (do r <- nth_error l i; sliceData (rrF (S b) b ds idx) r) = Some (nest (length ds) (h i))
              /\ get (Vec l) (i :: idx) = Some (h i)).
    { intros i Hi. destruct (nth_error l i) as [y|] eqn:E; [|apply nth_error_None in E; lia].
      assert (Hy : wfnd ds y) by (rewrite Forall_forall in Hf; apply Hf; eapply nth_error_In; eauto).
      destruct (sliceData_select b ds (S b) idx y ltac:(lia) Hy Hv) as (a & Ha & Hs).
      unfold h. rewrite get_cons, E, Ha. cbn [obind]. split; [exact Hs|reflexivity]. }
    rewrite (mapM_seq_some _ (fun i => nest (length ds) (h i))) by (intros i Hi; apply Hrow, Hi).
    cbn [obind]. eexists; split; [reflexivity|].
    rewrite flat_Vec, flat_list_map_nest, map_map. apply map_ext_in. intros i Hi. apply in_seq in Hi.
    rewrite ins_0. symmetry. apply Hrow. lia.
  - destruct ds as [|d ds]; [cbn in Hj; lia|]. rewrite del_S in Hv.
    apply validIdx_cons in Hv as (i & r & -> & Hi & Hr). apply wfnd_cons in Hx as (l & -> & Hl & Hf).
    destruct (nth_error l i) as [y|] eqn:E; [|apply nth_error_None in E; lia].
    assert (Hy : wfnd ds y) by (rewrite Forall_forall in Hf; apply Hf; eapply nth_error_In; eauto).
    destruct (IH (S b) ds r y v Hy ltac:(cbn in Hj; lia) Hr) as (z & Hz & Hfl).
    rewrite ins_S, rrF_cons. replace (b =? b + S j) with false by (symmetry; apply Nat.eqb_neq; lia).
    rewrite (sliceData_unit _ _ _ _ E). replace (b + S j) with (S b + j) by lia. rewrite Hz. cbn [obind].
    eexists; split; [reflexivity|]. rewrite flat_Vec. cbn [flat_list]. rewrite app_nil_r, Hfl. cbn [nth].
    apply map_ext. intros k. rewrite ins_S, get_cons, E. reflexivity.
Qed.

End Slice.

Lemma rev_repeat {X} (a : X) n : rev (repeat a n) = repeat a n.
Proof.
  induction n as [|n IH]; [reflexivity|]. cbn [repeat rev]. rewrite IH. symmetry. apply repeat_cons.
Qed.

Lemma ins_repeat {X} (a : X) k : forall m, k <= m -> ins k a (repeat a m) = repeat a (S m).
Proof.
  induction k as [|k IH]; intros m H.
  - rewrite ins_0. reflexivity.
  - destruct m as [|m]; [lia|]. cbn [repeat]. rewrite ins_S, IH by lia. reflexivity.
Qed.

Section Along.
Context {A : Type} {SA : Scalar A}.
Notation T := (tensor A).
Variables (rd : reducer) (t : T) (dim : nat).
Hypothesis Hw : wf t.
Hypothesis Hdim : dim < length (dims t).

Local Notation ds := (dims t).
Local Notation sds := (squeezeDims dim (dims t)).
Local Notation kk := (length (dims t) - 1 - dim).
Local Notation next := (incr_skip (Some (length (dims t) - 1 - dim)) (rev (dims t))).

Lemma sds_length : length sds = length ds - 1.
Proof. rewrite squeezeDims_del. apply del_length, Hdim. Qed.

Lemma sds_pos : Forall (fun d => 0 < d) sds.
Proof. rewrite squeezeDims_del. apply Forall_del, Hw. Qed.

(* the fibre of [idx] along [dim], as a tensor and as a list *)
Lemma slice_fibre idx v : validIdx sds idx ->
  exists row, slice t (redRanges dim ds (ins dim v idx)) = Some row /\
    dims row = map (fun i => if i =? dim then nth dim ds 0 else 1) (seq 0 (length ds)) /\
    wf row /\
    map Some (flat (data row)) = map (fun k => get (data t) (ins dim k idx)) (seq 0 (nth dim ds 0)).
Proof.
  intros Hv. pose proof (validIdx_length _ _ Hv) as Hl. rewrite sds_length in Hl.
  assert (Hli : length (ins dim v idx) = length ds) by (rewrite ins_length; lia).
  unfold slice. rewrite redRanges_rrF, completeIndex_rrF by exact Hli.
  destruct Hw as [Hwd Hpos].
  destruct (sliceData_fibre A s0 dim 0 ds idx (data t) v Hwd Hdim Hv) as (y & Hy & Hfl).
  cbn [Nat.add] in Hy. unfold copiedSliceOf. rewrite Hy. cbn [obind].
  eexists; split; [reflexivity|]. cbn [dims data].
  assert (Ed : map (fun r : range => snd r - fst r) (rrF 0 dim ds (ins dim v idx))
               = map (fun i => if i =? dim then nth dim ds 0 else 1) (seq 0 (length ds))).
  { rewrite rrF_dims by exact Hli. apply map_ext. intros i. destruct (i =? dim) eqn:E; [|reflexivity].
    apply Nat.eqb_eq in E. subst i. rewrite Nat.sub_0_r. reflexivity. }
  split; [exact Ed|]. split; [|exact Hfl]. split; cbn [dims data].
  - apply (sliceData_wfnd A _ _ _ Hy).
  - assert (G : forall l, l = map (fun i => if i =? dim then nth dim ds 0 else 1) (seq 0 (length ds)) ->
                         Forall (fun d => 0 < d) l).
    { intros l ->. apply Forall_forall. intros d Hd. apply in_map_iff in Hd as (i & <- & _).
      destruct (i =? dim); [|lia]. apply (proj1 (Forall_nth _ _) Hpos). exact Hdim. }
    apply G. exact Ed.
Qed.

Definition redOut (s : list nat) : A :=
  match (do row <- slice t (redRanges dim ds (rev s)); reduce rd row) with Some a => a | None => s0 end.

Definition redInv (s : list nat) : Prop := exists idx, validIdx sds idx /\ s = rev (ins dim 0 idx).

(* one step of the generator's odometer = one step of the plain odometer over the squeezed shape *)
Lemma next_step idx : validIdx sds idx ->
  next (rev (ins dim 0 idx)) = rev (ins dim 0 (rev (incr (rev sds) (rev idx)))).
Proof.
  intros Hv. pose proof (validIdx_length _ _ Hv) as Hl. rewrite sds_length in Hl.
  rewrite incr_skip_del by (rewrite ?rev_length, ?ins_length; lia).
  rewrite <- (rev_ins dim 0 idx) by lia. replace (length idx - dim) with kk by lia.
  rewrite nth_ins by (rewrite rev_length; lia).
  rewrite del_ins by (rewrite rev_length; lia).
  rewrite rev_del by exact Hdim. rewrite <- squeezeDims_del.
  set (w := incr (rev sds) (rev idx)).
  assert (Hwl : length w = length ds - 1).
  { unfold w. rewrite incr_length; rewrite !rev_length; [apply sds_length|rewrite sds_length; exact Hl]. }
  rewrite <- (rev_involutive w) at 1.
  rewrite <- (rev_ins dim 0 (rev w)) by (rewrite rev_length; lia).
  rewrite rev_length, Hwl. reflexivity.
Qed.

Lemma incr_valid_rev idx : validIdx sds idx -> validIdx sds (rev (incr (rev sds) (rev idx))).
Proof.
  intros Hv. rewrite <- (rev_involutive sds) at 1. apply validIdx_rev, incr_valid, validIdx_rev, Hv.
Qed.

Lemma iter_next n : forall idx, validIdx sds idx ->
  iter _ next n (rev (ins dim 0 idx)) = rev (ins dim 0 (rev (iter _ (incr (rev sds)) n (rev idx)))).
Proof.
  induction n as [|n IH]; intros idx Hv; cbn [iter].
  - rewrite rev_involutive. reflexivity.
  - rewrite next_step by exact Hv. rewrite IH by (apply incr_valid_rev, Hv).
    rewrite rev_involutive. reflexivity.
Qed.

Lemma linInit_ins : linInit ds = rev (ins dim 0 (repeat 0 (length sds))).
Proof.
  unfold linInit. rewrite ins_repeat by (rewrite sds_length; lia). rewrite rev_repeat, sds_length.
  f_equal. lia.
Qed.

Lemma iter_next_flatIdx idx : validIdx sds idx ->
  iter _ next (flatIdx sds idx) (linInit ds) = rev (ins dim 0 idx).
Proof.
  intros Hv. rewrite linInit_ins.
  rewrite iter_next by (apply validIdx_zeros, sds_pos).
  rewrite rev_repeat, <- (rev_length sds), <- oval_rev_flatIdx by exact Hv.
  rewrite iter_incr_oval by (apply validIdx_rev, Hv). rewrite rev_involutive. reflexivity.
Qed.

Lemma redGen_step s : redInv s -> redGen rd dim t s = Some (Sc (redOut s), next s).
Proof.
  intros (idx & Hv & ->). unfold redGen, redOut. rewrite rev_involutive.
  destruct (slice_fibre idx 0 Hv) as (row & Hs & _ & Hwr & _). rewrite Hs. cbn [obind].
  rewrite (reduce_spec row Hwr). reflexivity.
Qed.

Lemma redInv_next s : redInv s -> redInv (next s).
Proof.
  intros (idx & Hv & ->). exists (rev (incr (rev sds) (rev idx))). split.
  - apply incr_valid_rev, Hv.
  - apply next_step, Hv.
Qed.

Lemma redInv_init : redInv (linInit ds).
Proof.
  exists (repeat 0 (length sds)). split; [apply validIdx_zeros, sds_pos|apply linInit_ins].
Qed.

Theorem reduceAlong_spec :
  exists r, reduceAlong rd t dim = Some r /\ dims r = squeezeDims dim (dims t) /\ wf r /\
    forall idx, validIdx (squeezeDims dim (dims t)) idx ->
      exists row,
        slice t (redRanges dim (dims t) (ins dim 0 idx)) = Some row /\
        dims row = map (fun i => if i =? dim then nth dim (dims t) 0 else 1) (seq 0 (length (dims t))) /\
        wf row /\
        map Some (flat (data row))
          = map (fun k => get (data t) (firstn dim idx ++ k :: skipn dim idx)) (seq 0 (nth dim (dims t) 0)) /\
        get (data r) idx = reduce rd row /\
        get (data r) idx = Some (redL rd (flat (data row))).
Proof.
  unfold reduceAlong.
  rewrite (initWith_spec A (list nat) (redGen rd dim t) (fun s => Sc (redOut s)) next redInv
             redGen_step redInv_next sds (linInit ds) redInv_init).
  cbn [obind]. eexists; split; [reflexivity|]. cbn [dims data]. split; [reflexivity|].
  rewrite (tabS_tab A (list nat) (fun s => Sc (redOut s)) next redOut (fun s => eq_refl)).
  split.
  - split; cbn [dims data]; [apply wfnd_tab|apply sds_pos].
  - intros idx Hv. destruct (slice_fibre idx 0 Hv) as (row & Hs & Hd & Hwr & Hfl).
    exists row. split; [exact Hs|]. split; [exact Hd|]. split; [exact Hwr|]. split; [exact Hfl|].
    rewrite get_tab by exact Hv. rewrite iter_next_flatIdx by exact Hv.
    unfold redOut. rewrite rev_involutive, Hs. cbn [obind]. rewrite (reduce_spec row Hwr). split; reflexivity.
Qed.

End Along.

(* ====================================================================== *)
(* 4. the public method                                                   *)
(* ====================================================================== *)
Section ApiAlong.
Context {A : Type} {SA : Scalar A}.
Notation T := (tensor A).

Lemma validateReducedDim_iff (t : T) (dim : Z) :
  validateReducedDimAgainstDims dim (zdims t) = true <-> (0 <= dim < Z.of_nat (length (dims t)))%Z.
Proof.
  unfold validateReducedDimAgainstDims, zlen, zdims. rewrite map_length, andb_true_iff, Z.leb_le, Z.ltb_lt.
  tauto.
Qed.

(* never None on a well-formed operand and a dimension in range *)
Corollary reduceAlong_shape rd (t : T) dim : wf t -> dim < length (dims t) ->
  exists r, reduceAlong rd t dim = Some r /\ dims r = squeezeDims dim (dims t) /\ wf r.
Proof.
  intros Hw Hd. destruct (reduceAlong_spec rd t dim Hw Hd) as (r & H1 & H2 & H3 & _).
  exists r. auto.
Qed.

Theorem v_reduceAlong_spec rd (t : T) (dim : Z) : wf t ->
  ((0 <= dim < Z.of_nat (length (dims t)))%Z ->
     exists r, v_reduceAlong rd t dim = Ok r /\ reduceAlong rd t (Z.to_nat dim) = Some r /\
               dims r = squeezeDims (Z.to_nat dim) (dims t) /\ wf r) /\
  (~ (0 <= dim < Z.of_nat (length (dims t)))%Z -> v_reduceAlong rd t dim = Err).
Proof.
  intros Hw. unfold v_reduceAlong, guard. split.
  - intros Hd. rewrite (proj2 (validateReducedDim_iff t dim) Hd).
    destruct (reduceAlong_shape rd t (Z.to_nat dim) Hw ltac:(lia)) as (r & H1 & H2 & H3).
    exists r. rewrite H1. auto.
  - intros Hd. destruct (validateReducedDimAgainstDims dim (zdims t)) eqn:E; [|reflexivity].
    apply validateReducedDim_iff in E. contradiction.
Qed.

Corollary v_reduceAlong_never_panics rd (t : T) (dim : Z) : wf t -> v_reduceAlong rd t dim <> Panic.
Proof.
  intros Hw. destruct (v_reduceAlong_spec rd t dim Hw) as [H1 H2].
  destruct (Z_le_dec 0 dim) as [Ha|Ha]; [destruct (Z_lt_dec dim (Z.of_nat (length (dims t)))) as [Hb|Hb]|].
  - destruct (H1 (conj Ha Hb)) as (r & -> & _). discriminate.
  - rewrite H2 by lia. discriminate.
  - rewrite H2 by lia. discriminate.
Qed.

(* user-facing form: every element of the result is the reducer applied to the
   one-dimensional fibre of the operand, in order *)
Theorem v_reduceAlong_elems rd (t : T) (dim : Z) : wf t -> (0 <= dim < Z.of_nat (length (dims t)))%Z ->
  let d := Z.to_nat dim in
  exists r, v_reduceAlong rd t dim = Ok r /\ dims r = squeezeDims d (dims t) /\ wf r /\
    forall idx, validIdx (squeezeDims d (dims t)) idx ->
      exists fibre,
        map Some fibre = map (fun k => get (data t) (firstn d idx ++ k :: skipn d idx)) (seq 0 (nth d (dims t) 0)) /\
        get (data r) idx = Some (redL rd fibre).
Proof.
  intros Hw Hd d. unfold v_reduceAlong, guard. rewrite (proj2 (validateReducedDim_iff t dim) Hd).
  destruct (reduceAlong_spec rd t d Hw ltac:(unfold d; lia)) as (r & H1 & H2 & H3 & H4).
  exists r. fold d. rewrite H1. split; [reflexivity|]. split; [exact H2|]. split; [exact H3|].
  intros idx Hv. destruct (H4 idx Hv) as (row & _ & _ & _ & Hfl & _ & Hg).
  exists (flat (data row)). split; assumption.
Qed.

End ApiAlong.

(* ====================================================================== *)
(* non-vacuity: a throw-away Scalar on nat                                *)
(* ====================================================================== *)
Module Ex.
#[local] Instance nat_scalar : Scalar nat := {|
  s0 := 0; s1 := 1;
  sadd := Nat.add; ssub := Nat.sub; smul := Nat.mul; sdiv := Nat.div; spow := Nat.pow;
  sexp := id; slog := id; ssin := id; scos := id; stan := id; ssinh := id; scosh := id; stanh := id;
  ssqrt := Nat.sqrt;
  smax := Nat.max; smin := Nat.min;
  sselgt := fun a b => if b <? a then a else b;
  ssellt := fun a b => if a <? b then a else b;
  seqt := fun a b => if a =? b then 1 else 0;
  snet := fun a b => if a =? b then 0 else 1;
  sgt := fun a b => if b <? a then 1 else 0; sge := fun a b => if b <=? a then 1 else 0;
  slt := fun a b => if a <? b then 1 else 0; sle := fun a b => if a <=? b then 1 else 0;
  sgeb := fun a b => if b <=? a then 1 else 0;
  strunc := id; sofnat := id;
  sconst := fun m e => Z.to_nat m * 10 ^ Z.to_nat e;
  sneginf := 0; sposinf := 1000;
  srnd := fun _ k => k
|}.

Definition tex : tensor nat :=
  mkT [2; 3] (Vec [Vec [Sc 1; Sc 2; Sc 3]; Vec [Sc 4; Sc 5; Sc 9]]).

Example tex_wf : wf tex.
Proof. split; [apply wfndb_spec; reflexivity|repeat constructor]. Qed.

Example ex_whole :
  r_sum tex = Some 24 /\ r_max tex = Some 9 /\ r_min tex = Some 1 /\ r_mean tex = Some 4 /\
  r_var tex = Some 5 /\ r_std tex = Some 2 /\
  flat (data tex) = [1; 2; 3; 4; 5; 9].
Proof. vm_compute. repeat split. Qed.

Example ex_single : wf (mkT [1; 1] (Vec [Vec [Sc 7]])) /\ r_var (mkT [1; 1] (Vec [Vec [Sc 7]])) = Some 0.
Proof. split; [split; [apply wfndb_spec; reflexivity|repeat constructor]|reflexivity]. Qed.

Example ex_along :
  reduceAlong RdSum tex 0 = Some (mkT [3] (Vec [Sc 5; Sc 7; Sc 12])) /\
  reduceAlong RdSum tex 1 = Some (mkT [2] (Vec [Sc 6; Sc 18])) /\
  reduceAlong RdMax tex 1 = Some (mkT [2] (Vec [Sc 3; Sc 9])) /\
  reduceAlong RdVar tex 1 = Some (mkT [2] (Vec [Sc 0; Sc 4])) /\
  slice tex (redRanges 0 [2; 3] (ins 0 0 [2])) = Some (mkT [2; 1] (Vec [Vec [Sc 3]; Vec [Sc 9]])) /\
  v_reduceAlong RdSum tex 1 = Ok (mkT [2] (Vec [Sc 6; Sc 18])) /\
  v_reduceAlong RdSum tex 2 = Err /\ v_reduceAlong RdSum tex (-1) = Err.
Proof. vm_compute. repeat split. Qed.

(* the theorem instantiated: hypotheses satisfiable, conclusion non-trivial *)
Example ex_spec_inst :
  exists r, v_reduceAlong RdSum tex 1 = Ok r /\ get (data r) [1] = Some (fold_left Nat.add [4; 5; 9] 0).
Proof.
  destruct (v_reduceAlong_elems RdSum tex 1 tex_wf ltac:(cbn; lia)) as (r & H1 & _ & _ & H4).
  exists r. split; [exact H1|]. destruct (H4 [1] ltac:(repeat constructor)) as (fibre & Hf & Hg).
  rewrite Hg. cbn in Hf. destruct fibre as [|a [|b [|c [|? ?]]]]; try discriminate.
  inversion Hf; subst. reflexivity.
Qed.
End Ex.

Print Assumptions trav_spec.
Print Assumptions reduce_spec.
Print Assumptions r_var_spec.
Print Assumptions v_reduce_total.
Print Assumptions reduceAlong_spec.
Print Assumptions v_reduceAlong_spec.
Print Assumptions v_reduceAlong_elems.
