(* CompSgdP.v — component/optimizers/sgd.go, SGD.Update, as translated by harness/gox into the DataIR program
   GoComp.c_SGD_Update and run with the LINKED oracle CompExt.cext (the call of the sibling c.toValidInputs runs the
   sibling's own translated program c_SGD_toValidInputs; g.Scale and w.Sub are the oracle entries "Scale" / "Sub" =
   Api.v_unary (UScale lr) / Api.v_arith BiSub on the VALUES).
   Representation: the receiver is the float [DF lr]; the pointer [wptr : *tensor.Tensor] is [dcell c] (CompValidP):
   [DNil] (nil pointer), [DL [DNil]] (the cell holds nil) or [DL [DI w]] (the cell holds the node w); the statement
   [*wptr, err = w.Sub(delta)] assigns slot 0 of the variable "wptr": the final value of "wptr" in the returned
   environment is the cell after the call.
   Results (all heaps, fuel, depth):
   - [Update_rejects]: nil pointer / nil cell / no gradient: error, the cell is what it was (C17 "replaces nothing");
   - [Update_ok]: otherwise the outcome follows  r = dor delta <- v_unary (UScale lr) g; v_arith BiSub wv delta,
     the very expression of Components.sgd_update:  Ok v -> nil error and the cell holds [embT v] (sgd_update
     allocates v); Err -> error and the cell holds NIL (sgd_update keeps the cell: (h, Err)); Panic -> panic;
   - [Update_heap_unchanged]: the model's heap is the same after every run;
   - [Update_same_shape]: with well-formed values of equal shape r is Ok: nil error, cell = w - lr*g element-wise. *)
From Coq Require Import String List ZArith Bool Lia Arith.
From Qeep Require Import Model.Scalar Model.Nd Model.Fill Model.Data Model.Valid Model.Api Model.Grad Model.Backprop
     Model.Components Model.DataIR Model.HeapExt Model.GoComp Model.CompExt
     Proofs.NdP Proofs.DataIRP Proofs.HeapAccP Proofs.CompValidP Proofs.CompP.
From Qeep Require Model.GoIR.
Import ListNotations.
Local Open Scope string_scope.
Local Open Scope Z_scope.
Local Open Scope list_scope.

Section CompSgd.
Context {A : Type} {SA : Scalar A}.
Variables (fltb fleb : A -> A -> bool)
          (lib : string -> list (@dval A) -> @heap A -> option (list (@dval A) * @heap A)).
Notation T := (tensor A).
Notation heap := (@heap A).
Notation dval := (@dval A).
Notation denv := (@denv A).
Notation run0 p := (drun cfapp heap (cext0 fltb fleb lib) p).
Notation run p := (drun cfapp heap (cext fltb fleb lib) p).

(* ================= the oracle entries used, one equation each ================= *)

Lemma tens_embT (h : heap) (t : T) : tens h (embT t) = Some t.
Proof. unfold tens, embT. apply (unembT_embT t). Qed.

Lemma tens_nodeV (h : heap) (n : nat) (v : T) :
  (n < length h)%nat -> valOf h n = Some v -> tens h (DI (Z.of_nat n)) = Some v.
Proof. intros Hn Hv. unfold tens. rewrite (nodeId_nat _ _ Hn). cbn [obind]. exact Hv. Qed.

Lemma valOf_lt (h : heap) (n : nat) (v : T) : valOf h n = Some v -> (n < length h)%nat.
Proof.
  unfold valOf. destruct (nth_error h n) as [nd|] eqn:E; cbn [obind]; [|discriminate].
  intros _. apply nth_error_Some. congruence.
Qed.

Lemma cext_Scale v a (h : heap) :
  cext fltb fleb lib "Scale" [v; DF a] h =
  do t <- tens h v; match v_unary (UScale a) t with Ok r => Some ([embT r], h) | _ => None end.
Proof. reflexivity. Qed.

Lemma cext_Sub a b (h : heap) :
  cext fltb fleb lib "Sub" [a; b] h =
  do x <- tens h a; do y <- tens h b; do r <- retT (v_arith BiSub x y); Some (r, h).
Proof. reflexivity. Qed.

(* the sibling name runs the sibling's program *)
Lemma cext_SGD_toValid args (h : heap) :
  cext fltb fleb lib "SGD.toValidInputs" args h =
  match run0 c_SGD_toValidInputs sibFuel sibFuel args h with
  | DRet _ vs h1 _ _ => Some (vs, h1)
  | _ => None
  end.
Proof. reflexivity. Qed.

Lemma cext_SGD_toValid_spec (h : heap) (lrv : dval) (c : option targ) :
  cellOk h c ->
  cext fltb fleb lib "SGD.toValidInputs" [lrv; dcell c] h = Some (sgdRet h c, h).
Proof.
  intros Hok. rewrite cext_SGD_toValid.
  pose proof (SGD_toValidInputs_spec fltb fleb lib sibFuel sibFuel h lrv c Hok) as E.
  destruct (run0 c_SGD_toValidInputs sibFuel sibFuel [lrv; dcell c] h); cbn [outcome] in E; try discriminate.
  exact E.
Qed.

(* Scale never answers Err: the method has no error result *)
Lemma v_unary_not_Err (u : unary) (t : T) : v_unary u t <> Err.
Proof. unfold v_unary, of_opt. destruct (apply1 _ _); discriminate. Qed.

(* ================= the model's step ================= *)

(* the expression inside Components.sgd_update *)
Definition sgdStep (lr : A) (wv g : T) : res T :=
  dor delta <- v_unary (UScale lr) g; v_arith BiSub wv delta.

Lemma sgd_update_step (h : heap) (lr : A) (w : nat) (wv g : T) (name : option nat) :
  valOf h w = Some wv -> gradOf h w = Some g ->
  sgd_update h lr (Some w) name =
  match sgdStep lr wv g with
  | Ok v => let '(h', id) := alloc h v (false, true, []) name in (h', Ok id)
  | Err => (h, Err)
  | Panic => (h, Panic)
  end.
Proof. intros Hw Hg. unfold sgd_update, sgdStep. rewrite Hw, Hg. reflexivity. Qed.

(* ================= 1. Update replaces nothing when the input is rejected ================= *)

(* not (a non-nil pointer to a cell holding a node that has a gradient) *)
Definition rejected (h : heap) (c : option targ) : Prop :=
  forall w g, ~ (c = Some (Some w) /\ gradOf h w = Some g).

Theorem Update_rejects fuel depth (h : heap) (lr : A) (c : option targ) :
  cellOk h c -> rejected h c ->
  exists g l, run c_SGD_Update fuel depth [DF lr; dcell c] h = DRet heap [DI 1] h g l /\
              vlookup g l "wptr" = Some (dcell c).
Proof.
  intros Hok Hrej.
  unfold drun, c_SGD_Update. cbn [pmain dbody plocals dparams dbind]. dxs.
  rewrite (cext_SGD_toValid_spec h (DF lr) c Hok). unfold sgdRet.
  destruct c as [[w|]|].
  - destruct (gradOf h w) as [g|] eqn:Eg.
    + exfalso. apply (Hrej w g). split; [reflexivity | exact Eg].
    + dxs. cbn [Z.eqb]. dxs. do 2 eexists. split; reflexivity.
  - dxs. cbn [Z.eqb]. dxs. do 2 eexists. split; reflexivity.
  - dxs. cbn [Z.eqb]. dxs. do 2 eexists. split; reflexivity.
Qed.

(* ... and that is where the model answers Err on the unchanged heap *)
Lemma sgd_update_rejected (h : heap) (lr : A) (cell : targ) (name : option nat) :
  cellOk h (Some cell) -> rejected h (Some cell) -> sgd_update h lr cell name = (h, Err).
Proof.
  intros Hok Hrej. unfold sgd_update. destruct cell as [w|]; [|reflexivity].
  destruct (valOf_valid h w (Hok w eq_refl)) as [wv Hwv]. rewrite Hwv.
  destruct (gradOf h w) as [g|] eqn:Eg; [|reflexivity].
  exfalso. apply (Hrej w g). split; [reflexivity | exact Eg].
Qed.

(* ================= 2. Update on a tensor that has a gradient ================= *)

Theorem Update_ok fuel depth (h : heap) (lr : A) (w : nat) (wv gr : T) (name : option nat) :
  valOf h w = Some wv -> gradOf h w = Some gr ->
  let o := run c_SGD_Update fuel depth [DF lr; dcell (Some (Some w))] h in
  match (dor delta <- v_unary (UScale lr) gr; v_arith BiSub wv delta) with
  | Ok v =>
      (exists g l, o = DRet heap [DI 0] h g l /\ vlookup g l "wptr" = Some (DL [embT v])) /\
      sgd_update h lr (Some w) name = (let '(h', id) := alloc h v (false, true, []) name in (h', Ok id))
  | Err =>
      (exists g l, o = DRet heap [DI 1] h g l /\ vlookup g l "wptr" = Some (DL [DNil])) /\
      sgd_update h lr (Some w) name = (h, Err)
  | Panic =>
      o = DPanic heap /\ sgd_update h lr (Some w) name = (h, Panic)
  end.
Proof.
  intros Hwv Hgr o. subst o.
  pose proof (valOf_lt h w wv Hwv) as Hw.
  assert (Hok : cellOk h (Some (Some w))).
  { intros w' E. injection E as E. subst w'. exact Hw. }
  rewrite (sgd_update_step h lr w wv gr name Hwv Hgr). unfold sgdStep.
  unfold drun, c_SGD_Update. cbn [pmain dbody plocals dparams dbind]. dxs.
  rewrite (cext_SGD_toValid_spec h (DF lr) (Some (Some w)) Hok). unfold sgdRet. rewrite Hgr.
  dxs. cbn [Z.eqb]. dxs.
  rewrite cext_Scale, tens_embT. cbn [obind].
  destruct (v_unary (UScale lr) gr) as [delta| |] eqn:Ed; cbn [res_bind].
  3:{ split; reflexivity. }
  2:{ exfalso. exact (v_unary_not_Err _ _ Ed). }
  dxs.
  rewrite cext_Sub, (tens_nodeV h w wv Hw Hwv), tens_embT. cbn [obind].
  destruct (v_arith BiSub wv delta) as [v| |]; cbn [retT obind].
  3:{ split; reflexivity. }
  - dxs. cbn [dcell dtarg didx Z.leb Z.compare Z.to_nat setNthD]. dxs. cbn [Z.eqb]. dxs.
    split; [|reflexivity]. do 2 eexists. split; reflexivity.
  - dxs. cbn [dcell dtarg didx Z.leb Z.compare Z.to_nat setNthD]. dxs. cbn [Z.eqb]. dxs.
    split; [|reflexivity]. do 2 eexists. split; reflexivity.
Qed.

(* ================= 3. the heap is never changed ================= *)

(* the state in which a run ends, when it ends *)
Definition finalHeap (o : @doutcome A heap) : option heap :=
  match o with
  | DNormal _ s _ _ | DBreak _ s _ _ | DContinue _ s _ _ | DRet _ _ s _ _ => Some s
  | _ => None
  end.

Lemma reject_or_grad (h : heap) (c : option targ) :
  rejected h c \/ exists w g, c = Some (Some w) /\ gradOf h w = Some g.
Proof.
  destruct c as [[w|]|].
  - destruct (gradOf h w) as [g|] eqn:Eg.
    + right. exists w, g. split; [reflexivity | exact Eg].
    + left. intros w' g' [E1 E2]. injection E1 as E1. subst w'. congruence.
  - left. intros w' g' [E1 _]. discriminate.
  - left. intros w' g' [E1 _]. discriminate.
Qed.

Theorem Update_heap_unchanged fuel depth (h h' : heap) (lr : A) (c : option targ) :
  cellOk h c ->
  finalHeap (run c_SGD_Update fuel depth [DF lr; dcell c] h) = Some h' -> h' = h.
Proof.
  intros Hok.
  destruct (reject_or_grad h c) as [Hrej | [w [gr [Ec Hgr]]]].
  - destruct (Update_rejects fuel depth h lr c Hok Hrej) as [g [l [E _]]]. rewrite E. cbn [finalHeap]. congruence.
  - subst c. destruct (valOf_valid h w (Hok w eq_refl)) as [wv Hwv].
    pose proof (Update_ok fuel depth h lr w wv gr None Hwv Hgr) as H. cbv zeta in H.
    destruct (dor delta <- v_unary (UScale lr) gr; v_arith BiSub wv delta) as [v| |].
    + destruct H as [[g [l [E _]]] _]. rewrite E. cbn [finalHeap]. congruence.
    + destruct H as [[g [l [E _]]] _]. rewrite E. cbn [finalHeap]. congruence.
    + destruct H as [E _]. rewrite E. cbn [finalHeap]. discriminate.
Qed.

(* every run returns (one value: the error flag) or panics: never falls off the end, never runs out of fuel *)
Theorem Update_returns_or_panics fuel depth (h : heap) (lr : A) (c : option targ) :
  cellOk h c ->
  let o := run c_SGD_Update fuel depth [DF lr; dcell c] h in
  (exists e g l, o = DRet heap [DI e] h g l /\ (e = 0 \/ e = 1)) \/ o = DPanic heap.
Proof.
  intros Hok o. subst o.
  destruct (reject_or_grad h c) as [Hrej | [w [gr [Ec Hgr]]]].
  - destruct (Update_rejects fuel depth h lr c Hok Hrej) as [g [l [E _]]]. left. exists 1, g, l. split; [exact E | right; reflexivity].
  - subst c. destruct (valOf_valid h w (Hok w eq_refl)) as [wv Hwv].
    pose proof (Update_ok fuel depth h lr w wv gr None Hwv Hgr) as H. cbv zeta in H.
    destruct (dor delta <- v_unary (UScale lr) gr; v_arith BiSub wv delta) as [v| |].
    + destruct H as [[g [l [E _]]] _]. left. exists 0, g, l. split; [exact E | left; reflexivity].
    + destruct H as [[g [l [E _]]] _]. left. exists 1, g, l. split; [exact E | right; reflexivity].
    + destruct H as [E _]. right. exact E.
Qed.

(* ================= 4. equal shapes: Sub cannot fail ================= *)

Theorem Update_same_shape fuel depth (h : heap) (lr : A) (w : nat) (wv gr : T) :
  valOf h w = Some wv -> gradOf h w = Some gr -> wf wv -> wf gr -> dims gr = dims wv ->
  exists v,
    (dor delta <- v_unary (UScale lr) gr; v_arith BiSub wv delta) = Ok v /\
    dims v = dims wv /\ wf v /\
    (forall idx, validIdx (dims wv) idx ->
       get (data v) idx =
       match get (data wv) idx, get (data gr) idx with
       | Some x, Some gx => Some (ssub x (smul lr gx)) | _, _ => None end) /\
    exists g l, run c_SGD_Update fuel depth [DF lr; dcell (Some (Some w))] h = DRet heap [DI 0] h g l /\
                vlookup g l "wptr" = Some (DL [embT v]).
Proof.
  intros Hwv Hgr Wwv Wgr Ed.
  destruct (sgd_update_spec h lr w None wv gr Hwv Hgr Wwv Wgr Ed) as (n & E & _ & _ & _ & _ & _ & Hd & Hwf & Hget).
  pose proof (Update_ok fuel depth h lr w wv gr None Hwv Hgr) as H. cbv zeta in H.
  destruct (dor delta <- v_unary (UScale lr) gr; v_arith BiSub wv delta) as [v| |].
  - destruct H as [Hrun Hm]. rewrite Hm in E. cbn [alloc] in E.
    assert (En : nval n = v).
    { injection E as E1. apply app_inv_head in E1. injection E1 as E1. subst n. reflexivity. }
    subst v. exists (nval n). split; [reflexivity|]. split; [exact Hd|]. split; [exact Hwf|]. split; [exact Hget | exact Hrun].
  - destruct H as [_ Hm]. rewrite Hm in E. discriminate.
  - destruct H as [_ Hm]. rewrite Hm in E. discriminate.
Qed.

End CompSgd.

Print Assumptions Update_rejects.
Print Assumptions sgd_update_rejected.
Print Assumptions Update_ok.
Print Assumptions Update_heap_unchanged.
Print Assumptions Update_returns_or_panics.
Print Assumptions Update_same_shape.

(* ================= concrete runs over the free term algebra ================= *)
Definition sgd_tb (a b : term) : bool := true.
Definition sgd_lib (f : string) (a : list (@dval term)) (h : @heap term) : option (list (@dval term) * @heap term) := None.
Definition sgd_vec (a b : Z) : tensor term := mkT [2%nat] (Vec [Sc (TConst a 0); Sc (TConst b 0)]).
Definition sgd_vec3 : tensor term := mkT [3%nat] (Vec [Sc (TConst 1 0); Sc (TConst 1 0); Sc (TConst 1 0)]).
(* node 0: [1, 2] without gradient; node 1: [1, 2] with gradient [3, 4]; node 2: [1, 2] with a gradient of shape [3] *)
Definition sgd_h : @heap term :=
  [mkNode (sgd_vec 1 2) false false None [] None;
   mkNode (sgd_vec 1 2) true false (Some (sgd_vec 3 4)) [] None;
   mkNode (sgd_vec 1 2) true false (Some sgd_vec3) [] None].
Definition sgd_lr : term := TConst 1 (-2).
(* error flag, final heap and final content of the variable "wptr" *)
Definition sgd_run (c : option targ) : option (list (@dval term) * @heap term * option (@dval term)) :=
  match drun cfapp (@heap term) (cext sgd_tb sgd_tb sgd_lib) c_SGD_Update 0 0 [DF sgd_lr; dcell c] sgd_h with
  | DRet _ vs h' g l => Some (vs, h', vlookup g l "wptr")
  | _ => None
  end.

(* w - lr * g, element by element, in the cell; nil error; heap unchanged *)
Example sgd_ex_ok :
  sgd_run (Some (Some 1%nat)) =
  Some ([DI 0], sgd_h,
        Some (DL [embT (mkT [2%nat] (Vec [Sc (ssub (TConst 1 0) (smul sgd_lr (TConst 3 0)));
                                          Sc (ssub (TConst 2 0) (smul sgd_lr (TConst 4 0)))]))])).
Proof. vm_compute. reflexivity. Qed.
(* no gradient / nil pointer / nil cell: error, the cell is what it was *)
Example sgd_ex_nograd : sgd_run (Some (Some 0%nat)) = Some ([DI 1], sgd_h, Some (dcell (Some (Some 0%nat)))).
Proof. vm_compute. reflexivity. Qed.
Example sgd_ex_nilptr : sgd_run None = Some ([DI 1], sgd_h, Some DNil).
Proof. vm_compute. reflexivity. Qed.
Example sgd_ex_nilcell : sgd_run (Some None) = Some ([DI 1], sgd_h, Some (DL [DNil])).
Proof. vm_compute. reflexivity. Qed.
(* Sub fails (shapes [2] and [3] do not broadcast): error, and the cell now holds NIL, while the model keeps it *)
Example sgd_ex_sub_err :
  sgd_run (Some (Some 2%nat)) = Some ([DI 1], sgd_h, Some (DL [DNil])) /\
  sgd_update sgd_h sgd_lr (Some 2%nat) None = (sgd_h, Err).
Proof. vm_compute. split; reflexivity. Qed.
