(* CompAccE2EP.v — property C19 END TO END at the level of the translated source.
   Composition of
     - Proofs/CompAccP.v : the translated programs GoComp.c_Accuracy_{NewAccuracy,Accumulate,Result} (linked oracle
       CompExt.cext), run over any list of batches, compute the model fold [acc_fold] (theorem Accuracy_history), and
     - Proofs/AccP.v / Properties/C19.v : the model fold [acc_run] over any history of calls is matched / total over
       the accepted calls (history_counts, result_after_any_history, accumulate_never_panics,
       rejected_calls_can_be_deleted), over the reals a number of [0,1] (result_in_unit_interval).
   Result: running the TRANSLATED NewAccuracy, then the TRANSLATED Accumulate on every batch in order, then the
   TRANSLATED Result returns matched / total over the accepted calls (0 before any), with nil error, for EVERY
   history of calls on a heap of well-formed tensors, all fuel, all depth, all oracle parameters. *)
From Coq Require Import String List ZArith Bool Lia Arith.
From Qeep Require Import Model.Scalar Model.Nd Model.Fill Model.Data Model.Valid Model.Api Model.Grad Model.Backprop
     Model.Components Model.DataIR Model.HeapExt Model.GoComp Model.CompExt
     Proofs.NdP Proofs.DataIRP Proofs.HeapAccP Proofs.AccP Proofs.CompAccP.
From Qeep Require Properties.C19.
From Coq Require Import Reals.
From Qeep Require Import Spec.RScalar Proofs.CmpRP Proofs.AccRP.
Import ListNotations.
Local Open Scope string_scope.
Local Open Scope list_scope.
Local Open Scope nat_scope.

Section E2E.
Context {A : Type} {SA : Scalar A}.
Variables (fltb fleb : A -> A -> bool)
          (lib : string -> list (@dval A) -> @heap A -> option (list (@dval A) * @heap A)).
Notation heap := (@heap A).
Notation accuracy := (@accuracy A).

(* a history of calls on ONE heap, as the list of batches of CompAccP *)
Definition batchesOf (h : heap) (calls : list (targ * targ)) : list (@batch A) :=
  map (fun c => (h, fst c, snd c)) calls.

(* the ids of all calls denote nodes of the heap (needed by the PROGRAM side only: the oracle resolves ids) *)
Definition idsOk (h : heap) (calls : list (targ * targ)) : Prop :=
  Forall (fun c => targOk h (fst c) /\ targOk h (snd c)) calls.

Lemma idsOk_batchOk (h : heap) (calls : list (targ * targ)) :
  idsOk h calls -> Forall batchOk (batchesOf h calls).
Proof.
  unfold idsOk, batchesOf. induction 1 as [|[yp yt] cs Hc Hcs IH]; cbn [map]; constructor; [exact Hc | exact IH].
Qed.

Lemma idsOk_filter (h : heap) (f : targ * targ -> bool) (calls : list (targ * targ)) :
  idsOk h calls -> idsOk h (filter f calls).
Proof.
  unfold idsOk. rewrite !Forall_forall. intros H c Hc. apply filter_In in Hc. apply H, Hc.
Qed.

(* ================= (1) the two model folds agree ================= *)

(* [vals_wf h] alone is enough here: both folds are on the MODEL side, no id has to be valid (an id outside the heap
   makes lossArgs1 reject the call in both folds) *)
Theorem acc_fold_is_acc_run_any_ids (h : heap) (calls : list (targ * targ)) :
  vals_wf h -> forall a : accuracy,
  acc_fold a (map (fun c => (h, fst c, snd c)) calls) = Some (acc_run h calls a).
Proof.
  intros W. induction calls as [|c cs IH]; intros a; [reflexivity|].
  cbn [map acc_fold]. unfold acc_run. cbn [fold_left]. fold (acc_run h cs).
  pose proof (C19.accumulate_never_panics A SA h a (fst c) (snd c) W) as NP.
  destruct (acc_accumulate h a (fst c) (snd c)) as [a' [[]| |]] eqn:E; cbn [fst snd] in *.
  - apply IH.
  - apply acc_accumulate_Err in E. subst a'. apply IH.
  - exfalso. apply NP. reflexivity.
Qed.

Theorem acc_fold_is_acc_run (h : heap) (calls : list (targ * targ)) :
  vals_wf h ->
  Forall (fun c => targOk h (fst c) /\ targOk h (snd c)) calls ->
  forall a : accuracy,
  acc_fold a (map (fun c => (h, fst c, snd c)) calls) = Some (acc_run h calls a).
Proof. intros W _. apply acc_fold_is_acc_run_any_ids, W. Qed.

(* ================= (2) the translated source over any history ================= *)

(* program history = Result of the model history *)
Lemma source_history_is_acc_run fuel depth (h : heap) (calls : list (targ * targ)) :
  vals_wf h ->
  Forall (fun c => targOk h (fst c) /\ targOk h (snd c)) calls ->
  accProg_history fltb fleb lib fuel depth h (map (fun c => (h, fst c, snd c)) calls) h
  = Some [DF (acc_result (acc_run h calls acc_new)); DI 0%Z].
Proof.
  intros W Hids.
  rewrite (Accuracy_history fltb fleb lib fuel depth h h _ (idsOk_batchOk h calls Hids)).
  rewrite (acc_fold_is_acc_run h calls W Hids acc_new). reflexivity.
Qed.

Theorem source_accuracy_over_any_history fuel depth (h : heap) (calls : list (targ * targ)) :
  vals_wf h ->
  Forall (fun c => targOk h (fst c) /\ targOk h (snd c)) calls ->
  let acc := filter (accepted h) calls in
  let total := list_sum (map (call_len h) acc) in
  let matched := fold_left sadd (map (call_matched h) acc) (sconst 0 0) in
  accProg_history fltb fleb lib fuel depth h (map (fun c => (h, fst c, snd c)) calls) h
  = Some [DF (if total =? 0 then sconst 0 0 else sdiv matched (sofnat total)); DI 0%Z].
Proof.
  intros W Hids acc total matched.
  rewrite (source_history_is_acc_run fuel depth h calls W Hids).
  destruct (C19.result_after_any_history A SA h calls W) as (_ & _ & Hr). cbv zeta in Hr.
  rewrite Hr. reflexivity.
Qed.

(* before any call: 0 *)
Corollary source_accuracy_before_any_call fuel depth (h : heap) :
  accProg_history fltb fleb lib fuel depth h [] h = Some [DF (sconst 0 0); DI 0%Z].
Proof.
  rewrite (Accuracy_history fltb fleb lib fuel depth h h [] (Forall_nil _)). reflexivity.
Qed.

(* ================= (3) rejected calls leave no trace in the translated source ================= *)

Theorem source_accuracy_ignores_rejected_calls fuel depth (h : heap) (calls : list (targ * targ)) :
  vals_wf h ->
  Forall (fun c => targOk h (fst c) /\ targOk h (snd c)) calls ->
  accProg_history fltb fleb lib fuel depth h (map (fun c => (h, fst c, snd c)) calls) h
  = accProg_history fltb fleb lib fuel depth h (map (fun c => (h, fst c, snd c)) (filter (accepted h) calls)) h.
Proof.
  intros W Hids.
  rewrite (source_history_is_acc_run fuel depth h calls W Hids).
  rewrite (source_history_is_acc_run fuel depth h _ W (idsOk_filter h (accepted h) calls Hids)).
  rewrite <- (C19.rejected_calls_can_be_deleted A SA h calls W acc_new). reflexivity.
Qed.

(* a rejected call anywhere in the history can be deleted *)
Corollary source_accuracy_rejected_call_anywhere fuel depth (h : heap) (l1 l2 : list (targ * targ)) (c : targ * targ) :
  vals_wf h ->
  Forall (fun c => targOk h (fst c) /\ targOk h (snd c)) (l1 ++ c :: l2) ->
  accepted h c = false ->
  accProg_history fltb fleb lib fuel depth h (map (fun c => (h, fst c, snd c)) (l1 ++ c :: l2)) h
  = accProg_history fltb fleb lib fuel depth h (map (fun c => (h, fst c, snd c)) (l1 ++ l2)) h.
Proof.
  intros W Hids Hc.
  assert (Hids' : Forall (fun c => targOk h (fst c) /\ targOk h (snd c)) (l1 ++ l2)).
  { rewrite Forall_forall in *. intros x Hx. apply Hids. apply in_app_or in Hx. apply in_or_app.
    destruct Hx as [Hx|Hx]; [left; exact Hx | right; right; exact Hx]. }
  rewrite (source_history_is_acc_run fuel depth h _ W Hids).
  rewrite (source_history_is_acc_run fuel depth h _ W Hids').
  rewrite (acc_run_delete h l1 l2 c acc_new W Hc). reflexivity.
Qed.

End E2E.

(* ================= (4) over the reals: the returned number lies in [0, 1] ================= *)

Theorem source_accuracy_in_unit_interval (thr : R) (draw : bool -> nat -> R)
        (fltb fleb : R -> R -> bool)
        (lib : string -> list (@dval R) -> @heap R -> option (list (@dval R) * @heap R))
        fuel depth (h : @heap R) (calls : list (targ * targ)) :
  (0 <= thr)%R ->
  @vals_wf R h ->
  (forall c, In c calls -> @accepted R h c = true -> call_sep thr h c) ->
  Forall (fun c => targOk h (fst c) /\ targOk h (snd c)) calls ->
  exists r : R,
    @accProg_history R (RS thr draw) fltb fleb lib fuel depth h (map (fun c => (h, fst c, snd c)) calls) h
    = Some [DF r; DI 0%Z] /\ (0 <= r <= 1)%R.
Proof.
  intros Hthr W Hsep Hids.
  exists (@acc_result R (RS thr draw) (@acc_run R (RS thr draw) h calls (@acc_new R (RS thr draw)))).
  split.
  - apply (@source_history_is_acc_run R (RS thr draw) fltb fleb lib fuel depth h calls W Hids).
  - apply (C19.result_in_unit_interval thr draw Hthr h calls W Hsep).
Qed.

Print Assumptions acc_fold_is_acc_run_any_ids.
Print Assumptions acc_fold_is_acc_run.
Print Assumptions source_accuracy_over_any_history.
Print Assumptions source_accuracy_before_any_call.
Print Assumptions source_accuracy_ignores_rejected_calls.
Print Assumptions source_accuracy_rejected_call_anywhere.
Print Assumptions source_accuracy_in_unit_interval.

(* ================= a concrete history over the free term algebra ================= *)
(* CompAccP.ex_h: node 0 = [1, 2], node 1 = [1, 3], node 2 = [[1, 2]] *)
Lemma ex_h_wf : @vals_wf term ex_h.
Proof.
  intros i v H.
  do 3 (destruct i as [|i]; [inversion H; subst; split; [apply wfndb_spec; reflexivity|repeat constructor]|]).
  destruct i; discriminate.
Qed.

Definition ex_calls : list (targ * targ) :=
  [(Some 0, Some 1); (None, Some 1); (Some 2, Some 1); (Some 1, Some 1)].

Lemma ex_calls_ids : Forall (fun c => targOk ex_h (fst c) /\ targOk ex_h (snd c)) ex_calls.
Proof. repeat constructor; cbn; lia. Qed.

(* the theorem instantiated, and the same equation checked by computation; two calls of four are accepted *)
Example e2e_example :
  filter (accepted ex_h) ex_calls = [(Some 0, Some 1); (Some 1, Some 1)] /\
  list_sum (map (call_len ex_h) (filter (accepted ex_h) ex_calls)) = 4 /\
  accProg_history ex_tb ex_tb ex_lib 1 1 ex_h (map (fun c => (ex_h, fst c, snd c)) ex_calls) ex_h
  = Some [DF (sdiv (fold_left sadd (map (call_matched ex_h) (filter (accepted ex_h) ex_calls)) (sconst 0 0))
                   (sofnat 4)); DI 0%Z] /\
  accProg_history ex_tb ex_tb ex_lib 1 1 ex_h (map (fun c => (ex_h, fst c, snd c)) ex_calls) ex_h
  = accProg_history ex_tb ex_tb ex_lib 7 3 ex_h
      (map (fun c => (ex_h, fst c, snd c)) (filter (accepted ex_h) ex_calls)) ex_h.
Proof.
  split; [vm_compute; reflexivity|]. split; [vm_compute; reflexivity|]. split.
  - pose proof (source_accuracy_over_any_history ex_tb ex_tb ex_lib 1 1 ex_h ex_calls ex_h_wf ex_calls_ids) as H.
    cbv zeta in H. rewrite H. vm_compute. reflexivity.
  - vm_compute. reflexivity.
Qed.
