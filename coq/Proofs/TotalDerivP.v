(* TotalDerivP.v — the analytic half of property C01: reverse-mode accumulation (bp_topo) equals
   forward-mode (tangent) propagation.
   [bp_duality]: on a fresh graph, the gradient that back-propagation from [root] leaves on a tracked
   node [x], paired with an arbitrary direction [dl], equals the sum over the root's elements of the
   forward-mode tangent of the root in direction [dl], where tangents are propagated through the graph
   with the local Jacobians [D c e] of the back-edge rules (hypothesis [jac_hyp]: each rule is linear in
   the upstream gradient with coefficients [D c e] — what the C02/C07 theorems provide rule by rule).
   [bp_total_derivative]: if the re-evaluated node values obey the chain rule at every node above [x]
   (hypothesis [chain_hyp], a statement of calculus about the operations), that number IS the
   derivative at 0 of  t |-> Σ_k root_k (x + t dl);  [bp_partial_derivative]: with [dl] the indicator
   of position i, the gradient element i is the partial derivative of the sum of the root's elements.
   [chain_linear], [chain_pointwise] (+ [Jt_single_*]) discharge the chain-rule hypothesis for
   linear/gather nodes and element-wise unary nodes; Module [TotalDerivExample] instantiates everything
   on  y = sin x; z = 2 y.  Instance: the reals, [R_scalar thr draw] for arbitrary thr, draw. *)
From Coq Require Import List Arith ZArith Bool Lia Reals Lra.
From Coquelicot Require Import Coquelicot.
From Qeep Require Import Model.Scalar Model.Nd Model.Fill Model.Data Model.Valid Model.Api Model.Grad Model.Backprop.
From Qeep Require Import Proofs.NdP Proofs.ElemP Proofs.ArithP Proofs.BackpropP.
From Qeep Require Import Spec.RScalar Spec.ScalarDeriv Spec.VjpSpec.
From Qeep Require Import Proofs.VjpGatherP Proofs.VjpElemP.
Import ListNotations.
Local Open Scope R_scope.

(* ================================================================================= *)
(* 0. finite sums over lists ([lsum] of VjpGatherP) and over index sets                *)
(* ================================================================================= *)

Lemma lsum_nil {X} (f : X -> R) : lsum [] f = 0.
Proof. reflexivity. Qed.

Lemma lsum_cons {X} (a : X) l (f : X -> R) : lsum (a :: l) f = f a + lsum l f.
Proof. reflexivity. Qed.

Lemma lsum_flat_map {X Y} (F : X -> list Y) (l : list X) (f : Y -> R) :
  lsum (flat_map F l) f = lsum l (fun c => lsum (F c) f).
Proof.
  induction l as [|a l IH]; [reflexivity|]. cbn [flat_map]. rewrite lsum_app, lsum_cons, IH. reflexivity.
Qed.

Lemma lsum_scal_l {X} (l : list X) a (f : X -> R) : lsum l (fun k => a * f k) = a * lsum l f.
Proof. induction l as [|b l IH]; [rewrite !lsum_nil; ring|]. rewrite !lsum_cons, IH. ring. Qed.

Lemma lsum_scal_r {X} (l : list X) a (f : X -> R) : lsum l (fun k => f k * a) = lsum l f * a.
Proof. induction l as [|b l IH]; [rewrite !lsum_nil; ring|]. rewrite !lsum_cons, IH. ring. Qed.

Lemma lsum_pick (l : list nat) a (c : nat -> R) : NoDup l -> In a l ->
  lsum l (fun k => if (a =? k)%nat then c k else 0) = c a.
Proof.
  intros Hnd Hin. rewrite <- (lsum_single_nat l a c Hnd Hin). apply lsum_ext_in. intros k _.
  rewrite Nat.eqb_sym. reflexivity.
Qed.

Lemma lsum_pick_none (l : list nat) a (c : nat -> R) : ~ In a l ->
  lsum l (fun k => if (a =? k)%nat then c k else 0) = 0.
Proof.
  intros Hn. transitivity (lsum l (fun _ : nat => 0)); [|apply lsum_zero]. apply lsum_ext_in. intros k Hk.
  destruct (Nat.eqb_spec a k) as [->|_]; [contradiction|reflexivity].
Qed.

Lemma lsum_swap3 {X Y} (l : list X) (E : X -> list Y) (G : X -> X -> Y -> R) :
  lsum l (fun n => lsum l (fun c => lsum (E c) (fun e => G n c e))) =
  lsum l (fun c => lsum (E c) (fun e => lsum l (fun n => G n c e))).
Proof.
  rewrite lsum_swap. apply lsum_ext_in. intros c _. apply lsum_swap.
Qed.

Lemma sumIdx_lsum ds {X} (l : list X) (F : X -> list nat -> R) :
  sumIdx ds (fun i => lsum l (fun e => F e i)) = lsum l (fun e => sumIdx ds (fun i => F e i)).
Proof. symmetry. apply (lsum_swap l (allIdx ds)). Qed.

Lemma sumIdx_scal_r ds c f : sumIdx ds (fun i => f i * c) = sumIdx ds f * c.
Proof. rewrite Rmult_comm, <- sumIdx_scal. apply sumIdx_ext. intros i _. ring. Qed.

Lemma sumIdx_mult0_r ds f : sumIdx ds (fun i => f i * 0) = 0.
Proof. rewrite sumIdx_scal_r. ring. Qed.

(* Σ_i (Σ_c Σ_e F c e i) * t i = Σ_c Σ_e Σ_i F c e i * t i *)
Lemma sumIdx_lsum2 ds {X Y} (l1 : list X) (l2 : X -> list Y) (F : X -> Y -> list nat -> R) (t : list nat -> R) :
  sumIdx ds (fun i => lsum l1 (fun c => lsum (l2 c) (fun e => F c e i)) * t i) =
  lsum l1 (fun c => lsum (l2 c) (fun e => sumIdx ds (fun i => F c e i * t i))).
Proof.
  rewrite (sumIdx_ext ds _ (fun i => lsum l1 (fun c => lsum (l2 c) (fun e => F c e i * t i)))).
  - rewrite sumIdx_lsum. apply lsum_ext_in. intros c _. apply sumIdx_lsum.
  - intros i _. rewrite <- lsum_scal_r. apply lsum_ext_in. intros c _. rewrite lsum_scal_r. reflexivity.
Qed.

(* the derivative of a finite sum is the sum of the derivatives *)
Lemma is_derive_lsum {X} (l : list X) (f : R -> X -> R) (d : X -> R) (a : R) :
  (forall k, In k l -> is_derive (fun t => f t k) a (d k)) ->
  is_derive (fun t => lsum l (f t)) a (lsum l d).
Proof.
  induction l as [|b l IH]; intros H.
  - apply (is_derive_const 0 a).
  - apply (is_derive_ext (fun t => plus (f t b) (lsum l (f t)))); [intros t; reflexivity|].
    rewrite lsum_cons. apply (is_derive_plus (fun t => f t b) (fun t => lsum l (f t)) a (d b) (lsum l d)).
    + apply H. left. reflexivity.
    + apply IH. intros k Hk. apply H. right. exact Hk.
Qed.

Lemma is_derive_sumIdx ds (f : R -> list nat -> R) (d : list nat -> R) (a : R) :
  (forall k, validIdx ds k -> is_derive (fun t => f t k) a (d k)) ->
  is_derive (fun t => sumIdx ds (f t)) a (sumIdx ds d).
Proof.
  intros H. apply (is_derive_lsum (allIdx ds) f d a). intros k Hk. apply H. apply allIdx_spec. exact Hk.
Qed.


(* the chain rule for the two simplest node classes, on scalars *)
Lemma chain_linear ds (Dm : list nat -> R) (k : R) (vm : R -> list nat -> R) (vn : R -> R) (dm : list nat -> R) :
  (forall t, vn t = sumIdx ds (fun i => Dm i * vm t i) + k) ->
  (forall i, validIdx ds i -> is_derive (fun t => vm t i) 0 (dm i)) ->
  is_derive vn 0 (sumIdx ds (fun i => Dm i * dm i)).
Proof.
  intros Hv Hd.
  apply (is_derive_ext (fun t => plus (sumIdx ds (fun i => Dm i * vm t i)) k)); [intros t; symmetry; apply Hv|].
  assert (H1 : is_derive (fun t => sumIdx ds (fun i => Dm i * vm t i)) 0 (sumIdx ds (fun i => Dm i * dm i))).
  { apply (is_derive_sumIdx ds (fun t i => Dm i * vm t i)). intros i Hi.
    apply is_derive_scal. apply Hd. exact Hi. }
  assert (H2 : is_derive (fun _ : R => k) 0 0) by apply (is_derive_const k 0).
  pose proof (is_derive_plus _ _ 0 _ _ H1 H2) as H3.
  replace (sumIdx ds (fun i => Dm i * dm i)) with (plus (sumIdx ds (fun i => Dm i * dm i)) 0)
    by (unfold plus; cbn; ring).
  exact H3.
Qed.

Lemma chain_pointwise (f : R -> R) (vm vn : R -> R) (d dm : R) :
  (forall t, vn t = f (vm t)) -> is_derive f (vm 0) d -> is_derive vm 0 dm ->
  is_derive vn 0 (d * dm).
Proof.
  intros Hv Hf Hm.
  apply (is_derive_ext (fun t => f (vm t))); [intros t; symmetry; apply Hv|].
  replace (d * dm) with (scal dm d) by (unfold scal; cbn; unfold mult; cbn; ring).
  apply (is_derive_comp f vm 0 d dm Hf Hm).
Qed.

(* ================================================================================= *)
(* 1. accumulation of same-shape real tensors is element-wise addition                 *)
(* ================================================================================= *)
Section TotalDeriv.
Variables (thr : R) (draw : bool -> nat -> R).
Local Hint Extern 0 (Scalar R) => exact (R_scalar thr draw) : typeclass_instances.
Notation T := (tensor R).
Notation heap := (@heap R).
Notation rule := (@rule R).

Definition oelt (o : option T) : assignment := match o with Some g => elt g | None => fun _ => 0 end.

Lemma accAll_Some_elt ds : forall (l : list T) (g0 : T) o,
  wf g0 -> dims g0 = ds -> List.Forall (fun t : T => wf t /\ dims t = ds) l ->
  accAll (Some g0) l = Some o ->
  exists g, o = Some g /\ wf g /\ dims g = ds /\
    forall idx, validIdx ds idx -> elt g idx = elt g0 idx + lsum l (fun t => elt t idx).
Proof.
  induction l as [|t l IH]; intros g0 o W0 D0 HF E.
  - cbn [accAll] in E. inversion E; subst o. exists g0. repeat (split; [auto|]).
    intros idx _. rewrite lsum_nil. ring.
  - inversion HF as [|? ? [Wt Dt] HF']; subst.
    cbn [accAll acc1] in E.
    destruct (ar_elt thr draw BiAdd g0 t W0 Wt (eq_sym Dt)) as (s & Es & Ds & Ws & Gs).
    rewrite Es in E.
    destruct (IH s o Ws Ds HF' E) as (g & Eo & Wg & Dg & Gg).
    exists g. split; [exact Eo|]. split; [exact Wg|]. split; [exact Dg|].
    intros idx Hv. rewrite (Gg idx Hv), (Gs idx Hv), lsum_cons.
    change (binaryF BiAdd (elt g0 idx) (elt t idx)) with (elt g0 idx + elt t idx). ring.
Qed.

Lemma accAll_None_elt ds (l : list T) o :
  List.Forall (fun t : T => wf t /\ dims t = ds) l -> accAll None l = Some o ->
  (forall g, o = Some g -> wf g /\ dims g = ds) /\
  forall idx, validIdx ds idx -> oelt o idx = lsum l (fun t => elt t idx).
Proof.
  intros HF E. destruct l as [|t l].
  - cbn [accAll] in E. inversion E; subst o. split; [intros g Hg; discriminate|]. intros idx _. reflexivity.
  - inversion HF as [|? ? [Wt Dt] HF']; subst. cbn [accAll acc1] in E.
    destruct (accAll_Some_elt (dims t) l t o Wt eq_refl HF' E) as (g & Eo & Wg & Dg & Gg). subst o.
    split; [intros g' Hg'; inversion Hg'; subst g'; auto|].
    intros idx Hv. cbn [oelt]. rewrite (Gg idx Hv), lsum_cons. reflexivity.
Qed.

(* ================================================================================= *)
(* 2. the setting: graph, local Jacobians, tangents                                   *)
(* ================================================================================= *)
Section Setting.
Variable rd : bred.
Variable h : heap.
Variable root : nat.

Definition dimsOf (n : nat) : list nat := match valOf h n with Some v => dims v | None => [] end.

(* D c e i j : entry (position i of the target [fst e], position j of the consumer c) of the
   Jacobian of consumer c with respect to the operand behind its back edge e *)
Variable D : nat -> nat * rule -> list nat -> list nat -> R.

(* (HJ) every back edge of the graph is linear in the upstream gradient, with coefficients D *)
Definition jac_hyp : Prop :=
  forall c e, In c (topoOrder h root) -> In e (edgesOf h c) -> trackedOf h (fst e) = true ->
  forall (hh : heap) (gc : T),
    (forall i, valOf hh i = valOf h i) -> gradOf hh c = Some gc -> wf gc -> dims gc = dimsOf c ->
    exists g, eval_rule rd hh (snd e) = Ok g /\ dims g = dimsOf (fst e) /\ wf g /\
      forall i, validIdx (dimsOf (fst e)) i ->
        elt g i = sumIdx (dimsOf c) (fun j => elt gc j * D c e i j).

Variable x : nat.
Variable dl : assignment.

(* one forward step: the tangent of node n from the tangents [tn] of its tracked operands *)
Definition Jt (tn : nat -> assignment) (n : nat) : assignment :=
  fun j => lsum (edgesOf h n)
             (fun e => if trackedOf h (fst e)
                       then sumIdx (dimsOf (fst e)) (fun i => D n e i j * tn (fst e) i) else 0).

Fixpoint tangF (fuel n : nat) : assignment :=
  match fuel with
  | O => fun _ => 0
  | S f => if (n <? x)%nat then fun _ => 0 else if (n =? x)%nat then dl else Jt (tangF f) n
  end.

(* the forward-mode tangent of node n in direction dl at x *)
Definition tang (n : nat) : assignment := tangF (S n) n.

Lemma Jt_ext (t1 t2 : nat -> assignment) n :
  (forall e, In e (edgesOf h n) -> forall i, t1 (fst e) i = t2 (fst e) i) ->
  forall j, Jt t1 n j = Jt t2 n j.
Proof.
  intros H j. unfold Jt. apply lsum_ext_in. intros e He. destruct (trackedOf h (fst e)); [|reflexivity].
  apply sumIdx_ext. intros i _. rewrite (H e He i). reflexivity.
Qed.

Hypothesis Hwf : wf_heap h.

Lemma tangF_fuel : forall f1 f2 n, (n < f1)%nat -> (n < f2)%nat -> forall j, tangF f1 n j = tangF f2 n j.
Proof.
  induction f1 as [|f1 IH]; intros f2 n H1 H2 j; [lia|]. destruct f2 as [|f2]; [lia|].
  cbn [tangF]. destruct (n <? x)%nat; [reflexivity|]. destruct (n =? x)%nat; [reflexivity|].
  apply Jt_ext. intros e He i. pose proof (wf_heap_edgesOf h Hwf n e He) as Hlt. apply IH; lia.
Qed.

Lemma tang_lt n : (n < x)%nat -> forall j, tang n j = 0.
Proof. intros Hn j. unfold tang. cbn [tangF]. apply Nat.ltb_lt in Hn. rewrite Hn. reflexivity. Qed.

Lemma tang_x : forall j, tang x j = dl j.
Proof. intros j. unfold tang. cbn [tangF]. rewrite Nat.ltb_irrefl, Nat.eqb_refl. reflexivity. Qed.

Lemma tang_gt n : (x < n)%nat -> forall j, tang n j = Jt tang n j.
Proof.
  intros Hn j. unfold tang at 1. cbn [tangF].
  assert (E1 : (n <? x)%nat = false) by (apply Nat.ltb_ge; lia).
  assert (E2 : (n =? x)%nat = false) by (apply Nat.eqb_neq; lia).
  rewrite E1, E2. apply Jt_ext. intros e He i. pose proof (wf_heap_edgesOf h Hwf n e He) as Hlt.
  unfold tang. apply tangF_fuel; lia.
Qed.

Lemma Jt_tang_zero n : (n <= x)%nat -> forall j, Jt tang n j = 0.
Proof.
  intros Hn j. unfold Jt.
  transitivity (lsum (edgesOf h n) (fun _ => 0)); [|apply lsum_zero]. apply lsum_ext_in. intros e He.
  destruct (trackedOf h (fst e)); [|reflexivity].
  pose proof (wf_heap_edgesOf h Hwf n e He) as Hlt.
  transitivity (sumIdx (dimsOf (fst e)) (fun _ => 0)); [|apply sumIdx_zero]. apply sumIdx_ext. intros i _.
  rewrite tang_lt by lia. ring.
Qed.

(* ================================================================================= *)
(* 3. the adjoint equations element-wise, and the duality identity                    *)
(* ================================================================================= *)
Section Core.
Variable h' : heap.
Variable ones : T.
Notation order := (topoOrder h root).

Hypothesis Ond : NoDup order.
Hypothesis Otr : forall c, In c order -> trackedOf h c = true.
Hypothesis Oord : ordered h order.
Hypothesis Oroot : In root order.
Hypothesis Ole : forall c, In c order -> (c <= root)%nat.
Hypothesis Vsame : forall i, valOf h' i = valOf h i.
Hypothesis Wones : wf ones.
Hypothesis Dones : dims ones = dimsOf root.
Hypothesis Eones : forall i, validIdx (dimsOf root) i -> elt ones i = 1.
Hypothesis Cacc : forall n, In n order ->
  accAll None ((if (n =? root)%nat then [ones] else []) ++ contributions rd h' h order n) = Some (gradOf h' n).
Hypothesis Cgr : forall c, In c order -> gradOf h' c <> None.
Hypothesis HJ : jac_hyp.

Definition Sg (n : nat) : assignment := oelt (gradOf h' n).
Definition shaped (n : nat) : Prop := exists g, gradOf h' n = Some g /\ wf g /\ dims g = dimsOf n.
(* the vector-Jacobian product along edge e of consumer c, at the final gradient of c *)
Definition Vc (c : nat) (e : nat * rule) : assignment :=
  fun i => sumIdx (dimsOf c) (fun j => Sg c j * D c e i j).

Lemma node_step n : In n order -> (forall c, In c order -> (n < c)%nat -> shaped c) ->
  shaped n /\
  forall i, validIdx (dimsOf n) i ->
    Sg n i = (if (n =? root)%nat then 1 else 0) +
             lsum order (fun c => lsum (edgesOf h c) (fun e => if (fst e =? n)%nat then Vc c e i else 0)).
Proof.
  intros Hn Hup.
  (* what one contributing edge evaluates to *)
  assert (Hedge : forall c e, In c order -> In e (edgesOf h c) -> fst e = n ->
            exists g, eval_rule rd h' (snd e) = Ok g /\ dims g = dimsOf n /\ wf g /\
              forall i, validIdx (dimsOf n) i -> elt g i = Vc c e i).
  { intros c e Hc He Hf. pose proof (wf_heap_edgesOf h Hwf c e He) as Hlt. rewrite Hf in Hlt.
    destruct (Hup c Hc Hlt) as (gc & Egc & Wgc & Dgc).
    assert (Ht : trackedOf h (fst e) = true) by (rewrite Hf; apply Otr; exact Hn).
    destruct (HJ c e Hc He Ht h' gc Vsame Egc Wgc Dgc) as (g & Eg & Dg & Wg & Gg).
    rewrite Hf in Dg, Gg. exists g. split; [exact Eg|]. split; [exact Dg|]. split; [exact Wg|].
    intros i Hi. rewrite (Gg i Hi). unfold Vc, Sg. rewrite Egc. reflexivity. }
  pose proof (Cacc n Hn) as E.
  assert (HF : List.Forall (fun t : T => wf t /\ dims t = dimsOf n)
                 ((if (n =? root)%nat then [ones] else []) ++ contributions rd h' h order n)).
  { apply Forall_forall. intros t Ht. apply in_app_or in Ht as [Ht|Ht].
    - destruct (Nat.eqb_spec n root) as [->|_]; [|destruct Ht].
      destruct Ht as [<-|[]]. split; [exact Wones|exact Dones].
    - unfold contributions in Ht. apply in_flat_map in Ht as (c & Hc & Ht).
      apply in_flat_map in Ht as (e & He & Ht). unfold contrib_e in Ht.
      destruct (Nat.eqb_spec (fst e) n) as [Hf|_]; [|destruct Ht].
      destruct (Hedge c e Hc He Hf) as (g & Eg & Dg & Wg & _). rewrite Eg in Ht.
      destruct Ht as [<-|[]]. split; [exact Wg|exact Dg]. }
  destruct (accAll_None_elt (dimsOf n) _ _ HF E) as [Hsh Hel]. split.
  - destruct (gradOf h' n) as [g|] eqn:Eg; [|exfalso; exact (Cgr n Hn Eg)].
    exists g. destruct (Hsh g eq_refl) as [Wg Dg]. auto.
  - intros i Hi. unfold Sg. rewrite (Hel i Hi), lsum_app. f_equal.
    + destruct (Nat.eqb_spec n root) as [->|_]; [|reflexivity].
      rewrite lsum_cons, lsum_nil, (Eones i Hi). ring.
    + unfold contributions. rewrite lsum_flat_map. apply lsum_ext_in. intros c Hc.
      rewrite lsum_flat_map. apply lsum_ext_in. intros e He. unfold contrib_e.
      destruct (Nat.eqb_spec (fst e) n) as [Hf|_]; [|reflexivity].
      destruct (Hedge c e Hc He Hf) as (g & Eg & _ & _ & Gg). rewrite Eg.
      rewrite lsum_cons, lsum_nil, (Gg i Hi). ring.
Qed.

Lemma all_shaped : forall n, In n order -> shaped n.
Proof.
  assert (H : forall k n, In n order -> (root - n <= k)%nat -> shaped n).
  { induction k as [|k IH]; intros n Hn Hk.
    - apply (node_step n Hn). intros c Hc Hlt. pose proof (Ole c Hc). pose proof (Ole n Hn). lia.
    - apply (node_step n Hn). intros c Hc Hlt. apply IH; [exact Hc|]. pose proof (Ole c Hc). lia. }
  intros n Hn. apply (H (root - n)%nat n Hn). lia.
Qed.

Lemma adjoint_elt n : In n order -> forall i, validIdx (dimsOf n) i ->
  Sg n i = (if (n =? root)%nat then 1 else 0) +
           lsum order (fun c => lsum (edgesOf h c) (fun e => if (fst e =? n)%nat then Vc c e i else 0)).
Proof. intros Hn. apply (node_step n Hn). intros c Hc _. apply all_shaped. exact Hc. Qed.

Definition pr (n : nat) (a b : assignment) : R := sumIdx (dimsOf n) (fun i => a i * b i).

(* <V_e (S c), t> = <S c, J_e t> : swapping the two finite sums *)
Lemma vjp_jvp_swap c e (t : assignment) :
  sumIdx (dimsOf (fst e)) (fun i => Vc c e i * t i) =
  sumIdx (dimsOf c) (fun j => Sg c j * sumIdx (dimsOf (fst e)) (fun i => D c e i j * t i)).
Proof.
  unfold Vc.
  rewrite (sumIdx_ext (dimsOf (fst e)) _
             (fun i => sumIdx (dimsOf c) (fun j => Sg c j * D c e i j * t i))).
  2:{ intros i _. rewrite <- sumIdx_scal_r. reflexivity. }
  rewrite sumIdx_swap. apply sumIdx_ext. intros j _. rewrite <- sumIdx_scal.
  apply sumIdx_ext. intros i _. ring.
Qed.

Hypothesis Hx : In x order.

Theorem duality_core :
  pr x (Sg x) dl = sumIdx (dimsOf root) (fun k => tang root k).
Proof.
  set (A := lsum order (fun n => pr n (Sg n) (tang n))).
  set (R1 := sumIdx (dimsOf root) (fun k => tang root k)).
  (* step 1: insert the adjoint equations *)
  assert (S1 : A = R1 + lsum order (fun n => lsum order (fun c => lsum (edgesOf h c)
                 (fun e => if (fst e =? n)%nat
                           then sumIdx (dimsOf n) (fun i => Vc c e i * tang n i) else 0)))).
  { unfold A.
    rewrite (lsum_ext_in order _
      (fun n => (if (root =? n)%nat then R1 else 0) +
                lsum order (fun c => lsum (edgesOf h c)
                 (fun e => if (fst e =? n)%nat
                           then sumIdx (dimsOf n) (fun i => Vc c e i * tang n i) else 0)))).
    - rewrite lsum_plus. f_equal. apply (lsum_pick order root (fun _ => R1) Ond Oroot).
    - intros n Hn. unfold pr.
      rewrite (sumIdx_ext (dimsOf n) _
        (fun i => (if (n =? root)%nat then 1 else 0) * tang n i +
                  lsum order (fun c => lsum (edgesOf h c)
                    (fun e => if (fst e =? n)%nat then Vc c e i else 0)) * tang n i)).
      2:{ intros i Hi. rewrite (adjoint_elt n Hn i Hi). ring. }
      rewrite sumIdx_plus. f_equal.
      + rewrite (Nat.eqb_sym root n). destruct (Nat.eqb_spec n root) as [->|_].
        * unfold R1. apply sumIdx_ext. intros i _. ring.
        * transitivity (sumIdx (dimsOf n) (fun _ => 0)); [|apply sumIdx_zero].
          apply sumIdx_ext. intros i _. ring.
      + rewrite sumIdx_lsum2. apply lsum_ext_in. intros c _. apply lsum_ext_in. intros e _.
        destruct (fst e =? n)%nat; [reflexivity|].
        transitivity (sumIdx (dimsOf n) (fun _ => 0)); [|apply sumIdx_zero].
        apply sumIdx_ext. intros i _. ring. }
  (* step 2: exchange the sums; each tracked edge target is met exactly once *)
  assert (S2 : lsum order (fun n => lsum order (fun c => lsum (edgesOf h c)
                 (fun e => if (fst e =? n)%nat
                           then sumIdx (dimsOf n) (fun i => Vc c e i * tang n i) else 0)))
               = lsum order (fun c => pr c (Sg c) (Jt tang c))).
  { rewrite lsum_swap3. apply lsum_ext_in. intros c Hc.
    rewrite (lsum_ext_in (edgesOf h c) _
      (fun e => if trackedOf h (fst e)
                then sumIdx (dimsOf c) (fun j => Sg c j *
                       sumIdx (dimsOf (fst e)) (fun i => D c e i j * tang (fst e) i)) else 0)).
    - unfold pr, Jt.
      rewrite (sumIdx_ext (dimsOf c) _
        (fun j => lsum (edgesOf h c) (fun e => if trackedOf h (fst e)
           then Sg c j * sumIdx (dimsOf (fst e)) (fun i => D c e i j * tang (fst e) i) else 0))).
      2:{ intros j _. rewrite <- lsum_scal_l. apply lsum_ext_in. intros e _.
          destruct (trackedOf h (fst e)); ring. }
      rewrite sumIdx_lsum. apply lsum_ext_in. intros e _.
      destruct (trackedOf h (fst e)); [reflexivity|]. symmetry. apply sumIdx_zero.
    - intros e He. destruct (trackedOf h (fst e)) eqn:Et.
      + rewrite (lsum_pick order (fst e)
                   (fun n => sumIdx (dimsOf n) (fun i => Vc c e i * tang n i)) Ond).
        * apply vjp_jvp_swap.
        * apply (ordered_in h order Oord c e Hc He Et).
      + apply lsum_pick_none. intros Hin. rewrite (Otr _ Hin) in Et. discriminate. }
  (* step 3: the tangent equations *)
  assert (S3 : lsum order (fun c => pr c (Sg c) (Jt tang c)) = A + - pr x (Sg x) dl).
  { unfold A.
    rewrite (lsum_ext_in order _
      (fun c => pr c (Sg c) (tang c) + (if (x =? c)%nat then - pr x (Sg x) dl else 0))).
    - rewrite lsum_plus. f_equal. apply (lsum_pick order x (fun _ => - pr x (Sg x) dl) Ond Hx).
    - intros c _. unfold pr. destruct (Nat.eqb_spec x c) as [<-|Hne].
      + rewrite (sumIdx_ext (dimsOf x) (fun i => Sg x i * Jt tang x i) (fun i => Sg x i * 0)).
        2:{ intros i _. rewrite Jt_tang_zero by lia. reflexivity. }
        rewrite sumIdx_mult0_r.
        rewrite (sumIdx_ext (dimsOf x) (fun i => Sg x i * tang x i) (fun i => Sg x i * dl i)).
        2:{ intros i _. rewrite tang_x. reflexivity. }
        ring.
      + rewrite Rplus_0_r. apply sumIdx_ext. intros j _. f_equal.
        destruct (Nat.lt_ge_cases c x) as [Hlt|Hge].
        * rewrite Jt_tang_zero by lia. rewrite tang_lt by lia. reflexivity.
        * symmetry. apply tang_gt. lia. }
  rewrite S2, S3 in S1. fold R1. lra.
Qed.

End Core.

(* ---------- discharging the hypotheses of [Core] from bp_topo_correct / topoOrder_facts ---------- *)
Theorem bp_duality_sec (h' : heap) (lg : list (nat * T)) (gx : T) :
  rules_own h -> trackedOf h root = true ->
  bp_topo rd (fun _ g => g) h root = (h', lg, Ok tt) ->
  (forall n, In n (topoOrder h root) -> gradOf h n = None) ->
  (forall rv, valOf h root = Some rv -> wf rv) ->
  jac_hyp ->
  In x (topoOrder h root) -> gradOf h' x = Some gx ->
  sumIdx (dimsOf x) (fun i => elt gx i * dl i) = sumIdx (dimsOf root) (fun k => tang root k).
Proof.
  intros Hown Hroot Hrun Hfresh Hrw HJ Hx Hgx.
  destruct (topoOrder_facts h root Hwf Hroot) as (F1 & F2 & F3 & _ & F5 & F6 & _ & _).
  destruct (bp_topo_correct rd h root h' lg Hown Hwf Hroot Hrun)
    as (rv & ones & C1 & C2 & _ & C4 & _ & C6 & C7 & _).
  assert (Wrv : wf rv) by (apply Hrw; exact C1).
  assert (Edr : dimsOf root = dims rv) by (unfold dimsOf; rewrite C1; reflexivity).
  destruct (un_elt thr draw (UPow (sconst 0 0)) rv Wrv) as (r & Er & Dr & Wr & Gr).
  assert (Eor : ones = r).
  { unfold toOnes in C2. rewrite Er in C2. inversion C2. reflexivity. }
  subst r.
  pose proof (duality_core h' ones F1 F2 F3 F5 F6 (fun i => proj1 (C4 i)) Wr) as Hcore.
  unfold pr, Sg in Hcore. rewrite Hgx in Hcore. cbn [oelt] in Hcore. apply Hcore.
  - rewrite Edr. exact Dr.
  - intros i Hi. rewrite Edr in Hi. rewrite (Gr i Hi).
    change (unaryF (UPow (sconst 0 0)) (elt rv i)) with (Rpow (elt rv i) (dec2R 0 0)).
    rewrite dec2R_0. apply Rpow_0.
  - intros n Hn. rewrite <- (Hfresh n Hn). apply C6. exact Hn.
  - exact C7.
  - exact HJ.
  - exact Hx.
Qed.

(* ================================================================================= *)
(* 4. tangents are derivatives: the gradient is the total derivative                  *)
(* ================================================================================= *)
(* val t n : the value of node n when the graph is re-evaluated with x replaced by x + t dl *)
Variable val : R -> nat -> assignment.

(* (HC) the chain rule at the nodes above x *)
Definition chain_hyp : Prop :=
  forall n, In n (topoOrder h root) -> (x < n)%nat ->
    (forall e, In e (edgesOf h n) -> trackedOf h (fst e) = true ->
       forall i, validIdx (dimsOf (fst e)) i -> is_derive (fun t => val t (fst e) i) 0 (tang (fst e) i)) ->
    forall j, validIdx (dimsOf n) j -> is_derive (fun t => val t n j) 0 (Jt tang n j).

Lemma tangent_is_derivative :
  trackedOf h root = true ->
  (forall n, In n (topoOrder h root) -> (n < x)%nat -> forall t j, val t n j = val 0 n j) ->
  (forall t i, val t x i = val 0 x i + t * dl i) ->
  chain_hyp ->
  forall n, In n (topoOrder h root) -> forall j, validIdx (dimsOf n) j ->
    is_derive (fun t => val t n j) 0 (tang n j).
Proof.
  intros Hroot Hbelow Hat HC.
  destruct (topoOrder_facts h root Hwf Hroot) as (_ & _ & F3 & _).
  intros n. induction n as [n IH] using lt_wf_ind. intros Hn j Hj.
  destruct (lt_eq_lt_dec n x) as [[Hlt|Heq]|Hgt].
  - rewrite tang_lt by exact Hlt.
    apply (is_derive_ext (fun _ => val 0 n j)); [intros t; symmetry; apply Hbelow; assumption|].
    apply (is_derive_const (val 0 n j) 0).
  - subst n. rewrite tang_x.
    apply (is_derive_ext (fun t => val 0 x j + t * dl j)); [intros t; symmetry; apply Hat|].
    auto_derive; [exact I|ring].
  - rewrite tang_gt by exact Hgt. apply (HC n Hn Hgt); [|exact Hj].
    intros e He Ht i Hi. apply IH.
    + apply (wf_heap_edgesOf h Hwf n e He).
    + apply (ordered_in h _ F3 n e Hn He Ht).
    + exact Hi.
Qed.

Theorem bp_total_derivative_sec (h' : heap) (lg : list (nat * T)) (gx : T) :
  rules_own h -> trackedOf h root = true ->
  bp_topo rd (fun _ g => g) h root = (h', lg, Ok tt) ->
  (forall n, In n (topoOrder h root) -> gradOf h n = None) ->
  (forall rv, valOf h root = Some rv -> wf rv) ->
  jac_hyp ->
  In x (topoOrder h root) -> gradOf h' x = Some gx ->
  (forall n, In n (topoOrder h root) -> (n < x)%nat -> forall t j, val t n j = val 0 n j) ->
  (forall t i, val t x i = val 0 x i + t * dl i) ->
  chain_hyp ->
  is_derive (fun t => sumIdx (dimsOf root) (fun k => val t root k)) 0
            (sumIdx (dimsOf x) (fun i => elt gx i * dl i)).
Proof.
  intros Hown Hroot Hrun Hfresh Hrw HJ Hx Hgx Hbelow Hat HC.
  rewrite (bp_duality_sec h' lg gx Hown Hroot Hrun Hfresh Hrw HJ Hx Hgx).
  apply is_derive_sumIdx. intros k Hk.
  apply (tangent_is_derivative Hroot Hbelow Hat HC); [|exact Hk].
  apply (topoOrder_facts h root Hwf Hroot).
Qed.

(* ---------- (HC) for two node classes ---------- *)
Lemma Jt_single (dm : nat -> assignment) n e j :
  edgesOf h n = [e] -> trackedOf h (fst e) = true ->
  Jt dm n j = sumIdx (dimsOf (fst e)) (fun i => D n e i j * dm (fst e) i).
Proof. intros He Ht. unfold Jt. rewrite He, lsum_cons, lsum_nil, Ht. ring. Qed.

(* (i) a node that is a linear (gather, scale, matmul by a constant ...) map of its operand *)
Lemma chain_node_linear (dm : nat -> assignment) n e (k : assignment) :
  edgesOf h n = [e] -> trackedOf h (fst e) = true ->
  (forall t j, validIdx (dimsOf n) j ->
     val t n j = sumIdx (dimsOf (fst e)) (fun i => D n e i j * val t (fst e) i) + k j) ->
  (forall i, validIdx (dimsOf (fst e)) i -> is_derive (fun t => val t (fst e) i) 0 (dm (fst e) i)) ->
  forall j, validIdx (dimsOf n) j -> is_derive (fun t => val t n j) 0 (Jt dm n j).
Proof.
  intros He Ht Hv Hd j Hj. rewrite (Jt_single dm n e j He Ht).
  apply (chain_linear (dimsOf (fst e)) (fun i => D n e i j) (k j) (fun t => val t (fst e))).
  - intros t. apply Hv. exact Hj.
  - exact Hd.
Qed.

(* (ii) an element-wise unary node  val n j = f (val m j),  Jacobian diag (f' (val m j)) *)
Lemma chain_node_pointwise (dm : nat -> assignment) n e (f : R -> R) (d : assignment) :
  edgesOf h n = [e] -> trackedOf h (fst e) = true -> dimsOf (fst e) = dimsOf n ->
  (forall i j, D n e i j = if idx_eqb i j then d j else 0) ->
  (forall t j, validIdx (dimsOf n) j -> val t n j = f (val t (fst e) j)) ->
  (forall j, validIdx (dimsOf n) j -> is_derive f (val 0 (fst e) j) (d j)) ->
  (forall i, validIdx (dimsOf (fst e)) i -> is_derive (fun t => val t (fst e) i) 0 (dm (fst e) i)) ->
  forall j, validIdx (dimsOf n) j -> is_derive (fun t => val t n j) 0 (Jt dm n j).
Proof.
  intros He Ht Hdim HD Hv Hf Hd j Hj. rewrite (Jt_single dm n e j He Ht).
  rewrite (sumIdx_ext (dimsOf (fst e)) _ (fun i => if idx_eqb i j then d j * dm (fst e) i else 0)).
  2:{ intros i _. rewrite HD. destruct (idx_eqb i j); ring. }
  rewrite (sumIdx_single (dimsOf (fst e)) j (fun i => d j * dm (fst e) i)) by (rewrite Hdim; exact Hj).
  apply (chain_pointwise f (fun t => val t (fst e) j)).
  - intros t. apply Hv. exact Hj.
  - apply Hf. exact Hj.
  - apply Hd. rewrite Hdim. exact Hj.
Qed.

End Setting.

(* ================================================================================= *)
(* 5. the closed statements                                                          *)
(* ================================================================================= *)

(* the duality identity: <gradient left on x, dl> = Σ_k (forward tangent of root element k) *)
Theorem bp_duality rd (h : heap) root (h' : heap) (lg : list (nat * T))
        (D : nat -> nat * rule -> list nat -> list nat -> R) x (dl : assignment) (gx : T) :
  rules_own h -> wf_heap h -> trackedOf h root = true ->
  bp_topo rd (fun _ g => g) h root = (h', lg, Ok tt) ->
  (forall n, In n (topoOrder h root) -> gradOf h n = None) ->
  (forall rv, valOf h root = Some rv -> wf rv) ->
  jac_hyp rd h root D ->
  In x (topoOrder h root) -> gradOf h' x = Some gx ->
  sumIdx (dimsOf h x) (fun i => elt gx i * dl i) =
  sumIdx (dimsOf h root) (fun k => tang h D x dl root k).
Proof. intros Hown Hwf. apply bp_duality_sec; assumption. Qed.

(* the gradient left on x, paired with dl, is the derivative at 0 of  t |-> Σ_k root_k (x + t dl) *)
Theorem bp_total_derivative rd (h : heap) root (h' : heap) (lg : list (nat * T))
        (D : nat -> nat * rule -> list nat -> list nat -> R) x (dl : assignment) (gx : T)
        (val : R -> nat -> assignment) :
  rules_own h -> wf_heap h -> trackedOf h root = true ->
  bp_topo rd (fun _ g => g) h root = (h', lg, Ok tt) ->
  (forall n, In n (topoOrder h root) -> gradOf h n = None) ->
  (forall rv, valOf h root = Some rv -> wf rv) ->
  jac_hyp rd h root D ->
  In x (topoOrder h root) -> gradOf h' x = Some gx ->
  (forall n, In n (topoOrder h root) -> (n < x)%nat -> forall t j, val t n j = val 0 n j) ->
  (forall t i, val t x i = val 0 x i + t * dl i) ->
  chain_hyp h root D x dl val ->
  is_derive (fun t => sumIdx (dimsOf h root) (fun k => val t root k)) 0
            (sumIdx (dimsOf h x) (fun i => elt gx i * dl i)).
Proof. intros Hown Hwf. apply bp_total_derivative_sec; assumption. Qed.

(* dl = the indicator of position i: element i of the gradient IS the partial derivative of the
   sum of the root's elements with respect to x_i *)
Definition indic (i : list nat) : assignment := fun k => if idx_eqb k i then 1 else 0.

Theorem bp_partial_derivative rd (h : heap) root (h' : heap) (lg : list (nat * T))
        (D : nat -> nat * rule -> list nat -> list nat -> R) x (i : list nat) (gx : T)
        (val : R -> nat -> assignment) :
  rules_own h -> wf_heap h -> trackedOf h root = true ->
  bp_topo rd (fun _ g => g) h root = (h', lg, Ok tt) ->
  (forall n, In n (topoOrder h root) -> gradOf h n = None) ->
  (forall rv, valOf h root = Some rv -> wf rv) ->
  jac_hyp rd h root D ->
  In x (topoOrder h root) -> gradOf h' x = Some gx -> validIdx (dimsOf h x) i ->
  (forall n, In n (topoOrder h root) -> (n < x)%nat -> forall t j, val t n j = val 0 n j) ->
  (forall t k, val t x k = perturb (val 0 x) i t k) ->
  chain_hyp h root D x (indic i) val ->
  is_derive (fun t => sumIdx (dimsOf h root) (fun k => val t root k)) 0 (elt gx i).
Proof.
  intros Hown Hwf Hroot Hrun Hfresh Hrw HJ Hx Hgx Hi Hbelow Hat HC.
  rewrite <- (sumIdx_single (dimsOf h x) i (elt gx) Hi).
  rewrite (sumIdx_ext (dimsOf h x) _ (fun k => elt gx k * indic i k)).
  2:{ intros k _. unfold indic. destruct (idx_eqb k i); ring. }
  apply (bp_total_derivative rd h root h' lg D x (indic i) gx val); try assumption.
  intros t k. rewrite Hat. unfold perturb, indic. destruct (idx_eqb k i); ring.
Qed.

End TotalDeriv.

(* ================================================================================= *)
(* 6. example: all hypotheses are satisfiable —  x = [1;2] (tracked leaf), y = sin x, z = 2 y  *)
(* ================================================================================= *)
Module TotalDerivExample.
Section Ex.
Variables (thr : R) (draw : bool -> nat -> R).
Local Hint Extern 0 (Scalar R) => exact (R_scalar thr draw) : typeclass_instances.
Variable rd : bred.

Definition xv : tensor R := mkT [2%nat] (Vec [Sc 1; Sc 2]).
Definition yv : tensor R := mkT [2%nat] (Vec [Sc (sin 1); Sc (sin 2)]).
Definition zv : tensor R := mkT [2%nat] (Vec [Sc (2 * sin 1); Sc (2 * sin 2)]).

Definition hE : @heap R :=
  [mkNode xv true false None [] None;
   mkNode yv true false None [(0%nat, RSin 1 0)] None;
   mkNode zv true false None [(1%nat, RScale 2 2)] None].

(* hE is the heap the tracked API builds *)
Example hE_built :
  let '(h0, x) := leaf [] xv true None in
  match h_math h0 FSin x None with
  | (h1, Ok y) => h_scale h1 y 2 None = (hE, Ok 2%nat)
  | _ => False
  end.
Proof. reflexivity. Qed.

Example hE_order : topoOrder hE 2 = [2; 1; 0]%nat.
Proof. reflexivity. Qed.

Definition ids : option nat -> tensor R -> tensor R := fun _ g => g.

Example hE_run : exists h' lg, bp_topo rd ids hE 2 = (h', lg, Ok tt).
Proof. eexists. eexists. vm_compute. reflexivity. Qed.

Lemma wf_vec2 (a b : R) : wf (mkT [2%nat] (Vec [Sc a; Sc b])).
Proof. split; cbn; repeat constructor. Qed.

Lemma hE_rules_own : rules_own hE.
Proof.
  intros c n e Hn He. destruct c as [|[|[|c]]]; cbn in Hn.
  - inversion Hn; subst n. destruct He.
  - inversion Hn; subst n. destruct He as [<-|[]]. reflexivity.
  - inversion Hn; subst n. destruct He as [<-|[]]. reflexivity.
  - destruct c; discriminate.
Qed.

Lemma hE_wf_heap : wf_heap hE.
Proof.
  intros c n e Hn He. destruct c as [|[|[|c]]]; cbn in Hn.
  - inversion Hn; subst n. destruct He.
  - inversion Hn; subst n. destruct He as [<-|[]]. cbn. lia.
  - inversion Hn; subst n. destruct He as [<-|[]]. cbn. lia.
  - destruct c; discriminate.
Qed.

(* the local Jacobians: both operations are element-wise, so both matrices are diagonal *)
Definition DE (c : nat) (e : nat * @rule R) (i j : list nat) : R :=
  if idx_eqb i j then (if (c =? 2)%nat then 2 else cos (elt xv j)) else 0.

Lemma hE_jac : jac_hyp thr draw rd hE 2 DE.
Proof.
  intros c e Hc He Ht hh gc Hv Hg Wg Dg. rewrite hE_order in Hc.
  destruct Hc as [<-|[<-|[<-|[]]]].
  - destruct He as [<-|[]]. cbn [fst snd].
    destruct (rscale_eval thr draw rd hh 2%nat 2 gc Hg Wg) as (g & Eg & Dgg & Wgg & Gg).
    exists g. split; [exact Eg|]. split; [rewrite Dgg, Dg; reflexivity|]. split; [exact Wgg|].
    intros i Hi. rewrite Gg by (rewrite Dg; exact Hi).
    rewrite <- (sumIdx_single (dimsOf hE 2) i (fun j => elt gc j * 2)) by exact Hi.
    apply sumIdx_ext. intros j _. unfold DE. rewrite (idx_eqb_sym i j).
    destruct (idx_eqb j i); [reflexivity|ring].
  - destruct He as [<-|[]]. cbn [fst snd].
    assert (Hx : valOf hh 0 = Some xv) by (rewrite Hv; reflexivity).
    destruct (rsin_eval thr draw rd hh 1%nat 0%nat xv gc Hx Hg (wf_vec2 _ _) Wg Dg) as (g & Eg & Dgg & Wgg & Gg).
    exists g. split; [exact Eg|]. split; [exact Dgg|]. split; [exact Wgg|].
    intros i Hi. rewrite Gg by exact Hi.
    rewrite <- (sumIdx_single (dimsOf hE 1) i (fun j => elt gc j * cos (elt xv j))) by exact Hi.
    apply sumIdx_ext. intros j _. unfold DE. rewrite (idx_eqb_sym i j).
    destruct (idx_eqb j i); [reflexivity|ring].
  - destruct He.
Qed.

(* the graph re-evaluated at x + t dl *)
Definition valE (dl : assignment) (t : R) (n : nat) : assignment :=
  fun i => match n with
           | O => elt xv i + t * dl i
           | S O => sin (elt xv i + t * dl i)
           | _ => 2 * sin (elt xv i + t * dl i)
           end.

Lemma hE_chain (dl : assignment) : chain_hyp hE 2 DE 0 dl (valE dl).
Proof.
  intros n Hn Hgt Hop j Hj. rewrite hE_order in Hn. destruct Hn as [<-|[<-|[<-|[]]]]; [| |lia].
  - (* z = 2 y : a linear node *)
    eapply chain_node_linear with (e := (1%nat, RScale 2 2)) (k := fun _ => 0).
    + reflexivity.
    + reflexivity.
    + intros t k Hk. cbn [fst].
      rewrite (sumIdx_ext (dimsOf hE 1) _ (fun i => if idx_eqb i k then 2 * valE dl t 1 i else 0)).
      2:{ intros i _. unfold DE. rewrite Nat.eqb_refl. destruct (idx_eqb i k); ring. }
      rewrite (sumIdx_single (dimsOf hE 1) k (fun i => 2 * valE dl t 1 i)) by exact Hk.
      unfold valE. ring.
    + intros i Hi. apply (Hop (1%nat, RScale 2 2)); [left; reflexivity|reflexivity|exact Hi].
    + exact Hj.
  - (* y = sin x : an element-wise node *)
    eapply chain_node_pointwise with (e := (0%nat, RSin 1 0)) (f := sin) (d := fun k => cos (elt xv k)).
    + reflexivity.
    + reflexivity.
    + reflexivity.
    + intros i k. reflexivity.
    + intros t k _. reflexivity.
    + intros k _. cbn [fst valE].
      replace (cos (elt xv k)) with (cos (elt xv k + 0 * dl k)) by (f_equal; ring). apply d_sin.
    + intros i Hi. apply (Hop (0%nat, RSin 1 0)); [left; reflexivity|reflexivity|exact Hi].
    + exact Hj.
Qed.

Lemma sumIdx2 (f : assignment) : sumIdx [2%nat] f = f [0%nat] + f [1%nat].
Proof. unfold sumIdx. cbn. ring. Qed.

(* every hypothesis of bp_total_derivative holds on hE: the gradient left on x is the derivative
   of  t |-> 2 sin (1 + t dl_0) + 2 sin (2 + t dl_1) *)
Example ex_total_derivative (dl : assignment) :
  exists h' lg gx, bp_topo rd ids hE 2 = (h', lg, Ok tt) /\ gradOf h' 0 = Some gx /\
    is_derive (fun t => 2 * sin (1 + t * dl [0%nat]) + 2 * sin (2 + t * dl [1%nat])) 0
              (elt gx [0%nat] * dl [0%nat] + elt gx [1%nat] * dl [1%nat]).
Proof.
  destruct hE_run as (h' & lg & E).
  destruct (bp_topo_correct rd hE 2 h' lg hE_rules_own hE_wf_heap eq_refl E)
    as (rv & ones & _ & _ & _ & _ & _ & _ & C7 & _).
  assert (Hex : exists gx, gradOf h' 0 = Some gx).
  { destruct (gradOf h' 0) as [gx|] eqn:Egx; [exists gx; reflexivity|].
    exfalso. apply (C7 0%nat); [rewrite hE_order; cbn; auto|exact Egx]. }
  destruct Hex as (gx & Egx).
  exists h', lg, gx. split; [exact E|]. split; [exact Egx|].
  assert (H : is_derive (fun t => sumIdx (dimsOf hE 2) (fun k => valE dl t 2 k)) 0
                        (sumIdx (dimsOf hE 0) (fun i => elt gx i * dl i))).
  { apply (bp_total_derivative thr draw rd hE 2%nat h' lg DE 0%nat dl gx (valE dl)
             hE_rules_own hE_wf_heap eq_refl E).
    - intros n Hn. rewrite hE_order in Hn. destruct Hn as [<-|[<-|[<-|[]]]]; reflexivity.
    - intros rv0 Hrv. cbn in Hrv. inversion Hrv. apply wf_vec2.
    - exact hE_jac.
    - rewrite hE_order. cbn. auto.
    - exact Egx.
    - intros n _ Hlt. lia.
    - intros t i. unfold valE. ring.
    - apply hE_chain. }
  change (dimsOf hE 2) with [2%nat] in H. change (dimsOf hE 0) with [2%nat] in H.
  rewrite sumIdx2 in H.
  apply (is_derive_ext (fun t => sumIdx [2%nat] (fun k => valE dl t 2 k))); [|exact H].
  intros t. rewrite sumIdx2. reflexivity.
Qed.

(* the conclusion is not trivial: it pins the gradient down to  dz/dx = 2 cos x *)
Example ex_gradient_value :
  exists h' lg gx, bp_topo rd ids hE 2 = (h', lg, Ok tt) /\ gradOf h' 0 = Some gx /\
    elt gx [0%nat] = 2 * cos 1 /\ elt gx [1%nat] = 2 * cos 2.
Proof.
  destruct (ex_total_derivative (indic [0%nat])) as (h' & lg & gx & E & Eg & H0).
  destruct (ex_total_derivative (indic [1%nat])) as (h2 & lg2 & gx2 & E2 & Eg2 & H1).
  assert (h2 = h') by congruence. subst h2. assert (gx2 = gx) by congruence. subst gx2.
  exists h', lg, gx. split; [exact E|]. split; [exact Eg|].
  unfold indic in H0, H1.
  change (idx_eqb [0%nat] [0%nat]) with true in *. change (idx_eqb [1%nat] [0%nat]) with false in *.
  change (idx_eqb [0%nat] [1%nat]) with false in *. change (idx_eqb [1%nat] [1%nat]) with true in *.
  split.
  - apply is_derive_unique in H0. rewrite <- (Rplus_0_r (elt gx [0%nat])).
    replace (elt gx [0%nat] + 0) with (elt gx [0%nat] * 1 + elt gx [1%nat] * 0) by ring.
    rewrite <- H0. apply is_derive_unique. auto_derive; [exact I|].
    replace (1 + 0 * 1) with 1 by ring. ring.
  - apply is_derive_unique in H1.
    replace (elt gx [1%nat]) with (elt gx [0%nat] * 0 + elt gx [1%nat] * 1) by ring.
    rewrite <- H1. apply is_derive_unique. auto_derive; [exact I|].
    replace (2 + 0 * 1) with 2 by ring. ring.
Qed.

End Ex.
End TotalDerivExample.

Print Assumptions bp_duality.
Print Assumptions bp_total_derivative.
Print Assumptions bp_partial_derivative.
Print Assumptions chain_node_linear.
Print Assumptions chain_node_pointwise.
Print Assumptions TotalDerivExample.ex_total_derivative.
Print Assumptions TotalDerivExample.ex_gradient_value.
