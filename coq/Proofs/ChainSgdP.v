(* ChainSgdP.v — SGD.Update is its source chain  (see ChainBaseP.v for the scheme). *)
From Coq Require Import String List ZArith Bool Arith.
From Qeep Require Import Model.Scalar Model.Nd Model.Fill Model.Data Model.Valid Model.Api Model.Grad
  Model.Components Model.ChainIR.
From Qeep Require Model.Chains.
Import ListNotations.
Local Open Scope string_scope.
From Qeep Require Import Proofs.ChainBaseP.

Section Sgd.
Context {A : Type} {SA : Scalar A}.
Notation T := (tensor A).
Notation heap := (@heap A).

(* ---- SGD.Update (component/optimizers/sgd.go): toValidInputs yields the tensor and its gradient;
        the new tensor is computed from the (spent) gradient tensor, hence spent and untracked ---- *)
Definition rsSgd (lr : A) : @vresolver A :=
  mkVR (fun _ t => if String.eqb t "c.learningRate" then Some lr else None)
       (fun _ _ => None) (fun _ _ => None) (fun _ _ => None) (fun _ => None).

Definition sgdBind (h : heap) (w : nat) : string -> option (option (list T)) := fun t =>
  if String.eqb t "c.toValidInputs(wptr)" then
    match valOf h w, gradOf h w with
    | Some wv, Some g => Some (Some [wv; g])
    | Some _, None => Some None
    | None, _ => None
    end
  else None.

Theorem sgd_chain h lr w nm :
  sgd_update h lr (Some w) nm =
  match valOf h w with
  | None => (h, Panic)
  | Some _ =>
      match asRes (runFun (hooksV (rsSgd lr) noVUser (sgdBind h w) noCond) Chains.sgd_update tt []) with
      | Ok v => let '(h', id) := alloc h v (false, true, []) nm in (h', Ok id)
      | Err => (h, Err)
      | Panic => (h, Panic)
      end
  end.
Proof.
  unfold sgd_update. destruct (valOf h w) as [wv|] eqn:Ew; [|reflexivity].
  destruct (gradOf h w) as [g|] eqn:Eg.
  - cbn. unfold sgdBind. cbn. rewrite Ew, Eg. cbn.
    destruct (v_unary (UScale lr) g) as [d| |]; cbn; [|reflexivity|reflexivity].
    destruct (v_arith BiSub wv d) as [v| |]; reflexivity.
  - cbn. unfold sgdBind. cbn. rewrite Ew, Eg. reflexivity.
Qed.


End Sgd.
