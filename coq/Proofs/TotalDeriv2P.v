(* TotalDeriv2P.v — the chain-rule step ([chain_hyp] of TotalDerivP.v) for nodes with SEVERAL back
   edges, also two edges to the SAME target (m.Add(m), x.Mul(x)).
   Everything is stated along a curve in the single real variable t, so the chain rule at a node is
   one-variable calculus (Coquelicot [is_derive]); what is shown in addition is the algebra that the
   resulting derivative equals [Jt dm n j] for the node's edge list and Jacobian entries [D n e i j].
   [chain_node_linear_multi]: value affine in all tracked operands (Add, Sub, Concat, Patch, and every
     single-edge linear op);
   [chain_node_pointwise2]: element-wise binary op  val n j = f (val a j) (val b j)  with f
     differentiable along curves ([curve_diff2]; implied by Fréchet differentiability,
     [curve_diff2_of_filterdiff]); instances [chain_node_mul], [chain_node_div];
   [chain_node_bilinear]: finite sums of products  Σ_k val a (α j k) * val b (β j k)  (MatMul, Dot);
     instance [chain_node_matmul2] for the 2-D matrix product with closed-form Jacobian entries;
   [chain_hyp_of_nodes]: [chain_hyp] for a whole graph from a per-node case analysis ([node_ok]);
   Module [TotalDeriv2Example] (all hypotheses of bp_total_derivative discharged on heaps built by the
     model's own h_* functions, x = [x0; x1] arbitrary reals):  the diamond  m = 2 x; y = m + m
     ([diamond_gradient]: 4),  y = x * x  ([square_gradient]: 2 x),  y = c / x  with c untracked
     ([quot_gradient]: - c / x²),  y = x · xᵀ  through Transpose and MatMul ([gram_gradient]: 2 x). *)
From Coq Require Import List Arith ZArith Bool Lia Reals Lra.
From Coquelicot Require Import Coquelicot.
From Qeep Require Import Model.Scalar Model.Nd Model.Fill Model.Data Model.Valid Model.Api Model.Grad Model.Backprop.
From Qeep Require Import Proofs.NdP Proofs.ElemP Proofs.ArithP Proofs.BackpropP.
From Qeep Require Import Spec.RScalar Spec.ScalarDeriv Spec.VjpSpec.
From Qeep Require Import Proofs.VjpGatherP Proofs.VjpElemP Proofs.TotalDerivP.
From Qeep Require Proofs.VjpLinalgP.   (* not imported: it has its own (convertible) sumN *)
Import ListNotations.
Local Open Scope R_scope.

(* ================================================================================= *)
(* 0. two-argument scalar functions differentiable along curves                       *)
(* ================================================================================= *)

(* f is differentiable at (a0, b0) with partial derivatives d1, d2, in the form the node lemma uses:
   along every pair of curves through (a0, b0) that are differentiable at 0 *)
Definition curve_diff2 (f : R -> R -> R) (a0 b0 d1 d2 : R) : Prop :=
  forall (u v : R -> R) (du dv : R), u 0 = a0 -> v 0 = b0 ->
    is_derive u 0 du -> is_derive v 0 dv ->
    is_derive (fun t => f (u t) (v t)) 0 (d1 * du + d2 * dv).

Lemma curve_diff2_plus a0 b0 : curve_diff2 Rplus a0 b0 1 1.
Proof.
  intros u v du dv _ _ Du Dv.
  replace (1 * du + 1 * dv) with (plus du dv) by (unfold plus; cbn; ring).
  exact (is_derive_plus u v 0 du dv Du Dv).
Qed.

Lemma curve_diff2_minus a0 b0 : curve_diff2 Rminus a0 b0 1 (-1).
Proof.
  intros u v du dv _ _ Du Dv.
  replace (1 * du + -1 * dv) with (minus du dv) by (unfold minus, plus, opp; cbn; ring).
  exact (is_derive_minus u v 0 du dv Du Dv).
Qed.

Lemma curve_diff2_mult a0 b0 : curve_diff2 Rmult a0 b0 b0 a0.
Proof.
  intros u v du dv Hu Hv Du Dv.
  pose proof (is_derive_mult u v 0 du dv Du Dv Rmult_comm) as H. rewrite Hu, Hv in H.
  replace (b0 * du + a0 * dv) with (plus (mult du b0) (mult a0 dv)) by (unfold plus, mult; cbn; ring).
  exact H.
Qed.

Lemma curve_diff2_div a0 b0 : b0 <> 0 -> curve_diff2 Rdiv a0 b0 (/ b0) (- a0 / b0 ^ 2).
Proof.
  intros Hb u v du dv Hu Hv Du Dv.
  assert (Hv0 : v 0 <> 0) by (rewrite Hv; exact Hb).
  pose proof (is_derive_div u v 0 du dv Du Dv Hv0) as H. rewrite Hu, Hv in H.
  replace (/ b0 * du + - a0 / b0 ^ 2 * dv) with ((du * b0 - a0 * dv) / b0 ^ 2) by (field; exact Hb).
  exact H.
Qed.

(* Fréchet differentiability of (a, b) |-> f a b  at (a0, b0) implies differentiability along curves *)
Lemma curve_diff2_of_filterdiff (f : R -> R -> R) a0 b0 d1 d2 :
  filterdiff (fun p : R * R => f (fst p) (snd p)) (locally (a0, b0))
             (fun p : R * R => d1 * fst p + d2 * snd p) ->
  curve_diff2 f a0 b0 d1 d2.
Proof.
  intros Hf u v du dv Hu Hv Du Dv. unfold is_derive.
  apply (filterdiff_ext_lin _ (fun y : R => d1 * scal y du + d2 * scal y dv)).
  - apply (filterdiff_comp'_2 u v f 0 (fun y : R => scal y du) (fun y : R => scal y dv)
             (fun p q : R => d1 * p + d2 * q) Du Dv).
    rewrite Hu, Hv. exact Hf.
  - intros y. unfold scal; cbn. unfold mult; cbn. ring.
Qed.

(* the usual sufficient condition: the first partial derivative exists near the point and is
   continuous there, the second exists at the point *)
Lemma curve_diff2_of_partials (f : R -> R -> R) a0 b0 (dfx : R -> R -> R) (d2 : R) :
  locally (a0, b0) (fun p : R * R => is_derive (fun z => f z (snd p)) (fst p) (dfx (fst p) (snd p))) ->
  is_derive (fun z => f a0 z) b0 d2 ->
  continuous (fun p : R * R => dfx (fst p) (snd p)) (a0, b0) ->
  curve_diff2 f a0 b0 (dfx a0 b0) d2.
Proof.
  intros H1 H2 H3. apply curve_diff2_of_filterdiff.
  apply (filterdiff_ext_lin _ _ _ (is_derive_filterdiff f a0 b0 dfx d2 H1 H2 H3)).
  intros p. unfold plus, scal; cbn. unfold mult; cbn. ring.
Qed.

(* ================================================================================= *)
(* 1. the setting of TotalDerivP.v: graph h, local Jacobians D, re-evaluated values val *)
(* ================================================================================= *)
Section Chain2.
Variable h : @heap R.
Variable D : nat -> nat * @rule R -> list nat -> list nat -> R.
Variable val : R -> nat -> assignment.

(* the premise of [chain_hyp] at node n: the tracked operands are differentiable at 0, with
   derivatives dm *)
Definition ops_diff (dm : nat -> assignment) (n : nat) : Prop :=
  forall e, In e (edgesOf h n) -> trackedOf h (fst e) = true ->
    forall i, validIdx (dimsOf h (fst e)) i -> is_derive (fun t => val t (fst e) i) 0 (dm (fst e) i).

(* an operand that is not tracked does not depend on x, so its re-evaluated value is the same for all t *)
Definition frozen (m : nat) : Prop :=
  forall t i, validIdx (dimsOf h m) i -> val t m i = val 0 m i.

(* the tangent of operand m as Jt sees it: dm m if m is tracked, 0 otherwise *)
Definition dop (dm : nat -> assignment) (m : nat) : assignment :=
  fun i => if trackedOf h m then dm m i else 0.

Lemma operand_derive dm n e i :
  ops_diff dm n -> In e (edgesOf h n) -> (trackedOf h (fst e) = false -> frozen (fst e)) ->
  validIdx (dimsOf h (fst e)) i ->
  is_derive (fun t => val t (fst e) i) 0 (dop dm (fst e) i).
Proof.
  intros Hd He Hz Hi. unfold dop. destruct (trackedOf h (fst e)) eqn:Et.
  - apply (Hd e He Et i Hi).
  - apply (is_derive_ext (fun _ => val 0 (fst e) i)); [intros t; symmetry; apply (Hz eq_refl); exact Hi|].
    apply (is_derive_const (val 0 (fst e) i) 0).
Qed.

(* one summand of Jt *)
Definition Jterm (dm : nat -> assignment) (n : nat) (e : nat * @rule R) (j : list nat) : R :=
  if trackedOf h (fst e)
  then sumIdx (dimsOf h (fst e)) (fun i => D n e i j * dm (fst e) i) else 0.

Lemma Jt_Jterm dm n j : Jt h D dm n j = lsum (edgesOf h n) (fun e => Jterm dm n e j).
Proof. reflexivity. Qed.

Lemma Jt_pair dm n e1 e2 j : edgesOf h n = [e1; e2] ->
  Jt h D dm n j = Jterm dm n e1 j + Jterm dm n e2 j.
Proof. intros He. rewrite Jt_Jterm, He, !lsum_cons, lsum_nil. ring. Qed.

(* a diagonal Jacobian block *)
Lemma Jterm_diag dm n e (d : assignment) j :
  dimsOf h (fst e) = dimsOf h n ->
  (forall i j, D n e i j = if idx_eqb i j then d j else 0) ->
  validIdx (dimsOf h n) j ->
  Jterm dm n e j = d j * dop dm (fst e) j.
Proof.
  intros Hdim HD Hj. unfold Jterm, dop. destruct (trackedOf h (fst e)); [|ring].
  rewrite (sumIdx_ext (dimsOf h (fst e)) _ (fun i => if idx_eqb i j then d j * dm (fst e) i else 0)).
  2:{ intros i _. rewrite HD. destruct (idx_eqb i j); ring. }
  apply (sumIdx_single (dimsOf h (fst e)) j (fun i => d j * dm (fst e) i)). rewrite Hdim. exact Hj.
Qed.

(* a gather-type Jacobian block: Σ_k [i = s k] * c k *)
Lemma Jterm_gather dm n e (K : nat) (s : nat -> list nat) (c : nat -> R) j :
  (forall k, (k < K)%nat -> validIdx (dimsOf h (fst e)) (s k)) ->
  (forall i, validIdx (dimsOf h (fst e)) i ->
     D n e i j = sumN K (fun k => if idx_eqb i (s k) then c k else 0)) ->
  Jterm dm n e j = sumN K (fun k => c k * dop dm (fst e) (s k)).
Proof.
  intros Hs HD. unfold Jterm, dop. destruct (trackedOf h (fst e)).
  - rewrite (sumIdx_ext (dimsOf h (fst e)) _
              (fun i => lsum (seq 0 K) (fun k => if idx_eqb i (s k) then c k * dm (fst e) i else 0))).
    2:{ intros i Hi. rewrite (HD i Hi). unfold sumN. rewrite <- lsum_scal_r. apply lsum_ext_in.
        intros k _. destruct (idx_eqb i (s k)); ring. }
    rewrite sumIdx_lsum. unfold sumN. apply lsum_ext_in. intros k Hk. apply in_seq in Hk.
    apply (sumIdx_single (dimsOf h (fst e)) (s k) (fun i => c k * dm (fst e) i)). apply Hs. lia.
  - unfold sumN. symmetry. transitivity (lsum (seq 0 K) (fun _ => 0)); [|apply lsum_zero].
    apply lsum_ext_in. intros k _. ring.
Qed.

(* ================================================================================= *)
(* 2. (i') a node that is affine in ALL its tracked operands                          *)
(* ================================================================================= *)
(* Add, Sub (both operands), Concat, Patch (both operands), and every single-edge linear op;
   edges to untracked targets contribute to the constant k *)
Theorem chain_node_linear_multi (dm : nat -> assignment) n (k : assignment) :
  (forall t j, validIdx (dimsOf h n) j ->
     val t n j = lsum (edgesOf h n)
                   (fun e => if trackedOf h (fst e)
                             then sumIdx (dimsOf h (fst e)) (fun i => D n e i j * val t (fst e) i)
                             else 0) + k j) ->
  ops_diff dm n ->
  forall j, validIdx (dimsOf h n) j -> is_derive (fun t => val t n j) 0 (Jt h D dm n j).
Proof.
  intros Hv Hd j Hj.
  apply (is_derive_ext (fun t => plus (lsum (edgesOf h n) (fun e => Jterm (val t) n e j)) (k j))).
  { intros t. symmetry. apply Hv. exact Hj. }
  replace (Jt h D dm n j) with (plus (Jt h D dm n j) zero) by (unfold plus, zero; cbn; ring).
  apply (is_derive_plus (fun t => lsum (edgesOf h n) (fun e => Jterm (val t) n e j)) (fun _ => k j)).
  2:{ apply (is_derive_const (k j) 0). }
  rewrite Jt_Jterm.
  apply (is_derive_lsum (edgesOf h n) (fun t e => Jterm (val t) n e j) (fun e => Jterm dm n e j)).
  intros e He. unfold Jterm. destruct (trackedOf h (fst e)) eqn:Et.
  - apply (is_derive_sumIdx (dimsOf h (fst e)) (fun t i => D n e i j * val t (fst e) i)
                            (fun i => D n e i j * dm (fst e) i)).
    intros i Hi. apply is_derive_scal. apply (Hd e He Et i Hi).
  - apply (is_derive_const 0 0).
Qed.

(* the value hypothesis of [chain_node_linear_multi] is  val t n = Jt (val t) n + k *)
Lemma linear_multi_value_form t n j :
  lsum (edgesOf h n)
       (fun e => if trackedOf h (fst e)
                 then sumIdx (dimsOf h (fst e)) (fun i => D n e i j * val t (fst e) i) else 0)
  = Jt h D (val t) n j.
Proof. reflexivity. Qed.

(* ================================================================================= *)
(* 3. (ii') an element-wise binary node  val n j = f (val a j) (val b j)               *)
(* ================================================================================= *)
(* two edges [e1; e2]; the targets a = fst e1, b = fst e2 may coincide, either may be untracked *)
Theorem chain_node_pointwise2 (dm : nat -> assignment) n e1 e2 (f : R -> R -> R) (d1 d2 : assignment) :
  edgesOf h n = [e1; e2] ->
  dimsOf h (fst e1) = dimsOf h n -> dimsOf h (fst e2) = dimsOf h n ->
  (forall i j, D n e1 i j = if idx_eqb i j then d1 j else 0) ->
  (forall i j, D n e2 i j = if idx_eqb i j then d2 j else 0) ->
  (forall t j, validIdx (dimsOf h n) j -> val t n j = f (val t (fst e1) j) (val t (fst e2) j)) ->
  (forall j, validIdx (dimsOf h n) j ->
     curve_diff2 f (val 0 (fst e1) j) (val 0 (fst e2) j) (d1 j) (d2 j)) ->
  (trackedOf h (fst e1) = false -> frozen (fst e1)) ->
  (trackedOf h (fst e2) = false -> frozen (fst e2)) ->
  ops_diff dm n ->
  forall j, validIdx (dimsOf h n) j -> is_derive (fun t => val t n j) 0 (Jt h D dm n j).
Proof.
  intros He Hd1 Hd2 HD1 HD2 Hv Hf Hz1 Hz2 Hd j Hj.
  rewrite (Jt_pair dm n e1 e2 j He).
  rewrite (Jterm_diag dm n e1 d1 j Hd1 HD1 Hj), (Jterm_diag dm n e2 d2 j Hd2 HD2 Hj).
  apply (is_derive_ext (fun t => f (val t (fst e1) j) (val t (fst e2) j))).
  { intros t. symmetry. apply Hv. exact Hj. }
  apply (Hf j Hj (fun t => val t (fst e1) j) (fun t => val t (fst e2) j)); try reflexivity.
  - apply (operand_derive dm n e1 j Hd); [rewrite He; left; reflexivity|exact Hz1|rewrite Hd1; exact Hj].
  - apply (operand_derive dm n e2 j Hd); [rewrite He; right; left; reflexivity|exact Hz2|rewrite Hd2; exact Hj].
Qed.

(* Mul: the back edges carry RMul y b / RMul y a:  D n e1 = diag (val b), D n e2 = diag (val a) *)
Theorem chain_node_mul (dm : nat -> assignment) n e1 e2 :
  edgesOf h n = [e1; e2] ->
  dimsOf h (fst e1) = dimsOf h n -> dimsOf h (fst e2) = dimsOf h n ->
  (forall i j, D n e1 i j = if idx_eqb i j then val 0 (fst e2) j else 0) ->
  (forall i j, D n e2 i j = if idx_eqb i j then val 0 (fst e1) j else 0) ->
  (forall t j, validIdx (dimsOf h n) j -> val t n j = val t (fst e1) j * val t (fst e2) j) ->
  (trackedOf h (fst e1) = false -> frozen (fst e1)) ->
  (trackedOf h (fst e2) = false -> frozen (fst e2)) ->
  ops_diff dm n ->
  forall j, validIdx (dimsOf h n) j -> is_derive (fun t => val t n j) 0 (Jt h D dm n j).
Proof.
  intros He Hd1 Hd2 HD1 HD2 Hv.
  apply (chain_node_pointwise2 dm n e1 e2 Rmult (fun j => val 0 (fst e2) j) (fun j => val 0 (fst e1) j)
           He Hd1 Hd2 HD1 HD2 Hv).
  intros j _. apply curve_diff2_mult.
Qed.

(* Div: RDivA y b / RDivB y a b:  D n e1 = diag (1 / val b), D n e2 = diag (- val a / (val b)^2);
   the denominator is non-zero at t = 0 *)
Theorem chain_node_div (dm : nat -> assignment) n e1 e2 :
  edgesOf h n = [e1; e2] ->
  dimsOf h (fst e1) = dimsOf h n -> dimsOf h (fst e2) = dimsOf h n ->
  (forall i j, D n e1 i j = if idx_eqb i j then / val 0 (fst e2) j else 0) ->
  (forall i j, D n e2 i j = if idx_eqb i j then - val 0 (fst e1) j / val 0 (fst e2) j ^ 2 else 0) ->
  (forall t j, validIdx (dimsOf h n) j -> val t n j = val t (fst e1) j / val t (fst e2) j) ->
  (forall j, validIdx (dimsOf h n) j -> val 0 (fst e2) j <> 0) ->
  (trackedOf h (fst e1) = false -> frozen (fst e1)) ->
  (trackedOf h (fst e2) = false -> frozen (fst e2)) ->
  ops_diff dm n ->
  forall j, validIdx (dimsOf h n) j -> is_derive (fun t => val t n j) 0 (Jt h D dm n j).
Proof.
  intros He Hd1 Hd2 HD1 HD2 Hv Hnz.
  apply (chain_node_pointwise2 dm n e1 e2 Rdiv (fun j => / val 0 (fst e2) j)
           (fun j => - val 0 (fst e1) j / val 0 (fst e2) j ^ 2) He Hd1 Hd2 HD1 HD2 Hv).
  intros j Hj. apply curve_diff2_div. apply Hnz. exact Hj.
Qed.

(* ================================================================================= *)
(* 4. (iii) a bilinear node  val n j = Σ_{k<K} val a (α j k) * val b (β j k)            *)
(* ================================================================================= *)
Theorem chain_node_bilinear (dm : nat -> assignment) n e1 e2 (K : nat)
        (al be : list nat -> nat -> list nat) :
  edgesOf h n = [e1; e2] ->
  (forall j k, validIdx (dimsOf h n) j -> (k < K)%nat -> validIdx (dimsOf h (fst e1)) (al j k)) ->
  (forall j k, validIdx (dimsOf h n) j -> (k < K)%nat -> validIdx (dimsOf h (fst e2)) (be j k)) ->
  (forall i j, validIdx (dimsOf h (fst e1)) i -> validIdx (dimsOf h n) j ->
     D n e1 i j = sumN K (fun k => if idx_eqb i (al j k) then val 0 (fst e2) (be j k) else 0)) ->
  (forall i j, validIdx (dimsOf h (fst e2)) i -> validIdx (dimsOf h n) j ->
     D n e2 i j = sumN K (fun k => if idx_eqb i (be j k) then val 0 (fst e1) (al j k) else 0)) ->
  (forall t j, validIdx (dimsOf h n) j ->
     val t n j = sumN K (fun k => val t (fst e1) (al j k) * val t (fst e2) (be j k))) ->
  (trackedOf h (fst e1) = false -> frozen (fst e1)) ->
  (trackedOf h (fst e2) = false -> frozen (fst e2)) ->
  ops_diff dm n ->
  forall j, validIdx (dimsOf h n) j -> is_derive (fun t => val t n j) 0 (Jt h D dm n j).
Proof.
  intros He Ha Hb HD1 HD2 Hv Hz1 Hz2 Hd j Hj.
  rewrite (Jt_pair dm n e1 e2 j He).
  rewrite (Jterm_gather dm n e1 K (al j) (fun k => val 0 (fst e2) (be j k)) j).
  2:{ intros k Hk. apply Ha; assumption. }
  2:{ intros i Hi. apply HD1; assumption. }
  rewrite (Jterm_gather dm n e2 K (be j) (fun k => val 0 (fst e1) (al j k)) j).
  2:{ intros k Hk. apply Hb; assumption. }
  2:{ intros i Hi. apply HD2; assumption. }
  unfold sumN. rewrite <- lsum_plus.
  apply (is_derive_ext (fun t => lsum (seq 0 K) (fun k => val t (fst e1) (al j k) * val t (fst e2) (be j k)))).
  { intros t. symmetry. apply (Hv t j Hj). }
  apply (is_derive_lsum (seq 0 K) (fun t k => val t (fst e1) (al j k) * val t (fst e2) (be j k))).
  intros k Hk. apply in_seq in Hk.
  apply (curve_diff2_mult (val 0 (fst e1) (al j k)) (val 0 (fst e2) (be j k))
           (fun t => val t (fst e1) (al j k)) (fun t => val t (fst e2) (be j k))); try reflexivity.
  - apply (operand_derive dm n e1 (al j k) Hd); [rewrite He; left; reflexivity|exact Hz1|apply Ha; [exact Hj|lia]].
  - apply (operand_derive dm n e2 (be j k) Hd); [rewrite He; right; left; reflexivity|exact Hz2|apply Hb; [exact Hj|lia]].
Qed.

(* ---------- the plain 2-D matrix product  [m,q]·[q,p]  with closed-form Jacobian entries ---------- *)
(* RMatMulA: gA = gy·Bᵀ, so  D n e1 [r;k] [r';c] = [r = r'] * B[k;c];
   RMatMulB: gB = Aᵀ·gy, so  D n e2 [k;c] [r;c'] = [c = c'] * A[r;k] *)
Lemma valid2d_inv a b j : validIdx [a; b] j -> exists r c, j = [r; c] /\ (r < a)%nat /\ (c < b)%nat.
Proof.
  intros Hj. apply validIdx_cons in Hj as (r & j1 & -> & Hr & Hj1).
  apply validIdx_cons in Hj1 as (c & j2 & -> & Hc & Hj2). apply validIdx_nil in Hj2. subst j2.
  exists r, c. auto.
Qed.

Lemma valid2d_intro a b r c : (r < a)%nat -> (c < b)%nat -> validIdx [a; b] [r; c].
Proof. intros Hr Hc. repeat constructor; assumption. Qed.

Lemma idx_eqb2 a b c d : idx_eqb [a; b] [c; d] = ((a =? c)%nat && (b =? d)%nat)%bool.
Proof. rewrite !idx_eqb_cons, (VjpGatherP.idx_eqb_refl []), andb_true_r. reflexivity. Qed.

Theorem chain_node_matmul2 (dm : nat -> assignment) n e1 e2 (m q p : nat) :
  edgesOf h n = [e1; e2] ->
  dimsOf h (fst e1) = [m; q] -> dimsOf h (fst e2) = [q; p] -> dimsOf h n = [m; p] ->
  (forall r k r' c, D n e1 [r; k] [r'; c] = if (r =? r')%nat then val 0 (fst e2) [k; c] else 0) ->
  (forall k c r c', D n e2 [k; c] [r; c'] = if (c =? c')%nat then val 0 (fst e1) [r; k] else 0) ->
  (forall t r c, (r < m)%nat -> (c < p)%nat ->
     val t n [r; c] = sumN q (fun k => val t (fst e1) [r; k] * val t (fst e2) [k; c])) ->
  (trackedOf h (fst e1) = false -> frozen (fst e1)) ->
  (trackedOf h (fst e2) = false -> frozen (fst e2)) ->
  ops_diff dm n ->
  forall j, validIdx (dimsOf h n) j -> is_derive (fun t => val t n j) 0 (Jt h D dm n j).
Proof.
  intros He Hd1 Hd2 Hdn HD1 HD2 Hv Hz1 Hz2 Hd.
  apply (chain_node_bilinear dm n e1 e2 q (fun j k => [nth 0 j 0%nat; k]) (fun j k => [k; nth 1 j 0%nat]) He);
    try assumption.
  - intros j k Hj Hk. rewrite Hdn in Hj. apply valid2d_inv in Hj as (r & c & -> & Hr & Hc).
    rewrite Hd1. cbn [nth]. apply valid2d_intro; assumption.
  - intros j k Hj Hk. rewrite Hdn in Hj. apply valid2d_inv in Hj as (r & c & -> & Hr & Hc).
    rewrite Hd2. cbn [nth]. apply valid2d_intro; assumption.
  - intros i j Hi Hj. rewrite Hd1 in Hi. rewrite Hdn in Hj.
    apply valid2d_inv in Hi as (r & k' & -> & Hr & Hk'). apply valid2d_inv in Hj as (r' & c & -> & Hr' & Hc).
    cbn [nth]. rewrite HD1.
    rewrite (sumN_ext q _ (fun k => if (k =? k')%nat
                                    then (if (r =? r')%nat then val 0 (fst e2) [k; c] else 0) else 0)).
    + rewrite (sumN_single q k' (fun k => if (r =? r')%nat then val 0 (fst e2) [k; c] else 0) Hk'). reflexivity.
    + intros k _. rewrite idx_eqb2, (Nat.eqb_sym k' k).
      destruct (r =? r')%nat; destruct (k =? k')%nat; reflexivity.
  - intros i j Hi Hj. rewrite Hd2 in Hi. rewrite Hdn in Hj.
    apply valid2d_inv in Hi as (k' & c & -> & Hk' & Hc). apply valid2d_inv in Hj as (r & c' & -> & Hr & Hc').
    cbn [nth]. rewrite HD2.
    rewrite (sumN_ext q _ (fun k => if (k =? k')%nat
                                    then (if (c =? c')%nat then val 0 (fst e1) [r; k] else 0) else 0)).
    + rewrite (sumN_single q k' (fun k => if (c =? c')%nat then val 0 (fst e1) [r; k] else 0) Hk'). reflexivity.
    + intros k _. rewrite idx_eqb2, (Nat.eqb_sym k' k).
      destruct (c =? c')%nat; destruct (k =? k')%nat; reflexivity.
  - intros t j Hj. rewrite Hdn in Hj. apply valid2d_inv in Hj as (r & c & -> & Hr & Hc).
    cbn [nth]. apply Hv; assumption.
Qed.

(* ================================================================================= *)
(* 5. [chain_hyp] for a whole graph from a per-node case analysis                     *)
(* ================================================================================= *)
(* the constructors are the premises of the node lemmas (without the operand hypothesis [ops_diff],
   which [chain_hyp] supplies) *)
Inductive node_ok (n : nat) : Prop :=
| ok_linear (e : nat * @rule R) (k : assignment) :
    edgesOf h n = [e] -> trackedOf h (fst e) = true ->
    (forall t j, validIdx (dimsOf h n) j ->
       val t n j = sumIdx (dimsOf h (fst e)) (fun i => D n e i j * val t (fst e) i) + k j) ->
    node_ok n
| ok_linear_multi (k : assignment) :
    (forall t j, validIdx (dimsOf h n) j ->
       val t n j = lsum (edgesOf h n)
                     (fun e => if trackedOf h (fst e)
                               then sumIdx (dimsOf h (fst e)) (fun i => D n e i j * val t (fst e) i)
                               else 0) + k j) ->
    node_ok n
| ok_pointwise (e : nat * @rule R) (f : R -> R) (d : assignment) :
    edgesOf h n = [e] -> trackedOf h (fst e) = true -> dimsOf h (fst e) = dimsOf h n ->
    (forall i j, D n e i j = if idx_eqb i j then d j else 0) ->
    (forall t j, validIdx (dimsOf h n) j -> val t n j = f (val t (fst e) j)) ->
    (forall j, validIdx (dimsOf h n) j -> is_derive f (val 0 (fst e) j) (d j)) ->
    node_ok n
| ok_pointwise2 (e1 e2 : nat * @rule R) (f : R -> R -> R) (d1 d2 : assignment) :
    edgesOf h n = [e1; e2] ->
    dimsOf h (fst e1) = dimsOf h n -> dimsOf h (fst e2) = dimsOf h n ->
    (forall i j, D n e1 i j = if idx_eqb i j then d1 j else 0) ->
    (forall i j, D n e2 i j = if idx_eqb i j then d2 j else 0) ->
    (forall t j, validIdx (dimsOf h n) j -> val t n j = f (val t (fst e1) j) (val t (fst e2) j)) ->
    (forall j, validIdx (dimsOf h n) j ->
       curve_diff2 f (val 0 (fst e1) j) (val 0 (fst e2) j) (d1 j) (d2 j)) ->
    (trackedOf h (fst e1) = false -> frozen (fst e1)) ->
    (trackedOf h (fst e2) = false -> frozen (fst e2)) ->
    node_ok n
| ok_mul (e1 e2 : nat * @rule R) :
    edgesOf h n = [e1; e2] ->
    dimsOf h (fst e1) = dimsOf h n -> dimsOf h (fst e2) = dimsOf h n ->
    (forall i j, D n e1 i j = if idx_eqb i j then val 0 (fst e2) j else 0) ->
    (forall i j, D n e2 i j = if idx_eqb i j then val 0 (fst e1) j else 0) ->
    (forall t j, validIdx (dimsOf h n) j -> val t n j = val t (fst e1) j * val t (fst e2) j) ->
    (trackedOf h (fst e1) = false -> frozen (fst e1)) ->
    (trackedOf h (fst e2) = false -> frozen (fst e2)) ->
    node_ok n
| ok_div (e1 e2 : nat * @rule R) :
    edgesOf h n = [e1; e2] ->
    dimsOf h (fst e1) = dimsOf h n -> dimsOf h (fst e2) = dimsOf h n ->
    (forall i j, D n e1 i j = if idx_eqb i j then / val 0 (fst e2) j else 0) ->
    (forall i j, D n e2 i j = if idx_eqb i j then - val 0 (fst e1) j / val 0 (fst e2) j ^ 2 else 0) ->
    (forall t j, validIdx (dimsOf h n) j -> val t n j = val t (fst e1) j / val t (fst e2) j) ->
    (forall j, validIdx (dimsOf h n) j -> val 0 (fst e2) j <> 0) ->
    (trackedOf h (fst e1) = false -> frozen (fst e1)) ->
    (trackedOf h (fst e2) = false -> frozen (fst e2)) ->
    node_ok n
| ok_bilinear (e1 e2 : nat * @rule R) (K : nat) (al be : list nat -> nat -> list nat) :
    edgesOf h n = [e1; e2] ->
    (forall j k, validIdx (dimsOf h n) j -> (k < K)%nat -> validIdx (dimsOf h (fst e1)) (al j k)) ->
    (forall j k, validIdx (dimsOf h n) j -> (k < K)%nat -> validIdx (dimsOf h (fst e2)) (be j k)) ->
    (forall i j, validIdx (dimsOf h (fst e1)) i -> validIdx (dimsOf h n) j ->
       D n e1 i j = sumN K (fun k => if idx_eqb i (al j k) then val 0 (fst e2) (be j k) else 0)) ->
    (forall i j, validIdx (dimsOf h (fst e2)) i -> validIdx (dimsOf h n) j ->
       D n e2 i j = sumN K (fun k => if idx_eqb i (be j k) then val 0 (fst e1) (al j k) else 0)) ->
    (forall t j, validIdx (dimsOf h n) j ->
       val t n j = sumN K (fun k => val t (fst e1) (al j k) * val t (fst e2) (be j k))) ->
    (trackedOf h (fst e1) = false -> frozen (fst e1)) ->
    (trackedOf h (fst e2) = false -> frozen (fst e2)) ->
    node_ok n
| ok_matmul2 (e1 e2 : nat * @rule R) (m q p : nat) :
    edgesOf h n = [e1; e2] ->
    dimsOf h (fst e1) = [m; q] -> dimsOf h (fst e2) = [q; p] -> dimsOf h n = [m; p] ->
    (forall r k r' c, D n e1 [r; k] [r'; c] = if (r =? r')%nat then val 0 (fst e2) [k; c] else 0) ->
    (forall k c r c', D n e2 [k; c] [r; c'] = if (c =? c')%nat then val 0 (fst e1) [r; k] else 0) ->
    (forall t r c, (r < m)%nat -> (c < p)%nat ->
       val t n [r; c] = sumN q (fun k => val t (fst e1) [r; k] * val t (fst e2) [k; c])) ->
    (trackedOf h (fst e1) = false -> frozen (fst e1)) ->
    (trackedOf h (fst e2) = false -> frozen (fst e2)) ->
    node_ok n.

(* every ok node obeys the chain rule, for any tangent assignment of its operands *)
Lemma node_ok_chain (dm : nat -> assignment) n :
  node_ok n -> ops_diff dm n ->
  forall j, validIdx (dimsOf h n) j -> is_derive (fun t => val t n j) 0 (Jt h D dm n j).
Proof.
  intros Hok Hd.
  destruct Hok as [e k He Ht Hv | k Hv | e f d He Ht Hdim HD Hv Hf
                  | e1 e2 f d1 d2 He Hd1 Hd2 HD1 HD2 Hv Hf Hz1 Hz2
                  | e1 e2 He Hd1 Hd2 HD1 HD2 Hv Hz1 Hz2
                  | e1 e2 He Hd1 Hd2 HD1 HD2 Hv Hnz Hz1 Hz2
                  | e1 e2 K al be He Ha Hb HD1 HD2 Hv Hz1 Hz2
                  | e1 e2 m q p He Hd1 Hd2 Hdn HD1 HD2 Hv Hz1 Hz2].
  - apply (chain_node_linear h D val dm n e k He Ht Hv).
    intros i Hi. apply (Hd e); [rewrite He; left; reflexivity|exact Ht|exact Hi].
  - apply (chain_node_linear_multi dm n k Hv Hd).
  - apply (chain_node_pointwise h D val dm n e f d He Ht Hdim HD Hv Hf).
    intros i Hi. apply (Hd e); [rewrite He; left; reflexivity|exact Ht|exact Hi].
  - apply (chain_node_pointwise2 dm n e1 e2 f d1 d2 He Hd1 Hd2 HD1 HD2 Hv Hf Hz1 Hz2 Hd).
  - apply (chain_node_mul dm n e1 e2 He Hd1 Hd2 HD1 HD2 Hv Hz1 Hz2 Hd).
  - apply (chain_node_div dm n e1 e2 He Hd1 Hd2 HD1 HD2 Hv Hnz Hz1 Hz2 Hd).
  - apply (chain_node_bilinear dm n e1 e2 K al be He Ha Hb HD1 HD2 Hv Hz1 Hz2 Hd).
  - apply (chain_node_matmul2 dm n e1 e2 m q p He Hd1 Hd2 Hdn HD1 HD2 Hv Hz1 Hz2 Hd).
Qed.

Theorem chain_hyp_of_nodes (root x : nat) (dl : assignment) :
  (forall n, In n (topoOrder h root) -> (x < n)%nat -> node_ok n) ->
  chain_hyp h root D x dl val.
Proof.
  intros Hok n Hn Hgt Hop. apply (node_ok_chain (tang h D x dl) n (Hok n Hn Hgt)). exact Hop.
Qed.

End Chain2.

(* two readings of a diagonal Jacobian block: applied to a tangent, and to an upstream gradient *)
Lemma sumIdx_diag_l ds (d v : assignment) j : validIdx ds j ->
  sumIdx ds (fun i => (if idx_eqb i j then d j else 0) * v i) = d j * v j.
Proof.
  intros Hj. rewrite (sumIdx_ext ds _ (fun i => if idx_eqb i j then d j * v i else 0)).
  - apply (sumIdx_single ds j (fun i => d j * v i) Hj).
  - intros i _. destruct (idx_eqb i j); ring.
Qed.

Lemma sumIdx_diag_r ds (gc d : assignment) i : validIdx ds i ->
  sumIdx ds (fun j => gc j * (if idx_eqb i j then d j else 0)) = gc i * d i.
Proof.
  intros Hi. rewrite (sumIdx_ext ds _ (fun j => if idx_eqb j i then gc j * d j else 0)).
  - apply (sumIdx_single ds i (fun j => gc j * d j) Hi).
  - intros j _. rewrite (idx_eqb_sym i j). destruct (idx_eqb j i); ring.
Qed.

(* ================================================================================= *)
(* 6. examples: nodes with two back edges, the two paths meeting again in x           *)
(* ================================================================================= *)
Module TotalDeriv2Example.
Section Ex.
Variables (thr : R) (draw : bool -> nat -> R).
Local Hint Extern 0 (Scalar R) => exact (R_scalar thr draw) : typeclass_instances.
Variable rd : bred.
Variables x0 x1 : R.

Definition vec2 (a b : R) : tensor R := mkT [2%nat] (Vec [Sc a; Sc b]).
Definition ids : option nat -> tensor R -> tensor R := fun _ g => g.

Lemma wf_vec2 (a b : R) : wf (vec2 a b).
Proof. split; cbn; repeat constructor. Qed.

Lemma sumIdx2 (f : assignment) : sumIdx [2%nat] f = f [0%nat] + f [1%nat].
Proof. unfold sumIdx. cbn. ring. Qed.

Definition xv : tensor R := vec2 x0 x1.

(* ---------------------------------------------------------------------------------- *)
(* 6a. the diamond  m = x.Scale(2); y = m.Add(m)  — the graph on which the pinned library's walk
       left 6 instead of 4 on x (finding D1).  h_arith first makes two same-shape Broadcast nodes
       of m, then the Add node with one back edge to each. *)
Definition mv : tensor R := vec2 (2 * x0) (2 * x1).
Definition yv : tensor R := vec2 (2 * x0 + 2 * x0) (2 * x1 + 2 * x1).

Definition hD : @heap R :=
  [mkNode xv true false None [] None;
   mkNode mv true false None [(0%nat, RScale 1 2)] None;
   mkNode mv true false None [(1%nat, RBroadcast 2 1)] None;
   mkNode mv true false None [(1%nat, RBroadcast 3 1)] None;
   mkNode yv true false None [(2%nat, RId 4); (3%nat, RId 4)] None].

(* hD is the heap the tracked API builds *)
Example hD_built :
  let '(h0, x) := leaf [] xv true None in
  match h_scale h0 x 2 None with
  | (h1, Ok m) => h_arith h1 BiAdd m m None = (hD, Ok 4%nat)
  | _ => False
  end.
Proof. vm_compute. reflexivity. Qed.

Example hD_order : topoOrder hD 4 = [4; 3; 2; 1; 0]%nat.
Proof. reflexivity. Qed.

Example hD_run : exists h' lg, bp_topo rd ids hD 4 = (h', lg, Ok tt).
Proof. eexists. eexists. vm_compute. reflexivity. Qed.

Lemma hD_rules_own : rules_own hD.
Proof.
  intros c n e Hn He. destruct c as [|[|[|[|[|c]]]]]; cbn in Hn.
  - inversion Hn; subst n. destruct He.
  - inversion Hn; subst n. destruct He as [<-|[]]. reflexivity.
  - inversion Hn; subst n. destruct He as [<-|[]]. reflexivity.
  - inversion Hn; subst n. destruct He as [<-|[]]. reflexivity.
  - inversion Hn; subst n. destruct He as [<-|[<-|[]]]; reflexivity.
  - destruct c; discriminate.
Qed.

Lemma hD_wf_heap : wf_heap hD.
Proof.
  intros c n e Hn He. destruct c as [|[|[|[|[|c]]]]]; cbn in Hn.
  - inversion Hn; subst n. destruct He.
  - inversion Hn; subst n. destruct He as [<-|[]]. cbn. lia.
  - inversion Hn; subst n. destruct He as [<-|[]]. cbn. lia.
  - inversion Hn; subst n. destruct He as [<-|[]]. cbn. lia.
  - inversion Hn; subst n. destruct He as [<-|[<-|[]]]; cbn; lia.
  - destruct c; discriminate.
Qed.

(* the local Jacobians: every operation is element-wise, so every block is diagonal:
   2 for the Scale edge, 1 for the Broadcast (same shape) and Add edges *)
Definition DD (c : nat) (e : nat * @rule R) (i j : list nat) : R :=
  if idx_eqb i j then (if (c =? 1)%nat then 2 else 1) else 0.

Lemma DD_vjp c e (gc : assignment) i : validIdx [2%nat] i ->
  sumIdx [2%nat] (fun j => gc j * DD c e i j) = gc i * (if (c =? 1)%nat then 2 else 1).
Proof.
  intros Hi. unfold DD. apply (sumIdx_diag_r [2%nat] gc (fun _ => if (c =? 1)%nat then 2 else 1) i Hi).
Qed.

Lemma DD_jvp c e (v : assignment) j : validIdx [2%nat] j ->
  sumIdx [2%nat] (fun i => DD c e i j * v i) = (if (c =? 1)%nat then 2 else 1) * v j.
Proof.
  intros Hj. unfold DD. apply (sumIdx_diag_l [2%nat] (fun _ => if (c =? 1)%nat then 2 else 1) v j Hj).
Qed.

(* the back edge of a same-shape Broadcast hands the upstream gradient through (either reduction) *)
Lemma bcast_same_eval (hh : @heap R) (y x : nat) (gc v : tensor R) :
  gradOf hh y = Some gc -> valOf hh x = Some v -> valOf hh y = Some v ->
  eval_rule rd hh (RBroadcast y x) = Ok gc.
Proof.
  intros Hg Hx Hy. unfold eval_rule, gy_of, val_of. rewrite Hg, Hx, Hy. cbn [of_opt res_bind].
  unfold bcastBack. rewrite Nat.sub_diag. cbn [bcLead res_bind skipn].
  generalize 0%nat. induction (dims v) as [|d ds IH]; intros k; cbn [bcDims]; [reflexivity|].
  rewrite Nat.eqb_refl. cbn [res_bind]. apply IH.
Qed.

Lemma hD_jac : jac_hyp thr draw rd hD 4 DD.
Proof.
  intros c e Hc He Ht hh gc Hv Hg Wg Dg. rewrite hD_order in Hc.
  destruct Hc as [<-|[<-|[<-|[<-|[<-|[]]]]]].
  - (* Add: both edges carry RId *)
    assert (Hid : exists g, eval_rule rd hh (RId 4) = Ok g /\ dims g = [2%nat] /\ wf g /\
              forall i, validIdx [2%nat] i -> elt g i = sumIdx [2%nat] (fun j => elt gc j * DD 4 e i j)).
    { exists gc. split; [apply (rid_eval thr draw rd hh 4%nat gc Hg)|]. split; [exact Dg|]. split; [exact Wg|].
      intros i Hi. rewrite (DD_vjp 4 e (elt gc) i Hi). cbn [Nat.eqb]. ring. }
    destruct He as [<-|[<-|[]]]; exact Hid.
  - (* Broadcast b2 of m *)
    destruct He as [<-|[]]. cbn [fst snd]. exists gc.
    split; [apply (bcast_same_eval hh 3%nat 1%nat gc mv Hg); rewrite Hv; reflexivity|].
    split; [exact Dg|]. split; [exact Wg|].
    intros i Hi. change (dimsOf hD 3) with [2%nat]. rewrite DD_vjp by exact Hi. cbn [Nat.eqb]. ring.
  - (* Broadcast b1 of m *)
    destruct He as [<-|[]]. cbn [fst snd]. exists gc.
    split; [apply (bcast_same_eval hh 2%nat 1%nat gc mv Hg); rewrite Hv; reflexivity|].
    split; [exact Dg|]. split; [exact Wg|].
    intros i Hi. change (dimsOf hD 2) with [2%nat]. rewrite DD_vjp by exact Hi. cbn [Nat.eqb]. ring.
  - (* Scale by 2 *)
    destruct He as [<-|[]]. cbn [fst snd].
    destruct (rscale_eval thr draw rd hh 1%nat 2 gc Hg Wg) as (g & Eg & Dgg & Wgg & Gg).
    exists g. split; [exact Eg|]. split; [rewrite Dgg, Dg; reflexivity|]. split; [exact Wgg|].
    intros i Hi. rewrite Gg by (rewrite Dg; exact Hi).
    change (dimsOf hD 1) with [2%nat]. rewrite DD_vjp by exact Hi. cbn [Nat.eqb]. ring.
  - destruct He.
Qed.

(* the graph re-evaluated at x + t dl *)
Definition valD (dl : assignment) (t : R) (n : nat) : assignment :=
  fun i => match n with
           | 0%nat => elt xv i + t * dl i
           | 1%nat | 2%nat | 3%nat => 2 * (elt xv i + t * dl i)
           | _ => 2 * (elt xv i + t * dl i) + 2 * (elt xv i + t * dl i)
           end.

(* every node above x is affine in its tracked operands; the Add node has TWO of them *)
Lemma hD_nodes (dl : assignment) n :
  In n (topoOrder hD 4) -> (0 < n)%nat -> node_ok hD DD (valD dl) n.
Proof.
  intros Hn Hgt. rewrite hD_order in Hn. destruct Hn as [<-|[<-|[<-|[<-|[<-|[]]]]]]; [| | | |lia];
    apply (ok_linear_multi hD DD (valD dl) _ (fun _ => 0)); intros t j Hj;
    cbv [edgesOf hD nth_error nedges lsum map fold_right trackedOf ntracked fst].
  - change (dimsOf hD 2) with [2%nat]. change (dimsOf hD 3) with [2%nat].
    rewrite !DD_jvp by exact Hj. cbn [Nat.eqb valD]. ring.
  - change (dimsOf hD 1) with [2%nat]. rewrite !DD_jvp by exact Hj. cbn [Nat.eqb valD]. ring.
  - change (dimsOf hD 1) with [2%nat]. rewrite !DD_jvp by exact Hj. cbn [Nat.eqb valD]. ring.
  - change (dimsOf hD 0) with [2%nat]. rewrite !DD_jvp by exact Hj. cbn [Nat.eqb valD]. ring.
Qed.

Lemma hD_chain (dl : assignment) : chain_hyp hD 4 DD 0 dl (valD dl).
Proof. apply chain_hyp_of_nodes. apply hD_nodes. Qed.

(* every hypothesis of bp_total_derivative holds on hD *)
Lemma diamond_total_derivative (h' : @heap R) lg gx (dl : assignment) :
  bp_topo rd ids hD 4 = (h', lg, Ok tt) -> gradOf h' 0 = Some gx ->
  is_derive (fun t => (2 * (x0 + t * dl [0%nat]) + 2 * (x0 + t * dl [0%nat])) +
                      (2 * (x1 + t * dl [1%nat]) + 2 * (x1 + t * dl [1%nat]))) 0
            (elt gx [0%nat] * dl [0%nat] + elt gx [1%nat] * dl [1%nat]).
Proof.
  intros E Egx.
  assert (H : is_derive (fun t => sumIdx (dimsOf hD 4) (fun k => valD dl t 4 k)) 0
                        (sumIdx (dimsOf hD 0) (fun i => elt gx i * dl i))).
  { apply (bp_total_derivative thr draw rd hD 4%nat h' lg DD 0%nat dl gx (valD dl)
             hD_rules_own hD_wf_heap eq_refl E).
    - intros n Hn. rewrite hD_order in Hn. destruct Hn as [<-|[<-|[<-|[<-|[<-|[]]]]]]; reflexivity.
    - intros rv0 Hrv. cbn in Hrv. inversion Hrv. apply wf_vec2.
    - exact hD_jac.
    - rewrite hD_order. do 4 right. left. reflexivity.
    - exact Egx.
    - intros n _ Hlt. lia.
    - intros t i. unfold valD. ring.
    - apply hD_chain. }
  change (dimsOf hD 4) with [2%nat] in H. change (dimsOf hD 0) with [2%nat] in H.
  rewrite sumIdx2 in H.
  apply (is_derive_ext (fun t => sumIdx [2%nat] (fun k => valD dl t 4 k))); [|exact H].
  intros t. rewrite sumIdx2. reflexivity.
Qed.

(* the gradient back-propagation leaves on x is 4 in every component, and it is the derivative of
   Σ_k y_k = Σ_k (2 x_k + 2 x_k)  along every direction dl *)
Theorem diamond_gradient :
  exists h' lg gx, bp_topo rd ids hD 4 = (h', lg, Ok tt) /\ gradOf h' 0 = Some gx /\
    elt gx [0%nat] = 4 /\ elt gx [1%nat] = 4 /\
    forall dl : assignment,
      is_derive (fun t => (2 * (x0 + t * dl [0%nat]) + 2 * (x0 + t * dl [0%nat])) +
                          (2 * (x1 + t * dl [1%nat]) + 2 * (x1 + t * dl [1%nat]))) 0
                (elt gx [0%nat] * dl [0%nat] + elt gx [1%nat] * dl [1%nat]).
Proof.
  destruct hD_run as (h' & lg & E).
  destruct (bp_topo_correct rd hD 4 h' lg hD_rules_own hD_wf_heap eq_refl E)
    as (rv & ones & _ & _ & _ & _ & _ & _ & C7 & _).
  assert (Hex : exists gx, gradOf h' 0 = Some gx).
  { destruct (gradOf h' 0) as [gx|] eqn:Egx; [exists gx; reflexivity|].
    exfalso. apply (C7 0%nat); [rewrite hD_order; do 4 right; left; reflexivity|exact Egx]. }
  destruct Hex as (gx & Egx).
  exists h', lg, gx. split; [exact E|]. split; [exact Egx|].
  pose proof (diamond_total_derivative h' lg gx (indic [0%nat]) E Egx) as H0.
  pose proof (diamond_total_derivative h' lg gx (indic [1%nat]) E Egx) as H1.
  unfold indic in H0, H1.
  change (idx_eqb [0%nat] [0%nat]) with true in *. change (idx_eqb [1%nat] [0%nat]) with false in *.
  change (idx_eqb [0%nat] [1%nat]) with false in *. change (idx_eqb [1%nat] [1%nat]) with true in *.
  split; [|split].
  - apply is_derive_unique in H0.
    replace (elt gx [0%nat]) with (elt gx [0%nat] * 1 + elt gx [1%nat] * 0) by ring.
    rewrite <- H0. apply is_derive_unique. auto_derive; [exact I|ring].
  - apply is_derive_unique in H1.
    replace (elt gx [1%nat]) with (elt gx [0%nat] * 0 + elt gx [1%nat] * 1) by ring.
    rewrite <- H1. apply is_derive_unique. auto_derive; [exact I|ring].
  - intros dl. apply (diamond_total_derivative h' lg gx dl E Egx).
Qed.

(* ---------------------------------------------------------------------------------- *)
(* 6b. y = x.Mul(x)  (element-wise): both back edges of the Mul node lead, through two same-shape
       Broadcast nodes, to the SAME leaf; derivative 2 x *)
Definition sv : tensor R := vec2 (x0 * x0) (x1 * x1).

Definition hM : @heap R :=
  [mkNode xv true false None [] None;
   mkNode xv true false None [(0%nat, RBroadcast 1 0)] None;
   mkNode xv true false None [(0%nat, RBroadcast 2 0)] None;
   mkNode sv true false None [(1%nat, RMul 3 2); (2%nat, RMul 3 1)] None].

Example hM_built :
  let '(h0, x) := leaf [] xv true None in h_arith h0 BiMul x x None = (hM, Ok 3%nat).
Proof. vm_compute. reflexivity. Qed.

Example hM_order : topoOrder hM 3 = [3; 2; 1; 0]%nat.
Proof. reflexivity. Qed.

Example hM_run : exists h' lg, bp_topo rd ids hM 3 = (h', lg, Ok tt).
Proof. eexists. eexists. vm_compute. reflexivity. Qed.

Lemma hM_rules_own : rules_own hM.
Proof.
  intros c n e Hn He. destruct c as [|[|[|[|c]]]]; cbn in Hn.
  - inversion Hn; subst n. destruct He.
  - inversion Hn; subst n. destruct He as [<-|[]]. reflexivity.
  - inversion Hn; subst n. destruct He as [<-|[]]. reflexivity.
  - inversion Hn; subst n. destruct He as [<-|[<-|[]]]; reflexivity.
  - destruct c; discriminate.
Qed.

Lemma hM_wf_heap : wf_heap hM.
Proof.
  intros c n e Hn He. destruct c as [|[|[|[|c]]]]; cbn in Hn.
  - inversion Hn; subst n. destruct He.
  - inversion Hn; subst n. destruct He as [<-|[]]. cbn. lia.
  - inversion Hn; subst n. destruct He as [<-|[]]. cbn. lia.
  - inversion Hn; subst n. destruct He as [<-|[<-|[]]]; cbn; lia.
  - destruct c; discriminate.
Qed.

(* diagonal blocks: the other operand's value for the two Mul edges, 1 for the Broadcast edges *)
Definition DM (c : nat) (e : nat * @rule R) (i j : list nat) : R :=
  if idx_eqb i j then (if (c =? 3)%nat then elt xv j else 1) else 0.

Lemma DM_vjp c e (gc : assignment) i : validIdx [2%nat] i ->
  sumIdx [2%nat] (fun j => gc j * DM c e i j) = gc i * (if (c =? 3)%nat then elt xv i else 1).
Proof.
  intros Hi. unfold DM. apply (sumIdx_diag_r [2%nat] gc (fun j => if (c =? 3)%nat then elt xv j else 1) i Hi).
Qed.

Lemma DM_jvp c e (v : assignment) j : validIdx [2%nat] j ->
  sumIdx [2%nat] (fun i => DM c e i j * v i) = (if (c =? 3)%nat then elt xv j else 1) * v j.
Proof.
  intros Hj. unfold DM. apply (sumIdx_diag_l [2%nat] (fun j => if (c =? 3)%nat then elt xv j else 1) v j Hj).
Qed.

Lemma hM_jac : jac_hyp thr draw rd hM 3 DM.
Proof.
  intros c e Hc He Ht hh gc Hv Hg Wg Dg. rewrite hM_order in Hc.
  destruct Hc as [<-|[<-|[<-|[<-|[]]]]].
  - (* Mul: RMul 3 o with o the OTHER broadcast node; both hold the value of x *)
    assert (Hmul : forall o, valOf hM o = Some xv ->
              exists g, eval_rule rd hh (RMul 3 o) = Ok g /\ dims g = [2%nat] /\ wf g /\
                forall i, validIdx [2%nat] i -> elt g i = sumIdx [2%nat] (fun j => elt gc j * DM 3 e i j)).
    { intros o Ho. rewrite <- Hv in Ho.
      destruct (rmul_eval thr draw rd hh 3%nat o xv gc Ho Hg (wf_vec2 _ _) Wg Dg) as (g & Eg & Dgg & Wgg & Gg).
      exists g. split; [exact Eg|]. split; [exact Dgg|]. split; [exact Wgg|].
      intros i Hi. rewrite (Gg i Hi), (DM_vjp 3 e (elt gc) i Hi). reflexivity. }
    destruct He as [<-|[<-|[]]]; cbn [fst snd]; apply Hmul; reflexivity.
  - destruct He as [<-|[]]. cbn [fst snd]. exists gc.
    split; [apply (bcast_same_eval hh 2%nat 0%nat gc xv Hg); rewrite Hv; reflexivity|].
    split; [exact Dg|]. split; [exact Wg|].
    intros i Hi. change (dimsOf hM 2) with [2%nat]. rewrite DM_vjp by exact Hi. cbn [Nat.eqb]. ring.
  - destruct He as [<-|[]]. cbn [fst snd]. exists gc.
    split; [apply (bcast_same_eval hh 1%nat 0%nat gc xv Hg); rewrite Hv; reflexivity|].
    split; [exact Dg|]. split; [exact Wg|].
    intros i Hi. change (dimsOf hM 1) with [2%nat]. rewrite DM_vjp by exact Hi. cbn [Nat.eqb]. ring.
  - destruct He.
Qed.

Definition valM (dl : assignment) (t : R) (n : nat) : assignment :=
  fun i => match n with
           | 0%nat | 1%nat | 2%nat => elt xv i + t * dl i
           | _ => (elt xv i + t * dl i) * (elt xv i + t * dl i)
           end.

Lemma hM_nodes (dl : assignment) n :
  In n (topoOrder hM 3) -> (0 < n)%nat -> node_ok hM DM (valM dl) n.
Proof.
  intros Hn Hgt. rewrite hM_order in Hn. destruct Hn as [<-|[<-|[<-|[<-|[]]]]]; [| | |lia].
  - (* the Mul node: the product rule *)
    apply (ok_mul hM DM (valM dl) 3 (1%nat, RMul 3 2) (2%nat, RMul 3 1)); try reflexivity.
    + intros i j. unfold DM, valM. cbn [Nat.eqb fst]. destruct (idx_eqb i j); [ring|reflexivity].
    + intros i j. unfold DM, valM. cbn [Nat.eqb fst]. destruct (idx_eqb i j); [ring|reflexivity].
    + intros Hf. cbv in Hf. discriminate Hf.
    + intros Hf. cbv in Hf. discriminate Hf.
  - apply (ok_linear_multi hM DM (valM dl) _ (fun _ => 0)); intros t j Hj;
      cbv [edgesOf hM nth_error nedges lsum map fold_right trackedOf ntracked fst].
    change (dimsOf hM 0) with [2%nat]. rewrite !DM_jvp by exact Hj. cbn [Nat.eqb valM]. ring.
  - apply (ok_linear_multi hM DM (valM dl) _ (fun _ => 0)); intros t j Hj;
      cbv [edgesOf hM nth_error nedges lsum map fold_right trackedOf ntracked fst].
    change (dimsOf hM 0) with [2%nat]. rewrite !DM_jvp by exact Hj. cbn [Nat.eqb valM]. ring.
Qed.

Lemma square_total_derivative (h' : @heap R) lg gx (dl : assignment) :
  bp_topo rd ids hM 3 = (h', lg, Ok tt) -> gradOf h' 0 = Some gx ->
  is_derive (fun t => (x0 + t * dl [0%nat]) * (x0 + t * dl [0%nat]) +
                      (x1 + t * dl [1%nat]) * (x1 + t * dl [1%nat])) 0
            (elt gx [0%nat] * dl [0%nat] + elt gx [1%nat] * dl [1%nat]).
Proof.
  intros E Egx.
  assert (H : is_derive (fun t => sumIdx (dimsOf hM 3) (fun k => valM dl t 3 k)) 0
                        (sumIdx (dimsOf hM 0) (fun i => elt gx i * dl i))).
  { apply (bp_total_derivative thr draw rd hM 3%nat h' lg DM 0%nat dl gx (valM dl)
             hM_rules_own hM_wf_heap eq_refl E).
    - intros n Hn. rewrite hM_order in Hn. destruct Hn as [<-|[<-|[<-|[<-|[]]]]]; reflexivity.
    - intros rv0 Hrv. cbn in Hrv. inversion Hrv. apply wf_vec2.
    - exact hM_jac.
    - rewrite hM_order. do 3 right. left. reflexivity.
    - exact Egx.
    - intros n _ Hlt. lia.
    - intros t i. unfold valM. ring.
    - apply chain_hyp_of_nodes. apply hM_nodes. }
  change (dimsOf hM 3) with [2%nat] in H. change (dimsOf hM 0) with [2%nat] in H.
  rewrite sumIdx2 in H.
  apply (is_derive_ext (fun t => sumIdx [2%nat] (fun k => valM dl t 3 k))); [|exact H].
  intros t. rewrite sumIdx2. reflexivity.
Qed.

(* the gradient of  Σ_k x_k * x_k  left on x is 2 x *)
Theorem square_gradient :
  exists h' lg gx, bp_topo rd ids hM 3 = (h', lg, Ok tt) /\ gradOf h' 0 = Some gx /\
    elt gx [0%nat] = 2 * x0 /\ elt gx [1%nat] = 2 * x1 /\
    forall dl : assignment,
      is_derive (fun t => (x0 + t * dl [0%nat]) * (x0 + t * dl [0%nat]) +
                          (x1 + t * dl [1%nat]) * (x1 + t * dl [1%nat])) 0
                (elt gx [0%nat] * dl [0%nat] + elt gx [1%nat] * dl [1%nat]).
Proof.
  destruct hM_run as (h' & lg & E).
  destruct (bp_topo_correct rd hM 3 h' lg hM_rules_own hM_wf_heap eq_refl E)
    as (rv & ones & _ & _ & _ & _ & _ & _ & C7 & _).
  assert (Hex : exists gx, gradOf h' 0 = Some gx).
  { destruct (gradOf h' 0) as [gx|] eqn:Egx; [exists gx; reflexivity|].
    exfalso. apply (C7 0%nat); [rewrite hM_order; do 3 right; left; reflexivity|exact Egx]. }
  destruct Hex as (gx & Egx).
  exists h', lg, gx. split; [exact E|]. split; [exact Egx|].
  pose proof (square_total_derivative h' lg gx (indic [0%nat]) E Egx) as H0.
  pose proof (square_total_derivative h' lg gx (indic [1%nat]) E Egx) as H1.
  unfold indic in H0, H1.
  change (idx_eqb [0%nat] [0%nat]) with true in *. change (idx_eqb [1%nat] [0%nat]) with false in *.
  change (idx_eqb [0%nat] [1%nat]) with false in *. change (idx_eqb [1%nat] [1%nat]) with true in *.
  split; [|split].
  - apply is_derive_unique in H0.
    replace (elt gx [0%nat]) with (elt gx [0%nat] * 1 + elt gx [1%nat] * 0) by ring.
    rewrite <- H0. apply is_derive_unique. auto_derive; [exact I|ring].
  - apply is_derive_unique in H1.
    replace (elt gx [1%nat]) with (elt gx [0%nat] * 0 + elt gx [1%nat] * 1) by ring.
    rewrite <- H1. apply is_derive_unique. auto_derive; [exact I|ring].
  - intros dl. apply (square_total_derivative h' lg gx dl E Egx).
Qed.

(* ---------------------------------------------------------------------------------- *)
(* 6c. y = c.Div(x)  with c an UNTRACKED leaf: the Div node has one back edge to an untracked
       target (frozen operand, no Jacobian block needed) and one to a tracked one *)
Section Quot.
Variables c0 c1 : R.
Hypotheses (Hx0 : x0 <> 0) (Hx1 : x1 <> 0).

Definition cv : tensor R := vec2 c0 c1.
Definition qv : tensor R := vec2 (c0 / x0) (c1 / x1).

Definition hQ : @heap R :=
  [mkNode xv true false None [] None;
   mkNode cv false false None [] None;
   mkNode cv false false None [] None;
   mkNode xv true false None [(0%nat, RBroadcast 3 0)] None;
   mkNode qv true false None [(2%nat, RDivA 4 3); (3%nat, RDivB 4 2 3)] None].

Example hQ_built :
  let '(h0, x) := leaf [] xv true None in
  let '(h1, c) := leaf h0 cv false None in
  h_arith h1 BiDiv c x None = (hQ, Ok 4%nat).
Proof. vm_compute. reflexivity. Qed.

Example hQ_order : topoOrder hQ 4 = [4; 3; 0]%nat.
Proof. reflexivity. Qed.

Example hQ_run : exists h' lg, bp_topo rd ids hQ 4 = (h', lg, Ok tt).
Proof. eexists. eexists. vm_compute. reflexivity. Qed.

Lemma hQ_rules_own : rules_own hQ.
Proof.
  intros c n e Hn He. destruct c as [|[|[|[|[|c]]]]]; cbn in Hn.
  - inversion Hn; subst n. destruct He.
  - inversion Hn; subst n. destruct He.
  - inversion Hn; subst n. destruct He.
  - inversion Hn; subst n. destruct He as [<-|[]]. reflexivity.
  - inversion Hn; subst n. destruct He as [<-|[<-|[]]]; reflexivity.
  - destruct c; discriminate.
Qed.

Lemma hQ_wf_heap : wf_heap hQ.
Proof.
  intros c n e Hn He. destruct c as [|[|[|[|[|c]]]]]; cbn in Hn.
  - inversion Hn; subst n. destruct He.
  - inversion Hn; subst n. destruct He.
  - inversion Hn; subst n. destruct He.
  - inversion Hn; subst n. destruct He as [<-|[]]. cbn. lia.
  - inversion Hn; subst n. destruct He as [<-|[<-|[]]]; cbn; lia.
  - destruct c; discriminate.
Qed.

Definition dQ (c : nat) (e : nat * @rule R) (j : list nat) : R :=
  if (c =? 4)%nat then (if (fst e =? 2)%nat then / elt xv j else - elt cv j / elt xv j ^ 2) else 1.
Definition DQ (c : nat) (e : nat * @rule R) (i j : list nat) : R :=
  if idx_eqb i j then dQ c e j else 0.

Lemma DQ_vjp c e (gc : assignment) i : validIdx [2%nat] i ->
  sumIdx [2%nat] (fun j => gc j * DQ c e i j) = gc i * dQ c e i.
Proof. intros Hi. unfold DQ. apply (sumIdx_diag_r [2%nat] gc (dQ c e) i Hi). Qed.

Lemma DQ_jvp c e (v : assignment) j : validIdx [2%nat] j ->
  sumIdx [2%nat] (fun i => DQ c e i j * v i) = dQ c e j * v j.
Proof. intros Hj. unfold DQ. apply (sumIdx_diag_l [2%nat] (dQ c e) v j Hj). Qed.

Lemma hQ_jac : jac_hyp thr draw rd hQ 4 DQ.
Proof.
  intros c e Hc He Ht hh gc Hv Hg Wg Dg. rewrite hQ_order in Hc.
  destruct Hc as [<-|[<-|[<-|[]]]].
  - destruct He as [<-|[<-|[]]]; cbn [fst snd] in *.
    + (* the edge to the untracked broadcast of c is never evaluated *)
      cbv in Ht. discriminate Ht.
    + assert (Ha : valOf hh 2 = Some cv) by (rewrite Hv; reflexivity).
      assert (Hb : valOf hh 3 = Some xv) by (rewrite Hv; reflexivity).
      destruct (rdivb_eval thr draw rd hh 4%nat 2%nat 3%nat cv xv gc Ha Hb Hg (wf_vec2 _ _) (wf_vec2 _ _) Wg Dg eq_refl)
        as (g & Eg & Dgg & Wgg & Gg).
      exists g. split; [exact Eg|]. split; [exact Dgg|]. split; [exact Wgg|].
      intros i Hi. rewrite (Gg i Hi). change (dimsOf hQ 4) with [2%nat]. rewrite DQ_vjp by exact Hi.
      reflexivity.
  - destruct He as [<-|[]]. cbn [fst snd]. exists gc.
    split; [apply (bcast_same_eval hh 3%nat 0%nat gc xv Hg); rewrite Hv; reflexivity|].
    split; [exact Dg|]. split; [exact Wg|].
    intros i Hi. change (dimsOf hQ 3) with [2%nat]. rewrite DQ_vjp by exact Hi. unfold dQ. cbn [Nat.eqb]. ring.
  - destruct He.
Qed.

Definition valQ (dl : assignment) (t : R) (n : nat) : assignment :=
  fun i => match n with
           | 0%nat | 3%nat => elt xv i + t * dl i
           | 1%nat | 2%nat => elt cv i
           | _ => elt cv i / (elt xv i + t * dl i)
           end.

Lemma valid2 idx : validIdx [2%nat] idx -> idx = [0%nat] \/ idx = [1%nat].
Proof.
  intros H. apply validIdx_cons in H as (i & r & -> & Hi & Hr). apply validIdx_nil in Hr. subst r.
  destruct i as [|[|i]]; [left; reflexivity|right; reflexivity|lia].
Qed.

Lemma hQ_nodes (dl : assignment) n :
  In n (topoOrder hQ 4) -> (0 < n)%nat -> node_ok hQ DQ (valQ dl) n.
Proof.
  intros Hn Hgt. rewrite hQ_order in Hn. destruct Hn as [<-|[<-|[<-|[]]]]; [| |lia].
  - (* the Div node: the quotient rule; the numerator is frozen *)
    apply (ok_div hQ DQ (valQ dl) 4 (2%nat, RDivA 4 3) (3%nat, RDivB 4 2 3)); try reflexivity.
    + intros i j. unfold DQ, dQ, valQ. cbn [Nat.eqb fst]. destruct (idx_eqb i j); [|reflexivity].
      f_equal. ring.
    + intros i j. unfold DQ, dQ, valQ. cbn [Nat.eqb fst]. destruct (idx_eqb i j); [|reflexivity].
      replace (elt xv j + 0 * dl j) with (elt xv j) by ring. reflexivity.
    + intros j Hj. destruct (valid2 j Hj) as [-> | ->]; unfold valQ; cbn [fst].
      * change (elt xv [0%nat]) with x0. intros H. apply Hx0. lra.
      * change (elt xv [1%nat]) with x1. intros H. apply Hx1. lra.
    + intros _ t i _. reflexivity.
    + intros Hf. cbv in Hf. discriminate Hf.
  - apply (ok_linear_multi hQ DQ (valQ dl) _ (fun _ => 0)); intros t j Hj;
      cbv [edgesOf hQ nth_error nedges lsum map fold_right trackedOf ntracked fst].
    change (dimsOf hQ 0) with [2%nat]. rewrite !DQ_jvp by exact Hj. unfold dQ. cbn [Nat.eqb valQ]. ring.
Qed.

Lemma quot_total_derivative (h' : @heap R) lg gx (dl : assignment) :
  bp_topo rd ids hQ 4 = (h', lg, Ok tt) -> gradOf h' 0 = Some gx ->
  is_derive (fun t => c0 / (x0 + t * dl [0%nat]) + c1 / (x1 + t * dl [1%nat])) 0
            (elt gx [0%nat] * dl [0%nat] + elt gx [1%nat] * dl [1%nat]).
Proof.
  intros E Egx.
  assert (H : is_derive (fun t => sumIdx (dimsOf hQ 4) (fun k => valQ dl t 4 k)) 0
                        (sumIdx (dimsOf hQ 0) (fun i => elt gx i * dl i))).
  { apply (bp_total_derivative thr draw rd hQ 4%nat h' lg DQ 0%nat dl gx (valQ dl)
             hQ_rules_own hQ_wf_heap eq_refl E).
    - intros n Hn. rewrite hQ_order in Hn. destruct Hn as [<-|[<-|[<-|[]]]]; reflexivity.
    - intros rv0 Hrv. cbn in Hrv. inversion Hrv. apply wf_vec2.
    - exact hQ_jac.
    - rewrite hQ_order. do 2 right. left. reflexivity.
    - exact Egx.
    - intros n _ Hlt. lia.
    - intros t i. unfold valQ. ring.
    - apply chain_hyp_of_nodes. apply hQ_nodes. }
  change (dimsOf hQ 4) with [2%nat] in H. change (dimsOf hQ 0) with [2%nat] in H.
  rewrite sumIdx2 in H.
  apply (is_derive_ext (fun t => sumIdx [2%nat] (fun k => valQ dl t 4 k))); [|exact H].
  intros t. rewrite sumIdx2. reflexivity.
Qed.

(* the gradient of  Σ_k c_k / x_k  left on x is  - c / x² *)
Theorem quot_gradient :
  exists h' lg gx, bp_topo rd ids hQ 4 = (h', lg, Ok tt) /\ gradOf h' 0 = Some gx /\
    elt gx [0%nat] = - c0 / x0 ^ 2 /\ elt gx [1%nat] = - c1 / x1 ^ 2 /\
    forall dl : assignment,
      is_derive (fun t => c0 / (x0 + t * dl [0%nat]) + c1 / (x1 + t * dl [1%nat])) 0
                (elt gx [0%nat] * dl [0%nat] + elt gx [1%nat] * dl [1%nat]).
Proof.
  destruct hQ_run as (h' & lg & E).
  destruct (bp_topo_correct rd hQ 4 h' lg hQ_rules_own hQ_wf_heap eq_refl E)
    as (rv & ones & _ & _ & _ & _ & _ & _ & C7 & _).
  assert (Hex : exists gx, gradOf h' 0 = Some gx).
  { destruct (gradOf h' 0) as [gx|] eqn:Egx; [exists gx; reflexivity|].
    exfalso. apply (C7 0%nat); [rewrite hQ_order; do 2 right; left; reflexivity|exact Egx]. }
  destruct Hex as (gx & Egx).
  exists h', lg, gx. split; [exact E|]. split; [exact Egx|].
  pose proof (quot_total_derivative h' lg gx (indic [0%nat]) E Egx) as H0.
  pose proof (quot_total_derivative h' lg gx (indic [1%nat]) E Egx) as H1.
  unfold indic in H0, H1.
  change (idx_eqb [0%nat] [0%nat]) with true in *. change (idx_eqb [1%nat] [0%nat]) with false in *.
  change (idx_eqb [0%nat] [1%nat]) with false in *. change (idx_eqb [1%nat] [1%nat]) with true in *.
  split; [|split].
  - apply is_derive_unique in H0.
    replace (elt gx [0%nat]) with (elt gx [0%nat] * 1 + elt gx [1%nat] * 0) by ring.
    rewrite <- H0. apply is_derive_unique. auto_derive.
    + repeat split; lra.
    + field. lra.
  - apply is_derive_unique in H1.
    replace (elt gx [1%nat]) with (elt gx [0%nat] * 0 + elt gx [1%nat] * 1) by ring.
    rewrite <- H1. apply is_derive_unique. auto_derive.
    + repeat split; lra.
    + field. lra.
  - intros dl. apply (quot_total_derivative h' lg gx dl E Egx).
Qed.

End Quot.

(* ---------------------------------------------------------------------------------- *)
(* 6d. y = x.MatMul(x.Transpose())  for a row vector x : [1,2]  (y = [[x0² + x1²]]): the MatMul node
       has two tracked operands that both depend on x, one of them through a Transpose (a linear
       gather node); derivative 2 x *)
Section MM.

Definition xr : tensor R := mkT [1%nat; 2%nat] (Vec [Vec [Sc x0; Sc x1]]).
Definition xc : tensor R := mkT [2%nat; 1%nat] (Vec [Vec [Sc x0]; Vec [Sc x1]]).
Definition pv : tensor R := mkT [1%nat; 1%nat] (Vec [Vec [Sc (0 + x0 * x0 + x1 * x1)]]).

Definition hT : @heap R :=
  [mkNode xr true false None [] None;
   mkNode xc true false None [(0%nat, RTranspose 1)] None;
   mkNode xr true false None [(0%nat, RBroadcast 2 0)] None;
   mkNode xc true false None [(1%nat, RBroadcast 3 1)] None;
   mkNode pv true false None [(2%nat, RMatMulA 4 3); (3%nat, RMatMulB 4 2)] None].

Example hT_built :
  let '(h0, x) := leaf [] xr true None in
  match h_transpose h0 x None with
  | (h1, Ok c) => h_matmul h1 x c None = (hT, Ok 4%nat)
  | _ => False
  end.
Proof. vm_compute. reflexivity. Qed.

Example hT_order : topoOrder hT 4 = [4; 3; 1; 2; 0]%nat.
Proof. reflexivity. Qed.

Example hT_run : exists h' lg, bp_topo rd ids hT 4 = (h', lg, Ok tt).
Proof. eexists. eexists. vm_compute. reflexivity. Qed.

Lemma wf_xr : wf xr.  Proof. split; cbn; repeat constructor. Qed.
Lemma wf_xc : wf xc.  Proof. split; cbn; repeat constructor. Qed.
Lemma wf_pv : wf pv.  Proof. split; cbn; repeat constructor. Qed.

Lemma hT_rules_own : rules_own hT.
Proof.
  intros c n e Hn He. destruct c as [|[|[|[|[|c]]]]]; cbn in Hn.
  - inversion Hn; subst n. destruct He.
  - inversion Hn; subst n. destruct He as [<-|[]]. reflexivity.
  - inversion Hn; subst n. destruct He as [<-|[]]. reflexivity.
  - inversion Hn; subst n. destruct He as [<-|[]]. reflexivity.
  - inversion Hn; subst n. destruct He as [<-|[<-|[]]]; reflexivity.
  - destruct c; discriminate.
Qed.

Lemma hT_wf_heap : wf_heap hT.
Proof.
  intros c n e Hn He. destruct c as [|[|[|[|[|c]]]]]; cbn in Hn.
  - inversion Hn; subst n. destruct He.
  - inversion Hn; subst n. destruct He as [<-|[]]. cbn. lia.
  - inversion Hn; subst n. destruct He as [<-|[]]. cbn. lia.
  - inversion Hn; subst n. destruct He as [<-|[]]. cbn. lia.
  - inversion Hn; subst n. destruct He as [<-|[<-|[]]]; cbn; lia.
  - destruct c; discriminate.
Qed.

Definition sw (i : list nat) : list nat := [nth 1 i 0%nat; nth 0 i 0%nat].

(* MatMul blocks in the closed form of [chain_node_matmul2]; Transpose: a permutation matrix;
   same-shape Broadcast: the identity *)
Definition DT (c : nat) (e : nat * @rule R) (i j : list nat) : R :=
  match c with
  | 4%nat => if (fst e =? 2)%nat
             then (if (nth 0 i 0 =? nth 0 j 0)%nat then elt xc [nth 1 i 0%nat; nth 1 j 0%nat] else 0)
             else (if (nth 1 i 0 =? nth 1 j 0)%nat then elt xr [nth 0 j 0%nat; nth 0 i 0%nat] else 0)
  | 1%nat => if idx_eqb j (sw i) then 1 else 0
  | _ => if idx_eqb i j then 1 else 0
  end.

Lemma sumIdx11 (f : assignment) : sumIdx [1%nat; 1%nat] f = f [0%nat; 0%nat].
Proof. unfold sumIdx. cbn. ring. Qed.
Lemma sumIdx12 (f : assignment) : sumIdx [1%nat; 2%nat] f = f [0%nat; 0%nat] + f [0%nat; 1%nat].
Proof. unfold sumIdx. cbn. ring. Qed.
Lemma sumIdx21 (f : assignment) : sumIdx [2%nat; 1%nat] f = f [0%nat; 0%nat] + f [1%nat; 0%nat].
Proof. unfold sumIdx. cbn. ring. Qed.

Lemma hT_jac : jac_hyp thr draw rd hT 4 DT.
Proof.
  intros c e Hc He Ht hh gc Hv Hg Wg Dg. rewrite hT_order in Hc.
  destruct Hc as [<-|[<-|[<-|[<-|[<-|[]]]]]].
  - destruct He as [<-|[<-|[]]]; cbn [fst snd].
    + (* RMatMulA: gy · (x^T)^T *)
      assert (Hb : valOf hh 3 = Some xc) by (rewrite Hv; reflexivity).
      destruct (VjpLinalgP.rmatmula_eval thr draw rd hh 4%nat 3%nat xc gc [] 1%nat 2%nat 1%nat Hb Hg wf_xc Wg eq_refl Dg)
        as (g & Eg & Dgg & Wgg & Gg).
      exists g. split; [exact Eg|]. split; [exact Dgg|]. split; [exact Wgg|].
      intros i Hi. change (dimsOf hT 2) with [1%nat; 2%nat] in Hi.
      apply valid2d_inv in Hi as (r & k & -> & Hr & Hk).
      pose proof (Gg [] r k (Forall2_nil _) Hr Hk) as G1. cbn [app] in G1. rewrite G1.
      change (dimsOf hT 4) with [1%nat; 1%nat]. rewrite sumIdx11.
      unfold VjpLinalgP.sumN, DT. cbn [seq map fold_right fst Nat.eqb nth].
      assert (r = 0%nat) by lia. subst r. cbn [Nat.eqb]. ring.
    + (* RMatMulB: x^T · gy *)
      assert (Ha : valOf hh 2 = Some xr) by (rewrite Hv; reflexivity).
      destruct (VjpLinalgP.rmatmulb_eval thr draw rd hh 4%nat 2%nat xr gc [] 1%nat 2%nat 1%nat Ha Hg wf_xr Wg eq_refl Dg)
        as (g & Eg & Dgg & Wgg & Gg).
      exists g. split; [exact Eg|]. split; [exact Dgg|]. split; [exact Wgg|].
      intros i Hi. change (dimsOf hT 3) with [2%nat; 1%nat] in Hi.
      apply valid2d_inv in Hi as (k & c & -> & Hk & Hc).
      pose proof (Gg [] k c (Forall2_nil _) Hk Hc) as G1. cbn [app] in G1. rewrite G1.
      change (dimsOf hT 4) with [1%nat; 1%nat]. rewrite sumIdx11.
      unfold VjpLinalgP.sumN, DT. cbn [seq map fold_right fst Nat.eqb nth].
      assert (c = 0%nat) by lia. subst c. cbn [Nat.eqb]. ring.
  - destruct He as [<-|[]]. cbn [fst snd]. exists gc.
    split; [apply (bcast_same_eval hh 3%nat 1%nat gc xc Hg); rewrite Hv; reflexivity|].
    split; [exact Dg|]. split; [exact Wg|].
    intros i Hi. unfold DT. rewrite (sumIdx_diag_r (dimsOf hT 3) (elt gc) (fun _ => 1) i Hi). ring.
  - (* RTranspose *)
    destruct He as [<-|[]]. cbn [fst snd].
    destruct (VjpLinalgP.rtranspose_eval thr draw rd hh 1%nat gc [] 1%nat 2%nat Hg Wg Dg)
      as (g & Eg & Dgg & Wgg & Gg).
    exists g. split; [exact Eg|]. split; [exact Dgg|]. split; [exact Wgg|].
    intros i Hi. change (dimsOf hT 0) with [1%nat; 2%nat] in Hi.
    apply valid2d_inv in Hi as (r & k & -> & Hr & Hk).
    pose proof (Gg [] r k (Forall2_nil _) Hr Hk) as G1. cbn [app] in G1. rewrite G1.
    unfold DT, sw. cbn [nth].
    rewrite (sumIdx_ext (dimsOf hT 1) _ (fun j => if idx_eqb j [k; r] then elt gc j else 0)).
    2:{ intros j _. destruct (idx_eqb j [k; r]); ring. }
    symmetry. apply (sumIdx_single (dimsOf hT 1) [k; r] (elt gc)). apply valid2d_intro; assumption.
  - destruct He as [<-|[]]. cbn [fst snd]. exists gc.
    split; [apply (bcast_same_eval hh 2%nat 0%nat gc xr Hg); rewrite Hv; reflexivity|].
    split; [exact Dg|]. split; [exact Wg|].
    intros i Hi. unfold DT. rewrite (sumIdx_diag_r (dimsOf hT 2) (elt gc) (fun _ => 1) i Hi). ring.
  - destruct He.
Qed.

Definition valT (dl : assignment) (t : R) (n : nat) : assignment :=
  fun i => match n with
           | 0%nat | 2%nat => elt xr i + t * dl i
           | 1%nat | 3%nat => elt xc i + t * dl (sw i)
           | _ => sumN 2 (fun k => (elt xr [nth 0 i 0%nat; k] + t * dl [nth 0 i 0%nat; k]) *
                                   (elt xc [k; nth 1 i 0%nat] + t * dl [nth 1 i 0%nat; k]))
           end.

Lemma hT_nodes (dl : assignment) n :
  In n (topoOrder hT 4) -> (0 < n)%nat -> node_ok hT DT (valT dl) n.
Proof.
  intros Hn Hgt. rewrite hT_order in Hn. destruct Hn as [<-|[<-|[<-|[<-|[<-|[]]]]]]; [| | | |lia].
  - (* the MatMul node *)
    apply (ok_matmul2 hT DT (valT dl) 4 (2%nat, RMatMulA 4 3) (3%nat, RMatMulB 4 2) 1 2 1); try reflexivity.
    + intros r k r' c. unfold DT, valT. cbn [fst Nat.eqb nth]. destruct (r =? r')%nat; [ring|reflexivity].
    + intros k c r c'. unfold DT, valT. cbn [fst Nat.eqb nth]. destruct (c =? c')%nat; [ring|reflexivity].
    + intros Hf. cbv in Hf. discriminate Hf.
    + intros Hf. cbv in Hf. discriminate Hf.
  - (* Broadcast (same shape) of x^T *)
    apply (ok_linear_multi hT DT (valT dl) _ (fun _ => 0)); intros t j Hj;
      cbv [edgesOf hT nth_error nedges lsum map fold_right trackedOf ntracked fst].
    fold hT. unfold DT. rewrite (sumIdx_diag_l (dimsOf hT 1) (fun _ => 1) (valT dl t 1) j Hj). cbn [valT]. ring.
  - (* Transpose: a single-edge gather node *)
    apply (ok_linear hT DT (valT dl) 1 (0%nat, RTranspose 1) (fun _ => 0)); try reflexivity.
    intros t j Hj. change (dimsOf hT 1) with [2%nat; 1%nat] in Hj.
    apply valid2d_inv in Hj as (k & c & -> & Hk & Hc). assert (c = 0%nat) by lia. subst c.
    cbn [fst]. change (dimsOf hT 0) with [1%nat; 2%nat]. rewrite sumIdx12.
    unfold DT, sw. cbn [nth]. rewrite !idx_eqb2.
    destruct k as [|[|k]]; [| |lia]; cbn [Nat.eqb andb]; unfold valT, sw, elt; cbn; ring.
  - (* Broadcast (same shape) of x *)
    apply (ok_linear_multi hT DT (valT dl) _ (fun _ => 0)); intros t j Hj;
      cbv [edgesOf hT nth_error nedges lsum map fold_right trackedOf ntracked fst].
    fold hT. unfold DT. rewrite (sumIdx_diag_l (dimsOf hT 0) (fun _ => 1) (valT dl t 0) j Hj). cbn [valT]. ring.
Qed.

Lemma gram_total_derivative (h' : @heap R) lg gx (dl : assignment) :
  bp_topo rd ids hT 4 = (h', lg, Ok tt) -> gradOf h' 0 = Some gx ->
  is_derive (fun t => (x0 + t * dl [0%nat; 0%nat]) * (x0 + t * dl [0%nat; 0%nat]) +
                      (x1 + t * dl [0%nat; 1%nat]) * (x1 + t * dl [0%nat; 1%nat])) 0
            (elt gx [0%nat; 0%nat] * dl [0%nat; 0%nat] + elt gx [0%nat; 1%nat] * dl [0%nat; 1%nat]).
Proof.
  intros E Egx.
  assert (H : is_derive (fun t => sumIdx (dimsOf hT 4) (fun k => valT dl t 4 k)) 0
                        (sumIdx (dimsOf hT 0) (fun i => elt gx i * dl i))).
  { apply (bp_total_derivative thr draw rd hT 4%nat h' lg DT 0%nat dl gx (valT dl)
             hT_rules_own hT_wf_heap eq_refl E).
    - intros n Hn. rewrite hT_order in Hn. destruct Hn as [<-|[<-|[<-|[<-|[<-|[]]]]]]; reflexivity.
    - intros rv0 Hrv. cbn in Hrv. inversion Hrv. apply wf_pv.
    - exact hT_jac.
    - rewrite hT_order. do 4 right. left. reflexivity.
    - exact Egx.
    - intros n _ Hlt. lia.
    - intros t i. unfold valT. ring.
    - apply chain_hyp_of_nodes. apply hT_nodes. }
  change (dimsOf hT 4) with [1%nat; 1%nat] in H. change (dimsOf hT 0) with [1%nat; 2%nat] in H.
  rewrite sumIdx12 in H.
  apply (is_derive_ext (fun t => sumIdx [1%nat; 1%nat] (fun k => valT dl t 4 k))); [|exact H].
  intros t. rewrite sumIdx11. unfold valT, sumN, lsum, elt. cbn. ring.
Qed.

(* the gradient of  x·xᵀ = x0² + x1²  left on x is 2 x *)
Theorem gram_gradient :
  exists h' lg gx, bp_topo rd ids hT 4 = (h', lg, Ok tt) /\ gradOf h' 0 = Some gx /\
    elt gx [0%nat; 0%nat] = 2 * x0 /\ elt gx [0%nat; 1%nat] = 2 * x1 /\
    forall dl : assignment,
      is_derive (fun t => (x0 + t * dl [0%nat; 0%nat]) * (x0 + t * dl [0%nat; 0%nat]) +
                          (x1 + t * dl [0%nat; 1%nat]) * (x1 + t * dl [0%nat; 1%nat])) 0
                (elt gx [0%nat; 0%nat] * dl [0%nat; 0%nat] + elt gx [0%nat; 1%nat] * dl [0%nat; 1%nat]).
Proof.
  destruct hT_run as (h' & lg & E).
  destruct (bp_topo_correct rd hT 4 h' lg hT_rules_own hT_wf_heap eq_refl E)
    as (rv & ones & _ & _ & _ & _ & _ & _ & C7 & _).
  assert (Hex : exists gx, gradOf h' 0 = Some gx).
  { destruct (gradOf h' 0) as [gx|] eqn:Egx; [exists gx; reflexivity|].
    exfalso. apply (C7 0%nat); [rewrite hT_order; do 4 right; left; reflexivity|exact Egx]. }
  destruct Hex as (gx & Egx).
  exists h', lg, gx. split; [exact E|]. split; [exact Egx|].
  pose proof (gram_total_derivative h' lg gx (indic [0%nat; 0%nat]) E Egx) as H0.
  pose proof (gram_total_derivative h' lg gx (indic [0%nat; 1%nat]) E Egx) as H1.
  unfold indic in H0, H1.
  change (idx_eqb [0%nat; 0%nat] [0%nat; 0%nat]) with true in *.
  change (idx_eqb [0%nat; 1%nat] [0%nat; 0%nat]) with false in *.
  change (idx_eqb [0%nat; 0%nat] [0%nat; 1%nat]) with false in *.
  change (idx_eqb [0%nat; 1%nat] [0%nat; 1%nat]) with true in *.
  split; [|split].
  - apply is_derive_unique in H0.
    replace (elt gx [0%nat; 0%nat]) with (elt gx [0%nat; 0%nat] * 1 + elt gx [0%nat; 1%nat] * 0) by ring.
    rewrite <- H0. apply is_derive_unique. auto_derive; [exact I|ring].
  - apply is_derive_unique in H1.
    replace (elt gx [0%nat; 1%nat]) with (elt gx [0%nat; 0%nat] * 0 + elt gx [0%nat; 1%nat] * 1) by ring.
    rewrite <- H1. apply is_derive_unique. auto_derive; [exact I|ring].
  - intros dl. apply (gram_total_derivative h' lg gx dl E Egx).
Qed.

End MM.

End Ex.
End TotalDeriv2Example.

Print Assumptions curve_diff2_of_filterdiff.
Print Assumptions curve_diff2_of_partials.
Print Assumptions chain_node_linear_multi.
Print Assumptions chain_node_pointwise2.
Print Assumptions chain_node_mul.
Print Assumptions chain_node_div.
Print Assumptions chain_node_bilinear.
Print Assumptions chain_node_matmul2.
Print Assumptions chain_hyp_of_nodes.
Print Assumptions TotalDeriv2Example.diamond_gradient.
Print Assumptions TotalDeriv2Example.square_gradient.
Print Assumptions TotalDeriv2Example.quot_gradient.
Print Assumptions TotalDeriv2Example.gram_gradient.
