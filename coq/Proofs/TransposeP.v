(* TransposeP.v — transpose (shape_modifiers.go, transposeElemGenerator) swaps the last two
   dimensions (property C04).  The generator state is the TARGET multi-index, least significant
   digit first; it is advanced by a plain odometer over the reversed target dims and the
   source is read at the state with its first two digits swapped.  Hence element tidx of the
   result is element [transposeDims tidx] of the source.  Public method: Ok iff rank >= 2,
   Err otherwise, never Panic.  Arbitrary element type. *)
From Coq Require Import List Arith ZArith Bool Lia.
From Qeep Require Import Model.Scalar Model.Nd Model.Fill Model.Data Model.Valid Model.Api.
From Qeep Require Import Spec.ValidSpec Proofs.ValidP.
From Qeep Require Import Proofs.NdP Proofs.FillP Proofs.OdometerP Proofs.ReshapeP Proofs.BroadcastP.
Import ListNotations.

(* ---------- swap01 / transposeDims ---------- *)

Lemma swap01_length {X} (l : list X) : length (swap01 l) = length l.
Proof. destruct l as [|a [|b l]]; reflexivity. Qed.

Lemma swap01_invol {X} (l : list X) : swap01 (swap01 l) = l.
Proof. destruct l as [|a [|b l]]; reflexivity. Qed.

Lemma Forall2_swap01 {X Y} (R : X -> Y -> Prop) l r : Forall2 R l r -> Forall2 R (swap01 l) (swap01 r).
Proof.
  intros H. destruct H as [|a b l r Hab H]; [constructor|].
  destruct H as [|a' b' l r Hab' H]; cbn [swap01]; repeat constructor; assumption.
Qed.

Lemma Forall_swap01 {X} (P : X -> Prop) l : Forall P l -> Forall P (swap01 l).
Proof.
  intros H. destruct H as [|a l Ha H]; [constructor|].
  destruct H as [|a' l Ha' H]; cbn [swap01]; repeat constructor; assumption.
Qed.

Lemma rev_transposeDims ds : rev (transposeDims ds) = swap01 (rev ds).
Proof. unfold transposeDims. apply rev_involutive. Qed.

Lemma transposeDims_length ds : length (transposeDims ds) = length ds.
Proof. unfold transposeDims. rewrite rev_length, swap01_length, rev_length. reflexivity. Qed.

Lemma transposeDims_invol ds : transposeDims (transposeDims ds) = ds.
Proof. unfold transposeDims. rewrite rev_involutive, swap01_invol. apply rev_involutive. Qed.

(* the last two entries are exchanged *)
Lemma transposeDims_snoc2 p a b : transposeDims (p ++ [a; b]) = p ++ [b; a].
Proof.
  unfold transposeDims. rewrite rev_app_distr. cbn [rev app swap01].
  rewrite rev_involutive, <- app_assoc. reflexivity.
Qed.

(* below rank 2 nothing happens *)
Lemma transposeDims_small ds : length ds < 2 -> transposeDims ds = ds.
Proof. destruct ds as [|a [|b ds]]; cbn [length]; intros H; try reflexivity. lia. Qed.

Lemma transposeDims_pos ds : allpos ds -> allpos (transposeDims ds).
Proof. intros H. unfold transposeDims. apply Forall_rev, Forall_swap01, Forall_rev, H. Qed.

Lemma transposeDims_prodn ds : prodn (transposeDims ds) = prodn ds.
Proof.
  unfold transposeDims. rewrite prodn_rev. rewrite <- (prodn_rev ds).
  destruct (rev ds) as [|a [|b l]]; cbn [swap01]; try reflexivity. rewrite !prodn_cons. lia.
Qed.

Lemma validIdx_transposeDims ds idx : validIdx ds idx -> validIdx (transposeDims ds) (transposeDims idx).
Proof.
  intros H. unfold transposeDims. apply validIdx_rev. rewrite !rev_involutive.
  apply validIdx_rev in H. unfold validIdx in *. apply Forall2_swap01, H.
Qed.

Lemma validIdx_transposeDims' ds idx : validIdx (transposeDims ds) idx -> validIdx ds (transposeDims idx).
Proof. intros H. apply validIdx_transposeDims in H. rewrite transposeDims_invol in H. exact H. Qed.

Lemma ovalid_swap01 ds st : ovalid ds st -> ovalid (swap01 ds) (swap01 st).
Proof.
  intros H. apply ovalid_validIdx. apply ovalid_validIdx in H. unfold validIdx in *. apply Forall2_swap01, H.
Qed.

Lemma snoc2_of_rank {X} (l : list X) : 2 <= length l -> exists p a b, l = p ++ [a; b].
Proof.
  intros H. exists (firstn (length l - 2) l).
  pose proof (firstn_skipn (length l - 2) l) as E.
  assert (L : length (skipn (length l - 2) l) = 2) by (rewrite skipn_length; lia).
  destruct (skipn (length l - 2) l) as [|a [|b [|c r]]]; cbn in L; try lia.
  exists a, b. symmetry. exact E.
Qed.

Section TransposeP.
Variable A : Type.
Notation T := (tensor A).

(* ---------- the generator ---------- *)

Lemma trGen_ok ds (x : nd A) st : wfnd ds x -> ovalid (swap01 (rev ds)) st ->
  exists a, get x (rev (swap01 st)) = Some a /\
            trGen ds x st = Some (Sc a, incr (swap01 (rev ds)) st).
Proof.
  intros Hw Hv.
  assert (Hi : validIdx ds (rev (swap01 st))).
  { apply ovalid_swap01 in Hv. rewrite swap01_invol in Hv. apply ovalid_validIdx in Hv.
    apply validIdx_rev in Hv. rewrite rev_involutive in Hv. exact Hv. }
  destruct (dataAt_full A ds x _ Hw Hi) as (a & Ea & Eg).
  exists a. split; [exact Eg|]. unfold trGen. rewrite Ea. reflexivity.
Qed.

(* the data-layer core, for every rank (below rank 2 it is a copy) *)
Lemma transpose_data ds (x : nd A) : wfnd ds x -> allpos ds ->
  exists d, initWith (transposeDims ds) (trGen ds x) (linInit ds) = Some d /\
            wfnd (transposeDims ds) d /\
            forall idx, validIdx (transposeDims ds) idx -> get d idx = get x (transposeDims idx).
Proof.
  intros Hw Hp.
  destruct (wfnd_inhabited A ds x Hw Hp) as (a0 & _).
  set (tds := transposeDims ds).
  set (outA := fun st : list nat => match get x (rev (swap01 st)) with Some a => a | None => a0 end).
  assert (Hg : forall st, ovalid (swap01 (rev ds)) st ->
                 trGen ds x st = Some (Sc (outA st), incr (swap01 (rev ds)) st)).
  { intros st Hst. destruct (trGen_ok ds x st Hw Hst) as (a & Ea & Eg). unfold outA. rewrite Ea. exact Eg. }
  assert (Hinit : ovalid (swap01 (rev ds)) (linInit ds)).
  { unfold linInit. rewrite <- (rev_length ds), <- (swap01_length (rev ds)).
    apply ovalid_zeros, Forall_swap01, Forall_rev, Hp. }
  pose proof (initWith_spec A (list nat) (trGen ds x) (fun st => Sc (outA st)) (incr (swap01 (rev ds)))
                (ovalid (swap01 (rev ds))) Hg (incr_valid (swap01 (rev ds))) tds (linInit ds) Hinit) as HI.
  rewrite (tabS_tab A (list nat) (fun st => Sc (outA st)) (incr (swap01 (rev ds))) outA (fun s => eq_refl)) in HI.
  eexists. split; [exact HI|]. split; [apply wfnd_tab|].
  intros idx Hv. rewrite get_tab by exact Hv.
  unfold linInit. rewrite <- (transposeDims_length ds), <- (rev_transposeDims ds). fold tds.
  rewrite (iter_incr_flatIdx tds idx Hv).
  unfold outA. change (rev (swap01 (rev idx))) with (transposeDims idx).
  destruct (get_wf A ds x _ Hw (validIdx_transposeDims' ds idx Hv)) as (a & ->). reflexivity.
Qed.

(* ---------- tensor level ---------- *)

(* general form: any rank, the index is mapped by the same function as the shape *)
Theorem transpose_get (t : T) : wf t ->
  exists r, transpose t = Some r /\ dims r = transposeDims (dims t) /\ wf r /\
    forall idx, validIdx (transposeDims (dims t)) idx ->
      get (data r) idx = get (data t) (transposeDims idx).
Proof.
  intros [Hw Hp]. destruct (transpose_data (dims t) (data t) Hw Hp) as (d & Ed & Hd & Hg).
  exists (mkT (transposeDims (dims t)) d). unfold transpose. rewrite Ed. cbn [obind dims data].
  split; [reflexivity|]. split; [reflexivity|]. split; [|exact Hg].
  split; [exact Hd|apply transposeDims_pos, Hp].
Qed.

(* main theorem: rank >= 2, dims = batch ++ [m; n] *)
Theorem transpose_spec (t : T) batch m n : wf t -> dims t = batch ++ [m; n] ->
  exists r, transpose t = Some r /\ dims r = batch ++ [n; m] /\ wf r /\
    forall b i j, validIdx (batch ++ [n; m]) (b ++ [j; i]) ->
      get (data r) (b ++ [j; i]) = get (data t) (b ++ [i; j]).
Proof.
  intros Ht E. destruct (transpose_get t Ht) as (r & Er & Hd & Hw & Hg).
  rewrite E, transposeDims_snoc2 in Hd, Hg.
  exists r. repeat (split; [assumption|]). intros b i j Hv.
  rewrite (Hg _ Hv), transposeDims_snoc2. reflexivity.
Qed.

(* the same with the elements named and the index constraints spelled out *)
Corollary transpose_elem (t : T) batch m n : wf t -> dims t = batch ++ [m; n] ->
  exists r, transpose t = Some r /\ dims r = batch ++ [n; m] /\ wf r /\
    forall b i j, validIdx batch b -> i < m -> j < n ->
      exists a, get (data t) (b ++ [i; j]) = Some a /\ get (data r) (b ++ [j; i]) = Some a.
Proof.
  intros Ht E. destruct (transpose_spec t batch m n Ht E) as (r & Er & Hd & Hw & Hg).
  exists r. repeat (split; [assumption|]). intros b i j Hb Hi Hj.
  assert (Hv : validIdx (batch ++ [m; n]) (b ++ [i; j])).
  { apply Forall2_app; [exact Hb|]. repeat constructor; assumption. }
  assert (Hv' : validIdx (batch ++ [n; m]) (b ++ [j; i])).
  { apply Forall2_app; [exact Hb|]. repeat constructor; assumption. }
  destruct Ht as [Hwt _]. rewrite E in Hwt.
  destruct (get_wf A _ _ _ Hwt Hv) as (a & Ea). exists a. split; [exact Ea|]. rewrite (Hg b i j Hv'). exact Ea.
Qed.

(* transposing twice is the identity *)
Theorem transpose_transpose (t : T) : wf t -> exists r, transpose t = Some r /\ transpose r = Some t.
Proof.
  intros Ht. destruct (transpose_get t Ht) as (r & Er & Hd & Hw & Hg).
  exists r. split; [exact Er|].
  destruct (transpose_get r Hw) as (r' & Er' & Hd' & Hw' & Hg'). rewrite Er'. f_equal.
  rewrite Hd, transposeDims_invol in Hd', Hg'.
  destruct Ht as [Hwt _]. destruct Hw' as [Hwr' _].
  destruct r' as [rd rx]. destruct t as [td tx]. cbn [dims data] in *. subst rd. f_equal.
  apply (nd_ext A td); [exact Hwr'|exact Hwt|]. intros idx Hv.
  rewrite (Hg' idx Hv). rewrite Hg by (apply validIdx_transposeDims, Hv).
  rewrite transposeDims_invol. reflexivity.
Qed.

(* row-major view: the element sequence of the result, by position *)
Corollary transpose_flat (t : T) : wf t ->
  exists r, transpose t = Some r /\
    forall idx, validIdx (transposeDims (dims t)) idx ->
      nth_error (flat (data r)) (flatIdx (transposeDims (dims t)) idx) =
      nth_error (flat (data t)) (flatIdx (dims t) (transposeDims idx)).
Proof.
  intros Ht. destruct (transpose_get t Ht) as (r & Er & Hd & [Hw _] & Hg). exists r. split; [exact Er|].
  intros idx Hv. rewrite Hd in Hw.
  rewrite (flat_nth A _ _ _ Hw Hv), (flat_nth A _ _ _ (proj1 Ht) (validIdx_transposeDims' _ _ Hv)).
  apply Hg, Hv.
Qed.

(* ---------- API level ---------- *)

Lemma validateTransposeDims_rank (t : T) : validateTransposeDims (zdims t) = true <-> 2 <= length (dims t).
Proof.
  rewrite validateTransposeDims_spec. unfold transposePre, zdims. rewrite map_length. reflexivity.
Qed.

Theorem v_transpose_spec (t : T) : wf t ->
  (2 <= length (dims t) ->
     exists batch m n r, dims t = batch ++ [m; n] /\ v_transpose t = Ok r /\ dims r = batch ++ [n; m] /\ wf r /\
       forall b i j, validIdx (batch ++ [n; m]) (b ++ [j; i]) ->
         get (data r) (b ++ [j; i]) = get (data t) (b ++ [i; j])) /\
  (length (dims t) < 2 -> v_transpose t = Err).
Proof.
  intros Ht. unfold v_transpose, guard. split; intros H.
  - rewrite (proj2 (validateTransposeDims_rank t) H).
    destruct (snoc2_of_rank (dims t) H) as (batch & m & n & E).
    destruct (transpose_spec t batch m n Ht E) as (r & Er & Hr).
    exists batch, m, n, r. rewrite Er. split; [exact E|]. split; [reflexivity|exact Hr].
  - destruct (validateTransposeDims (zdims t)) eqn:V; [|reflexivity].
    apply validateTransposeDims_rank in V. lia.
Qed.

Corollary v_transpose_ok_iff (t : T) : wf t ->
  ((exists r, v_transpose t = Ok r) <-> 2 <= length (dims t)) /\ v_transpose t <> Panic.
Proof.
  intros Ht. destruct (v_transpose_spec t Ht) as [H1 H2].
  destruct (le_lt_dec 2 (length (dims t))) as [H|H].
  - destruct (H1 H) as (batch & m & n & r & _ & Er & _). rewrite Er.
    split; [split; [intros _; exact H|intros _; exists r; reflexivity]|discriminate].
  - rewrite (H2 H). split; [split; [intros (r & Er); discriminate|intros H'; lia]|discriminate].
Qed.

Corollary v_transpose_transpose (t : T) : wf t -> 2 <= length (dims t) ->
  exists r, v_transpose t = Ok r /\ v_transpose r = Ok t.
Proof.
  intros Ht H. destruct (transpose_transpose t Ht) as (r & Er & Er').
  destruct (transpose_get t Ht) as (r0 & Er0 & Hd & _). assert (r0 = r) by congruence. subst r0.
  exists r. unfold v_transpose, guard.
  rewrite (proj2 (validateTransposeDims_rank t) H), Er.
  assert (H' : 2 <= length (dims r)) by (rewrite Hd, transposeDims_length; exact H).
  rewrite (proj2 (validateTransposeDims_rank r) H'), Er'. split; reflexivity.
Qed.

(* the plain case: a matrix *)
Corollary v_transpose_2d (t : T) m n : wf t -> dims t = [m; n] ->
  exists r, v_transpose t = Ok r /\ dims r = [n; m] /\ wf r /\
    forall i j, i < m -> j < n -> get (data r) [j; i] = get (data t) [i; j].
Proof.
  intros Ht E. destruct (transpose_spec t [] m n Ht E) as (r & Er & Hd & Hw & Hg).
  exists r. unfold v_transpose, guard.
  rewrite (proj2 (validateTransposeDims_rank t)) by (rewrite E; cbn; lia). rewrite Er.
  split; [reflexivity|]. split; [exact Hd|]. split; [exact Hw|].
  intros i j Hi Hj. apply (Hg [] i j). repeat constructor; assumption.
Qed.

End TransposeP.

(* ---------- examples ---------- *)
Definition tr23 : tensor nat := mkT [2; 3] (Vec [Vec [Sc 1; Sc 2; Sc 3]; Vec [Sc 4; Sc 5; Sc 6]]).
Definition tr223 : tensor nat :=
  mkT [2; 2; 3] (Vec [Vec [Vec [Sc 1; Sc 2; Sc 3]; Vec [Sc 4; Sc 5; Sc 6]];
                      Vec [Vec [Sc 7; Sc 8; Sc 9]; Vec [Sc 10; Sc 11; Sc 12]]]).
Definition tr3 : tensor nat := mkT [3] (Vec [Sc 1; Sc 2; Sc 3]).

Example tr23_wf : wf tr23.
Proof. split; [apply wfndb_spec; reflexivity|repeat constructor]. Qed.
Example tr223_wf : wf tr223 /\ dims tr223 = [2] ++ [2; 3].
Proof. split; [split; [apply wfndb_spec; reflexivity|repeat constructor]|reflexivity]. Qed.

Example transpose_ex :
  transpose tr23 = Some (mkT [3; 2] (Vec [Vec [Sc 1; Sc 4]; Vec [Sc 2; Sc 5]; Vec [Sc 3; Sc 6]])).
Proof. vm_compute. reflexivity. Qed.
Example transpose_batch_ex :
  transpose tr223 =
  Some (mkT [2; 3; 2] (Vec [Vec [Vec [Sc 1; Sc 4]; Vec [Sc 2; Sc 5]; Vec [Sc 3; Sc 6]];
                            Vec [Vec [Sc 7; Sc 10]; Vec [Sc 8; Sc 11]; Vec [Sc 9; Sc 12]]])).
Proof. vm_compute. reflexivity. Qed.
(* through the theorem: element [1; 2; 0] of the result is element [1; 0; 2] of the source *)
Example transpose_spec_ex : exists r, transpose tr223 = Some r /\ get (data r) ([1] ++ [2; 0]) = Some 9.
Proof.
  destruct (transpose_spec nat tr223 [2] 2 3 (proj1 tr223_wf) (proj2 tr223_wf)) as (r & Er & _ & _ & Hg).
  exists r. split; [exact Er|]. rewrite (Hg [1] 0 2) by (repeat constructor). reflexivity.
Qed.
(* the data layer below rank 2 copies; the public method refuses *)
Example transpose_rank1_ex : transpose tr3 = Some tr3 /\ v_transpose tr3 = Err /\ v_transpose (mkT [] (Sc 7)) = Err.
Proof. vm_compute. auto. Qed.
Example v_transpose_ex :
  v_transpose tr23 = Ok (mkT [3; 2] (Vec [Vec [Sc 1; Sc 4]; Vec [Sc 2; Sc 5]; Vec [Sc 3; Sc 6]])).
Proof. vm_compute. reflexivity. Qed.

Print Assumptions transpose_get.
Print Assumptions transpose_spec.
Print Assumptions transpose_elem.
Print Assumptions transpose_transpose.
Print Assumptions transpose_flat.
Print Assumptions v_transpose_spec.
Print Assumptions v_transpose_ok_iff.
Print Assumptions v_transpose_transpose.
Print Assumptions v_transpose_2d.
