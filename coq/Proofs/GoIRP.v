(* GoIRP.v — infrastructure for reasoning about GoIR programs (Model/GoIR.v): loop rules,
   lookup/update facts, embeddings of Coq lists as GoIR values. *)
From Coq Require Import String List ZArith Bool Lia Arith.
From Qeep Require Import Model.GoIR.
Import ListNotations.
Local Open Scope Z_scope.

(* ---------- embeddings ---------- *)

Lemma nth_error_map_VI (l : list Z) (n : nat) :
  nth_error (map VI l) n = option_map VI (nth_error l n).
Proof. revert n; induction l as [|a l IH]; intros [|n]; cbn; auto. Qed.

Lemma zlenV_map {T} (f : T -> val) (l : list T) : zlenV (map f l) = Z.of_nat (length l).
Proof. unfold zlenV; now rewrite map_length. Qed.

Lemma idxOf_nat (n : nat) : idxOf (Z.of_nat n) = Some n.
Proof. unfold idxOf. destruct (0 <=? Z.of_nat n) eqn:E; [now rewrite Nat2Z.id | apply Z.leb_gt in E; lia]. Qed.

Lemma idxOf_neg (z : Z) : z < 0 -> idxOf z = None.
Proof. unfold idxOf; intros H. destruct (0 <=? z) eqn:E; [apply Z.leb_le in E; lia | reflexivity]. Qed.

Lemma idxOf_nonneg (z : Z) : 0 <= z -> idxOf z = Some (Z.to_nat z).
Proof. unfold idxOf; intros H. destruct (0 <=? z) eqn:E; [reflexivity | apply Z.leb_gt in E; lia]. Qed.

(* ---------- the for rule: invariant P, variant m ---------- *)

Lemma forLoop_rule (P : env -> Prop) (Q : outcome -> Prop) (m : env -> nat)
      (cond : env -> option val) (body post : env -> outcome) :
  (forall e, P e ->
     (cond e = Some (VB false) /\ Q (ONormal e)) \/
     (cond e = Some (VB true) /\
        ((exists e1, body e = OBreak e1 /\ Q (ONormal e1)) \/
         (exists vs, body e = ORet vs /\ Q (ORet vs)) \/
         (exists e1 e2, (body e = ONormal e1 \/ body e = OContinue e1) /\ post e1 = ONormal e2 /\
                        P e2 /\ (m e2 < m e)%nat)))) ->
  forall e, P e -> forall fuel, (m e < fuel)%nat -> Q (forLoop fuel cond body post e).
Proof.
  intros Hstep e He fuel. revert e He.
  induction fuel as [|fuel IH]; intros e He Hm; [lia|].
  cbn [forLoop].
  destruct (Hstep e He) as [[Hc HQ] | [Hc [[e1 [Hb HQ]] | [[vs [Hb HQ]] | [e1 [e2 [Hb [Hp [HP Hlt]]]]]]]]];
    rewrite Hc; auto.
  - now rewrite Hb.
  - now rewrite Hb.
  - assert (Hgo : Q (forLoop fuel cond body post e2)) by (apply IH; [exact HP | lia]).
    destruct Hb as [Hb | Hb]; rewrite Hb, Hp; exact Hgo.
Qed.

(* ---------- the range rule: invariant P k e before iteration k ---------- *)

Lemma rangeLoop_rule_from (P : nat -> env -> Prop) (Q : outcome -> Prop)
      (body : env -> outcome) (i x : string) (l : list val) :
  (forall k e v, P k e -> nth_error l k = Some v ->
     let e' := upd (upd e i (VI (Z.of_nat k))) x v in
     (exists e1, (body e' = ONormal e1 \/ body e' = OContinue e1) /\ P (S k) e1) \/
     (exists e1, body e' = OBreak e1 /\ Q (ONormal e1)) \/
     (exists vs, body e' = ORet vs /\ Q (ORet vs)) \/
     (body e' = OPanic /\ Q OPanic)) ->
  (forall e, P (length l) e -> Q (ONormal e)) ->
  forall k e, (k <= length l)%nat -> P k e ->
  Q (rangeLoop body i x (skipn k l) (Z.of_nat k) e).
Proof.
  intros Hstep Hend k e Hk HP.
  remember (length l - k)%nat as r eqn:Hr.
  revert k e Hk HP Hr. induction r as [|r IH]; intros k e Hk HP Hr.
  - assert (k = length l) by lia. subst k. rewrite skipn_all. cbn. now apply Hend.
  - destruct (nth_error l k) as [v|] eqn:Hn.
    2:{ apply nth_error_None in Hn. lia. }
    assert (Hs : skipn k l = v :: skipn (S k) l).
    { clear -Hn. revert k Hn. induction l as [|a l IHl]; intros [|k] Hn; cbn in *; try discriminate.
      - now inversion Hn.
      - now apply IHl. }
    rewrite Hs. cbn [rangeLoop].
    destruct (Hstep k e v HP Hn) as [[e1 [Hb HP1]] | [[e1 [Hb HQ]] | [[vs [Hb HQ]] | [Hb HQ]]]].
    + assert (Hgo : Q (rangeLoop body i x (skipn (S k) l) (Z.of_nat (S k)) e1)).
      { apply IH; [ | exact HP1 | lia ].
        assert (k < length l)%nat by (apply nth_error_Some; congruence). lia. }
      replace (Z.of_nat k + 1) with (Z.of_nat (S k)) by lia.
      destruct Hb as [Hb | Hb]; rewrite Hb; exact Hgo.
    + now rewrite Hb.
    + now rewrite Hb.
    + now rewrite Hb.
Qed.

Lemma rangeLoop_rule (P : nat -> env -> Prop) (Q : outcome -> Prop)
      (body : env -> outcome) (i x : string) (l : list val) :
  (forall k e v, P k e -> nth_error l k = Some v ->
     let e' := upd (upd e i (VI (Z.of_nat k))) x v in
     (exists e1, (body e' = ONormal e1 \/ body e' = OContinue e1) /\ P (S k) e1) \/
     (exists e1, body e' = OBreak e1 /\ Q (ONormal e1)) \/
     (exists vs, body e' = ORet vs /\ Q (ORet vs)) \/
     (body e' = OPanic /\ Q OPanic)) ->
  (forall e, P (length l) e -> Q (ONormal e)) ->
  forall e, P 0%nat e -> Q (rangeLoop body i x l 0 e).
Proof.
  intros Hstep Hend e HP.
  exact (rangeLoop_rule_from P Q body i x l Hstep Hend 0%nat e (Nat.le_0_l _) HP).
Qed.

(* ---------- environments ---------- *)

Lemma lookup_upd (e : env) (x y : string) (v : val) :
  lookup (upd e x v) y = if String.eqb y x then Some v else lookup e y.
Proof.
  induction e as [|[z w] e IH]; cbn.
  - reflexivity.
  - destruct (String.eqb x z) eqn:Exz; cbn.
    + apply String.eqb_eq in Exz; subst z. destruct (String.eqb y x); reflexivity.
    + rewrite IH. destruct (String.eqb y z) eqn:Eyz; [|reflexivity].
      apply String.eqb_eq in Eyz; subst z.
      destruct (String.eqb y x) eqn:Eyx; [|reflexivity].
      apply String.eqb_eq in Eyx; subst y. rewrite String.eqb_refl in Exz. discriminate.
Qed.

(* rewrite a lookup through updates with concrete names *)
Ltac lk := repeat (rewrite lookup_upd; cbn [String.eqb Ascii.eqb Bool.eqb]).

(* ---------- one-step unfolding of [exec] (use these instead of [cbn [exec]], which would also unfold the
   partially applied [exec call fuel body] inside loops) ---------- *)
Section ExecEq.
Variables (call : string -> list val -> outcome) (fuel : nat).
Notation ex := (exec call fuel).

Lemma exec_SSkip e : ex SSkip e = ONormal e. Proof. reflexivity. Qed.
Lemma exec_SSet x a e : ex (SSet x a) e = match eval e a with Some v => ONormal (upd e x v) | None => OPanic end.
Proof. reflexivity. Qed.
Lemma exec_SSetIdx x i a e :
  ex (SSetIdx x i a) e = match eval e a with Some v => setElem e x i (fun _ => Some v) | None => OPanic end.
Proof. reflexivity. Qed.
Lemma exec_SSetFld x i to a e :
  ex (SSetFld x i to a) e =
  match eval e a with
  | Some (VI z) => setElem e x i (fun old => match old with VR f t => Some (if to then VR f z else VR z t) | _ => None end)
  | _ => OPanic
  end.
Proof. reflexivity. Qed.
Lemma exec_SCopy x a e :
  ex (SCopy x a) e = match lookup e x, eval e a with
                     | Some (VL d), Some (VL src) => ONormal (upd e x (VL (copyInto d src)))
                     | _, _ => OPanic
                     end.
Proof. reflexivity. Qed.
Lemma exec_SSeq a b e : ex (SSeq a b) e = match ex a e with ONormal e1 => ex b e1 | o => o end.
Proof. reflexivity. Qed.
Lemma exec_SIf c a b e :
  ex (SIf c a b) e = match eval e c with Some (VB true) => ex a e | Some (VB false) => ex b e | _ => OPanic end.
Proof. reflexivity. Qed.
Lemma exec_SFor c post body e :
  ex (SFor c post body) e = forLoop fuel (fun e' => eval e' c) (ex body) (ex post) e.
Proof. reflexivity. Qed.
Lemma exec_SRange i x a body e :
  ex (SRange i x a body) e = match eval e a with Some (VL l) => rangeLoop (ex body) i x l 0 e | _ => OPanic end.
Proof. reflexivity. Qed.
Lemma exec_SBreak e : ex SBreak e = OBreak e. Proof. reflexivity. Qed.
Lemma exec_SContinue e : ex SContinue e = OContinue e. Proof. reflexivity. Qed.
Lemma exec_SRet es e : ex (SRet es) e = match evals e es with Some vs => ORet vs | None => OPanic end.
Proof. reflexivity. Qed.
Lemma exec_SCall xs f args e :
  ex (SCall xs f args) e =
  match evals e args with
  | Some vs => match call f vs with
               | ORet rs => match assignAll xs rs e with Some e1 => ONormal e1 | None => OPanic end
               | OFuel => OFuel
               | _ => OPanic
               end
  | None => OPanic
  end.
Proof. reflexivity. Qed.
End ExecEq.

#[export] Hint Rewrite exec_SSkip exec_SSet exec_SSetIdx exec_SSetFld exec_SCopy exec_SSeq exec_SIf exec_SFor exec_SRange
  exec_SBreak exec_SContinue exec_SRet exec_SCall : goexec.

(* unfold the statement structure one layer everywhere it is fully applied, then compute expressions;
   never unfolds [exec] under a loop *)
Ltac gx := autorewrite with goexec; cbn [sseq eval evals evalBin negb andb orb lookup upd String.eqb Ascii.eqb Bool.eqb ints nats ranges intss].
Ltac gxs := repeat (progress gx; lk).
