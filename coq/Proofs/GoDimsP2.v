(* GoDimsP2.v — the shape helpers dotDims, matMulDims (operators.go), completeIndex (accessors.go),
   getConcatDims (initializers.go) and targetBroadcastDims (cputensor_helpers.go) of tensor/internal/cputensor,
   as translated by harness/gox (Model/GoFns.v), compute the hand-written model functions of Model/Data.v
   (see coq/GOIR_NOTES.md). *)
From Coq Require Import String List ZArith Bool Lia Arith.
From Qeep Require Import Model.GoIR Model.GoFns Model.Nd Model.Data Proofs.GoIRP.
Import ListNotations.
Local Open Scope string_scope.
Local Open Scope Z_scope.
Local Open Scope list_scope.

Notation nv := (fun n : nat => VI (Z.of_nat n)).

Lemma copyInto_repeat v (l : list val) : copyInto (repeat v (Z.to_nat (zlenV l))) l = l.
Proof.
  unfold zlenV. rewrite Nat2Z.id. induction l as [|a l IH]; cbn; [reflexivity | now rewrite IH].
Qed.

Lemma zlenV_nonneg l : (0 <=? zlenV l) = true.
Proof. apply Z.leb_le. unfold zlenV. lia. Qed.

Lemma nth_error_map_nv (l : list nat) k :
  nth_error (map nv l) k = option_map nv (nth_error l k).
Proof. apply nth_error_map. Qed.

(* make([]int, len(cd)); copy(dims, cd) *)
Ltac mkcopy := rewrite ?zlenV_nonneg; gxs; rewrite ?copyInto_repeat; gxs.

(* ---------- dotDims, matMulDims ---------- *)
Theorem go_dotDims call fuel (ds : list nat) :
  (1 <= length ds)%nat ->
  exec call fuel (fbody GoFns.dotDims) [("idims", nats ds)] = ORet [nats (Data.dotDims ds)].
Proof.
  intros H. unfold GoFns.dotDims, Data.dotDims. cbn [fbody]. gxs.
  rewrite !zlenV_map.
  replace ((0 <=? 0) && (0 <=? Z.of_nat (length ds) - 1) && (Z.of_nat (length ds) - 1 <=? Z.of_nat (length ds)))
    with true by (symmetry; rewrite !andb_true_iff, !Z.leb_le; lia).
  gxs. mkcopy.
  replace (Z.to_nat (Z.of_nat (length ds) - 1 - 0)) with (length ds - 1)%nat by lia.
  cbn [Z.to_nat skipn]. now rewrite firstn_map.
Qed.

Corollary run_dotDims fuel (ds : list nat) :
  (1 <= length ds)%nat ->
  run ftab fuel GoFns.dotDims [nats ds] = ORet [nats (Data.dotDims ds)].
Proof. intros H. unfold run. cbn [fparams GoFns.dotDims bindArgs]. now apply go_dotDims. Qed.

Theorem go_matMulDims call fuel (d1 d2 r : list nat) :
  (2 <= length d1)%nat -> Data.matMulDims d1 d2 = Some r ->
  exec call fuel (fbody GoFns.matMulDims) [("dims1", nats d1); ("dims2", nats d2)] = ORet [nats r].
Proof.
  intros H. unfold GoFns.matMulDims, Data.matMulDims. cbn [fbody]. intros Hm.
  destruct (nth_error d1 (length d1 - 2)) as [m|] eqn:E1; cbn in Hm; [|discriminate].
  destruct (nth_error d2 (length d1 - 1)) as [k|] eqn:E2; cbn in Hm; [|discriminate].
  inversion Hm; subst r; clear Hm.
  gxs.
  rewrite !zlenV_map.
  replace ((0 <=? 0) && (0 <=? Z.of_nat (length d1) - 2) && (Z.of_nat (length d1) - 2 <=? Z.of_nat (length d1)))
    with true by (symmetry; rewrite !andb_true_iff, !Z.leb_le; lia).
  gxs. mkcopy.
  replace (Z.of_nat (length d1) - 2) with (Z.of_nat (length d1 - 2)) by lia.
  rewrite idxOf_nat, nth_error_map_nv, E1. cbn [option_map]. gxs.
  replace (Z.of_nat (length d1) - 1) with (Z.of_nat (length d1 - 1)) by lia.
  rewrite idxOf_nat, nth_error_map_nv, E2. cbn [option_map]. gxs.
  replace (Z.to_nat (Z.of_nat (length d1 - 2) - 0)) with (length d1 - 2)%nat by lia.
  cbn [Z.to_nat skipn]. unfold nats. rewrite map_app, firstn_map. reflexivity.
Qed.

Corollary run_matMulDims fuel (d1 d2 r : list nat) :
  (2 <= length d1)%nat -> Data.matMulDims d1 d2 = Some r ->
  run ftab fuel GoFns.matMulDims [nats d1; nats d2] = ORet [nats r].
Proof. intros H Hm. unfold run. cbn [fparams GoFns.matMulDims bindArgs]. now apply go_matMulDims. Qed.

(* ---------- completeIndex ---------- *)
Definition rv (r : nat * nat) : val := VR (Z.of_nat (fst r)) (Z.of_nat (snd r)).
Definition nranges (l : list (nat * nat)) : val := VL (map rv l).

Definition ciElem (index : list (nat*nat)) (k d : nat) : nat * nat :=
  match nth_error index k with
  | None => (0%nat, d)
  | Some (f, t) => if ((f =? 0) && (t =? 0))%nat then (0%nat, d) else (f, t)
  end.

Lemma completeIndex_length index ds : length (Data.completeIndex index ds) = length ds.
Proof. revert index; induction ds as [|d ds IH]; intros [|[f t] index]; cbn; auto. Qed.

Lemma completeIndex_nth index ds k :
  nth_error (Data.completeIndex index ds) k = option_map (ciElem index k) (nth_error ds k).
Proof.
  revert index k; induction ds as [|d ds IH]; intros index k.
  - destruct k; reflexivity.
  - destruct index as [|[f t] index]; destruct k as [|k]; cbn [Data.completeIndex nth_error option_map]; try reflexivity.
    + rewrite IH. unfold ciElem. destruct k; reflexivity.
    + rewrite IH. reflexivity.
Qed.

Lemma setNthV_app (a b : list val) x v k : length a = k -> setNthV (a ++ x :: b) k v = Some (a ++ v :: b).
Proof. intros <-. induction a as [|y a IH]; cbn; [reflexivity | now rewrite IH]. Qed.

Lemma nth_error_app_mid {T} (a b : list T) x k : length a = k -> nth_error (a ++ x :: b) k = Some x.
Proof. intros <-. rewrite nth_error_app2, Nat.sub_diag by lia. reflexivity. Qed.

Lemma firstn_S_nth {T} (l : list T) k x : nth_error l k = Some x -> firstn (S k) l = firstn k l ++ [x].
Proof.
  revert k; induction l as [|a l IH]; intros [|k] H; cbn in *; try discriminate.
  - now inversion H.
  - now rewrite (IH _ H).
Qed.

Theorem go_completeIndex call fuel (index : list (nat * nat)) (ds : list nat) :
  exec call fuel (fbody GoFns.completeIndex)
    [("index", VL (map (fun r => VR (Z.of_nat (fst r)) (Z.of_nat (snd r))) index)); ("dims", nats ds)]
  = ORet [VL (map (fun r => VR (Z.of_nat (fst r)) (Z.of_nat (snd r))) (Data.completeIndex index ds))].
Proof.
  change (fun r : nat * nat => VR (Z.of_nat (fst r)) (Z.of_nat (snd r))) with rv.
  unfold GoFns.completeIndex. cbn [fbody]. gxs.
  rewrite zlenV_nonneg. gxs.
  replace (Z.to_nat (zlenV (map nv ds))) with (length ds) by (unfold zlenV; now rewrite Nat2Z.id, map_length).
  set (C := Data.completeIndex index ds).
  set (n := length ds).
  pose (P := fun (k : nat) (e : env) =>
     lookup e "index" = Some (VL (map rv index)) /\ lookup e "dims" = Some (nats ds) /\
     lookup e "cidx" = Some (VL (map rv (firstn k C) ++ repeat (VR 0 0) (n - k)))).
  pose (Q := fun o : outcome => exists e, o = ONormal e /\ lookup e "cidx" = Some (VL (map rv C))).
  match goal with |- context [rangeLoop ?b ?i ?x ?l 0 ?e0] =>
    set (body := b); assert (HQ : Q (rangeLoop body i x l 0 e0)); [apply (rangeLoop_rule P Q body i x l) |]
  end.
  - (* step *)
    intros k e v (Hi & Hd & Hc) Hn e'. left.
    assert (Hk : (k < n)%nat).
    { assert (nth_error (repeat (VR 0 0) n) k <> None) by congruence.
      apply nth_error_Some in H. now rewrite repeat_length in H. }
    destruct (nth_error ds k) as [d|] eqn:Ed; [| apply nth_error_None in Ed; unfold n in Hk; lia].
    assert (HC : nth_error C k = Some (ciElem index k d)).
    { unfold C. rewrite completeIndex_nth, Ed. reflexivity. }
    assert (Hlen : length (map rv (firstn k C)) = k).
    { rewrite map_length, firstn_length. unfold C. rewrite completeIndex_length. fold n. lia. }
    assert (Hrep : repeat (VR 0 0) (n - k) = VR 0 0 :: repeat (VR 0 0) (n - S k)).
    { replace (n - k)%nat with (S (n - S k)) by lia. reflexivity. }
    assert (Hset : forall w, setElem e' "cidx" (EVar "i") (fun _ => Some w) =
              ONormal (upd e' "cidx" (VL (map rv (firstn k C) ++ w :: repeat (VR 0 0) (n - S k))))).
    { intros w. unfold setElem, e'. gxs. rewrite Hc, idxOf_nat, Hrep.
      rewrite (nth_error_app_mid _ _ _ _ Hlen), (setNthV_app _ _ _ _ _ Hlen). reflexivity. }
    assert (Hfin : 
       P (S k) (upd e' "cidx" (VL (map rv (firstn k C) ++ rv (ciElem index k d) :: repeat (VR 0 0) (n - S k))))).
    { unfold P, e'. lk. repeat split; auto.
      rewrite (firstn_S_nth _ _ _ HC), map_app, <- app_assoc. reflexivity. }
    assert (Li : lookup e' "i" = Some (VI (Z.of_nat k))) by (unfold e'; now lk).
    assert (Lx : lookup e' "index" = Some (VL (map rv index))) by (unfold e'; now lk).
    assert (Ld : lookup e' "dims" = Some (nats ds)) by (unfold e'; now lk).
    clearbody e'.
    eexists; split; [left | exact Hfin].
    unfold body. gxs. rewrite ?Li, ?Lx, ?Ld. gxs. rewrite zlenV_map.
    unfold ciElem.
    destruct (Z.of_nat k >=? Z.of_nat (length index)) eqn:Ege; rewrite Z.geb_leb in Ege.
    + apply Z.leb_le in Ege. gxs.
      assert (En : nth_error index k = None) by (apply nth_error_None; lia).
      rewrite En.
      rewrite ?Li, ?Lx, ?Ld. gxs. rewrite idxOf_nat, nth_error_map_nv, Ed. cbn [option_map].
      rewrite Hset. reflexivity.
    + apply Z.leb_gt in Ege. gxs.
      destruct (nth_error index k) as [[f t]|] eqn:En; [| apply nth_error_None in En; lia].
      rewrite !idxOf_nat.
      rewrite (map_nth_error rv _ _ En). unfold rv at 1 2. cbn [fst snd]. gxs.
      rewrite nth_error_map_nv, Ed. cbn [option_map].
      destruct f as [|f]; [destruct t as [|t]|]; cbn [Z.of_nat Z.eqb Nat.eqb andb]; gxs; rewrite Hset; reflexivity.
  - (* end *)
    intros e (Hi & Hd & Hc). exists e. split; [reflexivity|].
    rewrite Hc. rewrite repeat_length, Nat.sub_diag. cbn [repeat]. rewrite app_nil_r.
    rewrite firstn_all2; [reflexivity|]. unfold C. rewrite completeIndex_length. fold n. lia.
  - (* start *)
    unfold P. lk. repeat split; try reflexivity. cbn [firstn map app]. now rewrite Nat.sub_0_r.
  - destruct HQ as (e & -> & Hc). gxs. rewrite Hc. reflexivity.
Qed.

Corollary run_completeIndex fuel (index : list (nat * nat)) (ds : list nat) :
  run ftab fuel GoFns.completeIndex
    [VL (map (fun r => VR (Z.of_nat (fst r)) (Z.of_nat (snd r))) index); nats ds]
  = ORet [VL (map (fun r => VR (Z.of_nat (fst r)) (Z.of_nat (snd r))) (Data.completeIndex index ds))].
Proof. unfold run. cbn [fparams GoFns.completeIndex bindArgs]. apply go_completeIndex. Qed.

(* ---------- getConcatDims ---------- *)
Definition concatDimsOf (dss : list (list nat)) (dim : nat) : option (list nat) :=
  do common <- foldM (fun c ds => do d <- nth_error ds dim; Some (c + d)%nat) dss 0%nat;
  do d0 <- nth_error dss 0;
  setNth d0 dim common.

Lemma foldM_map {T U V} (f : U -> V -> option U) (g : T -> V) (l : list T) (u : U) :
  foldM f (map g l) u = foldM (fun c t => f c (g t)) l u.
Proof. revert u; induction l as [|a l IH]; intros u; cbn; [reflexivity|]. destruct (f u (g a)); cbn; auto. Qed.

Lemma getConcatDims_dims {A} (ts : list (tensor A)) (dim : nat) :
  Data.getConcatDims ts dim = concatDimsOf (map (@dims A) ts) dim.
Proof.
  unfold Data.getConcatDims, concatDimsOf. rewrite foldM_map.
  destruct (foldM _ ts 0%nat) as [c|]; cbn [obind]; [|reflexivity].
  destruct ts as [|t ts]; cbn [nth_error map obind]; [reflexivity|].
  destruct (setNth (dims t) dim c); reflexivity.
Qed.

Lemma setNth_setNthV (l r : list nat) i v :
  setNth l i v = Some r ->
  (exists old, nth_error (map nv l) i = Some old) /\ setNthV (map nv l) i (VI (Z.of_nat v)) = Some (map nv r).
Proof.
  revert i r; induction l as [|a l IH]; intros [|i] r H; cbn in H; try discriminate.
  - inversion H; subst. cbn. split; eauto.
  - destruct (setNth l i v) as [r'|] eqn:E; cbn in H; [|discriminate]. inversion H; subst.
    destruct (IH _ _ E) as [Ho Hs]. cbn. rewrite Hs. split; auto.
Qed.

Lemma setNth_None (l : list nat) i (v : nat) : setNth l i v = None -> nth_error (map nv l) i = None.
Proof.
  revert i; induction l as [|a l IH]; intros [|i] H; cbn in *; try discriminate; auto.
  destruct (setNth l i v) eqn:E; cbn in H; [discriminate|]. auto.
Qed.

Lemma concat_loop (dim : nat) (body : env -> outcome) (Inv : env -> Prop) :
  (forall e k c ds, Inv e -> lookup e "common" = Some (VI (Z.of_nat c)) ->
     exists e1, Inv e1 /\
     body (upd (upd e "_" (VI k)) "t" (nats ds)) =
       match nth_error ds dim with
       | Some d => ONormal e1
       | None => OPanic
       end /\ forall d, nth_error ds dim = Some d -> lookup e1 "common" = Some (VI (Z.of_nat (c + d)))) ->
  forall (dss : list (list nat)) k c e, Inv e -> lookup e "common" = Some (VI (Z.of_nat c)) ->
  match foldM (fun c ds => do d <- nth_error ds dim; Some (c + d)%nat) dss c with
  | Some c' => exists e', rangeLoop body "_" "t" (map nats dss) k e = ONormal e' /\ Inv e' /\
                          lookup e' "common" = Some (VI (Z.of_nat c'))
  | None => rangeLoop body "_" "t" (map nats dss) k e = OPanic
  end.
Proof.
  intros Hb. induction dss as [|ds dss IH]; intros k c e HI Hc.
  - cbn. eauto.
  - cbn [map rangeLoop foldM].
    destruct (Hb e k c ds HI Hc) as (e1 & HI1 & Hbe & Hc1). rewrite Hbe.
    destruct (nth_error ds dim) as [d|]; cbn [obind]; [|reflexivity].
    apply IH; auto.
Qed.

Theorem go_getConcatDims_gen call fuel (dss : list (list nat)) (dim : nat) :
  exec call fuel (fbody GoFns.getConcatDims) [("ts", VL (map nats dss)); ("dim", VI (Z.of_nat dim))]
  = match concatDimsOf dss dim with Some r => ORet [nats r] | None => OPanic end.
Proof.
  unfold GoFns.getConcatDims, concatDimsOf. cbn [fbody]. gxs.
  pose (Inv := fun e : env => lookup e "ts" = Some (VL (map nats dss)) /\ lookup e "dim" = Some (VI (Z.of_nat dim))).
  match goal with |- context [rangeLoop ?b _ _ _ _ ?e0] =>
    assert (Hspec : forall e k c ds, Inv e -> lookup e "common" = Some (VI (Z.of_nat c)) ->
     exists e1, Inv e1 /\
     b (upd (upd e "_" (VI k)) "t" (nats ds)) =
       match nth_error ds dim with
       | Some d => ONormal e1
       | None => OPanic
       end /\ forall d, nth_error ds dim = Some d -> lookup e1 "common" = Some (VI (Z.of_nat (c + d))));
    [| pose proof (concat_loop dim b Inv Hspec dss 0 0%nat e0) as HL ]
  end.
  - intros e k c ds [H1 H2] Hc.
    destruct (nth_error ds dim) as [d|] eqn:Ed.
    + eexists. split; [|split; [gxs; rewrite Hc, H2; gxs; rewrite idxOf_nat, nth_error_map_nv, Ed; cbn [option_map]; gxs; reflexivity|]].
      * unfold Inv. lk. auto.
      * intros d' [= <-]. lk. f_equal. f_equal. lia.
    + exists e. split; [split; auto|]. split; [|discriminate].
      gxs. rewrite Hc, H2. gxs. rewrite idxOf_nat, nth_error_map_nv, Ed. reflexivity.
  - specialize (HL (conj eq_refl eq_refl) eq_refl).
    destruct (foldM _ dss 0%nat) as [c|]; cbn [obind].
    2:{ rewrite HL. reflexivity. }
    destruct HL as (e' & -> & [H1 H2] & Hc). gxs. rewrite H1. gxs.
    change (idxOf 0) with (Some 0%nat). cbn [idxOf].
    destruct dss as [|d0 dss]; cbn [map nth_error obind]; [reflexivity|].
    gxs. mkcopy.
    rewrite Hc. unfold setElem. gxs. rewrite H2. gxs. rewrite idxOf_nat.
    destruct (setNth d0 dim c) as [r|] eqn:Es.
    + destruct (setNth_setNthV _ _ _ _ Es) as [[old Ho] Hs]. rewrite Ho, Hs. gxs. reflexivity.
    + rewrite (setNth_None _ _ _ Es). reflexivity.
Qed.

Theorem go_getConcatDims call fuel (dss : list (list nat)) (dim : nat) (r : list nat) :
  concatDimsOf dss dim = Some r ->
  exec call fuel (fbody GoFns.getConcatDims) [("ts", VL (map nats dss)); ("dim", VI (Z.of_nat dim))]
  = ORet [nats r].
Proof. intros H. rewrite go_getConcatDims_gen, H. reflexivity. Qed.

Theorem go_getConcatDims_tensors {A} call fuel (ts : list (tensor A)) (dim : nat) (r : list nat) :
  Data.getConcatDims ts dim = Some r ->
  exec call fuel (fbody GoFns.getConcatDims)
    [("ts", VL (map (fun t => nats (dims t)) ts)); ("dim", VI (Z.of_nat dim))]
  = ORet [nats r].
Proof.
  intros H. rewrite getConcatDims_dims in H. rewrite <- (map_map (@dims A) nats). now apply go_getConcatDims.
Qed.

Theorem go_getConcatDims_panics call fuel (dss : list (list nat)) (dim : nat) :
  concatDimsOf dss dim = None ->
  exec call fuel (fbody GoFns.getConcatDims) [("ts", VL (map nats dss)); ("dim", VI (Z.of_nat dim))]
  = OPanic.
Proof. intros H. rewrite go_getConcatDims_gen, H. reflexivity. Qed.

Corollary run_getConcatDims fuel (dss : list (list nat)) (dim : nat) (r : list nat) :
  concatDimsOf dss dim = Some r ->
  run ftab fuel GoFns.getConcatDims [VL (map nats dss); VI (Z.of_nat dim)] = ORet [nats r].
Proof. intros H. unfold run. cbn [fparams GoFns.getConcatDims bindArgs]. now apply go_getConcatDims. Qed.

Corollary run_getConcatDims_tensors {A} fuel (ts : list (tensor A)) (dim : nat) (r : list nat) :
  Data.getConcatDims ts dim = Some r ->
  run ftab fuel GoFns.getConcatDims [VL (map (fun t => nats (dims t)) ts); VI (Z.of_nat dim)] = ORet [nats r].
Proof. intros H. unfold run. cbn [fparams GoFns.getConcatDims bindArgs]. now apply go_getConcatDims_tensors. Qed.

(* ---------- targetBroadcastDims ---------- *)
Lemma tbdRev_comm r1 r2 : tbdRev r1 r2 = tbdRev r2 r1.
Proof.
  revert r2; induction r1 as [|a r1 IH]; intros [|b r2]; cbn; auto.
  now rewrite IH, Nat.max_comm.
Qed.

Lemma tbdRev_length r1 r2 : (length r1 <= length r2)%nat -> length (tbdRev r1 r2) = length r2.
Proof.
  revert r2; induction r1 as [|a r1 IH]; intros [|b r2] H; cbn in *; auto; try lia.
  rewrite IH; lia.
Qed.

Lemma tbdRev_nth r1 r2 k : (length r1 <= length r2)%nat ->
  nth k (tbdRev r1 r2) 0%nat =
  if (k <? length r1)%nat then Nat.max (nth k r1 0%nat) (nth k r2 0%nat) else nth k r2 0%nat.
Proof.
  revert r2 k; induction r1 as [|a r1 IH]; intros [|b r2] k H; cbn [length] in H; try lia.
  - reflexivity.
  - reflexivity.
  - destruct k as [|k]; cbn [tbdRev nth length]; [reflexivity|].
    rewrite IH by lia. reflexivity.
Qed.

Lemma tbd_length sm lg : (length sm <= length lg)%nat -> length (Data.targetBroadcastDims sm lg) = length lg.
Proof.
  intros H. unfold Data.targetBroadcastDims. rewrite rev_length, tbdRev_length; rewrite !rev_length; auto.
Qed.

Lemma tbd_nth sm lg j : (length sm <= length lg)%nat -> (j < length lg)%nat ->
  nth j (Data.targetBroadcastDims sm lg) 0%nat =
  if (j <? length lg - length sm)%nat then nth j lg 0%nat
  else Nat.max (nth (j - (length lg - length sm)) sm 0%nat) (nth j lg 0%nat).
Proof.
  intros H Hj. unfold Data.targetBroadcastDims.
  assert (Hl : length (tbdRev (rev sm) (rev lg)) = length lg) by (rewrite tbdRev_length; rewrite !rev_length; auto).
  rewrite rev_nth by lia. rewrite Hl.
  rewrite tbdRev_nth by (rewrite !rev_length; auto). rewrite rev_length.
  rewrite (rev_nth lg) by lia.
  replace (length lg - S (length lg - S j))%nat with j by lia.
  destruct (j <? length lg - length sm)%nat eqn:E1.
  - apply Nat.ltb_lt in E1. replace (length lg - S j <? length sm)%nat with false by (symmetry; apply Nat.ltb_ge; lia).
    reflexivity.
  - apply Nat.ltb_ge in E1. replace (length lg - S j <? length sm)%nat with true by (symmetry; apply Nat.ltb_lt; lia).
    rewrite rev_nth by lia. f_equal. f_equal. lia.
Qed.

Lemma tbd_swap d1 d2 : Data.targetBroadcastDims d1 d2 = Data.targetBroadcastDims d2 d1.
Proof. unfold Data.targetBroadcastDims. now rewrite tbdRev_comm. Qed.

Lemma skipn_nth_cons (l : list nat) k : (k < length l)%nat -> skipn k l = nth k l 0%nat :: skipn (S k) l.
Proof.
  revert k; induction l as [|a l IH]; intros [|k] H; cbn [length] in H; try lia; [reflexivity|].
  cbn [skipn nth]. apply IH. lia.
Qed.

Lemma repeat_snoc {T} (x : T) n : repeat x (S n) = repeat x n ++ [x].
Proof. induction n as [|n IH]; [reflexivity|]. cbn [repeat app] in *. now rewrite <- IH. Qed.

Theorem go_targetBroadcastDims call fuel (d1 d2 : list nat) :
  (S (Nat.max (length d1) (length d2)) <= fuel)%nat ->
  exec call fuel (fbody GoFns.targetBroadcastDims) [("dims1", nats d1); ("dims2", nats d2)]
  = ORet [nats (Data.targetBroadcastDims d1 d2)].
Proof.
  intros Hf. unfold GoFns.targetBroadcastDims. cbn [fbody]. gxs. rewrite !zlenV_map.
  match goal with |- context [exec call fuel ?R] => set (rest := R) end.
  assert (Hrest : forall sm lg, (length sm <= length lg)%nat -> (length lg < fuel)%nat ->
     exec call fuel rest [("dims1", nats d1); ("dims2", nats d2); ("dims", VL []); ("small", nats sm); ("large", nats lg)]
     = ORet [nats (Data.targetBroadcastDims sm lg)]).
  { clear Hf. intros sm lg Hle Hfl. unfold rest. clear rest. gxs. rewrite !zlenV_map.
    replace (0 <=? Z.of_nat (length lg)) with true by (symmetry; apply Z.leb_le; lia).
    rewrite Nat2Z.id. gxs.
    set (T := Data.targetBroadcastDims sm lg).
    set (m := (length lg - length sm)%nat).
    assert (HT : length T = length lg) by (apply tbd_length; auto).
    pose (P1 := fun e : env => exists i j : nat, j = (i + m)%nat /\ (j <= length lg)%nat /\
        lookup e "i" = Some (VI (Z.of_nat i)) /\ lookup e "j" = Some (VI (Z.of_nat j)) /\
        lookup e "small" = Some (nats sm) /\ lookup e "large" = Some (nats lg) /\
        lookup e "dims" = Some (VL (repeat (VI 0) j ++ map nv (skipn j T)))).
    pose (Q1 := fun o : outcome => exists e, o = ONormal e /\
        lookup e "j" = Some (VI (Z.of_nat m)) /\ lookup e "large" = Some (nats lg) /\
        lookup e "dims" = Some (VL (repeat (VI 0) m ++ map nv (skipn m T)))).
    pose (m1 := fun e : env => match lookup e "i" with Some (VI z) => Z.to_nat z | _ => 0%nat end).
    match goal with |- context [forLoop fuel ?c ?b ?p ?e0] =>
      assert (H1 : Q1 (forLoop fuel c b p e0)); [apply (forLoop_rule P1 Q1 m1 c b p) |]
    end.
    - intros e (i & j & Hj & Hjl & Hi & Hjj & Hs & Hl & Hd).
      destruct i as [|i].
      + left. split; [gxs; rewrite Hi; reflexivity|].
        exists e. cbn [Nat.add] in Hj. subst j. auto.
      + right. split; [gxs; rewrite Hi; gxs; f_equal; f_equal; rewrite Z.gtb_ltb; apply Z.ltb_lt; lia|].
        right. right.
        assert (Ej : exists j', j' = (i + m)%nat /\ j = S j') by (eexists; split; [reflexivity | lia]).
        destruct Ej as (j' & Ej' & ->). clear Hj.
        set (e1 := upd (upd (upd e "i" (VI (Z.of_nat i))) "j" (VI (Z.of_nat j'))) "dims"
                     (VL (repeat (VI 0) j' ++ map nv (skipn j' T)))).
        exists e1, e1. split; [left | split; [reflexivity | split]].
        * gxs. rewrite Hi. gxs. replace (Z.of_nat (S i) - 1) with (Z.of_nat i) by lia.
          rewrite Hjj. gxs. replace (Z.of_nat (S j') - 1) with (Z.of_nat j') by lia.
          rewrite Hs, Hl. gxs. rewrite !idxOf_nat, !nth_error_map_nv.
          rewrite (nth_error_nth' sm 0%nat) by (unfold m in *; lia).
          rewrite (nth_error_nth' lg 0%nat) by lia.
          cbn [option_map]. gxs.
          assert (Hx : nth j' T 0%nat = Nat.max (nth i sm 0%nat) (nth j' lg 0%nat)).
          { unfold T. rewrite tbd_nth by lia. fold m.
            replace (j' <? m)%nat with false by (symmetry; apply Nat.ltb_ge; lia).
            replace (j' - m)%nat with i by (lia). reflexivity. }
          assert (Hset : forall w, w = nv (nth j' T 0%nat) ->
             setElem (upd (upd e "i" (VI (Z.of_nat i))) "j" (VI (Z.of_nat j'))) "dims" (EVar "j") (fun _ => Some w) = ONormal e1).
          { intros w ->. unfold setElem. gxs. rewrite Hd, idxOf_nat.
            rewrite repeat_snoc, <- app_assoc. cbn [app].
            rewrite (nth_error_app_mid _ _ _ _ (repeat_length _ _)), (setNthV_app _ _ _ _ _ (repeat_length _ _)).
            unfold e1. rewrite (skipn_nth_cons T j') by lia. reflexivity. }
          destruct (Z.of_nat (nth i sm 0%nat) >? Z.of_nat (nth j' lg 0%nat)) eqn:Eg; rewrite Z.gtb_ltb in Eg;
            [apply Z.ltb_lt in Eg | apply Z.ltb_ge in Eg]; gxs; apply Hset; rewrite Hx; f_equal; f_equal; lia.
        * exists i, j'. unfold e1. lk. repeat split; auto. lia.
        * unfold m1, e1. lk. rewrite Hi, !Nat2Z.id. lia.
    - exists (length sm), (length lg). lk. repeat split; auto; [unfold m; lia|].
      rewrite skipn_all2 by lia. cbn [map]. now rewrite app_nil_r.
    - unfold m1. cbn [lookup String.eqb Ascii.eqb Bool.eqb]. rewrite Nat2Z.id. lia.
    - destruct H1 as (e1 & -> & Hj1 & Hl1 & Hd1). clear P1 Q1 m1. gxs.
      pose (P2 := fun e : env => exists j : nat, (j <= m)%nat /\
        lookup e "j" = Some (VI (Z.of_nat j)) /\ lookup e "large" = Some (nats lg) /\
        lookup e "dims" = Some (VL (repeat (VI 0) j ++ map nv (skipn j T)))).
      pose (Q2 := fun o : outcome => exists e, o = ONormal e /\ lookup e "dims" = Some (VL (map nv T))).
      pose (m2 := fun e : env => match lookup e "j" with Some (VI z) => Z.to_nat z | _ => 0%nat end).
      match goal with |- context [forLoop fuel ?c ?b ?p ?e0] =>
        assert (H2 : Q2 (forLoop fuel c b p e0)); [apply (forLoop_rule P2 Q2 m2 c b p) |]
      end.
      + intros e (j & Hjm & Hjj & Hl & Hd).
        destruct j as [|j'].
        * left. split; [gxs; rewrite Hjj; reflexivity|].
          exists e. split; [reflexivity|]. rewrite Hd. reflexivity.
        * right. split; [gxs; rewrite Hjj; gxs; f_equal; f_equal; rewrite Z.gtb_ltb; apply Z.ltb_lt; lia|].
          right. right.
          set (e2 := upd (upd e "j" (VI (Z.of_nat j'))) "dims" (VL (repeat (VI 0) j' ++ map nv (skipn j' T)))).
          exists e2, e2. split; [left | split; [reflexivity | split]].
          -- gxs. rewrite Hjj. gxs. replace (Z.of_nat (S j') - 1) with (Z.of_nat j') by lia.
             rewrite Hl. gxs. rewrite idxOf_nat, nth_error_map_nv.
             rewrite (nth_error_nth' lg 0%nat) by (unfold m in *; lia).
             cbn [option_map].
             assert (Hx : nth j' T 0%nat = nth j' lg 0%nat).
             { unfold T. rewrite tbd_nth by (unfold m in *; lia). fold m.
               replace (j' <? m)%nat with true by (symmetry; apply Nat.ltb_lt; lia). reflexivity. }
             unfold setElem. gxs. rewrite Hd, idxOf_nat.
             rewrite repeat_snoc, <- app_assoc. cbn [app].
             rewrite (nth_error_app_mid _ _ _ _ (repeat_length _ _)), (setNthV_app _ _ _ _ _ (repeat_length _ _)).
             unfold e2. rewrite (skipn_nth_cons T j') by (unfold m in *; lia). rewrite Hx. reflexivity.
          -- exists j'. unfold e2. lk. repeat split; auto. lia.
          -- unfold m2, e2. lk. rewrite Hjj, !Nat2Z.id. lia.
      + exists m. repeat split; auto.
      + unfold m2. rewrite Hj1, Nat2Z.id. unfold m. lia.
      + destruct H2 as (e2 & -> & Hd2). gxs. rewrite Hd2. reflexivity. }
  destruct (Z.of_nat (length d1) >? Z.of_nat (length d2)) eqn:Eg; rewrite Z.gtb_ltb in Eg.
  - apply Z.ltb_lt in Eg. rewrite Hrest by lia. now rewrite tbd_swap.
  - apply Z.ltb_ge in Eg. rewrite Hrest by lia. reflexivity.
Qed.

Corollary run_targetBroadcastDims fuel (d1 d2 : list nat) :
  (S (Nat.max (length d1) (length d2)) <= fuel)%nat ->
  run ftab fuel GoFns.targetBroadcastDims [nats d1; nats d2] = ORet [nats (Data.targetBroadcastDims d1 d2)].
Proof. intros H. unfold run. cbn [fparams GoFns.targetBroadcastDims bindArgs]. now apply go_targetBroadcastDims. Qed.

(* ---------- concrete runs ---------- *)
Example ex_dotDims : run ftab 5 GoFns.dotDims [nats [2;3;4]%nat] = ORet [nats [2;3]%nat].
Proof. vm_compute; reflexivity. Qed.
Example ex_matMulDims : run ftab 5 GoFns.matMulDims [nats [5;2;3]%nat; nats [5;3;4]%nat] = ORet [nats [5;2;4]%nat].
Proof. vm_compute; reflexivity. Qed.
Example ex_completeIndex :
  run ftab 5 GoFns.completeIndex [nranges [(1,2);(0,0)]%nat; nats [3;4;5]%nat] = ORet [nranges [(1,2);(0,4);(0,5)]%nat].
Proof. vm_compute; reflexivity. Qed.
Example ex_getConcatDims :
  run ftab 5 GoFns.getConcatDims [VL (map nats [[2;3;4];[2;5;4];[2;1;4]]%nat); VI 1] = ORet [nats [2;9;4]%nat].
Proof. vm_compute; reflexivity. Qed.
Example ex_getConcatDims_empty : run ftab 5 GoFns.getConcatDims [VL []; VI 0] = OPanic.
Proof. vm_compute; reflexivity. Qed.
Example ex_targetBroadcastDims :
  run ftab 4 GoFns.targetBroadcastDims [nats [7;2;1;3]%nat; nats [4;1]%nat] = ORet [nats [7;2;4;3]%nat].
Proof. vm_compute; reflexivity. Qed.
Example ex_targetBroadcastDims_swapped :
  run ftab 4 GoFns.targetBroadcastDims [nats [4;1]%nat; nats [7;2;1;3]%nat] = ORet [nats [7;2;4;3]%nat].
Proof. vm_compute; reflexivity. Qed.

(* the preconditions are needed: outside them the Go code panics (slice bound td-1 / td-2 negative) while the
   nat-valued model truncates the subtraction *)
Example ex_dotDims_empty : run ftab 5 GoFns.dotDims [nats []] = OPanic /\ Data.dotDims [] = [].
Proof. split; vm_compute; reflexivity. Qed.
Example ex_matMulDims_1d :
  run ftab 5 GoFns.matMulDims [nats [3]%nat; nats [4]%nat] = OPanic /\ Data.matMulDims [3]%nat [4]%nat = Some [3;4]%nat.
Proof. split; vm_compute; reflexivity. Qed.

Print Assumptions go_dotDims.
Print Assumptions run_dotDims.
Print Assumptions go_matMulDims.
Print Assumptions run_matMulDims.
Print Assumptions go_completeIndex.
Print Assumptions run_completeIndex.
Print Assumptions getConcatDims_dims.
Print Assumptions go_getConcatDims_gen.
Print Assumptions go_getConcatDims.
Print Assumptions go_getConcatDims_tensors.
Print Assumptions go_getConcatDims_panics.
Print Assumptions run_getConcatDims.
Print Assumptions run_getConcatDims_tensors.
Print Assumptions go_targetBroadcastDims.
Print Assumptions run_targetBroadcastDims.
