(* ChainP.v — the translator tie for the composition layer.
   Model/Chains.v is GENERATED from /repo's Go sources on every run (harness/chainx): the
   straight-line chains of Tensor method calls of the component entry points and of the back-edge
   closures of gradtrack/gradients.go.  The theorems below interpret each generated chain with the
   model's own operations (Model/ChainIR.v) and state that the interpretation IS the model's
   definition of that component / rule — for every heap, every argument, every outcome (Ok / Err /
   Panic).  They are re-checked against what the code says now on every run; an edit of the Go
   source that is not semantically the same chain (another method, another constant, another
   operand or order, a dropped error check) changes Chains.v and the theorem about it no longer
   checks.  Closed under the global context (no scalar laws are used). *)
From Coq Require Import String List ZArith Bool Arith.
From Qeep Require Import Model.Scalar Model.Nd Model.Fill Model.Data Model.Valid Model.Api Model.Grad
  Model.Components Model.ChainIR.
From Qeep Require Model.Chains.
Import ListNotations.
Local Open Scope string_scope.

(* ===================================================================================== *)
(* 1. components: chains of tracked methods on the heap                                   *)
(* ===================================================================================== *)
Section Comp.
Context {A : Type} {SA : Scalar A}.
Notation heap := (@heap A).
Notation hres := (@hres A).

Definition asHres (r : heap * res (option nat)) : hres :=
  match r with
  | (h, Ok (Some id)) => (h, Ok id)
  | (h, Ok None) => (h, Panic)
  | (h, Err) => (h, Err)
  | (h, Panic) => (h, Panic)
  end.

Definition userfun := string -> option (heap -> list (aval nat) -> option nat -> hres).

Definition hooksH (rs : @hres_resolver A) (userf : userfun) (name : option nat)
  (guard : heap -> string -> option bool) : hooks nat heap :=
  mkHooks (call_h rs userf name) guard (fun _ _ => None) (fun _ _ _ => None).

Definition rsNone : @hres_resolver A := mkHR (fun _ _ => None) (fun _ _ => None).
Definition noUser : userfun := fun _ => None.
Definition noGuard : heap -> string -> option bool := fun _ _ => None.

Ltac chain_go :=
  repeat (cbn;
    match goal with
    | |- hbind ?X _ = _ => destruct X as [? [?| |]]
    | |- (_, _) = _ => fail 1
    | |- ?X = asHres _ => destruct X as [? [?| |]]
    end); cbn; try reflexivity.

(* ---- activations (component/layers/activations/*.go: forward) ---- *)
Theorem relu_chain h x nm :
  relu_forward h [Some x] nm =
  atomically h (asHres (runFun (hooksH rsNone noUser nm noGuard) Chains.relu_forward h [("x", x)])).
Proof. unfold relu_forward, oneInput. f_equal. unfold cst. chain_go. Qed.

Theorem sigmoid_chain h x nm :
  sigmoid_forward h [Some x] nm =
  atomically h (asHres (runFun (hooksH rsNone noUser nm noGuard) Chains.sigmoid_forward h [("x", x)])).
Proof. unfold sigmoid_forward, oneInput. f_equal. unfold cst. chain_go. Qed.

Theorem tanh_chain h x nm :
  tanh_forward h [Some x] nm = asHres (runFun (hooksH rsNone noUser nm noGuard) Chains.tanh_forward h [("x", x)]).
Proof. unfold tanh_forward, oneInput. unfold cst. chain_go. Qed.

(* c.m is the configured slope *)
Definition rsLeaky (m : A) : @hres_resolver A :=
  mkHR (fun _ t => if String.eqb t "c.m" then Some m else None) (fun _ _ => None).

Theorem leaky_chain h m x nm :
  leaky_forward h m [Some x] nm =
  atomically h (asHres (runFun (hooksH (rsLeaky m) noUser nm noGuard) Chains.leaky_forward h [("x", x)])).
Proof. unfold leaky_forward, oneInput. f_equal. unfold cst. chain_go. Qed.

(* c.dim is the configured dimension; toValidInputs has accepted the rank *)
Definition rsSoftmax (dim : nat) : @hres_resolver A :=
  mkHR (fun _ _ => None) (fun _ t => if String.eqb t "c.dim" then Some (Z.of_nat dim) else None).

Theorem softmax_chain h dim x nm : (rankOf h x <=? dim)%nat = false ->
  softmax_forward h dim [Some x] nm =
  atomically h (asHres (runFun (hooksH (rsSoftmax dim) noUser nm noGuard) Chains.softmax_forward h [("x", x)])).
Proof. intros E. unfold softmax_forward, oneInput. rewrite E. f_equal. unfold cst. chain_go. Qed.

(* ---- FC (component/layers/fc.go: forward); c.Weight / c.Bias are the current cell contents ---- *)
Theorem fc_chain h w b x nm : (rankOf h x =? 2)%nat = true ->
  fc_forward h w b [Some x] nm =
  atomically h (asHres (runFun (hooksH rsNone noUser nm noGuard) Chains.fc_forward h
                          [("c.Weight", w); ("c.Bias", b); ("x", x)])).
Proof. intros E. unfold fc_forward, oneInput. rewrite E. cbn [negb]. f_equal. unfold cst. chain_go. Qed.

(* ---- losses ---- *)
Definition rsClip (l u : A) : @hres_resolver A :=
  mkHR (fun _ t => if String.eqb t "l" then Some l else if String.eqb t "u" then Some u else None) (fun _ _ => None).

Theorem clip_chain h x l u :
  clip h x l u = asHres (runFun (hooksH (rsClip l u) noUser None noGuard) Chains.clip h [("x", x)]).
Proof. unfold clip. unfold cst. chain_go. Qed.

Section Loss.
Variables (eps ome : A).

(* the scalar arguments the loss functions pass to clip: literals, epsilon, 1 - epsilon *)
Definition lossScalar (a : aval nat) : option A :=
  match a with
  | VZ z => Some (sconst z 0)
  | VD m e => Some (sconst m e)
  | VX t => if String.eqb t "epsilon" then Some eps else if String.eqb t "1 - epsilon" then Some ome else None
  | VT _ => None
  end.

Definition clipUser : userfun := fun f =>
  if String.eqb f "clip" then
    Some (fun h args _ =>
      match args with
      | [VT x; l; u] =>
          match lossScalar l, lossScalar u with
          | Some lv, Some uv => asHres (runFun (hooksH (rsClip lv uv) noUser None noGuard) Chains.clip h [("x", x)])
          | _, _ => (h, Panic)
          end
      | _ => (h, Panic)
      end)
  else None.

Definition lossGuard (ok : bool) : heap -> string -> option bool :=
  fun _ t => if String.eqb t "c.validateInputs(yp, yt)" then Some ok else None.

Theorem mse_chain h p t nm :
  mse_compute h (Some p) (Some t) nm =
  atomically h (asHres (runFun (hooksH rsNone noUser nm
                          (lossGuard (match lossArgs1 h (Some p) (Some t) with Some _ => true | None => false end)))
                        Chains.mse_compute h [("yp", p); ("yt", t)])).
Proof.
  unfold mse_compute. unfold lossArgs1.
  destruct ((rankOf h p =? 1)%nat && (rankOf h t =? 1)%nat && (dim0Of h p =? dim0Of h t)%nat); [|reflexivity].
  f_equal. unfold cst. chain_go.
Qed.

Theorem bce_chain h p t nm :
  bce_compute eps ome h (Some p) (Some t) nm =
  atomically h (asHres (runFun (hooksH rsNone clipUser nm
                          (lossGuard (match lossArgs1 h (Some p) (Some t) with Some _ => true | None => false end)))
                        Chains.bce_compute h [("yp", p); ("yt", t)])).
Proof.
  unfold bce_compute. unfold lossArgs1.
  destruct ((rankOf h p =? 1)%nat && (rankOf h t =? 1)%nat && (dim0Of h p =? dim0Of h t)%nat); [|reflexivity].
  f_equal. rewrite !clip_chain. unfold cst.
  repeat (cbn;
    match goal with
    | |- hbind ?X _ = _ => rewrite ?clip_chain; destruct X as [? [?| |]]
    | |- (_, _) = _ => fail 1
    | |- ?X = asHres _ => destruct X as [? [?| |]]
    end); cbn; try reflexivity.
Qed.

Definition ceOk (h : heap) (p t : nat) : bool :=
  (rankOf h p =? 2)%nat && (rankOf h t =? 2)%nat && (dim0Of h p =? dim0Of h t)%nat && (dim1Of h p =? dim1Of h t)%nat.

Theorem ce_chain h p t nm :
  ce_compute eps ome h (Some p) (Some t) nm =
  atomically h (asHres (runFun (hooksH rsNone clipUser nm (lossGuard (ceOk h p t)))
                        Chains.ce_compute h [("yp", p); ("yt", t)])).
Proof.
  unfold ce_compute, ceOk.
  destruct ((rankOf h p =? 2)%nat && (rankOf h t =? 2)%nat && (dim0Of h p =? dim0Of h t)%nat && (dim1Of h p =? dim1Of h t)%nat);
    [|reflexivity].
  f_equal. rewrite !clip_chain. unfold cst.
  repeat (cbn;
    match goal with
    | |- hbind ?X _ = _ => rewrite ?clip_chain; destruct X as [? [?| |]]
    | |- (_, _) = _ => fail 1
    | |- ?X = asHres _ => destruct X as [? [?| |]]
    end); cbn; try reflexivity.
Qed.

End Loss.
End Comp.

(* ===================================================================================== *)
(* 2. value level: SGD.Update and the back-edge closures of gradients.go                  *)
(* ===================================================================================== *)
Section Val.
Context {A : Type} {SA : Scalar A}.
Notation T := (tensor A).
Notation heap := (@heap A).

Definition vuserfun := string -> option (list (aval T) -> res T).

Definition hooksV (rs : @vresolver A) (userf : vuserfun) (bind : string -> option (option (list T)))
  (cond : lets -> string -> option bool) : hooks T unit :=
  mkHooks (call_v rs userf) (fun _ _ => None) (fun _ t => bind t) (fun _ ls t => cond ls t).

Definition asRes (r : unit * res (option T)) : res T :=
  match r with
  | (_, Ok (Some v)) => Ok v
  | (_, Ok None) => Panic
  | (_, Err) => Err
  | (_, Panic) => Panic
  end.

Definition noBind : string -> option (option (list T)) := fun _ => None.
Definition noCond : lets -> string -> option bool := fun _ _ => None.
Definition noVUser : vuserfun := fun _ => None.

Definition vrNone : @vresolver A :=
  mkVR (fun _ _ => None) (fun _ _ => None) (fun _ _ => None) (fun _ _ => None) (fun _ => None).

(* ---- SGD.Update (component/optimizers/sgd.go): toValidInputs yields the tensor and its gradient;
        the new tensor is computed from the (spent) gradient tensor, hence spent and untracked ---- *)
Definition rsSgd (lr : A) : @vresolver A :=
  mkVR (fun _ t => if String.eqb t "c.learningRate" then Some lr else None)
       (fun _ _ => None) (fun _ _ => None) (fun _ _ => None) (fun _ => None).

Definition sgdBind (h : heap) (w : nat) : string -> option (option (list T)) := fun t =>
  if String.eqb t "c.toValidInputs(wptr)" then
    match valOf h w, gradOf h w with
    | Some wv, Some g => Some (Some [wv; g])
    | Some _, None => Some None
    | None, _ => None
    end
  else None.

Theorem sgd_chain h lr w nm :
  sgd_update h lr (Some w) nm =
  match valOf h w with
  | None => (h, Panic)
  | Some _ =>
      match asRes (runFun (hooksV (rsSgd lr) noVUser (sgdBind h w) noCond) Chains.sgd_update tt []) with
      | Ok v => let '(h', id) := alloc h v (false, true, []) nm in (h', Ok id)
      | Err => (h, Err)
      | Panic => (h, Panic)
      end
  end.
Proof.
  unfold sgd_update. destruct (valOf h w) as [wv|] eqn:Ew; [|reflexivity].
  destruct (gradOf h w) as [g|] eqn:Eg.
  - cbn. unfold sgdBind. cbn. rewrite Ew, Eg. cbn.
    destruct (v_unary (UScale lr) g) as [d| |]; cbn; [|reflexivity|reflexivity].
    destruct (v_arith BiSub wv d) as [v| |]; reflexivity.
  - cbn. unfold sgdBind. cbn. rewrite Ew, Eg. reflexivity.
Qed.


(* ---- back-edge closures of tensor/internal/gradtrack/gradients.go ----
   Each theorem: the model's rule ([eval_rule], which first looks up the captured tensors' values and
   the result's gradient) IS the generated closure chain interpreted on those values.  The resolver
   maps the captured non-tensor variables (a, dim, index) and the few derived expressions to the
   quantities the model uses; anything else would be [Panic]. *)

(* y.Gradient() of the captured result tensor *)
Definition gradY (gy : T) : string -> option T := fun v => if String.eqb v "y" then Some gy else None.
Definition lk {X} (l : list (string * X)) : lets -> string -> option X := fun _ t => lookupS l t.

Definition vrOf (gy : T) (sc : lets -> string -> option A) (it : lets -> string -> option Z)
  (its : lets -> string -> option (list Z)) (rg : lets -> string -> option (list zrange)) : @vresolver A :=
  mkVR sc it its rg (gradY gy).
Definition vrG (gy : T) : @vresolver A := vrOf gy (lk []) (lk []) (lk []) (lk []).

Definition vrRB (x : T) (dim : Z) : @vresolver A :=
  mkVR (lk []) (lk [("dim", dim)]) (lk [("x.Shape()", zdims x)]) (lk []) (fun _ => None).

(* gradient_helpers.go: toZeros, toOnes, reducerBroadcasted(y, x, dim) *)
Definition helperUser (it : lets -> string -> option Z) : vuserfun := fun f =>
  if String.eqb f "toZeros" then
    Some (fun args => match args with
                      | [VT t] => asRes (runFun (hooksV vrNone noVUser noBind noCond) Chains.g_toZeros tt [("t", t)])
                      | _ => Panic end)
  else if String.eqb f "toOnes" then
    Some (fun args => match args with
                      | [VT t] => asRes (runFun (hooksV vrNone noVUser noBind noCond) Chains.g_toOnes tt [("t", t)])
                      | _ => Panic end)
  else if String.eqb f "reducerBroadcasted" then
    Some (fun args => match args with
                      | [VT y; VT x; VX d] =>
                          match it [] d with
                          | Some dim => asRes (runFun (hooksV (vrRB x dim) noVUser noBind noCond)
                                                 Chains.g_reducerBroadcasted tt [("y", y); ("x", x)])
                          | None => Panic
                          end
                      | _ => Panic end)
  else None.
Definition hu0 : vuserfun := helperUser (lk []).

Ltac vgo :=
  repeat (cbn;
    match goal with
    | |- res_bind ?X _ = _ => destruct X as [?| |]
    | |- Ok _ = _ => fail 1
    | |- Err = _ => fail 1
    | |- Panic = _ => fail 1
    | |- ?X = asRes _ => destruct X as [?| |]
    end); cbn; try reflexivity.

Ltac open_rule :=
  unfold eval_rule;
  repeat match goal with
         | |- res_bind (gy_of ?h ?y) _ = res_bind (gy_of ?h ?y) _ => destruct (gy_of h y) as [?| |]; [|reflexivity|reflexivity]; cbn [res_bind]
         | |- res_bind (val_of ?h ?y) _ = res_bind (val_of ?h ?y) _ => destruct (val_of h y) as [?| |]; [|reflexivity|reflexivity]; cbn [res_bind]
         end.

Theorem toZeros_chain (t : T) :
  toZeros t = asRes (runFun (hooksV vrNone noVUser noBind noCond) Chains.g_toZeros tt [("t", t)]).
Proof. unfold toZeros. vgo. Qed.
Theorem toOnes_chain (t : T) :
  toOnes t = asRes (runFun (hooksV vrNone noVUser noBind noCond) Chains.g_toOnes tt [("t", t)]).
Proof. unfold toOnes. vgo. Qed.
Theorem reducerBroadcasted_chain (y x : T) dim :
  reducerBroadcasted y x dim =
  asRes (runFun (hooksV (vrRB x dim) noVUser noBind noCond) Chains.g_reducerBroadcasted tt [("y", y); ("x", x)]).
Proof. unfold reducerBroadcasted. vgo. Qed.

Section Rule.
Variable rd : bred.
Variable h : heap.

Theorem back_Slice_0_chain y x index :
  eval_rule rd h (RSliceX y x index) =
  dor gy <- gy_of h y; dor xv <- val_of h x;
  asRes (runFun (hooksV (vrOf gy (lk []) (lk []) (lk []) (lk [("index", index)])) hu0 noBind noCond)
           Chains.back_Slice_0 tt [("x", xv)]).
Proof. open_rule. rewrite toZeros_chain. vgo. Qed.

Theorem back_Patch_0_chain y p index :
  eval_rule rd h (RPatchX y p index) =
  dor gy <- gy_of h y; dor pv <- val_of h p;
  asRes (runFun (hooksV (vrOf gy (lk []) (lk []) (lk []) (lk [("index", index)])) hu0 noBind noCond)
           Chains.back_Patch_0 tt [("p", pv)]).
Proof. open_rule. rewrite toZeros_chain. vgo. Qed.

Theorem back_Patch_1_chain y p index :
  eval_rule rd h (RPatchP y p index) =
  dor gy <- gy_of h y; dor pv <- val_of h p;
  asRes (runFun (hooksV (vrOf gy (lk []) (lk []) (lk [])
                          (lk [("patchedRegion(index, p.Shape())", patchedRegion index (zdims pv))])) hu0 noBind noCond)
           Chains.back_Patch_1 tt [("p", pv)]).
Proof. open_rule. vgo. Qed.

Theorem back_Transpose_0_chain y :
  eval_rule rd h (RTranspose y) =
  dor gy <- gy_of h y; asRes (runFun (hooksV (vrG gy) hu0 noBind noCond) Chains.back_Transpose_0 tt []).
Proof. open_rule. vgo. Qed.

Definition reshapeBack (c : cfun) y x :=
  eval_rule rd h (RReshape y x) =
  dor gy <- gy_of h y; dor xv <- val_of h x;
  asRes (runFun (hooksV (vrOf gy (lk []) (lk []) (lk [("x.Shape()", zdims xv)]) (lk [])) hu0 noBind noCond) c tt [("x", xv)]).
Theorem back_Reshape_0_chain y x : reshapeBack Chains.back_Reshape_0 y x.
Proof. unfold reshapeBack. open_rule. vgo. Qed.
Theorem back_UnSqueeze_0_chain y x : reshapeBack Chains.back_UnSqueeze_0 y x.
Proof. unfold reshapeBack. open_rule. vgo. Qed.
Theorem back_Squeeze_0_chain y x : reshapeBack Chains.back_Squeeze_0 y x.
Proof. unfold reshapeBack. open_rule. vgo. Qed.
Theorem back_Flatten_0_chain y x : reshapeBack Chains.back_Flatten_0 y x.
Proof. unfold reshapeBack. open_rule. vgo. Qed.

(* reducers: dim is the captured dimension *)
Definition dimI (dim : Z) : lets -> string -> option Z := lk [("dim", dim)].

Theorem back_SumAlong_0_chain y x dim :
  eval_rule rd h (RSumAlong y x dim) =
  dor gy <- gy_of h y; dor xv <- val_of h x;
  asRes (runFun (hooksV (vrOf gy (lk []) (dimI dim) (lk []) (lk [])) (helperUser (dimI dim)) noBind noCond)
           Chains.back_SumAlong_0 tt [("x", xv)]).
Proof. open_rule. rewrite reducerBroadcasted_chain. vgo. Qed.

Definition extBack (c : cfun) y x dim :=
  eval_rule rd h (RExtAlong y x dim) =
  dor gy <- gy_of h y; dor xv <- val_of h x; dor yv <- val_of h y;
  asRes (runFun (hooksV (vrOf gy (lk []) (dimI dim) (lk []) (lk [])) (helperUser (dimI dim)) noBind noCond)
           c tt [("y", yv); ("x", xv)]).
Theorem back_MaxAlong_0_chain y x dim : extBack Chains.back_MaxAlong_0 y x dim.
Proof. unfold extBack. open_rule. rewrite !reducerBroadcasted_chain. vgo. Qed.
Theorem back_MinAlong_0_chain y x dim : extBack Chains.back_MinAlong_0 y x dim.
Proof. unfold extBack. open_rule. rewrite !reducerBroadcasted_chain. vgo. Qed.

(* n := float64(x.Shape()[dim]);  Scale(1 / n) *)
Definition avgScalar (xv : T) (dim : Z) : lets -> string -> option A := fun ls t =>
  match lookupS ls "n" with
  | Some e => if String.eqb e "float64(x.Shape()[dim])" && String.eqb t "1 / n"
              then Some (sdiv (cst 1 0) (sofnat (dimAt xv dim))) else None
  | None => None
  end.
Definition avgBack (c : cfun) y x dim :=
  eval_rule rd h (RAvgAlong y x dim) =
  dor gy <- gy_of h y; dor xv <- val_of h x;
  asRes (runFun (hooksV (vrOf gy (avgScalar xv dim) (dimI dim) (lk []) (lk [])) (helperUser (dimI dim)) noBind noCond)
           c tt [("x", xv)]).
Theorem back_AvgAlong_0_chain y x dim : avgBack Chains.back_AvgAlong_0 y x dim.
Proof. unfold avgBack. open_rule. rewrite reducerBroadcasted_chain. vgo. Qed.
Theorem back_MeanAlong_0_chain y x dim : avgBack Chains.back_MeanAlong_0 y x dim.
Proof. unfold avgBack. open_rule. rewrite reducerBroadcasted_chain. vgo. Qed.

(* n := x.Shape()[dim];  if n == 1 { zeros };  Scale(2 / float64(n - 1)) resp. Scale(1 / float64(n - 1)) *)
Definition nIs (ls : lets) : bool :=
  match lookupS ls "n" with Some e => String.eqb e "x.Shape()[dim]" | None => false end.
Definition varScalar (xv : T) (dim : Z) (txt : string) (num : Z) : lets -> string -> option A := fun ls t =>
  if nIs ls && String.eqb t txt then Some (sdiv (cst num 0) (sofnat (dimAt xv dim - 1))) else None.
Definition varCond (xv : T) (dim : Z) : lets -> string -> option bool := fun ls t =>
  if nIs ls && String.eqb t "n == 1" then Some (dimAt xv dim =? 1)%nat else None.

Theorem back_VarAlong_0_chain y x dim :
  eval_rule rd h (RVarAlong y x dim) =
  dor gy <- gy_of h y; dor xv <- val_of h x;
  asRes (runFun (hooksV (vrOf gy (varScalar xv dim "2 / float64(n - 1)" 2) (dimI dim) (lk []) (lk []))
                   (helperUser (dimI dim)) noBind (varCond xv dim))
           Chains.back_VarAlong_0 tt [("x", xv)]).
Proof.
  open_rule. rewrite reducerBroadcasted_chain. cbn.
  match goal with |- res_bind ?X _ = _ => destruct X as [?| |]; [|reflexivity|reflexivity] end.
  cbn. unfold varCond, nIs. cbn. destruct (dimAt _ dim =? 1)%nat; [rewrite toZeros_chain; vgo|]. vgo.
Qed.

Theorem back_StdAlong_0_chain y x dim :
  eval_rule rd h (RStdAlong y x dim) =
  dor gy <- gy_of h y; dor xv <- val_of h x; dor yv <- val_of h y;
  asRes (runFun (hooksV (vrOf gy (varScalar xv dim "1 / float64(n - 1)" 1) (dimI dim) (lk []) (lk []))
                   (helperUser (dimI dim)) noBind (varCond xv dim))
           Chains.back_StdAlong_0 tt [("y", yv); ("x", xv)]).
Proof.
  open_rule. rewrite reducerBroadcasted_chain. cbn.
  match goal with |- res_bind ?X _ = _ => destruct X as [?| |]; [|reflexivity|reflexivity] end.
  cbn. unfold varCond, nIs. cbn. destruct (dimAt _ dim =? 1)%nat; [rewrite toZeros_chain; vgo|]. vgo.
Qed.

(* element-wise *)
Theorem back_Scale_0_chain y a :
  eval_rule rd h (RScale y a) =
  dor gy <- gy_of h y;
  asRes (runFun (hooksV (vrOf gy (lk [("a", a)]) (lk []) (lk []) (lk [])) hu0 noBind noCond) Chains.back_Scale_0 tt []).
Proof. open_rule. vgo. Qed.

(* if a == 0 { zeros };  x.Pow(a - 1).Scale(a) *)
Theorem back_Pow_0_chain y x a azero :
  eval_rule rd h (RPow y x a azero) =
  dor gy <- gy_of h y; dor xv <- val_of h x;
  asRes (runFun (hooksV (vrOf gy (lk [("a - 1", ssub a (cst 1 0)); ("a", a)]) (lk []) (lk []) (lk [])) hu0 noBind
                   (fun _ t => if String.eqb t "a == 0" then Some azero else None))
           Chains.back_Pow_0 tt [("x", xv)]).
Proof. open_rule. cbn. destruct azero; [rewrite toZeros_chain; vgo|vgo]. Qed.

Theorem back_Exp_0_chain y :
  eval_rule rd h (RExp y) =
  dor gy <- gy_of h y; dor yv <- val_of h y;
  asRes (runFun (hooksV (vrG gy) hu0 noBind noCond) Chains.back_Exp_0 tt [("y", yv)]).
Proof. open_rule. vgo. Qed.

Definition unaryBack (r : nat -> nat -> rule) (c : cfun) y x :=
  eval_rule rd h (r y x) =
  dor gy <- gy_of h y; dor xv <- val_of h x;
  asRes (runFun (hooksV (vrG gy) hu0 noBind noCond) c tt [("x", xv)]).
Theorem back_Log_0_chain y x : unaryBack (@RLog A) Chains.back_Log_0 y x.
Proof. unfold unaryBack. open_rule. vgo. Qed.
Theorem back_Sin_0_chain y x : unaryBack (@RSin A) Chains.back_Sin_0 y x.
Proof. unfold unaryBack. open_rule. vgo. Qed.
Theorem back_Cos_0_chain y x : unaryBack (@RCos A) Chains.back_Cos_0 y x.
Proof. unfold unaryBack. open_rule. unfold cst. vgo. Qed.
Theorem back_Tan_0_chain y x : unaryBack (@RTan A) Chains.back_Tan_0 y x.
Proof. unfold unaryBack. open_rule. unfold cst. vgo. Qed.
Theorem back_Sinh_0_chain y x : unaryBack (@RSinh A) Chains.back_Sinh_0 y x.
Proof. unfold unaryBack. open_rule. vgo. Qed.
Theorem back_Cosh_0_chain y x : unaryBack (@RCosh A) Chains.back_Cosh_0 y x.
Proof. unfold unaryBack. open_rule. vgo. Qed.
Theorem back_Tanh_0_chain y x : unaryBack (@RTanh A) Chains.back_Tanh_0 y x.
Proof. unfold unaryBack. open_rule. unfold cst. vgo. Qed.

(* ElMax / ElMin: edge 0 targets a (rule RElSel y a b), edge 1 targets b (rule RElSel y b a) *)
Definition elselBack (c : cfun) (first : bool) y a b :=
  eval_rule rd h (if first then RElSel y a b else RElSel y b a) =
  (if first
   then dor gy <- gy_of h y; dor yv <- val_of h y; dor av <- val_of h a; dor bv <- val_of h b;
        asRes (runFun (hooksV (vrG gy) hu0 noBind noCond) c tt [("y", yv); ("a", av); ("b", bv)])
   else dor gy <- gy_of h y; dor yv <- val_of h y; dor bv <- val_of h b; dor av <- val_of h a;
        asRes (runFun (hooksV (vrG gy) hu0 noBind noCond) c tt [("y", yv); ("a", av); ("b", bv)])).
Theorem back_ElMax_0_chain y a b : elselBack Chains.back_ElMax_0 true y a b.
Proof. unfold elselBack. open_rule. unfold cst. vgo. Qed.
Theorem back_ElMax_1_chain y a b : elselBack Chains.back_ElMax_1 false y a b.
Proof. unfold elselBack. open_rule. unfold cst. vgo. Qed.
Theorem back_ElMin_0_chain y a b : elselBack Chains.back_ElMin_0 true y a b.
Proof. unfold elselBack. open_rule. unfold cst. vgo. Qed.
Theorem back_ElMin_1_chain y a b : elselBack Chains.back_ElMin_1 false y a b.
Proof. unfold elselBack. open_rule. unfold cst. vgo. Qed.

(* arithmetic *)
Definition gyOnly (r : rule) (c : cfun) y :=
  eval_rule rd h r = dor gy <- gy_of h y; asRes (runFun (hooksV (vrG gy) hu0 noBind noCond) c tt []).
Theorem back_Add_0_chain y : gyOnly (RId y) Chains.back_Add_0 y.
Proof. unfold gyOnly. unfold eval_rule. destruct (gy_of h y); reflexivity. Qed.
Theorem back_Add_1_chain y : gyOnly (RId y) Chains.back_Add_1 y.
Proof. unfold gyOnly. unfold eval_rule. destruct (gy_of h y); reflexivity. Qed.
Theorem back_Sub_0_chain y : gyOnly (RId y) Chains.back_Sub_0 y.
Proof. unfold gyOnly. unfold eval_rule. destruct (gy_of h y); reflexivity. Qed.
Theorem back_Sub_1_chain y : gyOnly (RNeg y) Chains.back_Sub_1 y.
Proof. unfold gyOnly. open_rule. unfold cst. vgo. Qed.

Theorem back_Mul_0_chain y b :
  eval_rule rd h (RMul y b) =
  dor gy <- gy_of h y; dor bv <- val_of h b; asRes (runFun (hooksV (vrG gy) hu0 noBind noCond) Chains.back_Mul_0 tt [("b", bv)]).
Proof. open_rule. vgo. Qed.
Theorem back_Mul_1_chain y a :
  eval_rule rd h (RMul y a) =
  dor gy <- gy_of h y; dor av <- val_of h a; asRes (runFun (hooksV (vrG gy) hu0 noBind noCond) Chains.back_Mul_1 tt [("a", av)]).
Proof. open_rule. vgo. Qed.
Theorem back_Div_0_chain y b :
  eval_rule rd h (RDivA y b) =
  dor gy <- gy_of h y; dor bv <- val_of h b; asRes (runFun (hooksV (vrG gy) hu0 noBind noCond) Chains.back_Div_0 tt [("b", bv)]).
Proof. open_rule. vgo. Qed.
Theorem back_Div_1_chain y a b :
  eval_rule rd h (RDivB y a b) =
  dor gy <- gy_of h y; dor av <- val_of h a; dor bv <- val_of h b;
  asRes (runFun (hooksV (vrG gy) hu0 noBind noCond) Chains.back_Div_1 tt [("a", av); ("b", bv)]).
Proof. open_rule. unfold cst. vgo. Qed.

(* Dot (fix F2: the contracted dimension is restored first), MatMul *)
Definition dotBack (c : cfun) (nm : string) y o :=
  eval_rule rd h (RDot y o) =
  dor gy <- gy_of h y; dor yv <- val_of h y; dor ov <- val_of h o;
  asRes (runFun (hooksV (vrOf gy (lk []) (lk [("len(y.Shape())", zlen (dims yv))]) (lk []) (lk [])) hu0 noBind noCond)
           c tt [(nm, ov)]).
Theorem back_Dot_0_chain y b : dotBack Chains.back_Dot_0 "b" y b.
Proof. unfold dotBack. open_rule. vgo. Qed.
Theorem back_Dot_1_chain y a : dotBack Chains.back_Dot_1 "a" y a.
Proof. unfold dotBack. open_rule. vgo. Qed.

Theorem back_MatMul_0_chain y b :
  eval_rule rd h (RMatMulA y b) =
  dor gy <- gy_of h y; dor bv <- val_of h b; asRes (runFun (hooksV (vrG gy) hu0 noBind noCond) Chains.back_MatMul_0 tt [("b", bv)]).
Proof. open_rule. vgo. Qed.
Theorem back_MatMul_1_chain y a :
  eval_rule rd h (RMatMulB y a) =
  dor gy <- gy_of h y; dor av <- val_of h a; asRes (runFun (hooksV (vrG gy) hu0 noBind noCond) Chains.back_MatMul_1 tt [("a", av)]).
Proof. open_rule. vgo. Qed.

End Rule.

(* every function of gradients.go starts with the same three-way test: spent operand -> spent result,
   no tracked operand -> untracked result ([mkCtx] in the model) *)
Definition prologue_of (args : string) : string :=
  "if anyIsBPDirty(" ++ args ++ ") { return NewDirtyGradContext() } if nonIsTracked(" ++ args ++ ") { return NewGradContext(false) }".
Definition prologue_ok (p : string * string) : bool :=
  String.eqb (snd p) (prologue_of "x") || String.eqb (snd p) (prologue_of "a, b") ||
  (String.eqb (fst p) "Patch" && String.eqb (snd p) (prologue_of "x, p")).
Theorem rule_prologues_ok : forallb prologue_ok Chains.rule_prologues = true /\ length Chains.rule_prologues = 32%nat.
Proof. split; vm_compute; reflexivity. Qed.

End Val.

(* ===================================================================================== *)
(* 3. scalar kernels of the data layer (operators.go, reducers.go)                        *)
(* ===================================================================================== *)
Section Kern.
Context {A : Type} {SA : Scalar A}.
Notation T := (tensor A).

(* the method hands exactly this literal to the element-wise traversal, and the literal IS f *)
Definition unary_kernel (k : kfun) (nm : string) (cap : list (string * A)) (f : A -> A) : Prop :=
  kf_body k = XTrav "applyUnaryFuncOnTensorElemWise" ["t"] (nm ++ "#0") /\
  exists body, lookupS (kf_lits k) (nm ++ "#0") = Some (["a"], body) /\
    forall a, evx (("a", a) :: cap) body = Some (f a).
Definition binary_kernel (k : kfun) (nm : string) (f : A -> A -> A) : Prop :=
  kf_body k = XTrav "applyBinaryFuncOnTensorsElemWise" ["t"; "u"] (nm ++ "#0") /\
  exists body, lookupS (kf_lits k) (nm ++ "#0") = Some (["a"; "b"], body) /\
    forall a b, evx [("a", a); ("b", b)] body = Some (f a b).

Ltac kern := split; [reflexivity|eexists; split; [reflexivity|intros; reflexivity]].

Theorem k_scale_ok u : unary_kernel Chains.k_scale "scale" [("u", u)] (unaryF (UScale u)). Proof. kern. Qed.
Theorem k_pow_ok u : unary_kernel Chains.k_pow "pow" [("u", u)] (unaryF (UPow u)). Proof. kern. Qed.
Theorem k_exp_ok : unary_kernel Chains.k_exp "exp" [] (@unaryF A SA UExpo). Proof. kern. Qed.
Theorem k_log_ok : unary_kernel Chains.k_log "log" [] (@unaryF A SA ULn). Proof. kern. Qed.
Theorem k_sin_ok : unary_kernel Chains.k_sin "sin" [] (@unaryF A SA USine). Proof. kern. Qed.
Theorem k_cos_ok : unary_kernel Chains.k_cos "cos" [] (@unaryF A SA UCosine). Proof. kern. Qed.
Theorem k_tan_ok : unary_kernel Chains.k_tan "tan" [] (@unaryF A SA UTang). Proof. kern. Qed.
Theorem k_sinh_ok : unary_kernel Chains.k_sinh "sinh" [] (@unaryF A SA USinH). Proof. kern. Qed.
Theorem k_cosh_ok : unary_kernel Chains.k_cosh "cosh" [] (@unaryF A SA UCosH). Proof. kern. Qed.
Theorem k_tanh_ok : unary_kernel Chains.k_tanh "tanh" [] (@unaryF A SA UTanH). Proof. kern. Qed.

Theorem k_eq_ok : binary_kernel Chains.k_eq "eq" (@binaryF A SA BiEq). Proof. kern. Qed.
Theorem k_ne_ok : binary_kernel Chains.k_ne "ne" (@binaryF A SA BiNe). Proof. kern. Qed.
Theorem k_gt_ok : binary_kernel Chains.k_gt "gt" (@binaryF A SA BiGt). Proof. kern. Qed.
Theorem k_ge_ok : binary_kernel Chains.k_ge "ge" (@binaryF A SA BiGe). Proof. kern. Qed.
Theorem k_lt_ok : binary_kernel Chains.k_lt "lt" (@binaryF A SA BiLt). Proof. kern. Qed.
Theorem k_le_ok : binary_kernel Chains.k_le "le" (@binaryF A SA BiLe). Proof. kern. Qed.
Theorem k_elmax_ok : binary_kernel Chains.k_elmax "elmax" (@binaryF A SA BiElMax). Proof. kern. Qed.
Theorem k_elmin_ok : binary_kernel Chains.k_elmin "elmin" (@binaryF A SA BiElMin). Proof. kern. Qed.
Theorem k_add_ok : binary_kernel Chains.k_add "add" (@binaryF A SA BiAdd). Proof. kern. Qed.
Theorem k_sub_ok : binary_kernel Chains.k_sub "sub" (@binaryF A SA BiSub). Proof. kern. Qed.
Theorem k_mul_ok : binary_kernel Chains.k_mul "mul" (@binaryF A SA BiMul). Proof. kern. Qed.
Theorem k_div_ok : binary_kernel Chains.k_div "div" (@binaryF A SA BiDiv). Proof. kern. Qed.

(* reducers: the whole-tensor statistics are the model's, for every tensor *)
Definition rfuel := 20%nat.
Theorem k_sum_ok (t : T) : evr rfuel Chains.k_sum t [] [] (kf_body Chains.k_sum) = r_sum t.
Proof. reflexivity. Qed.
Theorem k_max_ok (t : T) : evr rfuel Chains.k_max t [] [] (kf_body Chains.k_max) = r_max t.
Proof. reflexivity. Qed.
Theorem k_min_ok (t : T) : evr rfuel Chains.k_min t [] [] (kf_body Chains.k_min) = r_min t.
Proof. reflexivity. Qed.
Theorem k_avg_ok (t : T) : evr rfuel Chains.k_avg t [] [] (kf_body Chains.k_avg) = r_avg t.
Proof. cbn. unfold r_avg. destruct (r_sum t); reflexivity. Qed.
Theorem k_mean_ok (t : T) : evr rfuel Chains.k_mean t [] [] (kf_body Chains.k_mean) = r_mean t.
Proof. reflexivity. Qed.
Theorem k_std_ok (t : T) : evr rfuel Chains.k_std t [] [] (kf_body Chains.k_std) = r_std t.
Proof. cbn. unfold r_std. destruct (r_var t); reflexivity. Qed.
Theorem k_var_ok (t : T) : evr rfuel Chains.k_var t [] [] (kf_body Chains.k_var) = r_var t.
Proof.
  cbn. unfold r_var. destruct (r_mean t) as [xbar|]; [|reflexivity]. cbn.
  destruct (reduceBy _ s0 t) as [sigma|]; [|reflexivity]. cbn.
  destruct (1 <? numElems t)%nat; reflexivity.
Qed.
(* every fold literal is interpretable (so the total function used above is the literal itself) *)
Theorem k_folds_total :
  kfn2_total Chains.k_sum "sum#0" (@nil (string * A)) /\ kfn2_total Chains.k_max "max#0" (@nil (string * A)) /\
  kfn2_total Chains.k_min "min#0" (@nil (string * A)) /\ forall xbar : A, kfn2_total Chains.k_var "_var#0" [("xBar", xbar)].
Proof. repeat split; cbn; intros; discriminate. Qed.

(* Equals: o := t.eq(u); n := o.numElems(); o.sum() >= float64(n)   (equalsD in the model) *)
Theorem k_equals_ok :
  kf_body Chains.k_equals =
  XLet "o" (XCall1 "t.eq" (XV "u")) (XLet "n" (XCall0 "o.numElems") (XCmp ">=" (XCall0 "o.sum") (XCall1 "float64" (XV "n")))).
Proof. reflexivity. Qed.

End Kern.
