(* Sample.v — comparison used by the generated cases_sample.v (kernel path of the
   correspondence check): re-evaluate the interpreter inside Coq and compare with the output of
   the extracted binary. *)
From Coq Require Import List ZArith Bool.
From Qeep Require Import Corr.Codec.
Import ListNotations.

Fixpoint zlist_eqb (a b : list Z) : bool :=
  match a, b with
  | [], [] => true
  | x :: a', y :: b' => (x =? y)%Z && zlist_eqb a' b'
  | _, _ => false
  end.
Fixpoint zll_eqb (a b : list (list Z)) : bool :=
  match a, b with
  | [], [] => true
  | x :: a', y :: b' => zlist_eqb x y && zll_eqb a' b'
  | _, _ => false
  end.
Definition check_cases (cs : list (list Z * list (list Z))) : list bool :=
  map (fun c => zll_eqb (run_encoded (fst c)) (snd c)) cs.
