(* Codec.v — the integer protocol between the Go driver and the model, and the instantiation
   of the scenario interpreter at the free term algebra.  A scenario is a list of integers
   (decoded here, inside Coq, so that the extracted binary and the in-kernel evaluation share
   the decoder); the observables are again lists of integers, one list per command.
   Definitions only. *)
From Coq Require Import List Arith ZArith Bool.
From Qeep Require Import Model.Scalar Model.Nd Model.Fill Model.Data Model.Valid Model.Api
     Model.Grad Model.Backprop Model.Components Model.Scenario Model.Consts.
Import ListNotations.
Set Implicit Arguments.

(* ---------- parser combinators over list Z ---------- *)
Definition P (X : Type) := list Z -> option (X * list Z).
Definition pret {X} (x : X) : P X := fun l => Some (x, l).
Definition pbind {X Y} (p : P X) (f : X -> P Y) : P Y :=
  fun l => match p l with Some (x, l') => f x l' | None => None end.
Notation "'dop' x <- a ; b" := (pbind a (fun x => b)) (at level 200, x pattern, a at level 100, b at level 200).

Definition pZ : P Z := fun l => match l with z :: r => Some (z, r) | [] => None end.
Definition pNat : P nat := dop z <- pZ; pret (Z.to_nat z).
Definition pBool : P bool := dop z <- pZ; pret (negb (z =? 0)%Z).
Fixpoint pRep {X} (n : nat) (p : P X) : P (list X) :=
  match n with O => pret [] | S n' => dop x <- p; dop xs <- pRep n' p; pret (x :: xs) end.
Definition pList {X} (p : P X) : P (list X) := dop n <- pNat; pRep n p.
Definition pOpt {X} (p : P X) : P (option X) := dop b <- pBool; if b then dop x <- p; pret (Some x) else pret None.
Definition pPair {X Y} (p : P X) (q : P Y) : P (X * Y) := dop x <- p; dop y <- q; pret (x, y).
Definition pDec : P dec := pPair pZ pZ.
Definition pCfg : P cfg := pOpt (pPair pZ pBool).
Definition pRanges : P (list zrange) := pList (pPair pZ pZ).
Definition pTarg : P targ := pOpt pNat.

(* nested data of TensorOf: 0 k = the k-th value; 1 n children... *)
Fixpoint pData (fuel : nat) (name : nat) : P (nd term) :=
  match fuel with
  | O => fun _ => None
  | S f =>
      dop tag <- pZ;
      if (tag =? 0)%Z then dop k <- pNat; pret (Sc (TVal name k))
      else dop n <- pNat; dop l <- pRep n (pData f name); pret (Vec l)
  end.

Definition pReducer : P reducer :=
  dop z <- pZ; pret (match z with 0 => RdSum | 1 => RdMax | 2 => RdMin | 3 => RdAvg | 4 => RdVar | 5 => RdStd | _ => RdMean end)%Z.
Definition pMathfn : P mathfn :=
  dop z <- pZ; pret (match z with 0 => FExp | 1 => FLog | 2 => FSin | 3 => FCos | 4 => FTan | 5 => FSinh | 6 => FCosh | _ => FTanh end)%Z.
Definition pBinary : P binary :=
  dop z <- pZ; pret (match z with 0 => BiEq | 1 => BiNe | 2 => BiGt | 3 => BiGe | 4 => BiLt | 5 => BiLe
                               | 6 => BiElMax | 7 => BiElMin | 8 => BiAdd | 9 => BiSub | 10 => BiMul | _ => BiDiv end)%Z.
Definition pInitSpec : P initSpec :=
  dop z <- pZ;
  match z with
  | 0 => dop v <- pOpt pDec; pret (IFull v)
  | 1 => dop v <- pOpt (pPair pDec pDec); pret (IUniform v)
  | 2 => dop v <- pOpt (pPair pDec pDec); pret (INormal v)
  | 3 => dop v <- pOpt pZ; pret (IHeUniform v)
  | 4 => dop v <- pOpt pZ; pret (IHeNormal v)
  | 5 => dop v <- pOpt (pPair pZ pZ); pret (IXavierUniform v)
  | _ => dop v <- pOpt (pPair pZ pZ); pret (IXavierNormal v)
  end%Z.
Definition pCtorKind : P ctorKind :=
  dop z <- pZ; pret (match z with 0 => KFull | 1 => KZeros | _ => KOnes end)%Z.
Definition pActKind : P actKind :=
  dop z <- pZ;
  match z with
  | 0 => pret AkRelu | 1 => pret AkSigmoid | 2 => pret AkTanh
  | 3 => dop m <- pOpt pDec; pret (AkLeaky m)
  | _ => dop d <- pOpt pZ; pret (AkSoftmax d)
  end%Z.
Definition pLossKind : P lossKind :=
  dop z <- pZ; pret (match z with 0 => LkMSE | 1 => LkBCE | _ => LkCE end)%Z.
Definition pCellRef : P cellRef :=
  dop z <- pZ;
  match z with
  | 0 => dop n <- pNat; pret (CrFCW n)
  | 1 => dop n <- pNat; pret (CrFCB n)
  | 2 => dop n <- pNat; pret (CrCell n)
  | _ => pret CrNilPtr
  end%Z.

Definition pCmd (fuel : nat) (name : nat) : P (@cmd term) :=
  dop op <- pZ;
  match op with
  | 0 => dop ds <- pList pNat; dop tr <- pBool;
         pret (CLeaf ds (map (TVal name) (seq 0 (prodn ds))) tr)
  | 1 => dop k <- pCtorKind; dop ds <- pList pZ; dop v <- pDec; dop c <- pCfg; pret (CCtor k ds v c)
  | 2 => dop n <- pZ; dop c <- pCfg; pret (CEye n c)
  | 3 => dop ds <- pList pZ; dop l <- pDec; dop u <- pDec; dop c <- pCfg; pret (CRandU ds l u c)
  | 4 => dop ds <- pList pZ; dop m <- pDec; dop s <- pDec; dop c <- pCfg; pret (CRandN ds m s c)
  | 5 => dop x <- pData fuel name; dop c <- pCfg; pret (CTensorOf x c)
  | 6 => dop t <- pNat; dop a <- pDec; pret (CScale t a)
  | 7 => dop t <- pNat; dop a <- pDec; pret (CPow t a)
  | 8 => dop f <- pMathfn; dop t <- pNat; pret (CMath f t)
  | 9 => dop b <- pBinary; dop t <- pNat; dop u <- pTarg; pret (CBin b t u)
  | 10 => dop t <- pNat; dop u <- pTarg; pret (CEquals t u)
  | 11 => dop t <- pNat; pret (CTranspose t)
  | 12 => dop t <- pNat; dop sh <- pList pZ; pret (CReshape t sh)
  | 13 => dop t <- pNat; dop sh <- pList pZ; pret (CBroadcast t sh)
  | 14 => dop t <- pNat; dop d <- pZ; pret (CUnsqueeze t d)
  | 15 => dop t <- pNat; dop d <- pZ; pret (CSqueeze t d)
  | 16 => dop t <- pNat; dop d <- pZ; pret (CFlatten t d)
  | 17 => dop r <- pReducer; dop t <- pNat; dop d <- pZ; pret (CAlong r t d)
  | 18 => dop r <- pReducer; dop t <- pNat; pret (CReduce r t)
  | 19 => dop t <- pNat; dop ix <- pList pZ; pret (CAt t ix)
  | 20 => dop t <- pNat; dop ix <- pRanges; pret (CSlice t ix)
  | 21 => dop t <- pNat; dop ix <- pRanges; dop u <- pTarg; pret (CPatch t ix u)
  | 22 => dop ts <- pList pTarg; dop d <- pZ; pret (CConcat ts d)
  | 23 => dop t <- pNat; pret (CNElems t)
  | 24 => dop t <- pNat; pret (CShape t)
  | 25 => dop t <- pTarg; pret (CBackprop t)
  | 26 => dop t <- pNat; dop b <- pBool; pret (CReset t b)
  | 27 => dop t <- pNat; pret (CGradOf t)
  | 28 => dop i <- pZ; dop o <- pZ; dop wi <- pOpt (pOpt pInitSpec); dop bi <- pOpt (pOpt pInitSpec); pret (CFCNew i o wi bi)
  | 29 => dop fc <- pNat; dop b <- pBool; dop t <- pNat; pret (CFCSet fc b t)
  | 30 => dop fc <- pNat; dop xs <- pList pTarg; pret (CFCForward fc xs)
  | 31 => dop sd <- pOpt pTarg; dop xs <- pList pTarg; pret (CInputForward sd xs)
  | 32 => dop k <- pActKind; dop xs <- pList pTarg; pret (CAct k xs)
  | 33 => dop k <- pLossKind; dop p <- pTarg; dop t <- pTarg; pret (CLoss k p t)
  | 34 => dop lr <- pOpt pDec; pret (CSGDNew lr)
  | 35 => dop sg <- pNat; dop c <- pCellRef; pret (CSGDUpdate sg c)
  | 36 => dop t <- pTarg; pret (CCellNew t)
  | 37 => pret CAccNew
  | 38 => dop a <- pNat; dop p <- pTarg; dop t <- pTarg; pret (CAccumulate a p t)
  | 39 => dop a <- pNat; pret (CAccResult a)
  | 40 => dop sp <- pInitSpec; dop sh <- pList pZ; pret (CInit sp sh)
  | 42 => dop t <- pNat; dop u <- pTarg; pret (CDot t u)
  | 43 => dop t <- pNat; dop u <- pTarg; pret (CMatMul t u)
  | _ => pret CNop
  end%Z.

Fixpoint pCmds (fuel : nat) (name : nat) (l : list Z) : option (list (@cmd term)) :=
  match fuel with
  | O => None
  | S f =>
      match l with
      | [] => Some []
      | _ => match pCmd (length l) name l with
             | Some (c, l') => match pCmds f (S name) l' with Some cs => Some (c :: cs) | None => None end
             | None => None
             end
      end
  end.

Definition decode (l : list Z) : option (list (@cmd term)) := pCmds (S (length l)) 0 l.

(* ---------- encoder ---------- *)
Definition unopCode (o : unop) : Z :=
  match o with UExp => 0 | ULog => 1 | USin => 2 | UCos => 3 | UTan => 4 | USinh => 5 | UCosh => 6
             | UTanh => 7 | USqrt => 8 | UTrunc => 9 end%Z.
Definition binopCode (o : binop) : Z :=
  match o with BAdd => 0 | BSub => 1 | BMul => 2 | BDiv => 3 | BPow => 4 | BMax => 5 | BMin => 6
             | BSelGt => 7 | BSelLt => 8 | BEq => 9 | BNe => 10 | BGt => 11 | BGe => 12 | BLt => 13
             | BLe => 14 | BGeb => 15 end%Z.

Definition zn (n : nat) : Z := Z.of_nat n.

Fixpoint encTerm (t : term) (acc : list Z) : list Z :=
  match t with
  | TVal n k => 0%Z :: zn n :: zn k :: acc
  | TGrad n c k => 1%Z :: zn n :: zn c :: zn k :: acc
  | TConst m e => 2%Z :: m :: e :: acc
  | TNat n => 3%Z :: zn n :: acc
  | TNegInf => 4%Z :: acc
  | TPosInf => 5%Z :: acc
  | TRnd b k => 6%Z :: (if b then 1 else 0)%Z :: zn k :: acc
  | TUn o a => 7%Z :: unopCode o :: encTerm a acc
  | TBin o a b => 8%Z :: binopCode o :: encTerm a (encTerm b acc)
  end.

Definition encTerms (l : list term) (acc : list Z) : list Z := fold_right encTerm acc l.

Definition encShaped (ds : list nat) (elems : list term) (acc : list Z) : list Z :=
  zn (length ds) :: map zn ds ++ zn (length elems) :: encTerms elems acc.

Definition encObs (o : @obs term) : list Z :=
  match o with
  | ObErr => [0] | ObPanic => [1] | ObOk => [2] | ObNil => [3]
  | ObInt z => [4; z]
  | ObInts l => 5 :: zn (length l) :: l
  | ObScalar a => 6 :: encTerm a []
  | ObBool a => 7 :: encTerm a []
  | ObTensor ds elems => 8 :: encShaped ds elems []
  | ObGrads rules l =>
      9 :: zn rules :: zn (length l) ::
      fold_right (fun (p : nat * option (list nat * list term)) acc =>
                    zn (fst p) :: match snd p with
                                  | None => 0 :: acc
                                  | Some (ds, el) => 1 :: encShaped ds el acc
                                  end) [] l
  | ObBad => [10]
  end%Z.

(* ---------- sealing: computed values become references to observed values ---------- *)
Fixpoint relabel (f : nat -> term) (x : nd term) (k : nat) : nd term * nat :=
  match x with
  | Sc _ => (Sc (f k), S k)
  | Vec l =>
      let '(l', k') := (fix go (l : list (nd term)) (k : nat) : list (nd term) * nat :=
                          match l with
                          | [] => ([], k)
                          | y :: r => let '(y', k1) := relabel f y k in
                                      let '(r', k2) := go r k1 in (y' :: r', k2)
                          end) l k in
      (Vec l', k')
  end.

Definition sealv_term (name : nat) (t : tensor term) : tensor term :=
  mkT (dims t) (fst (relabel (TVal name) (data t) 0)).
Definition sealg_term (c : nat) (name : option nat) (g : tensor term) : tensor term :=
  match name with
  | Some n => mkT (dims g) (fst (relabel (TGrad n c) (data g) 0))
  | None => g
  end.

Definition run_term (rd : bred) (cs : list (@cmd term)) : list (@obs term) :=
  run rd sealv_term sealg_term
      (dcst c_epsilon) (dcst c_one_minus_epsilon) c_leaky_m c_sgd_lr
      c_full_value c_uniform_lower c_uniform_upper c_normal_mean c_normal_stddev c_softmax_dim cs.

(* first token: 0 = RedSum (what the property demands), 1 = RedAvg (the pinned Broadcast rule) *)
Definition run_encoded (l : list Z) : list (list Z) :=
  match l with
  | v :: rest =>
      match decode rest with
      | Some cs => map encObs (run_term (if (v =? 0)%Z then RedSum else RedAvg) cs)
      | None => [[(-1)%Z]]
      end
  | [] => [[(-1)%Z]]
  end.
