(* Extract.v — extraction of the scenario interpreter for the volume path of the
   correspondence check.  Only ExtrOcamlBasic's directives are used (bool, option, unit, list,
   prod, sumbool, sumor, andb, orb); nat, positive and Z stay the extracted inductive types.
   No theorem depends on this file. *)
From Coq Require Import ExtrOcamlBasic.
From Qeep Require Import Corr.Codec.
Extraction "model.ml" run_encoded.
