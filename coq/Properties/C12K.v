(* C12K — source tie BY TRANSLATION for the component layer — the input test of MSE / BCE / CE.Compute is the model's lossArgs1 / lossArgs2 (nil, rank, batch and class sizes).
   Statements only (proofs: Proofs/Comp*P.v).  Model/GoComp.v is REGENERATED from /repo's Go sources on every run by
   harness/gox (comp.go): the component layer's own logic — input validators, config validators, constructors, the
   scale formulas of the initializers, the Accuracy counters — as loop-free programs of the imperative language of
   Model/DataIR.v.  A tensor.Tensor interface value is nil or a node id of the model's heap; a config pointer is nil or
   the list of its fields; an error is 0 / 1; methods of tensors, float comparisons (parameters fltb / fleb: an
   abstract scalar has no order), int->float conversion and the library functions (tensor.RandU, the forward bodies
   that Properties/*S.v cover) are calls of the oracle Model/CompExt.v, in which SIBLING functions are linked by
   running their own translated programs.  Each theorem says that RUNNING the translated program returns exactly what
   the hand-written model (Model/Components.v) computes, for ALL heaps, arguments, fuel and depth; a returned outcome
   is never a panic.  An edit of one of these Go functions changes GoComp.v and breaks the theorem unless it computes
   the same thing.  Closed under the global context. *)
From Coq Require Import String List ZArith Bool Arith.
From Qeep Require Import Model.Scalar Model.Nd Model.Fill Model.Data Model.Valid Model.Api Model.Grad Model.Backprop Model.Components Model.Consts Model.DataIR Model.HeapExt Model.CompExt.
From Qeep Require Model.GoComp.
From Qeep Require Import Proofs.DataIRP.
From Qeep Require Proofs.CompValidP Proofs.CompAccP Proofs.CompInitP.
Import ListNotations.
Local Open Scope string_scope.

Theorem MSE_validateInputs_is_lossArgs1 :
  forall (A : Type) (SA : Scalar A) (fltb fleb : A -> A -> bool)
    (lib : string -> list dval -> heap -> option (list dval * heap)) (fuel depth : nat) 
    (h : heap) (yp yt : targ),
  CompValidP.targOk h yp ->
  CompValidP.targOk h yt ->
  CompValidP.outcome
    (drun cfapp heap (cext0 fltb fleb lib) GoComp.c_MSE_validateInputs fuel depth [dtarg yp; dtarg yt] h) =
  Some ([DI (if lossArgs1 h yp yt then 0%Z else 1%Z)], h).
Proof. exact @CompValidP.MSE_validateInputs_spec. Qed.
Print Assumptions MSE_validateInputs_is_lossArgs1.

Theorem BCE_validateInputs_is_lossArgs1 :
  forall (A : Type) (SA : Scalar A) (fltb fleb : A -> A -> bool)
    (lib : string -> list dval -> heap -> option (list dval * heap)) (fuel depth : nat) 
    (h : heap) (yp yt : targ),
  CompValidP.targOk h yp ->
  CompValidP.targOk h yt ->
  CompValidP.outcome
    (drun cfapp heap (cext0 fltb fleb lib) GoComp.c_BCE_validateInputs fuel depth [dtarg yp; dtarg yt] h) =
  Some ([DI (if lossArgs1 h yp yt then 0%Z else 1%Z)], h).
Proof. exact @CompValidP.BCE_validateInputs_spec. Qed.
Print Assumptions BCE_validateInputs_is_lossArgs1.

Theorem CE_validateInputs_is_lossArgs2 :
  forall (A : Type) (SA : Scalar A) (fltb fleb : A -> A -> bool)
    (lib : string -> list dval -> heap -> option (list dval * heap)) (fuel depth : nat) 
    (h : heap) (yp yt : targ),
  CompValidP.targOk h yp ->
  CompValidP.targOk h yt ->
  CompValidP.outcome
    (drun cfapp heap (cext0 fltb fleb lib) GoComp.c_CE_validateInputs fuel depth [dtarg yp; dtarg yt] h) =
  Some ([DI (if lossArgs2 h yp yt then 0%Z else 1%Z)], h).
Proof. exact @CompValidP.CE_validateInputs_spec. Qed.
Print Assumptions CE_validateInputs_is_lossArgs2.
