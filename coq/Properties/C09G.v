(* C09G — source tie BY TRANSLATION for the integer / shape logic of every validator of tensor/internal/validator (all integer arguments, never panics, error exactly when the model validator says so).
   Statements only (proofs: Proofs/Go*P.v).  Model/GoFns.v is REGENERATED from /repo's Go sources on every run by
   harness/gox: each function below is a program of the small imperative language of Model/GoIR.v (Go int = Z
   without overflow, slices with value semantics — the translator refuses functions that write through aliases).
   Each theorem says that RUNNING the translated program (big-step semantics [exec] / [run], any fuel above the
   stated bound, hence no non-termination) returns exactly the value of the hand-written model function
   (Model/Valid.v, Model/Data.v, Model/Fill.v) for ALL arguments — for validators with no hypothesis at all, which
   also says they never panic; for shape helpers under the validator's precondition; for element generators: one
   call of the closure moves the multi-index state exactly like the model's odometer ([incr], [incr_skip], [bstep]),
   and the statements outside the integer fragment are pinned as text in source order ([itemShape]).
   The DATA layer (functions over `any`: float64 leaves and []any rows, recursive closures with pointer
   parameters) is translated into DataIR programs (Model/DataIR.v, Model/GoData.v, regenerated every run); the
   [data_*] / [drun_*] theorems say that running them returns exactly the model's nested data (Model/Data.v,
   Model/Fill.v) and panics exactly where the model says None.
   An edit of one of these Go functions changes GoFns.v / GoData.v and breaks the theorem unless it computes the same thing.
   Closed under the global context. *)
From Coq Require Import String List ZArith Bool Arith.
From Qeep Require Import Model.Scalar Model.Nd Model.Fill Model.Valid Model.GoIR Model.DataIR.
From Qeep Require Model.Data Model.Api Model.GoFns Model.GoData.
From Qeep Require Import Proofs.GoIRP.
From Qeep Require Proofs.GoValidAtP Proofs.GoValidP1 Proofs.GoValidP2 Proofs.GoValidP3 Proofs.GoDimsP1 Proofs.GoDimsP2 Proofs.GoGenP1 Proofs.GoGenP2 Proofs.GoGenP3 Proofs.GoMatMulShapeP Proofs.DataAtP Proofs.DataSliceP Proofs.DataPatchP Proofs.DataApplyP Proofs.DataReduceP Proofs.DataFillP Proofs.DataLinalgP Proofs.DataConcatP.
Import ListNotations.
Local Open Scope string_scope.

Theorem ValidateAtIndexAgainstDims_program_is_the_model_validator :
  forall (call : string -> list val -> outcome) (fuel : nat) (index dims : list Z),
  exec call fuel (fbody GoFns.ValidateAtIndexAgainstDims) [("index", ints index); ("dims", ints dims)] =
  ORet [errOf (validateAtIndexAgainstDims index dims)].
Proof. exact @GoValidAtP.go_ValidateAtIndexAgainstDims. Qed.
Print Assumptions ValidateAtIndexAgainstDims_program_is_the_model_validator.

Theorem ValidateAtIndexAgainstDims_run :
  forall (fuel : nat) (index dims : list Z),
  run GoFns.ftab fuel GoFns.ValidateAtIndexAgainstDims [ints index; ints dims] =
  ORet [errOf (validateAtIndexAgainstDims index dims)].
Proof. exact @GoValidAtP.run_ValidateAtIndexAgainstDims. Qed.
Print Assumptions ValidateAtIndexAgainstDims_run.

Theorem ValidateInputDims_program_is_the_model_validator :
  forall (call : string -> list val -> outcome) (fuel : nat) (dims : list Z),
  exec call fuel (fbody GoFns.ValidateInputDims) [("dims", ints dims)] =
  ORet [errOf (validateInputDims dims)].
Proof. exact @GoValidP1.go_ValidateInputDims. Qed.
Print Assumptions ValidateInputDims_program_is_the_model_validator.

Theorem ValidateInputDims_run :
  forall (fuel : nat) (dims : list Z),
  run GoFns.ftab fuel GoFns.ValidateInputDims [ints dims] = ORet [errOf (validateInputDims dims)].
Proof. exact @GoValidP1.run_ValidateInputDims. Qed.
Print Assumptions ValidateInputDims_run.

Theorem ValidateSliceIndexAgainstDims_program_is_the_model_validator :
  forall (call : string -> list val -> outcome) (fuel : nat) (index : list (Z * Z)) (dims : list Z),
  exec call fuel (fbody GoFns.ValidateSliceIndexAgainstDims)
    [("index", ranges index); ("dims", ints dims)] =
  ORet [errOf (validateSliceIndexAgainstDims index dims)].
Proof. exact @GoValidP1.go_ValidateSliceIndexAgainstDims. Qed.
Print Assumptions ValidateSliceIndexAgainstDims_program_is_the_model_validator.

Theorem ValidateSliceIndexAgainstDims_run :
  forall (fuel : nat) (index : list (Z * Z)) (dims : list Z),
  run GoFns.ftab fuel GoFns.ValidateSliceIndexAgainstDims [ranges index; ints dims] =
  ORet [errOf (validateSliceIndexAgainstDims index dims)].
Proof. exact @GoValidP1.run_ValidateSliceIndexAgainstDims. Qed.
Print Assumptions ValidateSliceIndexAgainstDims_run.

Theorem ValidatePatchIndexAgainstDims_program_is_the_model_validator :
  forall (fuel d : nat) (index : list (Z * Z)) (src dst : list Z),
  S (Datatypes.length src) <= fuel ->
  exec (callD GoFns.ftab fuel (S d)) fuel (fbody GoFns.ValidatePatchIndexAgainstDims)
    [("index", ranges index); ("srcDims", ints src); ("dstDims", ints dst)] =
  ORet [errOf (validatePatchIndexAgainstDims index src dst)].
Proof. exact @GoValidP1.go_ValidatePatchIndexAgainstDims. Qed.
Print Assumptions ValidatePatchIndexAgainstDims_program_is_the_model_validator.

Theorem ValidatePatchIndexAgainstDims_run :
  forall (fuel : nat) (index : list (Z * Z)) (src dst : list Z),
  S (Datatypes.length src) <= fuel ->
  run GoFns.ftab fuel GoFns.ValidatePatchIndexAgainstDims [ranges index; ints src; ints dst] =
  ORet [errOf (validatePatchIndexAgainstDims index src dst)].
Proof. exact @GoValidP1.run_ValidatePatchIndexAgainstDims. Qed.
Print Assumptions ValidatePatchIndexAgainstDims_run.

Theorem ValidateReducedDimAgainstDims_program_is_the_model_validator :
  forall (call : string -> list val -> outcome) (fuel : nat) (dim : Z) (dims : list Z),
  exec call fuel (fbody GoFns.ValidateReducedDimAgainstDims) [("dim", VI dim); ("dims", ints dims)] =
  ORet [errOf (validateReducedDimAgainstDims dim dims)].
Proof. exact @GoValidP2.go_ValidateReducedDimAgainstDims. Qed.
Print Assumptions ValidateReducedDimAgainstDims_program_is_the_model_validator.

Theorem ValidateReducedDimAgainstDims_run :
  forall (fuel : nat) (dim : Z) (dims : list Z),
  run GoFns.ftab fuel GoFns.ValidateReducedDimAgainstDims [VI dim; ints dims] =
  ORet [errOf (validateReducedDimAgainstDims dim dims)].
Proof. exact @GoValidP2.run_ValidateReducedDimAgainstDims. Qed.
Print Assumptions ValidateReducedDimAgainstDims_run.

Theorem ValidateTransposeDims_program_is_the_model_validator :
  forall (call : string -> list val -> outcome) (fuel : nat) (dims : list Z),
  exec call fuel (fbody GoFns.ValidateTransposeDims) [("dims", ints dims)] =
  ORet [errOf (validateTransposeDims dims)].
Proof. exact @GoValidP2.go_ValidateTransposeDims. Qed.
Print Assumptions ValidateTransposeDims_program_is_the_model_validator.

Theorem ValidateTransposeDims_run :
  forall (fuel : nat) (dims : list Z),
  run GoFns.ftab fuel GoFns.ValidateTransposeDims [ints dims] =
  ORet [errOf (validateTransposeDims dims)].
Proof. exact @GoValidP2.run_ValidateTransposeDims. Qed.
Print Assumptions ValidateTransposeDims_run.

Theorem ValidateDotProductDims_program_is_the_model_validator :
  forall (call : string -> list val -> outcome) (fuel : nat) (dims1 dims2 : list Z),
  exec call fuel (fbody GoFns.ValidateDotProductDims) [("dims1", ints dims1); ("dims2", ints dims2)] =
  ORet [errOf (validateDotProductDims dims1 dims2)].
Proof. exact @GoValidP2.go_ValidateDotProductDims. Qed.
Print Assumptions ValidateDotProductDims_program_is_the_model_validator.

Theorem ValidateDotProductDims_run :
  forall (fuel : nat) (dims1 dims2 : list Z),
  run GoFns.ftab fuel GoFns.ValidateDotProductDims [ints dims1; ints dims2] =
  ORet [errOf (validateDotProductDims dims1 dims2)].
Proof. exact @GoValidP2.run_ValidateDotProductDims. Qed.
Print Assumptions ValidateDotProductDims_run.

Theorem ValidateMatMulDims_program_is_the_model_validator :
  forall (call : string -> list val -> outcome) (fuel : nat) (dims1 dims2 : list Z),
  exec call fuel (fbody GoFns.ValidateMatMulDims) [("dims1", ints dims1); ("dims2", ints dims2)] =
  ORet [errOf (validateMatMulDims dims1 dims2)].
Proof. exact @GoValidP2.go_ValidateMatMulDims. Qed.
Print Assumptions ValidateMatMulDims_program_is_the_model_validator.

Theorem ValidateMatMulDims_run :
  forall (fuel : nat) (dims1 dims2 : list Z),
  run GoFns.ftab fuel GoFns.ValidateMatMulDims [ints dims1; ints dims2] =
  ORet [errOf (validateMatMulDims dims1 dims2)].
Proof. exact @GoValidP2.run_ValidateMatMulDims. Qed.
Print Assumptions ValidateMatMulDims_run.

Theorem ValidateBinaryFuncDimsMatch_program_is_the_model_validator :
  forall (call : string -> list val -> outcome) (fuel : nat) (dims1 dims2 : list Z),
  S (Datatypes.length dims1) <= fuel ->
  exec call fuel (fbody GoFns.ValidateBinaryFuncDimsMatch)
    [("dims1", ints dims1); ("dims2", ints dims2)] =
  ORet [errOf (validateBinaryFuncDimsMatch dims1 dims2)].
Proof. exact @GoValidP2.go_ValidateBinaryFuncDimsMatch. Qed.
Print Assumptions ValidateBinaryFuncDimsMatch_program_is_the_model_validator.

Theorem ValidateBinaryFuncDimsMatch_run :
  forall (fuel : nat) (dims1 dims2 : list Z),
  S (Datatypes.length dims1) <= fuel ->
  run GoFns.ftab fuel GoFns.ValidateBinaryFuncDimsMatch [ints dims1; ints dims2] =
  ORet [errOf (validateBinaryFuncDimsMatch dims1 dims2)].
Proof. exact @GoValidP2.run_ValidateBinaryFuncDimsMatch. Qed.
Print Assumptions ValidateBinaryFuncDimsMatch_run.

Theorem ValidateConcatTensorsDimsAlongDim_program_is_the_model_validator :
  forall (call : string -> list val -> outcome) (fuel : nat) (tsDims : list (list Z)) (dim : Z),
  exec call fuel (fbody GoFns.ValidateConcatTensorsDimsAlongDim)
    [("tsDims", intss tsDims); ("dim", VI dim)] =
  match validateConcatTensorsDimsAlongDim tsDims dim with
  | Some b => ORet [errOf b]
  | None => OPanic
  end.
Proof. exact @GoValidP2.go_ValidateConcatTensorsDimsAlongDim_total. Qed.
Print Assumptions ValidateConcatTensorsDimsAlongDim_program_is_the_model_validator.

Theorem ValidateConcatTensorsDimsAlongDim_run :
  forall (fuel : nat) (tsDims : list (list Z)) (dim : Z) (b : bool),
  validateConcatTensorsDimsAlongDim tsDims dim = Some b ->
  run GoFns.ftab fuel GoFns.ValidateConcatTensorsDimsAlongDim [intss tsDims; VI dim] = ORet [errOf b].
Proof. exact @GoValidP2.run_ValidateConcatTensorsDimsAlongDim. Qed.
Print Assumptions ValidateConcatTensorsDimsAlongDim_run.

Theorem ValidateConcatTensorsDimsAlongDim_model_defined_on_nonempty :
  forall (tsDims : list (list Z)) (dim : Z),
  tsDims <> [] -> exists b : bool, validateConcatTensorsDimsAlongDim tsDims dim = Some b.
Proof. exact @GoValidP2.validateConcat_defined. Qed.
Print Assumptions ValidateConcatTensorsDimsAlongDim_model_defined_on_nonempty.

Theorem ValidateUnSqueezeDimAgainstDims_program_is_the_model_validator :
  forall (call : string -> list val -> outcome) (fuel : nat) (dim : Z) (dims : list Z),
  exec call fuel (fbody GoFns.ValidateUnSqueezeDimAgainstDims) [("dim", VI dim); ("dims", ints dims)] =
  ORet [errOf (validateUnSqueezeDim dim dims)].
Proof. exact @GoValidP3.go_ValidateUnSqueezeDimAgainstDims. Qed.
Print Assumptions ValidateUnSqueezeDimAgainstDims_program_is_the_model_validator.

Theorem ValidateUnSqueezeDimAgainstDims_run :
  forall (fuel : nat) (dim : Z) (dims : list Z),
  run GoFns.ftab fuel GoFns.ValidateUnSqueezeDimAgainstDims [VI dim; ints dims] =
  ORet [errOf (validateUnSqueezeDim dim dims)].
Proof. exact @GoValidP3.run_ValidateUnSqueezeDimAgainstDims. Qed.
Print Assumptions ValidateUnSqueezeDimAgainstDims_run.

Theorem ValidateFlattenDimAgainstDims_program_is_the_model_validator :
  forall (call : string -> list val -> outcome) (fuel : nat) (dim : Z) (dims : list Z),
  exec call fuel (fbody GoFns.ValidateFlattenDimAgainstDims) [("dim", VI dim); ("dims", ints dims)] =
  ORet [errOf (validateFlattenDim dim dims)].
Proof. exact @GoValidP3.go_ValidateFlattenDimAgainstDims. Qed.
Print Assumptions ValidateFlattenDimAgainstDims_program_is_the_model_validator.

Theorem ValidateFlattenDimAgainstDims_run :
  forall (fuel : nat) (dim : Z) (dims : list Z),
  run GoFns.ftab fuel GoFns.ValidateFlattenDimAgainstDims [VI dim; ints dims] =
  ORet [errOf (validateFlattenDim dim dims)].
Proof. exact @GoValidP3.run_ValidateFlattenDimAgainstDims. Qed.
Print Assumptions ValidateFlattenDimAgainstDims_run.

Theorem ValidateSqueezeDimAgainstDims_program_is_the_model_validator :
  forall (call : string -> list val -> outcome) (fuel : nat) (dim : Z) (dims : list Z),
  exec call fuel (fbody GoFns.ValidateSqueezeDimAgainstDims) [("dim", VI dim); ("dims", ints dims)] =
  ORet [errOf (validateSqueezeDim dim dims)].
Proof. exact @GoValidP3.go_ValidateSqueezeDimAgainstDims. Qed.
Print Assumptions ValidateSqueezeDimAgainstDims_program_is_the_model_validator.

Theorem ValidateSqueezeDimAgainstDims_run :
  forall (fuel : nat) (dim : Z) (dims : list Z),
  run GoFns.ftab fuel GoFns.ValidateSqueezeDimAgainstDims [VI dim; ints dims] =
  ORet [errOf (validateSqueezeDim dim dims)].
Proof. exact @GoValidP3.run_ValidateSqueezeDimAgainstDims. Qed.
Print Assumptions ValidateSqueezeDimAgainstDims_run.

Theorem ValidateReshapeSourceDimsAgainstTargetDims_program_is_the_model_validator :
  forall (fuel d : nat) (src dst : list Z),
  exec (callD GoFns.ftab fuel (S d)) fuel (fbody GoFns.ValidateReshapeSourceDimsAgainstTargetDims)
    [("srcDims", ints src); ("dstDims", ints dst)] = ORet [errOf (validateReshape src dst)].
Proof. exact @GoValidP3.go_ValidateReshapeSourceDimsAgainstTargetDims. Qed.
Print Assumptions ValidateReshapeSourceDimsAgainstTargetDims_program_is_the_model_validator.

Theorem ValidateReshapeSourceDimsAgainstTargetDims_run :
  forall (fuel : nat) (src dst : list Z),
  1 <= fuel ->
  run GoFns.ftab fuel GoFns.ValidateReshapeSourceDimsAgainstTargetDims [ints src; ints dst] =
  ORet [errOf (validateReshape src dst)].
Proof. exact @GoValidP3.run_ValidateReshapeSourceDimsAgainstTargetDims. Qed.
Print Assumptions ValidateReshapeSourceDimsAgainstTargetDims_run.

Theorem ValidateBroadcastSourceDimsAgainstTargetDims_program_is_the_model_validator :
  forall (call : string -> list val -> outcome) (fuel : nat) (src dst : list Z),
  S (Datatypes.length src) <= fuel ->
  exec call fuel (fbody GoFns.ValidateBroadcastSourceDimsAgainstTargetDims)
    [("srcDims", ints src); ("dstDims", ints dst)] = ORet [errOf (validateBroadcast src dst)].
Proof. exact @GoValidP3.go_ValidateBroadcastSourceDimsAgainstTargetDims. Qed.
Print Assumptions ValidateBroadcastSourceDimsAgainstTargetDims_program_is_the_model_validator.

Theorem ValidateBroadcastSourceDimsAgainstTargetDims_run :
  forall (fuel : nat) (src dst : list Z),
  S (Datatypes.length src) <= fuel ->
  run GoFns.ftab fuel GoFns.ValidateBroadcastSourceDimsAgainstTargetDims [ints src; ints dst] =
  ORet [errOf (validateBroadcast src dst)].
Proof. exact @GoValidP3.run_ValidateBroadcastSourceDimsAgainstTargetDims. Qed.
Print Assumptions ValidateBroadcastSourceDimsAgainstTargetDims_run.

Theorem dimsToNumElems_program_is_the_model_function :
  forall (call : string -> list val -> outcome) (fuel : nat) (dims : list Z),
  exec call fuel (fbody GoFns.dimsToNumElems) [("dims", ints dims)] = ORet [VI (dimsToNumElems dims)].
Proof. exact @GoValidP3.go_dimsToNumElems. Qed.
Print Assumptions dimsToNumElems_program_is_the_model_function.
