(* C05 — Reductions return the defined statistic of the whole tensor or of each fibre.
   Statements only (proofs: Proofs/ReduceP.v, Proofs/ReduceRP.v).  The first group holds for an
   arbitrary scalar type with NO laws: the value is the stated left fold in row-major order
   (exact also for IEEE doubles):   sumL xs = fold_left sadd xs 0,   maxL / minL = fold with
   "if a > b {a} else {b}" from -Inf / +Inf,   meanL = sumL / n,   varL = if 1 < n then
   Σ (x - mean)^2 / (n - 1) else 0,   stdL = sqrt varL;   redL picks the one for the reducer.
   The Along forms: shape = operand's with dim removed, element = the same statistic of the
   one-dimensional fibre [t[i_0..i_{d-1}, k, i_d..] | k < n_d] taken in order.
   The second group reads the folds over the reals. *)
From Coq Require Import List ZArith Bool Reals.
From Qeep Require Import Model.Scalar Model.Nd Model.Data Model.Valid Model.Api.
From Qeep Require Import Proofs.NdP Proofs.ReduceP Proofs.ReduceRP Spec.RScalar.
Import ListNotations.

Theorem whole_tensor_reducers_are_the_folds :
  forall (A : Type) (SA : Scalar A) (t : tensor A),
  wf t -> forall rd : reducer, v_reduce rd t = Ok (redL rd (flat (data t))).
Proof. exact @ReduceP.v_reduce_spec. Qed.
Print Assumptions whole_tensor_reducers_are_the_folds.

Theorem variance_of_single_element_is_zero :
  forall (A : Type) (SA : Scalar A) (t : tensor A), wf t -> prodn (dims t) = 1%nat -> r_var t = Some s0.
Proof. exact @r_var_single. Qed.
Print Assumptions variance_of_single_element_is_zero.

Theorem along_shape_and_errors :
  forall (A : Type) (SA : Scalar A) (rd : reducer) (t : tensor A) (dim : Z),
  wf t ->
  ((0 <= dim < Z.of_nat (length (dims t)))%Z ->
   exists r : tensor A,
     v_reduceAlong rd t dim = Ok r /\
     reduceAlong rd t (Z.to_nat dim) = Some r /\ dims r = squeezeDims (Z.to_nat dim) (dims t) /\ wf r) /\
  (~ (0 <= dim < Z.of_nat (length (dims t)))%Z -> v_reduceAlong rd t dim = Err).
Proof. exact @v_reduceAlong_spec. Qed.
Print Assumptions along_shape_and_errors.

Theorem along_never_panics :
  forall (A : Type) (SA : Scalar A) (rd : reducer) (t : tensor A) (dim : Z),
  wf t -> v_reduceAlong rd t dim <> Panic.
Proof. exact @v_reduceAlong_never_panics. Qed.
Print Assumptions along_never_panics.

Theorem along_elements_are_statistics_of_fibres :
  forall (A : Type) (SA : Scalar A) (rd : reducer) (t : tensor A) (dim : Z),
  wf t ->
  (0 <= dim < Z.of_nat (length (dims t)))%Z ->
  let d := Z.to_nat dim in
  exists r : tensor A,
    v_reduceAlong rd t dim = Ok r /\
    dims r = squeezeDims d (dims t) /\
    wf r /\
    (forall idx : list nat,
     validIdx (squeezeDims d (dims t)) idx ->
     exists fibre : list A,
       map Some fibre =
       map (fun k : nat => get (data t) (firstn d idx ++ k :: skipn d idx))
         (seq 0 (nth d (dims t) 0%nat)) /\ get (data r) idx = Some (redL rd fibre)).
Proof. exact @v_reduceAlong_elems. Qed.
Print Assumptions along_elements_are_statistics_of_fibres.

Theorem sum_fold_is_the_sum :
  forall (thr : R) (draw : bool -> nat -> R) (xs : list R), @sumL R (RS thr draw) xs = Rsum xs.
Proof. exact @sum_is_sum. Qed.
Print Assumptions sum_fold_is_the_sum.

Theorem mean_fold_is_arithmetic_mean :
  forall (thr : R) (draw : bool -> nat -> R) (xs : list R),
  @meanL R (RS thr draw) xs = Rsum xs / INR (@length R xs).
Proof. exact @mean_is_arithmetic_mean. Qed.
Print Assumptions mean_fold_is_arithmetic_mean.

Theorem var_fold_is_unbiased_sample_variance :
  forall (thr : R) (draw : bool -> nat -> R) (xs : list R),
  @varL R (RS thr draw) xs =
  (if 1 <? @length R xs
   then
    Rsum (@map R R (fun x : R => (x - @meanL R (RS thr draw) xs) * (x - @meanL R (RS thr draw) xs)) xs) /
    (INR (@length R xs) - 1)
   else 0).
Proof. exact @var_is_unbiased_sample_variance. Qed.
Print Assumptions var_fold_is_unbiased_sample_variance.

Theorem std_is_sqrt_of_var :
  forall (thr : R) (draw : bool -> nat -> R) (xs : list R),
  @stdL R (RS thr draw) xs = sqrt (@varL R (RS thr draw) xs).
Proof. exact @std_is_root_of_variance. Qed.
Print Assumptions std_is_sqrt_of_var.

Theorem max_fold_is_attained_upper_bound :
  forall (xs : list R) (m0 : R),
  let m := fold_left (fun a b : R => if Rgt_dec a b then a else b) xs m0 in
  m0 <= m /\ (forall x : R, In x xs -> x <= m) /\ (m = m0 \/ In m xs).
Proof. exact @max_fold_upper_bound_attained. Qed.
Print Assumptions max_fold_is_attained_upper_bound.

Theorem min_fold_is_attained_lower_bound :
  forall (xs : list R) (m0 : R),
  let m := fold_left (fun a b : R => if Rlt_dec a b then a else b) xs m0 in
  m <= m0 /\ (forall x : R, In x xs -> m <= x) /\ (m = m0 \/ In m xs).
Proof. exact @min_fold_lower_bound_attained. Qed.
Print Assumptions min_fold_is_attained_lower_bound.
