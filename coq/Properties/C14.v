(* C14 — Activations compute their defining function along the configured dimension.
   Statements only (proofs: Proofs/CompP.v; Softmax: Proofs/SoftmaxP.v; real-number readings
   max(0,x), max(0,x)+m*min(0,x), 1/(1+e^-x), sums-to-one: Proofs/CompRP.v, SoftmaxRP.v when
   present).  Arbitrary scalar type: the element of the result IS the stated expression of the
   input element (exact for doubles), the result has the input's shape, the call never panics,
   and anything but exactly one non-nil input is an error that leaves the heap unchanged.
     produces h call r name   the call succeeds, appends nodes only, its result value is r;
     pw1 F x r                dims r = dims x, r well formed, r[idx] = F (x[idx]) everywhere. *)
From Coq Require Import List ZArith Bool.
From Qeep Require Import Model.Scalar Model.Nd Model.Data Model.Api Model.Grad Model.Components.
From Coq Require Import Reals.
From Qeep Require Import Proofs.NdP Proofs.CompP Spec.RScalar Proofs.CompRP Proofs.SoftmaxP Proofs.SoftmaxRP.
Import ListNotations.

Theorem relu_value :
  forall (A : Type) (SA : Scalar A) (h : heap) (x : nat) (name : option nat) (xv : tensor A),
  valOf h x = Some xv ->
  wf xv -> exists r : tensor A, produces h (relu_forward h [Some x] name) r name /\ pw1 reluF xv r.
Proof. exact @relu_forward_spec. Qed.
Print Assumptions relu_value.

Theorem leaky_relu_value :
  forall (A : Type) (SA : Scalar A) (h : heap) (m : A) (x : nat) (name : option nat) (xv : tensor A),
  valOf h x = Some xv ->
  wf xv ->
  exists r : tensor A, produces h (leaky_forward h m [Some x] name) r name /\ pw1 (leakyF m) xv r.
Proof. exact @leaky_forward_spec. Qed.
Print Assumptions leaky_relu_value.

Theorem sigmoid_value :
  forall (A : Type) (SA : Scalar A) (h : heap) (x : nat) (name : option nat) (xv : tensor A),
  valOf h x = Some xv ->
  wf xv -> exists r : tensor A, produces h (sigmoid_forward h [Some x] name) r name /\ pw1 sigmoidF xv r.
Proof. exact @sigmoid_forward_spec. Qed.
Print Assumptions sigmoid_value.

Theorem tanh_value :
  forall (A : Type) (SA : Scalar A) (h : heap) (x : nat) (name : option nat) (xv : tensor A),
  valOf h x = Some xv ->
  wf xv -> exists r : tensor A, produces h (tanh_forward h [Some x] name) r name /\ pw1 stanh xv r.
Proof. exact @tanh_forward_spec. Qed.
Print Assumptions tanh_value.

Theorem wrong_inputs_are_rejected :
  forall (A : Type) (SA : Scalar A) (h : heap) (m : A) (xs : list targ) (name : option nat),
  oneInput xs = None ->
  relu_forward h xs name = (h, Err) /\
  leaky_forward h m xs name = (h, Err) /\
  sigmoid_forward h xs name = (h, Err) /\ tanh_forward h xs name = (h, Err).
Proof. exact @activations_reject. Qed.
Print Assumptions wrong_inputs_are_rejected.

Theorem failed_call_leaves_heap_unchanged :
  forall (A : Type) (SA : Scalar A) (h : heap) (m : A) (xs : list targ) (name : option nat),
  let unchanged := fun hr : hres => (forall id : nat, snd hr <> Ok id) -> fst hr = h in
  unchanged (relu_forward h xs name) /\
  unchanged (leaky_forward h m xs name) /\
  unchanged (sigmoid_forward h xs name) /\ unchanged (tanh_forward h xs name).
Proof. exact @activations_fail_frame. Qed.
Print Assumptions failed_call_leaves_heap_unchanged.

Theorem softmax_value :
  forall (A : Type) (SA : Scalar A) (h : heap) (dim x : nat) (name : option nat) (xv : tensor A),
  valOf h x = Some xv ->
  wf xv ->
  (dim < length (dims xv))%nat ->
  exists r : tensor A,
    produces h (softmax_forward h dim [Some x] name) r name /\
    dims r = dims xv /\
    wf r /\
    (forall idx : list nat,
     validIdx (dims xv) idx ->
     get (data r) idx =
     Some
       (sdiv (sexp (MatMulP.elt (data xv) idx))
          (fold_left sadd
             (map (fun k : nat => sexp (MatMulP.elt (data xv) (setAt dim k idx)))
                (seq 0 (nth dim (dims xv) 0%nat))) s0))).
Proof. exact @softmax_forward_spec. Qed.
Print Assumptions softmax_value.

Theorem softmax_rejects_low_rank_or_wrong_inputs :
  forall (A : Type) (SA : Scalar A) (h : heap) (dim : nat) (xs : list targ) (name : option nat),
  (oneInput xs = None -> softmax_forward h dim xs name = (h, Err)) /\
  (forall x : nat, xs = [Some x] -> (rankOf h x <= dim)%nat -> softmax_forward h dim xs name = (h, Err)).
Proof. exact @softmax_rejects. Qed.
Print Assumptions softmax_rejects_low_rank_or_wrong_inputs.

Theorem relu_is_max_0_x :
  forall (thr : R) (draw : bool -> nat -> R) (h : @heap R) (x : nat) (name : option nat) (xv : tensor R),
  @valOf R h x = @Some (tensor R) xv ->
  @wf R xv ->
  exists r : tensor R,
    @produces R h (@relu_forward R (CompRP.RS thr draw) h [@Some nat x] name) r name /\
    @pw1 R (fun e : R => Rmax 0 e) xv r.
Proof. exact @relu_forward_real. Qed.
Print Assumptions relu_is_max_0_x.

Theorem leaky_is_max_plus_m_min :
  forall (thr : R) (draw : bool -> nat -> R) (h : @heap R) (m : R) (x : nat) 
    (name : option nat) (xv : tensor R),
  @valOf R h x = @Some (tensor R) xv ->
  @wf R xv ->
  exists r : tensor R,
    @produces R h (@leaky_forward R (CompRP.RS thr draw) h m [@Some nat x] name) r name /\
    @pw1 R (fun e : R => Rmax 0 e + m * Rmin 0 e) xv r.
Proof. exact @leaky_forward_real. Qed.
Print Assumptions leaky_is_max_plus_m_min.

Theorem sigmoid_is_logistic :
  forall (thr : R) (draw : bool -> nat -> R) (h : @heap R) (x : nat) (name : option nat) (xv : tensor R),
  @valOf R h x = @Some (tensor R) xv ->
  @wf R xv ->
  exists r : tensor R,
    @produces R h (@sigmoid_forward R (CompRP.RS thr draw) h [@Some nat x] name) r name /\
    @pw1 R (fun e : R => / (1 + exp (- e))) xv r.
Proof. exact @sigmoid_forward_real. Qed.
Print Assumptions sigmoid_is_logistic.

Theorem tanh_is_tanh :
  forall (thr : R) (draw : bool -> nat -> R) (h : @heap R) (x : nat) (name : option nat) (xv : tensor R),
  @valOf R h x = @Some (tensor R) xv ->
  @wf R xv ->
  exists r : tensor R,
    @produces R h (@tanh_forward R (CompRP.RS thr draw) h [@Some nat x] name) r name /\ @pw1 R tanh xv r.
Proof. exact @tanh_forward_real. Qed.
Print Assumptions tanh_is_tanh.

Theorem sigmoid_in_open_unit_interval :
  forall (thr : R) (draw : bool -> nat -> R) (e : R), 0 < @sigmoidF R (CompRP.RS thr draw) e < 1.
Proof. exact @sigmoid_range. Qed.
Print Assumptions sigmoid_in_open_unit_interval.

Theorem leaky_default_slope :
  dec2R (fst Consts.c_leaky_m) (snd Consts.c_leaky_m) = 0.01.
Proof. exact @leaky_default_slope. Qed.
Print Assumptions leaky_default_slope.

Theorem softmax_is_exp_over_sum_positive_and_sums_to_one :
  forall (thr : R) (draw : bool -> nat -> R) (h : @heap R) (dim x : nat) (name : option nat)
    (xv : tensor R),
  @valOf R h x = @Some (tensor R) xv ->
  @wf R xv ->
  (dim < @length nat (@dims R xv))%nat ->
  exists r : tensor R,
    @produces R h (@softmax_forward R (RS thr draw) h dim [@Some nat x] name) r name /\
    @dims R r = @dims R xv /\
    @wf R r /\
    (forall idx : list nat,
     validIdx (@dims R xv) idx ->
     exists (xi : R) (xs : list R),
       @get R (@data R xv) idx = @Some R xi /\
       @map R (option R) (@Some R) xs =
       @map nat (option R) (fun k : nat => @get R (@data R xv) (setAt dim k idx))
         (seq 0 (@nth nat dim (@dims R xv) 0%nat)) /\
       @get R (@data R r) idx = @Some R (exp xi / ReduceRP.Rsum (@map R R exp xs)) /\
       0 < exp xi / ReduceRP.Rsum (@map R R exp xs)) /\
    (forall idx : list nat,
     validIdx (@dims R xv) idx ->
     exists ys : list R,
       @map R (option R) (@Some R) ys =
       @map nat (option R) (fun k : nat => @get R (@data R r) (setAt dim k idx))
         (seq 0 (@nth nat dim (@dims R xv) 0%nat)) /\ ReduceRP.Rsum ys = 1).
Proof. exact @softmax_forward_spec_R. Qed.
Print Assumptions softmax_is_exp_over_sum_positive_and_sums_to_one.
