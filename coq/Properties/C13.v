(* C13 — Loss gradients with respect to predictions equal the analytic derivatives.
   Statements only (proofs: Proofs/GradLossP.v, GradMseP.v, GradBceP.v, GradCeP.v).  Over the reals.
   h is ANY heap built through the API (rules_own, wf_heap), p a tracked, not-spent prediction — a
   leaf or the result of earlier tracked operations: NO hypothesis restricts p's own back edges —
   t an untracked target, g0 p's previous gradient (none or a tensor of p's shape).  After the loss
   is computed and BackPropagate is called on it, WHATEVER happens below p:
     p holds  g0 + G  with G of p's shape, t's gradient is unchanged, no value changes,
   and back-propagation never fails when p is a leaf; an untracked prediction receives nothing.
   G is: MSE 2(p-t)/N; BCE ((1-t')/(1-p) - t'/p)/N and CE -(t'/p)/N (t' the target clipped to [0,1],
   = t for targets in [0,1]) at every prediction strictly inside the clipping interval, and exactly 0
   where the prediction is clipped, including p = 0 and p = 1 (the Pow(0) ones-like constants
   contribute exactly zero: fix F4).  The formulas are stated with the library's equality threshold
   thr as a parameter (guards eps+thr < p < ome-thr); at thr = 0 they are the property's guards
   (ce_grad_formula_thr0); the constant in the source is 1e-240, far below the spacing of doubles at
   the clipping bounds.  All implicit broadcasts inside the losses are same-shape, so the theorems
   hold for either variant of the Broadcast back edge. *)
From Coq Require Import List ZArith Bool Reals.
From Qeep Require Import Model.Scalar Model.Nd Model.Data Model.Api Model.Grad Model.Backprop Model.Components.
From Qeep Require Import Proofs.NdP Proofs.BackpropP Proofs.LossP Spec.RScalar Spec.VjpSpec Proofs.GradLossP.
From Qeep Require Proofs.GradMseP Proofs.GradBceP Proofs.GradCeP.
Import ListNotations.

Theorem mse_gradient :
  forall (thr : R) (draw : bool -> nat -> R) (rd : bred) (h : @heap R) (p t : nat) 
    (name : option nat) (pv tv : tensor R) (g0 : option (tensor R)) (h1 : @heap R) 
    (l : nat),
  @rules_own R h ->
  @wf_heap R h ->
  @valOf R h p = @Some (tensor R) pv ->
  @wf R pv ->
  @valOf R h t = @Some (tensor R) tv ->
  @wf R tv ->
  @trackedOf R h p = true ->
  @dirtyOf R h p = false ->
  @trackedOf R h t = false ->
  @dirtyOf R h t = false ->
  @lossArgs1 R h (@Some nat p) (@Some nat t) = @Some (nat * nat) (p, t) ->
  @gradOf R h p = g0 ->
  prior_ok (@dims R pv) g0 ->
  @mse_compute R (R_scalar thr draw) h (@Some nat p) (@Some nat t) name = (h1, @Ok nat l) ->
  forall (h2 : @heap R) (log : list (nat * tensor R)) (r : res unit),
  @bp_topo R (R_scalar thr draw) rd (fun (_ : option nat) (g : tensor R) => g) h1 l = (h2, log, r) ->
  (exists g : tensor R,
     @gradOf R h2 p = @Some (tensor R) g /\
     @dims R g = @dims R pv /\
     @wf R g /\
     @acc1 R (R_scalar thr draw) g0 (GradMseP.mseG pv tv) =
     @Some (option (tensor R)) (@Some (tensor R) g)) /\
  @gradOf R h2 t = @gradOf R h1 t /\ (forall i : nat, @valOf R h2 i = @valOf R h1 i).
Proof. exact @GradMseP.mse_grad. Qed.
Print Assumptions mse_gradient.

Theorem mse_gradient_leaf_never_fails :
  forall (thr : R) (draw : bool -> nat -> R) (rd : bred) (h : @heap R) (p t : nat) 
    (name : option nat) (pv tv : tensor R) (g0 : option (tensor R)) (h1 : @heap R) 
    (l : nat),
  @rules_own R h ->
  @wf_heap R h ->
  @valOf R h p = @Some (tensor R) pv ->
  @wf R pv ->
  @valOf R h t = @Some (tensor R) tv ->
  @wf R tv ->
  @trackedOf R h p = true ->
  @dirtyOf R h p = false ->
  @trackedOf R h t = false ->
  @dirtyOf R h t = false ->
  @lossArgs1 R h (@Some nat p) (@Some nat t) = @Some (nat * nat) (p, t) ->
  @gradOf R h p = g0 ->
  prior_ok (@dims R pv) g0 ->
  @mse_compute R (R_scalar thr draw) h (@Some nat p) (@Some nat t) name = (h1, @Ok nat l) ->
  @edgesOf R h p = [] ->
  exists (h2 : @heap R) (log : list (nat * tensor R)),
    @bp_topo R (R_scalar thr draw) rd (fun (_ : option nat) (g : tensor R) => g) h1 l =
    (h2, log, @Ok unit tt) /\
    (exists g : tensor R,
       @gradOf R h2 p = @Some (tensor R) g /\
       @dims R g = @dims R pv /\
       @wf R g /\
       @acc1 R (R_scalar thr draw) g0 (GradMseP.mseG pv tv) =
       @Some (option (tensor R)) (@Some (tensor R) g)) /\
    @gradOf R h2 t = @gradOf R h1 t /\ (forall i : nat, @valOf R h2 i = @valOf R h1 i).
Proof. exact @GradMseP.mse_grad_leaf. Qed.
Print Assumptions mse_gradient_leaf_never_fails.

Theorem mse_untracked_prediction_gets_none :
  forall (thr : R) (draw : bool -> nat -> R) (rd : bred) (sealg : option nat -> tensor R -> tensor R)
    (h : @heap R) (p t : nat) (name : option nat) (pv tv : tensor R) (h1 : @heap R) 
    (l : nat),
  @valOf R h p = @Some (tensor R) pv ->
  @valOf R h t = @Some (tensor R) tv ->
  @trackedOf R h p = false ->
  @dirtyOf R h p = false ->
  @trackedOf R h t = false ->
  @dirtyOf R h t = false ->
  @lossArgs1 R h (@Some nat p) (@Some nat t) = @Some (nat * nat) (p, t) ->
  @mse_compute R (R_scalar thr draw) h (@Some nat p) (@Some nat t) name = (h1, @Ok nat l) ->
  @bp_topo R (R_scalar thr draw) rd sealg h1 l = (h1, [], @Ok unit tt).
Proof. exact @GradMseP.mse_grad_untracked. Qed.
Print Assumptions mse_untracked_prediction_gets_none.

Theorem mse_instance :
  forall (thr : R) (draw : bool -> nat -> R) (rd : bred),
  exists (h1 : @heap R) (l : nat) (h2 : @heap R) (log : list (nat * tensor R)) 
  (g : tensor R),
    @mse_compute R (R_scalar thr draw) GradMseP.exH (@Some nat 0%nat) (@Some nat 1%nat) (@None nat) =
    (h1, @Ok nat l) /\
    @bp_topo R (R_scalar thr draw) rd (fun (_ : option nat) (g0 : tensor R) => g0) h1 l =
    (h2, log, @Ok unit tt) /\
    @gradOf R h2 0 = @Some (tensor R) g /\ @dims R g = [2%nat] /\ elt g [0%nat] = 1 /\ elt g [1%nat] = 2.
Proof. exact @GradMseP.mse_grad_ex. Qed.
Print Assumptions mse_instance.

Theorem bce_gradient :
  forall (thr : R) (draw : bool -> nat -> R) (eps ome : R) (rd : bred) (h : @heap R) 
    (p t : nat) (name : option nat) (pv tv : tensor R) (g0 : option (tensor R)) 
    (h1 : @heap R) (l : nat),
  @rules_own R h ->
  @wf_heap R h ->
  @valOf R h p = @Some (tensor R) pv ->
  @wf R pv ->
  @valOf R h t = @Some (tensor R) tv ->
  @wf R tv ->
  @trackedOf R h p = true ->
  @dirtyOf R h p = false ->
  @trackedOf R h t = false ->
  @dirtyOf R h t = false ->
  @lossArgs1 R h (@Some nat p) (@Some nat t) = @Some (nat * nat) (p, t) ->
  @gradOf R h p = g0 ->
  prior_ok (@dims R pv) g0 ->
  @bce_compute R (R_scalar thr draw) eps ome h (@Some nat p) (@Some nat t) name = (h1, @Ok nat l) ->
  forall (h2 : @heap R) (log : list (nat * tensor R)) (r : res unit),
  @bp_topo R (R_scalar thr draw) rd (fun (_ : option nat) (g : tensor R) => g) h1 l = (h2, log, r) ->
  (exists g : tensor R,
     @gradOf R h2 p = @Some (tensor R) g /\
     @dims R g = @dims R pv /\
     @wf R g /\
     @acc1 R (R_scalar thr draw) g0 (GradBceP.bceG thr eps ome pv tv) =
     @Some (option (tensor R)) (@Some (tensor R) g)) /\
  @gradOf R h2 t = @gradOf R h1 t /\ (forall i : nat, @valOf R h2 i = @valOf R h1 i).
Proof. exact @GradBceP.bce_grad. Qed.
Print Assumptions bce_gradient.

Theorem bce_gradient_leaf_never_fails :
  forall (thr : R) (draw : bool -> nat -> R) (eps ome : R) (rd : bred) (h : @heap R) 
    (p t : nat) (name : option nat) (pv tv : tensor R) (g0 : option (tensor R)) 
    (h1 : @heap R) (l : nat),
  @rules_own R h ->
  @wf_heap R h ->
  @valOf R h p = @Some (tensor R) pv ->
  @wf R pv ->
  @valOf R h t = @Some (tensor R) tv ->
  @wf R tv ->
  @trackedOf R h p = true ->
  @dirtyOf R h p = false ->
  @trackedOf R h t = false ->
  @dirtyOf R h t = false ->
  @lossArgs1 R h (@Some nat p) (@Some nat t) = @Some (nat * nat) (p, t) ->
  @gradOf R h p = g0 ->
  prior_ok (@dims R pv) g0 ->
  @bce_compute R (R_scalar thr draw) eps ome h (@Some nat p) (@Some nat t) name = (h1, @Ok nat l) ->
  @edgesOf R h p = [] ->
  exists (h2 : @heap R) (log : list (nat * tensor R)),
    @bp_topo R (R_scalar thr draw) rd (fun (_ : option nat) (g : tensor R) => g) h1 l =
    (h2, log, @Ok unit tt) /\
    (exists g : tensor R,
       @gradOf R h2 p = @Some (tensor R) g /\
       @dims R g = @dims R pv /\
       @wf R g /\
       @acc1 R (R_scalar thr draw) g0 (GradBceP.bceG thr eps ome pv tv) =
       @Some (option (tensor R)) (@Some (tensor R) g)) /\
    @gradOf R h2 t = @gradOf R h1 t /\ (forall i : nat, @valOf R h2 i = @valOf R h1 i).
Proof. exact @GradBceP.bce_grad_leaf. Qed.
Print Assumptions bce_gradient_leaf_never_fails.

Theorem bce_untracked_prediction_gets_none :
  forall (thr : R) (draw : bool -> nat -> R) (eps ome : R) (rd : bred)
    (sealg : option nat -> tensor R -> tensor R) (h : @heap R) (p t : nat) (name : option nat)
    (pv tv : tensor R) (h1 : @heap R) (l : nat),
  @valOf R h p = @Some (tensor R) pv ->
  @valOf R h t = @Some (tensor R) tv ->
  @trackedOf R h p = false ->
  @dirtyOf R h p = false ->
  @trackedOf R h t = false ->
  @dirtyOf R h t = false ->
  @lossArgs1 R h (@Some nat p) (@Some nat t) = @Some (nat * nat) (p, t) ->
  @bce_compute R (R_scalar thr draw) eps ome h (@Some nat p) (@Some nat t) name = (h1, @Ok nat l) ->
  @bp_topo R (R_scalar thr draw) rd sealg h1 l = (h1, [], @Ok unit tt).
Proof. exact @GradBceP.bce_grad_untracked. Qed.
Print Assumptions bce_untracked_prediction_gets_none.

Theorem bce_formula :
  forall (thr eps ome : R) (pv tv : tensor R) (N : nat) (idx : list nat),
  0 <= thr ->
  0 < eps ->
  eps < ome ->
  ome < 1 ->
  dims pv = [N] ->
  validIdx [N] idx ->
  let x := elt pv idx in
  let t := elt tv idx in
  dims (GradBceP.bceG thr eps ome pv tv) = [N] /\
  wf (GradBceP.bceG thr eps ome pv tv) /\
  (eps + thr < x ->
   x < ome - thr ->
   elt (GradBceP.bceG thr eps ome pv tv) idx =
   ((1 - GradBceP.bclip01 t) / (1 - x) - GradBceP.bclip01 t / x) / INR N) /\
  (eps + thr < x ->
   x < ome - thr ->
   0 <= t <= 1 -> elt (GradBceP.bceG thr eps ome pv tv) idx = ((1 - t) / (1 - x) - t / x) / INR N) /\
  (x < eps - thr -> elt (GradBceP.bceG thr eps ome pv tv) idx = 0) /\
  (ome + thr < x -> elt (GradBceP.bceG thr eps ome pv tv) idx = 0) /\
  (thr < eps -> x = 0 -> elt (GradBceP.bceG thr eps ome pv tv) idx = 0) /\
  (ome + thr < 1 -> x = 1 -> elt (GradBceP.bceG thr eps ome pv tv) idx = 0).
Proof. exact @GradBceP.bce_grad_formula. Qed.
Print Assumptions bce_formula.

Theorem bce_formula_exact_ties :
  forall (eps ome : R) (pv tv : tensor R) (N : nat) (idx : list nat),
  0 < eps ->
  eps < ome ->
  ome < 1 ->
  dims pv = [N] ->
  validIdx [N] idx ->
  let x := elt pv idx in
  let t := elt tv idx in
  (eps < x ->
   x < ome ->
   elt (GradBceP.bceG 0 eps ome pv tv) idx =
   ((1 - GradBceP.bclip01 t) / (1 - x) - GradBceP.bclip01 t / x) / INR N) /\
  (eps < x ->
   x < ome ->
   0 <= t <= 1 -> elt (GradBceP.bceG 0 eps ome pv tv) idx = ((1 - t) / (1 - x) - t / x) / INR N) /\
  (x < eps \/ ome < x -> elt (GradBceP.bceG 0 eps ome pv tv) idx = 0) /\
  (x = 0 \/ x = 1 -> elt (GradBceP.bceG 0 eps ome pv tv) idx = 0).
Proof. exact @GradBceP.bce_grad_formula_thr0. Qed.
Print Assumptions bce_formula_exact_ties.

Theorem bce_gradient_elementwise :
  forall (thr : R) (draw : bool -> nat -> R) (eps ome : R) (rd : bred) (h : @heap R) 
    (p t : nat) (name : option nat) (pv tv : tensor R) (g0 : option (tensor R)) 
    (h1 : @heap R) (l N : nat),
  0 <= thr ->
  0 < eps ->
  eps < ome ->
  ome < 1 ->
  @rules_own R h ->
  @wf_heap R h ->
  @valOf R h p = @Some (tensor R) pv ->
  @wf R pv ->
  @valOf R h t = @Some (tensor R) tv ->
  @wf R tv ->
  @trackedOf R h p = true ->
  @dirtyOf R h p = false ->
  @trackedOf R h t = false ->
  @dirtyOf R h t = false ->
  @lossArgs1 R h (@Some nat p) (@Some nat t) = @Some (nat * nat) (p, t) ->
  @gradOf R h p = g0 ->
  prior_ok (@dims R pv) g0 ->
  @bce_compute R (R_scalar thr draw) eps ome h (@Some nat p) (@Some nat t) name = (h1, @Ok nat l) ->
  @dims R pv = [N] ->
  forall (h2 : @heap R) (log : list (nat * tensor R)) (r : res unit),
  @bp_topo R (R_scalar thr draw) rd (fun (_ : option nat) (g : tensor R) => g) h1 l = (h2, log, r) ->
  exists g : tensor R,
    @gradOf R h2 p = @Some (tensor R) g /\
    @dims R g = [N] /\
    @wf R g /\
    (forall idx : list nat,
     validIdx [N] idx ->
     let pe := elt pv idx in
     let te := elt tv idx in
     (eps + thr < pe ->
      pe < ome - thr ->
      elt g idx =
      prior g0 idx + ((1 - GradBceP.bclip01 te) / (1 - pe) - GradBceP.bclip01 te / pe) / INR N) /\
     (eps + thr < pe ->
      pe < ome - thr ->
      0 <= te <= 1 -> elt g idx = prior g0 idx + ((1 - te) / (1 - pe) - te / pe) / INR N) /\
     (pe < eps - thr \/ ome + thr < pe -> elt g idx = prior g0 idx) /\
     (thr < eps /\ pe = 0 \/ ome + thr < 1 /\ pe = 1 -> elt g idx = prior g0 idx)).
Proof. exact @GradBceP.bce_grad_elementwise. Qed.
Print Assumptions bce_gradient_elementwise.

Theorem bce_near_lower_bound_half :
  forall (thr eps ome : R) (N : nat) (x t : R),
  0 <= thr ->
  0 < eps ->
  ome < 1 ->
  (0 < N)%nat ->
  eps <= x ->
  x <= eps + thr ->
  x < ome - thr ->
  GradBceP.bceD thr eps ome N x t =
  / 2 * (((1 - GradBceP.bclip01 t) / (1 - x) - GradBceP.bclip01 t / x) / INR N).
Proof. exact @GradBceP.bceD_near_eps. Qed.
Print Assumptions bce_near_lower_bound_half.

Theorem bce_near_upper_bound_half :
  forall (thr eps ome : R) (N : nat) (x t : R),
  0 <= thr ->
  0 < eps ->
  ome < 1 ->
  (0 < N)%nat ->
  eps + thr < x ->
  ome - thr <= x ->
  x <= ome ->
  GradBceP.bceD thr eps ome N x t =
  / 2 * (((1 - GradBceP.bclip01 t) / (1 - x) - GradBceP.bclip01 t / x) / INR N).
Proof. exact @GradBceP.bceD_near_ome. Qed.
Print Assumptions bce_near_upper_bound_half.

Theorem bce_instance :
  forall (draw : bool -> nat -> R) (rd : bred),
  exists (h1 : @heap R) (l : nat) (h2 : @heap R) (log : list (nat * tensor R)) 
  (g : tensor R),
    @bce_compute R (R_scalar 0 draw) (1 / 4) (3 / 4) GradBceP.bexH (@Some nat 0%nat) 
      (@Some nat 1%nat) (@None nat) = (h1, @Ok nat l) /\
    @bp_topo R (R_scalar 0 draw) rd (fun (_ : option nat) (g0 : tensor R) => g0) h1 l =
    (h2, log, @Ok unit tt) /\
    @gradOf R h2 0 = @Some (tensor R) g /\
    @dims R g = [2%nat] /\ elt g [0%nat] = -1 /\ elt g [1%nat] = 0.
Proof. exact @GradBceP.bce_grad_ex. Qed.
Print Assumptions bce_instance.

Theorem ce_gradient :
  forall (thr : R) (draw : bool -> nat -> R) (eps ome : R) (rd : bred) (h : @heap R) 
    (p t : nat) (name : option nat) (pv tv : tensor R) (g0 : option (tensor R)) 
    (h1 : @heap R) (l : nat),
  @rules_own R h ->
  @wf_heap R h ->
  @valOf R h p = @Some (tensor R) pv ->
  @wf R pv ->
  @valOf R h t = @Some (tensor R) tv ->
  @wf R tv ->
  @trackedOf R h p = true ->
  @dirtyOf R h p = false ->
  @trackedOf R h t = false ->
  @dirtyOf R h t = false ->
  @ceArgs R h (@Some nat p) (@Some nat t) = @Some (nat * nat) (p, t) ->
  @gradOf R h p = g0 ->
  prior_ok (@dims R pv) g0 ->
  @ce_compute R (R_scalar thr draw) eps ome h (@Some nat p) (@Some nat t) name = (h1, @Ok nat l) ->
  forall (h2 : @heap R) (log : list (nat * tensor R)) (r : res unit),
  @bp_topo R (R_scalar thr draw) rd (fun (_ : option nat) (g : tensor R) => g) h1 l = (h2, log, r) ->
  (exists g : tensor R,
     @gradOf R h2 p = @Some (tensor R) g /\
     @dims R g = @dims R pv /\
     @wf R g /\
     @acc1 R (R_scalar thr draw) g0 (GradCeP.ceG thr eps ome pv tv) =
     @Some (option (tensor R)) (@Some (tensor R) g)) /\
  @gradOf R h2 t = @gradOf R h1 t /\ (forall i : nat, @valOf R h2 i = @valOf R h1 i).
Proof. exact @GradCeP.ce_grad. Qed.
Print Assumptions ce_gradient.

Theorem ce_gradient_leaf_never_fails :
  forall (thr : R) (draw : bool -> nat -> R) (eps ome : R) (rd : bred) (h : @heap R) 
    (p t : nat) (name : option nat) (pv tv : tensor R) (g0 : option (tensor R)) 
    (h1 : @heap R) (l : nat),
  @rules_own R h ->
  @wf_heap R h ->
  @valOf R h p = @Some (tensor R) pv ->
  @wf R pv ->
  @valOf R h t = @Some (tensor R) tv ->
  @wf R tv ->
  @trackedOf R h p = true ->
  @dirtyOf R h p = false ->
  @trackedOf R h t = false ->
  @dirtyOf R h t = false ->
  @ceArgs R h (@Some nat p) (@Some nat t) = @Some (nat * nat) (p, t) ->
  @gradOf R h p = g0 ->
  prior_ok (@dims R pv) g0 ->
  @ce_compute R (R_scalar thr draw) eps ome h (@Some nat p) (@Some nat t) name = (h1, @Ok nat l) ->
  @edgesOf R h p = [] ->
  exists (h2 : @heap R) (log : list (nat * tensor R)),
    @bp_topo R (R_scalar thr draw) rd (fun (_ : option nat) (g : tensor R) => g) h1 l =
    (h2, log, @Ok unit tt) /\
    (exists g : tensor R,
       @gradOf R h2 p = @Some (tensor R) g /\
       @dims R g = @dims R pv /\
       @wf R g /\
       @acc1 R (R_scalar thr draw) g0 (GradCeP.ceG thr eps ome pv tv) =
       @Some (option (tensor R)) (@Some (tensor R) g)) /\
    @gradOf R h2 t = @gradOf R h1 t /\ (forall i : nat, @valOf R h2 i = @valOf R h1 i).
Proof. exact @GradCeP.ce_grad_leaf. Qed.
Print Assumptions ce_gradient_leaf_never_fails.

Theorem ce_untracked_prediction_gets_none :
  forall (thr : R) (draw : bool -> nat -> R) (eps ome : R) (rd : bred)
    (sealg : option nat -> tensor R -> tensor R) (h : @heap R) (p t : nat) (name : option nat)
    (pv tv : tensor R) (h1 : @heap R) (l : nat),
  @valOf R h p = @Some (tensor R) pv ->
  @valOf R h t = @Some (tensor R) tv ->
  @trackedOf R h p = false ->
  @dirtyOf R h p = false ->
  @trackedOf R h t = false ->
  @dirtyOf R h t = false ->
  @ceArgs R h (@Some nat p) (@Some nat t) = @Some (nat * nat) (p, t) ->
  @ce_compute R (R_scalar thr draw) eps ome h (@Some nat p) (@Some nat t) name = (h1, @Ok nat l) ->
  @bp_topo R (R_scalar thr draw) rd sealg h1 l = (h1, [], @Ok unit tt).
Proof. exact @GradCeP.ce_grad_untracked. Qed.
Print Assumptions ce_untracked_prediction_gets_none.

Theorem ce_formula :
  forall (thr eps ome : R) (pv tv : tensor R) (N C : nat) (idx : list nat),
  0 <= thr ->
  0 < eps ->
  eps < ome ->
  ome < 1 ->
  dims pv = [N; C] ->
  validIdx [N; C] idx ->
  let p := elt pv idx in
  let t := elt tv idx in
  dims (GradCeP.ceG thr eps ome pv tv) = [N; C] /\
  wf (GradCeP.ceG thr eps ome pv tv) /\
  (eps + thr < p ->
   p < ome - thr -> elt (GradCeP.ceG thr eps ome pv tv) idx = - (GradCeP.clip01 t / p) / INR N) /\
  (eps + thr < p ->
   p < ome - thr -> 0 <= t <= 1 -> elt (GradCeP.ceG thr eps ome pv tv) idx = - (t / p) / INR N) /\
  (p < eps - thr -> elt (GradCeP.ceG thr eps ome pv tv) idx = 0) /\
  (ome + thr < p -> elt (GradCeP.ceG thr eps ome pv tv) idx = 0) /\
  (thr < eps -> p = 0 -> elt (GradCeP.ceG thr eps ome pv tv) idx = 0) /\
  (ome + thr < 1 -> p = 1 -> elt (GradCeP.ceG thr eps ome pv tv) idx = 0).
Proof. exact @GradCeP.ce_grad_formula. Qed.
Print Assumptions ce_formula.

Theorem ce_formula_exact_ties :
  forall (eps ome : R) (pv tv : tensor R) (N C : nat) (idx : list nat),
  0 < eps ->
  eps < ome ->
  ome < 1 ->
  dims pv = [N; C] ->
  validIdx [N; C] idx ->
  let p := elt pv idx in
  let t := elt tv idx in
  (eps < p -> p < ome -> elt (GradCeP.ceG 0 eps ome pv tv) idx = - (GradCeP.clip01 t / p) / INR N) /\
  (eps < p -> p < ome -> 0 <= t <= 1 -> elt (GradCeP.ceG 0 eps ome pv tv) idx = - (t / p) / INR N) /\
  (p < eps \/ ome < p -> elt (GradCeP.ceG 0 eps ome pv tv) idx = 0) /\
  (p = 0 \/ p = 1 -> elt (GradCeP.ceG 0 eps ome pv tv) idx = 0).
Proof. exact @GradCeP.ce_grad_formula_thr0. Qed.
Print Assumptions ce_formula_exact_ties.

Theorem ce_gradient_elementwise :
  forall (thr : R) (draw : bool -> nat -> R) (eps ome : R) (rd : bred) (h : @heap R) 
    (p t : nat) (name : option nat) (pv tv : tensor R) (g0 : option (tensor R)) 
    (h1 : @heap R) (l N C : nat),
  0 <= thr ->
  0 < eps ->
  eps < ome ->
  ome < 1 ->
  @rules_own R h ->
  @wf_heap R h ->
  @valOf R h p = @Some (tensor R) pv ->
  @wf R pv ->
  @valOf R h t = @Some (tensor R) tv ->
  @wf R tv ->
  @trackedOf R h p = true ->
  @dirtyOf R h p = false ->
  @trackedOf R h t = false ->
  @dirtyOf R h t = false ->
  @ceArgs R h (@Some nat p) (@Some nat t) = @Some (nat * nat) (p, t) ->
  @gradOf R h p = g0 ->
  prior_ok (@dims R pv) g0 ->
  @ce_compute R (R_scalar thr draw) eps ome h (@Some nat p) (@Some nat t) name = (h1, @Ok nat l) ->
  @dims R pv = [N; C] ->
  forall (h2 : @heap R) (log : list (nat * tensor R)) (r : res unit),
  @bp_topo R (R_scalar thr draw) rd (fun (_ : option nat) (g : tensor R) => g) h1 l = (h2, log, r) ->
  exists g : tensor R,
    @gradOf R h2 p = @Some (tensor R) g /\
    @dims R g = [N; C] /\
    @wf R g /\
    (forall idx : list nat,
     validIdx [N; C] idx ->
     let pe := elt pv idx in
     let te := elt tv idx in
     (eps + thr < pe -> pe < ome - thr -> elt g idx = prior g0 idx + - (GradCeP.clip01 te / pe) / INR N) /\
     (eps + thr < pe -> pe < ome - thr -> 0 <= te <= 1 -> elt g idx = prior g0 idx + - (te / pe) / INR N) /\
     (pe < eps - thr \/ ome + thr < pe -> elt g idx = prior g0 idx) /\
     (thr < eps /\ pe = 0 \/ ome + thr < 1 /\ pe = 1 -> elt g idx = prior g0 idx)).
Proof. exact @GradCeP.ce_grad_elementwise. Qed.
Print Assumptions ce_gradient_elementwise.

Theorem ce_near_lower_bound_half :
  forall (thr eps ome : R) (N : nat) (p t : R),
  0 <= thr ->
  0 < eps ->
  eps < p ->
  p <= eps + thr ->
  p < ome - thr -> GradCeP.ceD thr eps ome N p t = / 2 * (- (GradCeP.clip01 t / p) / INR N).
Proof. exact @GradCeP.ceD_near_eps. Qed.
Print Assumptions ce_near_lower_bound_half.

Theorem ce_instance :
  forall (draw : bool -> nat -> R) (rd : bred),
  exists (h1 : @heap R) (l : nat) (h2 : @heap R) (log : list (nat * tensor R)) 
  (g : tensor R),
    @ce_compute R (R_scalar 0 draw) (1 / 4) (3 / 4) GradCeP.cexH (@Some nat 0%nat) 
      (@Some nat 1%nat) (@None nat) = (h1, @Ok nat l) /\
    @bp_topo R (R_scalar 0 draw) rd (fun (_ : option nat) (g0 : tensor R) => g0) h1 l =
    (h2, log, @Ok unit tt) /\
    @gradOf R h2 0 = @Some (tensor R) g /\
    @dims R g = [2%nat; 2%nat] /\
    elt g [0%nat; 0%nat] = -1 /\
    elt g [0%nat; 1%nat] = 0 /\ elt g [1%nat; 0%nat] = 0 /\ elt g [1%nat; 1%nat] = -1.
Proof. exact @GradCeP.ce_grad_ex. Qed.
Print Assumptions ce_instance.

From Qeep Require Proofs.ConstsP Model.Consts.
Theorem library_equality_threshold_at_most_1e_240 :
  ConstsP.dec_le Consts.c_eq_threshold (1, -240)%Z = true.
Proof. exact ConstsP.threshold_at_most_1e_240. Qed.
Print Assumptions library_equality_threshold_at_most_1e_240.

Theorem loss_constants_satisfy_the_formula_hypotheses :
  (Components.dec_lt (0, 0)%Z Consts.c_epsilon && Components.dec_lt Consts.c_epsilon Consts.c_one_minus_epsilon
   && Components.dec_lt Consts.c_one_minus_epsilon (1, 0)%Z && Components.dec_lt Consts.c_eq_threshold Consts.c_epsilon)%bool = true.
Proof. exact ConstsP.loss_constants_ordered. Qed.
Print Assumptions loss_constants_satisfy_the_formula_hypotheses.
