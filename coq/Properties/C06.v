(* C06 — Indexing, reshaping and construction move elements without changing them.
   Statements only (proofs: Proofs/SliceP.v, ReshapeP.v, BroadcastP.v, ConcatP.v, ValidP.v, InitP.v).
   All theorems hold for ANY element type (the operations are value-parametric) and for all
   ranks, sizes, indexes: induction, no bounds.  Reading guide:
     validIdx ds idx      idx is a multi-index of shape ds;   get x idx   the element at idx;
     sizes index          per-dimension lengths To-From of completed ranges;
     shift idx index      idx + From component-wise;  unshift: idx - From;  inBlock: idx inside the block;
     completeIndex        omitted and {0,0} ranges completed to the whole dimension;
     reshaped t r shape   dims r = shape /\ wf r /\ flat (data r) = flat (data t)   (row-major sequence preserved);
     broadcasted t r s    dims r = s /\ wf r /\ get r idx = get t (bproj (dims t) s idx)  (NumPy projection);
   Every v_* theorem also says when the call is an error and that it never panics. *)
From Coq Require Import List ZArith Bool.
From Qeep Require Import Model.Scalar Model.Nd Model.Data Model.Valid Model.Api.
From Qeep Require Import Proofs.NdP Proofs.ElemP Proofs.SliceP Proofs.OdometerP Proofs.ReshapeP Proofs.BroadcastP Proofs.ConcatP Proofs.ValidP Spec.ValidSpec Proofs.InitP.
Import ListNotations.

Theorem at_returns_indexed_element :
  forall (A : Type) (t : tensor A) (index : list Z) (a : A),
  wf t ->
  (v_at t index = Ok a <->
   Forall2 (fun (i : Z) (d : nat) => (0 <= i < Z.of_nat d)%Z) index (dims t) /\
   get (data t) (natsOf index) = Some a) /\ v_at t index <> Panic.
Proof. exact @v_at_ok_iff. Qed.
Print Assumptions at_returns_indexed_element.

Theorem slice_selects_block :
  forall (A : Type) (t : tensor A) (index : list zrange),
  wf t ->
  (validateSliceIndexAgainstDims index (zdims t) = true ->
   exists r : tensor A,
     v_slice t index = Ok r /\
     dims r = sizes (completeIndex (rangesOf index) (dims t)) /\
     wf r /\
     (forall idx : list nat,
      validIdx (dims r) idx ->
      get (data r) idx = get (data t) (shift idx (completeIndex (rangesOf index) (dims t))))) /\
  (validateSliceIndexAgainstDims index (zdims t) = false -> v_slice t index = Err).
Proof. exact @v_slice_spec. Qed.
Print Assumptions slice_selects_block.

Theorem slice_accepts_exactly_valid_index :
  forall (A : Type) (t : tensor A) (index : list zrange),
  wf t ->
  ((exists r : tensor A, v_slice t index = Ok r) <-> zsliceOk index (dims t)) /\
  v_slice t index <> Panic.
Proof. exact @v_slice_ok_iff. Qed.
Print Assumptions slice_accepts_exactly_valid_index.

Theorem patch_writes_block_keeps_rest :
  forall (A : Type) (t u : tensor A) (index : list zrange),
  wf t ->
  wf u ->
  (validatePatchIndexAgainstDims index (zdims u) (zdims t) = true ->
   exists r : tensor A,
     v_patch t index u = Ok r /\
     dims r = dims t /\
     wf r /\
     (forall idx : list nat,
      validIdx (dims t) idx ->
      get (data r) idx =
      (if inBlock (completeIndex (rangesOf index) (dims u)) (dims u) idx
       then get (data u) (unshift idx (completeIndex (rangesOf index) (dims u)))
       else get (data t) idx))) /\
  (validatePatchIndexAgainstDims index (zdims u) (zdims t) = false -> v_patch t index u = Err).
Proof. exact @v_patch_spec. Qed.
Print Assumptions patch_writes_block_keeps_rest.

Theorem patch_accepts_exactly_valid_index :
  forall (A : Type) (t u : tensor A) (index : list zrange),
  wf t ->
  wf u ->
  ((exists r : tensor A, v_patch t index u = Ok r) <->
   Forall2 le (dims u) (dims t) /\ zpatchOk index (dims u) (dims t)) /\ v_patch t index u <> Panic.
Proof. exact @v_patch_ok_iff. Qed.
Print Assumptions patch_accepts_exactly_valid_index.

Theorem slicing_what_was_patched_returns_source :
  forall (A : Type) (t u r : tensor A) (index : list range),
  wf t ->
  wf u ->
  Forall2 le (dims u) (dims t) ->
  patchIndexOk index (dims u) (dims t) ->
  patch t index u = Some r -> slice r (completeIndex index (dims u)) = Some u.
Proof. exact @slice_patch. Qed.
Print Assumptions slicing_what_was_patched_returns_source.

Theorem concat_lays_operands_end_to_end :
  forall (A : Type) (pre post : list nat) (ts : list (tensor A)) (ns : list nat),
  ts <> [] ->
  Forall2 (fun (t : tensor A) (n : nat) => wf t /\ dims t = pre ++ n :: post) ts ns ->
  exists r : tensor A,
    concatD ts (length pre) = Some r /\
    getConcatDims ts (length pre) = Some (dims r) /\
    dims r = pre ++ list_sum ns :: post /\
    wf r /\
    (forall (j : nat) (t : tensor A) (i1 : list nat) (x : nat) (i2 : list nat),
     nth_error ts j = Some t ->
     validIdx pre i1 ->
     x < nth j ns 0 ->
     validIdx post i2 ->
     get (data r) (i1 ++ list_sum (firstn j ns) + x :: i2) = get (data t) (i1 ++ x :: i2)).
Proof. exact @concat_spec. Qed.
Print Assumptions concat_lays_operands_end_to_end.

Theorem concat_accepts_exactly_valid_arguments :
  forall (A : Type) (ts : list (tensor A)) (dim : Z),
  Forall wf ts ->
  (length ts < 2 -> v_concat ts dim = Err) /\
  (2 <= length ts ->
   (ConcatP.concatPre ts dim ->
    exists r : tensor A,
      v_concat ts dim = Ok r /\
      concatD ts (Z.to_nat dim) = Some r /\ getConcatDims ts (Z.to_nat dim) = Some (dims r) /\ wf r) /\
   (~ ConcatP.concatPre ts dim -> v_concat ts dim = Err)).
Proof. exact @ConcatP.v_concat_spec. Qed.
Print Assumptions concat_accepts_exactly_valid_arguments.

Theorem concat_never_panics :
  forall (A : Type) (ts : list (tensor A)) (dim : Z), Forall wf ts -> v_concat ts dim <> Panic.
Proof. exact @v_concat_never_panics. Qed.
Print Assumptions concat_never_panics.

Theorem slicing_a_concatenation_returns_the_piece :
  forall (A : Type) (pre post : list nat) (ts : list (tensor A)) (ns : list nat) 
    (j : nat) (t : tensor A),
  ts <> [] ->
  Forall2 (fun (t0 : tensor A) (n : nat) => wf t0 /\ dims t0 = pre ++ n :: post) ts ns ->
  nth_error ts j = Some t ->
  exists r : tensor A,
    concatD ts (length pre) = Some r /\
    slice r
      (repeat (0, 0) (length pre) ++ [(list_sum (firstn j ns), list_sum (firstn j ns) + nth j ns 0)]) =
    Some t.
Proof. exact @slice_concat. Qed.
Print Assumptions slicing_a_concatenation_returns_the_piece.

Theorem reshape_preserves_row_major_sequence :
  forall (A : Type) (t : tensor A) (shape : list Z),
  wf t ->
  (validateInputDims shape && validateReshape (zdims t) shape = true ->
   exists r : tensor A, v_reshape t shape = Ok r /\ reshaped A t r (natsOf shape)) /\
  (validateInputDims shape && validateReshape (zdims t) shape = false -> v_reshape t shape = Err).
Proof. exact @v_reshape_spec. Qed.
Print Assumptions reshape_preserves_row_major_sequence.

Theorem reshape_element_positions :
  forall (A : Type) (t : tensor A) (shape : list nat),
  wf t ->
  allpos shape ->
  prodn shape = prodn (dims t) ->
  exists r : tensor A,
    reshape t shape = Some r /\
    dims r = shape /\
    wf r /\
    (forall idx : list nat,
     validIdx shape idx -> get (data r) idx = nth_error (flat (data t)) (flatIdx shape idx)).
Proof. exact @reshape_get. Qed.
Print Assumptions reshape_element_positions.

Theorem unsqueeze_preserves_sequence :
  forall (A : Type) (t : tensor A) (dim : Z),
  wf t ->
  (validateUnSqueezeDim dim (zdims t) = true ->
   exists r : tensor A,
     v_unsqueeze t dim = Ok r /\ reshaped A t r (unsqueezeDims (Z.to_nat dim) (dims t))) /\
  (validateUnSqueezeDim dim (zdims t) = false -> v_unsqueeze t dim = Err).
Proof. exact @v_unsqueeze_spec. Qed.
Print Assumptions unsqueeze_preserves_sequence.

Theorem squeeze_preserves_sequence :
  forall (A : Type) (t : tensor A) (dim : Z),
  wf t ->
  (validateSqueezeDim dim (zdims t) = true ->
   exists r : tensor A, v_squeeze t dim = Ok r /\ reshaped A t r (squeezeDims (Z.to_nat dim) (dims t))) /\
  (validateSqueezeDim dim (zdims t) = false -> v_squeeze t dim = Err).
Proof. exact @v_squeeze_spec. Qed.
Print Assumptions squeeze_preserves_sequence.

Theorem flatten_preserves_sequence :
  forall (A : Type) (t : tensor A) (dim : Z),
  wf t ->
  (validateFlattenDim dim (zdims t) = true ->
   exists r : tensor A, v_flatten t dim = Ok r /\ reshaped A t r (flattenDims (Z.to_nat dim) (dims t))) /\
  (validateFlattenDim dim (zdims t) = false -> v_flatten t dim = Err).
Proof. exact @v_flatten_spec. Qed.
Print Assumptions flatten_preserves_sequence.

Theorem broadcast_repeats_elements :
  forall (A : Type) (t : tensor A) (shape : list Z),
  wf t ->
  (validateInputDims shape && validateBroadcast (zdims t) shape = true ->
   exists r : tensor A, v_broadcast t shape = Ok r /\ broadcasted A t r (natsOf shape)) /\
  (validateInputDims shape && validateBroadcast (zdims t) shape = false -> v_broadcast t shape = Err).
Proof. exact @v_broadcast_spec. Qed.
Print Assumptions broadcast_repeats_elements.

Theorem full_holds_the_value :
  forall (A : Type) (ds : list Z) (v : A),
  (v_full ds v = Err <-> Exists (fun d : Z => (d <= 0)%Z) ds) /\
  (~ Exists (fun d : Z => (d <= 0)%Z) ds ->
   exists t : tensor A,
     v_full ds v = Ok t /\
     wf t /\
     dims t = natsOf ds /\ (forall idx : list nat, validIdx (dims t) idx -> get (data t) idx = Some v)) /\
  v_full ds v <> Panic.
Proof. exact @v_full_total. Qed.
Print Assumptions full_holds_the_value.

Theorem eye_is_identity_matrix :
  forall (A : Type) (SA : Scalar A) (n : Z),
  (v_eye n = Err <-> (n <= 0)%Z) /\
  ((0 < n)%Z ->
   exists t : tensor A,
     v_eye n = Ok t /\
     wf t /\
     dims t = [Z.to_nat n; Z.to_nat n] /\
     (forall i j : nat, i < Z.to_nat n -> j < Z.to_nat n -> get (data t) [i; j] = Some (eyeElem i j))) /\
  v_eye n <> Panic.
Proof. exact @v_eye_total. Qed.
Print Assumptions eye_is_identity_matrix.

Theorem tensorOf_holds_the_data :
  forall (A : Type) (x : nd A),
  (v_tensorOf x = Err <-> ~ dataPre x) /\
  (dataPre x -> exists t : tensor A, v_tensorOf x = Ok t /\ wf t /\ dims t = shapeOf x /\ data t = x) /\
  v_tensorOf x <> Panic.
Proof. exact @v_tensorOf_total. Qed.
Print Assumptions tensorOf_holds_the_data.

Theorem numElems_is_length_of_data :
  forall (A : Type) (ds : list nat) (x : nd A), wfnd ds x -> length (flat x) = prodn ds.
Proof. exact @flat_length. Qed.
Print Assumptions numElems_is_length_of_data.
