(* C03G — source tie BY TRANSLATION for the integer / shape logic behind element-wise operations and implicit broadcasting (targetBroadcastDims, broadcastElemGenerator, the shape-equality and broadcast validators).
   Statements only (proofs: Proofs/Go*P.v).  Model/GoFns.v is REGENERATED from /repo's Go sources on every run by
   harness/gox: each function below is a program of the small imperative language of Model/GoIR.v (Go int = Z
   without overflow, slices with value semantics — the translator refuses functions that write through aliases).
   Each theorem says that RUNNING the translated program (big-step semantics [exec] / [run], any fuel above the
   stated bound, hence no non-termination) returns exactly the value of the hand-written model function
   (Model/Valid.v, Model/Data.v, Model/Fill.v) for ALL arguments — for validators with no hypothesis at all, which
   also says they never panic; for shape helpers under the validator's precondition; for element generators: one
   call of the closure moves the multi-index state exactly like the model's odometer ([incr], [incr_skip], [bstep]),
   and the statements outside the integer fragment are pinned as text in source order ([itemShape]).
   The DATA layer (functions over `any`: float64 leaves and []any rows, recursive closures with pointer
   parameters) is translated into DataIR programs (Model/DataIR.v, Model/GoData.v, regenerated every run); the
   [data_*] / [drun_*] theorems say that running them returns exactly the model's nested data (Model/Data.v,
   Model/Fill.v) and panics exactly where the model says None.
   The thin WRAPPERS of cputensor (shape helper + element generator + initWith: transpose, reshape, broadcast, slice,
   patch, dot, matMul, reduceDimUsingFunc, constTensor, eyeMatrix) and the five cases of initTensorFromData are
   translated too (Model/GoWrap.v); their calls of the functions above go through the oracle Model/DataExt.v, which
   maps each callee to the model function the theorems above prove it to be; the [*_wrapper_*] theorems say the
   wrapper returns the model tensor (and panics where the model says None) and [initTensorFromData_*] that every case
   returns (shapeOf x, x) on data accepted by the validator.
   An edit of one of these Go functions changes GoFns.v / GoData.v and breaks the theorem unless it computes the same thing.
   Closed under the global context. *)
From Coq Require Import String List ZArith Bool Arith.
From Qeep Require Import Model.Scalar Model.Nd Model.Fill Model.Valid Model.GoIR Model.DataIR.
From Qeep Require Model.Data Model.Api Model.GoFns Model.GoData Model.DataExt Model.GoWrap.
From Qeep Require Import Proofs.GoIRP.
From Qeep Require Proofs.GoValidAtP Proofs.GoValidP1 Proofs.GoValidP2 Proofs.GoValidP3 Proofs.GoDimsP1 Proofs.GoDimsP2 Proofs.GoGenP1 Proofs.GoGenP2 Proofs.GoGenP3 Proofs.GoMatMulShapeP Proofs.DataAtP Proofs.DataSliceP Proofs.DataPatchP Proofs.DataApplyP Proofs.DataReduceP Proofs.DataFillP Proofs.DataLinalgP Proofs.DataConcatP Proofs.DataWrapP Proofs.DataFromDataP.
Import ListNotations.
Local Open Scope string_scope.

Theorem ValidateBinaryFuncDimsMatch_program_is_the_model_validator :
  forall (call : string -> list val -> outcome) (fuel : nat) (dims1 dims2 : list Z),
  S (Datatypes.length dims1) <= fuel ->
  exec call fuel (fbody GoFns.ValidateBinaryFuncDimsMatch)
    [("dims1", ints dims1); ("dims2", ints dims2)] =
  ORet [errOf (validateBinaryFuncDimsMatch dims1 dims2)].
Proof. exact @GoValidP2.go_ValidateBinaryFuncDimsMatch. Qed.
Print Assumptions ValidateBinaryFuncDimsMatch_program_is_the_model_validator.

Theorem ValidateBinaryFuncDimsMatch_run :
  forall (fuel : nat) (dims1 dims2 : list Z),
  S (Datatypes.length dims1) <= fuel ->
  run GoFns.ftab fuel GoFns.ValidateBinaryFuncDimsMatch [ints dims1; ints dims2] =
  ORet [errOf (validateBinaryFuncDimsMatch dims1 dims2)].
Proof. exact @GoValidP2.run_ValidateBinaryFuncDimsMatch. Qed.
Print Assumptions ValidateBinaryFuncDimsMatch_run.

Theorem ValidateBroadcastSourceDimsAgainstTargetDims_program_is_the_model_validator :
  forall (call : string -> list val -> outcome) (fuel : nat) (src dst : list Z),
  S (Datatypes.length src) <= fuel ->
  exec call fuel (fbody GoFns.ValidateBroadcastSourceDimsAgainstTargetDims)
    [("srcDims", ints src); ("dstDims", ints dst)] = ORet [errOf (validateBroadcast src dst)].
Proof. exact @GoValidP3.go_ValidateBroadcastSourceDimsAgainstTargetDims. Qed.
Print Assumptions ValidateBroadcastSourceDimsAgainstTargetDims_program_is_the_model_validator.

Theorem ValidateBroadcastSourceDimsAgainstTargetDims_run :
  forall (fuel : nat) (src dst : list Z),
  S (Datatypes.length src) <= fuel ->
  run GoFns.ftab fuel GoFns.ValidateBroadcastSourceDimsAgainstTargetDims [ints src; ints dst] =
  ORet [errOf (validateBroadcast src dst)].
Proof. exact @GoValidP3.run_ValidateBroadcastSourceDimsAgainstTargetDims. Qed.
Print Assumptions ValidateBroadcastSourceDimsAgainstTargetDims_run.

Theorem ValidateInputDims_program_is_the_model_validator :
  forall (call : string -> list val -> outcome) (fuel : nat) (dims : list Z),
  exec call fuel (fbody GoFns.ValidateInputDims) [("dims", ints dims)] =
  ORet [errOf (validateInputDims dims)].
Proof. exact @GoValidP1.go_ValidateInputDims. Qed.
Print Assumptions ValidateInputDims_program_is_the_model_validator.

Theorem ValidateInputDims_run :
  forall (fuel : nat) (dims : list Z),
  run GoFns.ftab fuel GoFns.ValidateInputDims [ints dims] = ORet [errOf (validateInputDims dims)].
Proof. exact @GoValidP1.run_ValidateInputDims. Qed.
Print Assumptions ValidateInputDims_run.

Theorem targetBroadcastDims_program_is_the_model_function :
  forall (call : string -> list val -> outcome) (fuel : nat) (d1 d2 : list nat),
  S (Nat.max (Datatypes.length d1) (Datatypes.length d2)) <= fuel ->
  exec call fuel (fbody GoFns.targetBroadcastDims) [("dims1", nats d1); ("dims2", nats d2)] =
  ORet [nats (Data.targetBroadcastDims d1 d2)].
Proof. exact @GoDimsP2.go_targetBroadcastDims. Qed.
Print Assumptions targetBroadcastDims_program_is_the_model_function.

Theorem targetBroadcastDims_run :
  forall (fuel : nat) (d1 d2 : list nat),
  S (Nat.max (Datatypes.length d1) (Datatypes.length d2)) <= fuel ->
  run GoFns.ftab fuel GoFns.targetBroadcastDims [nats d1; nats d2] =
  ORet [nats (Data.targetBroadcastDims d1 d2)].
Proof. exact @GoDimsP2.run_targetBroadcastDims. Qed.
Print Assumptions targetBroadcastDims_run.

Theorem broadcastElemGenerator_outer_shape :
  itemShape GoFns.broadcastElemGenerator_outer = [None; Some "return <closure>"].
Proof. exact @GoGenP3.shape_broadcastElemGenerator_outer. Qed.
Print Assumptions broadcastElemGenerator_outer_shape.

Theorem broadcastElemGenerator_step_shape :
  itemShape GoFns.broadcastElemGenerator_step =
  [Some "elem := t.dataAt(state)"; None; Some "return elem"].
Proof. exact @GoGenP3.shape_broadcastElemGenerator_step. Qed.
Print Assumptions broadcastElemGenerator_step_shape.

Theorem broadcastElemGenerator_code :
  codeOf GoFns.broadcastElemGenerator_step = [GoGenP3.broadcastElemGenerator_step_code].
Proof. exact @GoGenP3.codeOf_broadcastElemGenerator_step. Qed.
Print Assumptions broadcastElemGenerator_code.

Theorem broadcastElemGenerator_initial_state_is_bcInit :
  forall (call : string -> list val -> outcome) (fuel : nat) (src shape : list nat) (e : env),
  Datatypes.length src <= Datatypes.length shape ->
  lookup e "t.dims" = Some (nats src) ->
  lookup e "shape" = Some (nats shape) ->
  exists e' : env,
    exec call fuel GoGenP3.broadcastElemGenerator_outer_code e = ONormal e' /\
    GoGenP3.bRep src shape (bcInit src shape) e' /\
    GoGenP3.bwf src shape (bcInit src shape) /\
    (forall y : string, y <> "state" -> y <> "repeat" -> lookup e' y = lookup e y).
Proof. exact @GoGenP3.go_broadcastElemGenerator_outer_bcInit. Qed.
Print Assumptions broadcastElemGenerator_initial_state_is_bcInit.

Theorem broadcastElemGenerator_step_is_bstep :
  forall (call : string -> list val -> outcome) (fuel : nat) (src shape : list nat) 
    (ps : list bpos) (e : env),
  S (S (Datatypes.length shape)) <= fuel ->
  GoGenP3.bwf src shape ps ->
  GoGenP3.bRep src shape ps e ->
  exists e' : env,
    exec call fuel GoGenP3.broadcastElemGenerator_step_code e = ONormal e' /\
    GoGenP3.bRep src shape (bstep ps) e' /\ GoGenP3.bwf src shape (bstep ps) /\ GoGenP3.bframe e e'.
Proof. exact @GoGenP3.go_broadcastElemGenerator_step. Qed.
Print Assumptions broadcastElemGenerator_step_is_bstep.

Theorem applyUnary_program_is_apply1 :
  forall (A : Type) (SA : Scalar A) (fapp : string -> list A -> option A) (St : Type)
    (ext : string -> list dval -> St -> option (list dval * St)) (f : A -> A),
  (forall a : A, fapp "suf" [a] = Some (f a)) ->
  forall (fuel depth : nat) (t : tensor A) (s : St),
  Datatypes.length (dims t) < depth ->
  match Data.apply1 f t with
  | Some t' =>
      exists g l : denv,
        drun fapp St ext GoData.d_applyUnary fuel depth [dnats (dims t); emb (data t)] s =
        DRet St [dnats (dims t'); emb (data t')] s g l
  | None => drun fapp St ext GoData.d_applyUnary fuel depth [dnats (dims t); emb (data t)] s = DPanic St
  end.
Proof. exact @DataApplyP.data_apply1. Qed.
Print Assumptions applyUnary_program_is_apply1.

Theorem applyBinary_program_is_apply2 :
  forall (A : Type) (SA : Scalar A) (fapp : string -> list A -> option A) (St : Type)
    (ext : string -> list dval -> St -> option (list dval * St)) (f : A -> A -> A),
  (forall a b : A, fapp "sbf" [a; b] = Some (f a b)) ->
  forall (fuel depth : nat) (t1 t2 : tensor A) (s : St),
  Datatypes.length (dims t1) < depth ->
  match Data.apply2 f t1 t2 with
  | Some t' =>
      exists g l : denv,
        drun fapp St ext GoData.d_applyBinary fuel depth
          [dnats (dims t1); emb (data t1); dnats (dims t2); emb (data t2)] s =
        DRet St [dnats (dims t'); emb (data t')] s g l
  | None =>
      drun fapp St ext GoData.d_applyBinary fuel depth
        [dnats (dims t1); emb (data t1); dnats (dims t2); emb (data t2)] s = 
      DPanic St
  end.
Proof. exact @DataApplyP.data_apply2. Qed.
Print Assumptions applyBinary_program_is_apply2.

Theorem calcData_unary_closure :
  forall (A : Type) (SA : Scalar A) (fapp : string -> list A -> option A) (St : Type)
    (ext : string -> list dval -> St -> option (list dval * St)) (f : A -> A),
  (forall a : A, fapp "suf" [a] = Some (f a)) ->
  forall (ds : list nat) (d fuel : nat) (a : nd A) (r0 : dval) (s : St) (g : denv),
  Datatypes.length ds <= d ->
  callLD fapp St ext (plocals GoData.d_applyUnary) fuel (S d) "calcData" [dnats ds; emb a; r0] s g =
  match Data.calc1 f ds a with
  | Some r => CRet St [emb a; emb r] s g
  | None => CPanic St
  end.
Proof. exact @DataApplyP.calcData1. Qed.
Print Assumptions calcData_unary_closure.

Theorem calcData_binary_closure :
  forall (A : Type) (SA : Scalar A) (fapp : string -> list A -> option A) (St : Type)
    (ext : string -> list dval -> St -> option (list dval * St)) (f : A -> A -> A),
  (forall a b : A, fapp "sbf" [a; b] = Some (f a b)) ->
  forall (ds : list nat) (d fuel : nat) (a b : nd A) (r0 : dval) (s : St) (g : denv),
  Datatypes.length ds <= d ->
  callLD fapp St ext (plocals GoData.d_applyBinary) fuel (S d) "calcData" [dnats ds; emb a; emb b; r0] s
    g =
  match Data.calc2 f ds a b with
  | Some r => CRet St [emb a; emb b; emb r] s g
  | None => CPanic St
  end.
Proof. exact @DataApplyP.calcData2. Qed.
Print Assumptions calcData_binary_closure.

Theorem broadcast_wrapper_is_broadcast :
  forall (A : Type) (SA : Scalar A) (fapp : string -> list A -> option A) (red : Data.reducer)
    (fuel depth : nat) (ds : list nat) (x : nd A) (shape : list nat),
  DataWrapP.returns
    (drun fapp unit (DataExt.dext red) GoWrap.w_broadcast fuel depth [dnats ds; emb x; dnats shape] tt)
    (Data.broadcast {| dims := ds; data := x |} shape).
Proof. exact @DataWrapP.w_broadcast_run. Qed.
Print Assumptions broadcast_wrapper_is_broadcast.
