(* C17K — source tie BY TRANSLATION for the component layer — SGD: Update's input test (nil pointer, nil tensor, missing gradient) is the case analysis of the model's sgd_update; config default 0.01 and copy; Update itself: the cell behind the pointer ends up holding exactly w - lr*g (element-wise on equal shapes), nothing is replaced when the input is rejected, no existing tensor changes.
   Statements only (proofs: Proofs/Comp*P.v).  Model/GoComp.v is REGENERATED from /repo's Go sources on every run by
   harness/gox (comp.go): the component layer's own logic — input validators, config validators, constructors, the
   scale formulas of the initializers, the Accuracy counters — as loop-free programs of the imperative language of
   Model/DataIR.v.  A tensor.Tensor interface value is nil or a node id of the model's heap; a config pointer is nil or
   the list of its fields; an error is 0 / 1; methods of tensors, float comparisons (parameters fltb / fleb: an
   abstract scalar has no order), int->float conversion and the library functions (tensor.RandU, the forward bodies
   that Properties/*S.v cover) are calls of the oracle Model/CompExt.v, in which SIBLING functions are linked by
   running their own translated programs.  Each theorem says that RUNNING the translated program returns exactly what
   the hand-written model (Model/Components.v) computes, for ALL heaps, arguments, fuel and depth; a returned outcome
   is never a panic.  An edit of one of these Go functions changes GoComp.v and breaks the theorem unless it computes
   the same thing.  Closed under the global context. *)
From Coq Require Import String List ZArith Bool Arith.
From Qeep Require Import Model.Scalar Model.Nd Model.Fill Model.Data Model.Valid Model.Api Model.Grad Model.Backprop Model.Components Model.Consts Model.DataIR Model.HeapExt Model.CompExt.
From Qeep Require Model.GoComp.
From Qeep Require Import Proofs.DataIRP.
From Qeep Require Proofs.CompValidP Proofs.CompAccP Proofs.CompInitP Proofs.CompSgdP.
Import ListNotations.
Local Open Scope string_scope.

Theorem SGD_toValidInputs_exact :
  forall (A : Type) (SA : Scalar A) (fltb fleb : A -> A -> bool)
    (lib : string -> list dval -> heap -> option (list dval * heap)) (fuel depth : nat) 
    (h : heap) (lr : dval) (c : option targ),
  CompValidP.cellOk h c ->
  CompValidP.outcome
    (drun cfapp heap (cext0 fltb fleb lib) GoComp.c_SGD_toValidInputs fuel depth
       [lr; CompValidP.dcell c] h) = Some (CompValidP.sgdRet h c, h).
Proof. exact @CompValidP.SGD_toValidInputs_spec. Qed.
Print Assumptions SGD_toValidInputs_exact.

Theorem SGD_toValidInputs_ok_iff :
  forall (A : Type) (SA : Scalar A) (fltb fleb : A -> A -> bool)
    (lib : string -> list dval -> heap -> option (list dval * heap)) (fuel depth : nat) 
    (h : heap) (lr : dval) (c : option targ) (w : nat) (g : tensor A),
  CompValidP.cellOk h c ->
  CompValidP.outcome
    (drun cfapp heap (cext0 fltb fleb lib) GoComp.c_SGD_toValidInputs fuel depth
       [lr; CompValidP.dcell c] h) = Some ([DI (Z.of_nat w); embT g; DI 0], h) <->
  c = Some (Some w) /\ gradOf h w = Some g.
Proof. exact @CompValidP.SGD_toValidInputs_ok_iff. Qed.
Print Assumptions SGD_toValidInputs_ok_iff.

Theorem SGD_toValidInputs_error_cases :
  forall (A : Type) (SA : Scalar A) (fltb fleb : A -> A -> bool)
    (lib : string -> list dval -> heap -> option (list dval * heap)) (fuel depth : nat) 
    (h : heap) (lr : dval) (c : option targ),
  CompValidP.cellOk h c ->
  (forall (w : nat) (g : tensor A), ~ (c = Some (Some w) /\ gradOf h w = Some g)) ->
  exists v1 v2 : dval,
    CompValidP.outcome
      (drun cfapp heap (cext0 fltb fleb lib) GoComp.c_SGD_toValidInputs fuel depth
         [lr; CompValidP.dcell c] h) = Some ([v1; v2; DI 1], h).
Proof. exact @CompValidP.SGD_toValidInputs_err. Qed.
Print Assumptions SGD_toValidInputs_error_cases.

Theorem SGD_toValidInputs_is_the_case_analysis_of_sgd_update :
  forall (A : Type) (SA : Scalar A) (fltb fleb : A -> A -> bool)
    (lib : string -> list dval -> heap -> option (list dval * heap)) (fuel depth : nat) 
    (h : heap) (lr : dval) (a : A) (cell : targ) (name : option nat),
  CompValidP.targOk h cell ->
  (exists v1 v2 : dval,
     CompValidP.outcome
       (drun cfapp heap (cext0 fltb fleb lib) GoComp.c_SGD_toValidInputs fuel depth
          [lr; CompValidP.dcell (Some cell)] h) = Some ([v1; v2; DI 1], h) /\
     sgd_update h a cell name = (h, Err)) \/
  (exists (w : nat) (wv g : tensor A),
     cell = Some w /\
     valOf h w = Some wv /\
     gradOf h w = Some g /\
     CompValidP.outcome
       (drun cfapp heap (cext0 fltb fleb lib) GoComp.c_SGD_toValidInputs fuel depth
          [lr; CompValidP.dcell (Some cell)] h) = Some ([DI (Z.of_nat w); embT g; DI 0], h) /\
     sgd_update h a cell name =
     match (dor delta <- v_unary (UScale a) g; v_arith BiSub wv delta) with
     | Ok v => let '(h', id) := alloc h v (false, true, []) name in (h', Ok id)
     | Err => (h, Err)
     | Panic => (h, Panic)
     end).
Proof. exact @CompValidP.SGD_toValidInputs_model. Qed.
Print Assumptions SGD_toValidInputs_is_the_case_analysis_of_sgd_update.

Theorem SGD_config_default_and_copy :
  forall (A : Type) (SA : Scalar A) (fltb fleb : A -> A -> bool)
    (lib : string -> list dval -> heap -> option (list dval * heap)) (fuel depth : nat) 
    (c : option A) (h : heap),
  CompInitP.outcome
    (drun cfapp heap (cext0 fltb fleb lib) GoComp.c_SGD_toValidSGDConfig fuel depth [
       CompInitP.cfgF1 c] h) =
  Some ([DL [DF match c with
                | Some v => v
                | None => sconst 1 (-2)
                end]], h).
Proof. exact @CompInitP.SGD_config. Qed.
Print Assumptions SGD_config_default_and_copy.

Theorem SGD_config_default_is_the_models_constant :
  forall (A : Type) (SA : Scalar A) (fltb fleb : A -> A -> bool)
    (lib : string -> list dval -> heap -> option (list dval * heap)) (fuel depth : nat) 
    (c : option dec) (h : heap),
  CompInitP.outcome
    (drun cfapp heap (cext0 fltb fleb lib) GoComp.c_SGD_toValidSGDConfig fuel depth [
       CompInitP.cfgD1 c] h) =
  Some ([DL [DF (dcst match c with
                      | Some d => d
                      | None => c_sgd_lr
                      end)]], h).
Proof. exact @CompInitP.SGD_config_dec. Qed.
Print Assumptions SGD_config_default_is_the_models_constant.

Theorem NewSGD :
  forall (A : Type) (SA : Scalar A) (fltb fleb : A -> A -> bool)
    (lib : string -> list dval -> heap -> option (list dval * heap)) (fuel depth : nat) 
    (c : option A) (h : heap),
  CompInitP.outcome
    (drun cfapp heap (cext fltb fleb lib) GoComp.c_SGD_NewSGD fuel depth [CompInitP.cfgF1 c] h) =
  Some ([DL [DF match c with
                | Some v => v
                | None => sconst 1 (-2)
                end]], h).
Proof. exact @CompInitP.NewSGD. Qed.
Print Assumptions NewSGD.

Theorem Update_replaces_nothing_when_it_rejects :
  forall (A : Type) (SA : Scalar A) (fltb fleb : A -> A -> bool)
    (lib : string -> list dval -> heap -> option (list dval * heap)) (fuel depth : nat) 
    (h : heap) (lr : A) (c : option targ),
  CompValidP.cellOk h c ->
  CompSgdP.rejected h c ->
  exists g l : denv,
    drun cfapp heap (cext fltb fleb lib) GoComp.c_SGD_Update fuel depth [DF lr; CompValidP.dcell c] h =
    DRet heap [DI 1] h g l /\ vlookup g l "wptr" = Some (CompValidP.dcell c).
Proof. exact @CompSgdP.Update_rejects. Qed.
Print Assumptions Update_replaces_nothing_when_it_rejects.

Theorem Update_stores_w_minus_lr_g_behind_the_pointer :
  forall (A : Type) (SA : Scalar A) (fltb fleb : A -> A -> bool)
    (lib : string -> list dval -> heap -> option (list dval * heap)) (fuel depth : nat) 
    (h : heap) (lr : A) (w : nat) (wv gr : tensor A) (name : option nat),
  valOf h w = Some wv ->
  gradOf h w = Some gr ->
  let o :=
    drun cfapp heap (cext fltb fleb lib) GoComp.c_SGD_Update fuel depth
      [DF lr; CompValidP.dcell (Some (Some w))] h in
  match (dor delta <- v_unary (UScale lr) gr; v_arith BiSub wv delta) with
  | Ok v =>
      (exists g l : denv, o = DRet heap [DI 0] h g l /\ vlookup g l "wptr" = Some (DL [embT v])) /\
      sgd_update h lr (Some w) name = (let '(h', id) := alloc h v (false, true, []) name in (h', Ok id))
  | Err =>
      (exists g l : denv, o = DRet heap [DI 1] h g l /\ vlookup g l "wptr" = Some (DL [DNil])) /\
      sgd_update h lr (Some w) name = (h, Err)
  | Panic => o = DPanic heap /\ sgd_update h lr (Some w) name = (h, Panic)
  end.
Proof. exact @CompSgdP.Update_ok. Qed.
Print Assumptions Update_stores_w_minus_lr_g_behind_the_pointer.

Theorem Update_on_equal_shapes_is_elementwise_w_minus_lr_g :
  forall (A : Type) (SA : Scalar A) (fltb fleb : A -> A -> bool)
    (lib : string -> list dval -> heap -> option (list dval * heap)) (fuel depth : nat) 
    (h : heap) (lr : A) (w : nat) (wv gr : tensor A),
  valOf h w = Some wv ->
  gradOf h w = Some gr ->
  wf wv ->
  wf gr ->
  dims gr = dims wv ->
  exists v : tensor A,
    (dor delta <- v_unary (UScale lr) gr; v_arith BiSub wv delta) = Ok v /\
    dims v = dims wv /\
    wf v /\
    (forall idx : list nat,
     NdP.validIdx (dims wv) idx ->
     get (data v) idx =
     match get (data wv) idx with
     | Some x => match get (data gr) idx with
                 | Some gx => Some (ssub x (smul lr gx))
                 | None => None
                 end
     | None => None
     end) /\
    (exists g l : denv,
       drun cfapp heap (cext fltb fleb lib) GoComp.c_SGD_Update fuel depth
         [DF lr; CompValidP.dcell (Some (Some w))] h = DRet heap [DI 0] h g l /\
       vlookup g l "wptr" = Some (DL [embT v])).
Proof. exact @CompSgdP.Update_same_shape. Qed.
Print Assumptions Update_on_equal_shapes_is_elementwise_w_minus_lr_g.

Theorem Update_leaves_every_existing_tensor_alone :
  forall (A : Type) (SA : Scalar A) (fltb fleb : A -> A -> bool)
    (lib : string -> list dval -> heap -> option (list dval * heap)) (fuel depth : nat) 
    (h h' : heap) (lr : A) (c : option targ),
  CompValidP.cellOk h c ->
  CompSgdP.finalHeap
    (drun cfapp heap (cext fltb fleb lib) GoComp.c_SGD_Update fuel depth [DF lr; CompValidP.dcell c] h) =
  Some h' -> h' = h.
Proof. exact @CompSgdP.Update_heap_unchanged. Qed.
Print Assumptions Update_leaves_every_existing_tensor_alone.

Theorem Update_returns_or_panics :
  forall (A : Type) (SA : Scalar A) (fltb fleb : A -> A -> bool)
    (lib : string -> list dval -> heap -> option (list dval * heap)) (fuel depth : nat) 
    (h : heap) (lr : A) (c : option targ),
  CompValidP.cellOk h c ->
  let o :=
    drun cfapp heap (cext fltb fleb lib) GoComp.c_SGD_Update fuel depth [DF lr; CompValidP.dcell c] h in
  (exists (e : Z) (g l : denv), o = DRet heap [DI e] h g l /\ (e = 0%Z \/ e = 1%Z)) \/ o = DPanic heap.
Proof. exact @CompSgdP.Update_returns_or_panics. Qed.
Print Assumptions Update_returns_or_panics.

Theorem sgd_update_rejects_the_same :
  forall (A : Type) (SA : Scalar A) (h : heap) (lr : A) (cell : targ) (name : option nat),
  CompValidP.cellOk h (Some cell) ->
  CompSgdP.rejected h (Some cell) -> sgd_update h lr cell name = (h, Err).
Proof. exact @CompSgdP.sgd_update_rejected. Qed.
Print Assumptions sgd_update_rejects_the_same.
