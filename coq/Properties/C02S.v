(* C02S — source tie by translation for the back-edge closures of gradients.go.
   Statements only (proofs: Proofs/Chain*P.v).  Model/Chains.v is REGENERATED from /repo's Go sources
   on every run by the translator harness/chainx (go/ast): the straight-line chains of Tensor method
   calls of the 45 gradFn closures of tensor/internal/gradtrack/gradients.go (all operations except Concat and Broadcast, whose rules contain loops) and the helpers toZeros, toOnes, reducerBroadcasted.
   Each theorem interprets the generated chain with the model's own operations (Model/ChainIR.v) and
   states that the interpretation IS the model's definition — for every heap, argument and outcome.
   An edit of the Go source that is not semantically the same chain changes Chains.v and the theorem
   about it no longer checks.  Any scalar type, no laws: closed under the global context. *)
From Coq Require Import String List ZArith Bool.
From Qeep Require Import Model.Scalar Model.Nd Model.Data Model.Valid Model.Api Model.Grad Model.Components Model.ChainIR.
From Qeep Require Model.Chains.
From Qeep Require Import Proofs.WiringP Proofs.ChainBaseP Proofs.ChainRuleP.
Import ListNotations.
Local Open Scope string_scope.

Theorem toZeros_is_its_source_chain :
  forall (A : Type) (SA : Scalar A) (t : tensor A),
  toZeros t = asRes (runFun (hooksV vrNone noVUser noBind noCond) Chains.g_toZeros tt [("t", t)]).
Proof. exact @ChainRuleP.toZeros_chain. Qed.
Print Assumptions toZeros_is_its_source_chain.

Theorem toOnes_is_its_source_chain :
  forall (A : Type) (SA : Scalar A) (t : tensor A),
  toOnes t = asRes (runFun (hooksV vrNone noVUser noBind noCond) Chains.g_toOnes tt [("t", t)]).
Proof. exact @ChainRuleP.toOnes_chain. Qed.
Print Assumptions toOnes_is_its_source_chain.

Theorem reducerBroadcasted_is_its_source_chain :
  forall (A : Type) (SA : Scalar A) (y x : tensor A) (dim : Z),
  reducerBroadcasted y x dim =
  asRes
    (runFun (hooksV (vrRB x dim) noVUser noBind noCond) Chains.g_reducerBroadcasted tt
       [("y", y); ("x", x)]).
Proof. exact @ChainRuleP.reducerBroadcasted_chain. Qed.
Print Assumptions reducerBroadcasted_is_its_source_chain.

Theorem back_Slice_0_rule_is_its_source_closure :
  forall (A : Type) (SA : Scalar A) (rd : bred) (h : heap) (y x : nat) (index : list zrange),
  eval_rule rd h (RSliceX y x index) =
  (dor gy <- gy_of h y;
   dor xv <- val_of h x;
   asRes
     (runFun (hooksV (vrOf gy (lk []) (lk []) (lk []) (lk [("index", index)])) hu0 noBind noCond)
        Chains.back_Slice_0 tt [("x", xv)])).
Proof. exact @ChainRuleP.back_Slice_0_chain. Qed.
Print Assumptions back_Slice_0_rule_is_its_source_closure.

Theorem back_Patch_0_rule_is_its_source_closure :
  forall (A : Type) (SA : Scalar A) (rd : bred) (h : heap) (y p : nat) (index : list zrange),
  eval_rule rd h (RPatchX y p index) =
  (dor gy <- gy_of h y;
   dor pv <- val_of h p;
   asRes
     (runFun (hooksV (vrOf gy (lk []) (lk []) (lk []) (lk [("index", index)])) hu0 noBind noCond)
        Chains.back_Patch_0 tt [("p", pv)])).
Proof. exact @ChainRuleP.back_Patch_0_chain. Qed.
Print Assumptions back_Patch_0_rule_is_its_source_closure.

Theorem back_Patch_1_rule_is_its_source_closure :
  forall (A : Type) (SA : Scalar A) (rd : bred) (h : heap) (y p : nat) (index : list zrange),
  eval_rule rd h (RPatchP y p index) =
  (dor gy <- gy_of h y;
   dor pv <- val_of h p;
   asRes
     (runFun
        (hooksV
           (vrOf gy (lk []) (lk []) (lk [])
              (lk [("patchedRegion(index, p.Shape())", patchedRegion index (zdims pv))])) hu0 noBind
           noCond) Chains.back_Patch_1 tt [("p", pv)])).
Proof. exact @ChainRuleP.back_Patch_1_chain. Qed.
Print Assumptions back_Patch_1_rule_is_its_source_closure.

Theorem back_Transpose_0_rule_is_its_source_closure :
  forall (A : Type) (SA : Scalar A) (rd : bred) (h : heap) (y : nat),
  eval_rule rd h (RTranspose y) =
  (dor gy <- gy_of h y; asRes (runFun (hooksV (vrG gy) hu0 noBind noCond) Chains.back_Transpose_0 tt [])).
Proof. exact @ChainRuleP.back_Transpose_0_chain. Qed.
Print Assumptions back_Transpose_0_rule_is_its_source_closure.

Theorem back_Reshape_0_rule_is_its_source_closure :
  forall (A : Type) (SA : Scalar A) (rd : bred) (h : heap) (y x : nat),
  reshapeBack rd h Chains.back_Reshape_0 y x.
Proof. exact @ChainRuleP.back_Reshape_0_chain. Qed.
Print Assumptions back_Reshape_0_rule_is_its_source_closure.

Theorem back_UnSqueeze_0_rule_is_its_source_closure :
  forall (A : Type) (SA : Scalar A) (rd : bred) (h : heap) (y x : nat),
  reshapeBack rd h Chains.back_UnSqueeze_0 y x.
Proof. exact @ChainRuleP.back_UnSqueeze_0_chain. Qed.
Print Assumptions back_UnSqueeze_0_rule_is_its_source_closure.

Theorem back_Squeeze_0_rule_is_its_source_closure :
  forall (A : Type) (SA : Scalar A) (rd : bred) (h : heap) (y x : nat),
  reshapeBack rd h Chains.back_Squeeze_0 y x.
Proof. exact @ChainRuleP.back_Squeeze_0_chain. Qed.
Print Assumptions back_Squeeze_0_rule_is_its_source_closure.

Theorem back_Flatten_0_rule_is_its_source_closure :
  forall (A : Type) (SA : Scalar A) (rd : bred) (h : heap) (y x : nat),
  reshapeBack rd h Chains.back_Flatten_0 y x.
Proof. exact @ChainRuleP.back_Flatten_0_chain. Qed.
Print Assumptions back_Flatten_0_rule_is_its_source_closure.

Theorem back_SumAlong_0_rule_is_its_source_closure :
  forall (A : Type) (SA : Scalar A) (rd : bred) (h : heap) (y x : nat) (dim : Z),
  eval_rule rd h (RSumAlong y x dim) =
  (dor gy <- gy_of h y;
   dor xv <- val_of h x;
   asRes
     (runFun (hooksV (vrOf gy (lk []) (dimI dim) (lk []) (lk [])) (helperUser (dimI dim)) noBind noCond)
        Chains.back_SumAlong_0 tt [("x", xv)])).
Proof. exact @ChainRuleP.back_SumAlong_0_chain. Qed.
Print Assumptions back_SumAlong_0_rule_is_its_source_closure.

Theorem back_MaxAlong_0_rule_is_its_source_closure :
  forall (A : Type) (SA : Scalar A) (rd : bred) (h : heap) (y x : nat) (dim : Z),
  extBack rd h Chains.back_MaxAlong_0 y x dim.
Proof. exact @ChainRuleP.back_MaxAlong_0_chain. Qed.
Print Assumptions back_MaxAlong_0_rule_is_its_source_closure.

Theorem back_MinAlong_0_rule_is_its_source_closure :
  forall (A : Type) (SA : Scalar A) (rd : bred) (h : heap) (y x : nat) (dim : Z),
  extBack rd h Chains.back_MinAlong_0 y x dim.
Proof. exact @ChainRuleP.back_MinAlong_0_chain. Qed.
Print Assumptions back_MinAlong_0_rule_is_its_source_closure.

Theorem back_AvgAlong_0_rule_is_its_source_closure :
  forall (A : Type) (SA : Scalar A) (rd : bred) (h : heap) (y x : nat) (dim : Z),
  avgBack rd h Chains.back_AvgAlong_0 y x dim.
Proof. exact @ChainRuleP.back_AvgAlong_0_chain. Qed.
Print Assumptions back_AvgAlong_0_rule_is_its_source_closure.

Theorem back_MeanAlong_0_rule_is_its_source_closure :
  forall (A : Type) (SA : Scalar A) (rd : bred) (h : heap) (y x : nat) (dim : Z),
  avgBack rd h Chains.back_MeanAlong_0 y x dim.
Proof. exact @ChainRuleP.back_MeanAlong_0_chain. Qed.
Print Assumptions back_MeanAlong_0_rule_is_its_source_closure.

Theorem back_VarAlong_0_rule_is_its_source_closure :
  forall (A : Type) (SA : Scalar A) (rd : bred) (h : heap) (y x : nat) (dim : Z),
  eval_rule rd h (RVarAlong y x dim) =
  (dor gy <- gy_of h y;
   dor xv <- val_of h x;
   asRes
     (runFun
        (hooksV (vrOf gy (varScalar xv dim "2 / float64(n - 1)" 2) (dimI dim) (lk []) (lk []))
           (helperUser (dimI dim)) noBind (varCond xv dim)) Chains.back_VarAlong_0 tt [(
        "x", xv)])).
Proof. exact @ChainRuleP.back_VarAlong_0_chain. Qed.
Print Assumptions back_VarAlong_0_rule_is_its_source_closure.

Theorem back_StdAlong_0_rule_is_its_source_closure :
  forall (A : Type) (SA : Scalar A) (rd : bred) (h : heap) (y x : nat) (dim : Z),
  eval_rule rd h (RStdAlong y x dim) =
  (dor gy <- gy_of h y;
   dor xv <- val_of h x;
   dor yv <- val_of h y;
   asRes
     (runFun
        (hooksV (vrOf gy (varScalar xv dim "1 / float64(n - 1)" 1) (dimI dim) (lk []) (lk []))
           (helperUser (dimI dim)) noBind (varCond xv dim)) Chains.back_StdAlong_0 tt
        [("y", yv); ("x", xv)])).
Proof. exact @ChainRuleP.back_StdAlong_0_chain. Qed.
Print Assumptions back_StdAlong_0_rule_is_its_source_closure.

Theorem back_Scale_0_rule_is_its_source_closure :
  forall (A : Type) (SA : Scalar A) (rd : bred) (h : heap) (y : nat) (a : A),
  eval_rule rd h (RScale y a) =
  (dor gy <- gy_of h y;
   asRes
     (runFun (hooksV (vrOf gy (lk [("a", a)]) (lk []) (lk []) (lk [])) hu0 noBind noCond)
        Chains.back_Scale_0 tt [])).
Proof. exact @ChainRuleP.back_Scale_0_chain. Qed.
Print Assumptions back_Scale_0_rule_is_its_source_closure.

Theorem back_Pow_0_rule_is_its_source_closure :
  forall (A : Type) (SA : Scalar A) (rd : bred) (h : heap) (y x : nat) (a : A) (azero : bool),
  eval_rule rd h (RPow y x a azero) =
  (dor gy <- gy_of h y;
   dor xv <- val_of h x;
   asRes
     (runFun
        (hooksV (vrOf gy (lk [("a - 1", ssub a (cst 1 0)); ("a", a)]) (lk []) (lk []) (lk [])) hu0
           noBind (fun (_ : lets) (t : string) => if t =? "a == 0" then Some azero else None))
        Chains.back_Pow_0 tt [("x", xv)])).
Proof. exact @ChainRuleP.back_Pow_0_chain. Qed.
Print Assumptions back_Pow_0_rule_is_its_source_closure.

Theorem back_Exp_0_rule_is_its_source_closure :
  forall (A : Type) (SA : Scalar A) (rd : bred) (h : heap) (y : nat),
  eval_rule rd h (RExp y) =
  (dor gy <- gy_of h y;
   dor yv <- val_of h y;
   asRes (runFun (hooksV (vrG gy) hu0 noBind noCond) Chains.back_Exp_0 tt [("y", yv)])).
Proof. exact @ChainRuleP.back_Exp_0_chain. Qed.
Print Assumptions back_Exp_0_rule_is_its_source_closure.

Theorem back_Log_0_rule_is_its_source_closure :
  forall (A : Type) (SA : Scalar A) (rd : bred) (h : heap) (y x : nat),
  unaryBack rd h RLog Chains.back_Log_0 y x.
Proof. exact @ChainRuleP.back_Log_0_chain. Qed.
Print Assumptions back_Log_0_rule_is_its_source_closure.

Theorem back_Sin_0_rule_is_its_source_closure :
  forall (A : Type) (SA : Scalar A) (rd : bred) (h : heap) (y x : nat),
  unaryBack rd h RSin Chains.back_Sin_0 y x.
Proof. exact @ChainRuleP.back_Sin_0_chain. Qed.
Print Assumptions back_Sin_0_rule_is_its_source_closure.

Theorem back_Cos_0_rule_is_its_source_closure :
  forall (A : Type) (SA : Scalar A) (rd : bred) (h : heap) (y x : nat),
  unaryBack rd h RCos Chains.back_Cos_0 y x.
Proof. exact @ChainRuleP.back_Cos_0_chain. Qed.
Print Assumptions back_Cos_0_rule_is_its_source_closure.

Theorem back_Tan_0_rule_is_its_source_closure :
  forall (A : Type) (SA : Scalar A) (rd : bred) (h : heap) (y x : nat),
  unaryBack rd h RTan Chains.back_Tan_0 y x.
Proof. exact @ChainRuleP.back_Tan_0_chain. Qed.
Print Assumptions back_Tan_0_rule_is_its_source_closure.

Theorem back_Sinh_0_rule_is_its_source_closure :
  forall (A : Type) (SA : Scalar A) (rd : bred) (h : heap) (y x : nat),
  unaryBack rd h RSinh Chains.back_Sinh_0 y x.
Proof. exact @ChainRuleP.back_Sinh_0_chain. Qed.
Print Assumptions back_Sinh_0_rule_is_its_source_closure.

Theorem back_Cosh_0_rule_is_its_source_closure :
  forall (A : Type) (SA : Scalar A) (rd : bred) (h : heap) (y x : nat),
  unaryBack rd h RCosh Chains.back_Cosh_0 y x.
Proof. exact @ChainRuleP.back_Cosh_0_chain. Qed.
Print Assumptions back_Cosh_0_rule_is_its_source_closure.

Theorem back_Tanh_0_rule_is_its_source_closure :
  forall (A : Type) (SA : Scalar A) (rd : bred) (h : heap) (y x : nat),
  unaryBack rd h RTanh Chains.back_Tanh_0 y x.
Proof. exact @ChainRuleP.back_Tanh_0_chain. Qed.
Print Assumptions back_Tanh_0_rule_is_its_source_closure.

Theorem back_ElMax_0_rule_is_its_source_closure :
  forall (A : Type) (SA : Scalar A) (rd : bred) (h : heap) (y a b : nat),
  elselBack rd h Chains.back_ElMax_0 true y a b.
Proof. exact @ChainRuleP.back_ElMax_0_chain. Qed.
Print Assumptions back_ElMax_0_rule_is_its_source_closure.

Theorem back_ElMax_1_rule_is_its_source_closure :
  forall (A : Type) (SA : Scalar A) (rd : bred) (h : heap) (y a b : nat),
  elselBack rd h Chains.back_ElMax_1 false y a b.
Proof. exact @ChainRuleP.back_ElMax_1_chain. Qed.
Print Assumptions back_ElMax_1_rule_is_its_source_closure.

Theorem back_ElMin_0_rule_is_its_source_closure :
  forall (A : Type) (SA : Scalar A) (rd : bred) (h : heap) (y a b : nat),
  elselBack rd h Chains.back_ElMin_0 true y a b.
Proof. exact @ChainRuleP.back_ElMin_0_chain. Qed.
Print Assumptions back_ElMin_0_rule_is_its_source_closure.

Theorem back_ElMin_1_rule_is_its_source_closure :
  forall (A : Type) (SA : Scalar A) (rd : bred) (h : heap) (y a b : nat),
  elselBack rd h Chains.back_ElMin_1 false y a b.
Proof. exact @ChainRuleP.back_ElMin_1_chain. Qed.
Print Assumptions back_ElMin_1_rule_is_its_source_closure.

Theorem back_Add_0_rule_is_its_source_closure :
  forall (A : Type) (SA : Scalar A) (rd : bred) (h : heap) (y : nat),
  gyOnly rd h (RId y) Chains.back_Add_0 y.
Proof. exact @ChainRuleP.back_Add_0_chain. Qed.
Print Assumptions back_Add_0_rule_is_its_source_closure.

Theorem back_Add_1_rule_is_its_source_closure :
  forall (A : Type) (SA : Scalar A) (rd : bred) (h : heap) (y : nat),
  gyOnly rd h (RId y) Chains.back_Add_1 y.
Proof. exact @ChainRuleP.back_Add_1_chain. Qed.
Print Assumptions back_Add_1_rule_is_its_source_closure.

Theorem back_Sub_0_rule_is_its_source_closure :
  forall (A : Type) (SA : Scalar A) (rd : bred) (h : heap) (y : nat),
  gyOnly rd h (RId y) Chains.back_Sub_0 y.
Proof. exact @ChainRuleP.back_Sub_0_chain. Qed.
Print Assumptions back_Sub_0_rule_is_its_source_closure.

Theorem back_Sub_1_rule_is_its_source_closure :
  forall (A : Type) (SA : Scalar A) (rd : bred) (h : heap) (y : nat),
  gyOnly rd h (RNeg y) Chains.back_Sub_1 y.
Proof. exact @ChainRuleP.back_Sub_1_chain. Qed.
Print Assumptions back_Sub_1_rule_is_its_source_closure.

Theorem back_Mul_0_rule_is_its_source_closure :
  forall (A : Type) (SA : Scalar A) (rd : bred) (h : heap) (y b : nat),
  eval_rule rd h (RMul y b) =
  (dor gy <- gy_of h y;
   dor bv <- val_of h b;
   asRes (runFun (hooksV (vrG gy) hu0 noBind noCond) Chains.back_Mul_0 tt [("b", bv)])).
Proof. exact @ChainRuleP.back_Mul_0_chain. Qed.
Print Assumptions back_Mul_0_rule_is_its_source_closure.

Theorem back_Mul_1_rule_is_its_source_closure :
  forall (A : Type) (SA : Scalar A) (rd : bred) (h : heap) (y a : nat),
  eval_rule rd h (RMul y a) =
  (dor gy <- gy_of h y;
   dor av <- val_of h a;
   asRes (runFun (hooksV (vrG gy) hu0 noBind noCond) Chains.back_Mul_1 tt [("a", av)])).
Proof. exact @ChainRuleP.back_Mul_1_chain. Qed.
Print Assumptions back_Mul_1_rule_is_its_source_closure.

Theorem back_Div_0_rule_is_its_source_closure :
  forall (A : Type) (SA : Scalar A) (rd : bred) (h : heap) (y b : nat),
  eval_rule rd h (RDivA y b) =
  (dor gy <- gy_of h y;
   dor bv <- val_of h b;
   asRes (runFun (hooksV (vrG gy) hu0 noBind noCond) Chains.back_Div_0 tt [("b", bv)])).
Proof. exact @ChainRuleP.back_Div_0_chain. Qed.
Print Assumptions back_Div_0_rule_is_its_source_closure.

Theorem back_Div_1_rule_is_its_source_closure :
  forall (A : Type) (SA : Scalar A) (rd : bred) (h : heap) (y a b : nat),
  eval_rule rd h (RDivB y a b) =
  (dor gy <- gy_of h y;
   dor av <- val_of h a;
   dor bv <- val_of h b;
   asRes (runFun (hooksV (vrG gy) hu0 noBind noCond) Chains.back_Div_1 tt [("a", av); ("b", bv)])).
Proof. exact @ChainRuleP.back_Div_1_chain. Qed.
Print Assumptions back_Div_1_rule_is_its_source_closure.

Theorem back_Dot_0_rule_is_its_source_closure :
  forall (A : Type) (SA : Scalar A) (rd : bred) (h : heap) (y b : nat),
  dotBack rd h Chains.back_Dot_0 "b" y b.
Proof. exact @ChainRuleP.back_Dot_0_chain. Qed.
Print Assumptions back_Dot_0_rule_is_its_source_closure.

Theorem back_Dot_1_rule_is_its_source_closure :
  forall (A : Type) (SA : Scalar A) (rd : bred) (h : heap) (y a : nat),
  dotBack rd h Chains.back_Dot_1 "a" y a.
Proof. exact @ChainRuleP.back_Dot_1_chain. Qed.
Print Assumptions back_Dot_1_rule_is_its_source_closure.

Theorem back_MatMul_0_rule_is_its_source_closure :
  forall (A : Type) (SA : Scalar A) (rd : bred) (h : heap) (y b : nat),
  eval_rule rd h (RMatMulA y b) =
  (dor gy <- gy_of h y;
   dor bv <- val_of h b;
   asRes (runFun (hooksV (vrG gy) hu0 noBind noCond) Chains.back_MatMul_0 tt [("b", bv)])).
Proof. exact @ChainRuleP.back_MatMul_0_chain. Qed.
Print Assumptions back_MatMul_0_rule_is_its_source_closure.

Theorem back_MatMul_1_rule_is_its_source_closure :
  forall (A : Type) (SA : Scalar A) (rd : bred) (h : heap) (y a : nat),
  eval_rule rd h (RMatMulB y a) =
  (dor gy <- gy_of h y;
   dor av <- val_of h a;
   asRes (runFun (hooksV (vrG gy) hu0 noBind noCond) Chains.back_MatMul_1 tt [("a", av)])).
Proof. exact @ChainRuleP.back_MatMul_1_chain. Qed.
Print Assumptions back_MatMul_1_rule_is_its_source_closure.

Theorem every_rule_constructor_starts_with_the_spent_untracked_test :
  forallb prologue_ok Chains.rule_prologues = true /\ Datatypes.length Chains.rule_prologues = 32.
Proof. exact @ChainRuleP.rule_prologues_ok. Qed.
Print Assumptions every_rule_constructor_starts_with_the_spent_untracked_test.

Theorem method_layer_of_differentiable_ops_is_as_modelled :
  same_wiring differentiable_methods.
Proof. exact @WiringP.wiring_differentiable. Qed.
Print Assumptions method_layer_of_differentiable_ops_is_as_modelled.
