(* C13S — source tie by translation for the losses' compositions (the graphs back-propagation runs over).
   Statements only (proofs: Proofs/Chain*P.v).  Model/Chains.v is REGENERATED from /repo's Go sources
   on every run by the translator harness/chainx (go/ast): the straight-line chains of Tensor method
   calls of MSE.Compute, BCE.Compute, CE.Compute and clip (component/losses/*.go).
   Each theorem interprets the generated chain with the model's own operations (Model/ChainIR.v) and
   states that the interpretation IS the model's definition — for every heap, argument and outcome.
   An edit of the Go source that is not semantically the same chain changes Chains.v and the theorem
   about it no longer checks.  Any scalar type, no laws: closed under the global context. *)
From Coq Require Import String List ZArith Bool.
From Qeep Require Import Model.Scalar Model.Nd Model.Data Model.Valid Model.Api Model.Grad Model.Components Model.ChainIR.
From Qeep Require Model.Chains.
From Qeep Require Import Proofs.ChainBaseP Proofs.ChainLossP.
Import ListNotations.
Local Open Scope string_scope.

Theorem clip_is_its_source_chain :
  forall (A : Type) (SA : Scalar A) (h : heap) (x : nat) (l u : A),
  clip h x l u = asHres (runFun (hooksH (rsClip l u) noUser None noGuard) Chains.clip h [("x", x)]).
Proof. exact @ChainLossP.clip_chain. Qed.
Print Assumptions clip_is_its_source_chain.

Theorem mse_compute_is_its_source_chain :
  forall (A : Type) (SA : Scalar A) (h : heap) (p t : nat) (nm : option nat),
  mse_compute h (Some p) (Some t) nm =
  atomically h
    (asHres
       (runFun
          (hooksH rsNone noUser nm
             (lossGuard match lossArgs1 h (Some p) (Some t) with
                        | Some _ => true
                        | None => false
                        end)) Chains.mse_compute h [("yp", p); ("yt", t)])).
Proof. exact @ChainLossP.mse_chain. Qed.
Print Assumptions mse_compute_is_its_source_chain.

Theorem bce_compute_is_its_source_chain :
  forall (A : Type) (SA : Scalar A) (eps ome : A) (h : heap) (p t : nat) (nm : option nat),
  bce_compute eps ome h (Some p) (Some t) nm =
  atomically h
    (asHres
       (runFun
          (hooksH rsNone (clipUser eps ome) nm
             (lossGuard match lossArgs1 h (Some p) (Some t) with
                        | Some _ => true
                        | None => false
                        end)) Chains.bce_compute h [("yp", p); ("yt", t)])).
Proof. exact @ChainLossP.bce_chain. Qed.
Print Assumptions bce_compute_is_its_source_chain.

Theorem ce_compute_is_its_source_chain :
  forall (A : Type) (SA : Scalar A) (eps ome : A) (h : heap) (p t : nat) (nm : option nat),
  ce_compute eps ome h (Some p) (Some t) nm =
  atomically h
    (asHres
       (runFun (hooksH rsNone (clipUser eps ome) nm (lossGuard (ceOk h p t))) Chains.ce_compute h
          [("yp", p); ("yt", t)])).
Proof. exact @ChainLossP.ce_chain. Qed.
Print Assumptions ce_compute_is_its_source_chain.
