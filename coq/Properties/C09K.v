(* C09K — source tie BY TRANSLATION for the component layer — every validator and constructor of the component layer returns (error or value) for every argument, nil tensors, nil configs and nil pointers included: none panics; package tensor's public entry points return the validation error or exactly the cputensor / gradtrack call (their 'unreachable' panic is unreachable); layers.Input needs a seed function and no inputs.
   Statements only (proofs: Proofs/Comp*P.v).  Model/GoComp.v is REGENERATED from /repo's Go sources on every run by
   harness/gox (comp.go): the component layer's own logic — input validators, config validators, constructors, the
   scale formulas of the initializers, the Accuracy counters — as loop-free programs of the imperative language of
   Model/DataIR.v.  A tensor.Tensor interface value is nil or a node id of the model's heap; a config pointer is nil or
   the list of its fields; an error is 0 / 1; methods of tensors, float comparisons (parameters fltb / fleb: an
   abstract scalar has no order), int->float conversion and the library functions (tensor.RandU, the forward bodies
   that Properties/*S.v cover) are calls of the oracle Model/CompExt.v, in which SIBLING functions are linked by
   running their own translated programs.  Each theorem says that RUNNING the translated program returns exactly what
   the hand-written model (Model/Components.v) computes, for ALL heaps, arguments, fuel and depth; a returned outcome
   is never a panic.  An edit of one of these Go functions changes GoComp.v and breaks the theorem unless it computes
   the same thing.  Closed under the global context. *)
From Coq Require Import String List ZArith Bool Arith.
From Qeep Require Import Model.Scalar Model.Nd Model.Fill Model.Data Model.Valid Model.Api Model.Grad Model.Backprop Model.Components Model.Consts Model.DataIR Model.HeapExt Model.CompExt.
From Qeep Require Model.GoComp Model.GoWrap Model.DataExt Model.RandExt.
From Qeep Require Import Proofs.DataIRP.
From Qeep Require Proofs.CompValidP Proofs.CompAccP Proofs.CompInitP Proofs.CompInputP Proofs.CompFcP Proofs.CompTensorP Proofs.DataRandP Proofs.FillP Proofs.NdP.
Import ListNotations.
Local Open Scope string_scope.

Theorem MSE_validateInputs_never_panics :
  forall (A : Type) (SA : Scalar A) (fltb fleb : A -> A -> bool)
    (lib : string -> list dval -> heap -> option (list dval * heap)) (fuel depth : nat) 
    (h : heap) (yp yt : targ),
  CompValidP.targOk h yp ->
  CompValidP.targOk h yt ->
  CompValidP.safe
    (drun cfapp heap (cext0 fltb fleb lib) GoComp.c_MSE_validateInputs fuel depth [dtarg yp; dtarg yt] h).
Proof. exact @CompValidP.MSE_validateInputs_never_panics. Qed.
Print Assumptions MSE_validateInputs_never_panics.

Theorem BCE_validateInputs_never_panics :
  forall (A : Type) (SA : Scalar A) (fltb fleb : A -> A -> bool)
    (lib : string -> list dval -> heap -> option (list dval * heap)) (fuel depth : nat) 
    (h : heap) (yp yt : targ),
  CompValidP.targOk h yp ->
  CompValidP.targOk h yt ->
  CompValidP.safe
    (drun cfapp heap (cext0 fltb fleb lib) GoComp.c_BCE_validateInputs fuel depth [dtarg yp; dtarg yt] h).
Proof. exact @CompValidP.BCE_validateInputs_never_panics. Qed.
Print Assumptions BCE_validateInputs_never_panics.

Theorem CE_validateInputs_never_panics :
  forall (A : Type) (SA : Scalar A) (fltb fleb : A -> A -> bool)
    (lib : string -> list dval -> heap -> option (list dval * heap)) (fuel depth : nat) 
    (h : heap) (yp yt : targ),
  CompValidP.targOk h yp ->
  CompValidP.targOk h yt ->
  CompValidP.safe
    (drun cfapp heap (cext0 fltb fleb lib) GoComp.c_CE_validateInputs fuel depth [dtarg yp; dtarg yt] h).
Proof. exact @CompValidP.CE_validateInputs_never_panics. Qed.
Print Assumptions CE_validateInputs_never_panics.

Theorem Accuracy_validateInputs_never_panics :
  forall (A : Type) (SA : Scalar A) (fltb fleb : A -> A -> bool)
    (lib : string -> list dval -> heap -> option (list dval * heap)) (fuel depth : nat) 
    (h : heap) (ct cc : dval) (yp yt : targ),
  CompValidP.targOk h yp ->
  CompValidP.targOk h yt ->
  CompValidP.safe
    (drun cfapp heap (cext0 fltb fleb lib) GoComp.c_Accuracy_validateInputs fuel depth
       [ct; cc; dtarg yp; dtarg yt] h).
Proof. exact @CompValidP.Accuracy_validateInputs_never_panics. Qed.
Print Assumptions Accuracy_validateInputs_never_panics.

Theorem Relu_toValidInputs_never_panics :
  forall (A : Type) (SA : Scalar A) (fltb fleb : A -> A -> bool)
    (lib : string -> list dval -> heap -> option (list dval * heap)) (fuel depth : nat) 
    (h : heap) (xs : list targ),
  CompValidP.safe
    (drun cfapp heap (cext0 fltb fleb lib) GoComp.c_Relu_toValidInputs fuel depth [DL (map dtarg xs)] h).
Proof. exact @CompValidP.Relu_toValidInputs_never_panics. Qed.
Print Assumptions Relu_toValidInputs_never_panics.

Theorem Sigmoid_toValidInputs_never_panics :
  forall (A : Type) (SA : Scalar A) (fltb fleb : A -> A -> bool)
    (lib : string -> list dval -> heap -> option (list dval * heap)) (fuel depth : nat) 
    (h : heap) (xs : list targ),
  CompValidP.safe
    (drun cfapp heap (cext0 fltb fleb lib) GoComp.c_Sigmoid_toValidInputs fuel depth [
       DL (map dtarg xs)] h).
Proof. exact @CompValidP.Sigmoid_toValidInputs_never_panics. Qed.
Print Assumptions Sigmoid_toValidInputs_never_panics.

Theorem Tanh_toValidInputs_never_panics :
  forall (A : Type) (SA : Scalar A) (fltb fleb : A -> A -> bool)
    (lib : string -> list dval -> heap -> option (list dval * heap)) (fuel depth : nat) 
    (h : heap) (xs : list targ),
  CompValidP.safe
    (drun cfapp heap (cext0 fltb fleb lib) GoComp.c_Tanh_toValidInputs fuel depth [DL (map dtarg xs)] h).
Proof. exact @CompValidP.Tanh_toValidInputs_never_panics. Qed.
Print Assumptions Tanh_toValidInputs_never_panics.

Theorem LeakyRelu_toValidInputs_never_panics :
  forall (A : Type) (SA : Scalar A) (fltb fleb : A -> A -> bool)
    (lib : string -> list dval -> heap -> option (list dval * heap)) (fuel depth : nat) 
    (h : heap) (m : dval) (xs : list targ),
  CompValidP.safe
    (drun cfapp heap (cext0 fltb fleb lib) GoComp.c_LeakyRelu_toValidInputs fuel depth
       [m; DL (map dtarg xs)] h).
Proof. exact @CompValidP.LeakyRelu_toValidInputs_never_panics. Qed.
Print Assumptions LeakyRelu_toValidInputs_never_panics.

Theorem Softmax_toValidInputs_never_panics :
  forall (A : Type) (SA : Scalar A) (fltb fleb : A -> A -> bool)
    (lib : string -> list dval -> heap -> option (list dval * heap)) (fuel depth : nat) 
    (h : heap) (dim : Z) (xs : list targ),
  CompValidP.targsOk h xs ->
  CompValidP.safe
    (drun cfapp heap (cext0 fltb fleb lib) GoComp.c_Softmax_toValidInputs fuel depth
       [DI dim; DL (map dtarg xs)] h).
Proof. exact @CompValidP.Softmax_toValidInputs_never_panics. Qed.
Print Assumptions Softmax_toValidInputs_never_panics.

Theorem FC_toValidInputs_never_panics :
  forall (A : Type) (SA : Scalar A) (fltb fleb : A -> A -> bool)
    (lib : string -> list dval -> heap -> option (list dval * heap)) (fuel depth : nat) 
    (h : heap) (w b : dval) (xs : list targ),
  CompValidP.targsOk h xs ->
  CompValidP.safe
    (drun cfapp heap (cext0 fltb fleb lib) GoComp.c_FC_toValidInputs fuel depth
       [w; b; DL (map dtarg xs)] h).
Proof. exact @CompValidP.FC_toValidInputs_never_panics. Qed.
Print Assumptions FC_toValidInputs_never_panics.

Theorem SGD_toValidInputs_never_panics :
  forall (A : Type) (SA : Scalar A) (fltb fleb : A -> A -> bool)
    (lib : string -> list dval -> heap -> option (list dval * heap)) (fuel depth : nat) 
    (h : heap) (lr : dval) (c : option targ),
  CompValidP.cellOk h c ->
  CompValidP.safe
    (drun cfapp heap (cext0 fltb fleb lib) GoComp.c_SGD_toValidInputs fuel depth
       [lr; CompValidP.dcell c] h).
Proof. exact @CompValidP.SGD_toValidInputs_never_panics. Qed.
Print Assumptions SGD_toValidInputs_never_panics.

Theorem FC_validateInitializedWeights_never_panics :
  forall (A : Type) (SA : Scalar A) (fltb fleb : A -> A -> bool)
    (lib : string -> list dval -> heap -> option (list dval * heap)) (fuel depth : nat) 
    (h : heap) (w b : targ) (inputs outputs : Z) (rest : dval),
  CompValidP.targOk h w ->
  CompValidP.targOk h b ->
  CompValidP.safe
    (drun cfapp heap (cext0 fltb fleb lib) GoComp.c_FC_validateInitializedWeights fuel depth
       [dtarg w; dtarg b; DL [DI inputs; DI outputs; rest]] h).
Proof. exact @CompValidP.FC_validateInitializedWeights_never_panics. Qed.
Print Assumptions FC_validateInitializedWeights_never_panics.

Theorem HeUniform_config_total :
  forall (A : Type) (SA : Scalar A) (fltb fleb : A -> A -> bool)
    (lib : string -> list dval -> heap -> option (list dval * heap)) (dl du ds : dec) 
    (fuel depth : nat) (c : option Z) (h : heap),
  CompInitP.outcome
    (drun cfapp heap (cext0 fltb fleb lib) GoComp.c_HeUniform_toValidHeUniformConfig fuel depth
       [CompInitP.cfgI1 c] h) =
  Some ([CompInitP.cfgI1 c; CompInitP.flag (init_valid dl du ds (IHeUniform c))], h).
Proof. exact @CompInitP.HeUniform_config. Qed.
Print Assumptions HeUniform_config_total.

Theorem HeNormal_config_total :
  forall (A : Type) (SA : Scalar A) (fltb fleb : A -> A -> bool)
    (lib : string -> list dval -> heap -> option (list dval * heap)) (dl du ds : dec) 
    (fuel depth : nat) (c : option Z) (h : heap),
  CompInitP.outcome
    (drun cfapp heap (cext0 fltb fleb lib) GoComp.c_HeNormal_toValidHeNormalConfig fuel depth
       [CompInitP.cfgI1 c] h) =
  Some ([CompInitP.cfgI1 c; CompInitP.flag (init_valid dl du ds (IHeNormal c))], h).
Proof. exact @CompInitP.HeNormal_config. Qed.
Print Assumptions HeNormal_config_total.

Theorem XavierUniform_config_total :
  forall (A : Type) (SA : Scalar A) (fltb fleb : A -> A -> bool)
    (lib : string -> list dval -> heap -> option (list dval * heap)) (dl du ds : dec) 
    (fuel depth : nat) (c : option (Z * Z)) (h : heap),
  CompInitP.outcome
    (drun cfapp heap (cext0 fltb fleb lib) GoComp.c_XavierUniform_toValidXavierUniformConfig fuel depth
       [CompInitP.cfgI2 c] h) =
  Some ([CompInitP.cfgI2 c; CompInitP.flag (init_valid dl du ds (IXavierUniform c))], h).
Proof. exact @CompInitP.XavierUniform_config. Qed.
Print Assumptions XavierUniform_config_total.

Theorem XavierNormal_config_total :
  forall (A : Type) (SA : Scalar A) (fltb fleb : A -> A -> bool)
    (lib : string -> list dval -> heap -> option (list dval * heap)) (dl du ds : dec) 
    (fuel depth : nat) (c : option (Z * Z)) (h : heap),
  CompInitP.outcome
    (drun cfapp heap (cext0 fltb fleb lib) GoComp.c_XavierNormal_toValidXavierNormalConfig fuel depth
       [CompInitP.cfgI2 c] h) =
  Some ([CompInitP.cfgI2 c; CompInitP.flag (init_valid dl du ds (IXavierNormal c))], h).
Proof. exact @CompInitP.XavierNormal_config. Qed.
Print Assumptions XavierNormal_config_total.

Theorem Uniform_config_total :
  forall (A : Type) (SA : Scalar A) (fltb fleb : A -> A -> bool)
    (lib : string -> list dval -> heap -> option (list dval * heap)) (fuel depth : nat)
    (c : option (A * A)) (h : heap),
  let
  '(l, u) := match c with
             | Some p => p
             | None => CompInitP.uniDefault
             end in
   CompInitP.outcome
     (drun cfapp heap (cext0 fltb fleb lib) GoComp.c_Uniform_toValidUniformConfig fuel depth
        [CompInitP.cfgF2 c] h) = Some ([DL [DF l; DF u]; CompInitP.flag (fltb l u)], h).
Proof. exact @CompInitP.Uniform_config. Qed.
Print Assumptions Uniform_config_total.

Theorem Normal_config_total :
  forall (A : Type) (SA : Scalar A) (fltb fleb : A -> A -> bool)
    (lib : string -> list dval -> heap -> option (list dval * heap)) (fuel depth : nat)
    (c : option (A * A)) (h : heap),
  let
  '(m, s) := match c with
             | Some p => p
             | None => CompInitP.norDefault
             end in
   CompInitP.outcome
     (drun cfapp heap (cext0 fltb fleb lib) GoComp.c_Normal_toValidNormalConfig fuel depth
        [CompInitP.cfgF2 c] h) = Some ([DL [DF m; DF s]; CompInitP.flag (fltb (sconst 0 0) s)], h).
Proof. exact @CompInitP.Normal_config. Qed.
Print Assumptions Normal_config_total.

Theorem Softmax_config_total :
  forall (A : Type) (SA : Scalar A) (fltb fleb : A -> A -> bool)
    (lib : string -> list dval -> heap -> option (list dval * heap)) (fuel depth : nat) 
    (c : option Z) (h : heap),
  let d := match c with
           | Some d => d
           | None => 0%Z
           end in
  CompInitP.outcome
    (drun cfapp heap (cext0 fltb fleb lib) GoComp.c_Softmax_toValidSoftmaxConfig fuel depth
       [CompInitP.cfgI1 c] h) = Some ([DL [DI d]; CompInitP.flag (0 <=? d)%Z], h).
Proof. exact @CompInitP.Softmax_config. Qed.
Print Assumptions Softmax_config_total.

Theorem Full_config_total :
  forall (A : Type) (SA : Scalar A) (fltb fleb : A -> A -> bool)
    (lib : string -> list dval -> heap -> option (list dval * heap)) (fuel depth : nat) 
    (c : option A) (h : heap),
  CompInitP.outcome
    (drun cfapp heap (cext0 fltb fleb lib) GoComp.c_Full_toValidFullConfig fuel depth
       [CompInitP.cfgF1 c] h) = Some ([DL [DF match c with
                                              | Some v => v
                                              | None => sconst 0 0
                                              end]], h).
Proof. exact @CompInitP.Full_config. Qed.
Print Assumptions Full_config_total.

Theorem SGD_config_total :
  forall (A : Type) (SA : Scalar A) (fltb fleb : A -> A -> bool)
    (lib : string -> list dval -> heap -> option (list dval * heap)) (fuel depth : nat) 
    (c : option A) (h : heap),
  CompInitP.outcome
    (drun cfapp heap (cext0 fltb fleb lib) GoComp.c_SGD_toValidSGDConfig fuel depth [
       CompInitP.cfgF1 c] h) =
  Some ([DL [DF match c with
                | Some v => v
                | None => sconst 1 (-2)
                end]], h).
Proof. exact @CompInitP.SGD_config. Qed.
Print Assumptions SGD_config_total.

Theorem LeakyRelu_config_total :
  forall (A : Type) (SA : Scalar A) (fltb fleb : A -> A -> bool)
    (lib : string -> list dval -> heap -> option (list dval * heap)) (fuel depth : nat) 
    (c : option A) (h : heap),
  CompInitP.outcome
    (drun cfapp heap (cext0 fltb fleb lib) GoComp.c_LeakyRelu_toValidLeakyReluConfig fuel depth
       [CompInitP.cfgF1 c] h) =
  Some ([DL [DF match c with
                | Some v => v
                | None => sconst 1 (-2)
                end]], h).
Proof. exact @CompInitP.LeakyRelu_config. Qed.
Print Assumptions LeakyRelu_config_total.

Theorem Accuracy_Result_total :
  forall (A : Type) (SA : Scalar A) (fltb fleb : A -> A -> bool)
    (lib : string -> list dval -> heap -> option (list dval * heap)) (fuel depth : nat) 
    (h : heap) (a : accuracy),
  exists g l : denv,
    drun cfapp heap (cext fltb fleb lib) GoComp.c_Accuracy_Result fuel depth
      [DI (Z.of_nat (acc_total a)); DF (acc_correct a)] h = DRet heap [DF (acc_result a); DI 0] h g l.
Proof. exact @CompAccP.Result_run. Qed.
Print Assumptions Accuracy_Result_total.

Theorem NewInput :
  forall (A : Type) (SA : Scalar A) (fltb fleb : A -> A -> bool)
    (lib : string -> list dval -> heap -> option (list dval * heap)) (fuel depth : nat) 
    (h : heap),
  CompInputP.outcome (drun cfapp heap (cext0 fltb fleb lib) GoComp.c_Input_NewInput fuel depth [] h) =
  Some ([DL [DNil]], h).
Proof. exact @CompInputP.NewInput_run. Qed.
Print Assumptions NewInput.

Theorem Input_validateInputs_rejects_any_tensor :
  forall (A : Type) (SA : Scalar A) (fltb fleb : A -> A -> bool)
    (lib : string -> list dval -> heap -> option (list dval * heap)) (fuel depth : nat) 
    (h : heap) (seed : dval) (xs : list dval),
  CompInputP.outcome
    (drun cfapp heap (cext0 fltb fleb lib) GoComp.c_Input_validateInputs fuel depth [seed; DL xs] h) =
  Some ([DI match xs with
            | [] => 0
            | _ :: _ => 1
            end], h).
Proof. exact @CompInputP.Input_validateInputs_spec. Qed.
Print Assumptions Input_validateInputs_rejects_any_tensor.

Theorem Input_Forward_needs_a_seed_function_and_no_inputs :
  forall (A : Type) (SA : Scalar A) (fltb fleb : A -> A -> bool)
    (lib : string -> list dval -> heap -> option (list dval * heap)) (fuel depth : nat) 
    (h : heap) (seed : dval) (xs : list dval),
  let o := drun cfapp heap (cext fltb fleb lib) GoComp.c_Input_Forward fuel depth [seed; DL xs] h in
  match xs with
  | [] =>
      match seed with
      | DNil => CompInputP.outcome o = Some ([DNil; DI 1], h)
      | _ =>
          match lib "call" [seed] h with
          | Some ([y], h') => CompInputP.outcome o = Some ([y; DI 0], h')
          | Some (y :: _ :: _, _) => o = DPanic heap
          | _ => o = DPanic heap
          end
      end
  | _ :: _ => CompInputP.outcome o = Some ([DNil; DI 1], h)
  end.
Proof. exact @CompInputP.Input_Forward_run. Qed.
Print Assumptions Input_Forward_needs_a_seed_function_and_no_inputs.

Theorem tensor_validateConfig :
  forall (A : Type) (SA : Scalar A) (fltb fleb : A -> A -> bool)
    (lib : string -> list dval -> heap -> option (list dval * heap)) (fuel depth : nat)
    (c : option (Z * dval)) (h : heap),
  CompTensorP.outcome
    (drun cfapp heap (cext0 fltb fleb lib) GoComp.c_tensor_validateConfig fuel depth
       [CompTensorP.cfgOf c] h) = Some ([CompTensorP.flag (CompTensorP.devOk c)], h).
Proof. exact @CompTensorP.validateConfig_spec. Qed.
Print Assumptions tensor_validateConfig.

Theorem tensor_prepareConfig :
  forall (A : Type) (SA : Scalar A) (fltb fleb : A -> A -> bool)
    (lib : string -> list dval -> heap -> option (list dval * heap)) (fuel depth : nat)
    (c : option (Z * dval)) (h : heap),
  CompTensorP.outcome
    (drun cfapp heap (cext fltb fleb lib) GoComp.c_tensor_prepareConfig fuel depth [
       CompTensorP.cfgOf c] h) = Some (CompTensorP.prepared c, h).
Proof. exact @CompTensorP.prepareConfig_spec. Qed.
Print Assumptions tensor_prepareConfig.

Theorem tensor_prepareConfig_ok_means_CPU :
  forall (A : Type) (SA : Scalar A) (fltb fleb : A -> A -> bool)
    (lib : string -> list dval -> heap -> option (list dval * heap)) (fuel depth : nat)
    (c : option (Z * dval)) (cv : dval) (h h' : heap),
  CompTensorP.outcome
    (drun cfapp heap (cext fltb fleb lib) GoComp.c_tensor_prepareConfig fuel depth [
       CompTensorP.cfgOf c] h) = Some ([cv; DI 0], h') -> exists b : dval, cv = DL [DI 1; b].
Proof. exact @CompTensorP.prepareConfig_ok_device. Qed.
Print Assumptions tensor_prepareConfig_ok_means_CPU.

Theorem tensor_validateTensorDevice :
  forall (A : Type) (SA : Scalar A) (fltb fleb : A -> A -> bool)
    (lib : string -> list dval -> heap -> option (list dval * heap)) (fuel depth : nat) 
    (v : dval) (h : heap),
  CompTensorP.outcome
    (drun cfapp heap (cext0 fltb fleb lib) GoComp.c_tensor_validateTensorDevice fuel depth [v] h) =
  Some ([CompTensorP.flag (CompTensorP.isNode v)], h).
Proof. exact @CompTensorP.validateTensorDevice_spec. Qed.
Print Assumptions tensor_validateTensorDevice.

Theorem tensor_validateTensorsDeviceUnity :
  forall (A : Type) (SA : Scalar A) (fltb fleb : A -> A -> bool)
    (lib : string -> list dval -> heap -> option (list dval * heap)) (fuel depth : nat) 
    (vs : list dval) (h : heap),
  CompTensorP.outcome
    (drun cfapp heap (cext0 fltb fleb lib) GoComp.c_tensor_validateTensorsDeviceUnity fuel depth [
       DL vs] h) = Some ([CompTensorP.flag (CompTensorP.unityOk vs)], h).
Proof. exact @CompTensorP.validateTensorsDeviceUnity_spec. Qed.
Print Assumptions tensor_validateTensorsDeviceUnity.

Theorem tensor_validateTensorsDeviceUnity_accepts_iff :
  forall (A : Type) (SA : Scalar A) (fltb fleb : A -> A -> bool)
    (lib : string -> list dval -> heap -> option (list dval * heap)) (fuel depth : nat) 
    (vs : list dval) (h : heap),
  CompTensorP.outcome
    (drun cfapp heap (cext0 fltb fleb lib) GoComp.c_tensor_validateTensorsDeviceUnity fuel depth [
       DL vs] h) = Some ([DI 0], h) <->
  2 <= Datatypes.length vs /\ (forall v : dval, In v vs -> exists n : Z, v = DI n).
Proof. exact @CompTensorP.validateTensorsDeviceUnity_accepts_iff. Qed.
Print Assumptions tensor_validateTensorsDeviceUnity_accepts_iff.

Theorem tensor_validateTensorsDeviceUnity_never_panics :
  forall (A : Type) (SA : Scalar A) (fltb fleb : A -> A -> bool)
    (lib : string -> list dval -> heap -> option (list dval * heap)) (fuel depth : nat) 
    (vs : list dval) (h : heap),
  drun cfapp heap (cext0 fltb fleb lib) GoComp.c_tensor_validateTensorsDeviceUnity fuel depth [DL vs] h <>
  DPanic heap.
Proof. exact @CompTensorP.validateTensorsDeviceUnity_total. Qed.
Print Assumptions tensor_validateTensorsDeviceUnity_never_panics.

Theorem tensor_Full :
  forall (A : Type) (SA : Scalar A) (fltb fleb : A -> A -> bool)
    (lib : string -> list dval -> heap -> option (list dval * heap)) (fuel depth : nat)
    (dims value : dval) (c : option (Z * dval)) (h : heap),
  if CompTensorP.devOk c
  then
   CompTensorP.isCall
     (drun cfapp heap (cext2 fltb fleb lib) GoComp.c_tensor_Full fuel depth
        [dims; value; CompTensorP.cfgOf c] h)
     (lib "cputensor.Full" [dims; value; CompTensorP.gradOfCfg c] h)
  else
   CompTensorP.outcome
     (drun cfapp heap (cext2 fltb fleb lib) GoComp.c_tensor_Full fuel depth
        [dims; value; CompTensorP.cfgOf c] h) = Some ([DNil; DI 1], h).
Proof. exact @CompTensorP.Full_spec. Qed.
Print Assumptions tensor_Full.

Theorem tensor_Zeros :
  forall (A : Type) (SA : Scalar A) (fltb fleb : A -> A -> bool)
    (lib : string -> list dval -> heap -> option (list dval * heap)) (fuel depth : nat) 
    (dims : dval) (c : option (Z * dval)) (h : heap),
  if CompTensorP.devOk c
  then
   CompTensorP.isCall
     (drun cfapp heap (cext2 fltb fleb lib) GoComp.c_tensor_Zeros fuel depth [
        dims; CompTensorP.cfgOf c] h) (lib "cputensor.Zeros" [dims; CompTensorP.gradOfCfg c] h)
  else
   CompTensorP.outcome
     (drun cfapp heap (cext2 fltb fleb lib) GoComp.c_tensor_Zeros fuel depth [
        dims; CompTensorP.cfgOf c] h) = Some ([DNil; DI 1], h).
Proof. exact @CompTensorP.Zeros_spec. Qed.
Print Assumptions tensor_Zeros.

Theorem tensor_Ones :
  forall (A : Type) (SA : Scalar A) (fltb fleb : A -> A -> bool)
    (lib : string -> list dval -> heap -> option (list dval * heap)) (fuel depth : nat) 
    (dims : dval) (c : option (Z * dval)) (h : heap),
  if CompTensorP.devOk c
  then
   CompTensorP.isCall
     (drun cfapp heap (cext2 fltb fleb lib) GoComp.c_tensor_Ones fuel depth [
        dims; CompTensorP.cfgOf c] h) (lib "cputensor.Ones" [dims; CompTensorP.gradOfCfg c] h)
  else
   CompTensorP.outcome
     (drun cfapp heap (cext2 fltb fleb lib) GoComp.c_tensor_Ones fuel depth [
        dims; CompTensorP.cfgOf c] h) = Some ([DNil; DI 1], h).
Proof. exact @CompTensorP.Ones_spec. Qed.
Print Assumptions tensor_Ones.

Theorem tensor_Eye :
  forall (A : Type) (SA : Scalar A) (fltb fleb : A -> A -> bool)
    (lib : string -> list dval -> heap -> option (list dval * heap)) (fuel depth : nat) 
    (n : dval) (c : option (Z * dval)) (h : heap),
  if CompTensorP.devOk c
  then
   CompTensorP.isCall
     (drun cfapp heap (cext2 fltb fleb lib) GoComp.c_tensor_Eye fuel depth [n; CompTensorP.cfgOf c] h)
     (lib "cputensor.Eye" [n; CompTensorP.gradOfCfg c] h)
  else
   CompTensorP.outcome
     (drun cfapp heap (cext2 fltb fleb lib) GoComp.c_tensor_Eye fuel depth [n; CompTensorP.cfgOf c] h) =
   Some ([DNil; DI 1], h).
Proof. exact @CompTensorP.Eye_spec. Qed.
Print Assumptions tensor_Eye.

Theorem tensor_RandU :
  forall (A : Type) (SA : Scalar A) (fltb fleb : A -> A -> bool)
    (lib : string -> list dval -> heap -> option (list dval * heap)) (fuel depth : nat)
    (dims l u : dval) (c : option (Z * dval)) (h : heap),
  if CompTensorP.devOk c
  then
   CompTensorP.isCall
     (drun cfapp heap (cext2 fltb fleb lib) GoComp.c_tensor_RandU fuel depth
        [dims; l; u; CompTensorP.cfgOf c] h)
     (lib "cputensor.RandU" [dims; l; u; CompTensorP.gradOfCfg c] h)
  else
   CompTensorP.outcome
     (drun cfapp heap (cext2 fltb fleb lib) GoComp.c_tensor_RandU fuel depth
        [dims; l; u; CompTensorP.cfgOf c] h) = Some ([DNil; DI 1], h).
Proof. exact @CompTensorP.RandU_spec. Qed.
Print Assumptions tensor_RandU.

Theorem tensor_RandN :
  forall (A : Type) (SA : Scalar A) (fltb fleb : A -> A -> bool)
    (lib : string -> list dval -> heap -> option (list dval * heap)) (fuel depth : nat)
    (dims u s : dval) (c : option (Z * dval)) (h : heap),
  if CompTensorP.devOk c
  then
   CompTensorP.isCall
     (drun cfapp heap (cext2 fltb fleb lib) GoComp.c_tensor_RandN fuel depth
        [dims; u; s; CompTensorP.cfgOf c] h)
     (lib "cputensor.RandN" [dims; u; s; CompTensorP.gradOfCfg c] h)
  else
   CompTensorP.outcome
     (drun cfapp heap (cext2 fltb fleb lib) GoComp.c_tensor_RandN fuel depth
        [dims; u; s; CompTensorP.cfgOf c] h) = Some ([DNil; DI 1], h).
Proof. exact @CompTensorP.RandN_spec. Qed.
Print Assumptions tensor_RandN.

Theorem tensor_TensorOf :
  forall (A : Type) (SA : Scalar A) (fltb fleb : A -> A -> bool)
    (lib : string -> list dval -> heap -> option (list dval * heap)) (fuel depth : nat) 
    (data : dval) (c : option (Z * dval)) (h : heap),
  if CompTensorP.devOk c
  then
   CompTensorP.isCall
     (drun cfapp heap (cext2 fltb fleb lib) GoComp.c_tensor_TensorOf fuel depth
        [data; CompTensorP.cfgOf c] h) (lib "cputensor.TensorOf" [data; CompTensorP.gradOfCfg c] h)
  else
   CompTensorP.outcome
     (drun cfapp heap (cext2 fltb fleb lib) GoComp.c_tensor_TensorOf fuel depth
        [data; CompTensorP.cfgOf c] h) = Some ([DNil; DI 1], h).
Proof. exact @CompTensorP.TensorOf_spec. Qed.
Print Assumptions tensor_TensorOf.

Theorem tensor_Full_never_reaches_its_panic :
  forall (A : Type) (SA : Scalar A) (fltb fleb : A -> A -> bool)
    (lib : string -> list dval -> heap -> option (list dval * heap)) (fuel depth : nat)
    (dims value : dval) (c : option (Z * dval)) (h : heap),
  drun cfapp heap (cext2 fltb fleb lib) GoComp.c_tensor_Full fuel depth
    [dims; value; CompTensorP.cfgOf c] h = DPanic heap ->
  CompTensorP.libFails 2 (lib "cputensor.Full" [dims; value; CompTensorP.gradOfCfg c] h).
Proof. exact @CompTensorP.Full_never_reaches_its_panic. Qed.
Print Assumptions tensor_Full_never_reaches_its_panic.

Theorem tensor_Zeros_never_reaches_its_panic :
  forall (A : Type) (SA : Scalar A) (fltb fleb : A -> A -> bool)
    (lib : string -> list dval -> heap -> option (list dval * heap)) (fuel depth : nat) 
    (dims : dval) (c : option (Z * dval)) (h : heap),
  drun cfapp heap (cext2 fltb fleb lib) GoComp.c_tensor_Zeros fuel depth [dims; CompTensorP.cfgOf c] h =
  DPanic heap -> CompTensorP.libFails 2 (lib "cputensor.Zeros" [dims; CompTensorP.gradOfCfg c] h).
Proof. exact @CompTensorP.Zeros_never_reaches_its_panic. Qed.
Print Assumptions tensor_Zeros_never_reaches_its_panic.

Theorem tensor_Ones_never_reaches_its_panic :
  forall (A : Type) (SA : Scalar A) (fltb fleb : A -> A -> bool)
    (lib : string -> list dval -> heap -> option (list dval * heap)) (fuel depth : nat) 
    (dims : dval) (c : option (Z * dval)) (h : heap),
  drun cfapp heap (cext2 fltb fleb lib) GoComp.c_tensor_Ones fuel depth [dims; CompTensorP.cfgOf c] h =
  DPanic heap -> CompTensorP.libFails 2 (lib "cputensor.Ones" [dims; CompTensorP.gradOfCfg c] h).
Proof. exact @CompTensorP.Ones_never_reaches_its_panic. Qed.
Print Assumptions tensor_Ones_never_reaches_its_panic.

Theorem tensor_Eye_never_reaches_its_panic :
  forall (A : Type) (SA : Scalar A) (fltb fleb : A -> A -> bool)
    (lib : string -> list dval -> heap -> option (list dval * heap)) (fuel depth : nat) 
    (n : dval) (c : option (Z * dval)) (h : heap),
  drun cfapp heap (cext2 fltb fleb lib) GoComp.c_tensor_Eye fuel depth [n; CompTensorP.cfgOf c] h =
  DPanic heap -> CompTensorP.libFails 2 (lib "cputensor.Eye" [n; CompTensorP.gradOfCfg c] h).
Proof. exact @CompTensorP.Eye_never_reaches_its_panic. Qed.
Print Assumptions tensor_Eye_never_reaches_its_panic.

Theorem tensor_RandU_never_reaches_its_panic :
  forall (A : Type) (SA : Scalar A) (fltb fleb : A -> A -> bool)
    (lib : string -> list dval -> heap -> option (list dval * heap)) (fuel depth : nat)
    (dims l u : dval) (c : option (Z * dval)) (h : heap),
  drun cfapp heap (cext2 fltb fleb lib) GoComp.c_tensor_RandU fuel depth
    [dims; l; u; CompTensorP.cfgOf c] h = DPanic heap ->
  CompTensorP.libFails 2 (lib "cputensor.RandU" [dims; l; u; CompTensorP.gradOfCfg c] h).
Proof. exact @CompTensorP.RandU_never_reaches_its_panic. Qed.
Print Assumptions tensor_RandU_never_reaches_its_panic.

Theorem tensor_RandN_never_reaches_its_panic :
  forall (A : Type) (SA : Scalar A) (fltb fleb : A -> A -> bool)
    (lib : string -> list dval -> heap -> option (list dval * heap)) (fuel depth : nat)
    (dims u s : dval) (c : option (Z * dval)) (h : heap),
  drun cfapp heap (cext2 fltb fleb lib) GoComp.c_tensor_RandN fuel depth
    [dims; u; s; CompTensorP.cfgOf c] h = DPanic heap ->
  CompTensorP.libFails 2 (lib "cputensor.RandN" [dims; u; s; CompTensorP.gradOfCfg c] h).
Proof. exact @CompTensorP.RandN_never_reaches_its_panic. Qed.
Print Assumptions tensor_RandN_never_reaches_its_panic.

Theorem tensor_TensorOf_never_reaches_its_panic :
  forall (A : Type) (SA : Scalar A) (fltb fleb : A -> A -> bool)
    (lib : string -> list dval -> heap -> option (list dval * heap)) (fuel depth : nat) 
    (data : dval) (c : option (Z * dval)) (h : heap),
  drun cfapp heap (cext2 fltb fleb lib) GoComp.c_tensor_TensorOf fuel depth [
    data; CompTensorP.cfgOf c] h = DPanic heap ->
  CompTensorP.libFails 2 (lib "cputensor.TensorOf" [data; CompTensorP.gradOfCfg c] h).
Proof. exact @CompTensorP.TensorOf_never_reaches_its_panic. Qed.
Print Assumptions tensor_TensorOf_never_reaches_its_panic.

Theorem tensor_Concat :
  forall (A : Type) (SA : Scalar A) (fltb fleb : A -> A -> bool)
    (lib : string -> list dval -> heap -> option (list dval * heap)) (fuel depth : nat) 
    (vs : list dval) (dim : dval) (h : heap),
  if CompTensorP.unityOk vs
  then
   CompTensorP.isCall
     (drun cfapp heap (cext2 fltb fleb lib) GoComp.c_tensor_Concat fuel depth [DL vs; dim] h)
     (lib "cputensor.Concat" [DL vs; dim] h)
  else
   CompTensorP.outcome
     (drun cfapp heap (cext2 fltb fleb lib) GoComp.c_tensor_Concat fuel depth [DL vs; dim] h) =
   Some ([DNil; DI 1], h).
Proof. exact @CompTensorP.Concat_spec. Qed.
Print Assumptions tensor_Concat.

Theorem tensor_Concat_never_reaches_its_panic :
  forall (A : Type) (SA : Scalar A) (fltb fleb : A -> A -> bool)
    (lib : string -> list dval -> heap -> option (list dval * heap)) (fuel depth : nat) 
    (vs : list dval) (dim : dval) (h : heap),
  drun cfapp heap (cext2 fltb fleb lib) GoComp.c_tensor_Concat fuel depth [DL vs; dim] h = DPanic heap ->
  CompTensorP.libFails 2 (lib "cputensor.Concat" [DL vs; dim] h).
Proof. exact @CompTensorP.Concat_never_reaches_its_panic. Qed.
Print Assumptions tensor_Concat_never_reaches_its_panic.

Theorem tensor_BackPropagate :
  forall (A : Type) (SA : Scalar A) (fltb fleb : A -> A -> bool)
    (lib : string -> list dval -> heap -> option (list dval * heap)) (fuel depth : nat) 
    (v : dval) (h : heap),
  if CompTensorP.isNode v
  then
   CompTensorP.isCall1
     (drun cfapp heap (cext fltb fleb lib) GoComp.c_tensor_BackPropagate fuel depth [v] h)
     (lib "gradtrack.BackPropagate" [v] h)
  else
   CompTensorP.outcome
     (drun cfapp heap (cext fltb fleb lib) GoComp.c_tensor_BackPropagate fuel depth [v] h) =
   Some ([DI 1], h).
Proof. exact @CompTensorP.BackPropagate_spec. Qed.
Print Assumptions tensor_BackPropagate.

Theorem NewFC_rejects_nil :
  forall (A : Type) (SA : Scalar A) (fltb fleb : A -> A -> bool)
    (lib : string -> list dval -> heap -> option (list dval * heap)) (fuel depth : nat) 
    (h : heap),
  CompFcP.outcome (drun cfapp heap (cext3 fltb fleb lib) GoComp.c_FC_NewFC fuel depth [DNil] h) =
  Some ([DNil; DI 1], h).
Proof. exact @CompFcP.NewFC_nil. Qed.
Print Assumptions NewFC_rejects_nil.

Theorem NewFC_rejects_what_the_config_validator_rejects :
  forall (A : Type) (SA : Scalar A) (fltb fleb : A -> A -> bool)
    (lib : string -> list dval -> heap -> option (list dval * heap)) (fuel depth : nat)
    (inputs outputs : Z) (mp : option (option dval * option dval)) (h : heap),
  CompFcP.fcReject inputs outputs mp = true ->
  CompFcP.outcome
    (drun cfapp heap (cext3 fltb fleb lib) GoComp.c_FC_NewFC fuel depth
       [CompFcP.fcConf inputs outputs (CompFcP.fcMap mp)] h) = Some ([DNil; DI 1], h).
Proof. exact @CompFcP.NewFC_reject. Qed.
Print Assumptions NewFC_rejects_what_the_config_validator_rejects.

Theorem toValidFCConfig_exact :
  forall (A : Type) (SA : Scalar A) (fltb fleb : A -> A -> bool)
    (lib : string -> list dval -> heap -> option (list dval * heap)) (fuel depth : nat)
    (inputs outputs : Z) (mp : option (option dval * option dval)) (h : heap),
  CompFcP.outcome
    (drun cfapp heap (cext2 fltb fleb lib) GoComp.c_FC_toValidFCConfig fuel depth
       [CompFcP.fcConf inputs outputs (CompFcP.fcMap mp)] h) =
  Some
    ([fst (CompFcP.fcValidated inputs outputs mp); DI (snd (CompFcP.fcValidated inputs outputs mp))], h).
Proof. exact @CompFcP.toValidFCConfig_spec. Qed.
Print Assumptions toValidFCConfig_exact.
