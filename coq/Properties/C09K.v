(* C09K — source tie BY TRANSLATION for the component layer — every validator and constructor of the component layer returns (error or value) for every argument, nil tensors, nil configs and nil pointers included: none panics.
   Statements only (proofs: Proofs/Comp*P.v).  Model/GoComp.v is REGENERATED from /repo's Go sources on every run by
   harness/gox (comp.go): the component layer's own logic — input validators, config validators, constructors, the
   scale formulas of the initializers, the Accuracy counters — as loop-free programs of the imperative language of
   Model/DataIR.v.  A tensor.Tensor interface value is nil or a node id of the model's heap; a config pointer is nil or
   the list of its fields; an error is 0 / 1; methods of tensors, float comparisons (parameters fltb / fleb: an
   abstract scalar has no order), int->float conversion and the library functions (tensor.RandU, the forward bodies
   that Properties/*S.v cover) are calls of the oracle Model/CompExt.v, in which SIBLING functions are linked by
   running their own translated programs.  Each theorem says that RUNNING the translated program returns exactly what
   the hand-written model (Model/Components.v) computes, for ALL heaps, arguments, fuel and depth; a returned outcome
   is never a panic.  An edit of one of these Go functions changes GoComp.v and breaks the theorem unless it computes
   the same thing.  Closed under the global context. *)
From Coq Require Import String List ZArith Bool Arith.
From Qeep Require Import Model.Scalar Model.Nd Model.Fill Model.Data Model.Valid Model.Api Model.Grad Model.Backprop Model.Components Model.Consts Model.DataIR Model.HeapExt Model.CompExt.
From Qeep Require Model.GoComp.
From Qeep Require Import Proofs.DataIRP.
From Qeep Require Proofs.CompValidP Proofs.CompAccP Proofs.CompInitP.
Import ListNotations.
Local Open Scope string_scope.

Theorem MSE_validateInputs_never_panics :
  forall (A : Type) (SA : Scalar A) (fltb fleb : A -> A -> bool)
    (lib : string -> list dval -> heap -> option (list dval * heap)) (fuel depth : nat) 
    (h : heap) (yp yt : targ),
  CompValidP.targOk h yp ->
  CompValidP.targOk h yt ->
  CompValidP.safe
    (drun cfapp heap (cext0 fltb fleb lib) GoComp.c_MSE_validateInputs fuel depth [dtarg yp; dtarg yt] h).
Proof. exact @CompValidP.MSE_validateInputs_never_panics. Qed.
Print Assumptions MSE_validateInputs_never_panics.

Theorem BCE_validateInputs_never_panics :
  forall (A : Type) (SA : Scalar A) (fltb fleb : A -> A -> bool)
    (lib : string -> list dval -> heap -> option (list dval * heap)) (fuel depth : nat) 
    (h : heap) (yp yt : targ),
  CompValidP.targOk h yp ->
  CompValidP.targOk h yt ->
  CompValidP.safe
    (drun cfapp heap (cext0 fltb fleb lib) GoComp.c_BCE_validateInputs fuel depth [dtarg yp; dtarg yt] h).
Proof. exact @CompValidP.BCE_validateInputs_never_panics. Qed.
Print Assumptions BCE_validateInputs_never_panics.

Theorem CE_validateInputs_never_panics :
  forall (A : Type) (SA : Scalar A) (fltb fleb : A -> A -> bool)
    (lib : string -> list dval -> heap -> option (list dval * heap)) (fuel depth : nat) 
    (h : heap) (yp yt : targ),
  CompValidP.targOk h yp ->
  CompValidP.targOk h yt ->
  CompValidP.safe
    (drun cfapp heap (cext0 fltb fleb lib) GoComp.c_CE_validateInputs fuel depth [dtarg yp; dtarg yt] h).
Proof. exact @CompValidP.CE_validateInputs_never_panics. Qed.
Print Assumptions CE_validateInputs_never_panics.

Theorem Accuracy_validateInputs_never_panics :
  forall (A : Type) (SA : Scalar A) (fltb fleb : A -> A -> bool)
    (lib : string -> list dval -> heap -> option (list dval * heap)) (fuel depth : nat) 
    (h : heap) (ct cc : dval) (yp yt : targ),
  CompValidP.targOk h yp ->
  CompValidP.targOk h yt ->
  CompValidP.safe
    (drun cfapp heap (cext0 fltb fleb lib) GoComp.c_Accuracy_validateInputs fuel depth
       [ct; cc; dtarg yp; dtarg yt] h).
Proof. exact @CompValidP.Accuracy_validateInputs_never_panics. Qed.
Print Assumptions Accuracy_validateInputs_never_panics.

Theorem Relu_toValidInputs_never_panics :
  forall (A : Type) (SA : Scalar A) (fltb fleb : A -> A -> bool)
    (lib : string -> list dval -> heap -> option (list dval * heap)) (fuel depth : nat) 
    (h : heap) (xs : list targ),
  CompValidP.safe
    (drun cfapp heap (cext0 fltb fleb lib) GoComp.c_Relu_toValidInputs fuel depth [DL (map dtarg xs)] h).
Proof. exact @CompValidP.Relu_toValidInputs_never_panics. Qed.
Print Assumptions Relu_toValidInputs_never_panics.

Theorem Sigmoid_toValidInputs_never_panics :
  forall (A : Type) (SA : Scalar A) (fltb fleb : A -> A -> bool)
    (lib : string -> list dval -> heap -> option (list dval * heap)) (fuel depth : nat) 
    (h : heap) (xs : list targ),
  CompValidP.safe
    (drun cfapp heap (cext0 fltb fleb lib) GoComp.c_Sigmoid_toValidInputs fuel depth [
       DL (map dtarg xs)] h).
Proof. exact @CompValidP.Sigmoid_toValidInputs_never_panics. Qed.
Print Assumptions Sigmoid_toValidInputs_never_panics.

Theorem Tanh_toValidInputs_never_panics :
  forall (A : Type) (SA : Scalar A) (fltb fleb : A -> A -> bool)
    (lib : string -> list dval -> heap -> option (list dval * heap)) (fuel depth : nat) 
    (h : heap) (xs : list targ),
  CompValidP.safe
    (drun cfapp heap (cext0 fltb fleb lib) GoComp.c_Tanh_toValidInputs fuel depth [DL (map dtarg xs)] h).
Proof. exact @CompValidP.Tanh_toValidInputs_never_panics. Qed.
Print Assumptions Tanh_toValidInputs_never_panics.

Theorem LeakyRelu_toValidInputs_never_panics :
  forall (A : Type) (SA : Scalar A) (fltb fleb : A -> A -> bool)
    (lib : string -> list dval -> heap -> option (list dval * heap)) (fuel depth : nat) 
    (h : heap) (m : dval) (xs : list targ),
  CompValidP.safe
    (drun cfapp heap (cext0 fltb fleb lib) GoComp.c_LeakyRelu_toValidInputs fuel depth
       [m; DL (map dtarg xs)] h).
Proof. exact @CompValidP.LeakyRelu_toValidInputs_never_panics. Qed.
Print Assumptions LeakyRelu_toValidInputs_never_panics.

Theorem Softmax_toValidInputs_never_panics :
  forall (A : Type) (SA : Scalar A) (fltb fleb : A -> A -> bool)
    (lib : string -> list dval -> heap -> option (list dval * heap)) (fuel depth : nat) 
    (h : heap) (dim : Z) (xs : list targ),
  CompValidP.targsOk h xs ->
  CompValidP.safe
    (drun cfapp heap (cext0 fltb fleb lib) GoComp.c_Softmax_toValidInputs fuel depth
       [DI dim; DL (map dtarg xs)] h).
Proof. exact @CompValidP.Softmax_toValidInputs_never_panics. Qed.
Print Assumptions Softmax_toValidInputs_never_panics.

Theorem FC_toValidInputs_never_panics :
  forall (A : Type) (SA : Scalar A) (fltb fleb : A -> A -> bool)
    (lib : string -> list dval -> heap -> option (list dval * heap)) (fuel depth : nat) 
    (h : heap) (w b : dval) (xs : list targ),
  CompValidP.targsOk h xs ->
  CompValidP.safe
    (drun cfapp heap (cext0 fltb fleb lib) GoComp.c_FC_toValidInputs fuel depth
       [w; b; DL (map dtarg xs)] h).
Proof. exact @CompValidP.FC_toValidInputs_never_panics. Qed.
Print Assumptions FC_toValidInputs_never_panics.

Theorem SGD_toValidInputs_never_panics :
  forall (A : Type) (SA : Scalar A) (fltb fleb : A -> A -> bool)
    (lib : string -> list dval -> heap -> option (list dval * heap)) (fuel depth : nat) 
    (h : heap) (lr : dval) (c : option targ),
  CompValidP.cellOk h c ->
  CompValidP.safe
    (drun cfapp heap (cext0 fltb fleb lib) GoComp.c_SGD_toValidInputs fuel depth
       [lr; CompValidP.dcell c] h).
Proof. exact @CompValidP.SGD_toValidInputs_never_panics. Qed.
Print Assumptions SGD_toValidInputs_never_panics.

Theorem FC_validateInitializedWeights_never_panics :
  forall (A : Type) (SA : Scalar A) (fltb fleb : A -> A -> bool)
    (lib : string -> list dval -> heap -> option (list dval * heap)) (fuel depth : nat) 
    (h : heap) (w b : targ) (inputs outputs : Z) (rest : dval),
  CompValidP.targOk h w ->
  CompValidP.targOk h b ->
  CompValidP.safe
    (drun cfapp heap (cext0 fltb fleb lib) GoComp.c_FC_validateInitializedWeights fuel depth
       [dtarg w; dtarg b; DL [DI inputs; DI outputs; rest]] h).
Proof. exact @CompValidP.FC_validateInitializedWeights_never_panics. Qed.
Print Assumptions FC_validateInitializedWeights_never_panics.

Theorem HeUniform_config_total :
  forall (A : Type) (SA : Scalar A) (fltb fleb : A -> A -> bool)
    (lib : string -> list dval -> heap -> option (list dval * heap)) (dl du ds : dec) 
    (fuel depth : nat) (c : option Z) (h : heap),
  CompInitP.outcome
    (drun cfapp heap (cext0 fltb fleb lib) GoComp.c_HeUniform_toValidHeUniformConfig fuel depth
       [CompInitP.cfgI1 c] h) =
  Some ([CompInitP.cfgI1 c; CompInitP.flag (init_valid dl du ds (IHeUniform c))], h).
Proof. exact @CompInitP.HeUniform_config. Qed.
Print Assumptions HeUniform_config_total.

Theorem HeNormal_config_total :
  forall (A : Type) (SA : Scalar A) (fltb fleb : A -> A -> bool)
    (lib : string -> list dval -> heap -> option (list dval * heap)) (dl du ds : dec) 
    (fuel depth : nat) (c : option Z) (h : heap),
  CompInitP.outcome
    (drun cfapp heap (cext0 fltb fleb lib) GoComp.c_HeNormal_toValidHeNormalConfig fuel depth
       [CompInitP.cfgI1 c] h) =
  Some ([CompInitP.cfgI1 c; CompInitP.flag (init_valid dl du ds (IHeNormal c))], h).
Proof. exact @CompInitP.HeNormal_config. Qed.
Print Assumptions HeNormal_config_total.

Theorem XavierUniform_config_total :
  forall (A : Type) (SA : Scalar A) (fltb fleb : A -> A -> bool)
    (lib : string -> list dval -> heap -> option (list dval * heap)) (dl du ds : dec) 
    (fuel depth : nat) (c : option (Z * Z)) (h : heap),
  CompInitP.outcome
    (drun cfapp heap (cext0 fltb fleb lib) GoComp.c_XavierUniform_toValidXavierUniformConfig fuel depth
       [CompInitP.cfgI2 c] h) =
  Some ([CompInitP.cfgI2 c; CompInitP.flag (init_valid dl du ds (IXavierUniform c))], h).
Proof. exact @CompInitP.XavierUniform_config. Qed.
Print Assumptions XavierUniform_config_total.

Theorem XavierNormal_config_total :
  forall (A : Type) (SA : Scalar A) (fltb fleb : A -> A -> bool)
    (lib : string -> list dval -> heap -> option (list dval * heap)) (dl du ds : dec) 
    (fuel depth : nat) (c : option (Z * Z)) (h : heap),
  CompInitP.outcome
    (drun cfapp heap (cext0 fltb fleb lib) GoComp.c_XavierNormal_toValidXavierNormalConfig fuel depth
       [CompInitP.cfgI2 c] h) =
  Some ([CompInitP.cfgI2 c; CompInitP.flag (init_valid dl du ds (IXavierNormal c))], h).
Proof. exact @CompInitP.XavierNormal_config. Qed.
Print Assumptions XavierNormal_config_total.

Theorem Uniform_config_total :
  forall (A : Type) (SA : Scalar A) (fltb fleb : A -> A -> bool)
    (lib : string -> list dval -> heap -> option (list dval * heap)) (fuel depth : nat)
    (c : option (A * A)) (h : heap),
  let
  '(l, u) := match c with
             | Some p => p
             | None => CompInitP.uniDefault
             end in
   CompInitP.outcome
     (drun cfapp heap (cext0 fltb fleb lib) GoComp.c_Uniform_toValidUniformConfig fuel depth
        [CompInitP.cfgF2 c] h) = Some ([DL [DF l; DF u]; CompInitP.flag (fltb l u)], h).
Proof. exact @CompInitP.Uniform_config. Qed.
Print Assumptions Uniform_config_total.

Theorem Normal_config_total :
  forall (A : Type) (SA : Scalar A) (fltb fleb : A -> A -> bool)
    (lib : string -> list dval -> heap -> option (list dval * heap)) (fuel depth : nat)
    (c : option (A * A)) (h : heap),
  let
  '(m, s) := match c with
             | Some p => p
             | None => CompInitP.norDefault
             end in
   CompInitP.outcome
     (drun cfapp heap (cext0 fltb fleb lib) GoComp.c_Normal_toValidNormalConfig fuel depth
        [CompInitP.cfgF2 c] h) = Some ([DL [DF m; DF s]; CompInitP.flag (fltb (sconst 0 0) s)], h).
Proof. exact @CompInitP.Normal_config. Qed.
Print Assumptions Normal_config_total.

Theorem Softmax_config_total :
  forall (A : Type) (SA : Scalar A) (fltb fleb : A -> A -> bool)
    (lib : string -> list dval -> heap -> option (list dval * heap)) (fuel depth : nat) 
    (c : option Z) (h : heap),
  let d := match c with
           | Some d => d
           | None => 0%Z
           end in
  CompInitP.outcome
    (drun cfapp heap (cext0 fltb fleb lib) GoComp.c_Softmax_toValidSoftmaxConfig fuel depth
       [CompInitP.cfgI1 c] h) = Some ([DL [DI d]; CompInitP.flag (0 <=? d)%Z], h).
Proof. exact @CompInitP.Softmax_config. Qed.
Print Assumptions Softmax_config_total.

Theorem Full_config_total :
  forall (A : Type) (SA : Scalar A) (fltb fleb : A -> A -> bool)
    (lib : string -> list dval -> heap -> option (list dval * heap)) (fuel depth : nat) 
    (c : option A) (h : heap),
  CompInitP.outcome
    (drun cfapp heap (cext0 fltb fleb lib) GoComp.c_Full_toValidFullConfig fuel depth
       [CompInitP.cfgF1 c] h) = Some ([DL [DF match c with
                                              | Some v => v
                                              | None => sconst 0 0
                                              end]], h).
Proof. exact @CompInitP.Full_config. Qed.
Print Assumptions Full_config_total.

Theorem SGD_config_total :
  forall (A : Type) (SA : Scalar A) (fltb fleb : A -> A -> bool)
    (lib : string -> list dval -> heap -> option (list dval * heap)) (fuel depth : nat) 
    (c : option A) (h : heap),
  CompInitP.outcome
    (drun cfapp heap (cext0 fltb fleb lib) GoComp.c_SGD_toValidSGDConfig fuel depth [
       CompInitP.cfgF1 c] h) =
  Some ([DL [DF match c with
                | Some v => v
                | None => sconst 1 (-2)
                end]], h).
Proof. exact @CompInitP.SGD_config. Qed.
Print Assumptions SGD_config_total.

Theorem LeakyRelu_config_total :
  forall (A : Type) (SA : Scalar A) (fltb fleb : A -> A -> bool)
    (lib : string -> list dval -> heap -> option (list dval * heap)) (fuel depth : nat) 
    (c : option A) (h : heap),
  CompInitP.outcome
    (drun cfapp heap (cext0 fltb fleb lib) GoComp.c_LeakyRelu_toValidLeakyReluConfig fuel depth
       [CompInitP.cfgF1 c] h) =
  Some ([DL [DF match c with
                | Some v => v
                | None => sconst 1 (-2)
                end]], h).
Proof. exact @CompInitP.LeakyRelu_config. Qed.
Print Assumptions LeakyRelu_config_total.

Theorem Accuracy_Result_total :
  forall (A : Type) (SA : Scalar A) (fltb fleb : A -> A -> bool)
    (lib : string -> list dval -> heap -> option (list dval * heap)) (fuel depth : nat) 
    (h : heap) (a : accuracy),
  exists g l : denv,
    drun cfapp heap (cext fltb fleb lib) GoComp.c_Accuracy_Result fuel depth
      [DI (Z.of_nat (acc_total a)); DF (acc_correct a)] h = DRet heap [DF (acc_result a); DI 0] h g l.
Proof. exact @CompAccP.Result_run. Qed.
Print Assumptions Accuracy_Result_total.
