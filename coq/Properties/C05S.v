(* C05S — source tie by translation for the reducers' scalar kernels.
   Statements only (proofs: Proofs/Chain*P.v).  Model/Chains.v is REGENERATED from /repo's Go sources
   on every run by the translator harness/chainx (go/ast): the fold functions, identities and formulas of sum/max/min/avg/_var/std/mean in tensor/internal/cputensor/reducers.go.
   Each theorem interprets the generated expression over an ARBITRARY scalar type (Model/ChainIR.v:
   evx / evr) and states that it IS the scalar function the model applies — operand order, constants,
   comparison operators and special values included.  The traversals that apply these kernels to every
   element (applyUnary/BinaryFuncOnTensor…, reduceByAssociativeFunc, the element generators) are not
   translated: they are tied by the correspondence check.  Closed under the global context. *)
From Coq Require Import String List ZArith Bool.
From Qeep Require Import Model.Scalar Model.Nd Model.Data Model.ChainIR.
From Qeep Require Model.Chains.
From Qeep Require Import Proofs.WiringP Proofs.ChainBaseP Proofs.ChainRedP.
Import ListNotations.
Local Open Scope string_scope.

Theorem sum_is_the_models_reducer :
  forall (A : Type) (SA : Scalar A) (t : tensor A),
  evr rfuel Chains.k_sum t [] [] (kf_body Chains.k_sum) = r_sum t.
Proof. exact @ChainRedP.k_sum_ok. Qed.
Print Assumptions sum_is_the_models_reducer.

Theorem max_is_the_models_reducer :
  forall (A : Type) (SA : Scalar A) (t : tensor A),
  evr rfuel Chains.k_max t [] [] (kf_body Chains.k_max) = r_max t.
Proof. exact @ChainRedP.k_max_ok. Qed.
Print Assumptions max_is_the_models_reducer.

Theorem min_is_the_models_reducer :
  forall (A : Type) (SA : Scalar A) (t : tensor A),
  evr rfuel Chains.k_min t [] [] (kf_body Chains.k_min) = r_min t.
Proof. exact @ChainRedP.k_min_ok. Qed.
Print Assumptions min_is_the_models_reducer.

Theorem avg_is_the_models_reducer :
  forall (A : Type) (SA : Scalar A) (t : tensor A),
  evr rfuel Chains.k_avg t [] [] (kf_body Chains.k_avg) = r_avg t.
Proof. exact @ChainRedP.k_avg_ok. Qed.
Print Assumptions avg_is_the_models_reducer.

Theorem mean_is_the_models_reducer :
  forall (A : Type) (SA : Scalar A) (t : tensor A),
  evr rfuel Chains.k_mean t [] [] (kf_body Chains.k_mean) = r_mean t.
Proof. exact @ChainRedP.k_mean_ok. Qed.
Print Assumptions mean_is_the_models_reducer.

Theorem var_is_the_models_reducer :
  forall (A : Type) (SA : Scalar A) (t : tensor A),
  evr rfuel Chains.k_var t [] [] (kf_body Chains.k_var) = r_var t.
Proof. exact @ChainRedP.k_var_ok. Qed.
Print Assumptions var_is_the_models_reducer.

Theorem std_is_the_models_reducer :
  forall (A : Type) (SA : Scalar A) (t : tensor A),
  evr rfuel Chains.k_std t [] [] (kf_body Chains.k_std) = r_std t.
Proof. exact @ChainRedP.k_std_ok. Qed.
Print Assumptions std_is_the_models_reducer.

Theorem fold_literals_are_interpretable :
  forall (A : Type) (SA : Scalar A),
  kfn2_total Chains.k_sum "sum#0" [] /\
  kfn2_total Chains.k_max "max#0" [] /\
  kfn2_total Chains.k_min "min#0" [] /\
  (forall xbar : A, kfn2_total Chains.k_var "_var#0" [("xBar", xbar)]).
Proof. exact @ChainRedP.k_folds_total. Qed.
Print Assumptions fold_literals_are_interpretable.

Theorem method_layer_of_reducers_is_as_modelled :
  same_wiring reducer_methods.
Proof. exact @WiringP.wiring_reducers. Qed.
Print Assumptions method_layer_of_reducers_is_as_modelled.
