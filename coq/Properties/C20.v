(* C20 — Concurrent computations on shared tensors are race-free and deterministic.
   Statements only (proofs: Proofs/ConcP.v, HistoryP.v; model: Model/Conc.v).  PARTIAL by nature:
   what a model of qeep can carry is the LOGIC of the claim — which tensors a computation may
   write.  A goroutine's program runs from a state whose heap prefix (n0 nodes) and environment
   prefix (e0 objects) are shared; everything it allocates is private.  [safe] is the property's
   proviso as a decidable predicate (no BackPropagate whose visited set meets the shared prefix,
   no ResetGradContext / parameter replacement / optimizer update / metric accumulation on a
   shared object).  Theorems: every safe command leaves every shared node (all six fields) and
   every shared object EXACTLY unchanged; hence for a system of goroutines whose programs are
   safe the shared prefix is immutable in every reachable state of every goroutine — no goroutine
   writes what another may read — and each goroutine's observables are a function of the shared
   prefix and its own program (equal to its sequential run); forward observables do not even
   depend on the tracking/gradient fields of what they read.  [ex_proviso_needed] shows the
   proviso is necessary.  What stays OUTSIDE the model: that the compiled Go code performs no
   other memory accesses than the model's reads/writes (hidden caches, lazily initialised
   fields, shared scratch buffers), the Go memory model and the synchronisation of the global
   random source — these are exercised, not proved, by running the same programs in goroutines
   on really shared tensors under the Go race detector on every check, comparing every
   goroutine's results bit-for-bit with a sequential run and with the model. *)
From Coq Require Import List ZArith Bool.
From Qeep Require Import Model.Scalar Model.Nd Model.Data Model.Api Model.Grad Model.Backprop Model.Components Model.Scenario Model.Conc.
From Qeep Require Import Proofs.TrackP Proofs.StepP Proofs.ConcP Proofs.HistoryP.
Import ListNotations.

Theorem proviso_reading :
  forall (A : Type) (n0 e0 : nat) (s : @state A) (c : @cmd A),
  @safe A n0 e0 s c <->
  match c with
  | CBackprop (Some t) =>
      forall x : nat,
      @lookupT A s t = @Some nat x ->
      @Forall nat (fun i : nat => n0 <= i) (@topoOrder A (@st_heap A s) x)
  | CReset t _ => forall x : nat, @lookupT A s t = @Some nat x -> n0 <= x
  | CFCSet fc _ _ => e0 <= fc
  | CSGDUpdate _ cell => forall k : nat, cellTarget cell = @Some nat k -> e0 <= k
  | CAccumulate acc _ _ => e0 <= acc
  | _ => True
  end.
Proof. exact @safe_spec. Qed.
Print Assumptions proviso_reading.

Theorem safe_command_leaves_shared_prefix_unchanged :
  forall (A : Type) (SA : Scalar A) (rd : bred) (sealv : nat -> tensor A -> tensor A)
    (sealg : nat -> option nat -> tensor A -> tensor A) (c_eps c_one_m_eps : A)
    (c_leaky c_sgd_lr dFull dUniL dUniU dNorM dNorS : dec) (c_softmax_dim : Z) 
    (n0 e0 : nat) (s : state) (c : cmd),
  wf_heap (st_heap s) ->
  safe n0 e0 s c ->
  let s' :=
    fst
      (step rd sealv sealg c_eps c_one_m_eps c_leaky c_sgd_lr dFull dUniL dUniU dNorM dNorS
         c_softmax_dim s c) in
  (forall (i : nat) (n : node),
   i < n0 -> nth_error (st_heap s) i = Some n -> nth_error (st_heap s') i = Some n) /\
  (forall (j : nat) (o : obj),
   j < e0 -> nth_error (st_env s) j = Some o -> nth_error (st_env s') j = Some o).
Proof. exact @shared_heap_frame. Qed.
Print Assumptions safe_command_leaves_shared_prefix_unchanged.

Theorem safe_program_leaves_shared_prefix_unchanged :
  forall (A : Type) (SA : Scalar A) (rd : bred) (sealv : nat -> tensor A -> tensor A)
    (sealg : nat -> option nat -> tensor A -> tensor A) (c_eps c_one_m_eps : A)
    (c_leaky c_sgd_lr dFull dUniL dUniU dNorM dNorS : dec) (c_softmax_dim : Z) 
    (n0 e0 : nat) (s : state) (cs : list cmd),
  hinv (st_heap s) ->
  run_safe rd sealv sealg c_eps c_one_m_eps c_leaky c_sgd_lr dFull dUniL dUniU dNorM dNorS c_softmax_dim
    n0 e0 s cs ->
  (forall (i : nat) (n : node),
   i < n0 ->
   nth_error (st_heap s) i = Some n ->
   nth_error
     (st_heap
        (g_exec rd sealv sealg c_eps c_one_m_eps c_leaky c_sgd_lr dFull dUniL dUniU dNorM dNorS
           c_softmax_dim s cs)) i = Some n) /\
  (forall (j : nat) (o : obj),
   j < e0 ->
   nth_error (st_env s) j = Some o ->
   nth_error
     (st_env
        (g_exec rd sealv sealg c_eps c_one_m_eps c_leaky c_sgd_lr dFull dUniL dUniU dNorM dNorS
           c_softmax_dim s cs)) j = Some o).
Proof. exact @run_safe_shared. Qed.
Print Assumptions safe_program_leaves_shared_prefix_unchanged.

Theorem shared_prefix_immutable_in_every_goroutine :
  forall (A : Type) (SA : Scalar A) (rd : bred) (sealv : nat -> tensor A -> tensor A)
    (sealg : nat -> option nat -> tensor A -> tensor A) (c_eps c_one_m_eps : A)
    (c_leaky c_sgd_lr dFull dUniL dUniU dNorM dNorS : dec) (c_softmax_dim : Z) 
    (y : system),
  hinv (st_heap (sys_start y)) ->
  sys_safe rd sealv sealg c_eps c_one_m_eps c_leaky c_sgd_lr dFull dUniL dUniU dNorM dNorS c_softmax_dim
    y ->
  forall j k : nat,
  shared_heap (sys_n0 y)
    (g_exec rd sealv sealg c_eps c_one_m_eps c_leaky c_sgd_lr dFull dUniL dUniU dNorM dNorS
       c_softmax_dim (sys_start y) (firstn k (nth j (sys_progs y) []))) = st_heap (sys_start y) /\
  shared_env (sys_e0 y)
    (g_exec rd sealv sealg c_eps c_one_m_eps c_leaky c_sgd_lr dFull dUniL dUniU dNorM dNorS
       c_softmax_dim (sys_start y) (firstn k (nth j (sys_progs y) []))) = st_env (sys_start y).
Proof. exact @system_shared_immutable. Qed.
Print Assumptions shared_prefix_immutable_in_every_goroutine.

Theorem goroutine_result_is_its_sequential_run :
  forall (A : Type) (SA : Scalar A) (rd : bred) (sealv : nat -> tensor A -> tensor A)
    (sealg : nat -> option nat -> tensor A -> tensor A) (c_eps c_one_m_eps : A)
    (c_leaky c_sgd_lr dFull dUniL dUniU dNorM dNorS : dec) (c_softmax_dim : Z) 
    (s1 s2 : state) (prog : list cmd),
  st_heap s1 = st_heap s2 ->
  st_env s1 = st_env s2 ->
  st_rng s1 = st_rng s2 ->
  run_from rd sealv sealg c_eps c_one_m_eps c_leaky c_sgd_lr dFull dUniL dUniU dNorM dNorS c_softmax_dim
    s1 prog =
  run_from rd sealv sealg c_eps c_one_m_eps c_leaky c_sgd_lr dFull dUniL dUniU dNorM dNorS c_softmax_dim
    s2 prog.
Proof. exact @private_determinism. Qed.
Print Assumptions goroutine_result_is_its_sequential_run.

Theorem goroutine_results_independent_of_other_programs :
  forall (A : Type) (SA : Scalar A) (rd : bred) (sealv : nat -> tensor A -> tensor A)
    (sealg : nat -> option nat -> tensor A -> tensor A) (c_eps c_one_m_eps : A)
    (c_leaky c_sgd_lr dFull dUniL dUniU dNorM dNorS : dec) (c_softmax_dim : Z) 
    (y y' : system) (j : nat),
  sys_start y = sys_start y' ->
  nth j (sys_progs y) [] = nth j (sys_progs y') [] ->
  sys_obs rd sealv sealg c_eps c_one_m_eps c_leaky c_sgd_lr dFull dUniL dUniU dNorM dNorS c_softmax_dim
    y j =
  sys_obs rd sealv sealg c_eps c_one_m_eps c_leaky c_sgd_lr dFull dUniL dUniU dNorM dNorS c_softmax_dim
    y' j.
Proof. exact @system_obs_independent. Qed.
Print Assumptions goroutine_results_independent_of_other_programs.

Theorem forward_results_ignore_tracking_state :
  forall (A : Type) (SA : Scalar A) (rd : bred) (sealv : nat -> tensor A -> tensor A)
    (sealg : nat -> option nat -> tensor A -> tensor A) (c_eps c_one_m_eps : A)
    (c_leaky c_sgd_lr dFull dUniL dUniU dNorM dNorS : dec) (c_softmax_dim : Z) 
    (s1 s2 : state) (cs : list cmd),
  ssim s1 s2 ->
  forallb (fun c : cmd => negb (reads_grad c) && negb (is_bp c)) cs = true ->
  run_from rd sealv sealg c_eps c_one_m_eps c_leaky c_sgd_lr dFull dUniL dUniU dNorM dNorS c_softmax_dim
    s1 cs =
  run_from rd sealv sealg c_eps c_one_m_eps c_leaky c_sgd_lr dFull dUniL dUniU dNorM dNorS c_softmax_dim
    s2 cs.
Proof. exact @run_values_forward. Qed.
Print Assumptions forward_results_ignore_tracking_state.

Theorem forward_programs_read_only_values :
  forall (A : Type) (SA : Scalar A) (rd : bred) (sealv : nat -> tensor A -> tensor A)
    (sealg : nat -> option nat -> tensor A -> tensor A) (c_eps c_one_m_eps : A)
    (c_leaky c_sgd_lr dFull dUniL dUniU dNorM dNorS : dec) (c_softmax_dim : Z) 
    (s1 s2 : state) (prog : list cmd),
  map nval (st_heap s1) = map nval (st_heap s2) ->
  st_env s1 = st_env s2 ->
  st_rng s1 = st_rng s2 ->
  forallb forward_only prog = true ->
  run_from rd sealv sealg c_eps c_one_m_eps c_leaky c_sgd_lr dFull dUniL dUniU dNorM dNorS c_softmax_dim
    s1 prog =
  run_from rd sealv sealg c_eps c_one_m_eps c_leaky c_sgd_lr dFull dUniL dUniU dNorM dNorS c_softmax_dim
    s2 prog.
Proof. exact @reads_only_shared. Qed.
Print Assumptions forward_programs_read_only_values.
