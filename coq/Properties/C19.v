(* C19 — Accuracy equals matched over total across everything accumulated.
   Statements only (proofs: Proofs/AccP.v; real-number reading with the 0/1 indicator count,
   range [0,1] and partition invariance: Proofs/CompRP.v when present).  Arbitrary scalar type,
   ANY history of Accumulate calls including invalid ones (nil tensors, wrong rank, mismatched
   lengths).  matchedL pv tv = Σ Eq(p,t) over the batch;  call_len / call_matched / accepted
   describe one call;  acc_run folds Accumulate over a history. *)
From Coq Require Import List ZArith Bool.
From Qeep Require Import Model.Scalar Model.Nd Model.Data Model.Api Model.Grad Model.Components.
From Coq Require Import Reals.
From Qeep Require Import Proofs.NdP Proofs.ElemP Proofs.CompP Proofs.AccP Spec.RScalar Proofs.CmpRP Proofs.AccRP.
Import ListNotations.

Theorem accumulate_adds_batch_or_rejects_unchanged :
  forall (A : Type) (SA : Scalar A) (h : heap) (a : accuracy) (yp yt : targ),
  vals_wf h ->
  match lossArgs1 h yp yt with
  | Some (p, t) =>
      exists (pv tv : tensor A) (n : nat),
        yp = Some p /\
        yt = Some t /\
        valOf h p = Some pv /\
        valOf h t = Some tv /\
        dims pv = [n] /\
        dims tv = [n] /\
        length (flat (data pv)) = n /\
        length (flat (data tv)) = n /\
        acc_accumulate h a yp yt =
        ({|
           acc_total := acc_total a + n; acc_correct := sadd (acc_correct a) (strunc (matchedL pv tv))
         |}, Ok tt)
  | None => acc_accumulate h a yp yt = (a, Err)
  end.
Proof. exact @acc_accumulate_spec. Qed.
Print Assumptions accumulate_adds_batch_or_rejects_unchanged.

Theorem rejected_call_leaves_counts_unchanged :
  forall (A : Type) (SA : Scalar A) (h : heap) (a : accuracy) (yp yt : targ),
  snd (acc_accumulate h a yp yt) <> Ok tt -> fst (acc_accumulate h a yp yt) = a.
Proof. exact @acc_accumulate_unchanged. Qed.
Print Assumptions rejected_call_leaves_counts_unchanged.

Theorem accumulate_never_panics :
  forall (A : Type) (SA : Scalar A) (h : heap) (a : accuracy) (yp yt : targ),
  vals_wf h -> snd (acc_accumulate h a yp yt) <> Panic.
Proof. exact @acc_accumulate_never_panics. Qed.
Print Assumptions accumulate_never_panics.

Theorem history_counts :
  forall (A : Type) (SA : Scalar A) (h : heap) (calls : list (targ * targ)),
  vals_wf h ->
  forall a : accuracy,
  acc_run h calls a =
  {|
    acc_total := acc_total a + list_sum (map (call_len h) (filter (accepted h) calls));
    acc_correct := fold_left sadd (map (call_matched h) (filter (accepted h) calls)) (acc_correct a)
  |}.
Proof. exact @acc_history. Qed.
Print Assumptions history_counts.

Theorem result_after_any_history :
  forall (A : Type) (SA : Scalar A) (h : heap) (calls : list (targ * targ)),
  vals_wf h ->
  let acc := filter (accepted h) calls in
  let total := list_sum (map (call_len h) acc) in
  let matched := fold_left sadd (map (call_matched h) acc) (sconst 0 0) in
  acc_total (acc_run h calls acc_new) = total /\
  acc_correct (acc_run h calls acc_new) = matched /\
  acc_result (acc_run h calls acc_new) =
  (if total =? 0 then sconst 0 0 else sdiv matched (sofnat total)).
Proof. exact @acc_history_new. Qed.
Print Assumptions result_after_any_history.

Theorem rejected_calls_can_be_deleted :
  forall (A : Type) (SA : Scalar A) (h : heap) (calls : list (targ * targ)),
  vals_wf h -> forall a : accuracy, acc_run h calls a = acc_run h (filter (accepted h) calls) a.
Proof. exact @acc_run_filter. Qed.
Print Assumptions rejected_calls_can_be_deleted.

Theorem result_is_correct_over_total :
  forall (A : Type) (SA : Scalar A) (a : accuracy),
  acc_result a = (if acc_total a =? 0 then sconst 0 0 else sdiv (acc_correct a) (sofnat (acc_total a))).
Proof. exact @acc_result_eq. Qed.
Print Assumptions result_is_correct_over_total.

Theorem rejection_characterised :
  forall (A : Type) (SA : Scalar A) (h : heap) (a : accuracy) (yp yt : targ),
  (forall p t : nat, ~ ValidSpec.lossArgs1Pre h yp yt p t) -> acc_accumulate h a yp yt = (a, Err).
Proof. exact @acc_accumulate_rejected. Qed.
Print Assumptions rejection_characterised.

Theorem result_is_matched_over_total :
  forall (thr : R) (draw : bool -> nat -> R),
  0 <= thr ->
  forall (h : @heap R) (calls : list (targ * targ)),
  @vals_wf R h ->
  (forall c : targ * targ, @In (targ * targ) c calls -> @accepted R h c = true -> call_sep thr h c) ->
  let acc := @filter (targ * targ) (@accepted R h) calls in
  let total := list_sum (@map (targ * targ) nat (fun c : targ * targ => @length R (call_preds h c)) acc)
    in
  let matched :=
    list_sum
      (@map (targ * targ) nat (fun c : targ * targ => matches (call_preds h c) (call_targs h c)) acc) in
  @acc_total R (@acc_run R (RS thr draw) h calls (@acc_new R (RS thr draw))) = total /\
  @acc_correct R (@acc_run R (RS thr draw) h calls (@acc_new R (RS thr draw))) = INR matched /\
  @acc_result R (RS thr draw) (@acc_run R (RS thr draw) h calls (@acc_new R (RS thr draw))) =
  (if total =? 0 then 0 else INR matched / INR total) /\
  @acc_result R (RS thr draw) (@acc_run R (RS thr draw) h calls (@acc_new R (RS thr draw))) =
  acc_of (batches h calls).
Proof. exact @accuracy_result. Qed.
Print Assumptions result_is_matched_over_total.

Theorem result_in_unit_interval :
  forall (thr : R) (draw : bool -> nat -> R),
  0 <= thr ->
  forall (h : @heap R) (calls : list (targ * targ)),
  @vals_wf R h ->
  (forall c : targ * targ, @In (targ * targ) c calls -> @accepted R h c = true -> call_sep thr h c) ->
  0 <= @acc_result R (RS thr draw) (@acc_run R (RS thr draw) h calls (@acc_new R (RS thr draw))) <= 1.
Proof. exact @accuracy_result_range. Qed.
Print Assumptions result_in_unit_interval.

Theorem result_independent_of_batching :
  forall (thr : R) (draw : bool -> nat -> R),
  0 <= thr ->
  forall (h1 h2 : @heap R) (calls1 calls2 : list (targ * targ)),
  @vals_wf R h1 ->
  @vals_wf R h2 ->
  (forall c : targ * targ, @In (targ * targ) c calls1 -> @accepted R h1 c = true -> call_sep thr h1 c) ->
  (forall c : targ * targ, @In (targ * targ) c calls2 -> @accepted R h2 c = true -> call_sep thr h2 c) ->
  @concat R (@map (list R * list R) (list R) (@fst (list R) (list R)) (batches h1 calls1)) =
  @concat R (@map (list R * list R) (list R) (@fst (list R) (list R)) (batches h2 calls2)) ->
  @concat R (@map (list R * list R) (list R) (@snd (list R) (list R)) (batches h1 calls1)) =
  @concat R (@map (list R * list R) (list R) (@snd (list R) (list R)) (batches h2 calls2)) ->
  @acc_result R (RS thr draw) (@acc_run R (RS thr draw) h1 calls1 (@acc_new R (RS thr draw))) =
  @acc_result R (RS thr draw) (@acc_run R (RS thr draw) h2 calls2 (@acc_new R (RS thr draw))).
Proof. exact @accuracy_partition_invariant. Qed.
Print Assumptions result_independent_of_batching.

Theorem rejected_calls_do_not_count :
  forall (thr : R) (draw : bool -> nat -> R) (h : @heap R) (calls : list (targ * targ))
    (a : @accuracy R),
  @vals_wf R h ->
  @acc_run R (RS thr draw) h calls a =
  @acc_run R (RS thr draw) h (@filter (targ * targ) (@accepted R h) calls) a /\
  @acc_result R (RS thr draw) (@acc_run R (RS thr draw) h calls a) =
  @acc_result R (RS thr draw)
    (@acc_run R (RS thr draw) h (@filter (targ * targ) (@accepted R h) calls) a).
Proof. exact @rejected_calls_do_not_count. Qed.
Print Assumptions rejected_calls_do_not_count.

Theorem indicator_sum_counts_matches :
  forall (thr : R) (draw : bool -> nat -> R),
  0 <= thr ->
  forall xs ys : list R,
  @Forall (R * R) (fun p : R * R => sep thr (@fst R R p) (@snd R R p)) (@combine R R xs ys) ->
  @fold_left R R (@sadd R (RS thr draw)) (@map2 R (@seqt R (RS thr draw)) xs ys) (@s0 R (RS thr draw)) =
  INR (matches xs ys).
Proof. exact @matchedL_counts. Qed.
Print Assumptions indicator_sum_counts_matches.

Theorem matches_additive_over_concatenation :
  forall xs1 xs2 ys1 ys2 : list R,
  length xs1 = length ys1 -> matches (xs1 ++ xs2) (ys1 ++ ys2) = (matches xs1 ys1 + matches xs2 ys2)%nat.
Proof. exact @matches_app. Qed.
Print Assumptions matches_additive_over_concatenation.
