(* C10 — Tensors behave as immutable values decoupled from caller-owned slices.
   Statements only (proofs: Proofs/StepP.v, AliasP.v; model of caller-owned slices: Model/Alias.v).
   First half, over the scenario interpreter [step] (EVERY command of the public API incl.
   components, any scalar type, any sealing functions): no command changes the value (shape and
   elements) or the name of an existing tensor; only Reset changes tracking (and only of its
   target); only BackPropagate and Reset change gradients / spent flags; lifted to all histories.
   Second half: caller-owned index slices live in a store; in mode [Copied] (the repaired
   library: Slice/Patch copy the index; every other slice parameter was already copied) any
   program with caller mutations [AMutate] is observationally equal to the core program carrying
   the slice contents AT CALL TIME — mutations after the call are invisible, also between the
   forward call and a later back-propagation; in mode [Retained] (the pinned library, defect D9)
   a witness program differs.  The tie to the real slices (dims, nested data, ranges, tensor
   lists, Shape results, initializer shapes) is the alias scenario family of the driver, which
   scribbles over every slice passed in or handed out. *)
From Coq Require Import List ZArith Bool.
From Qeep Require Import Model.Scalar Model.Nd Model.Data Model.Api Model.Grad Model.Backprop Model.Components Model.Scenario Model.Alias.
From Qeep Require Import Proofs.TrackP Proofs.StepP Proofs.AliasP.
Import ListNotations.

Theorem no_command_changes_existing_values :
  forall (A : Type) (SA : Scalar A) (rd : bred) (sealv : nat -> tensor A -> tensor A)
    (sealg : nat -> option nat -> tensor A -> tensor A) (c_eps c_one_m_eps : A)
    (c_leaky c_sgd_lr dFull dUniL dUniU dNorM dNorS : dec) (c_softmax_dim : Z) 
    (s : state) (c : cmd) (i : nat) (n : node),
  nth_error (st_heap s) i = Some n ->
  exists n' : node,
    nth_error
      (st_heap
         (fst
            (step rd sealv sealg c_eps c_one_m_eps c_leaky c_sgd_lr dFull dUniL dUniU dNorM dNorS
               c_softmax_dim s c))) i = Some n' /\ nval n' = nval n /\ nname n' = nname n.
Proof. exact @step_frame_values. Qed.
Print Assumptions no_command_changes_existing_values.

Theorem only_reset_changes_tracking :
  forall (A : Type) (SA : Scalar A) (rd : bred) (sealv : nat -> tensor A -> tensor A)
    (sealg : nat -> option nat -> tensor A -> tensor A) (c_eps c_one_m_eps : A)
    (c_leaky c_sgd_lr dFull dUniL dUniU dNorM dNorS : dec) (c_softmax_dim : Z) 
    (s : state) (c : cmd) (i : nat) (n n' : node),
  nth_error (st_heap s) i = Some n ->
  nth_error
    (st_heap
       (fst
          (step rd sealv sealg c_eps c_one_m_eps c_leaky c_sgd_lr dFull dUniL dUniU dNorM dNorS
             c_softmax_dim s c))) i = Some n' ->
  (forall (t : nat) (b : bool), c = CReset t b -> lookupT s t <> Some i) ->
  ntracked n' = ntracked n /\ nedges n' = nedges n.
Proof. exact @step_frame_tracking. Qed.
Print Assumptions only_reset_changes_tracking.

Theorem only_backprop_and_reset_change_gradients :
  forall (A : Type) (SA : Scalar A) (rd : bred) (sealv : nat -> tensor A -> tensor A)
    (sealg : nat -> option nat -> tensor A -> tensor A) (c_eps c_one_m_eps : A)
    (c_leaky c_sgd_lr dFull dUniL dUniU dNorM dNorS : dec) (c_softmax_dim : Z) 
    (s : state) (c : cmd) (i : nat) (n n' : node),
  nth_error (st_heap s) i = Some n ->
  nth_error
    (st_heap
       (fst
          (step rd sealv sealg c_eps c_one_m_eps c_leaky c_sgd_lr dFull dUniL dUniU dNorM dNorS
             c_softmax_dim s c))) i = Some n' ->
  (forall t : targ, c <> CBackprop t) ->
  (forall (t : nat) (b : bool), c = CReset t b -> lookupT s t <> Some i) ->
  ngrad n' = ngrad n /\ ndirty n' = ndirty n.
Proof. exact @step_frame_grad. Qed.
Print Assumptions only_backprop_and_reset_change_gradients.

Theorem reset_changes_only_its_target :
  forall (A : Type) (SA : Scalar A) (rd : bred) (sealv : nat -> tensor A -> tensor A)
    (sealg : nat -> option nat -> tensor A -> tensor A) (c_eps c_one_m_eps : A)
    (c_leaky c_sgd_lr dFull dUniL dUniU dNorM dNorS : dec) (c_softmax_dim : Z) 
    (s : state) (t : nat) (b : bool) (x : nat) (n : node),
  lookupT s t = Some x ->
  nth_error (st_heap s) x = Some n ->
  nth_error
    (st_heap
       (fst
          (step rd sealv sealg c_eps c_one_m_eps c_leaky c_sgd_lr dFull dUniL dUniU dNorM dNorS
             c_softmax_dim s (CReset t b)))) x =
  Some
    {| nval := nval n; ntracked := b; ndirty := false; ngrad := None; nedges := []; nname := nname n |} /\
  (forall j : nat,
   j <> x ->
   nth_error
     (st_heap
        (fst
           (step rd sealv sealg c_eps c_one_m_eps c_leaky c_sgd_lr dFull dUniL dUniU dNorM dNorS
              c_softmax_dim s (CReset t b)))) j = nth_error (st_heap s) j) /\
  snd
    (step rd sealv sealg c_eps c_one_m_eps c_leaky c_sgd_lr dFull dUniL dUniU dNorM dNorS c_softmax_dim
       s (CReset t b)) = ObOk.
Proof. exact @step_reset_spec. Qed.
Print Assumptions reset_changes_only_its_target.

Theorem backprop_changes_only_flags_and_gradients_of_visited :
  forall (A : Type) (SA : Scalar A) (rd : bred) (sealv : nat -> tensor A -> tensor A)
    (sealg : nat -> option nat -> tensor A -> tensor A) (c_eps c_one_m_eps : A)
    (c_leaky c_sgd_lr dFull dUniL dUniU dNorM dNorS : dec) (c_softmax_dim : Z) 
    (s : state) (t x : nat),
  wf_heap (st_heap s) ->
  lookupT s t = Some x ->
  let h := st_heap s in
  let s' :=
    fst
      (step rd sealv sealg c_eps c_one_m_eps c_leaky c_sgd_lr dFull dUniL dUniU dNorM dNorS
         c_softmax_dim s (CBackprop (Some t))) in
  let order := topoOrder h x in
  match
    snd
      (step rd sealv sealg c_eps c_one_m_eps c_leaky c_sgd_lr dFull dUniL dUniU dNorM dNorS
         c_softmax_dim s (CBackprop (Some t)))
  with
  | ObGrads _ _ =>
      length (st_heap s') = length h /\
      (forall (i : nat) (n : node),
       nth_error h i = Some n ->
       exists n' : node,
         nth_error (st_heap s') i = Some n' /\
         nval n' = nval n /\
         ntracked n' = ntracked n /\
         nedges n' = nedges n /\
         nname n' = nname n /\
         ndirty n' = ndirty n || memb i order /\
         (~ In i order -> ngrad n' = ngrad n) /\ (In i order -> ngrad n' <> None))
  | _ => st_heap s' = h
  end.
Proof. exact @step_frame_bp. Qed.
Print Assumptions backprop_changes_only_flags_and_gradients_of_visited.

Theorem other_commands_only_append :
  forall (A : Type) (SA : Scalar A) (rd : bred) (sealv : nat -> tensor A -> tensor A)
    (sealg : nat -> option nat -> tensor A -> tensor A) (c_eps c_one_m_eps : A)
    (c_leaky c_sgd_lr dFull dUniL dUniU dNorM dNorS : dec) (c_softmax_dim : Z) 
    (s : state) (c : cmd),
  (forall t : targ, c <> CBackprop t) ->
  (forall (t : nat) (b : bool), c <> CReset t b) ->
  extends (st_heap s)
    (st_heap
       (fst
          (step rd sealv sealg c_eps c_one_m_eps c_leaky c_sgd_lr dFull dUniL dUniU dNorM dNorS
             c_softmax_dim s c))).
Proof. exact @step_frame_exact. Qed.
Print Assumptions other_commands_only_append.

Theorem values_preserved_over_any_history :
  forall (A : Type) (SA : Scalar A) (rd : bred) (sealv : nat -> tensor A -> tensor A)
    (sealg : nat -> option nat -> tensor A -> tensor A) (c_eps c_one_m_eps : A)
    (c_leaky c_sgd_lr dFull dUniL dUniU dNorM dNorS : dec) (c_softmax_dim : Z) 
    (s : state) (cs : list cmd) (i : nat) (n : node),
  nth_error (st_heap s) i = Some n ->
  exists n' : node,
    nth_error
      (st_heap
         (exec rd sealv sealg c_eps c_one_m_eps c_leaky c_sgd_lr dFull dUniL dUniU dNorM dNorS
            c_softmax_dim s cs)) i = Some n' /\ nval n' = nval n /\ nname n' = nname n.
Proof. exact @exec_frame_values. Qed.
Print Assumptions values_preserved_over_any_history.

Theorem tracking_preserved_over_histories_without_reset :
  forall (A : Type) (SA : Scalar A) (rd : bred) (sealv : nat -> tensor A -> tensor A)
    (sealg : nat -> option nat -> tensor A -> tensor A) (c_eps c_one_m_eps : A)
    (c_leaky c_sgd_lr dFull dUniL dUniU dNorM dNorS : dec) (c_softmax_dim : Z) 
    (s : state) (cs : list cmd) (i : nat) (n : node),
  forallb (fun c : cmd => negb (is_reset c)) cs = true ->
  nth_error (st_heap s) i = Some n ->
  exists n' : node,
    nth_error
      (st_heap
         (exec rd sealv sealg c_eps c_one_m_eps c_leaky c_sgd_lr dFull dUniL dUniU dNorM dNorS
            c_softmax_dim s cs)) i = Some n' /\ ntracked n' = ntracked n /\ nedges n' = nedges n.
Proof. exact @exec_frame_tracking. Qed.
Print Assumptions tracking_preserved_over_histories_without_reset.

Theorem gradients_preserved_over_histories_without_backprop_reset :
  forall (A : Type) (SA : Scalar A) (rd : bred) (sealv : nat -> tensor A -> tensor A)
    (sealg : nat -> option nat -> tensor A -> tensor A) (c_eps c_one_m_eps : A)
    (c_leaky c_sgd_lr dFull dUniL dUniU dNorM dNorS : dec) (c_softmax_dim : Z) 
    (s : state) (cs : list cmd) (i : nat) (n : node),
  forallb (fun c : cmd => negb (is_reset c) && negb (is_bp c)) cs = true ->
  nth_error (st_heap s) i = Some n ->
  nth_error
    (st_heap
       (exec rd sealv sealg c_eps c_one_m_eps c_leaky c_sgd_lr dFull dUniL dUniU dNorM dNorS
          c_softmax_dim s cs)) i = Some n.
Proof. exact @exec_frame_grad. Qed.
Print Assumptions gradients_preserved_over_histories_without_backprop_reset.

Theorem heaps_reachable_from_empty_are_well_formed :
  forall (A : Type) (SA : Scalar A) (rd : bred) (sealv : nat -> tensor A -> tensor A)
    (sealg : nat -> option nat -> tensor A -> tensor A) (c_eps c_one_m_eps : A)
    (c_leaky c_sgd_lr dFull dUniL dUniU dNorM dNorS : dec) (c_softmax_dim : Z) 
    (cs : list cmd),
  hinv
    (st_heap
       (exec rd sealv sealg c_eps c_one_m_eps c_leaky c_sgd_lr dFull dUniL dUniU dNorM dNorS
          c_softmax_dim init_state cs)).
Proof. exact @reachable_hinv. Qed.
Print Assumptions heaps_reachable_from_empty_are_well_formed.

Theorem copied_slices_decouple_the_caller :
  forall (A : Type) (SA : Scalar A) (rd : bred) (sealv : nat -> tensor A -> tensor A)
    (sealg : nat -> option nat -> tensor A -> tensor A) (c_eps c_one_m_eps : A)
    (c_leaky c_sgd_lr dFull dUniL dUniU dNorM dNorS : dec) (c_softmax_dim : Z) 
    (s : state) (sl : store) (recs : list (nat * nat)) (p : list acmd),
  arun rd sealv sealg c_eps c_one_m_eps c_leaky c_sgd_lr dFull dUniL dUniU dNorM dNorS c_softmax_dim
    Copied (s, sl, recs) p =
  run_from rd sealv sealg c_eps c_one_m_eps c_leaky c_sgd_lr dFull dUniL dUniU dNorM dNorS c_softmax_dim
    s (compile sl p).
Proof. exact @decoupled. Qed.
Print Assumptions copied_slices_decouple_the_caller.

Theorem mutation_after_the_call_is_invisible :
  forall (A : Type) (SA : Scalar A) (rd : bred) (sealv : nat -> tensor A -> tensor A)
    (sealg : nat -> option nat -> tensor A -> tensor A) (c_eps c_one_m_eps : A)
    (c_leaky c_sgd_lr dFull dUniL dUniU dNorM dNorS : dec) (c_softmax_dim : Z) 
    (s : state) (sl : store) (recs : list (nat * nat)) (pre post : list acmd) 
    (sid : nat) (new : list Valid.zrange),
  uses sid post = false ->
  arun rd sealv sealg c_eps c_one_m_eps c_leaky c_sgd_lr dFull dUniL dUniU dNorM dNorS c_softmax_dim
    Copied (s, sl, recs) (pre ++ AMutate sid new :: post) =
  arun rd sealv sealg c_eps c_one_m_eps c_leaky c_sgd_lr dFull dUniL dUniU dNorM dNorS c_softmax_dim
    Copied (s, sl, recs) (pre ++ ACore CNop :: post).
Proof. exact @mutation_invisible. Qed.
Print Assumptions mutation_after_the_call_is_invisible.

Theorem retained_differs_only_through_mutation :
  forall (A : Type) (SA : Scalar A) (rd : bred) (sealv : nat -> tensor A -> tensor A)
    (sealg : nat -> option nat -> tensor A -> tensor A) (c_eps c_one_m_eps : A)
    (c_leaky c_sgd_lr dFull dUniL dUniU dNorM dNorS : dec) (c_softmax_dim : Z) 
    (s : state) (sl : store) (p : list acmd),
  no_mutation p = true ->
  arun rd sealv sealg c_eps c_one_m_eps c_leaky c_sgd_lr dFull dUniL dUniU dNorM dNorS c_softmax_dim
    Retained (s, sl, []) p =
  arun rd sealv sealg c_eps c_one_m_eps c_leaky c_sgd_lr dFull dUniL dUniU dNorM dNorS c_softmax_dim
    Copied (s, sl, []) p.
Proof. exact @retained_agrees_without_mutation. Qed.
Print Assumptions retained_differs_only_through_mutation.

(* the pinned retention of the caller's index (defect D9) differs on a concrete program:
   leaf [1;2;3;4]; Slice with store entry [(0,2)]; the caller rewrites the entry to [(2,4)];
   BackPropagate: the gradient lands at [0;0;1;1] instead of [1;1;0;0].  Stated in Proofs/AliasP.v
   (module AliasEx, on a concrete integer scalar instance, by vm_compute). *)
Definition pinned_retention_refuted := AliasEx.decoupled_refuted.
Print Assumptions pinned_retention_refuted.
