(* C14K — source tie BY TRANSLATION for the component layer — the activation layers: input test (exactly one non-nil tensor; Softmax: rank above Dim), Forward = input test then the forward body, constructors and default configs.
   Statements only (proofs: Proofs/Comp*P.v).  Model/GoComp.v is REGENERATED from /repo's Go sources on every run by
   harness/gox (comp.go): the component layer's own logic — input validators, config validators, constructors, the
   scale formulas of the initializers, the Accuracy counters — as loop-free programs of the imperative language of
   Model/DataIR.v.  A tensor.Tensor interface value is nil or a node id of the model's heap; a config pointer is nil or
   the list of its fields; an error is 0 / 1; methods of tensors, float comparisons (parameters fltb / fleb: an
   abstract scalar has no order), int->float conversion and the library functions (tensor.RandU, the forward bodies
   that Properties/*S.v cover) are calls of the oracle Model/CompExt.v, in which SIBLING functions are linked by
   running their own translated programs.  Each theorem says that RUNNING the translated program returns exactly what
   the hand-written model (Model/Components.v) computes, for ALL heaps, arguments, fuel and depth; a returned outcome
   is never a panic.  An edit of one of these Go functions changes GoComp.v and breaks the theorem unless it computes
   the same thing.  Closed under the global context. *)
From Coq Require Import String List ZArith Bool Arith.
From Qeep Require Import Model.Scalar Model.Nd Model.Fill Model.Data Model.Valid Model.Api Model.Grad Model.Backprop Model.Components Model.Consts Model.DataIR Model.HeapExt Model.CompExt.
From Qeep Require Model.GoComp.
From Qeep Require Import Proofs.DataIRP.
From Qeep Require Proofs.CompValidP Proofs.CompAccP Proofs.CompInitP.
Import ListNotations.
Local Open Scope string_scope.

Theorem Relu_toValidInputs_is_oneInput :
  forall (A : Type) (SA : Scalar A) (fltb fleb : A -> A -> bool)
    (lib : string -> list dval -> heap -> option (list dval * heap)) (fuel depth : nat) 
    (h : heap) (xs : list targ),
  CompValidP.outcome
    (drun cfapp heap (cext0 fltb fleb lib) GoComp.c_Relu_toValidInputs fuel depth [DL (map dtarg xs)] h) =
  Some (CompValidP.oneInputRet xs, h).
Proof. exact @CompValidP.Relu_toValidInputs_spec. Qed.
Print Assumptions Relu_toValidInputs_is_oneInput.

Theorem Sigmoid_toValidInputs_is_oneInput :
  forall (A : Type) (SA : Scalar A) (fltb fleb : A -> A -> bool)
    (lib : string -> list dval -> heap -> option (list dval * heap)) (fuel depth : nat) 
    (h : heap) (xs : list targ),
  CompValidP.outcome
    (drun cfapp heap (cext0 fltb fleb lib) GoComp.c_Sigmoid_toValidInputs fuel depth [
       DL (map dtarg xs)] h) = Some (CompValidP.oneInputRet xs, h).
Proof. exact @CompValidP.Sigmoid_toValidInputs_spec. Qed.
Print Assumptions Sigmoid_toValidInputs_is_oneInput.

Theorem Tanh_toValidInputs_is_oneInput :
  forall (A : Type) (SA : Scalar A) (fltb fleb : A -> A -> bool)
    (lib : string -> list dval -> heap -> option (list dval * heap)) (fuel depth : nat) 
    (h : heap) (xs : list targ),
  CompValidP.outcome
    (drun cfapp heap (cext0 fltb fleb lib) GoComp.c_Tanh_toValidInputs fuel depth [DL (map dtarg xs)] h) =
  Some (CompValidP.oneInputRet xs, h).
Proof. exact @CompValidP.Tanh_toValidInputs_spec. Qed.
Print Assumptions Tanh_toValidInputs_is_oneInput.

Theorem LeakyRelu_toValidInputs_is_oneInput :
  forall (A : Type) (SA : Scalar A) (fltb fleb : A -> A -> bool)
    (lib : string -> list dval -> heap -> option (list dval * heap)) (fuel depth : nat) 
    (h : heap) (m : dval) (xs : list targ),
  CompValidP.outcome
    (drun cfapp heap (cext0 fltb fleb lib) GoComp.c_LeakyRelu_toValidInputs fuel depth
       [m; DL (map dtarg xs)] h) = Some (CompValidP.oneInputRet xs, h).
Proof. exact @CompValidP.LeakyRelu_toValidInputs_spec. Qed.
Print Assumptions LeakyRelu_toValidInputs_is_oneInput.

Theorem Softmax_toValidInputs_exact :
  forall (A : Type) (SA : Scalar A) (fltb fleb : A -> A -> bool)
    (lib : string -> list dval -> heap -> option (list dval * heap)) (fuel depth : nat) 
    (h : heap) (dim : Z) (xs : list targ),
  CompValidP.targsOk h xs ->
  CompValidP.outcome
    (drun cfapp heap (cext0 fltb fleb lib) GoComp.c_Softmax_toValidInputs fuel depth
       [DI dim; DL (map dtarg xs)] h) = Some (CompValidP.softmaxRet h dim xs, h).
Proof. exact @CompValidP.Softmax_toValidInputs_spec. Qed.
Print Assumptions Softmax_toValidInputs_exact.

Theorem Softmax_toValidInputs_is_the_models_rank_test :
  forall (A : Type) (SA : Scalar A) (fltb fleb : A -> A -> bool)
    (lib : string -> list dval -> heap -> option (list dval * heap)) (fuel depth : nat) 
    (h : heap) (dim : Z) (xs : list targ),
  (0 <= dim)%Z ->
  CompValidP.targsOk h xs ->
  CompValidP.outcome
    (drun cfapp heap (cext0 fltb fleb lib) GoComp.c_Softmax_toValidInputs fuel depth
       [DI dim; DL (map dtarg xs)] h) =
  Some
    (match oneInput xs with
     | Some x =>
         if (rankOf h x <=? Z.to_nat dim)%nat then [DI (Z.of_nat x); DI 1] else [DI (Z.of_nat x); DI 0]
     | None => [DNil; DI 1]
     end, h).
Proof. exact @CompValidP.Softmax_toValidInputs_model. Qed.
Print Assumptions Softmax_toValidInputs_is_the_models_rank_test.

Theorem Softmax_toValidInputs_ok_iff :
  forall (A : Type) (SA : Scalar A) (fltb fleb : A -> A -> bool)
    (lib : string -> list dval -> heap -> option (list dval * heap)) (fuel depth : nat) 
    (h : heap) (dim : Z) (xs : list targ),
  (0 <= dim)%Z ->
  CompValidP.targsOk h xs ->
  forall (vs : list dval) (h' : heap),
  CompValidP.outcome
    (drun cfapp heap (cext0 fltb fleb lib) GoComp.c_Softmax_toValidInputs fuel depth
       [DI dim; DL (map dtarg xs)] h) = Some (vs, h') ->
  nth 1 vs DNil = DI 0 <-> (exists x : nat, oneInput xs = Some x /\ Z.to_nat dim < rankOf h x).
Proof. exact @CompValidP.Softmax_toValidInputs_ok_iff. Qed.
Print Assumptions Softmax_toValidInputs_ok_iff.

Theorem Relu_Forward_is_input_test_then_forward :
  forall (A : Type) (SA : Scalar A) (fltb fleb : A -> A -> bool)
    (lib : string -> list dval -> heap -> option (list dval * heap)) (fuel depth : nat) 
    (h : heap) (xs : list targ),
  let o := drun cfapp heap (cext fltb fleb lib) GoComp.c_Relu_Forward fuel depth [CompAccP.dtargs xs] h
    in
  match oneInput xs with
  | Some x => CompAccP.libOut (lib "Relu.forward" [DI (Z.of_nat x)] h) o
  | None => exists g l : denv, o = DRet heap [DNil; DI 1] h g l
  end.
Proof. exact @CompAccP.Relu_Forward_run. Qed.
Print Assumptions Relu_Forward_is_input_test_then_forward.

Theorem Sigmoid_Forward_is_input_test_then_forward :
  forall (A : Type) (SA : Scalar A) (fltb fleb : A -> A -> bool)
    (lib : string -> list dval -> heap -> option (list dval * heap)) (fuel depth : nat) 
    (h : heap) (xs : list targ),
  let o :=
    drun cfapp heap (cext fltb fleb lib) GoComp.c_Sigmoid_Forward fuel depth [CompAccP.dtargs xs] h in
  match oneInput xs with
  | Some x => CompAccP.libOut (lib "Sigmoid.forward" [DI (Z.of_nat x)] h) o
  | None => exists g l : denv, o = DRet heap [DNil; DI 1] h g l
  end.
Proof. exact @CompAccP.Sigmoid_Forward_run. Qed.
Print Assumptions Sigmoid_Forward_is_input_test_then_forward.

Theorem Tanh_Forward_is_input_test_then_forward :
  forall (A : Type) (SA : Scalar A) (fltb fleb : A -> A -> bool)
    (lib : string -> list dval -> heap -> option (list dval * heap)) (fuel depth : nat) 
    (h : heap) (xs : list targ),
  let o := drun cfapp heap (cext fltb fleb lib) GoComp.c_Tanh_Forward fuel depth [CompAccP.dtargs xs] h
    in
  match oneInput xs with
  | Some x => CompAccP.libOut (lib "Tanh.forward" [DI (Z.of_nat x)] h) o
  | None => exists g l : denv, o = DRet heap [DNil; DI 1] h g l
  end.
Proof. exact @CompAccP.Tanh_Forward_run. Qed.
Print Assumptions Tanh_Forward_is_input_test_then_forward.

Theorem LeakyRelu_Forward_is_input_test_then_forward :
  forall (A : Type) (SA : Scalar A) (fltb fleb : A -> A -> bool)
    (lib : string -> list dval -> heap -> option (list dval * heap)) (fuel depth : nat) 
    (h : heap) (m : A) (xs : list targ),
  let o :=
    drun cfapp heap (cext fltb fleb lib) GoComp.c_LeakyRelu_Forward fuel depth
      [DF m; CompAccP.dtargs xs] h in
  match oneInput xs with
  | Some x => CompAccP.libOut (lib "LeakyRelu.forward" [DF m; DI (Z.of_nat x)] h) o
  | None => exists g l : denv, o = DRet heap [DNil; DI 1] h g l
  end.
Proof. exact @CompAccP.LeakyRelu_Forward_run. Qed.
Print Assumptions LeakyRelu_Forward_is_input_test_then_forward.

Theorem Softmax_Forward_is_input_test_then_forward :
  forall (A : Type) (SA : Scalar A) (fltb fleb : A -> A -> bool)
    (lib : string -> list dval -> heap -> option (list dval * heap)) (fuel depth : nat) 
    (h : heap) (dim : Z) (xs : list targ),
  CompAccP.inputOk h xs ->
  let o :=
    drun cfapp heap (cext fltb fleb lib) GoComp.c_Softmax_Forward fuel depth
      [DI dim; CompAccP.dtargs xs] h in
  match oneInput xs with
  | Some x =>
      if (Z.of_nat (rankOf h x) <=? dim)%Z
      then exists g l : denv, o = DRet heap [DNil; DI 1] h g l
      else CompAccP.libOut (lib "Softmax.forward" [DI dim; DI (Z.of_nat x)] h) o
  | None => exists g l : denv, o = DRet heap [DNil; DI 1] h g l
  end.
Proof. exact @CompAccP.Softmax_Forward_run. Qed.
Print Assumptions Softmax_Forward_is_input_test_then_forward.

Theorem Softmax_Forward_with_the_models_rank_test :
  forall (A : Type) (SA : Scalar A) (fltb fleb : A -> A -> bool)
    (lib : string -> list dval -> heap -> option (list dval * heap)) (fuel depth : nat) 
    (h : heap) (dim : nat) (xs : list targ),
  CompAccP.inputOk h xs ->
  let o :=
    drun cfapp heap (cext fltb fleb lib) GoComp.c_Softmax_Forward fuel depth
      [DI (Z.of_nat dim); CompAccP.dtargs xs] h in
  match oneInput xs with
  | Some x =>
      if (rankOf h x <=? dim)%nat
      then exists g l : denv, o = DRet heap [DNil; DI 1] h g l
      else CompAccP.libOut (lib "Softmax.forward" [DI (Z.of_nat dim); DI (Z.of_nat x)] h) o
  | None => exists g l : denv, o = DRet heap [DNil; DI 1] h g l
  end.
Proof. exact @CompAccP.Softmax_Forward_run_nat. Qed.
Print Assumptions Softmax_Forward_with_the_models_rank_test.

Theorem LeakyRelu_config_default_and_copy :
  forall (A : Type) (SA : Scalar A) (fltb fleb : A -> A -> bool)
    (lib : string -> list dval -> heap -> option (list dval * heap)) (fuel depth : nat) 
    (c : option A) (h : heap),
  CompInitP.outcome
    (drun cfapp heap (cext0 fltb fleb lib) GoComp.c_LeakyRelu_toValidLeakyReluConfig fuel depth
       [CompInitP.cfgF1 c] h) =
  Some ([DL [DF match c with
                | Some v => v
                | None => sconst 1 (-2)
                end]], h).
Proof. exact @CompInitP.LeakyRelu_config. Qed.
Print Assumptions LeakyRelu_config_default_and_copy.

Theorem LeakyRelu_config_default_is_the_models_constant :
  forall (A : Type) (SA : Scalar A) (fltb fleb : A -> A -> bool)
    (lib : string -> list dval -> heap -> option (list dval * heap)) (fuel depth : nat) 
    (c : option dec) (h : heap),
  CompInitP.outcome
    (drun cfapp heap (cext0 fltb fleb lib) GoComp.c_LeakyRelu_toValidLeakyReluConfig fuel depth
       [CompInitP.cfgD1 c] h) =
  Some ([DL [DF (dcst match c with
                      | Some d => d
                      | None => c_leaky_m
                      end)]], h).
Proof. exact @CompInitP.LeakyRelu_config_dec. Qed.
Print Assumptions LeakyRelu_config_default_is_the_models_constant.

Theorem NewLeakyRelu :
  forall (A : Type) (SA : Scalar A) (fltb fleb : A -> A -> bool)
    (lib : string -> list dval -> heap -> option (list dval * heap)) (fuel depth : nat) 
    (c : option A) (h : heap),
  CompInitP.outcome
    (drun cfapp heap (cext fltb fleb lib) GoComp.c_LeakyRelu_NewLeakyRelu fuel depth [
       CompInitP.cfgF1 c] h) =
  Some ([DL [DF match c with
                | Some v => v
                | None => sconst 1 (-2)
                end]], h).
Proof. exact @CompInitP.NewLeakyRelu. Qed.
Print Assumptions NewLeakyRelu.

Theorem Softmax_config :
  forall (A : Type) (SA : Scalar A) (fltb fleb : A -> A -> bool)
    (lib : string -> list dval -> heap -> option (list dval * heap)) (fuel depth : nat) 
    (c : option Z) (h : heap),
  let d := match c with
           | Some d => d
           | None => 0%Z
           end in
  CompInitP.outcome
    (drun cfapp heap (cext0 fltb fleb lib) GoComp.c_Softmax_toValidSoftmaxConfig fuel depth
       [CompInitP.cfgI1 c] h) = Some ([DL [DI d]; CompInitP.flag (0 <=? d)%Z], h).
Proof. exact @CompInitP.Softmax_config. Qed.
Print Assumptions Softmax_config.

Theorem NewSoftmax :
  forall (A : Type) (SA : Scalar A) (fltb fleb : A -> A -> bool)
    (lib : string -> list dval -> heap -> option (list dval * heap)) (fuel depth : nat) 
    (c : option Z) (h : heap),
  let d := match c with
           | Some d => d
           | None => 0%Z
           end in
  CompInitP.outcome
    (drun cfapp heap (cext fltb fleb lib) GoComp.c_Softmax_NewSoftmax fuel depth [CompInitP.cfgI1 c] h) =
  Some (if (0 <=? d)%Z then [DL [DI d]; DI 0] else [DNil; DI 1], h).
Proof. exact @CompInitP.NewSoftmax. Qed.
Print Assumptions NewSoftmax.
