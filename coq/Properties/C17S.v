(* C17S — source tie by translation for SGD.Update.
   Statements only (proofs: Proofs/Chain*P.v).  Model/Chains.v is REGENERATED from /repo's Go sources
   on every run by the translator harness/chainx (go/ast): the straight-line chains of Tensor method
   calls of SGD.Update (component/optimizers/sgd.go).
   Each theorem interprets the generated chain with the model's own operations (Model/ChainIR.v) and
   states that the interpretation IS the model's definition — for every heap, argument and outcome.
   An edit of the Go source that is not semantically the same chain changes Chains.v and the theorem
   about it no longer checks.  Any scalar type, no laws: closed under the global context. *)
From Coq Require Import String List ZArith Bool.
From Qeep Require Import Model.Scalar Model.Nd Model.Data Model.Valid Model.Api Model.Grad Model.Components Model.ChainIR.
From Qeep Require Model.Chains.
From Qeep Require Import Proofs.ChainBaseP Proofs.ChainSgdP.
Import ListNotations.
Local Open Scope string_scope.

Theorem sgd_update_is_its_source_chain :
  forall (A : Type) (SA : Scalar A) (h : heap) (lr : A) (w : nat) (nm : option nat),
  sgd_update h lr (Some w) nm =
  match valOf h w with
  | Some _ =>
      match asRes (runFun (hooksV (rsSgd lr) noVUser (sgdBind h w) noCond) Chains.sgd_update tt []) with
      | Ok v => let '(h', id) := alloc h v (false, true, []) nm in (h', Ok id)
      | Err => (h, Err)
      | Panic => (h, Panic)
      end
  | None => (h, Panic)
  end.
Proof. exact @ChainSgdP.sgd_chain. Qed.
Print Assumptions sgd_update_is_its_source_chain.
