(* C11 — A training loop follows the gradient-descent trajectory of its loss.
   Statements only (proofs: Proofs/TrainP.v).  Any scalar type, no laws (closed under the global
   context); every model FC -> activation -> loss (5 activations x 3 losses; MSE/BCE through
   Flatten(0)), any widths, batch size, learning rate, data and ANY number of steps.
   [train_iter] is one iteration exactly as the loop performs it: forward pass, loss,
   BackPropagate, SGD.Update of Weight and Bias through the layer's pointers,
   ResetGradContext(true) of both; [train] iterates it over a list of batches.
   * every update computes  w - lr * g  element-wise from the gradient g the back-propagation of THIS
     iteration delivered (sgd_update_spec, iter_shapes: upd_elem), the new tensor has the old shape;
   * after each iteration the new Weight and Bias are FRESH tracked leaves (no gradient, no back
     edges, not spent), data stay data, no value of any earlier tensor changes (iter_no_leak);
   * by induction over the list of batches: the weights after n steps are related to the initial ones
     by n applications of  w_{k+1} = w_k - lr * G_k  with G_k the gradient delivered on the graph built
     from w_k, b_k and batch k (train_trajectory, train_trajectory_shapes: TrajE), shapes preserved;
   * omitting the reset: the updated weight is spent and untracked, the next forward pass yields an
     untracked loss, BackPropagate is a no-op, the weight has no gradient and the next SGD.Update
     returns an ERROR leaving the heap unchanged (missing_reset_errors, noreset_next_errors).
   That G_k is the derivative of the mini-batch loss is the composition of C01 (bp_topo = adjoint
   equations on any DAG), C02/C07 (every rule is the VJP), C16 (FC gradients), C15 (activation
   gradients) and C13 (loss gradients), which are proved separately for each component.  The
   library's Broadcast rule averages (known finding D2), so dW, dB are the derivative divided by the
   batch size on the pinned tree; the theorems here hold for either variant rd. *)
From Coq Require Import List ZArith Bool.
From Qeep Require Import Model.Scalar Model.Nd Model.Data Model.Valid Model.Api Model.Grad Model.Backprop Model.Components.
From Qeep Require Import Proofs.NdP Proofs.BackpropP Proofs.StepP Proofs.TrainP.
Import ListNotations.

Theorem update_is_w_minus_lr_times_gradient :
  forall (A : Type) (SA : Scalar A) (h : heap) (lr : A) (w : nat) (nm : option nat) (wv g : tensor A),
  valOf h w = Some wv ->
  wf wv ->
  gradOf h w = Some g ->
  wf g ->
  dims g = dims wv ->
  exists v : tensor A,
    sgd_update h lr (Some w) nm =
    (h ++ [{| nval := v; ntracked := false; ndirty := true; ngrad := None; nedges := []; nname := nm |}],
     Ok (length h)) /\
    sgd_val lr wv g = Ok v /\
    dims v = dims wv /\
    wf v /\
    (forall idx : list nat,
     validIdx (dims wv) idx ->
     exists a gx : A,
       get (data wv) idx = Some a /\
       get (data g) idx = Some gx /\ get (data v) idx = Some (ssub a (smul lr gx))).
Proof. exact @TrainP.sgd_update_spec. Qed.
Print Assumptions update_is_w_minus_lr_times_gradient.

Theorem update_without_gradient_is_error :
  forall (A : Type) (SA : Scalar A) (h : heap) (lr : A) (w : nat) (nm : option nat) (wv : tensor A),
  gradOf h w = None -> valOf h w = Some wv -> sgd_update h lr (Some w) nm = (h, Err).
Proof. exact @TrainP.sgd_update_nograd. Qed.
Print Assumptions update_without_gradient_is_error.

Theorem update_of_nil_is_error :
  forall (A : Type) (SA : Scalar A) (h : heap) (lr : A) (nm : option nat),
  sgd_update h lr None nm = (h, Err).
Proof. exact @TrainP.sgd_update_nil. Qed.
Print Assumptions update_of_nil_is_error.

Theorem reset_makes_a_fresh_leaf :
  forall (A : Type) (h : @heap A) (w : nat),
  w < @length (@node A) h ->
  @fresh A (@h_reset A h w true) w /\
  @length (@node A) (@h_reset A h w true) = @length (@node A) h /\
  (forall i : nat, @valOf A (@h_reset A h w true) i = @valOf A h i) /\
  (forall i : nat, i <> w -> @nth_error (@node A) (@h_reset A h w true) i = @nth_error (@node A) h i).
Proof. exact @TrainP.reset_fresh. Qed.
Print Assumptions reset_makes_a_fresh_leaf.

Theorem spent_weight_makes_the_loss_untracked :
  forall (A : Type) (SA : Scalar A) (eps ome : A) (ak : actK) (lk : lossK) (h : heap) 
    (w b x t : nat) (h1 : heap) (l : nat),
  dirtyOf h w = true \/ dirtyOf h b = true ->
  forward_loss eps ome ak lk h w b x t = (h1, Ok l) ->
  trackedOf h1 l = false /\
  dirtyOf h1 l = true /\
  (forall (rd : bred) (sealg : option nat -> tensor A -> tensor A),
   bp_topo rd sealg h1 l = (h1, [], Ok tt)).
Proof. exact @TrainP.spent_forward_untracked. Qed.
Print Assumptions spent_weight_makes_the_loss_untracked.

Theorem iteration_on_spent_weight_errors :
  forall (A : Type) (SA : Scalar A) (rd : bred) (eps ome lr : A) (ak : actK) 
    (lk : lossK) (h : heap) (w b x t : nat) (h1 : heap) (l : nat),
  dirtyOf h w = true \/ dirtyOf h b = true ->
  gradOf h w = None ->
  forward_loss eps ome ak lk h w b x t = (h1, Ok l) ->
  bp_topo rd (fun (_ : option nat) (g : tensor A) => g) h1 l = (h1, [], Ok tt) /\
  gradOf h1 w = None /\
  (forall (lr' : A) (nm : option nat), sgd_update h1 lr' (Some w) nm = (h1, Err)) /\
  train_iter rd eps ome lr ak lk h w b x t = (h1, Err) /\
  train_iter_noreset rd eps ome lr ak lk h w b x t = (h1, Err).
Proof. exact @TrainP.train_iter_spent. Qed.
Print Assumptions iteration_on_spent_weight_errors.

Theorem missing_reset_is_reported_by_next_update :
  forall (A : Type) (SA : Scalar A) (rd : bred) (eps ome lr lr' : A) (ak : actK) 
    (lk : lossK) (h : heap) (w : nat) (nm : option nat) (h3 : heap) (w' b x t : nat),
  sgd_update h lr (Some w) nm = (h3, Ok w') ->
  spentN h3 w' /\
  (forall (h4 : heap) (l : nat),
   forward_loss eps ome ak lk h3 w' b x t = (h4, Ok l) ->
   trackedOf h4 l = false /\
   bp_topo rd (fun (_ : option nat) (g : tensor A) => g) h4 l = (h4, [], Ok tt) /\
   gradOf h4 w' = None /\
   (forall nm' : option nat, sgd_update h4 lr' (Some w') nm' = (h4, Err)) /\
   train_iter rd eps ome lr' ak lk h3 w' b x t = (h4, Err)).
Proof. exact @TrainP.missing_reset_errors. Qed.
Print Assumptions missing_reset_is_reported_by_next_update.

Theorem loop_without_reset_errors_at_next_step :
  forall (A : Type) (SA : Scalar A) (rd : bred) (eps ome lr : A) (ak : actK) 
    (lk : lossK) (h : heap) (w b x t : nat) (h' : heap) (w' b' : nat),
  train_iter_noreset rd eps ome lr ak lk h w b x t = (h', Ok (w', b')) ->
  spentN h' w' /\
  spentN h' b' /\
  (forall (x2 t2 : nat) (h1 : heap) (l : nat),
   forward_loss eps ome ak lk h' w' b' x2 t2 = (h1, Ok l) ->
   train_iter rd eps ome lr ak lk h' w' b' x2 t2 = (h1, Err) /\
   train_iter_noreset rd eps ome lr ak lk h' w' b' x2 t2 = (h1, Err)).
Proof. exact @TrainP.noreset_next_errors. Qed.
Print Assumptions loop_without_reset_errors_at_next_step.

Theorem one_iteration_leaks_nothing :
  forall (A : Type) (SA : Scalar A) (rd : bred) (eps ome lr : A) (ak : actK) 
    (lk : lossK) (h : heap) (w b x t : nat) (h' : heap) (w' b' : nat),
  hinv h ->
  fresh h w ->
  fresh h b ->
  train_iter rd eps ome lr ak lk h w b x t = (h', Ok (w', b')) ->
  fresh h' w' /\
  fresh h' b' /\
  w' <> b' /\
  length h <= w' /\
  length h <= b' /\
  hinv h' /\
  (forall i : nat, i < length h -> valOf h' i = valOf h i) /\
  (forall z : nat, datum h z -> datum h' z) /\
  (exists gW gB : tensor A,
     delivers rd eps ome ak lk h w b x t gW gB /\ sgd_step lr h w gW h' w' /\ sgd_step lr h b gB h' b').
Proof. exact @TrainP.iter_no_leak. Qed.
Print Assumptions one_iteration_leaks_nothing.

Theorem one_iteration_leaks_nothing_data :
  forall (A : Type) (SA : Scalar A) (rd : bred) (eps ome lr : A) (ak : actK) 
    (lk : lossK) (h : heap) (w b x t : nat) (h' : heap) (w' b' : nat),
  hinv h ->
  fresh h w ->
  fresh h b ->
  datum h x ->
  datum h t ->
  train_iter rd eps ome lr ak lk h w b x t = (h', Ok (w', b')) ->
  fresh h' w' /\
  fresh h' b' /\
  datum h' x /\
  datum h' t /\
  (forall i : nat, i < length h -> valOf h' i = valOf h i) /\
  (exists gW gB : tensor A,
     delivers rd eps ome ak lk h w b x t gW gB /\ sgd_step lr h w gW h' w' /\ sgd_step lr h b gB h' b').
Proof. exact @TrainP.iter_no_leak_data. Qed.
Print Assumptions one_iteration_leaks_nothing_data.

Theorem n_steps_follow_the_recurrence :
  forall (A : Type) (SA : Scalar A) (rd : bred) (eps ome lr : A) (ak : actK) 
    (lk : lossK) (batches : list (nat * nat)) (h : heap) (w b : nat) (h' : heap) 
    (w' b' : nat),
  hinv h ->
  fresh h w ->
  fresh h b ->
  train rd eps ome lr ak lk h w b batches = (h', Ok (w', b')) ->
  Traj rd eps ome lr ak lk h w b batches h' w' b' /\
  fresh h' w' /\
  fresh h' b' /\
  hinv h' /\
  length h <= length h' /\
  (forall i : nat, i < length h -> valOf h' i = valOf h i) /\ (forall z : nat, datum h z -> datum h' z).
Proof. exact @TrainP.train_trajectory. Qed.
Print Assumptions n_steps_follow_the_recurrence.

Theorem backprop_preserves_gradient_shapes :
  forall (A : Type) (SA : Scalar A) (rd : bred) (h : heap) (root : nat) (h' : heap)
    (log : list (nat * tensor A)) (r : res unit),
  sinv rd h -> bp_topo rd (fun (_ : option nat) (g : tensor A) => g) h root = (h', log, r) -> sinv rd h'.
Proof. exact @TrainP.bp_sinv. Qed.
Print Assumptions backprop_preserves_gradient_shapes.

Theorem forward_and_loss_preserve_shape_invariant :
  forall (A : Type) (SA : Scalar A) (rd : bred) (eps ome : A) (ak : actK) (lk : lossK) 
    (h : heap) (w b x t : nat) (h1 : heap) (l : nat),
  sinv rd h -> forward_loss eps ome ak lk h w b x t = (h1, Ok l) -> sinv rd h1.
Proof. exact @TrainP.forward_loss_sinv. Qed.
Print Assumptions forward_and_loss_preserve_shape_invariant.

Theorem one_iteration_elementwise_update_and_shapes :
  forall (A : Type) (SA : Scalar A) (rd : bred) (eps ome lr : A) (ak : actK) 
    (lk : lossK) (h : heap) (w b x t : nat) (h' : heap) (w' b' : nat),
  sinv rd h ->
  fresh h w ->
  fresh h b ->
  train_iter rd eps ome lr ak lk h w b x t = (h', Ok (w', b')) ->
  sinv rd h' /\
  (exists wv bv gW gB vW vB : tensor A,
     valOf h w = Some wv /\
     valOf h b = Some bv /\
     delivers rd eps ome ak lk h w b x t gW gB /\
     valOf h' w' = Some vW /\ valOf h' b' = Some vB /\ upd_elem lr wv gW vW /\ upd_elem lr bv gB vB).
Proof. exact @TrainP.iter_shapes. Qed.
Print Assumptions one_iteration_elementwise_update_and_shapes.

Theorem n_steps_elementwise_recurrence_and_shapes :
  forall (A : Type) (SA : Scalar A) (rd : bred) (eps ome lr : A) (ak : actK) 
    (lk : lossK) (batches : list (nat * nat)) (h : heap) (w b : nat) (h' : heap) 
    (w' b' : nat),
  sinv rd h ->
  fresh h w ->
  fresh h b ->
  train rd eps ome lr ak lk h w b batches = (h', Ok (w', b')) ->
  TrajE rd eps ome lr ak lk h w b batches h' w' b' /\
  sinv rd h' /\
  fresh h' w' /\
  fresh h' b' /\
  (exists wv bv wvE bvE : tensor A,
     valOf h w = Some wv /\
     valOf h b = Some bv /\
     valOf h' w' = Some wvE /\
     valOf h' b' = Some bvE /\ wf wvE /\ wf bvE /\ dims wvE = dims wv /\ dims bvE = dims bv).
Proof. exact @TrainP.train_trajectory_shapes. Qed.
Print Assumptions n_steps_elementwise_recurrence_and_shapes.

Theorem instance_heap_satisfies_hypotheses :
  forall rd : bred, @sinv Z CompP.CompExamples.z_scalar rd TrainExamples.h0.
Proof. exact @TrainP.TrainExamples.ex_sinv. Qed.
Print Assumptions instance_heap_satisfies_hypotheses.

Theorem instance_one_iteration :
  exists h' : @heap Z,
    @train_iter Z CompP.CompExamples.z_scalar RedSum 0%Z 1%Z 1%Z (@KTanh Z) KMse TrainExamples.h0 0 1 2
      3 = (h', @Ok (nat * nat) (20, 21)) /\
    @fresh Z h' 20 /\
    @fresh Z h' 21 /\
    @datum Z h' 2 /\
    @datum Z h' 3 /\
    @sinv Z CompP.CompExamples.z_scalar RedSum h' /\
    (exists vW vB : tensor Z,
       @valOf Z h' 20 = @Some (tensor Z) vW /\
       @valOf Z h' 21 = @Some (tensor Z) vB /\ @dims Z vW = [2] /\ @dims Z vB = [2]).
Proof. exact @TrainP.TrainExamples.ex_iter_thm. Qed.
Print Assumptions instance_one_iteration.

Theorem instance_update_values :
  snd TrainExamples.it2 = Ok (21, 22) /\
  valOf (fst TrainExamples.it2) 21 = Some (TrainExamples.mk1 [(2 - 3 * 204)%Z]) /\
  valOf (fst TrainExamples.it2) 22 = Some (TrainExamples.mk1 [(10 - 3 * 34)%Z]) /\
  fresh (fst TrainExamples.it2) 21 /\
  fresh (fst TrainExamples.it2) 22 /\
  gradOf (fst TrainExamples.it2) 0 = Some (TrainExamples.mk1 [204%Z]) /\
  gradOf (fst TrainExamples.it2) 1 = Some (TrainExamples.mk1 [34%Z]) /\
  dirtyOf (fst TrainExamples.it2) 0 = true /\
  dirtyOf (fst TrainExamples.it2) 1 = true /\
  valOf (fst TrainExamples.it2) 0 = Some TrainExamples.tW1 /\
  valOf (fst TrainExamples.it2) 1 = Some TrainExamples.tB1.
Proof. exact @TrainP.TrainExamples.ex_update. Qed.
Print Assumptions instance_update_values.

Theorem instance_three_steps :
  exists (h' : @heap Z) (w' b' : nat),
    @train Z CompP.CompExamples.z_scalar RedSum 0%Z 1%Z 3%Z (@KRelu Z) KMse TrainExamples.g0 0 1
      [(2, 3); (2, 3); (2, 3)] = (h', @Ok (nat * nat) (w', b')) /\
    @TrajE Z CompP.CompExamples.z_scalar RedSum 0%Z 1%Z 3%Z (@KRelu Z) KMse TrainExamples.g0 0 1
      [(2, 3); (2, 3); (2, 3)] h' w' b' /\
    @fresh Z h' w' /\
    @fresh Z h' b' /\
    (exists wvE bvE : tensor Z,
       @valOf Z h' w' = @Some (tensor Z) wvE /\
       @valOf Z h' b' = @Some (tensor Z) bvE /\ @dims Z wvE = [1] /\ @dims Z bvE = [1]).
Proof. exact @TrainP.TrainExamples.ex_train. Qed.
Print Assumptions instance_three_steps.

Theorem instance_missing_reset :
  @snd (@heap Z) (res (nat * nat)) TrainExamples.nr = @Ok (nat * nat) (21, 22) /\
  @spentN Z (@fst (@heap Z) (res (nat * nat)) TrainExamples.nr) 21 /\
  @spentN Z (@fst (@heap Z) (res (nat * nat)) TrainExamples.nr) 22 /\
  @snd (@heap Z) (res (nat * nat))
    (@train_iter Z CompP.CompExamples.z_scalar RedSum 0%Z 1%Z 3%Z (@KRelu Z) KMse
       (@fst (@heap Z) (res (nat * nat)) TrainExamples.nr) 21 22 2 3) = @Err (nat * nat) /\
  @snd (@heap Z) (res (nat * nat))
    (@train_iter_noreset Z CompP.CompExamples.z_scalar RedSum 0%Z 1%Z 3%Z (@KRelu Z) KMse
       (@fst (@heap Z) (res (nat * nat)) TrainExamples.nr) 21 22 2 3) = @Err (nat * nat) /\
  (exists (h1 : @heap Z) (l : nat),
     @forward_loss Z CompP.CompExamples.z_scalar 0%Z 1%Z (@KRelu Z) KMse
       (@fst (@heap Z) (res (nat * nat)) TrainExamples.nr) 21 22 2 3 = (h1, @Ok nat l) /\
     @trackedOf Z h1 l = false /\
     @bp_topo Z CompP.CompExamples.z_scalar RedSum (fun (_ : option nat) (g : tensor Z) => g) h1 l =
     (h1, [], @Ok unit tt) /\
     @sgd_update Z CompP.CompExamples.z_scalar h1 3%Z (@Some nat 21) (@None nat) = (h1, @Err nat)).
Proof. exact @TrainP.TrainExamples.ex_noreset. Qed.
Print Assumptions instance_missing_reset.
