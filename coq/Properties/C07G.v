(* C07G — source tie BY TRANSLATION for the autograd core (tensor/internal/gradtrack) — the Broadcast back-edge closure as translated from the source IS bcastBack RedAvg (the averaging variant: known finding D2), not RedSum.
   Statements only (proofs: Proofs/Heap*P.v).  Model/GoGrad.v is REGENERATED from /repo's Go sources on every run by
   harness/gox: back_propagation.go (backward, topologicalOrder with its recursive closure, accumulateGrad),
   gradtrack.go (anyIsBPDirty, nonIsTracked) and every gradient-context constructor of gradients.go are programs of
   the imperative language of Model/DataIR.v in which tensors and contexts are node ids and every access to them is a
   call of the oracle Model/HeapExt.v ([hext]: c.tracked = ntracked, c.bpdirty = ndirty, c.gradient = ngrad,
   c.backEdges = nedges, e.gradFn() = eval_rule of that back edge — justified closure by closure in Properties/C02S.v).
   Each theorem says that RUNNING the translated program on a model heap returns exactly what the hand-written model
   (Model/Backprop.v, Model/Grad.v) computes, for ALL well-formed heaps.  Closed under the global context. *)
From Coq Require Import String List ZArith Bool Arith.
From Qeep Require Import Model.Scalar Model.Nd Model.Fill Model.Data Model.Valid Model.Api Model.Grad Model.Backprop Model.DataIR Model.HeapExt.
From Qeep Require Model.GoGrad.
From Qeep Require Import Proofs.DataIRP.
From Qeep Require Proofs.BackpropP Proofs.HeapAccP Proofs.HeapTopoP Proofs.HeapBackP Proofs.HeapCtorP Proofs.HeapBcastP.
Import ListNotations.
Local Open Scope string_scope.

Theorem Broadcast_closure_is_bcastBack_avg :
  forall (A : Type) (SA : Scalar A) (fapp : string -> list A -> option A) (rd : bred) 
    (h : heap) (x y : nat) (xv yv gy : tensor A) (fuel depth : nat),
  x < Datatypes.length h ->
  y < Datatypes.length h ->
  valOf h x = Some xv ->
  valOf h y = Some yv ->
  gradOf h y = Some gy ->
  Datatypes.length (dims yv) + 1 < fuel ->
  match bcastBack RedAvg gy (dims xv) (dims yv) with
  | Ok r =>
      exists g l : denv,
        drun fapp heap (hext rd) GoGrad.r_Broadcast_closure fuel depth
          [DI (Z.of_nat x); DI (Z.of_nat y)] h = DRet heap [embT r; DI 0] h g l
  | Err =>
      exists g l : denv,
        drun fapp heap (hext rd) GoGrad.r_Broadcast_closure fuel depth
          [DI (Z.of_nat x); DI (Z.of_nat y)] h = DRet heap [DNil; DI 1] h g l
  | Panic =>
      drun fapp heap (hext rd) GoGrad.r_Broadcast_closure fuel depth [DI (Z.of_nat x); DI (Z.of_nat y)]
        h = DPanic heap
  end.
Proof. exact @HeapBcastP.heap_r_Broadcast. Qed.
Print Assumptions Broadcast_closure_is_bcastBack_avg.

Theorem Broadcast_closure_is_the_averaging_rule :
  forall (A : Type) (SA : Scalar A) (fapp : string -> list A -> option A) (rd : bred) 
    (h : heap) (x y : nat) (xv yv gy : tensor A) (fuel depth : nat),
  x < Datatypes.length h ->
  y < Datatypes.length h ->
  valOf h x = Some xv ->
  valOf h y = Some yv ->
  gradOf h y = Some gy ->
  Datatypes.length (dims yv) + 1 < fuel ->
  match retT (eval_rule RedAvg h (RBroadcast y x)) with
  | Some vs =>
      exists g l : denv,
        drun fapp heap (hext rd) GoGrad.r_Broadcast_closure fuel depth
          [DI (Z.of_nat x); DI (Z.of_nat y)] h = DRet heap vs h g l
  | None =>
      drun fapp heap (hext rd) GoGrad.r_Broadcast_closure fuel depth [DI (Z.of_nat x); DI (Z.of_nat y)]
        h = DPanic heap
  end.
Proof. exact @HeapBcastP.heap_r_Broadcast_eval_rule. Qed.
Print Assumptions Broadcast_closure_is_the_averaging_rule.

Theorem Broadcast_rule_of_the_model :
  forall (A : Type) (SA : Scalar A) (rd' : bred) (h : heap) (x y : nat) (xv yv gy : tensor A),
  valOf h x = Some xv ->
  valOf h y = Some yv ->
  gradOf h y = Some gy -> eval_rule rd' h (RBroadcast y x) = bcastBack rd' gy (dims xv) (dims yv).
Proof. exact @HeapBcastP.eval_rule_RBroadcast. Qed.
Print Assumptions Broadcast_rule_of_the_model.

Theorem Broadcast_constructor_targets_the_source :
  forall (A : Type) (SA : Scalar A) (fapp : string -> list A -> option A) (rd : bred) 
    (yv : dval) (x : nat), HeapCtorP.ctor_spec fapp rd GoGrad.c_Broadcast [yv; HeapCtorP.dnode x] [x].
Proof. exact @HeapCtorP.ctor_Broadcast. Qed.
Print Assumptions Broadcast_constructor_targets_the_source.
