(* C03 — Element-wise operations and implicit broadcasting compute the defined values.
   Statements only (proofs: Proofs/ElemP.v, ArithP.v, BroadcastP.v).  Every theorem holds for an
   arbitrary scalar type with NO laws: each element of the result IS the scalar function applied
   to the operand elements at the (projected) position, so the statements are exact for doubles.
     unaryF u     the scalar function of Scale(a) / Pow(a) / Exp .. Tanh;
     binaryF b    of Eq..Le (0/1-valued), ElMax, ElMin, Add, Sub, Mul, Div;
     bproj src target idx   the NumPy projection of a target index onto an operand (drop the
                  leading extra dimensions, use 0 where the operand's size is 1);
     bcompat2     right-aligned compatibility of two shapes (equal, or one of them 1). *)
From Coq Require Import List ZArith Bool Reals.
From Qeep Require Import Model.Scalar Model.Nd Model.Data Model.Valid Model.Api.
From Qeep Require Import Proofs.NdP Proofs.ElemP Proofs.BroadcastP Proofs.ArithP Spec.RScalar Proofs.CmpRP.
Import ListNotations.

Theorem unary_ops_apply_the_scalar_function :
  forall (A : Type) (SA : Scalar A) (u : unary) (t : tensor A),
  wf t ->
  exists r : tensor A,
    v_unary u t = Ok r /\
    dims r = dims t /\
    wf r /\
    (forall idx : list nat,
     validIdx (dims t) idx -> get (data r) idx = option_map (unaryF u) (get (data t) idx)).
Proof. exact @v_unary_spec. Qed.
Print Assumptions unary_ops_apply_the_scalar_function.

Theorem comparisons_elmax_elmin_are_elementwise :
  forall (A : Type) (SA : Scalar A) (b : binary) (t u : tensor A),
  wf t ->
  wf u ->
  (dims t = dims u ->
   exists r : tensor A,
     v_same b t u = Ok r /\
     dims r = dims t /\
     wf r /\
     (forall idx : list nat,
      validIdx (dims t) idx ->
      get (data r) idx =
      match get (data t) idx with
      | Some x => match get (data u) idx with
                  | Some y => Some (binaryF b x y)
                  | None => None
                  end
      | None => None
      end)) /\ (dims t <> dims u -> v_same b t u = Err).
Proof. exact @v_same_spec. Qed.
Print Assumptions comparisons_elmax_elmin_are_elementwise.

Theorem comparisons_elmax_elmin_accept_exactly_equal_shapes :
  forall (A : Type) (SA : Scalar A) (b : binary) (t u : tensor A),
  wf t ->
  wf u -> ((exists r : tensor A, v_same b t u = Ok r) <-> dims t = dims u) /\ v_same b t u <> Panic.
Proof. exact @v_same_ok_iff. Qed.
Print Assumptions comparisons_elmax_elmin_accept_exactly_equal_shapes.

Theorem arithmetic_broadcasts_numpy_style :
  forall (A : Type) (SA : Scalar A) (b : binary) (t u : tensor A),
  wf t ->
  wf u ->
  let target := targetBroadcastDims (dims t) (dims u) in
  (bcompat2 (dims t) (dims u) ->
   exists r : tensor A,
     v_arith b t u = Ok r /\
     dims r = target /\
     wf r /\
     (forall idx : list nat,
      validIdx target idx ->
      get (data r) idx =
      match get (data t) (bproj (dims t) target idx) with
      | Some x =>
          match get (data u) (bproj (dims u) target idx) with
          | Some y => Some (binaryF b x y)
          | None => None
          end
      | None => None
      end)) /\ (~ bcompat2 (dims t) (dims u) -> v_arith b t u = Err).
Proof. exact @v_arith_spec. Qed.
Print Assumptions arithmetic_broadcasts_numpy_style.

Theorem arithmetic_accepts_exactly_compatible_shapes :
  forall (A : Type) (SA : Scalar A) (b : binary) (t u : tensor A),
  wf t ->
  wf u ->
  ((exists r : tensor A, v_arith b t u = Ok r) <-> bcompat2 (dims t) (dims u)) /\ v_arith b t u <> Panic.
Proof. exact @v_arith_ok_iff. Qed.
Print Assumptions arithmetic_accepts_exactly_compatible_shapes.

Theorem arithmetic_equals_explicit_broadcast_first :
  forall (A : Type) (SA : Scalar A) (b : binary) (t u t1 u1 : tensor A),
  wf t ->
  wf u ->
  let target := map Z.of_nat (targetBroadcastDims (dims t) (dims u)) in
  v_broadcast t target = Ok t1 ->
  v_broadcast u target = Ok u1 ->
  v_arith b t u = of_opt (apply2 (binaryF b) t1 u1) /\
  v_arith b t u = v_same b t1 u1 /\ v_arith b t u = v_arith b t1 u1.
Proof. exact @v_arith_eq_explicit. Qed.
Print Assumptions arithmetic_equals_explicit_broadcast_first.

Theorem arithmetic_on_equal_shapes :
  forall (A : Type) (SA : Scalar A) (b : binary) (t u : tensor A),
  wf t ->
  wf u ->
  dims t = dims u ->
  v_arith b t u = of_opt (apply2 (binaryF b) t u) /\
  v_arith b t u = v_same b t u /\
  (exists r : tensor A,
     v_arith b t u = Ok r /\
     dims r = dims t /\
     wf r /\
     (forall idx : list nat,
      validIdx (dims t) idx ->
      exists x y : A,
        get (data t) idx = Some x /\
        get (data u) idx = Some y /\ get (data r) idx = Some (binaryF b x y))).
Proof. exact @v_arith_same_dims. Qed.
Print Assumptions arithmetic_on_equal_shapes.

Theorem broadcasting_to_own_shape_is_identity :
  forall (A : Type) (t : tensor A), wf t -> v_broadcast t (map Z.of_nat (dims t)) = Ok t.
Proof. exact @v_broadcast_id. Qed.
Print Assumptions broadcasting_to_own_shape_is_identity.

Theorem equals_is_the_stated_expression :
  forall (A : Type) (SA : Scalar A) (t u : tensor A),
  wf t ->
  wf u ->
  (dims t = dims u ->
   v_equals t u =
   Ok (sgeb (fold_left sadd (map2 seqt (flat (data t)) (flat (data u))) s0) (sofnat (prodn (dims t))))) /\
  (dims t <> dims u -> v_equals t u = Err).
Proof. exact @v_equals_spec. Qed.
Print Assumptions equals_is_the_stated_expression.

Theorem scalar_functions_over_the_reals :
  forall (thr : R) (draw : bool -> nat -> R),
  0 <= thr ->
  forall (b : binary) (x y : R),
  match b with
  | BiEq =>
      (x = y -> @binaryF R (RS thr draw) b x y = 1) /\
      (thr < Rabs (x - y) -> @binaryF R (RS thr draw) b x y = 0)
  | BiNe =>
      (x = y -> @binaryF R (RS thr draw) b x y = 0) /\
      (thr < Rabs (x - y) -> @binaryF R (RS thr draw) b x y = 1)
  | BiGt => @binaryF R (RS thr draw) b x y = (if Rgt_dec x y then 1 else 0)
  | BiGe => @binaryF R (RS thr draw) b x y = (if Rge_dec x y then 1 else 0)
  | BiLt => @binaryF R (RS thr draw) b x y = (if Rlt_dec x y then 1 else 0)
  | BiLe => @binaryF R (RS thr draw) b x y = (if Rle_dec x y then 1 else 0)
  | BiElMax => @binaryF R (RS thr draw) b x y = Rmax x y
  | BiElMin => @binaryF R (RS thr draw) b x y = Rmin x y
  | BiAdd => @binaryF R (RS thr draw) b x y = x + y
  | BiSub => @binaryF R (RS thr draw) b x y = x - y
  | BiMul => @binaryF R (RS thr draw) b x y = x * y
  | BiDiv => @binaryF R (RS thr draw) b x y = x / y
  end.
Proof. exact @comparisons_are_01. Qed.
Print Assumptions scalar_functions_over_the_reals.

Theorem comparison_results_are_0_or_1 :
  forall (thr : R) (draw : bool -> nat -> R) (b : binary) (x y : R),
  match b with
  | BiEq | BiNe | BiGt | BiGe | BiLt | BiLe =>
      @binaryF R (RS thr draw) b x y = 0 \/ @binaryF R (RS thr draw) b x y = 1
  | _ => True
  end.
Proof. exact @comparison_values_in_01. Qed.
Print Assumptions comparison_results_are_0_or_1.

Theorem equals_true_iff_all_positions_equal :
  forall (thr : R) (draw : bool -> nat -> R),
  0 <= thr ->
  forall xs ys : list R,
  @length R xs = @length R ys ->
  @Forall (R * R) (fun p : R * R => sep thr (@fst R R p) (@snd R R p)) (@combine R R xs ys) ->
  (@sgeb R (RS thr draw)
     (@fold_left R R (@sadd R (RS thr draw)) (@map2 R (@seqt R (RS thr draw)) xs ys)
        (@s0 R (RS thr draw))) (@sofnat R (RS thr draw) (@length R xs)) = 1 <-> 
   xs = ys) /\
  (@sgeb R (RS thr draw)
     (@fold_left R R (@sadd R (RS thr draw)) (@map2 R (@seqt R (RS thr draw)) xs ys)
        (@s0 R (RS thr draw))) (@sofnat R (RS thr draw) (@length R xs)) = 0 <-> 
   xs <> ys).
Proof. exact @equals_iff. Qed.
Print Assumptions equals_true_iff_all_positions_equal.

Theorem library_threshold_is_nonnegative :
  0 <= dec2R (fst Consts.c_eq_threshold) (snd Consts.c_eq_threshold).
Proof. exact @eq_threshold_nonneg. Qed.
Print Assumptions library_threshold_is_nonnegative.
