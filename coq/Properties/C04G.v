(* C04G — source tie BY TRANSLATION for the integer / shape logic behind MatMul, Dot and Transpose (transposeDims, transposeElemGenerator, matMulDims, dotDims, the batch odometers of Dot/MatMul, targetBroadcastDims, their validators).
   Statements only (proofs: Proofs/Go*P.v).  Model/GoFns.v is REGENERATED from /repo's Go sources on every run by
   harness/gox: each function below is a program of the small imperative language of Model/GoIR.v (Go int = Z
   without overflow, slices with value semantics — the translator refuses functions that write through aliases).
   Each theorem says that RUNNING the translated program (big-step semantics [exec] / [run], any fuel above the
   stated bound, hence no non-termination) returns exactly the value of the hand-written model function
   (Model/Valid.v, Model/Data.v, Model/Fill.v) for ALL arguments — for validators with no hypothesis at all, which
   also says they never panic; for shape helpers under the validator's precondition; for element generators: one
   call of the closure moves the multi-index state exactly like the model's odometer ([incr], [incr_skip], [bstep]),
   and the statements outside the integer fragment are pinned as text in source order ([itemShape]).
   The DATA layer (functions over `any`: float64 leaves and []any rows, recursive closures with pointer
   parameters) is translated into DataIR programs (Model/DataIR.v, Model/GoData.v, regenerated every run); the
   [data_*] / [drun_*] theorems say that running them returns exactly the model's nested data (Model/Data.v,
   Model/Fill.v) and panics exactly where the model says None.
   The thin WRAPPERS of cputensor (shape helper + element generator + initWith: transpose, reshape, broadcast, slice,
   patch, dot, matMul, reduceDimUsingFunc, constTensor, eyeMatrix) and the five cases of initTensorFromData are
   translated too (Model/GoWrap.v); their calls of the functions above go through the oracle Model/DataExt.v, which
   maps each callee to the model function the theorems above prove it to be; the [*_wrapper_*] theorems say the
   wrapper returns the model tensor (and panics where the model says None) and [initTensorFromData_*] that every case
   returns (shapeOf x, x) on data accepted by the validator.
   An edit of one of these Go functions changes GoFns.v / GoData.v and breaks the theorem unless it computes the same thing.
   Closed under the global context. *)
From Coq Require Import String List ZArith Bool Arith.
From Qeep Require Import Model.Scalar Model.Nd Model.Fill Model.Valid Model.GoIR Model.DataIR.
From Qeep Require Model.Data Model.Api Model.GoFns Model.GoData Model.DataExt Model.GoWrap.
From Qeep Require Import Proofs.GoIRP.
From Qeep Require Proofs.GoValidAtP Proofs.GoValidP1 Proofs.GoValidP2 Proofs.GoValidP3 Proofs.GoDimsP1 Proofs.GoDimsP2 Proofs.GoGenP1 Proofs.GoGenP2 Proofs.GoGenP3 Proofs.GoMatMulShapeP Proofs.DataAtP Proofs.DataSliceP Proofs.DataPatchP Proofs.DataApplyP Proofs.DataReduceP Proofs.DataFillP Proofs.DataLinalgP Proofs.DataConcatP Proofs.DataWrapP Proofs.DataFromDataP.
Import ListNotations.
Local Open Scope string_scope.

Theorem ValidateMatMulDims_program_is_the_model_validator :
  forall (call : string -> list val -> outcome) (fuel : nat) (dims1 dims2 : list Z),
  exec call fuel (fbody GoFns.ValidateMatMulDims) [("dims1", ints dims1); ("dims2", ints dims2)] =
  ORet [errOf (validateMatMulDims dims1 dims2)].
Proof. exact @GoValidP2.go_ValidateMatMulDims. Qed.
Print Assumptions ValidateMatMulDims_program_is_the_model_validator.

Theorem ValidateMatMulDims_run :
  forall (fuel : nat) (dims1 dims2 : list Z),
  run GoFns.ftab fuel GoFns.ValidateMatMulDims [ints dims1; ints dims2] =
  ORet [errOf (validateMatMulDims dims1 dims2)].
Proof. exact @GoValidP2.run_ValidateMatMulDims. Qed.
Print Assumptions ValidateMatMulDims_run.

Theorem ValidateDotProductDims_program_is_the_model_validator :
  forall (call : string -> list val -> outcome) (fuel : nat) (dims1 dims2 : list Z),
  exec call fuel (fbody GoFns.ValidateDotProductDims) [("dims1", ints dims1); ("dims2", ints dims2)] =
  ORet [errOf (validateDotProductDims dims1 dims2)].
Proof. exact @GoValidP2.go_ValidateDotProductDims. Qed.
Print Assumptions ValidateDotProductDims_program_is_the_model_validator.

Theorem ValidateDotProductDims_run :
  forall (fuel : nat) (dims1 dims2 : list Z),
  run GoFns.ftab fuel GoFns.ValidateDotProductDims [ints dims1; ints dims2] =
  ORet [errOf (validateDotProductDims dims1 dims2)].
Proof. exact @GoValidP2.run_ValidateDotProductDims. Qed.
Print Assumptions ValidateDotProductDims_run.

Theorem ValidateTransposeDims_program_is_the_model_validator :
  forall (call : string -> list val -> outcome) (fuel : nat) (dims : list Z),
  exec call fuel (fbody GoFns.ValidateTransposeDims) [("dims", ints dims)] =
  ORet [errOf (validateTransposeDims dims)].
Proof. exact @GoValidP2.go_ValidateTransposeDims. Qed.
Print Assumptions ValidateTransposeDims_program_is_the_model_validator.

Theorem ValidateTransposeDims_run :
  forall (fuel : nat) (dims : list Z),
  run GoFns.ftab fuel GoFns.ValidateTransposeDims [ints dims] =
  ORet [errOf (validateTransposeDims dims)].
Proof. exact @GoValidP2.run_ValidateTransposeDims. Qed.
Print Assumptions ValidateTransposeDims_run.

Theorem transposeDims_program_is_the_model_function :
  forall (call : string -> list val -> outcome) (fuel : nat) (ds : list nat),
  2 <= Datatypes.length ds ->
  exec call fuel (fbody GoFns.transposeDims) [("dims", nats ds)] = ORet [nats (Data.transposeDims ds)].
Proof. exact @GoDimsP1.go_transposeDims. Qed.
Print Assumptions transposeDims_program_is_the_model_function.

Theorem transposeDims_panics_below_rank_2 :
  forall (call : string -> list val -> outcome) (fuel : nat) (ds : list nat),
  Datatypes.length ds < 2 -> exec call fuel (fbody GoFns.transposeDims) [("dims", nats ds)] = OPanic.
Proof. exact @GoDimsP1.go_transposeDims_short. Qed.
Print Assumptions transposeDims_panics_below_rank_2.

Theorem dotDims_program_is_the_model_function :
  forall (call : string -> list val -> outcome) (fuel : nat) (ds : list nat),
  1 <= Datatypes.length ds ->
  exec call fuel (fbody GoFns.dotDims) [("idims", nats ds)] = ORet [nats (Data.dotDims ds)].
Proof. exact @GoDimsP2.go_dotDims. Qed.
Print Assumptions dotDims_program_is_the_model_function.

Theorem matMulDims_program_is_the_model_function :
  forall (call : string -> list val -> outcome) (fuel : nat) (d1 d2 r : list nat),
  2 <= Datatypes.length d1 ->
  Data.matMulDims d1 d2 = Some r ->
  exec call fuel (fbody GoFns.matMulDims) [("dims1", nats d1); ("dims2", nats d2)] = ORet [nats r].
Proof. exact @GoDimsP2.go_matMulDims. Qed.
Print Assumptions matMulDims_program_is_the_model_function.

Theorem targetBroadcastDims_program_is_the_model_function :
  forall (call : string -> list val -> outcome) (fuel : nat) (d1 d2 : list nat),
  S (Nat.max (Datatypes.length d1) (Datatypes.length d2)) <= fuel ->
  exec call fuel (fbody GoFns.targetBroadcastDims) [("dims1", nats d1); ("dims2", nats d2)] =
  ORet [nats (Data.targetBroadcastDims d1 d2)].
Proof. exact @GoDimsP2.go_targetBroadcastDims. Qed.
Print Assumptions targetBroadcastDims_program_is_the_model_function.

Theorem transposeElemGenerator_outer_shape :
  itemShape GoFns.transposeElemGenerator_outer = [None; Some "return <closure>"].
Proof. exact @GoGenP2.transposeElemGenerator_outer_shape. Qed.
Print Assumptions transposeElemGenerator_outer_shape.

Theorem transposeElemGenerator_step_shape :
  itemShape GoFns.transposeElemGenerator_step =
  [Some "elem := t.dataAt(state)"; None; Some "return elem"].
Proof. exact @GoGenP2.transposeElemGenerator_step_shape. Qed.
Print Assumptions transposeElemGenerator_step_shape.

Theorem transposeElemGenerator_initial_state :
  forall (call : string -> list val -> outcome) (fuel : nat) (ds : list nat) (e : env),
  lookup e "t.dims" = Some (nats ds) ->
  exists e' : env,
    exec call fuel GoGenP2.tr_outer_code e = ONormal e' /\
    lookup e' "state" = Some (nats (linInit ds)) /\ lookup e' "t.dims" = Some (nats ds).
Proof. exact @GoGenP2.go_transposeElemGenerator_outer. Qed.
Print Assumptions transposeElemGenerator_initial_state.

Theorem transposeElemGenerator_step_is_swapped_incr :
  forall (call : string -> list val -> outcome) (fuel : nat) (ds gs : list nat) (e : env),
  2 <= Datatypes.length ds ->
  Datatypes.length gs = Datatypes.length ds ->
  S (S (Datatypes.length ds)) <= fuel ->
  lookup e "t.dims" = Some (nats ds) ->
  lookup e "state" = Some (nats gs) ->
  exists e' : env,
    exec call fuel GoGenP2.tr_step_code e = ONormal e' /\
    lookup e' "state" = Some (nats (rev (swap01 (incr (swap01 (rev ds)) (swap01 (rev gs)))))) /\
    lookup e' "t.dims" = Some (nats ds).
Proof. exact @GoGenP2.go_transposeElemGenerator_step. Qed.
Print Assumptions transposeElemGenerator_step_is_swapped_incr.

Theorem dotGenerator_outer_shape :
  itemShape GoFns.linearLastDimDotProductElemGenerator_outer = [None; Some "return <closure>"].
Proof. exact @GoGenP1.shape_linearLastDimDotProductElemGenerator_outer. Qed.
Print Assumptions dotGenerator_outer_shape.

Theorem dotGenerator_step_shape :
  itemShape GoFns.linearLastDimDotProductElemGenerator_step =
  [Some "data1 := t1.dataAt(state)"; Some "data2 := t2.dataAt(state)";
   Some "prodRes := dotProductOf1DInputs(data1, data2)"; None; Some "return prodRes"].
Proof. exact @GoGenP1.shape_linearLastDimDotProductElemGenerator_step. Qed.
Print Assumptions dotGenerator_step_shape.

Theorem dotGenerator_code :
  codeOf GoFns.linearLastDimDotProductElemGenerator_outer =
  [GoGenP1.linearLastDimDotProductElemGenerator_outer_code] /\
  codeOf GoFns.linearLastDimDotProductElemGenerator_step =
  [GoGenP1.linearLastDimDotProductElemGenerator_step_code].
Proof. exact @GoGenP1.codeOf_linearLastDimDotProductElemGenerator. Qed.
Print Assumptions dotGenerator_code.

Theorem dotGenerator_initial_state :
  forall (call : string -> list val -> outcome) (fuel : nat) (ds : list nat) (e : env),
  1 <= Datatypes.length ds ->
  lookup e "t1.dims" = Some (nats ds) ->
  exists e' : env,
    exec call fuel GoGenP1.linearLastDimDotProductElemGenerator_outer_code e = ONormal e' /\
    lookup e' "dims" = Some (nats ds) /\
    lookup e' "n" = Some (VI (Z.of_nat (Datatypes.length ds - 1))) /\
    lookup e' "state" = Some (nats (repeat 0 (Datatypes.length ds - 1))) /\
    (forall y : string, y <> "dims" -> y <> "n" -> y <> "state" -> lookup e' y = lookup e y).
Proof. exact @GoGenP1.go_linearLastDimDotProductElemGenerator_outer. Qed.
Print Assumptions dotGenerator_initial_state.

Theorem dotGenerator_step_is_incr :
  forall (call : string -> list val -> outcome) (fuel : nat) (ds gs : list nat) (n : nat) (e : env),
  S n <= fuel ->
  Datatypes.length gs = n ->
  n <= Datatypes.length ds ->
  lookup e "dims" = Some (nats ds) ->
  lookup e "n" = Some (VI (Z.of_nat n)) ->
  lookup e "state" = Some (nats gs) ->
  exists e' : env,
    exec call fuel GoGenP1.linearLastDimDotProductElemGenerator_step_code e = ONormal e' /\
    lookup e' "state" = Some (nats (rev (incr (rev (firstn n ds)) (rev gs)))) /\
    lookup e' "dims" = Some (nats ds) /\
    lookup e' "n" = Some (VI (Z.of_nat n)) /\
    (forall y : string, y <> "state" -> y <> "i" -> lookup e' y = lookup e y).
Proof. exact @GoGenP1.go_linearLastDimDotProductElemGenerator_step. Qed.
Print Assumptions dotGenerator_step_is_incr.

Theorem matMulGenerator_outer_shape :
  itemShape GoFns.linearLast2DimsMatMulElemGenerator_outer = [None; Some "return <closure>"].
Proof. exact @GoGenP1.shape_linearLast2DimsMatMulElemGenerator_outer. Qed.
Print Assumptions matMulGenerator_outer_shape.

Theorem matMulGenerator_step_shape :
  itemShape GoFns.linearLast2DimsMatMulElemGenerator_step =
  [Some "data1 := t1.dataAt(state)"; Some "data2 := t2.dataAt(state)";
   Some "mulRes := matMulDataOf2DInputs(data1, data2)"; None; Some "return mulRes"].
Proof. exact @GoGenP1.shape_linearLast2DimsMatMulElemGenerator_step. Qed.
Print Assumptions matMulGenerator_step_shape.

Theorem matMulGenerator_code :
  codeOf GoFns.linearLast2DimsMatMulElemGenerator_outer =
  [GoGenP1.linearLast2DimsMatMulElemGenerator_outer_code] /\
  codeOf GoFns.linearLast2DimsMatMulElemGenerator_step =
  [GoGenP1.linearLast2DimsMatMulElemGenerator_step_code].
Proof. exact @GoGenP1.codeOf_linearLast2DimsMatMulElemGenerator. Qed.
Print Assumptions matMulGenerator_code.

Theorem matMulGenerator_initial_state :
  forall (call : string -> list val -> outcome) (fuel : nat) (ds : list nat) (e : env),
  2 <= Datatypes.length ds ->
  lookup e "t1.dims" = Some (nats ds) ->
  exists e' : env,
    exec call fuel GoGenP1.linearLast2DimsMatMulElemGenerator_outer_code e = ONormal e' /\
    lookup e' "dims" = Some (nats ds) /\
    lookup e' "n" = Some (VI (Z.of_nat (Datatypes.length ds - 2))) /\
    lookup e' "state" = Some (nats (repeat 0 (Datatypes.length ds - 2))) /\
    (forall y : string, y <> "dims" -> y <> "n" -> y <> "state" -> lookup e' y = lookup e y).
Proof. exact @GoGenP1.go_linearLast2DimsMatMulElemGenerator_outer. Qed.
Print Assumptions matMulGenerator_initial_state.

Theorem matMulGenerator_step_is_incr :
  forall (call : string -> list val -> outcome) (fuel : nat) (ds gs : list nat) (n : nat) (e : env),
  S n <= fuel ->
  Datatypes.length gs = n ->
  n <= Datatypes.length ds ->
  lookup e "dims" = Some (nats ds) ->
  lookup e "n" = Some (VI (Z.of_nat n)) ->
  lookup e "state" = Some (nats gs) ->
  exists e' : env,
    exec call fuel GoGenP1.linearLast2DimsMatMulElemGenerator_step_code e = ONormal e' /\
    lookup e' "state" = Some (nats (rev (incr (rev (firstn n ds)) (rev gs)))) /\
    lookup e' "dims" = Some (nats ds) /\
    lookup e' "n" = Some (VI (Z.of_nat n)) /\
    (forall y : string, y <> "state" -> y <> "i" -> lookup e' y = lookup e y).
Proof. exact @GoGenP1.go_linearLast2DimsMatMulElemGenerator_step. Qed.
Print Assumptions matMulGenerator_step_is_incr.

Theorem dotProductOf1DInputs_program_is_dot1d :
  forall (A : Type) (SA : Scalar A) (fapp : string -> list A -> option A) (St : Type)
    (ext : string -> list dval -> St -> option (list dval * St)) (fuel depth : nat) 
    (a b : nd A) (s : St),
  sconst 0 0 = s0 ->
  S (DataLinalgP.ndlen a) <= fuel ->
  match Data.dot1d a b with
  | Some r =>
      exists g l : denv,
        drun fapp St ext GoData.d_dotProductOf1DInputs fuel depth [emb a; emb b] s =
        DRet St [emb r] s g l
  | None => drun fapp St ext GoData.d_dotProductOf1DInputs fuel depth [emb a; emb b] s = DPanic St
  end.
Proof. exact @DataLinalgP.drun_dot1d. Qed.
Print Assumptions dotProductOf1DInputs_program_is_dot1d.

Theorem matMulDataOf2DInputs_program_is_matmul2d :
  forall (A : Type) (SA : Scalar A) (fapp : string -> list A -> option A) (St : Type)
    (ext : string -> list dval -> St -> option (list dval * St)) (fuel depth : nat) 
    (a b : nd A) (s : St),
  sconst 0 0 = s0 ->
  S (Nat.max (DataLinalgP.ndlen a) (Nat.max (DataLinalgP.ndlen0 a) (DataLinalgP.ndlen0 b))) <= fuel ->
  match Data.matmul2d a b with
  | Some r =>
      exists g l : denv,
        drun fapp St ext GoData.d_matMulDataOf2DInputs fuel depth [emb a; emb b] s =
        DRet St [emb r] s g l
  | None => drun fapp St ext GoData.d_matMulDataOf2DInputs fuel depth [emb a; emb b] s = DPanic St
  end.
Proof. exact @DataLinalgP.drun_matmul2d. Qed.
Print Assumptions matMulDataOf2DInputs_program_is_matmul2d.

Theorem broadcastForMatMul_shape :
  itemShape GoFns.broadcastForMatMul_outer =
  [None; Some "t1, err := ct1.Broadcast(shape)"; Some "if err != nil { return }"; None;
   Some "t2, err := ct2.Broadcast(shape)"; Some "if err != nil { return }";
   Some "bct1 = t1.(*CPUTensor)"; Some "bct2 = t2.(*CPUTensor)"; Some "return bct1, bct2, nil"].
Proof. exact @GoMatMulShapeP.broadcastForMatMul_outer_shape. Qed.
Print Assumptions broadcastForMatMul_shape.

Theorem broadcastForMatMul_code :
  codeOf GoFns.broadcastForMatMul_outer = [GoMatMulShapeP.mm_c1; GoMatMulShapeP.mm_c2].
Proof. exact @GoMatMulShapeP.broadcastForMatMul_outer_code. Qed.
Print Assumptions broadcastForMatMul_code.

Theorem broadcastForMatMul_first_target_shape :
  forall (fuel d : nat) (d1 d2 : list nat) (e : env),
  2 <= Datatypes.length d1 ->
  2 <= Datatypes.length d2 ->
  S (Nat.max (Datatypes.length d1) (Datatypes.length d2)) <= fuel ->
  lookup e "ct1.dims" = Some (nats d1) ->
  lookup e "ct2.dims" = Some (nats d2) ->
  exists e' : env,
    exec (callD GoFns.ftab fuel (S d)) fuel GoMatMulShapeP.mm_c1 e = ONormal e' /\
    lookup e' "shape" = Some (nats (Api.mmShape (Data.targetBroadcastDims d1 d2) d1)) /\
    lookup e' "ct1.dims" = Some (nats d1) /\
    lookup e' "ct2.dims" = Some (nats d2) /\
    lookup e' "lt" = Some (VI (Z.of_nat (Datatypes.length (Data.targetBroadcastDims d1 d2)))) /\
    lookup e' "l1" = Some (VI (Z.of_nat (Datatypes.length d1))) /\
    lookup e' "l2" = Some (VI (Z.of_nat (Datatypes.length d2))) /\
    (forall x : string, x <> "shape" -> x <> "lt" -> x <> "l1" -> x <> "l2" -> lookup e' x = lookup e x).
Proof. exact @GoMatMulShapeP.go_broadcastForMatMul_first_shape. Qed.
Print Assumptions broadcastForMatMul_first_target_shape.

Theorem broadcastForMatMul_second_target_shape :
  forall (call : string -> list val -> outcome) (fuel : nat) (d1 d2 : list nat) (e : env),
  2 <= Datatypes.length d1 ->
  2 <= Datatypes.length d2 ->
  lookup e "ct2.dims" = Some (nats d2) ->
  lookup e "shape" = Some (nats (Api.mmShape (Data.targetBroadcastDims d1 d2) d1)) ->
  lookup e "lt" = Some (VI (Z.of_nat (Datatypes.length (Data.targetBroadcastDims d1 d2)))) ->
  lookup e "l2" = Some (VI (Z.of_nat (Datatypes.length d2))) ->
  exists e' : env,
    exec call fuel GoMatMulShapeP.mm_c2 e = ONormal e' /\
    lookup e' "shape" = Some (nats (Api.mmShape (Data.targetBroadcastDims d1 d2) d2)) /\
    (forall x : string, x <> "shape" -> lookup e' x = lookup e x).
Proof. exact @GoMatMulShapeP.go_broadcastForMatMul_second_shape. Qed.
Print Assumptions broadcastForMatMul_second_target_shape.

Theorem dataAt_program_is_dataAt :
  forall (A : Type) (SA : Scalar A) (fapp : string -> list A -> option A) (St : Type)
    (ext : string -> list dval -> St -> option (list dval * St))
    (callL : string -> list dval -> St -> denv -> cres St) (fuel : nat) (ds : dval) 
    (x : nd A) (idx : list nat) (s : St),
  match dataAt x idx with
  | Some y =>
      exists g l : denv,
        dexec fapp St ext callL fuel true (dbody (pmain GoData.d_dataAt)) s
          [("t.dims", ds); ("t.data", emb x); ("index", dnats idx)] [] = DRet St [emb y] s g l
  | None =>
      dexec fapp St ext callL fuel true (dbody (pmain GoData.d_dataAt)) s
        [("t.dims", ds); ("t.data", emb x); ("index", dnats idx)] [] = DPanic St
  end.
Proof. exact @DataAtP.data_dataAt. Qed.
Print Assumptions dataAt_program_is_dataAt.

Theorem transpose_wrapper_is_transpose :
  forall (A : Type) (SA : Scalar A) (fapp : string -> list A -> option A) (red : Data.reducer)
    (fuel depth : nat) (ds : list nat) (x : nd A),
  2 <= Datatypes.length ds ->
  DataWrapP.returns
    (drun fapp unit (DataExt.dext red) GoWrap.w_transpose fuel depth [dnats ds; emb x] tt)
    (Data.transpose {| dims := ds; data := x |}).
Proof. exact @DataWrapP.w_transpose_run. Qed.
Print Assumptions transpose_wrapper_is_transpose.

Theorem transpose_wrapper_panics_below_rank_2 :
  forall (A : Type) (SA : Scalar A) (fapp : string -> list A -> option A) (red : Data.reducer)
    (fuel depth : nat) (ds : list nat) (x : nd A),
  Datatypes.length ds < 2 ->
  drun fapp unit (DataExt.dext red) GoWrap.w_transpose fuel depth [dnats ds; emb x] tt = DPanic unit.
Proof. exact @DataWrapP.w_transpose_outside. Qed.
Print Assumptions transpose_wrapper_panics_below_rank_2.

Theorem dot_wrapper_is_dot :
  forall (A : Type) (SA : Scalar A) (fapp : string -> list A -> option A) (red : Data.reducer)
    (fuel depth : nat) (d1 : list nat) (x1 : nd A) (d2 : list nat) (x2 : nd A),
  1 <= Datatypes.length d1 ->
  DataWrapP.returns
    (drun fapp unit (DataExt.dext red) GoWrap.w_dot fuel depth [dnats d1; emb x1; dnats d2; emb x2] tt)
    (Data.dot {| dims := d1; data := x1 |} {| dims := d2; data := x2 |}).
Proof. exact @DataWrapP.w_dot_run. Qed.
Print Assumptions dot_wrapper_is_dot.

Theorem matMul_wrapper_is_matMul :
  forall (A : Type) (SA : Scalar A) (fapp : string -> list A -> option A) (red : Data.reducer)
    (fuel depth : nat) (d1 : list nat) (x1 : nd A) (d2 : list nat) (x2 : nd A),
  2 <= Datatypes.length d1 ->
  DataWrapP.returns
    (drun fapp unit (DataExt.dext red) GoWrap.w_matMul fuel depth [dnats d1; emb x1; dnats d2; emb x2]
       tt) (Data.matMul {| dims := d1; data := x1 |} {| dims := d2; data := x2 |}).
Proof. exact @DataWrapP.w_matMul_run. Qed.
Print Assumptions matMul_wrapper_is_matMul.

Theorem eyeMatrix_wrapper_is_eyeMatrix :
  forall (A : Type) (SA : Scalar A) (fapp : string -> list A -> option A) (red : Data.reducer)
    (fuel depth n : nat),
  DataWrapP.returns
    (drun fapp unit (DataExt.dext red) GoWrap.w_eyeMatrix fuel depth [DI (Z.of_nat n)] tt)
    (Data.eyeMatrix n).
Proof. exact @DataWrapP.w_eyeMatrix_run. Qed.
Print Assumptions eyeMatrix_wrapper_is_eyeMatrix.
