(* C14P — syntactic source pin (drift alarm) for the declarations property C14 is anchored in.  Statement only.
   Model/SrcText.v is regenerated from /repo's Go sources on every run (canonical text, comments and white space
   ignored); the theorem holds exactly when each of the 31 pinned declarations (Proofs/SrcPinP.v: keys_C14) is
   token-for-token the text the model was written against.  NOT a semantic statement: a harmless rewrite breaks it
   too; when it breaks the check searches harder for a failing input and names this theorem in the replay.
   Closed under the global context. *)
From Coq Require Import String List Bool.
From Qeep Require Model.SrcText Proofs.SrcPinP.

Theorem anchored_source_is_the_pinned_text :
  SrcPinP.pin_ok SrcText.src_text SrcPinP.expected SrcPinP.keys_C14 = true.
Proof. exact SrcPinP.pins_C14. Qed.
Print Assumptions anchored_source_is_the_pinned_text.
