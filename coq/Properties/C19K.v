(* C19K — source tie BY TRANSLATION for the component layer — Accuracy: Accumulate = acc_accumulate (state update, rejection without change), Result = acc_result, and over ANY sequence of batches the translated program computes the model's accumulated accuracy; composed with the model-level theorems of Properties/C19.v: END TO END, the translated NewAccuracy / Accumulate / Result over any history return matched / total over the accepted calls (0 before any), rejected calls leave no trace, and over the reals the value lies in [0, 1].
   Statements only (proofs: Proofs/Comp*P.v).  Model/GoComp.v is REGENERATED from /repo's Go sources on every run by
   harness/gox (comp.go): the component layer's own logic — input validators, config validators, constructors, the
   scale formulas of the initializers, the Accuracy counters — as loop-free programs of the imperative language of
   Model/DataIR.v.  A tensor.Tensor interface value is nil or a node id of the model's heap; a config pointer is nil or
   the list of its fields; an error is 0 / 1; methods of tensors, float comparisons (parameters fltb / fleb: an
   abstract scalar has no order), int->float conversion and the library functions (tensor.RandU, the forward bodies
   that Properties/*S.v cover) are calls of the oracle Model/CompExt.v, in which SIBLING functions are linked by
   running their own translated programs.  Each theorem says that RUNNING the translated program returns exactly what
   the hand-written model (Model/Components.v) computes, for ALL heaps, arguments, fuel and depth; a returned outcome
   is never a panic.  An edit of one of these Go functions changes GoComp.v and breaks the theorem unless it computes
   the same thing.  Closed under the global context. *)
From Coq Require Import String List ZArith Bool Arith.
From Qeep Require Import Model.Scalar Model.Nd Model.Fill Model.Data Model.Valid Model.Api Model.Grad Model.Backprop Model.Components Model.Consts Model.DataIR Model.HeapExt Model.CompExt.
From Qeep Require Model.GoComp.
From Qeep Require Import Proofs.DataIRP.
From Qeep Require Proofs.CompValidP Proofs.CompAccP Proofs.CompInitP Proofs.CompAccE2EP.
From Coq Require Import List ZArith Bool.
From Qeep Require Import Model.Scalar Model.Nd Model.Data Model.Api Model.Grad Model.Components.
From Coq Require Import Reals.
From Qeep Require Import Proofs.NdP Proofs.ElemP Proofs.CompP Proofs.AccP Spec.RScalar Proofs.CmpRP Proofs.AccRP.
Import ListNotations.
Local Open Scope string_scope.

Theorem NewAccuracy_is_acc_new :
  forall (A : Type) (SA : Scalar A) (fltb fleb : A -> A -> bool)
    (lib : string -> list dval -> heap -> option (list dval * heap)) (fuel depth : nat) 
    (h : heap),
  exists g l : denv,
    drun cfapp heap (cext fltb fleb lib) GoComp.c_Accuracy_NewAccuracy fuel depth [] h =
    DRet heap [DL [DI (Z.of_nat (acc_total acc_new)); DF (acc_correct acc_new)]] h g l.
Proof. exact @CompAccP.NewAccuracy_run. Qed.
Print Assumptions NewAccuracy_is_acc_new.

Theorem Accuracy_validateInputs_is_lossArgs1 :
  forall (A : Type) (SA : Scalar A) (fltb fleb : A -> A -> bool)
    (lib : string -> list dval -> heap -> option (list dval * heap)) (fuel depth : nat) 
    (h : heap) (ct cc : dval) (yp yt : targ),
  CompValidP.targOk h yp ->
  CompValidP.targOk h yt ->
  CompValidP.outcome
    (drun cfapp heap (cext0 fltb fleb lib) GoComp.c_Accuracy_validateInputs fuel depth
       [ct; cc; dtarg yp; dtarg yt] h) = Some ([DI (if lossArgs1 h yp yt then 0%Z else 1%Z)], h).
Proof. exact @CompValidP.Accuracy_validateInputs_spec. Qed.
Print Assumptions Accuracy_validateInputs_is_lossArgs1.

Theorem Accuracy_validateInputs_linked :
  forall (A : Type) (SA : Scalar A) (fltb fleb : A -> A -> bool)
    (lib : string -> list dval -> heap -> option (list dval * heap)) (fuel depth : nat) 
    (h : heap) (tot cor : dval) (yp yt : targ),
  CompAccP.targOk h yp ->
  CompAccP.targOk h yt ->
  exists g l : denv,
    drun cfapp heap (cext0 fltb fleb lib) GoComp.c_Accuracy_validateInputs fuel depth
      [tot; cor; dtarg yp; dtarg yt] h =
    DRet heap [DI match lossArgs1 h yp yt with
                  | Some _ => 0
                  | None => 1
                  end] h g l.
Proof. exact @CompAccP.AccValidate_run0. Qed.
Print Assumptions Accuracy_validateInputs_linked.

Theorem Accumulate_program_is_acc_accumulate :
  forall (A : Type) (SA : Scalar A) (fltb fleb : A -> A -> bool)
    (lib : string -> list dval -> heap -> option (list dval * heap)) (fuel depth : nat) 
    (h : heap) (a : accuracy) (yp yt : targ),
  CompAccP.targOk h yp ->
  CompAccP.targOk h yt ->
  let o :=
    drun cfapp heap (cext fltb fleb lib) GoComp.c_Accuracy_Accumulate fuel depth
      [DI (Z.of_nat (acc_total a)); DF (acc_correct a); dtarg yp; dtarg yt] h in
  let (a', r) := acc_accumulate h a yp yt in
  match r with
  | Ok _ =>
      exists g l : denv,
        o = DRet heap [DI 0] h g l /\
        vlookup g l "c.total" = Some (DI (Z.of_nat (acc_total a'))) /\
        vlookup g l "c.correct" = Some (DF (acc_correct a'))
  | Err =>
      exists g l : denv,
        o = DRet heap [DI 1] h g l /\
        vlookup g l "c.total" = Some (DI (Z.of_nat (acc_total a))) /\
        vlookup g l "c.correct" = Some (DF (acc_correct a))
  | Panic => o = DPanic heap
  end.
Proof. exact @CompAccP.Accumulate_run. Qed.
Print Assumptions Accumulate_program_is_acc_accumulate.

Theorem Result_program_is_acc_result :
  forall (A : Type) (SA : Scalar A) (fltb fleb : A -> A -> bool)
    (lib : string -> list dval -> heap -> option (list dval * heap)) (fuel depth : nat) 
    (h : heap) (a : accuracy),
  exists g l : denv,
    drun cfapp heap (cext fltb fleb lib) GoComp.c_Accuracy_Result fuel depth
      [DI (Z.of_nat (acc_total a)); DF (acc_correct a)] h = DRet heap [DF (acc_result a); DI 0] h g l.
Proof. exact @CompAccP.Result_run. Qed.
Print Assumptions Result_program_is_acc_result.

Theorem one_call_of_the_history :
  forall (A : Type) (SA : Scalar A) (fltb fleb : A -> A -> bool)
    (lib : string -> list dval -> heap -> option (list dval * heap)) (fuel depth : nat) 
    (a : accuracy) (h : heap) (yp yt : targ),
  CompAccP.targOk h yp ->
  CompAccP.targOk h yt ->
  CompAccP.accProg_step fltb fleb lib fuel depth (CompAccP.encAcc a) (h, yp, yt) =
  (let (a', r) := acc_accumulate h a yp yt in
   match r with
   | Ok _ => Some (CompAccP.encAcc a')
   | Err => Some (CompAccP.encAcc a)
   | Panic => None
   end).
Proof. exact @CompAccP.accProg_step_spec. Qed.
Print Assumptions one_call_of_the_history.

Theorem any_sequence_of_calls :
  forall (A : Type) (SA : Scalar A) (fltb fleb : A -> A -> bool)
    (lib : string -> list dval -> heap -> option (list dval * heap)) (fuel depth : nat)
    (bs : list CompAccP.batch),
  Forall CompAccP.batchOk bs ->
  forall a : accuracy,
  CompAccP.accProg_fold fltb fleb lib fuel depth (CompAccP.encAcc a) bs =
  option_map CompAccP.encAcc (CompAccP.acc_fold a bs).
Proof. exact @CompAccP.accProg_fold_spec. Qed.
Print Assumptions any_sequence_of_calls.

Theorem Accuracy_over_any_history_of_batches :
  forall (A : Type) (SA : Scalar A) (fltb fleb : A -> A -> bool)
    (lib : string -> list dval -> heap -> option (list dval * heap)) (fuel depth : nat) 
    (h0 hr : heap) (bs : list CompAccP.batch),
  Forall CompAccP.batchOk bs ->
  CompAccP.accProg_history fltb fleb lib fuel depth h0 bs hr =
  match CompAccP.acc_fold acc_new bs with
  | Some a => Some [DF (acc_result a); DI 0]
  | None => None
  end.
Proof. exact @CompAccP.Accuracy_history. Qed.
Print Assumptions Accuracy_over_any_history_of_batches.

Theorem Accuracy_over_any_history_on_one_heap :
  forall (A : Type) (SA : Scalar A) (fltb fleb : A -> A -> bool)
    (lib : string -> list dval -> heap -> option (list dval * heap)) (fuel depth : nat) 
    (h : heap) (ps : list (targ * targ)),
  Forall (fun p : targ * targ => CompAccP.targOk h (fst p) /\ CompAccP.targOk h (snd p)) ps ->
  let bs := map (fun p : targ * targ => (h, fst p, snd p)) ps in
  forall a : accuracy,
  CompAccP.acc_fold acc_new bs = Some a ->
  CompAccP.accProg_history fltb fleb lib fuel depth h bs h = Some [DF (acc_result a); DI 0].
Proof. exact @CompAccP.Accuracy_history_fixed. Qed.
Print Assumptions Accuracy_over_any_history_on_one_heap.

Theorem model_folds_agree :
  forall (A : Type) (SA : Scalar A) (h : heap) (calls : list (targ * targ)),
  vals_wf h ->
  forall a : accuracy,
  CompAccP.acc_fold a (map (fun c : targ * targ => (h, fst c, snd c)) calls) = Some (acc_run h calls a).
Proof. exact @CompAccE2EP.acc_fold_is_acc_run_any_ids. Qed.
Print Assumptions model_folds_agree.

Theorem translated_source_over_any_history_is_matched_over_total :
  forall (A : Type) (SA : Scalar A) (fltb fleb : A -> A -> bool)
    (lib : string -> list dval -> heap -> option (list dval * heap)) (fuel depth : nat) 
    (h : heap) (calls : list (targ * targ)),
  vals_wf h ->
  Forall (fun c : targ * targ => CompAccP.targOk h (fst c) /\ CompAccP.targOk h (snd c)) calls ->
  let acc := filter (accepted h) calls in
  let total := list_sum (map (call_len h) acc) in
  let matched := fold_left sadd (map (call_matched h) acc) (sconst 0 0) in
  CompAccP.accProg_history fltb fleb lib fuel depth h
    (map (fun c : targ * targ => (h, fst c, snd c)) calls) h =
  Some [DF (if (total =? 0)%nat then sconst 0 0 else sdiv matched (sofnat total)); DI 0].
Proof. exact @CompAccE2EP.source_accuracy_over_any_history. Qed.
Print Assumptions translated_source_over_any_history_is_matched_over_total.

Theorem translated_source_before_any_call_is_0 :
  forall (A : Type) (SA : Scalar A) (fltb fleb : A -> A -> bool)
    (lib : string -> list dval -> heap -> option (list dval * heap)) (fuel depth : nat) 
    (h : heap), CompAccP.accProg_history fltb fleb lib fuel depth h [] h = Some [DF (sconst 0 0); DI 0].
Proof. exact @CompAccE2EP.source_accuracy_before_any_call. Qed.
Print Assumptions translated_source_before_any_call_is_0.

Theorem translated_source_ignores_rejected_calls :
  forall (A : Type) (SA : Scalar A) (fltb fleb : A -> A -> bool)
    (lib : string -> list dval -> heap -> option (list dval * heap)) (fuel depth : nat) 
    (h : heap) (calls : list (targ * targ)),
  vals_wf h ->
  Forall (fun c : targ * targ => CompAccP.targOk h (fst c) /\ CompAccP.targOk h (snd c)) calls ->
  CompAccP.accProg_history fltb fleb lib fuel depth h
    (map (fun c : targ * targ => (h, fst c, snd c)) calls) h =
  CompAccP.accProg_history fltb fleb lib fuel depth h
    (map (fun c : targ * targ => (h, fst c, snd c)) (filter (accepted h) calls)) h.
Proof. exact @CompAccE2EP.source_accuracy_ignores_rejected_calls. Qed.
Print Assumptions translated_source_ignores_rejected_calls.

Theorem translated_source_rejected_call_anywhere :
  forall (A : Type) (SA : Scalar A) (fltb fleb : A -> A -> bool)
    (lib : string -> list dval -> heap -> option (list dval * heap)) (fuel depth : nat) 
    (h : heap) (l1 l2 : list (targ * targ)) (c : targ * targ),
  vals_wf h ->
  Forall (fun c0 : targ * targ => CompAccP.targOk h (fst c0) /\ CompAccP.targOk h (snd c0))
    (l1 ++ c :: l2) ->
  accepted h c = false ->
  CompAccP.accProg_history fltb fleb lib fuel depth h
    (map (fun c0 : targ * targ => (h, fst c0, snd c0)) (l1 ++ c :: l2)) h =
  CompAccP.accProg_history fltb fleb lib fuel depth h
    (map (fun c0 : targ * targ => (h, fst c0, snd c0)) (l1 ++ l2)) h.
Proof. exact @CompAccE2EP.source_accuracy_rejected_call_anywhere. Qed.
Print Assumptions translated_source_rejected_call_anywhere.

Theorem translated_source_result_in_unit_interval :
  forall (thr : R) (draw : bool -> nat -> R) (fltb fleb : R -> R -> bool)
    (lib : string -> list (@dval R) -> @heap R -> option (list (@dval R) * @heap R)) 
    (fuel depth : nat) (h : @heap R) (calls : list (targ * targ)),
  0 <= thr ->
  @vals_wf R h ->
  (forall c : targ * targ, @In (targ * targ) c calls -> @accepted R h c = true -> call_sep thr h c) ->
  @Forall (targ * targ)
    (fun c : targ * targ =>
     @CompAccP.targOk R h (@fst targ targ c) /\ @CompAccP.targOk R h (@snd targ targ c)) calls ->
  exists r : R,
    @CompAccP.accProg_history R (RS thr draw) fltb fleb lib fuel depth h
      (@map (targ * targ) (@heap R * targ * targ)
         (fun c : targ * targ => (h, @fst targ targ c, @snd targ targ c)) calls) h =
    @Some (list (@dval R)) [@DF R r; @DI R 0] /\ 0 <= r <= 1.
Proof. exact @CompAccE2EP.source_accuracy_in_unit_interval. Qed.
Print Assumptions translated_source_result_in_unit_interval.
