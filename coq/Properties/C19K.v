(* C19K — source tie BY TRANSLATION for the component layer — Accuracy: Accumulate = acc_accumulate (state update, rejection without change), Result = acc_result, and over ANY sequence of batches the translated program computes the model's accumulated accuracy.
   Statements only (proofs: Proofs/Comp*P.v).  Model/GoComp.v is REGENERATED from /repo's Go sources on every run by
   harness/gox (comp.go): the component layer's own logic — input validators, config validators, constructors, the
   scale formulas of the initializers, the Accuracy counters — as loop-free programs of the imperative language of
   Model/DataIR.v.  A tensor.Tensor interface value is nil or a node id of the model's heap; a config pointer is nil or
   the list of its fields; an error is 0 / 1; methods of tensors, float comparisons (parameters fltb / fleb: an
   abstract scalar has no order), int->float conversion and the library functions (tensor.RandU, the forward bodies
   that Properties/*S.v cover) are calls of the oracle Model/CompExt.v, in which SIBLING functions are linked by
   running their own translated programs.  Each theorem says that RUNNING the translated program returns exactly what
   the hand-written model (Model/Components.v) computes, for ALL heaps, arguments, fuel and depth; a returned outcome
   is never a panic.  An edit of one of these Go functions changes GoComp.v and breaks the theorem unless it computes
   the same thing.  Closed under the global context. *)
From Coq Require Import String List ZArith Bool Arith.
From Qeep Require Import Model.Scalar Model.Nd Model.Fill Model.Data Model.Valid Model.Api Model.Grad Model.Backprop Model.Components Model.Consts Model.DataIR Model.HeapExt Model.CompExt.
From Qeep Require Model.GoComp.
From Qeep Require Import Proofs.DataIRP.
From Qeep Require Proofs.CompValidP Proofs.CompAccP Proofs.CompInitP.
Import ListNotations.
Local Open Scope string_scope.

Theorem NewAccuracy_is_acc_new :
  forall (A : Type) (SA : Scalar A) (fltb fleb : A -> A -> bool)
    (lib : string -> list dval -> heap -> option (list dval * heap)) (fuel depth : nat) 
    (h : heap),
  exists g l : denv,
    drun cfapp heap (cext fltb fleb lib) GoComp.c_Accuracy_NewAccuracy fuel depth [] h =
    DRet heap [DL [DI (Z.of_nat (acc_total acc_new)); DF (acc_correct acc_new)]] h g l.
Proof. exact @CompAccP.NewAccuracy_run. Qed.
Print Assumptions NewAccuracy_is_acc_new.

Theorem Accuracy_validateInputs_is_lossArgs1 :
  forall (A : Type) (SA : Scalar A) (fltb fleb : A -> A -> bool)
    (lib : string -> list dval -> heap -> option (list dval * heap)) (fuel depth : nat) 
    (h : heap) (ct cc : dval) (yp yt : targ),
  CompValidP.targOk h yp ->
  CompValidP.targOk h yt ->
  CompValidP.outcome
    (drun cfapp heap (cext0 fltb fleb lib) GoComp.c_Accuracy_validateInputs fuel depth
       [ct; cc; dtarg yp; dtarg yt] h) = Some ([DI (if lossArgs1 h yp yt then 0%Z else 1%Z)], h).
Proof. exact @CompValidP.Accuracy_validateInputs_spec. Qed.
Print Assumptions Accuracy_validateInputs_is_lossArgs1.

Theorem Accuracy_validateInputs_linked :
  forall (A : Type) (SA : Scalar A) (fltb fleb : A -> A -> bool)
    (lib : string -> list dval -> heap -> option (list dval * heap)) (fuel depth : nat) 
    (h : heap) (tot cor : dval) (yp yt : targ),
  CompAccP.targOk h yp ->
  CompAccP.targOk h yt ->
  exists g l : denv,
    drun cfapp heap (cext0 fltb fleb lib) GoComp.c_Accuracy_validateInputs fuel depth
      [tot; cor; dtarg yp; dtarg yt] h =
    DRet heap [DI match lossArgs1 h yp yt with
                  | Some _ => 0
                  | None => 1
                  end] h g l.
Proof. exact @CompAccP.AccValidate_run0. Qed.
Print Assumptions Accuracy_validateInputs_linked.

Theorem Accumulate_program_is_acc_accumulate :
  forall (A : Type) (SA : Scalar A) (fltb fleb : A -> A -> bool)
    (lib : string -> list dval -> heap -> option (list dval * heap)) (fuel depth : nat) 
    (h : heap) (a : accuracy) (yp yt : targ),
  CompAccP.targOk h yp ->
  CompAccP.targOk h yt ->
  let o :=
    drun cfapp heap (cext fltb fleb lib) GoComp.c_Accuracy_Accumulate fuel depth
      [DI (Z.of_nat (acc_total a)); DF (acc_correct a); dtarg yp; dtarg yt] h in
  let (a', r) := acc_accumulate h a yp yt in
  match r with
  | Ok _ =>
      exists g l : denv,
        o = DRet heap [DI 0] h g l /\
        vlookup g l "c.total" = Some (DI (Z.of_nat (acc_total a'))) /\
        vlookup g l "c.correct" = Some (DF (acc_correct a'))
  | Err =>
      exists g l : denv,
        o = DRet heap [DI 1] h g l /\
        vlookup g l "c.total" = Some (DI (Z.of_nat (acc_total a))) /\
        vlookup g l "c.correct" = Some (DF (acc_correct a))
  | Panic => o = DPanic heap
  end.
Proof. exact @CompAccP.Accumulate_run. Qed.
Print Assumptions Accumulate_program_is_acc_accumulate.

Theorem Result_program_is_acc_result :
  forall (A : Type) (SA : Scalar A) (fltb fleb : A -> A -> bool)
    (lib : string -> list dval -> heap -> option (list dval * heap)) (fuel depth : nat) 
    (h : heap) (a : accuracy),
  exists g l : denv,
    drun cfapp heap (cext fltb fleb lib) GoComp.c_Accuracy_Result fuel depth
      [DI (Z.of_nat (acc_total a)); DF (acc_correct a)] h = DRet heap [DF (acc_result a); DI 0] h g l.
Proof. exact @CompAccP.Result_run. Qed.
Print Assumptions Result_program_is_acc_result.

Theorem one_call_of_the_history :
  forall (A : Type) (SA : Scalar A) (fltb fleb : A -> A -> bool)
    (lib : string -> list dval -> heap -> option (list dval * heap)) (fuel depth : nat) 
    (a : accuracy) (h : heap) (yp yt : targ),
  CompAccP.targOk h yp ->
  CompAccP.targOk h yt ->
  CompAccP.accProg_step fltb fleb lib fuel depth (CompAccP.encAcc a) (h, yp, yt) =
  (let (a', r) := acc_accumulate h a yp yt in
   match r with
   | Ok _ => Some (CompAccP.encAcc a')
   | Err => Some (CompAccP.encAcc a)
   | Panic => None
   end).
Proof. exact @CompAccP.accProg_step_spec. Qed.
Print Assumptions one_call_of_the_history.

Theorem any_sequence_of_calls :
  forall (A : Type) (SA : Scalar A) (fltb fleb : A -> A -> bool)
    (lib : string -> list dval -> heap -> option (list dval * heap)) (fuel depth : nat)
    (bs : list CompAccP.batch),
  Forall CompAccP.batchOk bs ->
  forall a : accuracy,
  CompAccP.accProg_fold fltb fleb lib fuel depth (CompAccP.encAcc a) bs =
  option_map CompAccP.encAcc (CompAccP.acc_fold a bs).
Proof. exact @CompAccP.accProg_fold_spec. Qed.
Print Assumptions any_sequence_of_calls.

Theorem Accuracy_over_any_history_of_batches :
  forall (A : Type) (SA : Scalar A) (fltb fleb : A -> A -> bool)
    (lib : string -> list dval -> heap -> option (list dval * heap)) (fuel depth : nat) 
    (h0 hr : heap) (bs : list CompAccP.batch),
  Forall CompAccP.batchOk bs ->
  CompAccP.accProg_history fltb fleb lib fuel depth h0 bs hr =
  match CompAccP.acc_fold acc_new bs with
  | Some a => Some [DF (acc_result a); DI 0]
  | None => None
  end.
Proof. exact @CompAccP.Accuracy_history. Qed.
Print Assumptions Accuracy_over_any_history_of_batches.

Theorem Accuracy_over_any_history_on_one_heap :
  forall (A : Type) (SA : Scalar A) (fltb fleb : A -> A -> bool)
    (lib : string -> list dval -> heap -> option (list dval * heap)) (fuel depth : nat) 
    (h : heap) (ps : list (targ * targ)),
  Forall (fun p : targ * targ => CompAccP.targOk h (fst p) /\ CompAccP.targOk h (snd p)) ps ->
  let bs := map (fun p : targ * targ => (h, fst p, snd p)) ps in
  forall a : accuracy,
  CompAccP.acc_fold acc_new bs = Some a ->
  CompAccP.accProg_history fltb fleb lib fuel depth h bs h = Some [DF (acc_result a); DI 0].
Proof. exact @CompAccP.Accuracy_history_fixed. Qed.
Print Assumptions Accuracy_over_any_history_on_one_heap.
