(* C16 — The FC layer is an affine map per output unit with live, trainable parameters.
   Statements only (proofs: Proofs/FcP.v, FcRP.v; the gradient half: Proofs/GradCompP.v when
   present).  Arbitrary scalar type: for W, B of length O and an input [B, F], Forward returns a
   [B, O] tensor whose element (b, o) IS  ((Σ_d (0 + W[o]*x[b][d])) + B[o])  in the code's
   evaluation order (fcEl); over the reals  W[o] * Σ_d x[b][d] + B[o].  Rows are independent.
   The layer's two parameter cells hold the tensors last written through the Weights()
   pointers: after ANY sequence of replacements the next Forward uses the last tensor written
   into each cell (fc_weights_live, on the scenario interpreter).
   Gradient half (Proofs/GradFcP.v), over the reals: with an arbitrary upstream gradient gy on the
   layer's output, processing the layer's nine nodes (the model's process_node, in the order
   back-propagation visits them) never fails and ADDS to the previous gradients of W, B, x:
     dW[o] = rdc * Σ_b gy[b][o] * Σ_d x[b][d],  dB[o] = rdc * Σ_b gy[b][o],  dx[b][d] = Σ_o gy[b][o] * W[o],
   with rdc = 1 for the summing Broadcast rule the property demands and 1/batch for the pinned
   averaging rule (known finding D2); the factors are the partial derivatives of the formula. *)
From Coq Require Import List ZArith Bool Reals.
From Qeep Require Import Model.Scalar Model.Nd Model.Data Model.Api Model.Grad Model.Components Model.Scenario.
From Qeep Require Import Proofs.NdP Proofs.CompP Proofs.FcP Spec.RScalar Spec.VjpSpec Proofs.FcRP.
From Qeep Require Proofs.GradFcP.
Import ListNotations.

Theorem forward_value :
  forall (A : Type) (SA : Scalar A) (h : heap) (w b x : nat) (name : option nat) 
    (wv bv xv : tensor A) (O0 B F : nat),
  valOf h w = Some wv ->
  valOf h b = Some bv ->
  valOf h x = Some xv ->
  wf wv ->
  wf bv ->
  wf xv ->
  dims wv = [O0] ->
  dims bv = [O0] ->
  dims xv = [B; F] ->
  exists r : tensor A,
    produces h (fc_forward h w b [Some x] name) r name /\
    dims r = [B; O0] /\
    wf r /\
    (forall bi o : nat,
     (bi < B)%nat ->
     (o < O0)%nat ->
     get (data r) [bi; o] =
     Some
       (sadd
          (fold_left sadd
             (map
                (fun d : nat =>
                 sadd s0 (smul (MatMulP.elt (data wv) [o]) (MatMulP.elt (data xv) [bi; d]))) 
                (seq 0 F)) s0) (MatMulP.elt (data bv) [o]))).
Proof. exact @fc_forward_spec. Qed.
Print Assumptions forward_value.

Theorem forward_value_over_reals :
  forall (thr : R) (draw : bool -> nat -> R) (h : @heap R) (w b x : nat) (name : option nat)
    (wv bv xv : tensor R) (O0 B F : nat),
  @valOf R h w = @Some (tensor R) wv ->
  @valOf R h b = @Some (tensor R) bv ->
  @valOf R h x = @Some (tensor R) xv ->
  @wf R wv ->
  @wf R bv ->
  @wf R xv ->
  @dims R wv = [O0] ->
  @dims R bv = [O0] ->
  @dims R xv = [B; F] ->
  exists r : tensor R,
    @produces R h (@fc_forward R (RS thr draw) h w b [@Some nat x] name) r name /\
    @dims R r = [B; O0] /\
    @wf R r /\
    (forall bi o : nat,
     (bi < B)%nat ->
     (o < O0)%nat ->
     exists (Wo Bo : R) (xs : list R),
       @get R (@data R wv) [o] = @Some R Wo /\
       @get R (@data R bv) [o] = @Some R Bo /\
       @map R (option R) (@Some R) xs =
       @map nat (option R) (fun d : nat => @get R (@data R xv) [bi; d]) (seq 0 F) /\
       @get R (@data R r) [bi; o] = @Some R (Wo * ReduceRP.Rsum xs + Bo)).
Proof. exact @fc_forward_spec_R. Qed.
Print Assumptions forward_value_over_reals.

Theorem forward_is_the_value_level_composition :
  forall (A : Type) (SA : Scalar A) (h : heap) (w b x : nat) (name : option nat) (wv bv xv : tensor A),
  valOf h w = Some wv ->
  valOf h b = Some bv ->
  valOf h x = Some xv ->
  length (dims xv) = 2%nat -> tracks h (fc_forward h w b [Some x] name) (fc_val wv bv xv) name.
Proof. exact @fc_forward_tracks. Qed.
Print Assumptions forward_is_the_value_level_composition.

Theorem rows_are_independent :
  forall (A : Type) (SA : Scalar A) (h h' : heap) (w b x w' b' x' : nat) (name name' : option nat)
    (wv bv xv xv' : tensor A) (O B B' F bi bi' : nat),
  valOf h w = Some wv ->
  valOf h b = Some bv ->
  valOf h x = Some xv ->
  valOf h' w' = Some wv ->
  valOf h' b' = Some bv ->
  valOf h' x' = Some xv' ->
  wf wv ->
  wf bv ->
  wf xv ->
  wf xv' ->
  dims wv = [O] ->
  dims bv = [O] ->
  dims xv = [B; F] ->
  dims xv' = [B'; F] ->
  (bi < B)%nat ->
  (bi' < B')%nat ->
  (forall d : nat, (d < F)%nat -> get (data xv) [bi; d] = get (data xv') [bi'; d]) ->
  exists r r' : tensor A,
    produces h (fc_forward h w b [Some x] name) r name /\
    produces h' (fc_forward h' w' b' [Some x'] name') r' name' /\
    (forall o : nat, (o < O)%nat -> get (data r) [bi; o] = get (data r') [bi'; o]).
Proof. exact @fc_forward_rows_independent. Qed.
Print Assumptions rows_are_independent.

Theorem row_formula_depends_only_on_its_row :
  forall (A : Type) (SA : Scalar A) (wv bv xv xv' : tensor A) (F bi bi' : nat),
  (forall d : nat, (d < F)%nat -> get (data xv) [bi; d] = get (data xv') [bi'; d]) ->
  forall o : nat, fcEl wv bv xv F bi o = fcEl wv bv xv' F bi' o.
Proof. exact @fc_rows_independent. Qed.
Print Assumptions row_formula_depends_only_on_its_row.

Theorem wrong_inputs_are_rejected :
  forall (A : Type) (SA : Scalar A) (h : heap) (w b : nat) (xs : list targ) (name : option nat),
  (oneInput xs = None -> fc_forward h w b xs name = (h, Err)) /\
  (forall x : nat, xs = [Some x] -> rankOf h x <> 2%nat -> fc_forward h w b xs name = (h, Err)).
Proof. exact @fc_forward_rejects. Qed.
Print Assumptions wrong_inputs_are_rejected.

Theorem mismatched_bias_is_rejected :
  forall (A : Type) (SA : Scalar A) (h : heap) (w b x : nat) (name : option nat) 
    (wv bv xv : tensor A) (O B F : nat),
  valOf h w = Some wv ->
  valOf h b = Some bv ->
  valOf h x = Some xv ->
  wf wv ->
  wf bv ->
  wf xv ->
  dims wv = [O] ->
  dims xv = [B; F] ->
  ~ BroadcastP.bcompat2 [B; O] (dims bv) -> fc_forward h w b [Some x] name = (h, Err).
Proof. exact @fc_forward_bias_mismatch. Qed.
Print Assumptions mismatched_bias_is_rejected.

Theorem failed_forward_leaves_heap_unchanged :
  forall (A : Type) (SA : Scalar A) (h : heap) (w b : nat) (xs : list targ) (name : option nat),
  (forall id : nat, snd (fc_forward h w b xs name) <> Ok id) -> fst (fc_forward h w b xs name) = h.
Proof. exact @fc_forward_fail_frame. Qed.
Print Assumptions failed_forward_leaves_heap_unchanged.

Theorem forward_never_panics :
  forall (A : Type) (SA : Scalar A) (h : heap) (w b : nat) (xs : list targ) 
    (name : option nat) (wv bv : tensor A),
  (forall (i : nat) (v : tensor A), valOf h i = Some v -> wf v) ->
  valOf h w = Some wv -> valOf h b = Some bv -> snd (fc_forward h w b xs name) <> Panic.
Proof. exact @fc_forward_never_panics. Qed.
Print Assumptions forward_never_panics.

Theorem replacing_a_parameter_through_the_pointer :
  forall (A : Type) (SA : Scalar A) (rd : bred) (sealv : nat -> tensor A -> tensor A)
    (sealg : nat -> option nat -> tensor A -> tensor A) (c_eps c_one_m_eps : A)
    (c_leaky c_sgd_lr dFull dUniL dUniU dNorM dNorS : dec) (c_softmax_dim : Z) 
    (s : state) (fc : nat) (bias : bool) (t : nat) (w b : option nat) (x : nat),
  fcCells s fc = Some (w, b) ->
  lookupT s t = Some x ->
  let s' :=
    fst
      (step rd sealv sealg c_eps c_one_m_eps c_leaky c_sgd_lr dFull dUniL dUniU dNorM dNorS
         c_softmax_dim s (CFCSet fc bias t)) in
  snd
    (step rd sealv sealg c_eps c_one_m_eps c_leaky c_sgd_lr dFull dUniL dUniU dNorM dNorS c_softmax_dim
       s (CFCSet fc bias t)) = ObOk /\
  st_heap s' = st_heap s /\
  st_rng s' = st_rng s /\
  length (st_env s') = S (length (st_env s)) /\
  fcCells s' fc = Some (setCell (w, b) (bias, x)) /\
  (forall j : nat,
   j <> fc -> (j < length (st_env s))%nat -> nth_error (st_env s') j = nth_error (st_env s) j) /\
  (forall j : nat, lookupT s' j = lookupT s j).
Proof. exact @fcset_spec. Qed.
Print Assumptions replacing_a_parameter_through_the_pointer.

Theorem forward_reads_the_cells :
  forall (A : Type) (SA : Scalar A) (rd : bred) (sealv : nat -> tensor A -> tensor A)
    (sealg : nat -> option nat -> tensor A -> tensor A) (c_eps c_one_m_eps : A)
    (c_leaky c_sgd_lr dFull dUniL dUniU dNorM dNorS : dec) (c_softmax_dim : Z) 
    (s : state) (fc w b : nat) (xs : list targ) (args : list (option nat)),
  fcCells s fc = Some (Some w, Some b) ->
  mapM (lookupArg s) xs = Some args ->
  step rd sealv sealg c_eps c_one_m_eps c_leaky c_sgd_lr dFull dUniL dUniU dNorM dNorS c_softmax_dim s
    (CFCForward fc xs) = fin sealv s (fc_forward (st_heap s) w b args (Some (length (st_env s)))).
Proof. exact @step_fcforward. Qed.
Print Assumptions forward_reads_the_cells.

Theorem forward_uses_last_written_parameters :
  forall (A : Type) (SA : Scalar A) (rd : bred) (sealv : nat -> tensor A -> tensor A)
    (sealg : nat -> option nat -> tensor A -> tensor A) (c_eps c_one_m_eps : A)
    (c_leaky c_sgd_lr dFull dUniL dUniU dNorM dNorS : dec) (c_softmax_dim : Z)
    (l : list (bool * (nat * nat))) (s : state) (fc : nat) (w0 b0 : option nat) 
    (w b : nat) (xs : list targ) (args : list (option nat)),
  fcCells s fc = Some (w0, b0) ->
  Forall (fun q : bool * (nat * nat) => lookupT s (fst (snd q)) = Some (snd (snd q))) l ->
  let cmds := map (fun q : bool * (nat * nat) => CFCSet fc (fst q) (fst (snd q))) l in
  let rl := map (fun q : bool * (nat * nat) => (fst q, snd (snd q))) l in
  let s' :=
    steps rd sealv sealg c_eps c_one_m_eps c_leaky c_sgd_lr dFull dUniL dUniU dNorM dNorS c_softmax_dim
      s cmds in
  lastOf false rl w0 = Some w ->
  lastOf true rl b0 = Some b ->
  mapM (lookupArg s) xs = Some args ->
  st_heap s' = st_heap s /\
  step rd sealv sealg c_eps c_one_m_eps c_leaky c_sgd_lr dFull dUniL dUniU dNorM dNorS c_softmax_dim s'
    (CFCForward fc xs) =
  fin sealv s' (fc_forward (st_heap s) w b args (Some (length (st_env s) + length l)%nat)).
Proof. exact @fc_weights_live. Qed.
Print Assumptions forward_uses_last_written_parameters.

Theorem backward_delivers_the_three_gradients :
  forall (thr : R) (draw : bool -> nat -> R) (rd : bred) (h : @heap R) (w b x : nat) 
    (name : option nat) (wv bv xv : tensor R) (O0 B F : nat) (h1 : @heap R) 
    (y : nat) (hh : @heap R) (log : list (nat * tensor R)) (gy : tensor R),
  @valOf R h w = @Some (tensor R) wv ->
  @valOf R h b = @Some (tensor R) bv ->
  @valOf R h x = @Some (tensor R) xv ->
  @wf R wv ->
  @wf R bv ->
  @wf R xv ->
  @dims R wv = [O0] ->
  @dims R bv = [O0] ->
  @dims R xv = [B; F] ->
  @trackedOf R h w = true ->
  @dirtyOf R h w = false ->
  @trackedOf R h b = true ->
  @dirtyOf R h b = false ->
  @dirtyOf R h x = false ->
  w <> b ->
  @fc_forward R (R_scalar thr draw) h w b [@Some nat x] name = (h1, @Ok nat y) ->
  @BackpropP.sameS R h1 hh ->
  @gradOf R hh y = @Some (tensor R) gy ->
  @wf R gy ->
  @dims R gy = [B; O0] ->
  (forall i : nat, (@length (@node R) h <= i < y)%nat -> @gradOf R hh i = @None (tensor R)) ->
  GradFcP.okPrior (@gradOf R hh w) [O0] ->
  GradFcP.okPrior (@gradOf R hh b) [O0] ->
  GradFcP.okPrior (@gradOf R hh x) [B; F] ->
  y = (@length (@node R) h + 8)%nat /\
  @length (@node R) h1 = (@length (@node R) h + 9)%nat /\
  (exists (hh' : @heap R) (log' : list (nat * tensor R)),
     @fold_left (@heap R * list (nat * tensor R) * res unit) nat
       (@Backprop.process_node R (R_scalar thr draw) rd (fun (_ : option nat) (g : tensor R) => g))
       (@rev nat (seq (@length (@node R) h) 9)) (hh, log, @Ok unit tt) = (hh', log', @Ok unit tt) /\
     @BackpropP.sameS R hh hh' /\
     (forall k : nat,
      (k < @length (@node R) h)%nat -> k <> w -> k <> b -> k <> x -> @gradOf R hh' k = @gradOf R hh k) /\
     (exists gw : tensor R,
        @gradOf R hh' w = @Some (tensor R) gw /\
        @dims R gw = [O0] /\
        @wf R gw /\
        (forall o : nat,
         (o < O0)%nat ->
         elt gw [o] =
         GradFcP.prior (@gradOf R hh w) [o] +
         VjpGatherP.rdc rd B *
         GradFcP.SumN B
           (fun bi : nat => elt gy [bi; o] * GradFcP.SumN F (fun d : nat => elt xv [bi; d])))) /\
     (exists gb : tensor R,
        @gradOf R hh' b = @Some (tensor R) gb /\
        @dims R gb = [O0] /\
        @wf R gb /\
        (forall o : nat,
         (o < O0)%nat ->
         elt gb [o] =
         GradFcP.prior (@gradOf R hh b) [o] +
         VjpGatherP.rdc rd B * GradFcP.SumN B (fun bi : nat => elt gy [bi; o]))) /\
     (if @trackedOf R h x
      then
       exists gx : tensor R,
         @gradOf R hh' x = @Some (tensor R) gx /\
         @dims R gx = [B; F] /\
         @wf R gx /\
         (forall bi d : nat,
          (bi < B)%nat ->
          (d < F)%nat ->
          elt gx [bi; d] =
          GradFcP.prior (@gradOf R hh x) [bi; d] +
          GradFcP.SumN O0 (fun o : nat => elt gy [bi; o] * elt wv [o]))
      else @gradOf R hh' x = @gradOf R hh x)).
Proof. exact @GradFcP.fc_backward. Qed.
Print Assumptions backward_delivers_the_three_gradients.

Theorem graph_built_by_forward :
  forall (A : Type) (SA : Scalar A) (h : @heap A) (w b x : nat) (name : option nat)
    (wv bv xv : tensor A) (h1 : @heap A) (y : nat),
  @valOf A h w = @Some (tensor A) wv ->
  @valOf A h b = @Some (tensor A) bv ->
  @valOf A h x = @Some (tensor A) xv ->
  @trackedOf A h w = true ->
  @dirtyOf A h w = false ->
  @trackedOf A h b = true ->
  @dirtyOf A h b = false ->
  @dirtyOf A h x = false ->
  @fc_forward A SA h w b [@Some nat x] name = (h1, @Ok nat y) ->
  exists w1v x1v bwv bxv y1v y2v by2v bbv yv : tensor A,
    @v_unsqueeze A wv 1 = @Ok (tensor A) w1v /\
    @v_unsqueeze A xv 1 = @Ok (tensor A) x1v /\
    @v_broadcast A w1v
      (@map nat Z Z.of_nat (mmShape (targetBroadcastDims (@dims A w1v) (@dims A x1v)) (@dims A w1v))) =
    @Ok (tensor A) bwv /\
    @v_broadcast A x1v
      (@map nat Z Z.of_nat (mmShape (targetBroadcastDims (@dims A w1v) (@dims A x1v)) (@dims A x1v))) =
    @Ok (tensor A) bxv /\
    @matMul A SA bwv bxv = @Some (tensor A) y1v /\
    @v_reduceAlong A SA RdSum y1v 2 = @Ok (tensor A) y2v /\
    @v_broadcast A y2v (@map nat Z Z.of_nat (targetBroadcastDims (@dims A y2v) (@dims A bv))) =
    @Ok (tensor A) by2v /\
    @v_broadcast A bv (@map nat Z Z.of_nat (targetBroadcastDims (@dims A y2v) (@dims A bv))) =
    @Ok (tensor A) bbv /\
    @apply2 A (@binaryF A SA BiAdd) by2v bbv = @Some (tensor A) yv /\
    y = S (S (S (S (S (S (S (S (@length (@node A) h)))))))) /\
    h1 = @GradFcP.fc_heap A h w b x (@trackedOf A h x) w1v x1v bwv bxv y1v y2v by2v bbv yv name.
Proof. exact @GradFcP.fc_structure. Qed.
Print Assumptions graph_built_by_forward.

Theorem factor_is_partial_derivative_wrt_W :
  forall (W Bs : nat -> R) (X : nat -> nat -> R) (F bi o : nat),
  @Derive.is_derive Hierarchy.R_AbsRing Hierarchy.R_NormedModule
    (fun t : Hierarchy.AbsRing.sort Hierarchy.R_AbsRing =>
     GradFcP.fcY (fun o' : nat => if o' =? o then t else W o') Bs X F bi o) 
    (W o) (GradFcP.SumN F (fun d : nat => X bi d)).
Proof. exact @GradFcP.fcY_dW. Qed.
Print Assumptions factor_is_partial_derivative_wrt_W.

Theorem factor_is_partial_derivative_wrt_B :
  forall (W Bs : nat -> R) (X : nat -> nat -> R) (F bi o : nat),
  @Derive.is_derive Hierarchy.R_AbsRing Hierarchy.R_NormedModule
    (fun t : Hierarchy.AbsRing.sort Hierarchy.R_AbsRing =>
     GradFcP.fcY W (fun o' : nat => if o' =? o then t else Bs o') X F bi o) 
    (Bs o) 1.
Proof. exact @GradFcP.fcY_dB. Qed.
Print Assumptions factor_is_partial_derivative_wrt_B.

Theorem factor_is_partial_derivative_wrt_x :
  forall (W Bs : nat -> R) (X : nat -> nat -> R) (F bi o d : nat),
  (d < F)%nat ->
  @Derive.is_derive Hierarchy.R_AbsRing Hierarchy.R_NormedModule
    (fun t : Hierarchy.AbsRing.sort Hierarchy.R_AbsRing =>
     GradFcP.fcY W Bs (fun b' d' : nat => if (b' =? bi) && (d' =? d) then X b' d' + t else X b' d') F bi
       o) 0 (W o).
Proof. exact @GradFcP.fcY_dX. Qed.
Print Assumptions factor_is_partial_derivative_wrt_x.

(* ---- Appendix added in the second build session: the FC gradients in ANY graph (Proofs/GradChainFcP.v).  H extends the layer's heap by any later operations, r is any tracked root above the output y, no outside node has a back edge to the eight internal nodes: after bp_topo from r the FINAL gradients of W, B, x are prior + contributions of their consumers outside the layer + the dW/dB/dx formulas on y's FINAL gradient.  The layer's nodes are NOT a contiguous block of the order (instance): the lifting goes through the adjoint equations of C01 instead ---- *)
From Qeep Require Import Model.Backprop Proofs.BackpropP.
From Qeep Require Proofs.GradChainP Proofs.GradChainFcP.
Theorem fc_gradients_in_any_graph :
  forall (thr : R) (draw : bool -> nat -> R) (rd : bred) (h h1 H H' : @heap R) 
    (w b x : nat) (name : option nat) (wv bv xv : tensor R) (O B F y r : nat)
    (log : list (nat * tensor R)) (gy : tensor R),
  @valOf R h w = @Some (tensor R) wv ->
  @valOf R h b = @Some (tensor R) bv ->
  @valOf R h x = @Some (tensor R) xv ->
  @wf R wv ->
  @wf R bv ->
  @wf R xv ->
  @dims R wv = [O] ->
  @dims R bv = [O] ->
  @dims R xv = [B; F] ->
  @trackedOf R h w = true ->
  @dirtyOf R h w = false ->
  @trackedOf R h b = true ->
  @dirtyOf R h b = false ->
  @dirtyOf R h x = false ->
  w <> b ->
  @fc_forward R (R_scalar thr draw) h w b [@Some nat x] name = (h1, @Ok nat y) ->
  let n := @length (@node R) h in
  let ints :=
    [n; S n; S (S n); S (S (S n)); S (S (S (S n))); S (S (S (S (S n)))); S (S (S (S (S (S n)))));
     S (S (S (S (S (S (S n))))))] in
  @GradChainP.prefS R h1 H ->
  @rules_own R H ->
  @wf_heap R H ->
  @GradChainP.no_outside_edge R H y ints ->
  @In nat y (@topoOrder R H r) ->
  (forall c : nat, @In nat c ints -> @gradOf R H c = @None (tensor R)) ->
  GradActP.prior_ok [O] (@gradOf R H w) ->
  GradActP.prior_ok [O] (@gradOf R H b) ->
  GradActP.prior_ok [B; F] (@gradOf R H x) ->
  @bp_topo R (R_scalar thr draw) rd (fun (_ : option nat) (g : tensor R) => g) H r =
  (H', log, @Ok unit tt) ->
  @gradOf R H' y = @Some (tensor R) gy ->
  @wf R gy ->
  @dims R gy = [B; O] ->
  let out := @GradChainP.outsideOf R H r y ints in
  (forall g : tensor R,
   @In (tensor R) g (@contributions R (R_scalar thr draw) rd H' H out w) -> @wf R g /\ @dims R g = [O]) ->
  (forall g : tensor R,
   @In (tensor R) g (@contributions R (R_scalar thr draw) rd H' H out b) -> @wf R g /\ @dims R g = [O]) ->
  (forall g : tensor R,
   @In (tensor R) g (@contributions R (R_scalar thr draw) rd H' H out x) ->
   @wf R g /\ @dims R g = [B; F]) ->
  y = S (S (S (S (S (S (S (S n))))))) /\
  (exists gw : tensor R,
     @gradOf R H' w = @Some (tensor R) gw /\
     @dims R gw = [O] /\
     @wf R gw /\
     (forall o : nat,
      (o < O)%nat ->
      elt gw [o] =
      GradActP.prior (@gradOf R H w) [o] +
      GradChainP.sumC (@contributions R (R_scalar thr draw) rd H' H out w) [o] +
      VjpGatherP.rdc rd B *
      GradFcP.SumN B (fun bi : nat => elt gy [bi; o] * GradFcP.SumN F (fun d : nat => elt xv [bi; d])))) /\
  (exists gb : tensor R,
     @gradOf R H' b = @Some (tensor R) gb /\
     @dims R gb = [O] /\
     @wf R gb /\
     (forall o : nat,
      (o < O)%nat ->
      elt gb [o] =
      GradActP.prior (@gradOf R H b) [o] +
      GradChainP.sumC (@contributions R (R_scalar thr draw) rd H' H out b) [o] +
      VjpGatherP.rdc rd B * GradFcP.SumN B (fun bi : nat => elt gy [bi; o]))) /\
  (@trackedOf R h x = true ->
   exists gx : tensor R,
     @gradOf R H' x = @Some (tensor R) gx /\
     @dims R gx = [B; F] /\
     @wf R gx /\
     (forall bi d : nat,
      (bi < B)%nat ->
      (d < F)%nat ->
      elt gx [bi; d] =
      GradActP.prior (@gradOf R H x) [bi; d] +
      GradChainP.sumC (@contributions R (R_scalar thr draw) rd H' H out x) [bi; d] +
      GradFcP.SumN O (fun o : nat => elt gy [bi; o] * elt wv [o]))).
Proof. exact @GradChainFcP.fc_backward_in_graph. Qed.
Print Assumptions fc_gradients_in_any_graph.

Theorem fc_nodes_are_not_a_block_instance :
  forall draw : bool -> nat -> R,
  @topoOrder R (GradChainFcP.GradChainFcExamples.fh1 draw) 11 =
  [11%nat; 10%nat; 1%nat; 9%nat; 8%nat; 7%nat; 6%nat; 4%nat; 2%nat; 5%nat; 3%nat; 0%nat] /\
  ~
  (exists pre post : list nat,
     @topoOrder R (GradChainFcP.GradChainFcExamples.fh1 draw) 11 = pre ++ @rev nat (seq 3 9) ++ post).
Proof. exact @GradChainFcP.GradChainFcExamples.fc_order_ex. Qed.
Print Assumptions fc_nodes_are_not_a_block_instance.

Theorem fc_in_graph_instance :
  forall draw : bool -> nat -> R,
  @topoOrder R (GradChainFcP.GradChainFcExamples.fH draw) 13 =
  [13%nat; 12%nat; 11%nat; 1%nat; 10%nat; 9%nat; 8%nat; 7%nat; 5%nat; 3%nat; 2%nat; 6%nat; 4%nat; 0%nat] /\
  (exists (H' : @heap R) (log : list (nat * tensor R)) (gy gw gb gx : tensor R),
     @bp_topo R (R_scalar 0 draw) RedSum (fun (_ : option nat) (g : tensor R) => g)
       (GradChainFcP.GradChainFcExamples.fH draw) 13 = (H', log, @Ok unit tt) /\
     @gradOf R H' 12 = @Some (tensor R) gy /\
     @gradOf R H' 0 = @Some (tensor R) gw /\
     @gradOf R H' 1 = @Some (tensor R) gb /\
     @gradOf R H' 3 = @Some (tensor R) gx /\
     (forall bi o : nat, (bi < 2)%nat -> (o < 2)%nat -> elt gy [bi; o] = 3) /\
     elt gw [0%nat] = 90 /\
     elt gw [1%nat] = 90 /\
     elt gb [0%nat] = 6 /\
     elt gb [1%nat] = 6 /\ elt gx [0%nat; 0%nat] = 15 /\ elt gx [1%nat; 1%nat] = 15).
Proof. exact @GradChainFcP.GradChainFcExamples.fc_in_graph_ex. Qed.
Print Assumptions fc_in_graph_instance.
