(* C07 — The gradient of a broadcast operand is the sum over its expanded copies.
   Statements only (proofs: Proofs/VjpGatherP.v, BroadcastP.v, ArithP.v, MatMulP.v).  Over the reals.
   [vjp_broadcast_sum]: for EVERY source shape and broadcast target (new leading dimensions,
   expanded size-1 dimensions, both, factor 1), with the rule the property demands (RedSum):
   the rule never fails, the gradient has the operand's own shape, and its element i is
   Σ_j [bproj j = i] gy_j — the sum of the upstream gradient over all positions the operand
   element was copied to — i.e. the vector-Jacobian product of the broadcast.
   [broadcast_avg_char] characterises the PINNED library (RedAvg, known finding D2): the same
   sum divided by the expansion factor; [broadcast_avg_refuted]: on [2] -> [3,2] with all-ones
   upstream gradient RedSum gives [3,3] (a VJP) and RedAvg gives [1,1] (not a VJP).
   Implicit broadcasting inside Add/Sub/Mul/Div/Dot/MatMul goes through the same Broadcast
   node and hence the same rule: [h_arith_track]/[h_binop] (Proofs/TrackP.v) show that each
   operand reaches the operation through a Broadcast node whose only back edge is RBroadcast. *)
From Coq Require Import List ZArith Bool Reals.
From Qeep Require Import Model.Scalar Model.Nd Model.Data Model.Api Model.Grad.
From Qeep Require Import Proofs.NdP Proofs.BroadcastP Spec.RScalar Spec.VjpSpec Proofs.VjpGatherP Proofs.TrackP.
Import ListNotations.

Theorem broadcast_gradient_is_sum_over_copies :
  forall (thr : R) (draw : bool -> nat -> R) (h : @heap R) (y x : nat) (xv yv gy : tensor R),
  @valOf R h x = @Some (tensor R) xv ->
  @valOf R h y = @Some (tensor R) yv ->
  @gradOf R h y = @Some (tensor R) gy ->
  @wf R gy ->
  @dims R gy = @dims R yv ->
  bcompat (@dims R xv) (@dims R yv) ->
  exists g : tensor R,
    @eval_rule R (RS thr draw) RedSum h (@RBroadcast R y x) = @Ok (tensor R) g /\
    @dims R g = @dims R xv /\
    @wf R g /\
    (forall i : list nat,
     validIdx (@dims R xv) i ->
     elt g i =
     sumIdx (@dims R yv)
       (fun j : list nat => if idx_eqb (bproj (@dims R xv) (@dims R yv) j) i then elt gy j else 0)) /\
    is_vjp (@dims R xv) (@dims R yv)
      (fun (a : assignment) (j : list nat) => a (bproj (@dims R xv) (@dims R yv) j)) 
      (elt xv) (elt gy) (elt g).
Proof. exact @vjp_broadcast_sum. Qed.
Print Assumptions broadcast_gradient_is_sum_over_copies.

Theorem broadcast_rule_closed_form_both_variants :
  forall (thr : R) (draw : bool -> nat -> R) (rd : bred) (gy : tensor R) (src shape : list nat),
  @wf R gy ->
  @dims R gy = shape ->
  bcompat src shape ->
  exists g : tensor R,
    @bcastBack R (RS thr draw) rd gy src shape = @Ok (tensor R) g /\
    @dims R g = src /\
    @wf R g /\
    (forall i : list nat,
     validIdx src i ->
     elt g i =
     bfac rd src shape *
     sumIdx shape (fun j : list nat => if idx_eqb (bproj src shape j) i then elt gy j else 0)).
Proof. exact @bcastBack_char. Qed.
Print Assumptions broadcast_rule_closed_form_both_variants.

Theorem pinned_average_variant_characterised :
  forall (thr : R) (draw : bool -> nat -> R) (h : @heap R) (y x : nat) (xv yv gy : tensor R),
  @valOf R h x = @Some (tensor R) xv ->
  @valOf R h y = @Some (tensor R) yv ->
  @gradOf R h y = @Some (tensor R) gy ->
  @wf R gy ->
  @dims R gy = @dims R yv ->
  bcompat (@dims R xv) (@dims R yv) ->
  exists g : tensor R,
    @eval_rule R (RS thr draw) RedAvg h (@RBroadcast R y x) = @Ok (tensor R) g /\
    @dims R g = @dims R xv /\
    @wf R g /\
    (forall i : list nat,
     validIdx (@dims R xv) i ->
     elt g i =
     sumIdx (@dims R yv)
       (fun j : list nat => if idx_eqb (bproj (@dims R xv) (@dims R yv) j) i then elt gy j else 0) /
     INR (prodn (@dims R yv) / prodn (@dims R xv))).
Proof. exact @broadcast_avg_char. Qed.
Print Assumptions pinned_average_variant_characterised.

Theorem pinned_average_variant_is_not_the_vjp :
  forall (thr : R) (draw : bool -> nat -> R),
  exists gs ga : tensor R,
    @eval_rule R (RS thr draw) RedSum bh0 (@RBroadcast R 1 0) = @Ok (tensor R) gs /\
    @eval_rule R (RS thr draw) RedAvg bh0 (@RBroadcast R 1 0) = @Ok (tensor R) ga /\
    elt gs [0%nat] = 3 /\
    elt gs [1%nat] = 3 /\
    elt ga [0%nat] = 1 /\
    elt ga [1%nat] = 1 /\
    is_vjp [2%nat] [3%nat; 2%nat]
      (fun (a : assignment) (j : list nat) => a (bproj [2%nat] [3%nat; 2%nat] j)) 
      (elt bx0) (elt bg0) (elt gs) /\
    ~
    is_vjp [2%nat] [3%nat; 2%nat]
      (fun (a : assignment) (j : list nat) => a (bproj [2%nat] [3%nat; 2%nat] j)) 
      (elt bx0) (elt bg0) (elt ga).
Proof. exact @broadcast_avg_refuted. Qed.
Print Assumptions pinned_average_variant_is_not_the_vjp.

Theorem average_is_vjp_only_if_factor_one :
  forall (thr : R) (draw : bool -> nat -> R) (h : @heap R) (y x : nat) (xv yv gy ga : tensor R),
  @valOf R h x = @Some (tensor R) xv ->
  @valOf R h y = @Some (tensor R) yv ->
  @gradOf R h y = @Some (tensor R) gy ->
  @wf R gy ->
  @dims R gy = @dims R yv ->
  bcompat (@dims R xv) (@dims R yv) ->
  @eval_rule R (RS thr draw) RedAvg h (@RBroadcast R y x) = @Ok (tensor R) ga ->
  is_vjp (@dims R xv) (@dims R yv)
    (fun (a : assignment) (j : list nat) => a (bproj (@dims R xv) (@dims R yv) j)) 
    (elt xv) (elt gy) (elt ga) ->
  forall i : list nat,
  validIdx (@dims R xv) i ->
  let S :=
    sumIdx (@dims R yv)
      (fun j : list nat => if idx_eqb (bproj (@dims R xv) (@dims R yv) j) i then elt gy j else 0) in
  S = S / INR (prodn (@dims R yv) / prodn (@dims R xv)).
Proof. exact @broadcast_avg_vjp_only_if. Qed.
Print Assumptions average_is_vjp_only_if_factor_one.

Theorem broadcast_rule_after_accepted_forward_call :
  forall (thr : R) (draw : bool -> nat -> R) (h : @heap R) (y x : nat) (shape : list Z)
    (xv yv gy : tensor R),
  @valOf R h x = @Some (tensor R) xv ->
  @valOf R h y = @Some (tensor R) yv ->
  @gradOf R h y = @Some (tensor R) gy ->
  @wf R xv ->
  @v_broadcast R xv shape = @Ok (tensor R) yv ->
  @wf R gy ->
  @dims R gy = @dims R yv ->
  (forall j : list nat, validIdx (@dims R yv) j -> elt yv j = elt xv (bproj (@dims R xv) (@dims R yv) j)) /\
  (exists g : tensor R,
     @eval_rule R (RS thr draw) RedSum h (@RBroadcast R y x) = @Ok (tensor R) g /\
     @dims R g = @dims R xv /\
     @wf R g /\
     is_vjp (@dims R xv) (@dims R yv)
       (fun (a : assignment) (j : list nat) => a (bproj (@dims R xv) (@dims R yv) j)) 
       (elt xv) (elt gy) (elt g)) /\
  (exists g : tensor R,
     @eval_rule R (RS thr draw) RedAvg h (@RBroadcast R y x) = @Ok (tensor R) g /\
     @dims R g = @dims R xv /\
     @wf R g /\
     (forall i : list nat,
      validIdx (@dims R xv) i ->
      elt g i =
      sumIdx (@dims R yv)
        (fun j : list nat => if idx_eqb (bproj (@dims R xv) (@dims R yv) j) i then elt gy j else 0) /
      INR (prodn (@dims R yv) / prodn (@dims R xv)))).
Proof. exact @vjp_broadcast_fwd. Qed.
Print Assumptions broadcast_rule_after_accepted_forward_call.

Theorem implicit_broadcast_goes_through_broadcast_nodes :
  forall (A : Type) (h : heap) (x u : nat) (s1 s2 : list Z)
    (f : tensor A -> tensor A -> option (tensor A)) (edges : nat -> nat -> nat -> list (nat * rule))
    (name : option nat) (h' : heap) (id : nat),
  (x < length h)%nat ->
  (u < length h)%nat ->
  (forall (y a1 a2 : nat) (e : nat * rule), In e (edges y a1 a2) -> fst e = a1 \/ fst e = a2) ->
  h_binop h x u s1 s2 f edges name = (h', Ok id) ->
  exists n b1 b2 : node,
    nth_error h' id = Some n /\
    ctx_rule h [x; u] n /\
    nname n = name /\
    id = S (S (length h)) /\
    nth_error h' (length h) = Some b1 /\
    nth_error h' (S (length h)) = Some b2 /\
    ctx_rule h [x] b1 /\
    ctx_rule h [u] b2 /\
    nname b1 = None /\
    nname b2 = None /\
    (ntracked b1 = true -> nedges b1 = [(x, RBroadcast (length h) x)]) /\
    (ntracked b2 = true -> nedges b2 = [(u, RBroadcast (S (length h)) u)]) /\
    (exists xv uv : tensor A,
       valOf h x = Some xv /\
       valOf h u = Some uv /\
       v_broadcast xv s1 = Ok (nval b1) /\
       v_broadcast uv s2 = Ok (nval b2) /\ f (nval b1) (nval b2) = Some (nval n)) /\
    (ntracked n = true -> nedges n = edges id (length h) (S (length h))) /\
    Forall (fun e : nat * rule => (fst e < id)%nat) (nedges n).
Proof. exact @h_binop_track. Qed.
Print Assumptions implicit_broadcast_goes_through_broadcast_nodes.

Theorem arithmetic_operands_reach_through_broadcast :
  forall (A : Type) (SA : Scalar A) (h : heap) (b : binary) (x u : nat) (name : option nat) 
    (h' : heap) (id : nat),
  h_arith h b x u name = (h', Ok id) ->
  exists n : node,
    nth_error h' id = Some n /\
    ctx_rule h [x; u] n /\
    nname n = name /\
    id = S (S (length h)) /\
    (exists xv uv : tensor A,
       valOf h x = Some xv /\ valOf h u = Some uv /\ v_arith b xv uv = Ok (nval n)) /\
    (ntracked n = true -> nedges n = arithEdges b id (length h) (S (length h))) /\
    Forall (fun e : nat * rule => (fst e < id)%nat) (nedges n).
Proof. exact @h_arith_track. Qed.
Print Assumptions arithmetic_operands_reach_through_broadcast.
