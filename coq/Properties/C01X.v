(* C01X — the chain rule at the remaining node kinds (third session).  Statements only (proofs: Proofs/TotalDeriv3P.v).
   Properties/C01.v proves that reverse accumulation yields the total derivative on any DAG provided the chain rule
   holds at every node, and discharges that step for affine, element-wise unary, product/quotient and bilinear nodes.
   Here the step is discharged for the rest: ElMax / ElMin strictly away from ties (and refuted AT a tie: no pair of
   partials exists), Pow (base > 0, or natural exponent >= 1, or exponent 0), VarAlong, StdAlong (non-zero variance),
   MaxAlong / MinAlong (unique strict extremum in each fibre), with [chain_hyp_of_nodes3] assembling whole graphs and
   concrete graphs taken through bp_topo to the derivative ([elmax_gradient], [cube_gradient], [var_gradient], ...).
   Axioms: the standard library's real-number axioms only. *)
From Coq Require Import List Arith ZArith Bool Reals Lra Lia.
From Coquelicot Require Import Coquelicot.
From Qeep Require Import Model.Scalar Model.Nd Model.Fill Model.Data Model.Valid Model.Api Model.Grad Model.Backprop.
From Qeep Require Import Spec.RScalar Spec.ScalarDeriv Spec.VjpSpec.
From Qeep Require Import Proofs.NdP Proofs.ElemP Proofs.ArithP Proofs.BackpropP Proofs.VjpGatherP Proofs.VjpElemP Proofs.TotalDerivP Proofs.TotalDeriv2P Proofs.TotalDeriv3P.
From Qeep Require Proofs.ReduceP Proofs.ReduceRP Proofs.VjpReduceP.
Import ListNotations.

Theorem curve_diff2_max_tie_refuted :
  forall a d1 d2 : R, ~ curve_diff2 Rmax a a d1 d2.
Proof. exact @TotalDeriv3P.curve_diff2_max_tie_refuted. Qed.
Print Assumptions curve_diff2_max_tie_refuted.

Theorem curve_diff2_min_tie_refuted :
  forall a d1 d2 : R, ~ curve_diff2 Rmin a a d1 d2.
Proof. exact @TotalDeriv3P.curve_diff2_min_tie_refuted. Qed.
Print Assumptions curve_diff2_min_tie_refuted.

Theorem chain_node_elmax :
  forall (h : heap) (D : nat -> nat * rule -> list nat -> list nat -> R) (val : R -> nat -> assignment)
    (dm : nat -> assignment) (n : nat) (e1 e2 : nat * rule),
  edgesOf h n = [e1; e2] ->
  dimsOf h (fst e1) = dimsOf h n ->
  dimsOf h (fst e2) = dimsOf h n ->
  (forall i j : list nat,
   D n e1 i j = (if idx_eqb i j then selgt (val 0 (fst e1) j) (val 0 (fst e2) j) else 0)) ->
  (forall i j : list nat,
   D n e2 i j = (if idx_eqb i j then selgt (val 0 (fst e2) j) (val 0 (fst e1) j) else 0)) ->
  (forall (t : R) (j : list nat),
   validIdx (dimsOf h n) j -> val t n j = Rmax (val t (fst e1) j) (val t (fst e2) j)) ->
  (forall j : list nat, validIdx (dimsOf h n) j -> val 0 (fst e1) j <> val 0 (fst e2) j) ->
  (trackedOf h (fst e1) = false -> frozen h val (fst e1)) ->
  (trackedOf h (fst e2) = false -> frozen h val (fst e2)) ->
  ops_diff h val dm n ->
  forall j : list nat,
  validIdx (dimsOf h n) j -> is_derive (fun t : R_AbsRing => val t n j) 0 (Jt h D dm n j).
Proof. exact @TotalDeriv3P.chain_node_elmax. Qed.
Print Assumptions chain_node_elmax.

Theorem chain_node_elmin :
  forall (h : heap) (D : nat -> nat * rule -> list nat -> list nat -> R) (val : R -> nat -> assignment)
    (dm : nat -> assignment) (n : nat) (e1 e2 : nat * rule),
  edgesOf h n = [e1; e2] ->
  dimsOf h (fst e1) = dimsOf h n ->
  dimsOf h (fst e2) = dimsOf h n ->
  (forall i j : list nat,
   D n e1 i j = (if idx_eqb i j then selgt (val 0 (fst e2) j) (val 0 (fst e1) j) else 0)) ->
  (forall i j : list nat,
   D n e2 i j = (if idx_eqb i j then selgt (val 0 (fst e1) j) (val 0 (fst e2) j) else 0)) ->
  (forall (t : R) (j : list nat),
   validIdx (dimsOf h n) j -> val t n j = Rmin (val t (fst e1) j) (val t (fst e2) j)) ->
  (forall j : list nat, validIdx (dimsOf h n) j -> val 0 (fst e1) j <> val 0 (fst e2) j) ->
  (trackedOf h (fst e1) = false -> frozen h val (fst e1)) ->
  (trackedOf h (fst e2) = false -> frozen h val (fst e2)) ->
  ops_diff h val dm n ->
  forall j : list nat,
  validIdx (dimsOf h n) j -> is_derive (fun t : R_AbsRing => val t n j) 0 (Jt h D dm n j).
Proof. exact @TotalDeriv3P.chain_node_elmin. Qed.
Print Assumptions chain_node_elmin.

Theorem chain_node_pow_pos :
  forall (h : heap) (D : nat -> nat * rule -> list nat -> list nat -> R) (val : R -> nat -> assignment)
    (dm : nat -> assignment) (n : nat) (e : nat * rule) (a : R),
  edgesOf h n = [e] ->
  trackedOf h (fst e) = true ->
  dimsOf h (fst e) = dimsOf h n ->
  (forall i j : list nat, D n e i j = (if idx_eqb i j then a * Rpow (val 0 (fst e) j) (a - 1) else 0)) ->
  (forall (t : R) (j : list nat), validIdx (dimsOf h n) j -> val t n j = Rpow (val t (fst e) j) a) ->
  (forall j : list nat, validIdx (dimsOf h n) j -> 0 < val 0 (fst e) j) ->
  ops_diff h val dm n ->
  forall j : list nat,
  validIdx (dimsOf h n) j -> is_derive (fun t : R_AbsRing => val t n j) 0 (Jt h D dm n j).
Proof. exact @TotalDeriv3P.chain_node_pow_pos. Qed.
Print Assumptions chain_node_pow_pos.

Theorem chain_node_pow_nat :
  forall (h : heap) (D : nat -> nat * rule -> list nat -> list nat -> R) (val : R -> nat -> assignment)
    (dm : nat -> assignment) (n : nat) (e : nat * rule) (a : R) (k : nat),
  a = INR k ->
  (1 <= k)%nat ->
  edgesOf h n = [e] ->
  trackedOf h (fst e) = true ->
  dimsOf h (fst e) = dimsOf h n ->
  (forall i j : list nat, D n e i j = (if idx_eqb i j then a * Rpow (val 0 (fst e) j) (a - 1) else 0)) ->
  (forall (t : R) (j : list nat), validIdx (dimsOf h n) j -> val t n j = Rpow (val t (fst e) j) a) ->
  ops_diff h val dm n ->
  forall j : list nat,
  validIdx (dimsOf h n) j -> is_derive (fun t : R_AbsRing => val t n j) 0 (Jt h D dm n j).
Proof. exact @TotalDeriv3P.chain_node_pow_nat. Qed.
Print Assumptions chain_node_pow_nat.

Theorem chain_node_pow_zero :
  forall (h : heap) (D : nat -> nat * rule -> list nat -> list nat -> R) (val : R -> nat -> assignment)
    (dm : nat -> assignment) (n : nat) (e : nat * rule),
  edgesOf h n = [e] ->
  trackedOf h (fst e) = true ->
  dimsOf h (fst e) = dimsOf h n ->
  (forall i j : list nat, D n e i j = 0) ->
  (forall (t : R) (j : list nat), validIdx (dimsOf h n) j -> val t n j = Rpow (val t (fst e) j) 0) ->
  ops_diff h val dm n ->
  forall j : list nat,
  validIdx (dimsOf h n) j -> is_derive (fun t : R_AbsRing => val t n j) 0 (Jt h D dm n j).
Proof. exact @TotalDeriv3P.chain_node_pow_zero. Qed.
Print Assumptions chain_node_pow_zero.

Theorem chain_node_fibrewise :
  forall (h : heap) (D : nat -> nat * rule -> list nat -> list nat -> R) (val : R -> nat -> assignment)
    (dm : nat -> assignment) (n : nat) (e : nat * rule) (N : nat) (s : list nat -> nat -> list nat)
    (phi : list nat -> (nat -> R) -> R) (c : list nat -> nat -> R),
  edgesOf h n = [e] ->
  trackedOf h (fst e) = true ->
  (forall (j : list nat) (k : nat),
   validIdx (dimsOf h n) j -> (k < N)%nat -> validIdx (dimsOf h (fst e)) (s j k)) ->
  (forall i j : list nat,
   validIdx (dimsOf h (fst e)) i ->
   validIdx (dimsOf h n) j -> D n e i j = sumN N (fun k : nat => if idx_eqb i (s j k) then c j k else 0)) ->
  (forall (t : R) (j : list nat),
   validIdx (dimsOf h n) j -> val t n j = phi j (fun k : nat => val t (fst e) (s j k))) ->
  (forall j : list nat,
   validIdx (dimsOf h n) j -> curve_diffN N (phi j) (fun k : nat => val 0 (fst e) (s j k)) (c j)) ->
  ops_diff h val dm n ->
  forall j : list nat,
  validIdx (dimsOf h n) j -> is_derive (fun t : R_AbsRing => val t n j) 0 (Jt h D dm n j).
Proof. exact @TotalDeriv3P.chain_node_fibrewise. Qed.
Print Assumptions chain_node_fibrewise.

Theorem chain_node_varAlong :
  forall (h : heap) (D : nat -> nat * rule -> list nat -> list nat -> R) (val : R -> nat -> assignment)
    (dm : nat -> assignment) (n : nat) (e : nat * rule) (dim : nat),
  edgesOf h n = [e] ->
  trackedOf h (fst e) = true ->
  (dim < length (dimsOf h (fst e)))%nat ->
  dimsOf h n = RP.del dim (dimsOf h (fst e)) ->
  (forall i j : list nat,
   validIdx (dimsOf h (fst e)) i ->
   validIdx (dimsOf h n) j ->
   D n e i j =
   (if idx_eqb (RP.del dim i) j
    then
     if nth dim (dimsOf h (fst e)) 0%nat =? 1
     then 0
     else
      2 / INR (nth dim (dimsOf h (fst e)) 0%nat - 1) *
      (val 0 (fst e) i -
       VR.meanN (nth dim (dimsOf h (fst e)) 0%nat) (VR.fib (val 0 (fst e)) dim (RP.del dim i)))
    else 0)) ->
  (forall (t : R) (j : list nat),
   validIdx (dimsOf h n) j ->
   val t n j = VR.varN (nth dim (dimsOf h (fst e)) 0%nat) (VR.fib (val t (fst e)) dim j)) ->
  ops_diff h val dm n ->
  forall j : list nat,
  validIdx (dimsOf h n) j -> is_derive (fun t : R_AbsRing => val t n j) 0 (Jt h D dm n j).
Proof. exact @TotalDeriv3P.chain_node_varAlong. Qed.
Print Assumptions chain_node_varAlong.

Theorem chain_node_stdAlong :
  forall (h : heap) (D : nat -> nat * rule -> list nat -> list nat -> R) (val : R -> nat -> assignment)
    (dm : nat -> assignment) (n : nat) (e : nat * rule) (dim : nat),
  edgesOf h n = [e] ->
  trackedOf h (fst e) = true ->
  (dim < length (dimsOf h (fst e)))%nat ->
  dimsOf h n = RP.del dim (dimsOf h (fst e)) ->
  (forall i j : list nat,
   validIdx (dimsOf h (fst e)) i ->
   validIdx (dimsOf h n) j ->
   D n e i j =
   (if idx_eqb (RP.del dim i) j
    then
     if nth dim (dimsOf h (fst e)) 0%nat =? 1
     then 0
     else
      1 / INR (nth dim (dimsOf h (fst e)) 0%nat - 1) *
      ((val 0 (fst e) i -
        VR.meanN (nth dim (dimsOf h (fst e)) 0%nat) (VR.fib (val 0 (fst e)) dim (RP.del dim i))) /
       val 0 n (RP.del dim i))
    else 0)) ->
  (forall (t : R) (j : list nat),
   validIdx (dimsOf h n) j ->
   val t n j = sqrt (VR.varN (nth dim (dimsOf h (fst e)) 0%nat) (VR.fib (val t (fst e)) dim j))) ->
  ((1 < nth dim (dimsOf h (fst e)) 0)%nat ->
   forall j : list nat,
   validIdx (dimsOf h n) j ->
   0 < VR.varN (nth dim (dimsOf h (fst e)) 0%nat) (VR.fib (val 0 (fst e)) dim j)) ->
  ops_diff h val dm n ->
  forall j : list nat,
  validIdx (dimsOf h n) j -> is_derive (fun t : R_AbsRing => val t n j) 0 (Jt h D dm n j).
Proof. exact @TotalDeriv3P.chain_node_stdAlong. Qed.
Print Assumptions chain_node_stdAlong.

Theorem chain_node_extAlong :
  forall (h : heap) (D : nat -> nat * rule -> list nat -> list nat -> R) (val : R -> nat -> assignment)
    (dm : nat -> assignment) (n : nat) (e : nat * rule) (dim : nat) (sg : R) 
    (M : (nat -> R) -> R) (ks : list nat -> nat),
  sg = 1 \/ sg = -1 ->
  VR.is_ext sg (nth dim (dimsOf h (fst e)) 0%nat) M ->
  edgesOf h n = [e] ->
  trackedOf h (fst e) = true ->
  (dim < length (dimsOf h (fst e)))%nat ->
  dimsOf h n = RP.del dim (dimsOf h (fst e)) ->
  (forall i j : list nat,
   validIdx (dimsOf h (fst e)) i ->
   validIdx (dimsOf h n) j ->
   D n e i j =
   (if idx_eqb (RP.del dim i) j then if nth dim i 0%nat =? ks (RP.del dim i) then 1 else 0 else 0)) ->
  (forall (t : R) (j : list nat),
   validIdx (dimsOf h n) j -> val t n j = M (VR.fib (val t (fst e)) dim j)) ->
  (forall j : list nat,
   validIdx (dimsOf h n) j ->
   (ks j < nth dim (dimsOf h (fst e)) 0)%nat /\
   (forall k : nat,
    (k < nth dim (dimsOf h (fst e)) 0)%nat ->
    k <> ks j -> sg * val 0 (fst e) (RP.ins dim k j) < sg * val 0 (fst e) (RP.ins dim (ks j) j))) ->
  ops_diff h val dm n ->
  forall j : list nat,
  validIdx (dimsOf h n) j -> is_derive (fun t : R_AbsRing => val t n j) 0 (Jt h D dm n j).
Proof. exact @TotalDeriv3P.chain_node_extAlong. Qed.
Print Assumptions chain_node_extAlong.

Theorem chain_hyp_of_nodes3 :
  forall (h : heap) (D : nat -> nat * rule -> list nat -> list nat -> R) (val : R -> nat -> assignment)
    (root x : nat) (dl : assignment),
  (forall n : nat, In n (topoOrder h root) -> (x < n)%nat -> node_ok3 h D val n) ->
  chain_hyp h root D x dl val.
Proof. exact @TotalDeriv3P.chain_hyp_of_nodes3. Qed.
Print Assumptions chain_hyp_of_nodes3.

Theorem elmax_gradient :
  forall (thr : R) (draw : bool -> nat -> R) (rd : bred) (x0 x1 c0 c1 : R),
  0 <= thr ->
  thr < Rabs (x0 - c0) ->
  thr < Rabs (x1 - c1) ->
  exists (h' : @heap R) (lg : list (nat * tensor R)) (gx : tensor R),
    @bp_topo R (R_scalar thr draw) rd TotalDeriv3Example.ids (TotalDeriv3Example.hX x0 x1 c0 c1) 2 =
    (h', lg, @Ok unit tt) /\
    @gradOf R h' 0 = @Some (tensor R) gx /\
    elt gx [0%nat] = selgt x0 c0 /\
    elt gx [1%nat] = selgt x1 c1 /\
    (forall dl : assignment,
     @is_derive R_AbsRing R_NormedModule
       (fun t : R_AbsRing => Rmax (x0 + t * dl [0%nat]) c0 + Rmax (x1 + t * dl [1%nat]) c1) 0
       (elt gx [0%nat] * dl [0%nat] + elt gx [1%nat] * dl [1%nat])).
Proof. exact @TotalDeriv3P.TotalDeriv3Example.elmax_gradient. Qed.
Print Assumptions elmax_gradient.

Theorem pow_gradient :
  forall (thr : R) (draw : bool -> nat -> R) (rd : bred) (x0 x1 a : R),
  0 < x0 /\ 0 < x1 \/ (exists k : nat, a = INR k /\ (1 <= k)%nat) ->
  exists (h' : @heap R) (lg : list (nat * tensor R)) (gx : tensor R),
    @bp_topo R (R_scalar thr draw) rd TotalDeriv3Example.ids (TotalDeriv3Example.hP x0 x1 a) 1 =
    (h', lg, @Ok unit tt) /\
    @gradOf R h' 0 = @Some (tensor R) gx /\
    elt gx [0%nat] = a * Rpow x0 (a - 1) /\
    elt gx [1%nat] = a * Rpow x1 (a - 1) /\
    (forall dl : assignment,
     @is_derive R_AbsRing R_NormedModule
       (fun t : R_AbsRing => Rpow (x0 + t * dl [0%nat]) a + Rpow (x1 + t * dl [1%nat]) a) 0
       (elt gx [0%nat] * dl [0%nat] + elt gx [1%nat] * dl [1%nat])).
Proof. exact @TotalDeriv3P.TotalDeriv3Example.pow_gradient. Qed.
Print Assumptions pow_gradient.

Theorem cube_gradient :
  forall (thr : R) (draw : bool -> nat -> R) (rd : bred) (x0 x1 : R),
  exists (h' : @heap R) (lg : list (nat * tensor R)) (gx : tensor R),
    @bp_topo R (R_scalar thr draw) rd TotalDeriv3Example.ids (TotalDeriv3Example.hP x0 x1 3) 1 =
    (h', lg, @Ok unit tt) /\
    @gradOf R h' 0 = @Some (tensor R) gx /\
    elt gx [0%nat] = 3 * x0 ^ 2 /\
    elt gx [1%nat] = 3 * x1 ^ 2 /\
    (forall dl : assignment,
     @is_derive R_AbsRing R_NormedModule
       (fun t : R_AbsRing => (x0 + t * dl [0%nat]) ^ 3 + (x1 + t * dl [1%nat]) ^ 3) 0
       (elt gx [0%nat] * dl [0%nat] + elt gx [1%nat] * dl [1%nat])).
Proof. exact @TotalDeriv3P.TotalDeriv3Example.cube_gradient. Qed.
Print Assumptions cube_gradient.

Theorem rpower_gradient :
  forall (thr : R) (draw : bool -> nat -> R) (rd : bred) (x0 x1 a : R),
  0 < x0 ->
  0 < x1 ->
  exists (h' : @heap R) (lg : list (nat * tensor R)) (gx : tensor R),
    @bp_topo R (R_scalar thr draw) rd TotalDeriv3Example.ids (TotalDeriv3Example.hP x0 x1 a) 1 =
    (h', lg, @Ok unit tt) /\
    @gradOf R h' 0 = @Some (tensor R) gx /\
    elt gx [0%nat] = a * Rpower x0 (a - 1) /\
    elt gx [1%nat] = a * Rpower x1 (a - 1) /\
    (forall dl : assignment,
     @is_derive R_AbsRing R_NormedModule
       (fun t : R_AbsRing => Rpow (x0 + t * dl [0%nat]) a + Rpow (x1 + t * dl [1%nat]) a) 0
       (elt gx [0%nat] * dl [0%nat] + elt gx [1%nat] * dl [1%nat])).
Proof. exact @TotalDeriv3P.TotalDeriv3Example.rpower_gradient. Qed.
Print Assumptions rpower_gradient.

Theorem var_gradient :
  forall (thr : R) (draw : bool -> nat -> R) (rd : bred) (x0 x1 : R),
  exists (h' : @heap R) (lg : list (nat * tensor R)) (gx : tensor R),
    @bp_topo R (R_scalar thr draw) rd TotalDeriv3Example.ids (TotalDeriv3Example.hV thr draw x0 x1) 1 =
    (h', lg, @Ok unit tt) /\
    @gradOf R h' 0 = @Some (tensor R) gx /\
    elt gx [0%nat] = x0 - x1 /\
    elt gx [1%nat] = x1 - x0 /\
    (forall dl : assignment,
     @is_derive R_AbsRing R_NormedModule
       (fun t : R_AbsRing => (x0 + t * dl [0%nat] - (x1 + t * dl [1%nat])) ^ 2 / 2) 0
       (elt gx [0%nat] * dl [0%nat] + elt gx [1%nat] * dl [1%nat])).
Proof. exact @TotalDeriv3P.TotalDeriv3Example.var_gradient. Qed.
Print Assumptions var_gradient.

Theorem maxalong_gradient :
  forall (thr : R) (draw : bool -> nat -> R) (rd : bred) (x0 x1 : R),
  0 <= thr ->
  thr < x0 - x1 ->
  0 <= x0 ->
  exists (h' : @heap R) (lg : list (nat * tensor R)) (gx : tensor R),
    @bp_topo R (R_scalar thr draw) rd TotalDeriv3Example.ids (TotalDeriv3Example.hA thr draw x0 x1) 1 =
    (h', lg, @Ok unit tt) /\
    @gradOf R h' 0 = @Some (tensor R) gx /\
    elt gx [0%nat] = 1 /\
    elt gx [1%nat] = 0 /\
    (forall dl : assignment,
     @is_derive R_AbsRing R_NormedModule
       (fun t : R_AbsRing => Rmax (x0 + t * dl [0%nat]) (x1 + t * dl [1%nat])) 0
       (elt gx [0%nat] * dl [0%nat] + elt gx [1%nat] * dl [1%nat])).
Proof. exact @TotalDeriv3P.TotalDeriv3Example.maxalong_gradient. Qed.
Print Assumptions maxalong_gradient.
