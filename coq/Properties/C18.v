(* C18 — Initializers and random constructors honour shape, support and scale.
   Statements only; proofs are in Proofs/InitP.v, Proofs/InitRP.v.  PARTIAL: that the global
   random source yields independent uniform / standard-normal draws (so that sample moments
   converge) is a property of gonum's generator, outside any model of qeep; here the source is
   an abstract stream [srnd] and the theorems reduce every claim to properties of that stream. *)
From Coq Require Import List ZArith Bool Reals.
From Qeep Require Import Model.Scalar Model.Nd Model.Valid Model.Api Model.Grad Model.Components Model.Consts
     Proofs.NdP Proofs.InitP Proofs.InitRP Spec.RScalar.
Import ListNotations.
Local Open Scope nat_scope.
Local Open Scope bool_scope.

(* every initializer, for every valid configuration and every shape of positive sizes (any rank):
   exactly the requested shape; Full holds the configured constant at every position; the
   uniform family holds  lower + draw(pos+k) * (upper - lower)  and the normal family
   mean + draw(pos+k) * sigma  at row-major position k, with lower/upper/mean/sigma given by
   [init_params] (config values, the nil-config defaults, +-sqrt(6/fan), sqrt(2/fan)) *)
Theorem init_value_shape_and_elements :
  forall (A : Type) (SA : Scalar A) (dFull dUniL dUniU dNorM dNorS : dec) (s : initSpec) (shape : list Z) (pos : nat),
  init_valid dUniL dUniU dNorS s = true ->
  (validateInputDims shape = false -> init_value dFull dUniL dUniU dNorM dNorS s shape pos = Err) /\
  (validateInputDims shape = true ->
     exists t, init_value dFull dUniL dUniU dNorM dNorS s shape pos = Ok t /\
       match s, init_params dUniL dUniU dNorM dNorS s with
       | IFull v, _ => dims t = natsOf shape /\ wf t /\
                       forall idx, validIdx (natsOf shape) idx ->
                         get (data t) idx = Some (dcst (match v with Some d => d | None => dFull end))
       | _, Some (false, lo, hi) => is_uniform_of t shape lo hi pos
       | _, Some (true, mu, sigma) => is_normal_of t shape mu sigma pos
       | _, None => False
       end).
Proof. exact @init_value_spec. Qed.
Print Assumptions init_value_shape_and_elements.

(* the returned tensor is a fresh TRACKED leaf (no gradient, no edges, not spent); nothing else
   in the heap changes; random initializers advance the stream by the number of elements *)
Theorem init_returns_tracked_leaf :
  forall (A : Type) (SA : Scalar A) (dFull dUniL dUniU dNorM dNorS : dec)
         (h : @heap A) (s : initSpec) (shape : list Z) (pos : nat) (name : option nat),
  init_valid dUniL dUniU dNorS s = true -> validateInputDims shape = true ->
  exists t, init_value dFull dUniL dUniU dNorM dNorS s shape pos = Ok t /\
    init_run dFull dUniL dUniU dNorM dNorS h s shape pos name =
      (h ++ [mkNode t true false None [] name], Ok (length h),
       if init_is_random s then pos + prodn (natsOf shape) else pos) /\
    dims t = natsOf shape.
Proof. exact @init_run_spec. Qed.
Print Assumptions init_returns_tracked_leaf.

(* invalid configuration or shape: an error, heap and stream untouched *)
Theorem init_rejects :
  forall (A : Type) (SA : Scalar A) (dFull dUniL dUniU dNorM dNorS : dec)
         (h : @heap A) (s : initSpec) (shape : list Z) (pos : nat) (name : option nat),
  init_valid dUniL dUniU dNorS s = false \/ validateInputDims shape = false ->
  init_run dFull dUniL dUniU dNorM dNorS h s shape pos name = (h, Err, pos).
Proof. exact @init_run_rejects. Qed.
Print Assumptions init_rejects.

(* RandU / RandN *)
Theorem randu_elements :
  forall (A : Type) (SA : Scalar A) (ds : list Z) (l u : A) (lt_ok : bool) (pos : nat),
  v_randu ds l u lt_ok pos =
  if lt_ok && validateInputDims ds
  then Ok (mkT (natsOf ds) (tab (natsOf ds) (fun idx => sadd (smul (srnd false (pos + flatIdx (natsOf ds) idx)) (ssub u l)) l)))
  else Err.
Proof. exact @v_randu_spec. Qed.
Print Assumptions randu_elements.

Theorem randn_elements :
  forall (A : Type) (SA : Scalar A) (ds : list Z) (m s : A) (pos_ok : bool) (pos : nat),
  v_randn ds m s pos_ok pos =
  if pos_ok && validateInputDims ds
  then Ok (mkT (natsOf ds) (tab (natsOf ds) (fun idx => sadd (smul (srnd true (pos + flatIdx (natsOf ds) idx)) s) m)))
  else Err.
Proof. exact @v_randn_spec. Qed.
Print Assumptions randn_elements.

(* freshness / positional independence reduce to the stream: different positions of one call
   and different calls read different draw numbers *)
Theorem draws_are_disjoint :
  forall (p1 : nat) (ds1 ds2 : list nat) (i1 i2 : list nat),
  validIdx ds1 i1 -> validIdx ds2 i2 ->
  let p2 := p1 + prodn ds1 in
  p1 + flatIdx ds1 i1 < p2 /\ p2 <= p2 + flatIdx ds2 i2 /\ p1 + flatIdx ds1 i1 <> p2 + flatIdx ds2 i2.
Proof. exact draws_disjoint. Qed.
Print Assumptions draws_are_disjoint.

Theorem positions_read_distinct_draws :
  forall (ds i1 i2 : list nat), validIdx ds i1 -> validIdx ds i2 -> flatIdx ds i1 = flatIdx ds i2 -> i1 = i2.
Proof. exact flatIdx_inj. Qed.
Print Assumptions positions_read_distinct_draws.

(* over the reals: support of the uniform family, scale formulas, nil-config defaults *)
Theorem uniform_support_is_half_open :
  forall (thr : R) (draw : bool -> nat -> R), (forall k, (0 <= draw false k < 1)%R) ->
  forall (lo hi : R) (k : nat), (lo < hi)%R ->
  (lo <= @sadd R (R_scalar thr draw) (@smul R (R_scalar thr draw) (@srnd R (R_scalar thr draw) false k)
            (@ssub R (R_scalar thr draw) hi lo)) lo < hi)%R.
Proof. exact uniform_support. Qed.
Print Assumptions uniform_support_is_half_open.

Theorem he_xavier_scale_formulas :
  forall (thr : R) (draw : bool -> nat -> R) (fi fo : Z), (0 < fi)%Z -> (0 < fo)%Z ->
  (@sqrtOver R (R_scalar thr draw) 6 fi = sqrt (6 / IZR fi) /\
   @sqrtOver R (R_scalar thr draw) 2 fi = sqrt (2 / IZR fi) /\
   @sqrtOver R (R_scalar thr draw) 6 (fi + fo) = sqrt (6 / (IZR fi + IZR fo)) /\
   @sqrtOver R (R_scalar thr draw) 2 (fi + fo) = sqrt (2 / (IZR fi + IZR fo)))%R.
Proof. exact scale_formulas. Qed.
Print Assumptions he_xavier_scale_formulas.

Theorem nil_config_defaults :
  (dec2R (fst c_full_value) (snd c_full_value) = 0 /\
   dec2R (fst c_uniform_lower) (snd c_uniform_lower) = -0.05 /\
   dec2R (fst c_uniform_upper) (snd c_uniform_upper) = 0.05 /\
   dec2R (fst c_normal_mean) (snd c_normal_mean) = 0 /\
   dec2R (fst c_normal_stddev) (snd c_normal_stddev) = 0.05)%R.
Proof. exact default_constants. Qed.
Print Assumptions nil_config_defaults.
