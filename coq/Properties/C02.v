(* C02 — Each differentiable operation's backward rule is its vector-Jacobian product.
   Statements only (proofs: Proofs/VjpElemP.v; gather/shape ops: VjpGatherP.v; reductions:
   VjpReduceP.v; Dot/MatMul/Transpose/Concat: VjpLinalgP.v — sections are added as those files
   are completed).  Over the reals (R_scalar thr draw).  Reading guide (Spec/VjpSpec.v):
     elt t idx                       element of a tensor as a function of the multi-index;
     is_partial F x i j d            d = ∂F_j/∂x_i at x (Coquelicot is_derive along coordinate i);
     is_vjp dsx dsy F x gy g         for every position i of the operand: g i = Σ_j gy j * ∂F_j/∂x_i.
   Each theorem: the rule, evaluated on a heap in which the consumer y holds the upstream
   gradient gy, returns Ok g (never fails), dims g = the operand's dims, g well formed, and g is
   the VJP of the operation's function at the operand's value, under the stated
   differentiability guard (Log: x > 0; Tan: cos x <> 0; Div: divisor <> 0; Pow: exponent 0
   anywhere, natural exponent anywhere incl. base 0, any real exponent for positive base;
   ElMax/ElMin: away from (threshold) ties; exact ties get half weight: elsel_tie_formula).
   FINDING recorded in known_findings.json (D10): vjp_elmax_near_tie_refuted — for
   0 < |a-b| <= threshold (1e-240) the rule treats the operands as tied and halves the gradient. *)
From Coq Require Import List ZArith Bool Reals.
From Qeep Require Import Model.Scalar Model.Nd Model.Data Model.Api Model.Grad.
From Qeep Require Import Proofs.NdP Proofs.SliceP Proofs.BroadcastP Proofs.ReduceP Spec.RScalar Spec.VjpSpec Proofs.VjpElemP Proofs.VjpGatherP Proofs.VjpReduceP.
From Qeep Require Proofs.VjpLinalgP.
Import ListNotations.

Theorem vjp_scale :
  forall (thr : R) (draw : bool -> nat -> R) (rd : bred) (h : @heap R) (y : nat) 
    (a : R) (xv gy : tensor R),
  @gradOf R h y = @Some (tensor R) gy ->
  @wf R gy ->
  @dims R gy = @dims R xv ->
  exists g : tensor R,
    @eval_rule R (R_scalar thr draw) rd h (@RScale R y a) = @Ok (tensor R) g /\
    @dims R g = @dims R xv /\
    @wf R g /\
    is_vjp (@dims R xv) (@dims R xv) (fun (a' : assignment) (idx : list nat) => a * a' idx) 
      (elt xv) (elt gy) (elt g).
Proof. exact @vjp_scale. Qed.
Print Assumptions vjp_scale.

Theorem vjp_pow_exponent_zero :
  forall (thr : R) (draw : bool -> nat -> R) (rd : bred) (h : @heap R) (y x : nat) (xv gy : tensor R),
  @valOf R h x = @Some (tensor R) xv ->
  @gradOf R h y = @Some (tensor R) gy ->
  @wf R gy ->
  @dims R gy = @dims R xv ->
  exists g : tensor R,
    @eval_rule R (R_scalar thr draw) rd h (@RPow R y x 0 true) = @Ok (tensor R) g /\
    @dims R g = @dims R xv /\
    @wf R g /\
    is_vjp (@dims R xv) (@dims R xv) (fun (a' : assignment) (idx : list nat) => Rpow (a' idx) 0)
      (elt xv) (elt gy) (elt g).
Proof. exact @vjp_pow_zero. Qed.
Print Assumptions vjp_pow_exponent_zero.

Theorem vjp_pow_natural_exponent :
  forall (thr : R) (draw : bool -> nat -> R) (rd : bred) (h : @heap R) (y x n : nat) (xv gy : tensor R),
  @valOf R h x = @Some (tensor R) xv ->
  @gradOf R h y = @Some (tensor R) gy ->
  @wf R xv ->
  @wf R gy ->
  @dims R gy = @dims R xv ->
  (1 <= n)%nat ->
  exists g : tensor R,
    @eval_rule R (R_scalar thr draw) rd h (@RPow R y x (INR n) false) = @Ok (tensor R) g /\
    @dims R g = @dims R xv /\
    @wf R g /\
    is_vjp (@dims R xv) (@dims R xv) (fun (a' : assignment) (idx : list nat) => Rpow (a' idx) (INR n))
      (elt xv) (elt gy) (elt g) /\
    is_vjp (@dims R xv) (@dims R xv) (fun (a' : assignment) (idx : list nat) => a' idx ^ n) 
      (elt xv) (elt gy) (elt g).
Proof. exact @vjp_pow_nat. Qed.
Print Assumptions vjp_pow_natural_exponent.

Theorem vjp_pow_positive_base :
  forall (thr : R) (draw : bool -> nat -> R) (rd : bred) (h : @heap R) (y x : nat) 
    (a : R) (xv gy : tensor R),
  @valOf R h x = @Some (tensor R) xv ->
  @gradOf R h y = @Some (tensor R) gy ->
  @wf R xv ->
  @wf R gy ->
  @dims R gy = @dims R xv ->
  (forall idx : list nat, validIdx (@dims R xv) idx -> 0 < elt xv idx) ->
  exists g : tensor R,
    @eval_rule R (R_scalar thr draw) rd h (@RPow R y x a false) = @Ok (tensor R) g /\
    @dims R g = @dims R xv /\
    @wf R g /\
    is_vjp (@dims R xv) (@dims R xv) (fun (a' : assignment) (idx : list nat) => Rpow (a' idx) a)
      (elt xv) (elt gy) (elt g).
Proof. exact @vjp_pow_pos. Qed.
Print Assumptions vjp_pow_positive_base.

Theorem vjp_exp :
  forall (thr : R) (draw : bool -> nat -> R) (rd : bred) (h : @heap R) (y : nat) (xv yv gy : tensor R),
  @valOf R h y = @Some (tensor R) yv ->
  @gradOf R h y = @Some (tensor R) gy ->
  @wf R yv ->
  @wf R gy ->
  @dims R gy = @dims R xv ->
  @dims R yv = @dims R xv ->
  (forall idx : list nat, validIdx (@dims R xv) idx -> elt yv idx = exp (elt xv idx)) ->
  exists g : tensor R,
    @eval_rule R (R_scalar thr draw) rd h (@RExp R y) = @Ok (tensor R) g /\
    @dims R g = @dims R xv /\
    @wf R g /\
    is_vjp (@dims R xv) (@dims R xv) (fun (a : assignment) (idx : list nat) => exp (a idx)) 
      (elt xv) (elt gy) (elt g).
Proof. exact @vjp_exp. Qed.
Print Assumptions vjp_exp.

Theorem vjp_log :
  forall (thr : R) (draw : bool -> nat -> R) (rd : bred) (h : @heap R) (y x : nat) (xv gy : tensor R),
  @valOf R h x = @Some (tensor R) xv ->
  @gradOf R h y = @Some (tensor R) gy ->
  @wf R xv ->
  @wf R gy ->
  @dims R gy = @dims R xv ->
  (forall idx : list nat, validIdx (@dims R xv) idx -> 0 < elt xv idx) ->
  exists g : tensor R,
    @eval_rule R (R_scalar thr draw) rd h (@RLog R y x) = @Ok (tensor R) g /\
    @dims R g = @dims R xv /\
    @wf R g /\
    is_vjp (@dims R xv) (@dims R xv) (fun (a : assignment) (idx : list nat) => ln (a idx)) 
      (elt xv) (elt gy) (elt g).
Proof. exact @vjp_log. Qed.
Print Assumptions vjp_log.

Theorem vjp_sin :
  forall (thr : R) (draw : bool -> nat -> R) (rd : bred) (h : @heap R) (y x : nat) (xv gy : tensor R),
  @valOf R h x = @Some (tensor R) xv ->
  @gradOf R h y = @Some (tensor R) gy ->
  @wf R xv ->
  @wf R gy ->
  @dims R gy = @dims R xv ->
  exists g : tensor R,
    @eval_rule R (R_scalar thr draw) rd h (@RSin R y x) = @Ok (tensor R) g /\
    @dims R g = @dims R xv /\
    @wf R g /\
    is_vjp (@dims R xv) (@dims R xv) (fun (a : assignment) (idx : list nat) => sin (a idx)) 
      (elt xv) (elt gy) (elt g).
Proof. exact @vjp_sin. Qed.
Print Assumptions vjp_sin.

Theorem vjp_cos :
  forall (thr : R) (draw : bool -> nat -> R) (rd : bred) (h : @heap R) (y x : nat) (xv gy : tensor R),
  @valOf R h x = @Some (tensor R) xv ->
  @gradOf R h y = @Some (tensor R) gy ->
  @wf R xv ->
  @wf R gy ->
  @dims R gy = @dims R xv ->
  exists g : tensor R,
    @eval_rule R (R_scalar thr draw) rd h (@RCos R y x) = @Ok (tensor R) g /\
    @dims R g = @dims R xv /\
    @wf R g /\
    is_vjp (@dims R xv) (@dims R xv) (fun (a : assignment) (idx : list nat) => cos (a idx)) 
      (elt xv) (elt gy) (elt g).
Proof. exact @vjp_cos. Qed.
Print Assumptions vjp_cos.

Theorem vjp_tan :
  forall (thr : R) (draw : bool -> nat -> R) (rd : bred) (h : @heap R) (y x : nat) (xv gy : tensor R),
  @valOf R h x = @Some (tensor R) xv ->
  @gradOf R h y = @Some (tensor R) gy ->
  @wf R xv ->
  @wf R gy ->
  @dims R gy = @dims R xv ->
  (forall idx : list nat, validIdx (@dims R xv) idx -> cos (elt xv idx) <> 0) ->
  exists g : tensor R,
    @eval_rule R (R_scalar thr draw) rd h (@RTan R y x) = @Ok (tensor R) g /\
    @dims R g = @dims R xv /\
    @wf R g /\
    is_vjp (@dims R xv) (@dims R xv) (fun (a : assignment) (idx : list nat) => tan (a idx)) 
      (elt xv) (elt gy) (elt g).
Proof. exact @vjp_tan. Qed.
Print Assumptions vjp_tan.

Theorem vjp_sinh :
  forall (thr : R) (draw : bool -> nat -> R) (rd : bred) (h : @heap R) (y x : nat) (xv gy : tensor R),
  @valOf R h x = @Some (tensor R) xv ->
  @gradOf R h y = @Some (tensor R) gy ->
  @wf R xv ->
  @wf R gy ->
  @dims R gy = @dims R xv ->
  exists g : tensor R,
    @eval_rule R (R_scalar thr draw) rd h (@RSinh R y x) = @Ok (tensor R) g /\
    @dims R g = @dims R xv /\
    @wf R g /\
    is_vjp (@dims R xv) (@dims R xv) (fun (a : assignment) (idx : list nat) => sinh (a idx)) 
      (elt xv) (elt gy) (elt g).
Proof. exact @vjp_sinh. Qed.
Print Assumptions vjp_sinh.

Theorem vjp_cosh :
  forall (thr : R) (draw : bool -> nat -> R) (rd : bred) (h : @heap R) (y x : nat) (xv gy : tensor R),
  @valOf R h x = @Some (tensor R) xv ->
  @gradOf R h y = @Some (tensor R) gy ->
  @wf R xv ->
  @wf R gy ->
  @dims R gy = @dims R xv ->
  exists g : tensor R,
    @eval_rule R (R_scalar thr draw) rd h (@RCosh R y x) = @Ok (tensor R) g /\
    @dims R g = @dims R xv /\
    @wf R g /\
    is_vjp (@dims R xv) (@dims R xv) (fun (a : assignment) (idx : list nat) => cosh (a idx)) 
      (elt xv) (elt gy) (elt g).
Proof. exact @vjp_cosh. Qed.
Print Assumptions vjp_cosh.

Theorem vjp_tanh :
  forall (thr : R) (draw : bool -> nat -> R) (rd : bred) (h : @heap R) (y x : nat) (xv gy : tensor R),
  @valOf R h x = @Some (tensor R) xv ->
  @gradOf R h y = @Some (tensor R) gy ->
  @wf R xv ->
  @wf R gy ->
  @dims R gy = @dims R xv ->
  exists g : tensor R,
    @eval_rule R (R_scalar thr draw) rd h (@RTanh R y x) = @Ok (tensor R) g /\
    @dims R g = @dims R xv /\
    @wf R g /\
    is_vjp (@dims R xv) (@dims R xv) (fun (a : assignment) (idx : list nat) => tanh (a idx)) 
      (elt xv) (elt gy) (elt g).
Proof. exact @vjp_tanh. Qed.
Print Assumptions vjp_tanh.

Theorem vjp_add_sub_first_operands :
  forall (thr : R) (draw : bool -> nat -> R) (rd : bred) (h : @heap R) (y : nat) 
    (xv gy : tensor R) (o : assignment),
  @gradOf R h y = @Some (tensor R) gy ->
  @wf R gy ->
  @dims R gy = @dims R xv ->
  exists g : tensor R,
    @eval_rule R (R_scalar thr draw) rd h (@RId R y) = @Ok (tensor R) g /\
    @dims R g = @dims R xv /\
    @wf R g /\
    is_vjp (@dims R xv) (@dims R xv) (fun (a : assignment) (idx : list nat) => a idx + o idx) 
      (elt xv) (elt gy) (elt g) /\
    is_vjp (@dims R xv) (@dims R xv) (fun (b : assignment) (idx : list nat) => o idx + b idx) 
      (elt xv) (elt gy) (elt g) /\
    is_vjp (@dims R xv) (@dims R xv) (fun (a : assignment) (idx : list nat) => a idx - o idx) 
      (elt xv) (elt gy) (elt g).
Proof. exact @vjp_id. Qed.
Print Assumptions vjp_add_sub_first_operands.

Theorem vjp_sub_second_operand :
  forall (thr : R) (draw : bool -> nat -> R) (rd : bred) (h : @heap R) (y : nat) 
    (xv gy : tensor R) (o : assignment),
  @gradOf R h y = @Some (tensor R) gy ->
  @wf R gy ->
  @dims R gy = @dims R xv ->
  exists g : tensor R,
    @eval_rule R (R_scalar thr draw) rd h (@RNeg R y) = @Ok (tensor R) g /\
    @dims R g = @dims R xv /\
    @wf R g /\
    is_vjp (@dims R xv) (@dims R xv) (fun (b : assignment) (idx : list nat) => o idx - b idx) 
      (elt xv) (elt gy) (elt g).
Proof. exact @vjp_neg. Qed.
Print Assumptions vjp_sub_second_operand.

Theorem vjp_mul :
  forall (thr : R) (draw : bool -> nat -> R) (rd : bred) (h : @heap R) (y o : nat) (xv ov gy : tensor R),
  @valOf R h o = @Some (tensor R) ov ->
  @gradOf R h y = @Some (tensor R) gy ->
  @wf R ov ->
  @wf R gy ->
  @dims R gy = @dims R xv ->
  @dims R ov = @dims R xv ->
  exists g : tensor R,
    @eval_rule R (R_scalar thr draw) rd h (@RMul R y o) = @Ok (tensor R) g /\
    @dims R g = @dims R xv /\
    @wf R g /\
    is_vjp (@dims R xv) (@dims R xv) (fun (a : assignment) (idx : list nat) => a idx * elt ov idx)
      (elt xv) (elt gy) (elt g) /\
    is_vjp (@dims R xv) (@dims R xv) (fun (b : assignment) (idx : list nat) => elt ov idx * b idx)
      (elt xv) (elt gy) (elt g).
Proof. exact @vjp_mul. Qed.
Print Assumptions vjp_mul.

Theorem vjp_div_numerator :
  forall (thr : R) (draw : bool -> nat -> R) (rd : bred) (h : @heap R) (y b : nat) (xv bv gy : tensor R),
  @valOf R h b = @Some (tensor R) bv ->
  @gradOf R h y = @Some (tensor R) gy ->
  @wf R bv ->
  @wf R gy ->
  @dims R gy = @dims R xv ->
  @dims R bv = @dims R xv ->
  (forall idx : list nat, validIdx (@dims R xv) idx -> elt bv idx <> 0) ->
  exists g : tensor R,
    @eval_rule R (R_scalar thr draw) rd h (@RDivA R y b) = @Ok (tensor R) g /\
    @dims R g = @dims R xv /\
    @wf R g /\
    is_vjp (@dims R xv) (@dims R xv) (fun (a : assignment) (idx : list nat) => a idx / elt bv idx)
      (elt xv) (elt gy) (elt g).
Proof. exact @vjp_div_a. Qed.
Print Assumptions vjp_div_numerator.

Theorem vjp_div_denominator :
  forall (thr : R) (draw : bool -> nat -> R) (rd : bred) (h : @heap R) (y a b : nat)
    (av bv gy : tensor R),
  @valOf R h a = @Some (tensor R) av ->
  @valOf R h b = @Some (tensor R) bv ->
  @gradOf R h y = @Some (tensor R) gy ->
  @wf R av ->
  @wf R bv ->
  @wf R gy ->
  @dims R gy = @dims R bv ->
  @dims R av = @dims R bv ->
  (forall idx : list nat, validIdx (@dims R bv) idx -> elt bv idx <> 0) ->
  exists g : tensor R,
    @eval_rule R (R_scalar thr draw) rd h (@RDivB R y a b) = @Ok (tensor R) g /\
    @dims R g = @dims R bv /\
    @wf R g /\
    is_vjp (@dims R bv) (@dims R bv) (fun (b' : assignment) (idx : list nat) => elt av idx / b' idx)
      (elt bv) (elt gy) (elt g).
Proof. exact @vjp_div_b. Qed.
Print Assumptions vjp_div_denominator.

Theorem vjp_elmax :
  forall (thr : R) (draw : bool -> nat -> R) (rd : bred) (h : @heap R) (y a b : nat)
    (yv av bv gy : tensor R),
  @valOf R h y = @Some (tensor R) yv ->
  @valOf R h a = @Some (tensor R) av ->
  @valOf R h b = @Some (tensor R) bv ->
  @gradOf R h y = @Some (tensor R) gy ->
  @wf R yv ->
  @wf R av ->
  @wf R bv ->
  @wf R gy ->
  @dims R yv = @dims R av ->
  @dims R bv = @dims R av ->
  @dims R gy = @dims R av ->
  (forall idx : list nat, validIdx (@dims R av) idx -> elt yv idx = Rmax (elt av idx) (elt bv idx)) ->
  0 <= thr ->
  (forall idx : list nat, validIdx (@dims R av) idx -> thr < Rabs (elt av idx - elt bv idx)) ->
  exists g : tensor R,
    @eval_rule R (R_scalar thr draw) rd h (@RElSel R y a b) = @Ok (tensor R) g /\
    @dims R g = @dims R av /\
    @wf R g /\
    is_vjp (@dims R av) (@dims R av)
      (fun (a' : assignment) (idx : list nat) => Rmax (a' idx) (elt bv idx)) 
      (elt av) (elt gy) (elt g).
Proof. exact @vjp_elmax. Qed.
Print Assumptions vjp_elmax.

Theorem vjp_elmin :
  forall (thr : R) (draw : bool -> nat -> R) (rd : bred) (h : @heap R) (y a b : nat)
    (yv av bv gy : tensor R),
  @valOf R h y = @Some (tensor R) yv ->
  @valOf R h a = @Some (tensor R) av ->
  @valOf R h b = @Some (tensor R) bv ->
  @gradOf R h y = @Some (tensor R) gy ->
  @wf R yv ->
  @wf R av ->
  @wf R bv ->
  @wf R gy ->
  @dims R yv = @dims R av ->
  @dims R bv = @dims R av ->
  @dims R gy = @dims R av ->
  (forall idx : list nat, validIdx (@dims R av) idx -> elt yv idx = Rmin (elt av idx) (elt bv idx)) ->
  0 <= thr ->
  (forall idx : list nat, validIdx (@dims R av) idx -> thr < Rabs (elt av idx - elt bv idx)) ->
  exists g : tensor R,
    @eval_rule R (R_scalar thr draw) rd h (@RElSel R y a b) = @Ok (tensor R) g /\
    @dims R g = @dims R av /\
    @wf R g /\
    is_vjp (@dims R av) (@dims R av)
      (fun (a' : assignment) (idx : list nat) => Rmin (a' idx) (elt bv idx)) 
      (elt av) (elt gy) (elt g).
Proof. exact @vjp_elmin. Qed.
Print Assumptions vjp_elmin.

Theorem vjp_elmax_second_operand :
  forall (thr : R) (draw : bool -> nat -> R) (rd : bred) (h : @heap R) (y a b : nat)
    (yv av bv gy : tensor R),
  @valOf R h y = @Some (tensor R) yv ->
  @valOf R h a = @Some (tensor R) av ->
  @valOf R h b = @Some (tensor R) bv ->
  @gradOf R h y = @Some (tensor R) gy ->
  @wf R yv ->
  @wf R av ->
  @wf R bv ->
  @wf R gy ->
  @dims R yv = @dims R av ->
  @dims R bv = @dims R av ->
  @dims R gy = @dims R av ->
  (forall idx : list nat, validIdx (@dims R av) idx -> elt yv idx = Rmax (elt bv idx) (elt av idx)) ->
  0 <= thr ->
  (forall idx : list nat, validIdx (@dims R av) idx -> thr < Rabs (elt av idx - elt bv idx)) ->
  exists g : tensor R,
    @eval_rule R (R_scalar thr draw) rd h (@RElSel R y a b) = @Ok (tensor R) g /\
    @dims R g = @dims R av /\
    @wf R g /\
    is_vjp (@dims R av) (@dims R av)
      (fun (a' : assignment) (idx : list nat) => Rmax (elt bv idx) (a' idx)) 
      (elt av) (elt gy) (elt g).
Proof. exact @vjp_elmax_r. Qed.
Print Assumptions vjp_elmax_second_operand.

Theorem vjp_elmin_second_operand :
  forall (thr : R) (draw : bool -> nat -> R) (rd : bred) (h : @heap R) (y a b : nat)
    (yv av bv gy : tensor R),
  @valOf R h y = @Some (tensor R) yv ->
  @valOf R h a = @Some (tensor R) av ->
  @valOf R h b = @Some (tensor R) bv ->
  @gradOf R h y = @Some (tensor R) gy ->
  @wf R yv ->
  @wf R av ->
  @wf R bv ->
  @wf R gy ->
  @dims R yv = @dims R av ->
  @dims R bv = @dims R av ->
  @dims R gy = @dims R av ->
  (forall idx : list nat, validIdx (@dims R av) idx -> elt yv idx = Rmin (elt bv idx) (elt av idx)) ->
  0 <= thr ->
  (forall idx : list nat, validIdx (@dims R av) idx -> thr < Rabs (elt av idx - elt bv idx)) ->
  exists g : tensor R,
    @eval_rule R (R_scalar thr draw) rd h (@RElSel R y a b) = @Ok (tensor R) g /\
    @dims R g = @dims R av /\
    @wf R g /\
    is_vjp (@dims R av) (@dims R av)
      (fun (a' : assignment) (idx : list nat) => Rmin (elt bv idx) (a' idx)) 
      (elt av) (elt gy) (elt g).
Proof. exact @vjp_elmin_r. Qed.
Print Assumptions vjp_elmin_second_operand.

Theorem elmax_elmin_tie_gets_half :
  forall (thr : R) (draw : bool -> nat -> R) (rd : bred) (h : @heap R) (y a b : nat)
    (yv av bv gy : tensor R),
  @valOf R h y = @Some (tensor R) yv ->
  @valOf R h a = @Some (tensor R) av ->
  @valOf R h b = @Some (tensor R) bv ->
  @gradOf R h y = @Some (tensor R) gy ->
  @wf R yv ->
  @wf R av ->
  @wf R bv ->
  @wf R gy ->
  @dims R yv = @dims R av ->
  @dims R bv = @dims R av ->
  @dims R gy = @dims R av ->
  0 <= thr ->
  exists g : tensor R,
    @eval_rule R (R_scalar thr draw) rd h (@RElSel R y a b) = @Ok (tensor R) g /\
    @dims R g = @dims R av /\
    @wf R g /\
    (forall idx : list nat,
     validIdx (@dims R av) idx ->
     elt av idx = elt bv idx ->
     elt yv idx = Rmax (elt av idx) (elt bv idx) \/ elt yv idx = Rmin (elt av idx) (elt bv idx) ->
     elt g idx = elt gy idx * / 2) /\
    (forall idx : list nat,
     validIdx (@dims R av) idx ->
     Rabs (elt av idx - elt bv idx) <= thr ->
     elt yv idx = elt av idx \/ elt yv idx = elt bv idx -> elt g idx = elt gy idx * / 2).
Proof. exact @elsel_tie_formula. Qed.
Print Assumptions elmax_elmin_tie_gets_half.

Theorem elmax_near_tie_refuted :
  forall (thr : R) (draw : bool -> nat -> R) (rd : bred),
  0 < thr ->
  exists (h : @heap R) (y a b : nat) (yv av bv gy g : tensor R),
    @valOf R h y = @Some (tensor R) yv /\
    @valOf R h a = @Some (tensor R) av /\
    @valOf R h b = @Some (tensor R) bv /\
    @gradOf R h y = @Some (tensor R) gy /\
    @wf R yv /\
    @wf R av /\
    @wf R bv /\
    @wf R gy /\
    @dims R yv = @dims R av /\
    @dims R bv = @dims R av /\
    @dims R gy = @dims R av /\
    (forall idx : list nat, validIdx (@dims R av) idx -> elt yv idx = Rmax (elt av idx) (elt bv idx)) /\
    (forall idx : list nat, validIdx (@dims R av) idx -> elt bv idx < elt av idx) /\
    @eval_rule R (R_scalar thr draw) rd h (@RElSel R y a b) = @Ok (tensor R) g /\
    ~
    is_vjp (@dims R av) (@dims R av)
      (fun (a' : assignment) (idx : list nat) => Rmax (a' idx) (elt bv idx)) 
      (elt av) (elt gy) (elt g).
Proof. exact @vjp_elmax_near_tie_refuted. Qed.
Print Assumptions elmax_near_tie_refuted.

Theorem pow_rule_never_fails :
  forall (thr : R) (draw : bool -> nat -> R) (rd : bred) (h : @heap R) (y x : nat) 
    (a : R) (xv gy : tensor R),
  @valOf R h x = @Some (tensor R) xv ->
  @gradOf R h y = @Some (tensor R) gy ->
  @wf R xv ->
  @wf R gy ->
  @dims R gy = @dims R xv ->
  exists g : tensor R,
    @eval_rule R (R_scalar thr draw) rd h (@RPow R y x a false) = @Ok (tensor R) g /\
    @dims R g = @dims R xv /\
    @wf R g /\
    (forall idx : list nat,
     validIdx (@dims R xv) idx -> elt g idx = elt gy idx * (a * Rpow (elt xv idx) (a - 1))).
Proof. exact @rpow_eval. Qed.
Print Assumptions pow_rule_never_fails.

Theorem elsel_rule_never_fails :
  forall (thr : R) (draw : bool -> nat -> R) (rd : bred) (h : @heap R) (y a b : nat)
    (yv av bv gy : tensor R),
  @valOf R h y = @Some (tensor R) yv ->
  @valOf R h a = @Some (tensor R) av ->
  @valOf R h b = @Some (tensor R) bv ->
  @gradOf R h y = @Some (tensor R) gy ->
  @wf R yv ->
  @wf R av ->
  @wf R bv ->
  @wf R gy ->
  @dims R yv = @dims R av ->
  @dims R bv = @dims R av ->
  @dims R gy = @dims R av ->
  exists g : tensor R,
    @eval_rule R (R_scalar thr draw) rd h (@RElSel R y a b) = @Ok (tensor R) g /\
    @dims R g = @dims R av /\
    @wf R g /\
    (forall idx : list nat,
     validIdx (@dims R av) idx ->
     elt g idx =
     elt gy idx * (eqt thr (elt yv idx) (elt av idx) - / 2 * eqt thr (elt av idx) (elt bv idx))).
Proof. exact @relsel_eval. Qed.
Print Assumptions elsel_rule_never_fails.

Theorem gather_rule_is_vjp_generic :
  forall (dsx dsy : list nat) (sigma : list nat -> option (list nat)) (c x gy g : assignment),
  (forall i : list nat,
   validIdx dsx i -> g i = sumIdx dsy (fun j : list nat => if hits sigma j i then gy j else 0)) ->
  is_vjp dsx dsy (gatherF sigma c) x gy g.
Proof. exact @vjp_gather_opt. Qed.
Print Assumptions gather_rule_is_vjp_generic.

Theorem vjp_slice :
  forall (thr : R) (draw : bool -> nat -> R) (rd : bred) (h : @heap R) (y x : nat)
    (index : list Valid.zrange) (xv gy : tensor R),
  @valOf R h x = @Some (tensor R) xv ->
  @gradOf R h y = @Some (tensor R) gy ->
  @wf R xv ->
  Valid.validateSliceIndexAgainstDims index (@zdims R xv) = true ->
  @wf R gy ->
  @dims R gy = sizes (completeIndex (rangesOf index) (@dims R xv)) ->
  exists g : tensor R,
    @eval_rule R (RS thr draw) rd h (@RSliceX R y x index) = @Ok (tensor R) g /\
    @dims R g = @dims R xv /\
    @wf R g /\
    (forall i : list nat,
     validIdx (@dims R xv) i ->
     elt g i =
     (if inBlock (completeIndex (rangesOf index) (@dims R xv)) (@dims R gy) i
      then elt gy (unshift i (completeIndex (rangesOf index) (@dims R xv)))
      else 0)) /\
    is_vjp (@dims R xv) (@dims R gy)
      (fun (a : assignment) (j : list nat) => a (shift j (completeIndex (rangesOf index) (@dims R xv))))
      (elt xv) (elt gy) (elt g).
Proof. exact @vjp_slice. Qed.
Print Assumptions vjp_slice.

Theorem vjp_reshape_unsqueeze_squeeze_flatten :
  forall (thr : R) (draw : bool -> nat -> R) (rd : bred) (h : @heap R) (y x : nat) (xv gy : tensor R),
  @valOf R h x = @Some (tensor R) xv ->
  @gradOf R h y = @Some (tensor R) gy ->
  @wf R xv ->
  @wf R gy ->
  prodn (@dims R gy) = prodn (@dims R xv) ->
  exists g : tensor R,
    @eval_rule R (RS thr draw) rd h (@RReshape R y x) = @Ok (tensor R) g /\
    @dims R g = @dims R xv /\
    @wf R g /\
    (forall i : list nat,
     validIdx (@dims R xv) i ->
     elt g i = elt gy (OdometerP.unflatIdx (@dims R gy) (flatIdx (@dims R xv) i))) /\
    is_vjp (@dims R xv) (@dims R gy)
      (fun (a : assignment) (j : list nat) =>
       a (OdometerP.unflatIdx (@dims R xv) (flatIdx (@dims R gy) j))) (elt xv) 
      (elt gy) (elt g).
Proof. exact @vjp_reshape. Qed.
Print Assumptions vjp_reshape_unsqueeze_squeeze_flatten.

Theorem vjp_patch_target :
  forall (thr : R) (draw : bool -> nat -> R) (rd : bred) (h : @heap R) (y p : nat)
    (index : list Valid.zrange) (xv pv gy : tensor R),
  @valOf R h p = @Some (tensor R) pv ->
  @gradOf R h y = @Some (tensor R) gy ->
  @wf R pv ->
  @wf R gy ->
  @dims R gy = @dims R xv ->
  Valid.validatePatchIndexAgainstDims index (@zdims R pv) (@zdims R xv) = true ->
  exists g : tensor R,
    @eval_rule R (RS thr draw) rd h (@RPatchX R y p index) = @Ok (tensor R) g /\
    @dims R g = @dims R xv /\
    @wf R g /\
    (forall i : list nat,
     validIdx (@dims R xv) i ->
     elt g i =
     (if inBlock (completeIndex (rangesOf index) (@dims R pv)) (@dims R pv) i then 0 else elt gy i)) /\
    is_vjp (@dims R xv) (@dims R gy)
      (gatherF
         (fun j : list nat =>
          if inBlock (completeIndex (rangesOf index) (@dims R pv)) (@dims R pv) j
          then @None (list nat)
          else @Some (list nat) j)
         (fun j : list nat => elt pv (unshift j (completeIndex (rangesOf index) (@dims R pv)))))
      (elt xv) (elt gy) (elt g).
Proof. exact @vjp_patch_tgt. Qed.
Print Assumptions vjp_patch_target.

Theorem vjp_patch_source :
  forall (thr : R) (draw : bool -> nat -> R) (rd : bred) (h : @heap R) (y p : nat)
    (index : list Valid.zrange) (xv pv gy : tensor R),
  @valOf R h p = @Some (tensor R) pv ->
  @gradOf R h y = @Some (tensor R) gy ->
  @wf R pv ->
  @wf R gy ->
  @dims R gy = @dims R xv ->
  Valid.validatePatchIndexAgainstDims index (@zdims R pv) (@zdims R xv) = true ->
  exists g : tensor R,
    @eval_rule R (RS thr draw) rd h (@RPatchP R y p index) = @Ok (tensor R) g /\
    @dims R g = @dims R pv /\
    @wf R g /\
    (forall i : list nat,
     validIdx (@dims R pv) i -> elt g i = elt gy (shift i (completeIndex (rangesOf index) (@dims R pv)))) /\
    is_vjp (@dims R pv) (@dims R gy)
      (gatherF (blockSigma (completeIndex (rangesOf index) (@dims R pv)) (@dims R pv)) (elt xv))
      (elt pv) (elt gy) (elt g).
Proof. exact @vjp_patch_src. Qed.
Print Assumptions vjp_patch_source.

Theorem vjp_transpose :
  forall (thr : R) (draw : bool -> nat -> R) (rd : bred) (h : @heap R) (y : nat) (xv gy : tensor R),
  @gradOf R h y = @Some (tensor R) gy ->
  @wf R gy ->
  (2 <= @length nat (@dims R xv))%nat ->
  @dims R gy = transposeDims (@dims R xv) ->
  exists g : tensor R,
    @eval_rule R (RS thr draw) rd h (@RTranspose R y) = @Ok (tensor R) g /\
    @dims R g = @dims R xv /\
    @wf R g /\
    (forall i : list nat, validIdx (@dims R xv) i -> elt g i = elt gy (transposeDims i)) /\
    is_vjp (@dims R xv) (@dims R gy) (fun (a : assignment) (j : list nat) => a (transposeDims j))
      (elt xv) (elt gy) (elt g).
Proof. exact @VjpGatherP.vjp_transpose. Qed.
Print Assumptions vjp_transpose.

Theorem vjp_concat_operand :
  forall (thr : R) (draw : bool -> nat -> R) (rd : bred) (h : @heap R) (y : nat) 
    (gy : tensor R) (pre post : list nat) (n base total : nat) (c x : assignment),
  @gradOf R h y = @Some (tensor R) gy ->
  @wf R gy ->
  @dims R gy = pre ++ total :: post ->
  (0 < n)%nat ->
  (base + n <= total)%nat ->
  let index :=
    catIndex (@length nat pre) (Z.of_nat base) (Z.of_nat n) 0 (@length nat (pre ++ n :: post)) in
  let ci :=
    @map nat (nat * nat) (fun d : nat => (0%nat, d)) pre ++
    (base, (base + n)%nat) :: @map nat (nat * nat) (fun d : nat => (0%nat, d)) post in
  exists g : tensor R,
    @eval_rule R (RS thr draw) rd h (@RConcat R y index) = @Ok (tensor R) g /\
    @dims R g = pre ++ n :: post /\
    @wf R g /\
    (forall i : list nat, validIdx (pre ++ n :: post) i -> elt g i = elt gy (shift i ci)) /\
    is_vjp (pre ++ n :: post) (@dims R gy) (gatherF (blockSigma ci (pre ++ n :: post)) c) x 
      (elt gy) (elt g).
Proof. exact @vjp_concat_edge. Qed.
Print Assumptions vjp_concat_operand.

Theorem vjp_concat_any_index :
  forall (thr : R) (draw : bool -> nat -> R) (rd : bred) (h : @heap R) (y : nat)
    (index : list Valid.zrange) (gy : tensor R) (c x : assignment),
  @gradOf R h y = @Some (tensor R) gy ->
  @wf R gy ->
  Valid.validateSliceIndexAgainstDims index (@zdims R gy) = true ->
  exists g : tensor R,
    @eval_rule R (RS thr draw) rd h (@RConcat R y index) = @Ok (tensor R) g /\
    @dims R g = sizes (completeIndex (rangesOf index) (@dims R gy)) /\
    @wf R g /\
    (forall i : list nat,
     validIdx (@dims R g) i -> elt g i = elt gy (shift i (completeIndex (rangesOf index) (@dims R gy)))) /\
    is_vjp (@dims R g) (@dims R gy)
      (gatherF (blockSigma (completeIndex (rangesOf index) (@dims R gy)) (@dims R g)) c) x 
      (elt gy) (elt g).
Proof. exact @VjpGatherP.vjp_concat. Qed.
Print Assumptions vjp_concat_any_index.

Theorem slice_rule_after_accepted_forward_call :
  forall (thr : R) (draw : bool -> nat -> R) (rd : bred) (h : @heap R) (y x : nat)
    (index : list Valid.zrange) (xv yv gy : tensor R),
  @valOf R h x = @Some (tensor R) xv ->
  @gradOf R h y = @Some (tensor R) gy ->
  @wf R xv ->
  @v_slice R xv index = @Ok (tensor R) yv ->
  @wf R gy ->
  @dims R gy = @dims R yv ->
  let ci := completeIndex (rangesOf index) (@dims R xv) in
  (forall j : list nat, validIdx (@dims R yv) j -> elt yv j = elt xv (shift j ci)) /\
  (exists g : tensor R,
     @eval_rule R (RS thr draw) rd h (@RSliceX R y x index) = @Ok (tensor R) g /\
     @dims R g = @dims R xv /\
     @wf R g /\
     is_vjp (@dims R xv) (@dims R yv) (fun (a : assignment) (j : list nat) => a (shift j ci)) 
       (elt xv) (elt gy) (elt g)).
Proof. exact @vjp_slice_fwd. Qed.
Print Assumptions slice_rule_after_accepted_forward_call.

Theorem reshape_rule_after_accepted_forward_call :
  forall (thr : R) (draw : bool -> nat -> R) (rd : bred) (h : @heap R) (y x : nat) (xv yv gy : tensor R),
  @valOf R h x = @Some (tensor R) xv ->
  @gradOf R h y = @Some (tensor R) gy ->
  @wf R xv ->
  reshapeCall xv yv ->
  @wf R gy ->
  @dims R gy = @dims R yv ->
  (forall j : list nat,
   validIdx (@dims R yv) j ->
   elt yv j = elt xv (OdometerP.unflatIdx (@dims R xv) (flatIdx (@dims R yv) j))) /\
  (exists g : tensor R,
     @eval_rule R (RS thr draw) rd h (@RReshape R y x) = @Ok (tensor R) g /\
     @dims R g = @dims R xv /\
     @wf R g /\
     is_vjp (@dims R xv) (@dims R yv)
       (fun (a : assignment) (j : list nat) =>
        a (OdometerP.unflatIdx (@dims R xv) (flatIdx (@dims R yv) j))) (elt xv) 
       (elt gy) (elt g)).
Proof. exact @vjp_reshape_fwd. Qed.
Print Assumptions reshape_rule_after_accepted_forward_call.

Theorem patch_rule_after_accepted_forward_call :
  forall (thr : R) (draw : bool -> nat -> R) (rd : bred) (h : @heap R) (y p : nat)
    (index : list Valid.zrange) (xv pv yv gy : tensor R),
  @valOf R h p = @Some (tensor R) pv ->
  @gradOf R h y = @Some (tensor R) gy ->
  @wf R xv ->
  @wf R pv ->
  @v_patch R xv index pv = @Ok (tensor R) yv ->
  @wf R gy ->
  @dims R gy = @dims R yv ->
  let ci := completeIndex (rangesOf index) (@dims R pv) in
  @dims R yv = @dims R xv /\
  (forall j : list nat,
   validIdx (@dims R yv) j ->
   elt yv j = (if inBlock ci (@dims R pv) j then elt pv (unshift j ci) else elt xv j)) /\
  (exists g : tensor R,
     @eval_rule R (RS thr draw) rd h (@RPatchX R y p index) = @Ok (tensor R) g /\
     @dims R g = @dims R xv /\
     @wf R g /\
     is_vjp (@dims R xv) (@dims R yv)
       (gatherF
          (fun j : list nat =>
           if inBlock ci (@dims R pv) j then @None (list nat) else @Some (list nat) j)
          (fun j : list nat => elt pv (unshift j ci))) (elt xv) (elt gy) (elt g)) /\
  (exists g : tensor R,
     @eval_rule R (RS thr draw) rd h (@RPatchP R y p index) = @Ok (tensor R) g /\
     @dims R g = @dims R pv /\
     @wf R g /\
     is_vjp (@dims R pv) (@dims R yv) (gatherF (blockSigma ci (@dims R pv)) (elt xv)) 
       (elt pv) (elt gy) (elt g)).
Proof. exact @vjp_patch_fwd. Qed.
Print Assumptions patch_rule_after_accepted_forward_call.

Theorem transpose_rule_after_accepted_forward_call :
  forall (thr : R) (draw : bool -> nat -> R) (rd : bred) (h : @heap R) (y : nat) (xv yv gy : tensor R),
  @gradOf R h y = @Some (tensor R) gy ->
  @wf R xv ->
  @v_transpose R xv = @Ok (tensor R) yv ->
  @wf R gy ->
  @dims R gy = @dims R yv ->
  (forall j : list nat, validIdx (@dims R yv) j -> elt yv j = elt xv (transposeDims j)) /\
  (exists g : tensor R,
     @eval_rule R (RS thr draw) rd h (@RTranspose R y) = @Ok (tensor R) g /\
     @dims R g = @dims R xv /\
     @wf R g /\
     is_vjp (@dims R xv) (@dims R yv) (fun (a : assignment) (j : list nat) => a (transposeDims j))
       (elt xv) (elt gy) (elt g)).
Proof. exact @vjp_transpose_fwd. Qed.
Print Assumptions transpose_rule_after_accepted_forward_call.

Theorem vjp_sum_along :
  forall (thr : R) (draw : bool -> nat -> R) (rd : bred) (h : @heap R) (y x dim : nat)
    (xv gy : tensor R),
  @valOf R h x = @Some (tensor R) xv ->
  @gradOf R h y = @Some (tensor R) gy ->
  @wf R xv ->
  @wf R gy ->
  (dim < @length nat (@dims R xv))%nat ->
  @dims R gy = squeezeDims dim (@dims R xv) ->
  exists g : tensor R,
    @eval_rule R (R_scalar thr draw) rd h (@RSumAlong R y x (Z.of_nat dim)) = @Ok (tensor R) g /\
    @dims R g = @dims R xv /\
    @wf R g /\
    is_vjp (@dims R xv) (squeezeDims dim (@dims R xv))
      (fun (a : assignment) (j : list nat) =>
       ReduceRP.Rsum
         (@map nat R (fun k : nat => a (@ins nat dim k j)) (seq 0 (@nth nat dim (@dims R xv) 0%nat))))
      (elt xv) (elt gy) (elt g).
Proof. exact @vjp_sumAlong. Qed.
Print Assumptions vjp_sum_along.

Theorem vjp_avg_mean_along :
  forall (thr : R) (draw : bool -> nat -> R) (rd : bred) (h : @heap R) (y x dim : nat)
    (xv gy : tensor R),
  @valOf R h x = @Some (tensor R) xv ->
  @gradOf R h y = @Some (tensor R) gy ->
  @wf R xv ->
  @wf R gy ->
  (dim < @length nat (@dims R xv))%nat ->
  @dims R gy = squeezeDims dim (@dims R xv) ->
  exists g : tensor R,
    @eval_rule R (R_scalar thr draw) rd h (@RAvgAlong R y x (Z.of_nat dim)) = @Ok (tensor R) g /\
    @dims R g = @dims R xv /\
    @wf R g /\
    is_vjp (@dims R xv) (squeezeDims dim (@dims R xv))
      (fun (a : assignment) (j : list nat) =>
       ReduceRP.Rsum
         (@map nat R (fun k : nat => a (@ins nat dim k j)) (seq 0 (@nth nat dim (@dims R xv) 0%nat))) /
       INR (@nth nat dim (@dims R xv) 0%nat)) (elt xv) (elt gy) (elt g).
Proof. exact @vjp_avgAlong. Qed.
Print Assumptions vjp_avg_mean_along.

Theorem vjp_var_along :
  forall (thr : R) (draw : bool -> nat -> R) (rd : bred) (h : @heap R) (y x dim : nat)
    (xv gy : tensor R),
  @valOf R h x = @Some (tensor R) xv ->
  @gradOf R h y = @Some (tensor R) gy ->
  @wf R xv ->
  @wf R gy ->
  (dim < @length nat (@dims R xv))%nat ->
  @dims R gy = squeezeDims dim (@dims R xv) ->
  exists g : tensor R,
    @eval_rule R (R_scalar thr draw) rd h (@RVarAlong R y x (Z.of_nat dim)) = @Ok (tensor R) g /\
    @dims R g = @dims R xv /\
    @wf R g /\
    is_vjp (@dims R xv) (squeezeDims dim (@dims R xv))
      (fun (a : assignment) (j : list nat) =>
       varN (@nth nat dim (@dims R xv) 0%nat) (fun k : nat => a (@ins nat dim k j))) 
      (elt xv) (elt gy) (elt g).
Proof. exact @vjp_varAlong. Qed.
Print Assumptions vjp_var_along.

Theorem vjp_std_along :
  forall (thr : R) (draw : bool -> nat -> R) (rd : bred) (h : @heap R) (y x dim : nat)
    (xv yv gy : tensor R),
  @valOf R h x = @Some (tensor R) xv ->
  @valOf R h y = @Some (tensor R) yv ->
  @gradOf R h y = @Some (tensor R) gy ->
  @wf R xv ->
  @wf R yv ->
  @wf R gy ->
  (dim < @length nat (@dims R xv))%nat ->
  @dims R yv = squeezeDims dim (@dims R xv) ->
  @dims R gy = squeezeDims dim (@dims R xv) ->
  (forall j : list nat,
   validIdx (squeezeDims dim (@dims R xv)) j ->
   elt yv j = sqrt (varN (@nth nat dim (@dims R xv) 0%nat) (fun k : nat => elt xv (@ins nat dim k j)))) ->
  ((1 < @nth nat dim (@dims R xv) 0)%nat ->
   forall j : list nat,
   validIdx (squeezeDims dim (@dims R xv)) j ->
   0 < varN (@nth nat dim (@dims R xv) 0%nat) (fun k : nat => elt xv (@ins nat dim k j))) ->
  exists g : tensor R,
    @eval_rule R (R_scalar thr draw) rd h (@RStdAlong R y x (Z.of_nat dim)) = @Ok (tensor R) g /\
    @dims R g = @dims R xv /\
    @wf R g /\
    is_vjp (@dims R xv) (squeezeDims dim (@dims R xv))
      (fun (a : assignment) (j : list nat) =>
       sqrt (varN (@nth nat dim (@dims R xv) 0%nat) (fun k : nat => a (@ins nat dim k j)))) 
      (elt xv) (elt gy) (elt g).
Proof. exact @vjp_stdAlong. Qed.
Print Assumptions vjp_std_along.

Theorem vjp_max_along :
  forall (thr : R) (draw : bool -> nat -> R) (M : (nat -> R) -> R) (rd : bred) 
    (h : @heap R) (y x dim : nat) (xv yv gy : tensor R),
  is_maxN (@nth nat dim (@dims R xv) 0%nat) M ->
  @valOf R h x = @Some (tensor R) xv ->
  @valOf R h y = @Some (tensor R) yv ->
  @gradOf R h y = @Some (tensor R) gy ->
  @wf R xv ->
  @wf R yv ->
  @wf R gy ->
  (dim < @length nat (@dims R xv))%nat ->
  @dims R yv = squeezeDims dim (@dims R xv) ->
  @dims R gy = squeezeDims dim (@dims R xv) ->
  0 <= thr ->
  (forall j : list nat,
   validIdx (squeezeDims dim (@dims R xv)) j ->
   (forall k : nat, (k < @nth nat dim (@dims R xv) 0)%nat -> elt xv (@ins nat dim k j) <= elt yv j) /\
   (exists k : nat, (k < @nth nat dim (@dims R xv) 0)%nat /\ elt yv j = elt xv (@ins nat dim k j))) ->
  (forall j : list nat,
   validIdx (squeezeDims dim (@dims R xv)) j ->
   exists ks : nat,
     (ks < @nth nat dim (@dims R xv) 0)%nat /\
     (forall k : nat,
      (k < @nth nat dim (@dims R xv) 0)%nat ->
      k <> ks -> thr < elt xv (@ins nat dim ks j) - elt xv (@ins nat dim k j))) ->
  exists g : tensor R,
    @eval_rule R (R_scalar thr draw) rd h (@RExtAlong R y x (Z.of_nat dim)) = @Ok (tensor R) g /\
    @dims R g = @dims R xv /\
    @wf R g /\
    is_vjp (@dims R xv) (squeezeDims dim (@dims R xv))
      (fun (a : assignment) (j : list nat) => M (fun k : nat => a (@ins nat dim k j))) 
      (elt xv) (elt gy) (elt g).
Proof. exact @vjp_maxAlong_ord. Qed.
Print Assumptions vjp_max_along.

Theorem vjp_min_along :
  forall (thr : R) (draw : bool -> nat -> R) (M : (nat -> R) -> R) (rd : bred) 
    (h : @heap R) (y x dim : nat) (xv yv gy : tensor R),
  is_minN (@nth nat dim (@dims R xv) 0%nat) M ->
  @valOf R h x = @Some (tensor R) xv ->
  @valOf R h y = @Some (tensor R) yv ->
  @gradOf R h y = @Some (tensor R) gy ->
  @wf R xv ->
  @wf R yv ->
  @wf R gy ->
  (dim < @length nat (@dims R xv))%nat ->
  @dims R yv = squeezeDims dim (@dims R xv) ->
  @dims R gy = squeezeDims dim (@dims R xv) ->
  0 <= thr ->
  (forall j : list nat,
   validIdx (squeezeDims dim (@dims R xv)) j ->
   (forall k : nat, (k < @nth nat dim (@dims R xv) 0)%nat -> elt yv j <= elt xv (@ins nat dim k j)) /\
   (exists k : nat, (k < @nth nat dim (@dims R xv) 0)%nat /\ elt yv j = elt xv (@ins nat dim k j))) ->
  (forall j : list nat,
   validIdx (squeezeDims dim (@dims R xv)) j ->
   exists ks : nat,
     (ks < @nth nat dim (@dims R xv) 0)%nat /\
     (forall k : nat,
      (k < @nth nat dim (@dims R xv) 0)%nat ->
      k <> ks -> thr < elt xv (@ins nat dim k j) - elt xv (@ins nat dim ks j))) ->
  exists g : tensor R,
    @eval_rule R (R_scalar thr draw) rd h (@RExtAlong R y x (Z.of_nat dim)) = @Ok (tensor R) g /\
    @dims R g = @dims R xv /\
    @wf R g /\
    is_vjp (@dims R xv) (squeezeDims dim (@dims R xv))
      (fun (a : assignment) (j : list nat) => M (fun k : nat => a (@ins nat dim k j))) 
      (elt xv) (elt gy) (elt g).
Proof. exact @vjp_minAlong_ord. Qed.
Print Assumptions vjp_min_along.

Theorem var_rule_never_fails :
  forall (thr : R) (draw : bool -> nat -> R) (rd : bred) (h : @heap R) (y x dim : nat)
    (xv gy : tensor R),
  @valOf R h x = @Some (tensor R) xv ->
  @gradOf R h y = @Some (tensor R) gy ->
  @wf R xv ->
  @wf R gy ->
  (dim < @length nat (@dims R xv))%nat ->
  @dims R gy = squeezeDims dim (@dims R xv) ->
  exists g : tensor R,
    @eval_rule R (R_scalar thr draw) rd h (@RVarAlong R y x (Z.of_nat dim)) = @Ok (tensor R) g /\
    @dims R g = @dims R xv /\
    @wf R g /\
    (forall i : list nat,
     validIdx (@dims R xv) i ->
     elt g i =
     (if @nth nat dim (@dims R xv) 0%nat =? 1
      then 0
      else
       elt gy (@del nat dim i) *
       (2 / INR (@nth nat dim (@dims R xv) 0%nat - 1) *
        (elt xv i - meanN (@nth nat dim (@dims R xv) 0%nat) (fib (elt xv) dim (@del nat dim i)))))).
Proof. exact @rvar_eval. Qed.
Print Assumptions var_rule_never_fails.

Theorem std_rule_never_fails :
  forall (thr : R) (draw : bool -> nat -> R) (rd : bred) (h : @heap R) (y x dim : nat)
    (xv yv gy : tensor R),
  @valOf R h x = @Some (tensor R) xv ->
  @valOf R h y = @Some (tensor R) yv ->
  @gradOf R h y = @Some (tensor R) gy ->
  @wf R xv ->
  @wf R yv ->
  @wf R gy ->
  (dim < @length nat (@dims R xv))%nat ->
  @dims R yv = squeezeDims dim (@dims R xv) ->
  @dims R gy = squeezeDims dim (@dims R xv) ->
  exists g : tensor R,
    @eval_rule R (R_scalar thr draw) rd h (@RStdAlong R y x (Z.of_nat dim)) = @Ok (tensor R) g /\
    @dims R g = @dims R xv /\
    @wf R g /\
    (forall i : list nat,
     validIdx (@dims R xv) i ->
     elt g i =
     (if @nth nat dim (@dims R xv) 0%nat =? 1
      then 0
      else
       elt gy (@del nat dim i) *
       (1 / INR (@nth nat dim (@dims R xv) 0%nat - 1) *
        ((elt xv i - meanN (@nth nat dim (@dims R xv) 0%nat) (fib (elt xv) dim (@del nat dim i))) /
         elt yv (@del nat dim i))))).
Proof. exact @rstd_eval. Qed.
Print Assumptions std_rule_never_fails.

Theorem max_min_rule_never_fails :
  forall (thr : R) (draw : bool -> nat -> R) (rd : bred) (h : @heap R) (y x dim : nat)
    (xv yv gy : tensor R),
  @valOf R h x = @Some (tensor R) xv ->
  @valOf R h y = @Some (tensor R) yv ->
  @gradOf R h y = @Some (tensor R) gy ->
  @wf R xv ->
  @wf R yv ->
  @wf R gy ->
  (dim < @length nat (@dims R xv))%nat ->
  @dims R yv = squeezeDims dim (@dims R xv) ->
  @dims R gy = squeezeDims dim (@dims R xv) ->
  exists g : tensor R,
    @eval_rule R (R_scalar thr draw) rd h (@RExtAlong R y x (Z.of_nat dim)) = @Ok (tensor R) g /\
    @dims R g = @dims R xv /\
    @wf R g /\
    (forall i : list nat,
     validIdx (@dims R xv) i ->
     elt g i = elt gy (@del nat dim i) * eqt thr (elt xv i) (elt yv (@del nat dim i))).
Proof. exact @rext_eval. Qed.
Print Assumptions max_min_rule_never_fails.

Theorem reduction_forward_values :
  forall (thr : R) (draw : bool -> nat -> R) (r : reducer) (xv : tensor R) (dim : nat),
  @wf R xv ->
  (dim < @length nat (@dims R xv))%nat ->
  exists yv : tensor R,
    @v_reduceAlong R (R_scalar thr draw) r xv (Z.of_nat dim) = @Ok (tensor R) yv /\
    @dims R yv = squeezeDims dim (@dims R xv) /\
    @wf R yv /\
    (forall j : list nat,
     validIdx (squeezeDims dim (@dims R xv)) j ->
     match r with
     | RdSum =>
         elt yv j =
         ReduceRP.Rsum
           (@map nat R (fun k : nat => elt xv (@ins nat dim k j))
              (seq 0 (@nth nat dim (@dims R xv) 0%nat)))
     | RdMax =>
         elt yv j =
         @maxL R (R_scalar thr draw)
           (@map nat R (fun k : nat => elt xv (@ins nat dim k j))
              (seq 0 (@nth nat dim (@dims R xv) 0%nat)))
     | RdMin =>
         elt yv j =
         @minL R (R_scalar thr draw)
           (@map nat R (fun k : nat => elt xv (@ins nat dim k j))
              (seq 0 (@nth nat dim (@dims R xv) 0%nat)))
     | RdVar =>
         elt yv j = varN (@nth nat dim (@dims R xv) 0%nat) (fun k : nat => elt xv (@ins nat dim k j))
     | RdStd =>
         elt yv j =
         sqrt (varN (@nth nat dim (@dims R xv) 0%nat) (fun k : nat => elt xv (@ins nat dim k j)))
     | _ =>
         elt yv j =
         ReduceRP.Rsum
           (@map nat R (fun k : nat => elt xv (@ins nat dim k j))
              (seq 0 (@nth nat dim (@dims R xv) 0%nat))) / INR (@nth nat dim (@dims R xv) 0%nat)
     end).
Proof. exact @forward_along. Qed.
Print Assumptions reduction_forward_values.

Theorem vjp_matmul_first_operand :
  forall (thr : R) (draw : bool -> nat -> R) (rd : bred) (h : @heap R) (y b : nat) 
    (av bv gy : tensor R) (batch : list nat) (m n k : nat) (F : assignment -> assignment),
  @valOf R h b = @Some (tensor R) bv ->
  @gradOf R h y = @Some (tensor R) gy ->
  @wf R bv ->
  @wf R gy ->
  @dims R av = batch ++ [m; n] ->
  @dims R bv = batch ++ [n; k] ->
  @dims R gy = batch ++ [m; k] ->
  (forall (a' : assignment) (bi : list nat) (i j : nat),
   validIdx batch bi ->
   (i < m)%nat ->
   (j < k)%nat ->
   F a' (bi ++ [i; j]) = VjpLinalgP.sumN n (fun p : nat => a' (bi ++ [i; p]) * elt bv (bi ++ [p; j]))) ->
  exists g : tensor R,
    @eval_rule R (R_scalar thr draw) rd h (@RMatMulA R y b) = @Ok (tensor R) g /\
    @dims R g = @dims R av /\ @wf R g /\ is_vjp (@dims R av) (@dims R gy) F (elt av) (elt gy) (elt g).
Proof. exact @VjpLinalgP.vjp_matmul_a. Qed.
Print Assumptions vjp_matmul_first_operand.

Theorem vjp_matmul_second_operand :
  forall (thr : R) (draw : bool -> nat -> R) (rd : bred) (h : @heap R) (y a : nat) 
    (av bv gy : tensor R) (batch : list nat) (m n k : nat) (F : assignment -> assignment),
  @valOf R h a = @Some (tensor R) av ->
  @gradOf R h y = @Some (tensor R) gy ->
  @wf R av ->
  @wf R gy ->
  @dims R av = batch ++ [m; n] ->
  @dims R bv = batch ++ [n; k] ->
  @dims R gy = batch ++ [m; k] ->
  (forall (b' : assignment) (bi : list nat) (i j : nat),
   validIdx batch bi ->
   (i < m)%nat ->
   (j < k)%nat ->
   F b' (bi ++ [i; j]) = VjpLinalgP.sumN n (fun p : nat => elt av (bi ++ [i; p]) * b' (bi ++ [p; j]))) ->
  exists g : tensor R,
    @eval_rule R (R_scalar thr draw) rd h (@RMatMulB R y a) = @Ok (tensor R) g /\
    @dims R g = @dims R bv /\ @wf R g /\ is_vjp (@dims R bv) (@dims R gy) F (elt bv) (elt gy) (elt g).
Proof. exact @VjpLinalgP.vjp_matmul_b. Qed.
Print Assumptions vjp_matmul_second_operand.

Theorem vjp_dot :
  forall (thr : R) (draw : bool -> nat -> R) (rd : bred) (h : @heap R) (y o : nat)
    (yv xv ov gy : tensor R) (batch : list nat) (n : nat) (F1 F2 : assignment -> assignment),
  @valOf R h y = @Some (tensor R) yv ->
  @valOf R h o = @Some (tensor R) ov ->
  @gradOf R h y = @Some (tensor R) gy ->
  @wf R ov ->
  @wf R gy ->
  @dims R yv = batch ->
  @dims R gy = batch ->
  @dims R xv = batch ++ [n] ->
  @dims R ov = batch ++ [n] ->
  (forall (a' : assignment) (b : list nat),
   validIdx batch b -> F1 a' b = VjpLinalgP.sumN n (fun p : nat => a' (b ++ [p]) * elt ov (b ++ [p]))) ->
  (forall (b' : assignment) (b : list nat),
   validIdx batch b -> F2 b' b = VjpLinalgP.sumN n (fun p : nat => elt ov (b ++ [p]) * b' (b ++ [p]))) ->
  exists g : tensor R,
    @eval_rule R (R_scalar thr draw) rd h (@RDot R y o) = @Ok (tensor R) g /\
    @dims R g = @dims R xv /\
    @wf R g /\
    is_vjp (@dims R xv) (@dims R gy) F1 (elt xv) (elt gy) (elt g) /\
    is_vjp (@dims R xv) (@dims R gy) F2 (elt xv) (elt gy) (elt g).
Proof. exact @VjpLinalgP.vjp_dot. Qed.
Print Assumptions vjp_dot.

Theorem vjp_concat_operand_of_concatenation :
  forall (thr : R) (draw : bool -> nat -> R) (rd : bred) (h : @heap R) (y : nat) 
    (xv gy : tensor R) (pre post ns : list nat) (j : nat) (c : assignment),
  @gradOf R h y = @Some (tensor R) gy ->
  @wf R gy ->
  @dims R gy = pre ++ list_sum ns :: post ->
  (j < @length nat ns)%nat ->
  @dims R xv = pre ++ @nth nat j ns 0%nat :: post ->
  (0 < @nth nat j ns 0)%nat ->
  let off := list_sum (@firstn nat j ns) in
  let nj := @nth nat j ns 0%nat in
  exists g : tensor R,
    @eval_rule R (R_scalar thr draw) rd h (@RConcat R y (VjpLinalgP.catIndex pre post off nj)) =
    @Ok (tensor R) g /\
    @dims R g = @dims R xv /\
    @wf R g /\
    (forall (i1 : list nat) (x : nat) (i2 : list nat),
     validIdx pre i1 ->
     (x < nj)%nat -> validIdx post i2 -> elt g (i1 ++ x :: i2) = elt gy (i1 ++ (off + x)%nat :: i2)) /\
    is_vjp (@dims R xv) (@dims R gy) (VjpLinalgP.catF (@length nat pre) off nj c) 
      (elt xv) (elt gy) (elt g).
Proof. exact @VjpLinalgP.vjp_concat_operand. Qed.
Print Assumptions vjp_concat_operand_of_concatenation.

Theorem matmul_forward_value :
  forall (thr : R) (draw : bool -> nat -> R) (av bv : tensor R) (batch : list nat) (m n k : nat),
  @wf R av ->
  @wf R bv ->
  @dims R av = batch ++ [m; n] ->
  @dims R bv = batch ++ [n; k] ->
  exists r : tensor R,
    @v_matmul R (R_scalar thr draw) av bv = @Ok (tensor R) r /\
    @dims R r = batch ++ [m; k] /\
    @wf R r /\
    (forall idx : list nat,
     validIdx (batch ++ [m; k]) idx ->
     elt r idx = VjpLinalgP.mmF (@length nat batch) n (elt av) (elt bv) idx).
Proof. exact @VjpLinalgP.matmul_fwd. Qed.
Print Assumptions matmul_forward_value.

Theorem dot_forward_value :
  forall (thr : R) (draw : bool -> nat -> R) (av ov : tensor R) (batch : list nat) (n : nat),
  @wf R av ->
  @wf R ov ->
  @dims R av = batch ++ [n] ->
  @dims R ov = batch ++ [n] ->
  exists r : tensor R,
    @v_dot R (R_scalar thr draw) av ov = @Ok (tensor R) r /\
    @dims R r = batch /\
    @wf R r /\
    (forall b : list nat, validIdx batch b -> elt r b = VjpLinalgP.dotF n (elt av) (elt ov) b).
Proof. exact @VjpLinalgP.dot_fwd. Qed.
Print Assumptions dot_forward_value.

From Qeep Require Proofs.ConstsP Model.Consts.
Theorem library_equality_threshold_at_most_1e_240 :
  ConstsP.dec_le Consts.c_eq_threshold (1, -240)%Z = true.
Proof. exact ConstsP.threshold_at_most_1e_240. Qed.
Print Assumptions library_equality_threshold_at_most_1e_240.
