(* C04 — MatMul, Dot and Transpose implement batched linear algebra for every shape.
   Statements only (proofs: Proofs/TransposeP.v, MatMulP.v, MatMulRP.v).  The element formulas
   are explicit left folds  fold_left (fun s p => s + a[..i,p] * b[..p,j]) (seq 0 n) 0  with the
   evaluation order of the code, for an arbitrary scalar type with no laws; the batch part of an
   index is projected onto each operand by the NumPy rule [bproj].  The identities A.I = A and
   (A.B)^T = B^T.A^T are over the reals. *)
From Coq Require Import List ZArith Bool Reals.
From Qeep Require Import Model.Scalar Model.Nd Model.Data Model.Valid Model.Api.
From Qeep Require Import Proofs.NdP Proofs.BroadcastP Proofs.TransposeP Proofs.MatMulP Proofs.MatMulRP Spec.RScalar.
Import ListNotations.

Theorem transpose_swaps_last_two_dims :
  forall (A : Type) (t : tensor A),
  wf t ->
  ((2 <= length (dims t))%nat ->
   exists (batch : list nat) (m n : nat) (r : tensor A),
     dims t = batch ++ [m; n] /\
     v_transpose t = Ok r /\
     dims r = batch ++ [n; m] /\
     wf r /\
     (forall (b : list nat) (i j : nat),
      validIdx (batch ++ [n; m]) (b ++ [j; i]) ->
      get (data r) (b ++ [j; i]) = get (data t) (b ++ [i; j]))) /\
  ((length (dims t) < 2)%nat -> v_transpose t = Err).
Proof. exact @v_transpose_spec. Qed.
Print Assumptions transpose_swaps_last_two_dims.

Theorem transpose_accepts_exactly_rank_ge_2 :
  forall (A : Type) (t : tensor A),
  wf t ->
  ((exists r : tensor A, v_transpose t = Ok r) <-> (2 <= length (dims t))%nat) /\ v_transpose t <> Panic.
Proof. exact @v_transpose_ok_iff. Qed.
Print Assumptions transpose_accepts_exactly_rank_ge_2.

Theorem transpose_twice_is_identity :
  forall (A : Type) (t : tensor A),
  wf t ->
  (2 <= length (dims t))%nat -> exists r : tensor A, v_transpose t = Ok r /\ v_transpose r = Ok t.
Proof. exact @v_transpose_transpose. Qed.
Print Assumptions transpose_twice_is_identity.

Theorem matmul_is_batched_sum_of_products :
  forall (A : Type) (SA : Scalar A) (t u : tensor A),
  wf t ->
  wf u ->
  (forall (p1 p2 : list nat) (m n k : nat),
   dims t = p1 ++ [m; n] ->
   dims u = p2 ++ [n; k] ->
   bcompat2 p1 p2 ->
   let tb := targetBroadcastDims p1 p2 in
   exists r : tensor A,
     v_matmul t u = Ok r /\
     dims r = tb ++ [m; k] /\
     wf r /\
     (forall (b : list nat) (i j : nat),
      validIdx (tb ++ [m; k]) (b ++ [i; j]) ->
      get (data r) (b ++ [i; j]) =
      Some
        (fold_left
           (fun (s : A) (p : nat) =>
            sadd s
              (smul (elt (data t) (bproj p1 tb b ++ [i; p])) (elt (data u) (bproj p2 tb b ++ [p; j]))))
           (seq 0 n) s0))) /\
  (~ (exists (p1 p2 : list nat) (m n k : nat), dims t = p1 ++ [m; n] /\ dims u = p2 ++ [n; k]) ->
   v_matmul t u = Err) /\
  (forall (p1 p2 : list nat) (m n k : nat),
   dims t = p1 ++ [m; n] -> dims u = p2 ++ [n; k] -> ~ bcompat2 p1 p2 -> v_matmul t u = Err).
Proof. exact @v_matmul_spec. Qed.
Print Assumptions matmul_is_batched_sum_of_products.

Theorem matmul_accepts_exactly_valid_shapes :
  forall (A : Type) (SA : Scalar A) (t u : tensor A),
  wf t ->
  wf u ->
  ((exists r : tensor A, v_matmul t u = Ok r) <->
   (exists (p1 p2 : list nat) (m n k : nat),
      dims t = p1 ++ [m; n] /\ dims u = p2 ++ [n; k] /\ bcompat2 p1 p2)) /\ 
  v_matmul t u <> Panic.
Proof. exact @v_matmul_ok_iff. Qed.
Print Assumptions matmul_accepts_exactly_valid_shapes.

Theorem dot_contracts_last_dimension :
  forall (A : Type) (SA : Scalar A) (t u : tensor A),
  wf t ->
  wf u ->
  let target := targetBroadcastDims (dims t) (dims u) in
  (forall (p1 p2 : list nat) (n : nat),
   dims t = p1 ++ [n] ->
   dims u = p2 ++ [n] ->
   bcompat2 (dims t) (dims u) ->
   exists r : tensor A,
     v_dot t u = Ok r /\
     dims r = removelast target /\
     target = dims r ++ [n] /\
     dims r = targetBroadcastDims p1 p2 /\
     wf r /\
     (forall b : list nat,
      validIdx (dims r) b ->
      get (data r) b =
      Some
        (fold_left
           (fun (s : A) (p : nat) =>
            sadd s
              (smul (elt (data t) (bproj (dims t) target (b ++ [p])))
                 (elt (data u) (bproj (dims u) target (b ++ [p]))))) (seq 0 n) s0))) /\
  (~ (exists (p1 p2 : list nat) (n : nat), dims t = p1 ++ [n] /\ dims u = p2 ++ [n]) \/
   ~ bcompat2 (dims t) (dims u) -> v_dot t u = Err).
Proof. exact @v_dot_spec. Qed.
Print Assumptions dot_contracts_last_dimension.

Theorem dot_accepts_exactly_valid_shapes :
  forall (A : Type) (SA : Scalar A) (t u : tensor A),
  wf t ->
  wf u ->
  ((exists r : tensor A, v_dot t u = Ok r) <->
   (exists (p1 p2 : list nat) (n : nat), dims t = p1 ++ [n] /\ dims u = p2 ++ [n]) /\
   bcompat2 (dims t) (dims u)) /\ v_dot t u <> Panic.
Proof. exact @v_dot_ok_iff. Qed.
Print Assumptions dot_accepts_exactly_valid_shapes.

Theorem matmul_by_identity_is_identity :
  forall (thr : R) (draw : bool -> nat -> R) (a : tensor R) (m n : nat),
  @wf R a ->
  @dims R a = [m; n] ->
  exists e : tensor R,
    @v_eye R (RS thr draw) (Z.of_nat n) = @Ok (tensor R) e /\
    @v_matmul R (RS thr draw) a e = @Ok (tensor R) a.
Proof. exact @matmul_eye. Qed.
Print Assumptions matmul_by_identity_is_identity.

Theorem identity_by_matmul_is_identity :
  forall (thr : R) (draw : bool -> nat -> R) (a : tensor R) (m n : nat),
  @wf R a ->
  @dims R a = [m; n] ->
  exists e : tensor R,
    @v_eye R (RS thr draw) (Z.of_nat m) = @Ok (tensor R) e /\
    @v_matmul R (RS thr draw) e a = @Ok (tensor R) a.
Proof. exact @eye_matmul. Qed.
Print Assumptions identity_by_matmul_is_identity.

Theorem transpose_of_product :
  forall (thr : R) (draw : bool -> nat -> R) (a b : tensor R) (m n k : nat),
  @wf R a ->
  @wf R b ->
  @dims R a = [m; n] ->
  @dims R b = [n; k] ->
  exists ab abT aT bT : tensor R,
    @v_matmul R (RS thr draw) a b = @Ok (tensor R) ab /\
    @v_transpose R ab = @Ok (tensor R) abT /\
    @v_transpose R a = @Ok (tensor R) aT /\
    @v_transpose R b = @Ok (tensor R) bT /\ @v_matmul R (RS thr draw) bT aT = @Ok (tensor R) abT.
Proof. exact @matmul_transpose. Qed.
Print Assumptions transpose_of_product.
