(* C08G — source tie BY TRANSLATION for the autograd core (tensor/internal/gradtrack) — the three-way tracking test of every constructor is mkCtx (spent operand => spent result; no tracked operand => untracked; else tracked), anyIsBPDirty / nonIsTracked are the existsb tests, and back-propagation marks exactly the visiting order spent.
   Statements only (proofs: Proofs/Heap*P.v).  Model/GoGrad.v is REGENERATED from /repo's Go sources on every run by
   harness/gox: back_propagation.go (backward, topologicalOrder with its recursive closure, accumulateGrad),
   gradtrack.go (anyIsBPDirty, nonIsTracked) and every gradient-context constructor of gradients.go are programs of
   the imperative language of Model/DataIR.v in which tensors and contexts are node ids and every access to them is a
   call of the oracle Model/HeapExt.v ([hext]: c.tracked = ntracked, c.bpdirty = ndirty, c.gradient = ngrad,
   c.backEdges = nedges, e.gradFn() = eval_rule of that back edge — justified closure by closure in Properties/C02S.v).
   Each theorem says that RUNNING the translated program on a model heap returns exactly what the hand-written model
   (Model/Backprop.v, Model/Grad.v) computes, for ALL well-formed heaps.  Closed under the global context. *)
From Coq Require Import String List ZArith Bool Arith.
From Qeep Require Import Model.Scalar Model.Nd Model.Fill Model.Data Model.Valid Model.Api Model.Grad Model.Backprop Model.DataIR Model.HeapExt.
From Qeep Require Model.GoGrad.
From Qeep Require Import Proofs.DataIRP.
From Qeep Require Proofs.BackpropP Proofs.HeapAccP Proofs.HeapTopoP Proofs.HeapBackP Proofs.HeapCtorP Proofs.HeapBcastP.
Import ListNotations.
Local Open Scope string_scope.

Theorem anyIsBPDirty_program_is_existsb_dirty :
  forall (A : Type) (SA : Scalar A) (fapp : string -> list A -> option A) (rd : bred) 
    (fuel depth : nat) (h : heap) (ns : list nat),
  Forall (fun n : nat => n < Datatypes.length h) ns ->
  exists g l : denv,
    drun fapp heap (hext rd) GoGrad.g_anyIsBPDirty fuel depth
      [DL (map (fun n : nat => DI (Z.of_nat n)) ns)] h = DRet heap [DB (existsb (dirtyOf h) ns)] h g l.
Proof. exact @HeapAccP.anyIsBPDirty_run. Qed.
Print Assumptions anyIsBPDirty_program_is_existsb_dirty.

Theorem nonIsTracked_program_is_no_tracked_operand :
  forall (A : Type) (SA : Scalar A) (fapp : string -> list A -> option A) (rd : bred) 
    (fuel depth : nat) (h : heap) (ns : list nat),
  Forall (fun n : nat => n < Datatypes.length h) ns ->
  exists g l : denv,
    drun fapp heap (hext rd) GoGrad.g_nonIsTracked fuel depth
      [DL (map (fun n : nat => DI (Z.of_nat n)) ns)] h =
    DRet heap [DB (negb (existsb (trackedOf h) ns))] h g l.
Proof. exact @HeapAccP.nonIsTracked_run. Qed.
Print Assumptions nonIsTracked_program_is_no_tracked_operand.

Theorem every_constructor_applies_the_three_way_tracking_rule :
  forall (A : Type) (SA : Scalar A) (fapp : string -> list A -> option A) (rd : bred),
  @Forall (string * dprog)
    (fun e : string * dprog => @HeapCtorP.ctor_ok A SA fapp rd (@snd string dprog e))
    (@tl (string * dprog) GoGrad.ctor_table).
Proof. exact @HeapCtorP.ctor_table_ok. Qed.
Print Assumptions every_constructor_applies_the_three_way_tracking_rule.

Theorem constructor_result_explicit :
  forall (A : Type) (h : @heap A) (ns : list nat) (es : list (nat * @rule A)),
  @map (nat * @rule A) nat (@fst nat (@rule A)) es = ns ->
  @encCtx A (@mkCtx A h ns es) =
  (if @existsb nat (@dirtyOf A h) ns
   then @DL A [@DB A false; @DB A true; @DL A []]
   else
    if negb (@existsb nat (@trackedOf A h) ns)
    then @DL A [@DB A false; @DB A false; @DL A []]
    else @DL A [@DB A true; @DB A false; @DL A (@HeapCtorP.encTargets A 0 ns)]).
Proof. exact @HeapCtorP.encCtx_mkCtx. Qed.
Print Assumptions constructor_result_explicit.

Theorem topologicalOrder_marks_exactly_its_order_spent :
  forall (A : Type) (SA : Scalar A) (fapp : string -> list A -> option A) (rd : bred) 
    (h : heap) (root fuel depth : nat),
  BackpropP.wf_heap h ->
  root < Datatypes.length h ->
  depth > root + 1 ->
  fuel > Datatypes.length h ->
  exists g l : denv,
    drun fapp heap (hext rd) GoGrad.g_topologicalOrder fuel depth [DI (Z.of_nat root)] h =
    DRet heap [DL (map (fun i : nat => DI (Z.of_nat i)) (topoOrder h root))]
      (markDirty h (topoOrder h root)) g l.
Proof. exact @HeapTopoP.heap_topologicalOrder. Qed.
Print Assumptions topologicalOrder_marks_exactly_its_order_spent.

Theorem backward_from_untracked_root_changes_nothing :
  forall (A : Type) (SA : Scalar A) (fapp : string -> list A -> option A) (rd : bred) 
    (h : heap) (root fuel depth : nat),
  root < Datatypes.length h ->
  trackedOf h root = false ->
  exists g l : denv,
    drun fapp heap (hext rd) GoGrad.g_backward fuel depth
      [DL [DI (Z.of_nat root); DI (Z.of_nat root); DI (-1)]] h = DRet heap [DI 0] h g l.
Proof. exact @HeapBackP.backward_untracked. Qed.
Print Assumptions backward_from_untracked_root_changes_nothing.
