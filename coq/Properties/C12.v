(* C12 — Loss functions return the defined scalar for every prediction / target pair.
   Statements only (proofs: Proofs/LossP.v; real-number readings incl. non-negativity and the
   clipping bounds: Proofs/CompRP.v when present).  Arbitrary scalar type: the single element of
   the rank-0 result IS the stated expression (exact for doubles):
     mseF p t = (t - p)^2;   clipF l u e = max(l*e^0, min(e, u*e^0));
     bceF eps ome p t = -1 * (tc*log pc + (pc^0 - tc)*log(pc^0 - pc)),  tc = clip 0 1 t, pc = clip eps ome p;
     ceElF eps ome p t = tc * log pc;   result = (Σ …) / n.
   A *_tracks theorem says the heap computation IS the value-level composition whether or not
   the inputs are tracked (the value does not depend on tracking). *)
From Coq Require Import List ZArith Bool.
From Qeep Require Import Model.Scalar Model.Nd Model.Data Model.Api Model.Grad Model.Components.
From Coq Require Import Reals.
From Qeep Require Import Proofs.NdP Proofs.ElemP Proofs.CompP Proofs.LossP Spec.RScalar Proofs.CompRP.
Import ListNotations.

Theorem mse_value :
  forall (A : Type) (SA : Scalar A) (h : heap) (yp yt : targ) (p t : nat) (name : option nat)
    (pv tv : tensor A),
  lossArgs1 h yp yt = Some (p, t) ->
  valOf h p = Some pv ->
  valOf h t = Some tv ->
  wf pv ->
  wf tv ->
  exists (n : nat) (r : tensor A),
    dims pv = [n] /\
    dims tv = [n] /\
    produces h (mse_compute h yp yt name) r name /\
    dims r = [] /\
    wf r /\
    get (data r) [] =
    Some (sdiv (fold_left sadd (map2 mseF (flat (data pv)) (flat (data tv))) s0) (sofnat n)).
Proof. exact @mse_compute_spec. Qed.
Print Assumptions mse_value.

Theorem bce_value :
  forall (A : Type) (SA : Scalar A) (eps ome : A) (h : heap) (yp yt : targ) 
    (p t : nat) (name : option nat) (pv tv : tensor A),
  lossArgs1 h yp yt = Some (p, t) ->
  valOf h p = Some pv ->
  valOf h t = Some tv ->
  wf pv ->
  wf tv ->
  exists (n : nat) (r : tensor A),
    dims pv = [n] /\
    dims tv = [n] /\
    produces h (bce_compute eps ome h yp yt name) r name /\
    dims r = [] /\
    wf r /\
    get (data r) [] =
    Some (sdiv (fold_left sadd (map2 (bceF eps ome) (flat (data pv)) (flat (data tv))) s0) (sofnat n)).
Proof. exact @bce_compute_spec. Qed.
Print Assumptions bce_value.

Theorem ce_value :
  forall (A : Type) (SA : Scalar A) (eps ome : A) (h : heap) (yp yt : targ) 
    (p t : nat) (name : option nat) (pv tv : tensor A) (m k : nat) (P Tm : nat -> nat -> A),
  ceArgs h yp yt = Some (p, t) ->
  valOf h p = Some pv ->
  valOf h t = Some tv ->
  wf pv ->
  wf tv ->
  dims pv = [m; k] ->
  (forall i j : nat, (i < m)%nat -> (j < k)%nat -> get (data pv) [i; j] = Some (P i j)) ->
  (forall i j : nat, (i < m)%nat -> (j < k)%nat -> get (data tv) [i; j] = Some (Tm i j)) ->
  exists r : tensor A,
    produces h (ce_compute eps ome h yp yt name) r name /\
    dims r = [] /\
    wf r /\
    get (data r) [] =
    Some
      (sdiv
         (fold_left sadd
            (map
               (fun i : nat =>
                smul (sconst (-1) 0)
                  (fold_left sadd (map (fun j : nat => ceElF eps ome (P i j) (Tm i j)) (seq 0 k)) s0))
               (seq 0 m)) s0) (sofnat m)).
Proof. exact @ce_compute_spec. Qed.
Print Assumptions ce_value.

Theorem clip_value :
  forall (A : Type) (SA : Scalar A) (h : heap) (x : nat) (l u : A) (xv : tensor A),
  valOf h x = Some xv ->
  wf xv -> exists r : tensor A, produces h (clip h x l u) r None /\ pw1 (clipF l u) xv r.
Proof. exact @clip_spec. Qed.
Print Assumptions clip_value.

Theorem mse_value_ignores_tracking :
  forall (A : Type) (SA : Scalar A) (h : heap) (yp yt : targ) (p t : nat) (name : option nat)
    (pv tv : tensor A),
  lossArgs1 h yp yt = Some (p, t) ->
  valOf h p = Some pv -> valOf h t = Some tv -> tracks h (mse_compute h yp yt name) (mse_val pv tv) name.
Proof. exact @mse_compute_tracks. Qed.
Print Assumptions mse_value_ignores_tracking.

Theorem bce_value_ignores_tracking :
  forall (A : Type) (SA : Scalar A) (eps ome : A) (h : heap) (yp yt : targ) 
    (p t : nat) (name : option nat) (pv tv : tensor A),
  lossArgs1 h yp yt = Some (p, t) ->
  valOf h p = Some pv ->
  valOf h t = Some tv -> tracks h (bce_compute eps ome h yp yt name) (bce_val eps ome pv tv) name.
Proof. exact @bce_compute_tracks. Qed.
Print Assumptions bce_value_ignores_tracking.

Theorem ce_value_ignores_tracking :
  forall (A : Type) (SA : Scalar A) (eps ome : A) (h : heap) (yp yt : targ) 
    (p t : nat) (name : option nat) (pv tv : tensor A),
  ceArgs h yp yt = Some (p, t) ->
  valOf h p = Some pv ->
  valOf h t = Some tv -> tracks h (ce_compute eps ome h yp yt name) (ce_val eps ome pv tv) name.
Proof. exact @ce_compute_tracks. Qed.
Print Assumptions ce_value_ignores_tracking.

Theorem invalid_inputs_rejected_mse_bce :
  forall (A : Type) (SA : Scalar A) (eps ome : A) (h : heap) (yp yt : targ) (name : option nat),
  lossArgs1 h yp yt = None ->
  mse_compute h yp yt name = (h, Err) /\ bce_compute eps ome h yp yt name = (h, Err).
Proof. exact @losses1_reject. Qed.
Print Assumptions invalid_inputs_rejected_mse_bce.

Theorem invalid_inputs_rejected_ce :
  forall (A : Type) (SA : Scalar A) (eps ome : A) (h : heap) (yp yt : targ) (name : option nat),
  (forall p t : nat, ~ ceArgsPre h yp yt p t) -> ce_compute eps ome h yp yt name = (h, Err).
Proof. exact @ce_compute_rejects. Qed.
Print Assumptions invalid_inputs_rejected_ce.

Theorem failed_call_leaves_heap_unchanged :
  forall (A : Type) (SA : Scalar A) (eps ome : A) (h : heap) (yp yt : targ) (name : option nat),
  let unchanged := fun hr : hres => (forall id : nat, snd hr <> Ok id) -> fst hr = h in
  unchanged (mse_compute h yp yt name) /\
  unchanged (bce_compute eps ome h yp yt name) /\ unchanged (ce_compute eps ome h yp yt name).
Proof. exact @losses_fail_frame. Qed.
Print Assumptions failed_call_leaves_heap_unchanged.

Theorem mean_along_0_of_rank1 :
  forall (A : Type) (SA : Scalar A) (d : tensor A) (n : nat),
  wf d ->
  dims d = [n] ->
  exists r : tensor A,
    v_reduceAlong RdMean d 0 = Ok r /\
    dims r = [] /\ wf r /\ get (data r) [] = Some (sdiv (fold_left sadd (flat (data d)) s0) (sofnat n)).
Proof. exact @mean0_rank1. Qed.
Print Assumptions mean_along_0_of_rank1.

Theorem mse_over_reals_nonneg :
  forall (thr : R) (draw : bool -> nat -> R) (h : @heap R) (yp yt : targ) (p t : nat)
    (name : option nat) (pv tv : tensor R),
  @lossArgs1 R h yp yt = @Some (nat * nat) (p, t) ->
  @valOf R h p = @Some (tensor R) pv ->
  @valOf R h t = @Some (tensor R) tv ->
  @wf R pv ->
  @wf R tv ->
  exists (n : nat) (r : tensor R) (v : R),
    @dims R pv = [n] /\
    @dims R tv = [n] /\
    @produces R h (@mse_compute R (RS thr draw) h yp yt name) r name /\
    @dims R r = [] /\
    @get R (@data R r) [] = @Some R v /\
    v =
    ReduceRP.Rsum
      (@map2 R (fun p0 t0 : R => (t0 - p0) ^ 2) (@flat R (@data R pv)) (@flat R (@data R tv))) / 
    INR n /\ ((0 < n)%nat -> 0 <= v).
Proof. exact @mse_compute_real. Qed.
Print Assumptions mse_over_reals_nonneg.

Theorem bce_over_reals_nonneg :
  forall (thr : R) (draw : bool -> nat -> R) (h : @heap R) (yp yt : targ) (p t : nat)
    (name : option nat) (pv tv : tensor R),
  @lossArgs1 R h yp yt = @Some (nat * nat) (p, t) ->
  @valOf R h p = @Some (tensor R) pv ->
  @valOf R h t = @Some (tensor R) tv ->
  @wf R pv ->
  @wf R tv ->
  exists (n : nat) (r : tensor R) (v : R),
    @dims R pv = [n] /\
    @dims R tv = [n] /\
    @produces R h (@bce_compute R (RS thr draw) epsR omeR h yp yt name) r name /\
    @dims R r = [] /\
    @get R (@data R r) [] = @Some R v /\
    v =
    ReduceRP.Rsum
      (@map2 R
         (fun p0 t0 : R =>
          let pc := Rmax epsR (Rmin p0 omeR) in
          let tc := Rmax 0 (Rmin t0 1) in - (tc * ln pc + (1 - tc) * ln (1 - pc)))
         (@flat R (@data R pv)) (@flat R (@data R tv))) / INR n /\ ((0 < n)%nat -> 0 <= v).
Proof. exact @bce_compute_real. Qed.
Print Assumptions bce_over_reals_nonneg.

Theorem ce_over_reals_nonneg :
  forall (thr : R) (draw : bool -> nat -> R) (h : @heap R) (yp yt : targ) (p t : nat)
    (name : option nat) (pv tv : tensor R) (m k : nat) (P Tm : nat -> nat -> R),
  @ceArgs R h yp yt = @Some (nat * nat) (p, t) ->
  @valOf R h p = @Some (tensor R) pv ->
  @valOf R h t = @Some (tensor R) tv ->
  @wf R pv ->
  @wf R tv ->
  @dims R pv = [m; k] ->
  (forall i j : nat, (i < m)%nat -> (j < k)%nat -> @get R (@data R pv) [i; j] = @Some R (P i j)) ->
  (forall i j : nat, (i < m)%nat -> (j < k)%nat -> @get R (@data R tv) [i; j] = @Some R (Tm i j)) ->
  exists (r : tensor R) (v : R),
    @produces R h (@ce_compute R (RS thr draw) epsR omeR h yp yt name) r name /\
    @dims R r = [] /\
    @get R (@data R r) [] = @Some R v /\
    v =
    ReduceRP.Rsum
      (@map nat R
         (fun i : nat =>
          -
          ReduceRP.Rsum
            (@map nat R (fun j : nat => Rmax 0 (Rmin (Tm i j) 1) * ln (Rmax epsR (Rmin (P i j) omeR)))
               (seq 0 k))) (seq 0 m)) / INR m /\ 0 <= v.
Proof. exact @ce_compute_real. Qed.
Print Assumptions ce_over_reals_nonneg.

Theorem clip_is_max_min :
  forall (thr : R) (draw : bool -> nat -> R) (l u e : R),
  l <= u -> @clipF R (RS thr draw) l u e = Rmax l (Rmin e u) /\ l <= @clipF R (RS thr draw) l u e <= u.
Proof. exact @clip_is. Qed.
Print Assumptions clip_is_max_min.

Theorem bce_formula :
  forall (thr : R) (draw : bool -> nat -> R) (eps ome p t : R),
  let pc := Rmax eps (Rmin p ome) in
  let tc := Rmax 0 (Rmin t 1) in
  @bceF R (RS thr draw) eps ome p t = - (tc * ln pc + (1 - tc) * ln (1 - pc)).
Proof. exact @bce_is. Qed.
Print Assumptions bce_formula.

Theorem ce_formula :
  forall (thr : R) (draw : bool -> nat -> R) (eps ome p t : R),
  let pc := Rmax eps (Rmin p ome) in
  let tc := Rmax 0 (Rmin t 1) in @ceElF R (RS thr draw) eps ome p t = tc * ln pc.
Proof. exact @ce_is. Qed.
Print Assumptions ce_formula.

Theorem log_arguments_stay_inside_clipping_interval :
  forall (thr : R) (draw : bool -> nat -> R) (p : R),
  let pc := @clipF R (RS thr draw) epsR omeR p in
  pc = Rmax epsR (Rmin p (1 - epsR)) /\ epsR <= pc <= 1 - epsR /\ epsR <= 1 - pc <= 1 - epsR.
Proof. exact @bce_log_arguments_go. Qed.
Print Assumptions log_arguments_stay_inside_clipping_interval.

Theorem epsilon_is_1e_12 :
  epsR = / 10 ^ 12.
Proof. exact @epsilon_value. Qed.
Print Assumptions epsilon_is_1e_12.

Theorem one_minus_epsilon :
  omeR = 1 - epsR.
Proof. exact @one_minus_epsilon_value. Qed.
Print Assumptions one_minus_epsilon.
